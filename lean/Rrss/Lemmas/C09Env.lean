/-
  Rrss.Lemmas.C09Env — a small Hoare logic for the interpreter monad `M`, specialised to what
  C09 (crash freedom) needs: the length of the scope stack.

  `Tri P m Q E`: started in an environment satisfying `P`, `m` does not crash; if it answers
  `ok a` the final environment satisfies `Q a`; if it answers `err _` it satisfies `E`
  (`fuel`/`resource` abort everything: nothing is claimed).
  `MOk k p m`: started with exactly `k` scopes, `m` does not crash, an `ok a` result leaves
  exactly `k` scopes and satisfies `p a`, an `err` leaves at least `k` scopes (a failed function
  call leaves its scope behind, as in the Rust code).
-/
import Rrss.Env
import Rrss.Lemmas.C09Val
set_option linter.unusedSectionVars false
namespace Rrss
namespace C09
variable [CharOps] {N : Type} [NumOps N] {α β : Type}
open Env

def OutSat (r : Outcome (RtErr N) α × Env N) (Q : α → Env N → Prop) (E : Env N → Prop) : Prop :=
  match r with
  | (.ok a, env') => Q a env'
  | (.err _, env') => E env'
  | (.crash _, _) => False
  | (.fuel, _) => True
  | (.resource, _) => True

@[simp] theorem outSat_ok (a : α) (e : Env N) (Q : α → Env N → Prop) (E : Env N → Prop) :
    OutSat (.ok a, e) Q E = Q a e := rfl
@[simp] theorem outSat_err (x : RtErr N) (e : Env N) (Q : α → Env N → Prop) (E : Env N → Prop) :
    OutSat (.err x, e) Q E = E e := rfl
@[simp] theorem outSat_crash (s : Site) (e : Env N) (Q : α → Env N → Prop) (E : Env N → Prop) :
    OutSat (.crash s, e) Q E = False := rfl
@[simp] theorem outSat_fuel (e : Env N) (Q : α → Env N → Prop) (E : Env N → Prop) :
    OutSat (.fuel, e) Q E = True := rfl
@[simp] theorem outSat_resource (e : Env N) (Q : α → Env N → Prop) (E : Env N → Prop) :
    OutSat (.resource, e) Q E = True := rfl

theorem OutSat.not_crash {r : Outcome (RtErr N) α × Env N} {Q : α → Env N → Prop}
    {E : Env N → Prop} (h : OutSat r Q E) (s : Site) : r.1 ≠ .crash s := by
  rcases r with ⟨(_ | _ | _ | _ | _), _⟩ <;> simp_all

def Tri (P : Env N → Prop) (m : M N α) (Q : α → Env N → Prop) (E : Env N → Prop) : Prop :=
  ∀ env, P env → OutSat (m env) Q E

theorem Tri.bind {P : Env N → Prop} {m : M N α} {Q : α → Env N → Prop} {E : Env N → Prop}
    {f : α → M N β} {R : β → Env N → Prop}
    (h1 : Tri P m Q E) (h2 : ∀ a, Tri (Q a) (f a) R E) : Tri P (m >>= f) R E := by
  intro env hP
  have h := h1 env hP
  show OutSat (M.bind m f env) R E
  unfold M.bind
  rcases hm : m env with ⟨(a | e | s | _ | _), env'⟩ <;> rw [hm] at h <;> simp_all
  exact h2 a env' h

theorem Tri.pure {P : Env N → Prop} {a : α} {Q : α → Env N → Prop} {E : Env N → Prop}
    (h : ∀ env, P env → Q a env) : Tri P (pure a : M N α) Q E := fun env hP => h env hP

theorem Tri.conseq {P P' : Env N → Prop} {m : M N α} {Q Q' : α → Env N → Prop}
    {E E' : Env N → Prop} (h : Tri P m Q E) (hP : ∀ env, P' env → P env)
    (hQ : ∀ a env, Q a env → Q' a env) (hE : ∀ env, E env → E' env) : Tri P' m Q' E' := by
  intro env hP'
  have h := h env (hP env hP')
  rcases hm : m env with ⟨(a | e | s | _ | _), env'⟩ <;> rw [hm] at h <;> simp_all

/-- a precondition that nothing satisfies -/
theorem Tri.false_pre {P : Env N → Prop} {m : M N α} {Q : α → Env N → Prop} {E : Env N → Prop}
    (h : ∀ env, ¬ P env) : Tri P m Q E := fun env hP => absurd hP (h env)

/-- a pure fact carried in the precondition -/
theorem Tri.pre_and {P : Env N → Prop} {p : Prop} {m : M N α} {Q : α → Env N → Prop}
    {E : Env N → Prop} (h : p → Tri P m Q E) : Tri (fun env => P env ∧ p) m Q E :=
  fun env hP => h hP.2 env hP.1

/-- exactly `k` scopes -/
def Len (k : Nat) (env : Env N) : Prop := env.scopes.length = k
/-- at least `k` scopes -/
def Ge (k : Nat) (env : Env N) : Prop := k ≤ env.scopes.length

theorem Len.ge {k : Nat} {env : Env N} (h : Len k env) : Ge k env := Nat.le_of_eq h.symm

def MOk (k : Nat) (p : α → Prop) (m : M N α) : Prop :=
  Tri (Len k) m (fun a env => Len k env ∧ p a) (Ge k)

theorem MOk.bind {k : Nat} {p : α → Prop} {m : M N α} {q : β → Prop} {f : α → M N β}
    (h1 : MOk k p m) (h2 : ∀ a, p a → MOk k q (f a)) : MOk k q (m >>= f) :=
  Tri.bind h1 (fun a => Tri.pre_and (h2 a))

theorem MOk.pure {k : Nat} {q : α → Prop} (a : α) (h : q a) : MOk k q (pure a : M N α) :=
  Tri.pure (fun _ hl => ⟨hl, h⟩)

theorem MOk.mono {k : Nat} {p q : α → Prop} {m : M N α} (h : MOk k p m) (hpq : ∀ a, p a → q a) :
    MOk k q m :=
  Tri.conseq h (fun _ h => h) (fun a _ h => ⟨h.1, hpq a h.2⟩) (fun _ h => h)

theorem MOk.triv {k : Nat} {p : α → Prop} {m : M N α} (h : MOk k p m) : MOk k (fun _ => True) m :=
  h.mono (fun _ _ => trivial)

/-! ### primitives -/

theorem mok_fail {k : Nat} {q : α → Prop} (e : RtErr N) : MOk k q (M.fail e : M N α) :=
  fun _ h => h.ge
theorem mok_outOfFuel {k : Nat} {q : α → Prop} : MOk k q (M.outOfFuel : M N α) :=
  fun _ _ => trivial
theorem mok_outOfResource {k : Nat} {q : α → Prop} : MOk k q (M.outOfResource : M N α) :=
  fun _ _ => trivial
theorem mok_get {k : Nat} : MOk k (fun _ => True) (M.get : M N (Env N)) :=
  fun _ h => ⟨h, trivial⟩

theorem mok_liftV {k : Nat} (r : VRes N α) (h : r.NoCrash) : MOk k (fun _ => True) (M.liftV r) := by
  intro env hl
  cases r <;> simp_all [M.liftV]
  exact hl.ge

theorem mok_liftE {k : Nat} (r : Except (RtErr N) α) : MOk k (fun _ => True) (M.liftE r) := by
  intro env hl
  cases r <;> simp_all [M.liftE]
  exact hl.ge

theorem mok_assert {k : Nat} (s : Site) (b : Bool) (h : b = true) :
    MOk k (fun _ => True) (M.assert s b : M N Unit) := by
  subst h; exact fun _ hl => ⟨hl, trivial⟩

theorem mok_tick {k : Nat} : MOk k (fun _ => True) (tick : M N Unit) := by
  intro env hl
  unfold tick; split <;> simp_all [Len]

theorem mok_lookupVar {k : Nat} (n : VarName) : MOk k (fun _ => True) (lookupVar n : M N (Val N)) := by
  intro env hl
  unfold lookupVar; dsimp only; split <;> simp_all [Len, Ge]

theorem mok_lastAccess {k : Nat} : MOk k (fun _ => True) (lastAccess : M N (Val N)) := by
  intro env hl
  unfold lastAccess; split
  · simp; exact hl.ge
  · split <;> simp_all [Len, Ge]

theorem mok_createFunc {k : Nat} (hk : 1 ≤ k) (n : VarName) (ps : List VarName) (b : Block N) :
    MOk k (fun _ => True) (createFunc n ps b) := by
  intro env hl
  unfold createFunc; split
  · simp_all [Len]; omega
  · split <;> simp_all [Len, Ge]

theorem mok_output {k : Nat} (t : Str) : MOk k (fun _ => True) (output t : M N Unit) := by
  intro env hl
  unfold output; dsimp only; split
  · simp_all [Len]
  · split <;> simp_all [Len, Ge]

theorem mok_inputLine {k : Nat} : MOk k (fun _ => True) (inputLine : M N Str) := by
  intro env hl
  unfold inputLine; split
  · simp_all [Len]
  · split
    · simp; exact hl.ge
    · simp_all [Len]

/-! ### scopes -/

theorem tri_pushScope {k : Nat} {E : Env N → Prop} :
    Tri (Len k) (pushScope : M N Unit) (fun _ => Len (k + 1)) E := by
  intro env hl
  simp_all [Env.pushScope, M.modify, Len]

theorem tri_pushFunctionScope {k : Nat} (args : List (VarName × Val N)) :
    Tri (Len k) (pushFunctionScope args : M N Unit) (fun _ => Len (k + 1)) (Ge k) := by
  intro env hl
  unfold Env.pushFunctionScope; split <;> simp_all [Len, Ge]

/-- `pop_scope` is safe when there are at least two scopes: the `debug_assert!` holds -/
theorem tri_popScope {k : Nat} (hk : 1 ≤ k) {E : Env N → Prop} :
    Tri (Len (k + 1)) (popScope : M N Unit) (fun _ => Len k) E := by
  intro env hl
  unfold Env.popScope
  rcases hs : env.scopes with _ | ⟨s1, _ | ⟨s2, rest⟩⟩ <;> simp_all [Len]

/-- push; body; pop; continuation -/
theorem mok_scoped {k : Nat} (hk : 1 ≤ k) {push : M N Unit} {p : α → Prop} {body : M N α}
    {q : β → Prop} {cont : α → M N β}
    (hpush : Tri (Len k) push (fun _ => Len (k + 1)) (Ge k))
    (hbody : MOk (k + 1) p body) (hcont : ∀ a, p a → MOk k q (cont a)) :
    MOk k q (push >>= fun _ => body >>= fun a => popScope >>= fun _ => cont a) := by
  refine Tri.bind hpush (fun _ => ?_)
  refine Tri.bind (E := Ge k) (Q := fun a env => Len (k + 1) env ∧ p a) ?_ (fun a => ?_)
  · exact Tri.conseq hbody (fun _ h => h) (fun _ _ h => h) (fun env h => Nat.le_of_succ_le h)
  · refine Tri.pre_and (fun hp => ?_)
    exact Tri.bind (tri_popScope hk) (fun _ => hcont a hp)

end C09
end Rrss
