/-
  Rrss.Lemmas.ValLaws — helper lemmas for C14: symmetry of the derived deep equality `eqv`
  (under well-formedness: distinct dictionary keys), of `equals`, the swap law of `compare`,
  string order facts, and the unfolding of `applyOp` on an already evaluated right operand.
-/
import Rrss.Lemmas.ValWF
set_option linter.unusedSectionVars false
namespace Rrss

/-! ### string order -/

theorem strCmp_swap (s t : Str) : strCmp t s = (strCmp s t).swap := by
  induction s generalizing t with
  | nil => cases t <;> simp [strCmp]
  | cons a as ih =>
    cases t with
    | nil => simp [strCmp]
    | cons b bs =>
      simp only [strCmp]
      by_cases h1 : a.toNat < b.toNat
      · have h2 : ¬ b.toNat < a.toNat := by omega
        simp [h1, h2]
      · by_cases h2 : b.toNat < a.toNat
        · simp [h1, h2]
        · simp [h1, h2, ih]

theorem strCmp_eq_iff (s t : Str) : strCmp s t = .eq ↔ s = t := by
  induction s generalizing t with
  | nil => cases t <;> simp [strCmp]
  | cons a as ih =>
    cases t with
    | nil => simp [strCmp]
    | cons b bs =>
      simp only [strCmp]
      by_cases h1 : a.toNat < b.toNat
      · have : a ≠ b := by intro e; subst e; omega
        simp [h1, this]
      · by_cases h2 : b.toNat < a.toNat
        · have : a ≠ b := by intro e; subst e; omega
          simp [h1, h2, this]
        · have : a = b := by
            apply Char.ext; apply UInt32.toNat_inj.mp
            have : a.val.toNat = a.toNat := rfl
            have : b.val.toNat = b.toNat := rfl
            omega
          simp [this, ih]

namespace Val
open NumOps
variable {N : Type} [NumOps N]

/-! ### numbers -/

theorem beq_symm (L : NumLaws N) (a b : N) : beq a b = beq b a := by
  rw [L.beq_cmp a b, L.beq_cmp b a, L.cmp_swap a b]
  cases cmp a b with
  | none => rfl
  | some o => cases o <;> rfl

/-! ### symmetry of the derived equality -/

/-- "`a` is symmetric": equality with any well-formed partner transfers to the other order -/
def Symm (a : Val N) : Prop := ∀ b, WF a → WF b → eqv a b = true → eqv b a = true

theorem eqvList_symm_of : ∀ (l1 l2 : List (Val N)), (∀ a ∈ l1, Symm a) →
    WFList l1 → WFList l2 → eqvList l1 l2 = true → eqvList l2 l1 = true
  | [], [], _, _, _, _ => by simp [eqvList]
  | [], _ :: _, _, _, _, h => by simp [eqvList] at h
  | _ :: _, [], _, _, _, h => by simp [eqvList] at h
  | a :: as, b :: bs, hs, h1, h2, h => by
    simp only [eqvList, Bool.and_eq_true] at h ⊢
    simp only [WFList] at h1 h2
    exact ⟨hs a List.mem_cons_self b h1.1 h2.1 h.1,
      eqvList_symm_of as bs (fun x hx => hs x (List.mem_cons_of_mem _ hx)) h1.2 h2.2 h.2⟩

/-- `eqvDict d1 d2`, spelled out -/
theorem eqvDict_iff (d1 d2 : List (Key × Val N)) :
    eqvDict d1 d2 = true ↔ ∀ kv ∈ d1, ∃ v', dlookup kv.1 d2 = some v' ∧ eqv kv.2 v' = true := by
  induction d1 with
  | nil => simp [eqvDict]
  | cons a d1 ih =>
    obtain ⟨k, v⟩ := a
    simp only [eqvDict, Bool.and_eq_true, ih, List.mem_cons, forall_eq_or_imp]
    constructor
    · rintro ⟨h1, h2⟩
      refine ⟨?_, h2⟩
      cases hl : dlookup k d2 with
      | none => simp [hl] at h1
      | some v' => simp [hl] at h1; exact ⟨v', rfl, h1⟩
    · rintro ⟨⟨v', h1, h1'⟩, h2⟩
      exact ⟨by simp [h1, h1'], h2⟩

/-- a duplicate-free list included in another one of the same length: the inclusion is an
    equality of sets (pigeonhole) -/
theorem subset_of_nodup_length {α : Type} [DecidableEq α] :
    ∀ (l1 l2 : List α), l1.Nodup → l1.length = l2.length → (∀ x ∈ l1, x ∈ l2) →
      ∀ x ∈ l2, x ∈ l1
  | [], l2, _, hl, _, x, hx => by
    have : l2 = [] := List.length_eq_zero_iff.mp hl.symm
    simp [this] at hx
  | a :: l1, l2, hn, hl, hsub, x, hx => by
    have ha : a ∈ l2 := hsub a List.mem_cons_self
    have hn' := List.nodup_cons.mp hn
    by_cases hxa : x = a
    · simp [hxa]
    · have hlen : l1.length = (l2.erase a).length := by
        rw [List.length_erase_of_mem ha]; simp at hl; omega
      have hsub' : ∀ y ∈ l1, y ∈ l2.erase a := by
        intro y hy
        have hya : y ≠ a := by intro e; subst e; exact hn'.1 hy
        exact (List.mem_erase_of_ne hya).mpr (hsub y (List.mem_cons_of_mem _ hy))
      have := subset_of_nodup_length l1 (l2.erase a) hn'.2 hlen hsub' x
        ((List.mem_erase_of_ne hxa).mpr hx)
      exact List.mem_cons_of_mem _ this
termination_by l1 => l1.length

theorem eqvDict_symm_of (d1 d2 : List (Key × Val N)) (hs : ∀ kv ∈ d1, Symm kv.2)
    (w1 : WFDict d1) (w2 : WFDict d2)
    (n1 : (d1.map Prod.fst).Nodup) (n2 : (d2.map Prod.fst).Nodup)
    (hl : d1.length = d2.length) (h : eqvDict d1 d2 = true) : eqvDict d2 d1 = true := by
  rw [eqvDict_iff] at h ⊢
  have hsub : ∀ k ∈ d1.map Prod.fst, k ∈ d2.map Prod.fst := by
    intro k hk
    obtain ⟨kv, hkv, rfl⟩ := List.mem_map.mp hk
    obtain ⟨v', hv', -⟩ := h kv hkv
    exact dlookup_isSome_iff.mp (by simp [hv'])
  have hback := subset_of_nodup_length _ _ n1 (by simpa using hl) hsub
  intro kv hkv
  obtain ⟨k, v'⟩ := kv
  have hk1 : k ∈ d1.map Prod.fst := hback k (List.mem_map.mpr ⟨(k, v'), hkv, rfl⟩)
  obtain ⟨⟨k0, v⟩, hkv1, hk0⟩ := List.mem_map.mp hk1
  simp only at hk0; subst hk0
  obtain ⟨v'', hv'', he⟩ := h (k0, v) hkv1
  have : v'' = v' := by
    have := dlookup_of_mem n2 hkv
    simp only at hv''
    rw [this] at hv''; exact (Option.some.inj hv'').symm
  subst this
  refine ⟨v, dlookup_of_mem n1 hkv1, ?_⟩
  exact hs (k0, v) hkv1 v'' ((WFDict_iff _).mp w1 _ hkv1) ((WFDict_iff _).mp w2 _ hkv) he

mutual
theorem symm_val : (a : Val N) → NumLaws N → Symm a
  | undef, _ => by intro b _ _ h; cases b <;> simp_all [eqv]
  | null, _ => by intro b _ _ h; cases b <;> simp_all [eqv]
  | bool x, _ => by intro b _ _ h; cases b <;> simp_all [eqv]
  | num x, L => by
    intro b _ _ h
    cases b <;> simp only [eqv] at h ⊢ <;> try contradiction
    rw [beq_symm L]; exact h
  | str x, _ => by intro b _ _ h; cases b <;> simp_all [eqv]
  | arr s1 d1, L => by
    intro b w1 w2 h
    cases b <;> simp only [eqv] at h ⊢ <;> try contradiction
    next s2 d2 =>
    simp only [Bool.and_eq_true, beq_iff_eq] at h ⊢
    simp only [WF] at w1 w2
    exact ⟨⟨eqvList_symm_of s1 s2 (symm_list s1 L) w1.1 w2.1 h.1.1, h.1.2.symm⟩,
      eqvDict_symm_of d1 d2 (symm_dict d1 L) w1.2.1 w2.2.1 w1.2.2 w2.2.2 h.1.2 h.2⟩
theorem symm_list : (l : List (Val N)) → NumLaws N → ∀ a ∈ l, Symm a
  | [], _ => by simp
  | a :: as, L => by
    intro x hx
    rcases List.mem_cons.mp hx with h | h
    · exact h ▸ symm_val a L
    · exact symm_list as L x h
theorem symm_dict : (d : List (Key × Val N)) → NumLaws N → ∀ kv ∈ d, Symm kv.2
  | [], _ => by simp
  | (k, v) :: rest, L => by
    intro x hx
    rcases List.mem_cons.mp hx with h | h
    · exact h ▸ symm_val v L
    · exact symm_dict rest L x h
end

/-- The derived `==` on values is symmetric on well-formed values. -/
theorem eqv_symm (L : NumLaws N) {a b : Val N} (wa : WF a) (wb : WF b) : eqv a b = eqv b a := by
  cases h1 : eqv a b with
  | true => exact (symm_val a L b wa wb h1).symm
  | false =>
    cases h2 : eqv b a with
    | false => rfl
    | true => rw [symm_val b L a wb wa h2] at h1; cases h1

end Val
end Rrss

namespace Rrss
namespace Val
open NumOps
variable {N : Type} [NumOps N]

/-! ### `equals` and `compare` -/

theorem equals_symm (L : NumLaws N) {a b : Val N} (wa : WF a) (wb : WF b) :
    equals a b = equals b a := by
  cases a <;> cases b
  case arr.arr =>
    simp only [equals, cmpCoerced, kind, if_true]
    exact eqv_symm L wa wb
  case num.str n s =>
    simp only [equals, cmpCoerced, kind]
    cases (parse s : Option N) <;> simp [eqv, beq_symm L]
  case str.num s n =>
    simp only [equals, cmpCoerced, kind]
    cases (parse s : Option N) <;> simp [eqv, beq_symm L]
  all_goals
    simp [equals, cmpCoerced, kind, eqv, decay, isTruthy, beq_symm L, Bool.beq_comm]

/-- `compare` answers `Ok` or `InvalidComparison` of its two arguments, nothing else -/
theorem compare_cases (a b : Val N) :
    (∃ o, compare a b = .ok o) ∨ compare a b = .err (.invalidComparison a b) := by
  unfold compare
  split
  · exact .inl ⟨_, rfl⟩
  · split <;> first | exact .inl ⟨_, rfl⟩ | exact .inr rfl

/-- the whole swap law of `compare` in one equation -/
theorem compare_swap (L : NumLaws N) (a b : Val N) :
    compare b a = match compare a b with
      | .ok o => .ok (o.map Ordering.swap)
      | .err _ => .err (.invalidComparison b a)
      | .crash s => .crash s | .fuel => .fuel | .resource => .resource := by
  cases a <;> cases b
  case num.str n s =>
    simp only [compare, cmpCoerced, kind]
    cases (parse s : Option N) with
    | none => simp
    | some m => simp; exact L.cmp_swap _ _
  case str.num s n =>
    simp only [compare, cmpCoerced, kind]
    cases (parse s : Option N) with
    | none => simp
    | some m => simp; exact L.cmp_swap _ _
  all_goals
    simp [compare, cmpCoerced, kind, decay, isTruthy]
  all_goals first | exact L.cmp_swap _ _ | exact strCmp_swap _ _

/-- on an ordered pair, "equal in the order" is `equals` -/
theorem compare_some_eq_iff (L : NumLaws N) {a b : Val N} {o : Ordering}
    (h : compare a b = .ok (some o)) : o = .eq ↔ equals a b = true := by
  unfold compare at h
  unfold equals
  cases hc : cmpCoerced a b with
  | none => simp [hc] at h
  | some p =>
    obtain ⟨x, y⟩ := p
    simp only [hc] at h ⊢
    cases x <;> cases y <;> simp only [eqv] at h ⊢ <;> try (cases h; done)
    · cases h; simp
    · cases h; simp
    · next n m =>
      rw [L.beq_cmp]
      have : cmp n m = some o := by simpa using h
      rw [this]; cases o <;> simp
    · next s t =>
      have : strCmp s t = o := by simpa using h
      subst this
      rw [strCmp_eq_iff]; simp

/-- an unordered pair is not equal -/
theorem compare_none_not_equals (L : NumLaws N) {a b : Val N}
    (h : compare a b = .ok none) : equals a b = false := by
  unfold compare at h
  unfold equals
  cases hc : cmpCoerced a b with
  | none => rfl
  | some p =>
    obtain ⟨x, y⟩ := p
    simp only [hc] at h ⊢
    cases x <;> cases y <;> simp only [eqv] at h ⊢ <;> try (cases h; done)
    next n m =>
      rw [L.beq_cmp]
      have : cmp n m = none := by simpa using h
      rw [this]; rfl

end Val
end Rrss
