/-
  Rrss.Lemmas.ParseRecase — helper definitions and lemmas for C15, text level, parser half:
  on token lists that agree up to the letter case of the spellings (`ToksRel`: same kinds,
  positions, payloads; capitalisation test of word tokens preserved; the raw text taken by a
  poetic string literal identical) the parser ends the same way and produces syntax trees that
  agree up to the letter case of names and of the words of poetic number literals
  (`eProgram p' = eProgram p`).

  A relational Hoare logic for the parser monad (`PRel R m m'`), one lemma per non-recursive
  function of Rrss/Parser.lean under the hypothesis that the fields of `rec` are related
  (`RecRel rec rec'`), then induction on the fuel.
-/
import Rrss.Lemmas.LexRecase
import Rrss.Lemmas.RenamePoetic
import Rrss.Lemmas.ParserFuelBase
set_option linter.unusedSectionVars false
set_option linter.unusedVariables false
namespace Rrss
namespace Recase
open Lexer CharOps Keys Parser

variable {N : Type}

/-! ## erasing letter case from syntax trees -/

/-- ASCII-lower-case the word of an element of a poetic number literal -/
def lowerElem : PoeticElem → PoeticElem
  | .word s => .word (s.map asciiLowerChar)
  | .suffix s => .suffix (s.map asciiLowerChar)
  | .dot => .dot

section
variable [CharOps]

/-- a syntax tree with letter case erased: every name replaced by its key, every word of a poetic
    number literal ASCII-lower-cased (string literals, poetic string literals, numbers, positions
    stay) -/
def eStmt (s : Stmt N) : Stmt N := RenameP.stmt VarName.key lowerElem s
def eStmts (ss : List (Stmt N)) : List (Stmt N) := RenameP.stmts VarName.key lowerElem ss
def eBlock (b : Block N) : Block N := RenameP.block VarName.key lowerElem b
def eBlocks (bs : List (Block N)) : List (Block N) := RenameP.blocks VarName.key lowerElem bs
def eProgram (p : Program N) : Program N := RenameP.program VarName.key lowerElem p

notation "eIdent" => Rename.ident VarName.key
notation "ePrim" => Rename.primary VarName.key
notation "eExpr" => Rename.expr VarName.key
notation "eExprs" => Rename.exprs VarName.key
notation "eLhs" => Rename.lhs VarName.key

theorem eStmts_nil : eStmts ([] : List (Stmt N)) = [] := by simp [eStmts, RenameP.stmts]
theorem eStmts_cons (s : Stmt N) (ss : List (Stmt N)) : eStmts (s :: ss) = eStmt s :: eStmts ss := by
  simp [eStmts, eStmt, RenameP.stmts]
theorem eBlock_mk (loc : Loc) (ss : List (Stmt N)) : eBlock (.mk loc ss) = .mk loc (eStmts ss) := by
  simp [eBlock, eStmts, RenameP.block]
theorem eBlocks_nil : eBlocks ([] : List (Block N)) = [] := by simp [eBlocks, RenameP.blocks]
theorem eBlocks_cons (b : Block N) (bs : List (Block N)) : eBlocks (b :: bs) = eBlock b :: eBlocks bs := by
  simp [eBlocks, eBlock, RenameP.blocks]
theorem eProgram_mk (bs : List (Block N)) : eProgram ⟨bs⟩ = ⟨eBlocks bs⟩ := by
  simp [eProgram, eBlocks, RenameP.program]

theorem eBlock_isEmpty {b b' : Block N} (h : eBlock b' = eBlock b) : b'.isEmpty = b.isEmpty := by
  cases b with | mk l ss => cases b' with | mk l' ss' =>
  simp only [eBlock_mk, Block.mk.injEq] at h
  cases ss <;> cases ss' <;> simp_all [eStmts_nil, eStmts_cons, Block.isEmpty]

end

/-! ## tokens and parser states -/

section
variable [CharOps]

/-- the same token up to the letter case of its spelling, as far as the parser can tell: string
    payloads are equal, the capitalisation test of `parse_capitalized_identifier` answers the
    same -/
structure PTokRel (t t' : Tok N) : Prop where
  kind : t'.kind = t.kind
  spelling : RC t.spelling t'.spelling
  start : t'.start = t.start
  range : t'.range = t.range
  num : t'.num = t.num
  text : t.kind = .stringLit → t'.text = t.text
  after : t'.after = t.after
  cap : isCapitalizedWord t' = isCapitalizedWord t

/-- the raw text a poetic string literal takes when `t` is its `says` token and `rest` are the
    tokens after it: from the end of `t` to the next `Newline` token (`none`: a crash site) -/
def sayText (src : Str) (t : Tok N) (rest : List (Tok N)) : Option Str :=
  (literalTextOf src t (rest.find? fun u => u.kind == .newline)).bind (stripPrefix? t.spelling)

/-- token lists related token by token; after a `says`/`say` token the text up to the next
    `Newline` token is the same in both sources -/
inductive ToksRel (src src' : Str) : List (Tok N) → List (Tok N) → Prop
  | nil : ToksRel src src' [] []
  | cons {t t' ts ts'} : PTokRel t t' →
      ((t.kind = .says ∨ t.kind = .say) → sayText src' t' ts' = sayText src t ts) →
      ToksRel src src' ts ts' → ToksRel src src' (t :: ts) (t' :: ts')

structure PStRel (st st' : PState N) : Prop where
  len : ulen st'.src = ulen st.src
  toks : ToksRel st.src st'.src st.toks st'.toks
  last : st'.last = st.last
  eof : st'.eof = st.eof
  parsingList : st'.parsingList = st.parsingList

/-! ## errors -/

def CodeRel : PCode N → PCode N → Prop
  | .generic s, .generic s' => s' = s
  | .missingIDAfterCommonPrefix p, .missingIDAfterCommonPrefix p' => RC p p'
  | .mutationOperandMustBeIdentifier p, .mutationOperandMustBeIdentifier p' => ePrim p' = ePrim p
  | .expectedPrimaryExpression, .expectedPrimaryExpression => True
  | .expectedIdentifier, .expectedIdentifier => True
  | .expectedText s, .expectedText s' => s' = s
  | .expectedToken k, .expectedToken k' => k' = k
  | .expectedOneOfTokens ks, .expectedOneOfTokens ks' => ks' = ks
  | .expectedPoeticNumberLiteral, .expectedPoeticNumberLiteral => True
  | .expectedSpaceAfterSays t, .expectedSpaceAfterSays t' => PTokRel t t'
  | .unexpectedToken, .unexpectedToken => True
  | .unexpectedEndOfTokens, .unexpectedEndOfTokens => True
  | .poeticLiteralEndingWithHyphen, .poeticLiteralEndingWithHyphen => True
  | .poeticLiteralStartingWithHyphen, .poeticLiteralStartingWithHyphen => True
  | _, _ => False

def LocRel : ErrLoc N → ErrLoc N → Prop
  | .token t, .token t' => PTokRel t t'
  | .line n, .line n' => n' = n
  | _, _ => False

/-- the same parse error: same code, same location, the tokens / names / prefixes it mentions
    agree up to letter case -/
def ErrRel (e e' : ParseErr N) : Prop := CodeRel e.code e'.code ∧ LocRel e.loc e'.loc

/-! ## relational Hoare logic for `P` -/

variable {α α' β β' : Type}

/-- outcomes of two parser runs: the same constructor; `ok` results related by `Q` (which may
    look at the final states), final states related; errors related; the same crash site -/
def PORel (Q : α → α' → PState N → PState N → Prop) :
    Outcome (ParseErr N) (α × PState N) → Outcome (ParseErr N) (α' × PState N) → Prop
  | .ok (a, st), .ok (a', st') => Q a a' st st' ∧ PStRel st st'
  | .err e, .err e' => ErrRel e e'
  | .crash s, .crash s' => s = s'
  | .fuel, .fuel => True
  | .resource, .resource => True
  | _, _ => False

/-- from related states the two actions end the same way -/
def PRelS (Q : α → α' → PState N → PState N → Prop) (m : P N α) (m' : P N α') : Prop :=
  ∀ st st', PStRel st st' → PORel Q (m st) (m' st')

abbrev PRel (R : α → α' → Prop) (m : P N α) (m' : P N α') : Prop :=
  PRelS (fun a a' _ _ => R a a') m m'

theorem PORel.imp {Q Q' : α → α' → PState N → PState N → Prop}
    {o : Outcome (ParseErr N) (α × PState N)} {o' : Outcome (ParseErr N) (α' × PState N)}
    (h : PORel Q o o') (hi : ∀ a a' st st', Q a a' st st' → Q' a a' st st') : PORel Q' o o' := by
  rcases o with ⟨a, st⟩ | e | s | _ | _ <;> rcases o' with ⟨a', st'⟩ | e' | s' | _ | _ <;>
    simp_all [PORel]

theorem PRelS.imp {Q Q' : α → α' → PState N → PState N → Prop} {m : P N α} {m' : P N α'}
    (h : PRelS Q m m') (hi : ∀ a a' st st', Q a a' st st' → Q' a a' st st') : PRelS Q' m m' :=
  fun st st' hst => (h st st' hst).imp hi

theorem PORel.bind {Q : α → α' → PState N → PState N → Prop}
    {Q2 : β → β' → PState N → PState N → Prop} {m : P N α} {m' : P N α'}
    {f : α → P N β} {f' : α' → P N β'} {st st' : PState N} (h : PORel Q (m st) (m' st'))
    (h2 : ∀ a a' st st', Q a a' st st' → PStRel st st' → PORel Q2 (f a st) (f' a' st')) :
    PORel Q2 (P.bind m f st) (P.bind m' f' st') := by
  unfold P.bind
  rcases hm : m st with ⟨a, st1⟩ | e | s | _ | _ <;>
    rcases hm' : m' st' with ⟨a', st1'⟩ | e' | s' | _ | _ <;>
    rw [hm, hm'] at h <;> simp only [PORel] at h <;> try (exact h.elim)
  · exact h2 a a' st1 st1' h.1 h.2
  · exact h
  · exact h
  · trivial
  · trivial

theorem PRelS.bindS {Q : α → α' → PState N → PState N → Prop}
    {Q2 : β → β' → PState N → PState N → Prop} {m : P N α} {m' : P N α'}
    {f : α → P N β} {f' : α' → P N β'} (h1 : PRelS Q m m')
    (h2 : ∀ a a' st st', Q a a' st st' → PStRel st st' → PORel Q2 (f a st) (f' a' st')) :
    PRelS Q2 (P.bind m f) (P.bind m' f') :=
  fun st st' hst => PORel.bind (h1 st st' hst) h2

theorem PRel.bind {R : α → α' → Prop} {Q2 : β → β' → PState N → PState N → Prop}
    {m : P N α} {m' : P N α'} {f : α → P N β} {f' : α' → P N β'} (h1 : PRel R m m')
    (h2 : ∀ a a', R a a' → PRelS Q2 (f a) (f' a')) : PRelS Q2 (P.bind m f) (P.bind m' f') :=
  PRelS.bindS h1 fun a a' st st' hr hst => h2 a a' hr st st' hst

theorem PRel.pure {R : α → α' → Prop} {a : α} {a' : α'} (h : R a a') :
    PRel (N := N) R (P.pure a) (P.pure a') :=
  fun _ _ hst => ⟨h, hst⟩

theorem PRelS.crash {Q : α → α' → PState N → PState N → Prop} (s : Site) :
    PRelS Q (P.crash s : P N α) (P.crash s : P N α') := fun _ _ _ => rfl

theorem PRelS.fuel {Q : α → α' → PState N → PState N → Prop} :
    PRelS Q (P.fuel : P N α) (P.fuel : P N α') := fun _ _ _ => trivial

theorem PRelS.fail {Q : α → α' → PState N → PState N → Prop} {e e' : ParseErr N}
    (h : ErrRel e e') : PRelS Q (P.fail e : P N α) (P.fail e' : P N α') := fun _ _ _ => h

theorem ofOption_rel {R : α → α' → Prop} (s : Site) {o : Option α} {o' : Option α'}
    (h : ORel R o o') : PRel (N := N) R (P.ofOption s o) (P.ofOption s o') := by
  cases o <;> cases o' <;> simp only [ORel] at h
  · exact PRelS.crash s
  · exact PRel.pure h

theorem ofOption_same (s : Site) (o : Option α) :
    PRel (N := N) Eq (P.ofOption s o) (P.ofOption s o) := by
  cases o
  · exact PRelS.crash s
  · exact PRel.pure rfl

/-! ### primitives -/

theorem ToksRel.head? {src src' : Str} {ts ts' : List (Tok N)} (h : ToksRel src src' ts ts') :
    ORel PTokRel ts.head? ts'.head? := by
  cases h with
  | nil => trivial
  | cons h _ _ => exact h

theorem errLocOf_rel {st st' : PState N} (h : PStRel st st') : LocRel (errLocOf st) (errLocOf st') := by
  unfold errLocOf
  have ht := h.toks
  revert ht
  generalize st.toks = ts
  generalize st'.toks = ts'
  intro ht
  cases ht with
  | nil => exact congrArg Snap.line h.last
  | cons h1 _ _ => exact h1

theorem failWith_rel {Q : α → α' → PState N → PState N → Prop} {c c' : PCode N}
    (h : CodeRel c c') : PRelS Q (failWith c : P N α) (failWith c' : P N α') :=
  fun _ _ hst => ⟨h, errLocOf_rel hst⟩

theorem current_rel : PRel (N := N) (ORel PTokRel) current current :=
  fun _ _ hst => ⟨hst.toks.head?, hst⟩

/-- a step of the parser over the head token -/
theorem PStRel.step {st st' : PState N} {t t' : Tok N} {ts ts' : List (Tok N)}
    (h : PStRel st st') (ht : PTokRel t t') (hts : ToksRel st.src st'.src ts ts') :
    PStRel { st with toks := ts, last := t.after } { st' with toks := ts', last := t'.after } :=
  ⟨h.len, hts, ht.after, h.eof, h.parsingList⟩

/-- the shape of two related states, for case analysis -/
theorem PStRel.cases {st st' : PState N} (h : PStRel st st') :
    (st.toks = [] ∧ st'.toks = []) ∨
    ∃ t t' ts ts', st.toks = t :: ts ∧ st'.toks = t' :: ts' ∧ PTokRel t t' ∧
      ((t.kind = .says ∨ t.kind = .say) → sayText st'.src t' ts' = sayText st.src t ts) ∧
      ToksRel st.src st'.src ts ts' := by
  have ht := h.toks
  revert ht
  generalize st.toks = ts
  generalize st'.toks = ts'
  intro ht
  cases ht with
  | nil => left; exact ⟨rfl, rfl⟩
  | cons h1 h2 h3 => right; exact ⟨_, _, _, _, rfl, rfl, h1, h2, h3⟩

theorem currentMatches_rel {m : Tok N → Bool} (hm : ∀ t t', PTokRel t t' → m t' = m t) :
    PRel (N := N) Eq (currentMatches m) (currentMatches m) := by
  intro st st' hst
  unfold currentMatches
  rcases hst.cases with ⟨e1, e2⟩ | ⟨t, t', ts, ts', e1, e2, ht, _, _⟩
  · rw [e1, e2]; exact ⟨rfl, hst⟩
  · rw [e1, e2]; exact ⟨(hm t t' ht).symm, hst⟩

theorem currentLine_rel : PRel (N := N) Eq currentLine currentLine :=
  fun _ _ hst => ⟨by rw [hst.last], hst⟩

theorem currentLoc_rel : PRel (N := N) Eq currentLoc currentLoc := by
  intro st st' hst
  unfold currentLoc
  rw [hst.last, hst.len]
  split
  · split
    · exact ⟨rfl, hst⟩
    · rfl
  · rfl

theorem currentOrError_rel : PRel (N := N) PTokRel currentOrError currentOrError := by
  intro st st' hst
  unfold currentOrError
  rcases hst.cases with ⟨e1, e2⟩ | ⟨t, t', ts, ts', e1, e2, ht, _, _⟩
  · rw [e1, e2]; exact ⟨trivial, errLocOf_rel hst⟩
  · rw [e1, e2]; exact ⟨ht, hst⟩

/-- what is known of a token just consumed: related, and — if it is a `says`/`say` token — the
    text it governs is the same -/
def Consumed (t t' : Tok N) (st st' : PState N) : Prop :=
  PTokRel t t' ∧
    ((t.kind = .says ∨ t.kind = .say) → sayText st'.src t' st'.toks = sayText st.src t st.toks)

theorem advance_rel : PRel (N := N) (ORel PTokRel) advance advance := by
  intro st st' hst
  unfold advance
  rcases hst.cases with ⟨e1, e2⟩ | ⟨t, t', ts, ts', e1, e2, ht, _, hts⟩
  · rw [e1, e2]; exact ⟨trivial, hst.len, .nil, hst.eof, hst.eof, hst.parsingList⟩
  · rw [e1, e2]; exact ⟨ht, hst.step ht hts⟩

theorem matchAndConsume_relS {m : Tok N → Bool} (hm : ∀ t t', PTokRel t t' → m t' = m t) :
    PRelS (N := N) (fun a a' st st' => match a, a' with
      | none, none => True
      | some t, some t' => Consumed t t' st st'
      | _, _ => False) (matchAndConsume m) (matchAndConsume m) := by
  intro st st' hst
  unfold matchAndConsume
  rcases hst.cases with ⟨e1, e2⟩ | ⟨t, t', ts, ts', e1, e2, ht, hs, hts⟩
  · rw [e1, e2]; exact ⟨trivial, hst⟩
  · rw [e1, e2]
    simp only [hm t t' ht]
    split
    · exact ⟨⟨ht, hs⟩, hst.step ht hts⟩
    · exact ⟨trivial, hst⟩

theorem matchAndConsume_rel {m : Tok N → Bool} (hm : ∀ t t', PTokRel t t' → m t' = m t) :
    PRel (N := N) (ORel PTokRel) (matchAndConsume m) (matchAndConsume m) :=
  (matchAndConsume_relS hm).imp fun a a' st st' h => by
    cases a <;> cases a' <;> simp only [ORel] <;> first | exact h | exact h.1

theorem matchAndConsumeP_rel :
    PRel (N := N) (ORel PTokRel) (matchAndConsumeP isCapitalizedWord)
      (matchAndConsumeP isCapitalizedWord) := by
  intro st st' hst
  unfold matchAndConsumeP
  rcases hst.cases with ⟨e1, e2⟩ | ⟨t, t', ts, ts', e1, e2, ht, hs, hts⟩
  · rw [e1, e2]; exact ⟨trivial, hst⟩
  · rw [e1, e2]
    simp only [ht.cap]
    rcases isCapitalizedWord t with (_ | _) | e | s | _ | _
    · exact ⟨trivial, hst⟩
    · exact ⟨ht, hst.step ht hts⟩
    · trivial
    · rfl
    · trivial
    · trivial

theorem consume_rel {m : Tok N → Bool} (hm : ∀ t t', PTokRel t t' → m t' = m t) :
    PRel (N := N) PTokRel (consume m) (consume m) := by
  intro st st' hst
  unfold consume
  rcases hst.cases with ⟨e1, e2⟩ | ⟨t, t', ts, ts', e1, e2, ht, hs, hts⟩
  · rw [e1, e2]; rfl
  · rw [e1, e2]
    simp only [hm t t' ht]
    split
    · exact ⟨ht, hst.step ht hts⟩
    · rfl

theorem getParsingList_rel : PRel (N := N) Eq getParsingList getParsingList :=
  fun _ _ hst => ⟨hst.parsingList.symm, hst⟩

theorem setParsingList_rel (b : Bool) : PRel (N := N) Eq (setParsingList b) (setParsingList b) :=
  fun _ _ hst => ⟨rfl, hst.len, hst.toks, hst.last, hst.eof, rfl⟩

end

/-! ### token matchers -/

theorem RC.eq_iff_of_noLetter {s s' l : Str} (h : RC s s') (hl : ∀ c ∈ l, ¬ Letter c) :
    s' = l ↔ s = l := by
  induction h generalizing l with
  | nil => exact Iff.rfl
  | cons hc _ ih =>
    cases l with
    | nil => simp
    | cons x l =>
      simp only [List.cons.injEq]
      rw [hc.eq_iff (hl x (by simp)), ih fun c hc' => hl c (by simp [hc'])]

section
variable [CharOps]

theorem isKind_rel (k : TK) (t t' : Tok N) (h : PTokRel t t') : isKind k t' = isKind k t := by
  unfold isKind; rw [h.kind]

theorem isAnyKind_rel (ks : List TK) (t t' : Tok N) (h : PTokRel t t') :
    isAnyKind ks t' = isAnyKind ks t := by
  unfold isAnyKind; rw [h.kind]

theorem isHyphen_rel (t t' : Tok N) (h : PTokRel t t') : isHyphen t' = isHyphen t := by
  unfold isHyphen
  rw [h.kind]
  have : (t'.spelling == ['-']) = (t.spelling == ['-']) := by
    rw [Bool.eq_iff_iff]; simp only [beq_iff_eq]
    exact h.spelling.eq_iff_of_noLetter (by decide)
  rw [this]

variable (laws : AsciiLaws)
include laws

theorem isIspelled_rel (text : Str) (t t' : Tok N) (h : PTokRel t t') :
    isIspelled text t' = isIspelled text t := by
  unfold isIspelled; rw [h.spelling.lower laws]

theorem isWordTok_rel (t t' : Tok N) (h : PTokRel t t') :
    isWord t'.spelling = isWord t.spelling := h.spelling.isWord laws

theorem isPoeticNumberLiteralToken_rel (t t' : Tok N) (h : PTokRel t t') :
    isPoeticNumberLiteralToken t' = isPoeticNumberLiteralToken t := by
  unfold isPoeticNumberLiteralToken
  rw [h.kind, isHyphen_rel t t' h, h.spelling.isWord laws]

omit laws in
theorem literalOf_rel (t t' : Tok N) (h : PTokRel t t') : literalOf t' = literalOf t := by
  unfold literalOf
  rw [h.kind, h.num]
  cases hk : t.kind <;> simp only []
  rw [h.text hk]

end

/-! ### relations on results -/

section
variable [CharOps]

/-- names with positions -/
def VR (x x' : VarName × Range) : Prop := x'.1.key = x.1.key ∧ x'.2 = x.2
/-- identifiers with positions -/
def IR (x x' : Ident × Range) : Prop := eIdent x'.1 = eIdent x.1 ∧ x'.2 = x.2
/-- words of a proper name with positions -/
def NamesR (l l' : List (Str × Range)) : Prop :=
  l'.map (fun x => (lower x.1, x.2)) = l.map (fun x => (lower x.1, x.2))
/-- parameter lists -/
def ParamsR (l l' : List (VarName × Range)) : Prop :=
  l'.map (fun x => (x.1.key, x.2)) = l.map (fun x => (x.1.key, x.2))
/-- poetic number literals -/
def PoeticR (l l' : List PoeticElem) : Prop := l'.map lowerElem = l.map lowerElem

abbrev PrimR (p p' : Primary N) : Prop := ePrim p' = ePrim p
abbrev ExprR (e e' : Expr N) : Prop := eExpr e' = eExpr e
abbrev ExprsR (e e' : List (Expr N)) : Prop := eExprs e' = eExprs e
abbrev LhsR (e e' : Lhs N) : Prop := eLhs e' = eLhs e
def ExprListR (l l' : ExprList N) : Prop := eExpr l'.first = eExpr l.first ∧ eExprs l'.rest = eExprs l.rest
abbrev StmtR (s s' : Stmt N) : Prop := eStmt s' = eStmt s
abbrev StmtsR (s s' : List (Stmt N)) : Prop := eStmts s' = eStmts s
abbrev BlockR (s s' : Block N) : Prop := eBlock s' = eBlock s
abbrev BlocksR (s s' : List (Block N)) : Prop := eBlocks s' = eBlocks s
abbrev ProgramR (s s' : Program N) : Prop := eProgram s' = eProgram s

/-- the hypothesis on `rec`: corresponding fields are related -/
structure RecRel (r r' : Parser.Rec N) : Prop where
  unary : PRel ExprR r.unary r'.unary
  primary : PRel PrimR r.primary r'.primary
  subscriptChain : ∀ a a' i i', PrimR a a' → PrimR i i' →
    PRel (fun x x' => PrimR x.1 x'.1 ∧ PrimR x.2 x'.2) (r.subscriptChain a i) (r'.subscriptChain a' i')
  binLoop : ∀ lvl e e', ExprR e e' → PRel ExprR (r.binLoop lvl e) (r'.binLoop lvl e')
  listLoop : ∀ lvl, PRel ExprsR (r.listLoop lvl) (r'.listLoop lvl)
  fancyLoop : ∀ e e', ExprR e e' → PRel ExprR (r.fancyLoop e) (r'.fancyLoop e')
  argsLoop : PRel ExprsR r.argsLoop r'.argsLoop
  paramsLoop : PRel ParamsR r.paramsLoop r'.paramsLoop
  poeticLoop : PRel PoeticR r.poeticLoop r'.poeticLoop
  buildKnockLoop : ∀ k, PRel Eq (r.buildKnockLoop k) (r'.buildKnockLoop k)
  capitalizedLoop : PRel NamesR r.capitalizedLoop r'.capitalizedLoop
  block : PRel BlockR r.block r'.block
  functionBlock : PRel BlockR r.functionBlock r'.functionBlock
  stmtLoop : PRel StmtsR r.stmtLoop r'.stmtLoop
  fnStmtLoop : PRel StmtsR r.fnStmtLoop r'.fnStmtLoop
  topLoop : PRel BlocksR r.topLoop r'.topLoop
  expression : PRel ExprR r.expression r'.expression
  program : PRel ProgramR r.program r'.program

end

/-! ## the functions of the parser, bottom-up -/

section
variable [CharOps]

/-- case analysis on two related options -/
macro "ocases " h:ident " : " o:ident o':ident : tactic =>
  `(tactic| (rcases $o:ident with _ | $o:ident <;> rcases $o':ident with _ | $o':ident <;>
      simp only [ORel] at $h:ident <;> (try exact ($h).elim) <;> (try simp only [])))

/-- an error built by `new_parse_error` on both sides -/
macro "pfail" : tactic =>
  `(tactic| (refine failWith_rel ?_; first | exact rfl | trivial | assumption))

theorem expectToken_rel (k : TK) : PRel (N := N) PTokRel (expectToken k) (expectToken k) := by
  unfold expectToken; pnorm
  refine PRel.bind (matchAndConsume_rel (isKind_rel k)) fun t t' h => ?_
  ocases h : t t'
  · pfail
  · exact PRel.pure h

theorem expectTokenOrEnd_rel (k : TK) :
    PRel (N := N) (ORel PTokRel) (expectTokenOrEnd k) (expectTokenOrEnd k) := by
  unfold expectTokenOrEnd; pnorm
  refine PRel.bind current_rel fun t t' h => ?_
  ocases h : t t'
  · exact PRel.pure trivial
  · rw [h.kind]
    split
    · exact advance_rel
    · pfail

theorem expectAny_relS (ks : List TK) :
    PRelS (N := N) Consumed (expectAny ks) (expectAny ks) := by
  unfold expectAny; pnorm
  refine PRelS.bindS (matchAndConsume_relS (isAnyKind_rel ks)) fun t t' st st' h hst => ?_
  rcases t with _ | t <;> rcases t' with _ | t' <;> simp only [] at h <;> try (exact h.elim)
  · exact failWith_rel (c := .expectedOneOfTokens ks) (c' := .expectedOneOfTokens ks) rfl st st' hst
  · exact ⟨h, hst⟩

theorem expectAny_rel (ks : List TK) : PRel (N := N) PTokRel (expectAny ks) (expectAny ks) :=
  (expectAny_relS ks).imp fun _ _ _ _ h => h.1

theorem expectEol_rel : PRel (N := N) Eq expectEol expectEol := by
  unfold expectEol; pnorm
  refine PRel.bind (matchAndConsume_rel (isAnyKind_rel _)) fun _ _ _ => ?_
  refine PRel.bind (expectTokenOrEnd_rel _) fun _ _ _ => ?_
  exact PRel.pure rfl

variable (laws : AsciiLaws)
include laws

theorem expectTokenIspelled_rel (text : Str) :
    PRel (N := N) PTokRel (expectTokenIspelled text) (expectTokenIspelled text) := by
  unfold expectTokenIspelled; pnorm
  refine PRel.bind (matchAndConsume_rel (isIspelled_rel laws text)) fun t t' h => ?_
  ocases h : t t'
  · pfail
  · exact PRel.pure h

omit laws in
theorem parsePronoun_rel : PRel (N := N) (ORel IR) parsePronoun parsePronoun := by
  unfold parsePronoun; pnorm
  refine PRel.bind (matchAndConsume_rel (isKind_rel _)) fun t t' h => ?_
  ocases h : t t'
  · exact PRel.pure trivial
  · exact PRel.pure ⟨rfl, h.range⟩

omit laws in
theorem parseLiteralExpression_rel :
    PRel (N := N) Eq parseLiteralExpression parseLiteralExpression := by
  unfold parseLiteralExpression; pnorm
  refine PRel.bind current_rel fun t t' h => ?_
  ocases h : t t'
  · exact PRel.pure rfl
  · rw [literalOf_rel t t' h]
    cases literalOf t with
    | none => exact PRel.pure rfl
    | some l =>
      simp only []
      refine PRel.bind advance_rel fun _ _ _ => ?_
      exact PRel.pure (by rw [h.range])

theorem key_simple {s s' : Str} (h : RC s s') :
    (VarName.simple s').key = (VarName.simple s).key := by
  simp only [VarName.key, h.lower laws]

theorem parseCommonIdentifier_rel :
    PRel (N := N) (ORel VR) parseCommonIdentifier parseCommonIdentifier := by
  unfold parseCommonIdentifier; pnorm
  refine PRel.bind (matchAndConsume_rel (isKind_rel _)) fun pre pre' h => ?_
  ocases h : pre pre'
  · exact PRel.pure trivial
  · refine PRel.bind (matchAndConsume_rel (isWordTok_rel laws)) fun nx nx' hn => ?_
    ocases hn : nx nx'
    · exact failWith_rel h.spelling
    · exact PRel.pure ⟨by simp only [VarName.key, h.spelling.lower laws, hn.spelling.lower laws],
        by simp only [h.range, hn.range]⟩

theorem parseSimpleIdentifier_rel :
    PRel (N := N) (ORel VR) parseSimpleIdentifier parseSimpleIdentifier := by
  unfold parseSimpleIdentifier; pnorm
  refine PRel.bind (matchAndConsume_rel (isKind_rel _)) fun t t' h => ?_
  ocases h : t t'
  · exact PRel.pure trivial
  · exact PRel.pure ⟨key_simple laws h.spelling, h.range⟩

variable {rec rec' : Parser.Rec N} (hr : RecRel rec rec')
include hr

theorem capitalizedLoopBody_rel :
    PRel NamesR (capitalizedLoopBody rec) (capitalizedLoopBody rec') := by
  unfold capitalizedLoopBody; pnorm
  refine PRel.bind matchAndConsumeP_rel fun t t' h => ?_
  ocases h : t t'
  · exact PRel.pure rfl
  · refine PRel.bind hr.capitalizedLoop fun l l' hl => ?_
    refine PRel.pure ?_
    unfold NamesR at hl ⊢
    simp only [List.map_cons, hl, h.spelling.lower laws, h.range]

theorem parseCapitalizedIdentifier_rel :
    PRel (ORel VR) (parseCapitalizedIdentifier rec) (parseCapitalizedIdentifier rec') := by
  unfold parseCapitalizedIdentifier; pnorm
  refine PRel.bind (capitalizedLoopBody_rel laws hr) fun l l' hl => ?_
  unfold NamesR at hl
  have hsnd : l'.map Prod.snd = l.map Prod.snd := by
    have := congrArg (List.map Prod.snd) hl
    simpa [List.map_map, Function.comp_def] using this
  have hfst : (l'.map Prod.fst).map lower = (l.map Prod.fst).map lower := by
    have := congrArg (List.map Prod.fst) hl
    simpa [List.map_map, Function.comp_def] using this
  have hlen : l'.length = l.length := by simpa using congrArg List.length hl
  match l, l', hlen with
  | [], [], _ => exact PRel.pure trivial
  | [x], [x'], _ =>
    simp only []
    simp only [List.map_cons, List.map_nil, List.cons.injEq, and_true] at hsnd hfst
    simp only [List.map_cons, List.map_nil, List.head?_cons, hsnd]
    refine PRel.bind (ofOption_rel (R := fun s s' => lower s' = lower s) _ hfst) fun f f' hf => ?_
    refine PRel.bind (ofOption_same _ _) fun r r' hrr => ?_
    subst hrr
    exact PRel.pure ⟨by simp only [VarName.key, hf], rfl⟩
  | x :: y :: r, x' :: y' :: r', _ =>
    simp only []
    rw [hsnd]
    refine PRel.bind (ofOption_same _ _) fun rg rg' hrr => ?_
    subst hrr
    exact PRel.pure ⟨by simp only [VarName.key, hfst], rfl⟩

theorem parseVariableName_rel :
    PRel (ORel VR) (parseVariableName rec) (parseVariableName rec') := by
  unfold parseVariableName; pnorm
  refine PRel.bind (parseCommonIdentifier_rel laws) fun c c' h => ?_
  ocases h : c c'
  · refine PRel.bind (parseCapitalizedIdentifier_rel laws hr) fun c c' h => ?_
    ocases h : c c'
    · exact parseSimpleIdentifier_rel laws
    · exact PRel.pure h
  · exact PRel.pure h

theorem parseIdentifier_rel :
    PRel (ORel IR) (parseIdentifier rec) (parseIdentifier rec') := by
  unfold parseIdentifier; pnorm
  refine PRel.bind (parseVariableName_rel laws hr) fun v v' h => ?_
  ocases h : v v'
  · exact parsePronoun_rel
  · obtain ⟨v, r⟩ := v
    obtain ⟨v', r'⟩ := v'
    exact PRel.pure ⟨by simp only [Rename.ident, h.1], h.2⟩

theorem expectIdentifier_rel :
    PRel IR (expectIdentifier rec) (expectIdentifier rec') := by
  unfold expectIdentifier; pnorm
  refine PRel.bind (parseIdentifier_rel laws hr) fun v v' h => ?_
  ocases h : v v'
  · pfail
  · exact PRel.pure h

theorem expectVariableName_rel :
    PRel VR (expectVariableName rec) (expectVariableName rec') := by
  unfold expectVariableName; pnorm
  refine PRel.bind (parseVariableName_rel laws hr) fun v v' h => ?_
  ocases h : v v'
  · pfail
  · exact PRel.pure h

/-! ### parameter lists, calls, primary expressions -/

omit laws hr in
theorem ite_rel {γ γ' : Type} {Q : γ → γ' → PState N → PState N → Prop} {c : Prop} [Decidable c]
    {a b : P N γ} {a' b' : P N γ'} (h1 : c → PRelS Q a a') (h2 : ¬ c → PRelS Q b b') :
    PRelS Q (if c then a else b) (if c then a' else b') := by
  by_cases hc : c
  · simp only [if_pos hc]; exact h1 hc
  · simp only [if_neg hc]; exact h2 hc

omit laws hr in
theorem pure_bind_rel {γ γ' δ δ' : Type} {Q : δ → δ' → PState N → PState N → Prop} {a : γ} {a' : γ'}
    {f : γ → P N δ} {f' : γ' → P N δ'} (h : PRelS Q (f a) (f' a')) :
    PRelS Q (P.bind (pure a) f) (P.bind (pure a') f') := h

omit laws hr in
theorem paramLoopBody_rel {γ : Type} {R : γ → γ → Prop} {L : List γ → List γ → Prop}
    (hnil : L [] []) (hcons : ∀ x x' xs xs', R x x' → L xs xs' → L (x :: xs) (x' :: xs'))
    {p p' : P N γ} {again again' : P N (List γ)} (hp : PRel R p p') (ha : PRel L again again')
    (rc : Bool) : PRel L (paramLoopBody p again rc) (paramLoopBody p' again' rc) := by
  unfold paramLoopBody; pnorm
  refine PRel.bind (matchAndConsume_rel (isAnyKind_rel _)) fun sep sep' h => ?_
  ocases h : sep sep'
  · exact PRel.pure hnil
  · rw [h.kind]
    have tail : PRel L (p.bind fun x => again.bind fun xs => pure (x :: xs))
        (p'.bind fun x => again'.bind fun xs => pure (x :: xs)) := by
      refine PRel.bind hp fun x x' hx => ?_
      refine PRel.bind ha fun xs xs' hxs => ?_
      exact PRel.pure (hcons _ _ _ _ hx hxs)
    refine ite_rel (fun _ => ?_) (fun _ => ?_)
    · exact PRel.bind (matchAndConsume_rel (isKind_rel _)) fun _ _ _ => tail
    · exact pure_bind_rel tail

omit laws hr in
theorem parseParameterList_rel {γ : Type} {R : γ → γ → Prop} {L : List γ → List γ → Prop}
    (hnil : L [] []) (hcons : ∀ x x' xs xs', R x x' → L xs xs' → L (x :: xs) (x' :: xs'))
    {p p' : P N γ} {again again' : P N (List γ)} (hp : PRel R p p') (ha : PRel L again again')
    (rc : Bool) : PRel L (parseParameterList p again rc) (parseParameterList p' again' rc) := by
  unfold parseParameterList; pnorm
  refine PRel.bind hp fun x x' hx => ?_
  refine PRel.bind (paramLoopBody_rel hnil hcons hp ha rc) fun xs xs' hxs => ?_
  exact PRel.pure (hcons _ _ _ _ hx hxs)

omit laws hr in
theorem exprsR_cons (x x' : Expr N) (xs xs' : List (Expr N)) (h : ExprR x x') (hs : ExprsR xs xs') :
    ExprsR (x :: xs) (x' :: xs') := by
  show Rename.exprs _ _ = Rename.exprs _ _
  simp only [Rename.exprs]
  rw [h, hs]

omit laws in
theorem argsLoopBody_rel : PRel ExprsR (argsLoopBody rec) (argsLoopBody rec') :=
  paramLoopBody_rel (L := ExprsR) rfl exprsR_cons hr.unary hr.argsLoop false

omit laws in
theorem parseFunctionCall_rel : PRel ExprsR (parseFunctionCall rec) (parseFunctionCall rec') := by
  unfold parseFunctionCall; pnorm
  refine PRel.bind (consume_rel (isKind_rel _)) fun _ _ _ => ?_
  exact parseParameterList_rel (L := ExprsR) rfl exprsR_cons hr.unary hr.argsLoop false

theorem parseIdentifierOrFunctionCall_rel :
    PRel (ORel PrimR) (parseIdentifierOrFunctionCall rec) (parseIdentifierOrFunctionCall rec') := by
  unfold parseIdentifierOrFunctionCall; pnorm
  refine PRel.bind parsePronoun_rel fun p p' h => ?_
  ocases h : p p'
  · refine PRel.bind (parseVariableName_rel laws hr) fun v v' h => ?_
    ocases h : v v'
    · exact PRel.pure trivial
    · obtain ⟨name, r⟩ := v
      obtain ⟨name', r'⟩ := v'
      obtain ⟨h1, h2⟩ := h
      simp only at h1 h2
      subst h2
      simp only []
      refine PRel.bind (currentMatches_rel (isKind_rel _)) fun tk tk' htk => ?_
      subst htk
      refine ite_rel (fun _ => ?_) (fun _ => ?_)
      · refine PRel.bind (parseFunctionCall_rel hr) fun args args' ha => ?_
        refine PRel.pure ?_
        show Rename.primary _ _ = Rename.primary _ _
        simp only [Rename.primary]
        rw [h1, ha]
      · refine PRel.pure ?_
        show Rename.primary _ _ = Rename.primary _ _
        simp only [Rename.primary, Rename.ident, h1]
  · obtain ⟨i, r⟩ := p
    obtain ⟨i', r'⟩ := p'
    obtain ⟨h1, h2⟩ := h
    simp only at h1 h2
    subst h2
    refine PRel.pure ?_
    show Rename.primary _ _ = Rename.primary _ _
    simp only [Rename.primary]
    rw [h1]

omit laws in
theorem parseArrayPopExpr_rel :
    PRel (ORel PrimR) (parseArrayPopExpr rec) (parseArrayPopExpr rec') := by
  unfold parseArrayPopExpr; pnorm
  refine PRel.bind (matchAndConsume_rel (isKind_rel _)) fun t t' h => ?_
  ocases h : t t'
  · exact PRel.pure trivial
  · refine PRel.bind hr.primary fun e e' he => ?_
    exact PRel.pure he

theorem parseNonSubscriptPrimary_rel :
    PRel PrimR (parseNonSubscriptPrimary rec) (parseNonSubscriptPrimary rec') := by
  unfold parseNonSubscriptPrimary; pnorm
  refine PRel.bind (parseIdentifierOrFunctionCall_rel laws hr) fun e e' h => ?_
  ocases h : e e'
  · refine PRel.bind parseLiteralExpression_rel fun l l' hl => ?_
    subst hl
    cases l with
    | some lr =>
      obtain ⟨l, r⟩ := lr
      exact PRel.pure rfl
    | none =>
      simp only []
      refine PRel.bind (parseArrayPopExpr_rel hr) fun a a' ha => ?_
      ocases ha : a a'
      · pfail
      · refine PRel.pure ?_
        show Rename.primary _ _ = Rename.primary _ _
        simp only [Rename.primary]
        rw [ha]
  · exact PRel.pure h

omit laws hr in
theorem primR_sub {a a' i i' : Primary N} (ha : PrimR a a') (hi : PrimR i i') :
    PrimR (.sub a i) (.sub a' i') := by
  show Rename.primary _ _ = Rename.primary _ _
  simp only [Rename.primary]
  rw [ha, hi]

theorem subscriptChain_rel {a a' i i' : Primary N} (ha : PrimR a a') (hi : PrimR i i') :
    PRel (fun x x' => PrimR x.1 x'.1 ∧ PrimR x.2 x'.2) (subscriptChain rec a i)
      (subscriptChain rec' a' i') := by
  unfold Parser.subscriptChain; pnorm
  refine PRel.bind (matchAndConsume_rel (isKind_rel _)) fun t t' h => ?_
  ocases h : t t'
  · exact PRel.pure ⟨ha, hi⟩
  · refine PRel.bind (parseNonSubscriptPrimary_rel laws hr) fun s s' hs => ?_
    exact hr.subscriptChain _ _ _ _ (primR_sub ha hi) hs

theorem parseArraySubscriptAfter_rel {e e' : Primary N} (he : PrimR e e') :
    PRel PrimR (parseArraySubscriptAfter rec e) (parseArraySubscriptAfter rec' e') := by
  unfold parseArraySubscriptAfter; pnorm
  refine PRel.bind (matchAndConsume_rel (isKind_rel _)) fun t t' h => ?_
  ocases h : t t'
  · exact PRel.pure he
  · refine PRel.bind (parseNonSubscriptPrimary_rel laws hr) fun s s' hs => ?_
    refine PRel.bind (subscriptChain_rel laws hr he hs) fun x x' hx => ?_
    obtain ⟨a, i⟩ := x
    obtain ⟨a', i'⟩ := x'
    exact PRel.pure (primR_sub hx.1 hx.2)

theorem parseAssignmentLhsWith_rel {i i' : Ident} (hi : eIdent i' = eIdent i) (r : Range) :
    PRel LhsR (parseAssignmentLhsWith rec i r) (parseAssignmentLhsWith rec' i' r) := by
  unfold parseAssignmentLhsWith; pnorm
  refine PRel.bind (matchAndConsume_rel (isKind_rel _)) fun t t' h => ?_
  ocases h : t t'
  · refine PRel.pure ?_
    show Rename.lhs _ _ = Rename.lhs _ _
    simp only [Rename.lhs]; rw [hi]
  · refine PRel.bind (parseNonSubscriptPrimary_rel laws hr) fun s s' hs => ?_
    have h0 : PrimR (N := N) (.ident i r) (.ident i' r) := by
      show Rename.primary _ _ = Rename.primary _ _
      simp only [Rename.primary]; rw [hi]
    refine PRel.bind (subscriptChain_rel laws hr h0 hs) fun x x' hx => ?_
    obtain ⟨a, j⟩ := x
    obtain ⟨a', j'⟩ := x'
    refine PRel.pure ?_
    show Rename.lhs _ _ = Rename.lhs _ _
    simp only [Rename.lhs]
    rw [hx.1, hx.2]

theorem parseAssignmentLhs_rel :
    PRel LhsR (parseAssignmentLhs rec) (parseAssignmentLhs rec') := by
  unfold parseAssignmentLhs; pnorm
  refine PRel.bind (expectIdentifier_rel laws hr) fun x x' hx => ?_
  obtain ⟨i, r⟩ := x
  obtain ⟨i', r'⟩ := x'
  obtain ⟨h1, h2⟩ := hx
  simp only at h1 h2
  subst h2
  exact parseAssignmentLhsWith_rel laws hr h1 _

theorem parsePrimary_rel : PRel PrimR (parsePrimary rec) (parsePrimary rec') := by
  unfold parsePrimary; pnorm
  refine PRel.bind (parseNonSubscriptPrimary_rel laws hr) fun e e' he => ?_
  exact parseArraySubscriptAfter_rel laws hr he

/-! ### the expression ladder -/

theorem parseUnary_rel : PRel ExprR (parseUnary rec) (parseUnary rec') := by
  unfold parseUnary; pnorm
  refine PRel.bind (matchAndConsume_rel (isAnyKind_rel _)) fun t t' h => ?_
  ocases h : t t'
  · refine PRel.bind (parsePrimary_rel laws hr) fun p p' hp => ?_
    refine PRel.pure ?_
    show Rename.expr _ _ = Rename.expr _ _
    simp only [Rename.expr]; rw [hp]
  · rw [h.kind]
    refine PRel.bind (ofOption_same _ _) fun op op' hop => ?_
    subst hop
    refine PRel.bind hr.unary fun e e' he => ?_
    refine PRel.pure ?_
    show Rename.expr _ _ = Rename.expr _ _
    simp only [Rename.expr]; rw [he]

omit laws in
theorem listLoopBody_rel (lvl : Level) {next next' : P N (Expr N)} (hn : PRel ExprR next next') :
    PRel ExprsR (listLoopBody rec lvl next) (listLoopBody rec' lvl next') := by
  unfold listLoopBody; pnorm
  refine PRel.bind (matchAndConsume_rel (isKind_rel _)) fun c c' h => ?_
  ocases h : c c'
  · exact PRel.pure rfl
  · refine PRel.bind (matchAndConsume_rel (isKind_rel _)) fun _ _ _ => ?_
    refine PRel.bind hn fun e e' he => ?_
    refine PRel.bind (hr.listLoop lvl) fun es es' hes => ?_
    exact PRel.pure (exprsR_cons _ _ _ _ he hes)

omit laws in
theorem parseExpressionList_rel (lvl : Level) {next next' : P N (Expr N)}
    (hn : PRel ExprR next next') :
    PRel ExprListR (parseExpressionList rec lvl next) (parseExpressionList rec' lvl next') := by
  unfold parseExpressionList; pnorm
  refine PRel.bind hn fun first first' hf => ?_
  refine PRel.bind getParsingList_rel fun w w' hw => ?_
  subst hw
  refine ite_rel (fun _ => ?_) (fun _ => ?_)
  · refine pure_bind_rel ?_
    refine PRel.bind (setParsingList_rel _) fun _ _ _ => ?_
    exact PRel.pure ⟨hf, rfl⟩
  · refine PRel.bind (setParsingList_rel _) fun _ _ _ => ?_
    refine PRel.bind (listLoopBody_rel hr lvl hn) fun rest rest' hrest => ?_
    refine PRel.bind (setParsingList_rel _) fun _ _ _ => ?_
    exact PRel.pure ⟨hf, hrest⟩

omit laws in
theorem binLoopBody_rel (lvl : Level) {next next' : P N (Expr N)} (hn : PRel ExprR next next')
    {e e' : Expr N} (he : ExprR e e') :
    PRel ExprR (binLoopBody rec lvl next e) (binLoopBody rec' lvl next' e') := by
  unfold binLoopBody; pnorm
  refine PRel.bind (matchAndConsume_rel (isAnyKind_rel _)) fun t t' h => ?_
  ocases h : t t'
  · exact PRel.pure he
  · rw [h.kind]
    refine PRel.bind (ofOption_same _ _) fun op op' hop => ?_
    subst hop
    refine PRel.bind (parseExpressionList_rel hr lvl hn) fun rhs rhs' hrhs => ?_
    refine hr.binLoop lvl _ _ ?_
    show Rename.expr _ _ = Rename.expr _ _
    simp only [Rename.expr]
    rw [he, hrhs.1, hrhs.2]

omit laws in
theorem parseBinaryExpression_rel (lvl : Level) {next next' : P N (Expr N)}
    (hn : PRel ExprR next next') :
    PRel ExprR (parseBinaryExpression rec lvl next) (parseBinaryExpression rec' lvl next') := by
  unfold parseBinaryExpression; pnorm
  refine PRel.bind hn fun e e' he => ?_
  exact binLoopBody_rel hr lvl hn he

theorem parseFactor_rel : PRel ExprR (parseFactor rec) (parseFactor rec') :=
  parseBinaryExpression_rel hr .factor (parseUnary_rel laws hr)

theorem parseTerm_rel : PRel ExprR (parseTerm rec) (parseTerm rec') :=
  parseBinaryExpression_rel hr .term (parseFactor_rel laws hr)

theorem parseFancyComparison_rel {lhs lhs' : Expr N} (hl : ExprR lhs lhs') :
    PRel ExprR (parseFancyComparison rec lhs) (parseFancyComparison rec' lhs') := by
  unfold parseFancyComparison; pnorm
  have tail : ∀ op : BinOp, PRel ExprR
      (P.bind (parseTerm rec) fun rhs => pure (Expr.bin op lhs rhs []))
      (P.bind (parseTerm rec') fun rhs => pure (Expr.bin op lhs' rhs [])) := by
    intro op
    refine PRel.bind (parseTerm_rel laws hr) fun rhs rhs' hrhs => ?_
    refine PRel.pure ?_
    show Rename.expr _ _ = Rename.expr _ _
    simp only [Rename.expr, Rename.exprs]
    rw [hl, hrhs]
  refine PRel.bind (matchAndConsume_rel (isKind_rel _)) fun a a' h => ?_
  ocases h : a a'
  · refine PRel.bind (matchAndConsume_rel (isAnyKind_rel _)) fun b b' hb => ?_
    ocases hb : b b'
    · refine PRel.bind (matchAndConsume_rel (isKind_rel _)) fun n n' hn => ?_
      ocases hn : n n'
      · exact pure_bind_rel (tail _)
      · exact pure_bind_rel (tail _)
    · rw [hb.kind]
      refine PRel.bind (ofOption_same _ _) fun op op' hop => ?_
      subst hop
      refine PRel.bind (expectToken_rel _) fun _ _ _ => ?_
      exact pure_bind_rel (tail _)
  · refine PRel.bind (expectAny_rel _) fun t t' ht => ?_
    rw [ht.kind]
    refine PRel.bind (ofOption_same _ _) fun op op' hop => ?_
    subst hop
    refine PRel.bind (expectToken_rel _) fun _ _ _ => ?_
    exact pure_bind_rel (tail _)

theorem fancyLoopBody_rel {e e' : Expr N} (he : ExprR e e') :
    PRel ExprR (fancyLoopBody rec e) (fancyLoopBody rec' e') := by
  unfold fancyLoopBody; pnorm
  refine PRel.bind (matchAndConsume_rel (isAnyKind_rel _)) fun t t' h => ?_
  ocases h : t t'
  · exact PRel.pure he
  · refine PRel.bind (parseFancyComparison_rel laws hr he) fun x x' hx => ?_
    exact hr.fancyLoop _ _ hx

theorem parseComparison_rel : PRel ExprR (parseComparison rec) (parseComparison rec') := by
  unfold parseComparison; pnorm
  refine PRel.bind (parseTerm_rel laws hr) fun e e' he => ?_
  refine PRel.bind (matchAndConsume_rel (isAnyKind_rel _)) fun t t' h => ?_
  ocases h : t t'
  · exact binLoopBody_rel hr .comparison (parseTerm_rel laws hr) he
  · refine PRel.bind (parseFancyComparison_rel laws hr he) fun x x' hx => ?_
    exact fancyLoopBody_rel laws hr hx

theorem parseLogical_rel : PRel ExprR (parseLogical rec) (parseLogical rec') :=
  parseBinaryExpression_rel hr .logical (parseComparison_rel laws hr)

theorem parseExpression_rel : PRel ExprR (parseExpression rec) (parseExpression rec') :=
  parseLogical_rel laws hr

theorem parseToplevelExpressionList_rel :
    PRel ExprListR (parseToplevelExpressionList rec) (parseToplevelExpressionList rec') :=
  parseExpressionList_rel hr .toplevel (parseExpression_rel laws hr)

theorem operandOf_rel (lvl : Level) : PRel ExprR (operandOf rec lvl) (operandOf rec' lvl) := by
  cases lvl
  · exact parseComparison_rel laws hr
  · exact parseTerm_rel laws hr
  · exact parseFactor_rel laws hr
  · exact parseUnary_rel laws hr
  · exact parseExpression_rel laws hr

/-! ### statements -/

/-- unfold the erasure of a statement -/
macro "estmt" : tactic =>
  `(tactic| (show eStmt _ = eStmt _
             simp only [eStmt, RenameP.stmt, RenameP.poeticRhs, RenameP.pushRhs,
               Rename.exprList, Rename.exprs, Option.map]))

theorem parsePutAssignment_rel :
    PRel StmtR (parsePutAssignment rec) (parsePutAssignment rec') := by
  unfold parsePutAssignment; pnorm
  refine PRel.bind (consume_rel (isKind_rel _)) fun _ _ _ => ?_
  refine PRel.bind (parseExpression_rel laws hr) fun v v' hv => ?_
  refine PRel.bind (expectToken_rel _) fun _ _ _ => ?_
  refine PRel.bind (parseAssignmentLhs_rel laws hr) fun d d' hd => ?_
  refine PRel.pure ?_
  estmt
  rw [hv, hd]

theorem parseLetAssignment_rel :
    PRel StmtR (parseLetAssignment rec) (parseLetAssignment rec') := by
  unfold parseLetAssignment; pnorm
  refine PRel.bind (consume_rel (isKind_rel _)) fun _ _ _ => ?_
  refine PRel.bind (parseAssignmentLhs_rel laws hr) fun d d' hd => ?_
  refine PRel.bind (expectToken_rel _) fun _ _ _ => ?_
  refine PRel.bind (matchAndConsume_rel (isAnyKind_rel _)) fun t t' h => ?_
  have tail : ∀ op : Option BinOp, PRel StmtR
      (P.bind (parseToplevelExpressionList rec) fun value => pure (Stmt.assign d op value))
      (P.bind (parseToplevelExpressionList rec') fun value => pure (Stmt.assign d' op value)) := by
    intro op
    refine PRel.bind (parseToplevelExpressionList_rel laws hr) fun v v' hv => ?_
    refine PRel.pure ?_
    estmt
    rw [hd, hv.1, hv.2]
  ocases h : t t'
  · exact pure_bind_rel (tail _)
  · rw [h.kind]
    refine PRel.bind (ofOption_same _ _) fun op op' hop => ?_
    subst hop
    exact pure_bind_rel (tail _)

/-- optional element of a poetic number literal -/
def ElemOR (o o' : Option PoeticElem) : Prop := o'.map lowerElem = o.map lowerElem

theorem poeticLoopBody_rel : PRel PoeticR (poeticLoopBody rec) (poeticLoopBody rec') := by
  unfold poeticLoopBody; pnorm
  refine PRel.bind (matchAndConsume_rel (isPoeticNumberLiteralToken_rel laws)) fun t t' h => ?_
  have tail : ∀ e e' : Option PoeticElem, ElemOR e e' → PRel PoeticR
      (P.bind rec.poeticLoop fun rest =>
        match e with
        | some e => pure (e :: rest)
        | none => pure rest)
      (P.bind rec'.poeticLoop fun rest =>
        match e' with
        | some e => pure (e :: rest)
        | none => pure rest) := by
    intro e e' he
    refine PRel.bind hr.poeticLoop fun rest rest' hrest => ?_
    unfold PoeticR at hrest
    unfold ElemOR at he
    cases e <;> cases e' <;> simp only [Option.map, reduceCtorEq, Option.some.injEq] at he
    · exact PRel.pure hrest
    · refine PRel.pure ?_
      unfold PoeticR
      simp only [List.map_cons, he, hrest]
  ocases h : t t'
  · exact PRel.pure rfl
  · rw [h.kind]
    have hdef : PRel PoeticR
        (if isHyphen t = true then
          P.bind advance fun next =>
            match next with
            | none => failWith .poeticLiteralEndingWithHyphen
            | some nextToken =>
              if isWord nextToken.spelling = true then
                P.bind (pure (some (PoeticElem.suffix ('-' :: nextToken.spelling)))) fun elem =>
                P.bind rec.poeticLoop fun rest =>
                  match elem with
                  | some e => pure (e :: rest)
                  | none => pure rest
              else P.fail ⟨.unexpectedToken, .token nextToken⟩
        else
          P.bind (pure (some (PoeticElem.word t.spelling))) fun elem =>
          P.bind rec.poeticLoop fun rest =>
            match elem with
            | some e => pure (e :: rest)
            | none => pure rest)
        (if isHyphen t' = true then
          P.bind advance fun next =>
            match next with
            | none => failWith .poeticLiteralEndingWithHyphen
            | some nextToken =>
              if isWord nextToken.spelling = true then
                P.bind (pure (some (PoeticElem.suffix ('-' :: nextToken.spelling)))) fun elem =>
                P.bind rec'.poeticLoop fun rest =>
                  match elem with
                  | some e => pure (e :: rest)
                  | none => pure rest
              else P.fail ⟨.unexpectedToken, .token nextToken⟩
        else
          P.bind (pure (some (PoeticElem.word t'.spelling))) fun elem =>
          P.bind rec'.poeticLoop fun rest =>
            match elem with
            | some e => pure (e :: rest)
            | none => pure rest) := by
      rw [isHyphen_rel t t' h]
      refine ite_rel (fun _ => ?_) (fun _ => ?_)
      · refine PRel.bind advance_rel fun nx nx' hn => ?_
        ocases hn : nx nx'
        · pfail
        · rw [hn.spelling.isWord laws]
          refine ite_rel (fun _ => ?_) (fun _ => ?_)
          · refine pure_bind_rel (tail (some (.suffix ('-' :: nx.spelling)))
              (some (.suffix ('-' :: nx'.spelling))) ?_)
            simp only [ElemOR, Option.map, lowerElem, List.map_cons, rc_iff_map.mp hn.spelling]
          · exact PRelS.fail ⟨trivial, hn⟩
      · refine pure_bind_rel (tail (some (.word t.spelling)) (some (.word t'.spelling)) ?_)
        simp only [ElemOR, Option.map, lowerElem, rc_iff_map.mp h.spelling]
    have hsuf : ElemOR (some (PoeticElem.suffix t.spelling)) (some (PoeticElem.suffix t'.spelling)) := by
      simp only [ElemOR, Option.map, lowerElem, rc_iff_map.mp h.spelling]
    generalize t.kind = k
    cases k <;> simp only [] <;> first
      | exact hdef
      | exact pure_bind_rel (tail none none rfl)
      | exact pure_bind_rel (tail (some .dot) (some .dot) rfl)
      | exact pure_bind_rel (tail _ _ hsuf)

omit laws hr in
theorem poeticR_isEmpty {l l' : List PoeticElem} (h : PoeticR l l') : l'.isEmpty = l.isEmpty := by
  unfold PoeticR at h
  cases l <;> cases l' <;> simp_all

theorem parsePoeticNumberLiteral_rel :
    PRel PoeticR (parsePoeticNumberLiteral rec) (parsePoeticNumberLiteral rec') := by
  unfold parsePoeticNumberLiteral; pnorm
  have tail : PRel PoeticR
      ((poeticLoopBody rec).bind fun elems =>
        if elems.isEmpty = true then failWith PCode.expectedPoeticNumberLiteral else pure elems)
      ((poeticLoopBody rec').bind fun elems =>
        if elems.isEmpty = true then failWith PCode.expectedPoeticNumberLiteral else pure elems) := by
    refine PRel.bind (poeticLoopBody_rel laws hr) fun l l' hl => ?_
    rw [poeticR_isEmpty hl]
    refine ite_rel (fun _ => ?_) (fun _ => PRel.pure hl)
    pfail
  refine PRel.bind current_rel fun cur cur' h => ?_
  ocases h : cur cur'
  · simp only [Bool.false_eq_true, if_false]; exact tail
  · simp only [isHyphen_rel _ _ h]
    refine ite_rel (fun _ => ?_) (fun _ => tail)
    pfail

omit laws hr in
theorem isCurrentNegativeNumber_rel :
    PRel (N := N) Eq isCurrentNegativeNumber isCurrentNegativeNumber := by
  intro st st' hst
  unfold isCurrentNegativeNumber
  rcases hst.cases with ⟨e1, e2⟩ | ⟨t, t', ts, ts', e1, e2, ht, _, hts⟩
  · rw [e1, e2]; rfl
  · rw [e1, e2]
    refine ⟨?_, hst⟩
    simp only [isHyphen_rel t t' ht]
    cases hts with
    | nil => rfl
    | cons h1 _ _ => simp only [h1.kind]

/-- right-hand sides of poetic number assignments -/
def PRhsR (x x' : PoeticRhs N) : Prop :=
  RenameP.poeticRhs VarName.key lowerElem x' = RenameP.poeticRhs VarName.key lowerElem x

theorem parsePoeticNumberAssignmentRhs_rel :
    PRel PRhsR (parsePoeticNumberAssignmentRhs rec) (parsePoeticNumberAssignmentRhs rec') := by
  unfold parsePoeticNumberAssignmentRhs; pnorm
  refine PRel.bind currentOrError_rel fun cur cur' h => ?_
  have tail : ∀ b : Bool, PRel PRhsR
      (if b = true then P.bind (parseExpression rec) fun e => pure (PoeticRhs.expr e)
       else P.bind (parsePoeticNumberLiteral rec) fun l => pure (PoeticRhs.lit l))
      (if b = true then P.bind (parseExpression rec') fun e => pure (PoeticRhs.expr e)
       else P.bind (parsePoeticNumberLiteral rec') fun l => pure (PoeticRhs.lit l)) := by
    intro b
    refine ite_rel (fun _ => ?_) (fun _ => ?_)
    · refine PRel.bind (parseExpression_rel laws hr) fun e e' he => ?_
      refine PRel.pure ?_
      simp only [PRhsR, RenameP.poeticRhs]; rw [he]
    · refine PRel.bind (parsePoeticNumberLiteral_rel laws hr) fun l l' hl => ?_
      refine PRel.pure ?_
      simp only [PRhsR, RenameP.poeticRhs]; rw [hl]
  rw [h.kind]
  refine ite_rel (fun _ => ?_) (fun _ => ?_)
  · exact pure_bind_rel (tail _)
  · refine PRel.bind isCurrentNegativeNumber_rel fun b b' hb => ?_
    subst hb
    exact tail _

/-! ### poetic string literals -/

omit laws hr in
theorem dropUntil_head? (k : TK) (eof : Snap) (ts : List (Tok N)) (last : Snap) :
    (dropUntil k eof ts last).1.head? = ts.find? (fun u => u.kind == k) := by
  induction ts generalizing last with
  | nil => rfl
  | cons t ts ih =>
    simp only [dropUntil, List.find?_cons]
    cases hk : (t.kind == k)
    · simp only [Bool.false_eq_true, if_false]; exact ih _
    · simp only [if_true, List.head?_cons]

omit laws hr in
theorem dropUntil_rel (k : TK) (eof : Snap) {src src' : Str} {ts ts' : List (Tok N)}
    (h : ToksRel src src' ts ts') (last : Snap) :
    ToksRel src src' (dropUntil k eof ts last).1 (dropUntil k eof ts' last).1 ∧
      (dropUntil k eof ts' last).2 = (dropUntil k eof ts last).2 := by
  induction h generalizing last with
  | nil => exact ⟨.nil, rfl⟩
  | cons h1 h2 h3 ih =>
    simp only [dropUntil, h1.kind]
    split
    · exact ⟨.cons h1 h2 h3, rfl⟩
    · rw [h1.after]; exact ih _

omit laws hr in
/-- what `parse_poetic_string_assignment_rhs` computes, in one piece -/
theorem parsePoeticString_eq (t : Tok N) (st : PState N) :
    parsePoeticStringAssignmentRhs t st =
      let p := dropUntil .newline st.eof st.toks st.last
      let st1 : PState N := { st with toks := p.1, last := p.2 }
      match sayText st.src t st.toks with
      | none => .crash .parsePoeticText
      | some a =>
        match stripPrefix? [' '] a with
        | some rhs => .ok (rhs, st1)
        | none => .err ⟨.expectedSpaceAfterSays t, errLocOf st1⟩ := by
  unfold parsePoeticStringAssignmentRhs sayText
  simp only [bind, P.bind, matchUntilNext, getLiteralText, dropUntil_head?]
  cases h1 : literalTextOf st.src t (st.toks.find? fun u => u.kind == .newline) with
  | none => rfl
  | some text =>
    simp only [Option.bind]
    cases h2 : stripPrefix? t.spelling text with
    | none => rfl
    | some a =>
      simp only [P.ofOption, pure, P.pure]
      cases h3 : stripPrefix? [' '] a with
      | none => rfl
      | some rhs => rfl

omit laws hr in
theorem parsePoeticString_rel {t t' : Tok N} (ht : PTokRel t t') {st st' : PState N}
    (hst : PStRel st st') (hsay : sayText st'.src t' st'.toks = sayText st.src t st.toks) :
    PORel (fun (a a' : Str) _ _ => a' = a) (parsePoeticStringAssignmentRhs t st)
      (parsePoeticStringAssignmentRhs t' st') := by
  rw [parsePoeticString_eq, parsePoeticString_eq, hsay]
  obtain ⟨d1, d2⟩ := dropUntil_rel .newline st.eof hst.toks st.last
  have hst1 : PStRel
      ({ st with toks := (dropUntil .newline st.eof st.toks st.last).1,
                 last := (dropUntil .newline st.eof st.toks st.last).2 } : PState N)
      ({ st' with toks := (dropUntil .newline st'.eof st'.toks st'.last).1,
                  last := (dropUntil .newline st'.eof st'.toks st'.last).2 } : PState N) := by
    rw [hst.eof, hst.last]
    exact ⟨hst.len, d1, d2, rfl, hst.parsingList⟩
  simp only
  cases sayText st.src t st.toks with
  | none => rfl
  | some a =>
    simp only
    cases stripPrefix? [' '] a with
    | none => exact ⟨ht, errLocOf_rel hst1⟩
    | some rhs => exact ⟨rfl, hst1⟩

theorem parsePoeticAssignment_rel {i i' : Ident} (hi : eIdent i' = eIdent i) (r : Range) :
    PRel StmtR (parsePoeticAssignment rec i r) (parsePoeticAssignment rec' i' r) := by
  unfold parsePoeticAssignment; pnorm
  refine PRel.bind (parseAssignmentLhsWith_rel laws hr hi r) fun d d' hd => ?_
  refine PRelS.bindS (expectAny_relS _) fun tk tk' st st' hc hst => ?_
  rw [hc.1.kind]
  by_cases hk : (tk.kind == .says || tk.kind == .say) = true
  · simp only [if_pos hk]
    have hk' : tk.kind = .says ∨ tk.kind = .say := by
      simpa only [Bool.or_eq_true, beq_iff_eq] using hk
    refine PORel.bind (parsePoeticString_rel hc.1 hst (hc.2 hk')) fun a a' s s' ha hs => ?_
    subst ha
    refine PRel.pure ?_ s s' hs
    estmt
    rw [hd]
  · simp only [if_neg hk]
    refine PRel.bind (parsePoeticNumberAssignmentRhs_rel laws hr) (fun rhs rhs' hrhs => ?_) st st' hst
    refine PRel.pure ?_
    show eStmt _ = eStmt _
    simp only [eStmt, RenameP.stmt]
    unfold PRhsR at hrhs
    rw [hd, hrhs]

/-! ### functions, statements that start with a word -/

omit laws hr in
theorem paramsR_cons (x x' : VarName × Range) (xs xs' : List (VarName × Range)) (h : VR x x')
    (hs : ParamsR xs xs') : ParamsR (x :: xs) (x' :: xs') := by
  unfold ParamsR at hs ⊢
  simp only [List.map_cons, hs, h.1, h.2]

theorem paramsLoopBody_rel : PRel ParamsR (paramsLoopBody rec) (paramsLoopBody rec') :=
  paramLoopBody_rel (L := ParamsR) rfl paramsR_cons (expectVariableName_rel laws hr) hr.paramsLoop false

theorem parseFunction_rel {name name' : VarName} (hn : name'.key = name.key) (r : Range) :
    PRel StmtR (parseFunction rec name r) (parseFunction rec' name' r) := by
  unfold parseFunction; pnorm
  refine PRel.bind (consume_rel (isKind_rel _)) fun _ _ _ => ?_
  refine PRel.bind (parseParameterList_rel (L := ParamsR) rfl paramsR_cons
    (expectVariableName_rel laws hr) hr.paramsLoop false) fun ps ps' hps => ?_
  refine PRel.bind expectEol_rel fun _ _ _ => ?_
  refine PRel.bind hr.functionBlock fun b b' hb => ?_
  refine PRel.pure ?_
  estmt
  unfold ParamsR at hps
  have hb' : RenameP.block VarName.key lowerElem b' = RenameP.block VarName.key lowerElem b := hb
  rw [hn, hps, hb']

omit laws hr in
theorem asVariableName_rel {i i' : Ident} (hi : eIdent i' = eIdent i) (r : Range) :
    PRel (N := N) VR (asVariableName i r) (asVariableName i' r) := by
  unfold asVariableName
  cases i <;> cases i' <;> simp only [Rename.ident, Ident.var.injEq, reduceCtorEq] at hi
  · exact PRel.pure ⟨hi, rfl⟩
  · pfail

theorem parseStatementStartingWithWord_rel :
    PRel StmtR (parseStatementStartingWithWord rec) (parseStatementStartingWithWord rec') := by
  unfold parseStatementStartingWithWord; pnorm
  refine PRel.bind (expectIdentifier_rel laws hr) fun x x' hx => ?_
  obtain ⟨i, r⟩ := x
  obtain ⟨i', r'⟩ := x'
  obtain ⟨h1, h2⟩ := hx
  simp only at h1 h2
  subst h2
  simp only []
  have hdef := parsePoeticAssignment_rel laws hr h1 r'
  refine PRel.bind current_rel fun cur cur' hcur => ?_
  ocases hcur : cur cur'
  · exact hdef
  · simp only [Option.map, hcur.kind]
    generalize cur.kind = k
    cases k <;> simp only [] <;> first
      | exact hdef
      | (refine PRel.bind (asVariableName_rel h1 _) fun y y' hy => ?_
         obtain ⟨name, r2⟩ := y
         obtain ⟨name', r2'⟩ := y'
         obtain ⟨g1, g2⟩ := hy
         simp only at g1 g2
         subst g2
         first
           | exact parseFunction_rel laws hr g1 _
           | (refine PRel.bind (parseFunctionCall_rel hr) fun args args' ha => ?_
              refine PRel.pure ?_
              estmt
              rw [g1, ha]))

/-! ### the other statements -/

omit laws hr in
theorem blockR_unfold {b b' : Block N} (h : BlockR b b') :
    RenameP.block VarName.key lowerElem b' = RenameP.block VarName.key lowerElem b := h

theorem parseIfStatement_rel : PRel StmtR (parseIfStatement rec) (parseIfStatement rec') := by
  unfold parseIfStatement; pnorm
  refine PRel.bind (consume_rel (isKind_rel _)) fun _ _ _ => ?_
  refine PRel.bind (parseExpression_rel laws hr) fun c c' hc => ?_
  refine PRel.bind expectEol_rel fun _ _ _ => ?_
  refine PRel.bind hr.block fun tb tb' htb => ?_
  refine PRel.bind (matchAndConsume_rel (isKind_rel _)) fun e e' he => ?_
  ocases he : e e'
  · refine pure_bind_rel ?_
    refine PRel.pure ?_
    estmt
    rw [hc, blockR_unfold htb]
  · refine PRel.bind (expectTokenOrEnd_rel _) fun _ _ _ => ?_
    refine PRel.bind hr.block fun eb eb' heb => ?_
    refine pure_bind_rel ?_
    refine PRel.pure ?_
    estmt
    rw [hc, blockR_unfold htb, blockR_unfold heb]

theorem parseLoop_rel (k : TK) : PRel StmtR (parseLoop rec k) (parseLoop rec' k) := by
  unfold parseLoop; pnorm
  refine PRel.bind (consume_rel (isAnyKind_rel _)) fun _ _ _ => ?_
  refine PRel.bind (parseExpression_rel laws hr) fun c c' hc => ?_
  refine PRel.bind expectEol_rel fun _ _ _ => ?_
  refine PRel.bind hr.block fun b b' hb => ?_
  refine ite_rel (fun _ => ?_) (fun _ => ?_)
  · refine PRel.pure ?_
    estmt
    rw [hc, blockR_unfold hb]
  · refine PRel.pure ?_
    estmt
    rw [hc, blockR_unfold hb]

omit laws in
theorem buildKnockLoopBody_rel (k : TK) :
    PRel Eq (buildKnockLoopBody rec k) (buildKnockLoopBody rec' k) := by
  unfold buildKnockLoopBody; pnorm
  refine PRel.bind (matchAndConsume_rel (isKind_rel _)) fun t t' h => ?_
  ocases h : t t'
  · exact PRel.pure rfl
  · refine PRel.bind (matchAndConsume_rel (isKind_rel _)) fun _ _ _ => ?_
    refine PRel.bind (hr.buildKnockLoop k) fun n n' hn => ?_
    subst hn
    exact PRel.pure rfl

theorem parseBuildKnockHelper_rel (b s : TK) :
    PRel (fun (x x' : Ident × Range × Int) => eIdent x'.1 = eIdent x.1 ∧ x'.2 = x.2)
      (parseBuildKnockHelper rec b s) (parseBuildKnockHelper rec' b s) := by
  unfold parseBuildKnockHelper; pnorm
  refine PRel.bind (consume_rel (isKind_rel _)) fun _ _ _ => ?_
  refine PRel.bind (expectIdentifier_rel laws hr) fun x x' hx => ?_
  obtain ⟨i, r⟩ := x
  obtain ⟨i', r'⟩ := x'
  obtain ⟨h1, h2⟩ := hx
  simp only at h1 h2
  subst h2
  simp only []
  refine PRel.bind (expectToken_rel _) fun _ _ _ => ?_
  refine PRel.bind (matchAndConsume_rel (isKind_rel _)) fun _ _ _ => ?_
  refine PRel.bind (buildKnockLoopBody_rel hr s) fun n n' hn => ?_
  subst hn
  exact PRel.pure ⟨h1, rfl⟩

theorem parseBuild_rel : PRel StmtR (parseBuild rec) (parseBuild rec') := by
  unfold parseBuild; pnorm
  refine PRel.bind (parseBuildKnockHelper_rel laws hr _ _) fun x x' hx => ?_
  obtain ⟨i, r, a⟩ := x
  obtain ⟨i', r', a'⟩ := x'
  obtain ⟨h1, h2⟩ := hx
  simp only [Prod.mk.injEq] at h1 h2
  obtain ⟨h2, h3⟩ := h2
  subst h2 h3
  refine PRel.pure ?_
  estmt
  rw [h1]

theorem parseKnock_rel : PRel StmtR (parseKnock rec) (parseKnock rec') := by
  unfold parseKnock; pnorm
  refine PRel.bind (parseBuildKnockHelper_rel laws hr _ _) fun x x' hx => ?_
  obtain ⟨i, r, a⟩ := x
  obtain ⟨i', r', a'⟩ := x'
  obtain ⟨h1, h2⟩ := hx
  simp only [Prod.mk.injEq] at h1 h2
  obtain ⟨h2, h3⟩ := h2
  subst h2 h3
  refine PRel.pure ?_
  estmt
  rw [h1]

theorem parseSay_rel : PRel StmtR (parseSay rec) (parseSay rec') := by
  unfold parseSay; pnorm
  refine PRel.bind (consume_rel (isAnyKind_rel _)) fun _ _ _ => ?_
  refine PRel.bind (parseExpression_rel laws hr) fun v v' hv => ?_
  refine PRel.pure ?_
  estmt
  rw [hv]

theorem parseListen_rel : PRel StmtR (parseListen rec) (parseListen rec') := by
  unfold parseListen; pnorm
  refine PRel.bind (consume_rel (isKind_rel _)) fun _ _ _ => ?_
  refine PRel.bind (matchAndConsume_rel (isKind_rel _)) fun t t' h => ?_
  ocases h : t t'
  · refine PRel.bind currentLoc_rel fun l l' hl => ?_
    subst hl
    exact PRel.pure rfl
  · refine PRel.bind (parseAssignmentLhs_rel laws hr) fun d d' hd => ?_
    refine PRel.pure ?_
    estmt
    rw [hd]

omit laws hr in
theorem checkMutationArgs_rel {operand operand' : Primary N} (ho : PrimR operand operand')
    {dest dest' : Option (Lhs N)} (hd : ORel LhsR dest dest') :
    PRel Eq (checkMutationArgs operand dest) (checkMutationArgs operand' dest') := by
  unfold checkMutationArgs
  ocases hd : dest dest'
  · have ho' : Rename.primary VarName.key operand' = Rename.primary VarName.key operand := ho
    cases operand <;> cases operand' <;> simp only [Rename.primary, reduceCtorEq] at ho' <;>
      first
        | exact PRel.pure rfl
        | (refine failWith_rel ?_; exact ho)
  · exact PRel.pure rfl

theorem parseMutation_rel : PRel StmtR (parseMutation rec) (parseMutation rec') := by
  unfold parseMutation; pnorm
  refine PRel.bind (consume_rel (isAnyKind_rel _)) fun tok tok' ht => ?_
  rw [ht.kind]
  refine PRel.bind (ofOption_same _ _) fun op op' hop => ?_
  subst hop
  refine PRel.bind (parsePrimary_rel laws hr) fun operand operand' ho => ?_
  refine PRel.bind (matchAndConsume_rel (isKind_rel _)) fun i i' hi => ?_
  have tail : ∀ dest dest' : Option (Lhs N), ORel LhsR dest dest' → PRel StmtR
      (P.bind (checkMutationArgs operand dest) fun _ =>
        P.bind (matchAndConsume (isKind .with_)) fun w =>
          match w with
          | some _ =>
            P.bind (parseExpression rec) fun e =>
            P.bind (pure (some e)) fun param => pure (Stmt.mutation op operand dest param)
          | none => P.bind (pure none) fun param => pure (Stmt.mutation op operand dest param))
      (P.bind (checkMutationArgs operand' dest') fun _ =>
        P.bind (matchAndConsume (isKind .with_)) fun w =>
          match w with
          | some _ =>
            P.bind (parseExpression rec') fun e =>
            P.bind (pure (some e)) fun param => pure (Stmt.mutation op operand' dest' param)
          | none => P.bind (pure none) fun param => pure (Stmt.mutation op operand' dest' param)) := by
    intro dest dest' hd
    refine PRel.bind (checkMutationArgs_rel ho hd) fun _ _ _ => ?_
    refine PRel.bind (matchAndConsume_rel (isKind_rel _)) fun w w' hw => ?_
    ocases hw : w w'
    · refine pure_bind_rel ?_
      refine PRel.pure ?_
      ocases hd : dest dest'
      · estmt
        rw [ho]
      · estmt
        rw [ho, hd]
    · refine PRel.bind (parseExpression_rel laws hr) fun e e' he => ?_
      refine pure_bind_rel ?_
      refine PRel.pure ?_
      ocases hd : dest dest'
      · estmt
        rw [ho, he]
      · estmt
        rw [ho, hd, he]
  ocases hi : i i'
  · exact pure_bind_rel (tail none none trivial)
  · refine PRel.bind (parseAssignmentLhs_rel laws hr) fun d d' hd => ?_
    exact pure_bind_rel (tail (some d) (some d') hd)

omit laws hr in
theorem parseRoundingDirection_rel :
    PRel (N := N) Eq parseRoundingDirection parseRoundingDirection := by
  unfold parseRoundingDirection; pnorm
  refine PRel.bind (matchAndConsume_rel (isAnyKind_rel _)) fun t t' h => ?_
  ocases h : t t'
  · exact PRel.pure rfl
  · rw [h.kind]; exact PRel.pure rfl

theorem parseRounding_rel : PRel StmtR (parseRounding rec) (parseRounding rec') := by
  unfold parseRounding; pnorm
  refine PRel.bind (consume_rel (isKind_rel _)) fun _ _ _ => ?_
  refine PRel.bind parseRoundingDirection_rel fun d d' hd => ?_
  subst hd
  refine PRel.bind (parseExpression_rel laws hr) fun e e' he => ?_
  have tail : ∀ d : Option RoundDir, PRel StmtR
      (match d with
       | some d => (pure (Stmt.rounding d e) : P N (Stmt N))
       | none => failWith (.expectedOneOfTokens [.up, .down, .round]))
      (match d with
       | some d => (pure (Stmt.rounding d e') : P N (Stmt N))
       | none => failWith (.expectedOneOfTokens [.up, .down, .round])) := by
    intro d
    cases d with
    | none => pfail
    | some d =>
      refine PRel.pure ?_
      estmt
      rw [he]
  cases d with
  | some d => exact pure_bind_rel (tail (some d))
  | none =>
    simp only []
    refine PRel.bind parseRoundingDirection_rel fun d d' hd => ?_
    subst hd
    exact tail _

omit hr in
theorem parseBreak_rel : PRel (N := N) StmtR parseBreak parseBreak := by
  unfold parseBreak; pnorm
  refine PRel.bind (consume_rel (isKind_rel _)) fun s s' hs => ?_
  refine PRel.bind (matchAndConsume_rel (isIspelled_rel laws _)) fun t t' h => ?_
  ocases h : t t'
  · refine PRel.pure ?_
    rw [hs.range]
  · refine PRel.bind (expectToken_rel _) fun e e' he => ?_
    refine PRel.pure ?_
    rw [hs.range, he.range]

omit laws hr in
theorem parseSimpleContinue_rel : PRel (N := N) StmtR parseSimpleContinue parseSimpleContinue := by
  unfold parseSimpleContinue; pnorm
  refine PRel.bind (consume_rel (isKind_rel _)) fun s s' hs => ?_
  refine PRel.pure ?_
  rw [hs.range]

omit hr in
theorem parseTakeItToTheTop_rel : PRel (N := N) StmtR parseTakeItToTheTop parseTakeItToTheTop := by
  unfold parseTakeItToTheTop; pnorm
  refine PRel.bind (consume_rel (isKind_rel _)) fun s s' hs => ?_
  refine PRel.bind (expectTokenIspelled_rel laws _) fun _ _ _ => ?_
  refine PRel.bind (expectToken_rel _) fun _ _ _ => ?_
  refine PRel.bind (expectTokenIspelled_rel laws _) fun _ _ _ => ?_
  refine PRel.bind (expectToken_rel _) fun e e' he => ?_
  refine PRel.pure ?_
  rw [hs.range, he.range]

/-- right-hand sides of `rock` -/
def PushR (x x' : PushRhs N) : Prop :=
  RenameP.pushRhs VarName.key lowerElem x' = RenameP.pushRhs VarName.key lowerElem x

theorem parseArrayPushRhs_rel :
    PRel (ORel PushR) (parseArrayPushRhs rec) (parseArrayPushRhs rec') := by
  unfold parseArrayPushRhs; pnorm
  refine PRel.bind (matchAndConsume_rel (isAnyKind_rel _)) fun t t' h => ?_
  ocases h : t t'
  · exact PRel.pure trivial
  · rw [h.kind]
    generalize t.kind = k
    cases k <;> simp only [] <;> first
      | exact PRelS.crash _
      | (refine PRel.bind (parseToplevelExpressionList_rel laws hr) fun l l' hl => ?_
         refine PRel.pure ?_
         show PushR _ _
         simp only [PushR, RenameP.pushRhs, Rename.exprList]
         rw [hl.1, hl.2])
      | (refine PRel.bind (parsePoeticNumberLiteral_rel laws hr) fun l l' hl => ?_
         refine PRel.pure ?_
         show PushR _ _
         simp only [PushR, RenameP.pushRhs]
         rw [hl])

theorem parseArrayPush_rel : PRel StmtR (parseArrayPush rec) (parseArrayPush rec') := by
  unfold parseArrayPush; pnorm
  refine PRel.bind (consume_rel (isKind_rel _)) fun _ _ _ => ?_
  refine PRel.bind (parsePrimary_rel laws hr) fun a a' ha => ?_
  refine PRel.bind (parseArrayPushRhs_rel laws hr) fun v v' hv => ?_
  refine PRel.pure ?_
  show eStmt _ = eStmt _
  simp only [eStmt, RenameP.stmt]
  rw [ha]
  rcases v with _ | v <;> rcases v' with _ | v' <;> simp only [ORel] at hv <;>
    first
      | rfl
      | exact hv.elim
      | (simp only [Option.map]; unfold PushR at hv; rw [hv])

theorem parseArrayPop_rel : PRel StmtR (parseArrayPop rec) (parseArrayPop rec') := by
  unfold parseArrayPop; pnorm
  refine PRel.bind (consume_rel (isKind_rel _)) fun _ _ _ => ?_
  refine PRel.bind (parsePrimary_rel laws hr) fun a a' ha => ?_
  refine PRel.bind (matchAndConsume_rel (isKind_rel _)) fun i i' hi => ?_
  ocases hi : i i'
  · refine pure_bind_rel ?_
    refine PRel.pure ?_
    estmt
    rw [ha]
  · refine PRel.bind (parseAssignmentLhs_rel laws hr) fun d d' hd => ?_
    refine pure_bind_rel ?_
    refine PRel.pure ?_
    estmt
    rw [ha, hd]

theorem parseReturn_rel : PRel StmtR (parseReturn rec) (parseReturn rec') := by
  unfold parseReturn; pnorm
  refine PRel.bind (consume_rel (isKind_rel _)) fun t t' ht => ?_
  have tail : PRel StmtR
      (P.bind (parseExpression rec) fun value =>
        P.bind (matchAndConsume (isKind .back)) fun _ => pure (Stmt.ret value))
      (P.bind (parseExpression rec') fun value =>
        P.bind (matchAndConsume (isKind .back)) fun _ => pure (Stmt.ret value)) := by
    refine PRel.bind (parseExpression_rel laws hr) fun v v' hv => ?_
    refine PRel.bind (matchAndConsume_rel (isKind_rel _)) fun _ _ _ => ?_
    refine PRel.pure ?_
    estmt
    rw [hv]
  simp only [isIspelled_rel laws _ _ _ ht]
  refine ite_rel (fun _ => ?_) (fun _ => ?_)
  · exact PRel.bind (matchAndConsume_rel (isKind_rel _)) fun _ _ _ => tail
  · exact pure_bind_rel tail

omit laws hr in
theorem some_map_rel {m m' : P N (Stmt N)} (h : PRel StmtR m m') :
    PRel (ORel StmtR) (P.bind m fun a => P.pure (some a)) (P.bind m' fun a => P.pure (some a)) :=
  PRel.bind h fun a a' ha => PRel.pure ha

theorem parseStatement_rel :
    PRel (ORel StmtR) (parseStatement rec) (parseStatement rec') := by
  unfold parseStatement; pnorm
  refine PRel.bind current_rel fun cur cur' h => ?_
  ocases h : cur cur'
  · exact PRel.pure trivial
  · rw [h.kind]
    generalize cur.kind = k
    cases k <;> simp only [] <;> first
      | exact PRel.pure trivial
      | pfail
      | exact some_map_rel (parsePutAssignment_rel laws hr)
      | exact some_map_rel (parseLetAssignment_rel laws hr)
      | exact some_map_rel (parseStatementStartingWithWord_rel laws hr)
      | exact some_map_rel (parseIfStatement_rel laws hr)
      | exact some_map_rel (parseLoop_rel laws hr _)
      | exact some_map_rel (parseBuild_rel laws hr)
      | exact some_map_rel (parseKnock_rel laws hr)
      | exact some_map_rel (parseSay_rel laws hr)
      | exact some_map_rel (parseListen_rel laws hr)
      | exact some_map_rel (parseMutation_rel laws hr)
      | exact some_map_rel (parseRounding_rel laws hr)
      | exact some_map_rel (parseBreak_rel laws)
      | exact some_map_rel parseSimpleContinue_rel
      | exact some_map_rel (parseTakeItToTheTop_rel laws)
      | exact some_map_rel (parseArrayPush_rel laws hr)
      | exact some_map_rel (parseArrayPop_rel laws hr)
      | exact some_map_rel (parseReturn_rel laws hr)

/-! ### blocks, the program -/

omit laws hr in
theorem stmtsR_cons {s s' : Stmt N} {ss ss' : List (Stmt N)} (h : StmtR s s') (hs : StmtsR ss ss') :
    StmtsR (s :: ss) (s' :: ss') := by
  show eStmts _ = eStmts _
  rw [eStmts_cons, eStmts_cons, h, hs]

omit laws hr in
theorem isFunctionTerminator_eStmt (s : Stmt N) :
    isFunctionTerminator (eStmt s) = isFunctionTerminator s := by
  cases s with
  | ifS c t e => cases e <;> simp [eStmt, RenameP.stmt, isFunctionTerminator]
  | _ => simp [eStmt, RenameP.stmt, isFunctionTerminator]

omit laws hr in
theorem isFunctionTerminator_rel {s s' : Stmt N} (h : StmtR s s') :
    isFunctionTerminator s' = isFunctionTerminator s := by
  rw [← isFunctionTerminator_eStmt s', ← isFunctionTerminator_eStmt s, h]

theorem stmtLoopBody_rel : PRel StmtsR (stmtLoopBody rec) (stmtLoopBody rec') := by
  unfold stmtLoopBody; pnorm
  refine PRel.bind (parseStatement_rel laws hr) fun s s' h => ?_
  ocases h : s s'
  · exact PRel.pure rfl
  · refine PRel.bind expectEol_rel fun _ _ _ => ?_
    refine PRel.bind hr.stmtLoop fun rest rest' hrest => ?_
    exact PRel.pure (stmtsR_cons h hrest)

theorem parseBlock_rel : PRel BlockR (parseBlock rec) (parseBlock rec') := by
  unfold parseBlock; pnorm
  refine PRel.bind currentLoc_rel fun loc loc' hl => ?_
  subst hl
  refine PRel.bind (matchAndConsume_rel (isKind_rel _)) fun nl nl' h => ?_
  ocases h : nl nl'
  · refine PRel.bind (stmtLoopBody_rel laws hr) fun ss ss' hss => ?_
    refine PRel.pure ?_
    show eBlock _ = eBlock _
    rw [eBlock_mk, eBlock_mk, hss]
  · exact PRel.pure rfl

theorem fnStmtLoopBody_rel : PRel StmtsR (fnStmtLoopBody rec) (fnStmtLoopBody rec') := by
  unfold fnStmtLoopBody; pnorm
  refine PRel.bind (parseStatement_rel laws hr) fun s s' h => ?_
  ocases h : s s'
  · exact PRel.pure rfl
  · simp only [isFunctionTerminator_rel h]
    refine ite_rel (fun _ => ?_) (fun _ => ?_)
    · exact PRel.pure (stmtsR_cons h rfl)
    · refine PRel.bind expectEol_rel fun _ _ _ => ?_
      refine PRel.bind hr.fnStmtLoop fun rest rest' hrest => ?_
      exact PRel.pure (stmtsR_cons h hrest)

theorem parseFunctionBlock_rel : PRel BlockR (parseFunctionBlock rec) (parseFunctionBlock rec') := by
  unfold parseFunctionBlock; pnorm
  refine PRel.bind currentLoc_rel fun loc loc' hl => ?_
  subst hl
  refine PRel.bind (matchAndConsume_rel (isKind_rel _)) fun nl nl' h => ?_
  ocases h : nl nl'
  · refine PRel.bind (fnStmtLoopBody_rel laws hr) fun ss ss' hss => ?_
    refine PRel.pure ?_
    show eBlock _ = eBlock _
    rw [eBlock_mk, eBlock_mk, hss]
  · exact PRel.pure rfl

omit laws in
theorem topLoopAfterBlock_rel {b b' : Block N} (hb : BlockR b b') :
    PRel BlocksR (topLoopAfterBlock rec b) (topLoopAfterBlock rec' b') := by
  unfold topLoopAfterBlock; pnorm
  refine PRel.bind (currentMatches_rel (isKind_rel _)) fun e e' he => ?_
  subst he
  refine ite_rel (fun _ => ?_) (fun _ => ?_)
  · pfail
  · refine PRel.bind hr.topLoop fun rest rest' hrest => ?_
    simp only [eBlock_isEmpty hb]
    refine ite_rel (fun _ => PRel.pure hrest) (fun _ => ?_)
    refine PRel.pure ?_
    show eBlocks _ = eBlocks _
    rw [eBlocks_cons, eBlocks_cons, hb, hrest]

theorem topLoopBody_rel : PRel BlocksR (topLoopBody rec) (topLoopBody rec') := by
  unfold topLoopBody; pnorm
  refine PRel.bind current_rel fun cur cur' h => ?_
  ocases h : cur cur'
  · exact PRel.pure rfl
  · refine PRel.bind (parseBlock_rel laws hr) fun b b' hb => ?_
    exact topLoopAfterBlock_rel hr hb

theorem parseProgramBody_rel : PRel ProgramR (parseProgramBody rec) (parseProgramBody rec') := by
  unfold parseProgramBody; pnorm
  refine PRel.bind (topLoopBody_rel laws hr) fun bs bs' hbs => ?_
  refine PRel.pure ?_
  show eProgram _ = eProgram _
  rw [eProgram_mk, eProgram_mk, hbs]

/-! ### tying the knot -/

theorem mkRec_rel : RecRel (mkRec rec) (mkRec rec') where
  unary := parseUnary_rel laws hr
  primary := parsePrimary_rel laws hr
  subscriptChain := fun _ _ _ _ ha hi => subscriptChain_rel laws hr ha hi
  binLoop := fun lvl _ _ he => binLoopBody_rel hr lvl (operandOf_rel laws hr lvl) he
  listLoop := fun lvl => listLoopBody_rel hr lvl (operandOf_rel laws hr lvl)
  fancyLoop := fun _ _ he => fancyLoopBody_rel laws hr he
  argsLoop := argsLoopBody_rel hr
  paramsLoop := paramsLoopBody_rel laws hr
  poeticLoop := poeticLoopBody_rel laws hr
  buildKnockLoop := fun k => buildKnockLoopBody_rel hr k
  capitalizedLoop := capitalizedLoopBody_rel laws hr
  block := parseBlock_rel laws hr
  functionBlock := parseFunctionBlock_rel laws hr
  stmtLoop := stmtLoopBody_rel laws hr
  fnStmtLoop := fnStmtLoopBody_rel laws hr
  topLoop := topLoopBody_rel laws hr
  expression := parseExpression_rel laws hr
  program := parseProgramBody_rel laws hr

omit laws hr in
theorem fuelRec_rel : RecRel (fuelRec : Parser.Rec N) fuelRec where
  unary := PRelS.fuel
  primary := PRelS.fuel
  subscriptChain := fun _ _ _ _ _ _ => PRelS.fuel
  binLoop := fun _ _ _ _ => PRelS.fuel
  listLoop := fun _ => PRelS.fuel
  fancyLoop := fun _ _ _ => PRelS.fuel
  argsLoop := PRelS.fuel
  paramsLoop := PRelS.fuel
  poeticLoop := PRelS.fuel
  buildKnockLoop := fun _ => PRelS.fuel
  capitalizedLoop := PRelS.fuel
  block := PRelS.fuel
  functionBlock := PRelS.fuel
  stmtLoop := PRelS.fuel
  fnStmtLoop := PRelS.fuel
  topLoop := PRelS.fuel
  expression := PRelS.fuel
  program := PRelS.fuel

omit hr in
/-- at every depth the parser is related to itself -/
theorem parser_rel : ∀ n : Nat, RecRel (parser n : Parser.Rec N) (parser n)
  | 0 => fuelRec_rel
  | n + 1 => mkRec_rel laws (parser_rel n)

end

end Recase
end Rrss
