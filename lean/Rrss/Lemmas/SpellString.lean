/-
  Rrss.Lemmas.SpellString — the token lists of the grammar (Rrss/Spec/Grammar.lean) have a LENGTH
  that depends only on the alternatives picked (`Choices.pick`), not on the template tokens
  (`LI`: proved for every `toks` function with the combinators of Rrss/Lemmas/Relabel.lean, whose
  case analyses are repeated here word for word); hence two choices with the same picks put the
  token of every node of the syntax at the same index, and the poetic-string conditions
  (`progStrFits` / `progStrFitsD` of Rrss/Lemmas/SpellPoetic.lean), which read start offsets and
  the spelling of `says`, carry over between two choices with the same picks whose token lists
  agree on kinds, spellings, payloads and start offsets.
-/
import Rrss.Lemmas.SpellPoetic
set_option linter.unusedSectionVars false
set_option linter.unusedVariables false
namespace Rrss
namespace Grammar
open Lexer Parser Spelling

variable {N : Type}

/-! ### length invariance: the combinators (same signatures as `RL` / `RLU` of Lemmas/Relabel) -/

/-- the length of `F c` depends on the picks of `c` only (`d` is a dummy, kept so that the case
    analyses of Lemmas/Relabel can be repeated verbatim) -/
def LI (d : Tok N) (F : Choices N → List (Tok N)) : Prop :=
  ∀ c c' : Choices N, c.pick = c'.pick → (F c).length = (F c').length

structure LIU (d : Tok N) (F : Choices N → List (Tok N)) (I : List Nat) : Prop where
  rl : LI d F

theorem sub_pick {c c' : Choices N} (h : c.pick = c'.pick) (i : Nat) : (c.sub i).pick = (c'.sub i).pick := by
  simp only [Choices.sub, h]

theorem LI.congr {d : Tok N} {F G : Choices N → List (Tok N)} (h : ∀ c, F c = G c)
    (hG : LI d G) : LI d F := by
  have : F = G := funext h
  rw [this]; exact hG

theorem LIU.congr {d : Tok N} {F G : Choices N → List (Tok N)} {I : List Nat}
    (h : ∀ c, F c = G c) (hG : LIU d G I) : LIU d F I := by
  have : F = G := funext h
  rw [this]; exact hG

theorem LIU.mono {d : Tok N} {F : Choices N → List (Tok N)} {I J : List Nat}
    (h : LIU d F I) (hIJ : ∀ i ∈ I, i ∈ J) : LIU d F J := ⟨h.rl⟩

theorem LIU.nil (d : Tok N) : LIU d (fun _ => ([] : List (Tok N))) [] := ⟨fun _ _ _ => rfl⟩

theorem LI.here (d : Tok N) (s : Choices N → TokSpec N)
    (hs : ∀ c c' : Choices N, c.pick = c'.pick → s c = s c') :
    LI d (fun c => [tk (s c) c]) := fun _ _ _ => rfl

theorem LIU.sub {d : Tok N} {G : Choices N → List (Tok N)} (i : Nat) (hG : LI d G) :
    LIU d (fun c => G (c.sub i)) [i] := ⟨fun c c' h => hG (c.sub i) (c'.sub i) (sub_pick h i)⟩

theorem LIU.tk (d : Tok N) (s : Choices N → TokSpec N)
    (hs : ∀ c c' : Choices N, c.pick = c'.pick → s c = s c') (i : Nat) :
    LIU d (fun c => [tk (s c) (c.sub i)]) [i] := ⟨fun _ _ _ => rfl⟩

theorem LIU.tk0 (d : Tok N) (spec : TokSpec N) (i : Nat) :
    LIU d (fun c => [Grammar.tk spec (c.sub i)]) [i] :=
  LIU.tk d (fun _ => spec) (fun _ _ _ => rfl) i

theorem LIU.append {d : Tok N} {F G : Choices N → List (Tok N)} {I J : List Nat}
    (hF : LIU d F I) (hG : LIU d G J) (hdis : ∀ i ∈ I, i ∉ J) :
    LIU d (fun c => F c ++ G c) (I ++ J) :=
  ⟨fun c c' h => by simp only [List.length_append]; rw [hF.rl c c' h, hG.rl c c' h]⟩

theorem LIU.cons_tk {d : Tok N} {G : Choices N → List (Tok N)} {J : List Nat}
    (s : Choices N → TokSpec N) (hs : ∀ c c' : Choices N, c.pick = c'.pick → s c = s c') (i : Nat)
    (hG : LIU d G J) (hi : i ∉ J) :
    LIU d (fun c => Grammar.tk (s c) (c.sub i) :: G c) (i :: J) :=
  LIU.append (LIU.tk d s hs i) hG (by intro j hj; simp at hj; subst hj; exact hi)

theorem LIU.cons_tk0 {d : Tok N} {G : Choices N → List (Tok N)} {J : List Nat}
    (spec : TokSpec N) (i : Nat) (hG : LIU d G J) (hi : i ∉ J) :
    LIU d (fun c => Grammar.tk spec (c.sub i) :: G c) (i :: J) :=
  LIU.cons_tk (fun _ => spec) (fun _ _ _ => rfl) i hG hi

theorem LIU.ite {d : Tok N} {F G : Choices N → List (Tok N)} {I J : List Nat}
    (P : Choices N → Prop) [DecidablePred P]
    (hP : ∀ c c' : Choices N, c.pick = c'.pick → (P c ↔ P c'))
    (hF : LIU d F I) (hG : LIU d G J) :
    LIU d (fun c => if P c then F c else G c) (I ++ J) := by
  refine ⟨fun c c' hp => ?_⟩
  show (if P c then F c else G c).length = (if P c' then F c' else G c').length
  by_cases hc : P c
  · have hc' : P c' := (hP c c' hp).mp hc
    simp only [hc, hc', if_true]
    exact hF.rl c c' hp
  · have hc' : ¬ P c' := fun hh => hc ((hP c c' hp).mpr hh)
    simp only [hc, hc', if_false]
    exact hG.rl c c' hp

theorem LI.of_pick {d : Tok N} {F : (List Nat → Nat) → Choices N → List (Tok N)}
    (h : ∀ pk, LI d (F pk)) : LI d (fun c => F c.pick c) := by
  intro c c' hp
  show (F c.pick c).length = (F c'.pick c').length
  rw [hp]; exact h c'.pick c c' hp

theorem LIU.of_pick {d : Tok N} {F : (List Nat → Nat) → Choices N → List (Tok N)} {I : List Nat}
    (h : ∀ pk, LIU d (F pk) I) : LIU d (fun c => F c.pick c) I :=
  ⟨LI.of_pick fun pk => (h pk).rl⟩

/-- an optional token at the root, the option depending on the picks -/
theorem li_optTokP (d : Tok N) (b : Choices N → Bool)
    (hb : ∀ c c' : Choices N, c.pick = c'.pick → b c = b c') (k : TK) :
    LI d (fun c => optTok (b c) k c) := by
  intro c c' hp
  show (optTok (b c) k c).length = (optTok (b c') k c').length
  rw [hb c c' hp]
  cases b c' <;> simp [optTok]

/-! ### length invariance of every `toks` function (the case analyses of Lemmas/Relabel) -/

section
variable (d : Tok N)

theorem li_wordsToks : ∀ ws : List Str, LI d (wordsToks (N := N) ws)
  | [] => LI.congr (fun _ => rfl) (LIU.nil d).rl
  | w :: ws => LI.congr (fun _ => rfl)
      (LIU.cons_tk0 (.word w) 0 (LIU.sub 1 (li_wordsToks ws)) (by decide)).rl

theorem li_var : ∀ v : VarSpec, LI d (VarSpec.toks (N := N) v)
  | .simple s => LI.congr (fun _ => rfl) (LIU.tk0 d (.word s) 0).rl
  | .common pre w k => LI.congr (fun _ => rfl)
      (LIU.cons_tk0 (.spelled .commonPrefix pre) 0 (LIU.tk0 d (.spelled k w) 1) (by decide)).rl
  | .proper w1 w2 ws => LI.congr (fun _ => rfl) (li_wordsToks d (w1 :: w2 :: ws))

theorem li_unopsToks : ∀ os : List UnOp, LI d (unopsToks (N := N) os)
  | [] => LI.congr (fun _ => rfl) (LIU.nil d).rl
  | o :: os => LI.congr (fun _ => rfl)
      (LIU.cons_tk0 (.kw (unopKind o)) 0 (LIU.sub 1 (li_unopsToks os)) (by decide)).rl


theorem liu_sepF : ∀ n, LIU d (sepF (N := N) n) [0, 1]
  | 0 => (LIU.tk0 d (.kw .comma) 0).mono (by decide)
  | 1 => LIU.cons_tk0 (.kw .comma) 0 (LIU.tk0 d (.kw .and) 1) (by decide)
  | 2 => (LIU.tk0 d (.kw .ampersand) 0).mono (by decide)
  | 3 => (LIU.tk0 d (.kw .apostropheNApostrophe) 0).mono (by decide)
  | _ + 4 => (LIU.tk0 d (.kw .and) 0).mono (by decide)

theorem li_sepToks : LI d (sepToks (N := N)) :=
  LI.congr (F := sepToks) (G := fun c => sepF (c.pick [] % 5) c) (fun _ => rfl)
    (LI.of_pick (F := fun pk c => sepF (pk [] % 5) c) fun pk => (liu_sepF d _).rl)

mutual
theorem li_prim : ∀ p : Prim N, LI d p.toks
  | .pronoun => LI.congr (fun _ => rfl) (LIU.tk0 d (.kw .pronoun) 0).rl
  | .var v => LI.congr (fun _ => rfl) (LIU.sub 0 (li_var d v)).rl
  | .lit l => LI.congr (fun _ => rfl)
      (LIU.tk d (fun c => l.spec (c.sub 1).choice) (by pick_tac) 0).rl
  | .call f a as => LI.congr (fun _ => rfl)
      (LIU.append (LIU.sub 0 (li_var d f))
        (LIU.cons_tk0 (.kw .taking) 1
          (LIU.append (LIU.sub 2 (li_unary a)) (LIU.sub 3 (li_args as)) (by decide))
          (by decide)) (by decide)).rl
  | .pop p => LI.congr (fun _ => rfl)
      (LIU.cons_tk0 (.kw .roll) 0 (LIU.sub 1 (li_primary p)) (by decide)).rl
theorem li_primary : ∀ p : Primary N, LI d p.toks
  | .mk h subs => LI.congr (fun _ => rfl)
      (LIU.append (LIU.sub 0 (li_prim h)) (LIU.sub 1 (li_subs subs)) (by decide)).rl
theorem li_unary : ∀ u : Unary N, LI d u.toks
  | .mk ops p => LI.congr (fun _ => rfl)
      (LIU.append (LIU.sub 0 (li_unopsToks d ops)) (LIU.sub 1 (li_primary p)) (by decide)).rl
theorem li_args : ∀ us : List (Unary N), LI d (argsToks us)
  | [] => LI.congr (fun _ => rfl) (LIU.nil d).rl
  | u :: us => LI.congr (fun _ => rfl)
      (LIU.append (LIU.sub 0 (li_sepToks d))
        (LIU.append (LIU.sub 1 (li_unary u)) (LIU.sub 2 (li_args us)) (by decide))
        (by decide)).rl
theorem li_subs : ∀ ss : List (Prim N), LI d (subsToks ss)
  | [] => LI.congr (fun _ => rfl) (LIU.nil d).rl
  | s :: ss => LI.congr (fun _ => rfl)
      (LIU.cons_tk0 (.kw .at) 0
        (LIU.append (LIU.sub 1 (li_prim s)) (LIU.sub 2 (li_subs ss)) (by decide))
        (by decide)).rl
end

end

/-! ### operand lists, operator spines, the ladder -/

section
variable (d : Tok N)

theorem li_commaToks : LI d (commaToks (N := N)) :=
  LI.congr (fun _ => rfl)
    (LIU.cons_tk0 (.kw .comma) 0
      (LIU.ite (fun c => c.choice % 2 = 1) (by pick_tac) (LIU.tk0 d (.kw .and) 1) (LIU.nil d))
      (by decide)).rl

section generic
variable {α : Type} (L : Syn N α) (hL : ∀ x, LI d (L.toks x))
include hL

theorem li_restToks : ∀ es : List α, LI d (restToks L es)
  | [] => LI.congr (fun _ => rfl) (LIU.nil d).rl
  | e :: es => LI.congr (fun _ => rfl)
      (LIU.append (LIU.sub 0 (li_commaToks d))
        (LIU.append (LIU.sub 1 (hL e)) (LIU.sub 2 (li_restToks es)) (by decide))
        (by decide)).rl

theorem li_opList (l : OpList α) : LI d (OpList.toks L l) :=
  LI.congr (fun _ => rfl)
    (LIU.append (LIU.sub 0 (hL l.first)) (LIU.sub 1 (li_restToks d L hL l.rest)) (by decide)).rl

theorem li_opsToks : ∀ r : List (BinOp × OpList α), LI d (opsToks L r)
  | [] => LI.congr (fun _ => rfl) (LIU.nil d).rl
  | (op, l) :: r => LI.congr (fun _ => rfl)
      (LIU.cons_tk (fun c => .kw (opKind op (c.sub 0).choice)) (by pick_tac) 0
        (LIU.append (LIU.sub 1 (li_opList d L hL l)) (LIU.sub 2 (li_opsToks r)) (by decide))
        (by decide)).rl

theorem li_spine (ops : List BinOp) (s : Spine α) : LI d ((spineSyn L ops).toks s) :=
  LI.congr (fun _ => rfl)
    (LIU.append (LIU.sub 0 (hL s.head)) (LIU.sub 1 (li_opsToks d L hL s.ops)) (by decide)).rl

end generic

variable [CharOps]

theorem li_unarySyn (u : Unary N) : LI d (unarySyn.toks u) := li_unary d u

theorem li_factor (f : Factor N) : LI d (factorSyn.toks f) :=
  li_spine d unarySyn (li_unarySyn d) _ f

theorem li_term (t : Term N) : LI d (termSyn.toks t) :=
  li_spine d factorSyn (li_factor d) _ t

theorem li_fancy : ∀ f : Fancy, LI d (Fancy.toks (N := N) f)
  | .eq => LI.congr (fun _ => rfl) (LIU.nil d).rl
  | .notEq => LI.congr (fun _ => rfl) (LIU.tk0 d (.kw .not) 0).rl
  | .greater => LI.congr (fun _ => rfl)
      (LIU.cons_tk0 (.kw .bigger) 0 (LIU.tk0 d (.kw .than) 1) (by decide)).rl
  | .less => LI.congr (fun _ => rfl)
      (LIU.cons_tk0 (.kw .smaller) 0 (LIU.tk0 d (.kw .than) 1) (by decide)).rl
  | .greaterEq => LI.congr (fun _ => rfl)
      (LIU.cons_tk0 (.kw .as) 0
        (LIU.cons_tk0 (.kw .big) 1 (LIU.tk0 d (.kw .as) 2) (by decide)) (by decide)).rl
  | .lessEq => LI.congr (fun _ => rfl)
      (LIU.cons_tk0 (.kw .as) 0
        (LIU.cons_tk0 (.kw .small) 1 (LIU.tk0 d (.kw .as) 2) (by decide)) (by decide)).rl

theorem li_linksToks : ∀ r : List (Fancy × Term N), LI d (linksToks r)
  | [] => LI.congr (fun _ => rfl) (LIU.nil d).rl
  | (f, t) :: r => LI.congr (fun _ => rfl)
      (LIU.cons_tk (fun c => .kw (isKind3 (c.sub 0).choice)) (by pick_tac) 0
        (LIU.append (LIU.sub 1 (li_fancy d f))
          (LIU.append (LIU.sub 2 (li_term d t)) (LIU.sub 3 (li_linksToks r)) (by decide))
          (by decide))
        (by decide)).rl

theorem li_comparison : ∀ x : Comparison N, LI d (comparisonSyn.toks x)
  | ⟨h, .chain links⟩ => LI.congr (fun _ => rfl)
      (LIU.append (LIU.sub 0 (li_term d h)) (LIU.sub 1 (li_linksToks d links)) (by decide)).rl
  | ⟨h, .spine ops⟩ => LI.congr (fun _ => rfl)
      (LIU.append (LIU.sub 0 (li_term d h))
        (LIU.sub 1 (li_opsToks d termSyn (li_term d) ops)) (by decide)).rl

theorem li_logical (e : Logical N) : LI d (logicalSyn.toks e) :=
  li_spine d comparisonSyn (li_comparison d) _ e

theorem li_unparse (e : Expression N) : LI d (unparse e) :=
  LI.congr (fun _ => rfl) (li_logical d e)

theorem li_exprList (l : OpList (Expression N)) : LI d (OpList.toks logicalSyn l) :=
  li_opList d logicalSyn (li_logical d) l

end

/-! ### statements -/

section
variable (d : Tok N) [CharOps]

theorem li_id : ∀ x : IdSpec, LI d (IdSpec.toks (N := N) x)
  | .pronoun => LI.congr (fun _ => rfl) (LIU.tk0 d (.kw .pronoun) 0).rl
  | .var v => LI.congr (fun _ => rfl) (LIU.sub 0 (li_var d v)).rl

theorem li_target (t : Target N) : LI d t.toks :=
  LI.congr (fun _ => rfl)
    (LIU.append (LIU.sub 0 (li_id d t.id)) (LIU.sub 1 (li_subs d t.subs)) (by decide)).rl

theorem li_item : ∀ i : PoeticItem, LI d (PoeticItem.toks (N := N) i)
  | .comma => LI.congr (fun _ => rfl) (LIU.tk0 d (.kw .comma) 0).rl
  | .dot => LI.congr (fun _ => rfl) (LIU.tk0 d (.kw .dot) 0).rl
  | .apos re sp => LI.congr (fun _ => rfl)
      (LIU.tk0 d (.spelled (if re then .apostropheRE else .apostropheS) sp) 0).rl
  | .hyphen w k => LI.congr (fun _ => rfl)
      (LIU.cons_tk0 (.spelled .minus ['-']) 0 (LIU.tk0 d (.spelled k w) 1) (by decide)).rl
  | .word w k => LI.congr (fun _ => rfl) (LIU.tk0 d (.spelled k w) 0).rl

theorem li_itemsToks : ∀ is : List PoeticItem, LI d (itemsToks (N := N) is)
  | [] => LI.congr (fun _ => rfl) (LIU.nil d).rl
  | i :: is => LI.congr (fun _ => rfl)
      (LIU.append (LIU.sub 0 (li_item d i)) (LIU.sub 1 (li_itemsToks is)) (by decide)).rl

theorem li_junkToks : ∀ ks : List TK, LI d (junkToks (N := N) ks)
  | [] => LI.congr (fun _ => rfl) (LIU.nil d).rl
  | k :: ks => LI.congr (fun _ => rfl)
      (LIU.cons_tk0 (.kw k) 0 (LIU.sub 1 (li_junkToks ks)) (by decide)).rl

theorem li_suffixToks (k : TK) : ∀ n : Nat, LI d (suffixToks (N := N) k n)
  | 0 => LI.congr (fun _ => rfl) (LIU.nil d).rl
  | n + 1 => LI.congr (fun _ => rfl)
      (LIU.cons_tk0 (.kw k) 0
        (LIU.append
          (LIU.ite (fun c => c.choice % 2 = 1) (by pick_tac) (LIU.tk0 d (.kw .comma) 1) (LIU.nil d))
          (LIU.sub 2 (li_suffixToks k n)) (by decide))
        (by decide)).rl


theorem li_simple : ∀ s : SimpleStmt N, LI d s.toks
  | .say e => LI.congr (fun _ => rfl)
      (LIU.cons_tk (fun c => .kw (if (c.sub 0).choice % 2 = 0 then .say else .sayAlias)) (by pick_tac) 0
        (LIU.sub 1 (li_unparse d e)) (by decide)).rl
  | .put e t => LI.congr (fun _ => rfl)
      (LIU.cons_tk0 (.kw .put) 0
        (LIU.append (LIU.sub 1 (li_unparse d e))
          (LIU.cons_tk0 (.kw .into) 2 (LIU.sub 3 (li_target d t)) (by decide)) (by decide))
        (by decide)).rl
  | .letBe t none l => LI.congr (fun _ => rfl)
      (LIU.cons_tk0 (.kw .let_) 0
        (LIU.append (LIU.sub 1 (li_target d t))
          (LIU.cons_tk0 (.kw .be) 2
            (LIU.append (LIU.nil d) (LIU.sub 4 (li_exprList d l)) (by decide)) (by decide))
          (by decide))
        (by decide)).rl
  | .letBe t (some o) l => LI.congr (fun _ => rfl)
      (LIU.cons_tk0 (.kw .let_) 0
        (LIU.append (LIU.sub 1 (li_target d t))
          (LIU.cons_tk0 (.kw .be) 2
            (LIU.append (LIU.tk d (fun c => .kw (opKind o (c.sub 3).choice)) (by pick_tac) 3)
              (LIU.sub 4 (li_exprList d l)) (by decide)) (by decide))
          (by decide))
        (by decide)).rl
  | .build x n => LI.congr (fun _ => rfl)
      (LIU.cons_tk0 (.kw .build) 0
        (LIU.append (LIU.sub 1 (li_id d x)) (LIU.sub 2 (li_suffixToks d .up (n + 1))) (by decide))
        (by decide)).rl
  | .knock x n => LI.congr (fun _ => rfl)
      (LIU.cons_tk0 (.kw .knock) 0
        (LIU.append (LIU.sub 1 (li_id d x)) (LIU.sub 2 (li_suffixToks d .down (n + 1))) (by decide))
        (by decide)).rl
  | .listen none => LI.congr (fun _ => rfl) (LIU.tk0 d (.kw .listen) 0).rl
  | .listen (some t) => LI.congr (fun _ => rfl)
      (LIU.cons_tk0 (.kw .listen) 0
        (LIU.cons_tk0 (.kw .to) 1 (LIU.sub 2 (li_target d t)) (by decide)) (by decide)).rl
  | .turn dir e => LI.congr (fun _ => rfl)
      (LIU.ite (fun c => (c.sub 0).choice % 2 = 0) (by pick_tac)
        (LIU.cons_tk0 (.kw .turn) 0
          (LIU.cons_tk0 (.kw (dirKind dir)) 1 (LIU.sub 2 (li_unparse d e)) (by decide)) (by decide))
        (LIU.cons_tk0 (.kw .turn) 0
          (LIU.append (LIU.sub 2 (li_unparse d e)) (LIU.tk0 d (.kw (dirKind dir)) 1) (by decide))
          (by decide))).rl
  | .rock p none => LI.congr (fun _ => rfl)
      (LIU.cons_tk0 (.kw .rock) 0 (LIU.sub 1 (li_primary d p)) (by decide)).rl
  | .rock p (some l) => LI.congr (fun _ => rfl)
      (LIU.cons_tk0 (.kw .rock) 0
        (LIU.append (LIU.sub 1 (li_primary d p))
          (LIU.cons_tk0 (.kw .with_) 2 (LIU.sub 3 (li_exprList d l)) (by decide)) (by decide))
        (by decide)).rl
  | .roll p none => LI.congr (fun _ => rfl)
      (LIU.cons_tk0 (.kw .roll) 0 (LIU.sub 1 (li_primary d p)) (by decide)).rl
  | .roll p (some t) => LI.congr (fun _ => rfl)
      (LIU.cons_tk0 (.kw .roll) 0
        (LIU.append (LIU.sub 1 (li_primary d p))
          (LIU.cons_tk0 (.kw .into) 2 (LIU.sub 3 (li_target d t)) (by decide)) (by decide))
        (by decide)).rl
  | .ret kw e => LI.congr (fun _ => rfl)
      (LIU.cons_tk0 (.spelled .return_ kw) 0
        (LIU.append
          (LIU.sub 1 (li_optTokP d
            (fun c => CharOps.lower kw == str% "give" && decide (c.choice % 2 = 1)) (by pick_tac) .back))
          (LIU.append (LIU.sub 2 (li_unparse d e))
            (LIU.sub 3 (li_optTokP d (fun c => decide (c.choice % 2 = 1)) (by pick_tac) .back))
            (by decide))
          (by decide))
        (by decide)).rl
  | .break_ none => LI.congr (fun _ => rfl) (LIU.tk0 d (.kw .break_) 0).rl
  | .break_ (some it) => LI.congr (fun _ => rfl)
      (LIU.cons_tk0 (.kw .break_) 0
        (LIU.cons_tk0 (.anyKind it) 1 (LIU.tk0 d (.kw .down) 2) (by decide)) (by decide)).rl
  | .continue_ none => LI.congr (fun _ => rfl) (LIU.tk0 d (.kw .continue_) 0).rl
  | .continue_ (some (it, the)) => LI.congr (fun _ => rfl)
      (LIU.cons_tk0 (.kw .take) 0
        (LIU.cons_tk0 (.anyKind it) 1
          (LIU.cons_tk0 (.kw .to) 2
            (LIU.cons_tk0 (.anyKind the) 3 (LIU.tk0 d (.kw .top) 4) (by decide)) (by decide))
          (by decide))
        (by decide)).rl
  | .mutation op p none none => LI.congr (fun _ => rfl)
      (LIU.cons_tk0 (.kw (mutKind op)) 0
        (LIU.append (LIU.sub 1 (li_primary d p))
          (LIU.append (LIU.nil d) (LIU.nil d) (by decide)) (by decide))
        (by decide)).rl
  | .mutation op p (some t) none => LI.congr (fun _ => rfl)
      (LIU.cons_tk0 (.kw (mutKind op)) 0
        (LIU.append (LIU.sub 1 (li_primary d p))
          (LIU.append (LIU.cons_tk0 (.kw .into) 2 (LIU.sub 3 (li_target d t)) (by decide))
            (LIU.nil d) (by decide)) (by decide))
        (by decide)).rl
  | .mutation op p none (some e) => LI.congr (fun _ => rfl)
      (LIU.cons_tk0 (.kw (mutKind op)) 0
        (LIU.append (LIU.sub 1 (li_primary d p))
          (LIU.append (LIU.nil d)
            (LIU.cons_tk0 (.kw .with_) 4 (LIU.sub 5 (li_unparse d e)) (by decide)) (by decide))
          (by decide))
        (by decide)).rl
  | .mutation op p (some t) (some e) => LI.congr (fun _ => rfl)
      (LIU.cons_tk0 (.kw (mutKind op)) 0
        (LIU.append (LIU.sub 1 (li_primary d p))
          (LIU.append (LIU.cons_tk0 (.kw .into) 2 (LIU.sub 3 (li_target d t)) (by decide))
            (LIU.cons_tk0 (.kw .with_) 4 (LIU.sub 5 (li_unparse d e)) (by decide)) (by decide))
          (by decide))
        (by decide)).rl
  | .call f a as => LI.congr (fun _ => rfl)
      (LIU.append (LIU.sub 0 (li_var d f))
        (LIU.cons_tk0 (.kw .taking) 1
          (LIU.append (LIU.sub 2 (li_unary d a)) (LIU.sub 3 (li_args d as)) (by decide))
          (by decide)) (by decide)).rl
  | .poeticLit t lit => LI.congr (fun _ => rfl)
      (LIU.append (LIU.sub 0 (li_target d t))
        (LIU.cons_tk (fun c => .kw (isKind3 (c.sub 1).choice)) (by pick_tac) 1
          (LIU.sub 2 (li_itemsToks d lit)) (by decide)) (by decide)).rl
  | .poeticExpr t e => LI.congr (fun _ => rfl)
      (LIU.append (LIU.sub 0 (li_target d t))
        (LIU.cons_tk (fun c => .kw (isKind3 (c.sub 1).choice)) (by pick_tac) 1
          (LIU.sub 2 (li_unparse d e)) (by decide)) (by decide)).rl
  | .poeticStr t _ junk => LI.congr (fun _ => rfl)
      (LIU.append (LIU.sub 0 (li_target d t))
        (LIU.cons_tk (fun c => .kw (saysKind (c.sub 1).choice)) (by pick_tac) 1
          (LIU.sub 2 (li_junkToks d junk)) (by decide)) (by decide)).rl
  | .rockLike p lit => LI.congr (fun _ => rfl)
      (LIU.cons_tk0 (.kw .rock) 0
        (LIU.append (LIU.sub 1 (li_primary d p))
          (LIU.cons_tk0 (.kw .like) 2 (LIU.sub 3 (li_itemsToks d lit)) (by decide)) (by decide))
        (by decide)).rl

end

/-! ### lines, blocks, programs -/

section
variable (d : Tok N) [CharOps]

theorem li_eolToks : ∀ e : Eol, LI d (Grammar.eolToks (N := N) e)
  | .none => LI.congr (fun _ => rfl)
      (LIU.append (LIU.nil d) (LIU.tk0 d (.kw .newline) 1) (by decide)).rl
  | .dot => LI.congr (fun _ => rfl)
      (LIU.append (LIU.tk0 d (.kw .dot) 0) (LIU.tk0 d (.kw .newline) 1) (by decide)).rl
  | .comma => LI.congr (fun _ => rfl)
      (LIU.append (LIU.tk0 d (.kw .comma) 0) (LIU.tk0 d (.kw .newline) 1) (by decide)).rl

theorem li_stmtEol : ∀ s : Statement N, LI d s.eolToks
  | .simple _ e => LI.congr (fun _ => rfl) (li_eolToks d e)
  | .ifS _ _ _ _ => LI.congr (fun _ => rfl) (LIU.tk0 d (.kw .newline) 1).rl
  | .whileS _ _ _ => LI.congr (fun _ => rfl) (LIU.tk0 d (.kw .newline) 1).rl
  | .untilS _ _ _ => LI.congr (fun _ => rfl) (LIU.tk0 d (.kw .newline) 1).rl
  | .func _ _ _ _ _ => LI.congr (fun _ => rfl) (LIU.tk0 d (.kw .newline) 1).rl

theorem li_paramsToks : ∀ vs : List VarSpec, LI d (paramsToks (N := N) vs)
  | [] => LI.congr (fun _ => rfl) (LIU.nil d).rl
  | v :: vs => LI.congr (fun _ => rfl)
      (LIU.append (LIU.sub 0 (li_sepToks d))
        (LIU.append (LIU.sub 1 (li_var d v)) (LIU.sub 2 (li_paramsToks vs)) (by decide))
        (by decide)).rl

/-- the blank line that stands for an empty block -/
theorem li_emptyBlock : LI d (fun c : Choices N => [tk (.kw .newline) (c.sub 0)]) :=
  (LIU.tk0 d (.kw .newline) 0).rl

mutual
theorem li_stmt : ∀ s : Statement N, LI d s.toks
  | .simple s _ => LI.congr (fun _ => rfl) (li_simple d s)
  | .ifS cond eol t e => LI.congr (fun c => ifS_toks cond eol t e c)
      (LIU.cons_tk0 (.kw .if_) 0
        (LIU.append (LIU.sub 1 (li_unparse d cond))
          (LIU.append (LIU.sub 2 (li_eolToks d eol))
            (LIU.append (LIU.sub 3 (li_block t)) (liu_else e) (by decide))
            (by decide))
          (by decide))
        (by decide)).rl
  | .whileS cond eol b => LI.congr (fun c => whileS_toks cond eol b c)
      (LIU.cons_tk0 (.kw .while_) 0
        (LIU.append (LIU.sub 1 (li_unparse d cond))
          (LIU.append (LIU.sub 2 (li_eolToks d eol)) (LIU.sub 3 (li_block b)) (by decide))
          (by decide))
        (by decide)).rl
  | .untilS cond eol b => LI.congr (fun c => untilS_toks cond eol b c)
      (LIU.cons_tk0 (.kw .until_) 0
        (LIU.append (LIU.sub 1 (li_unparse d cond))
          (LIU.append (LIU.sub 2 (li_eolToks d eol)) (LIU.sub 3 (li_block b)) (by decide))
          (by decide))
        (by decide)).rl
  | .func f p ps eol b => LI.congr (fun c => func_toks f p ps eol b c)
      (LIU.append (LIU.sub 0 (li_var d f))
        (LIU.cons_tk0 (.kw .takes) 1
          (LIU.append (LIU.sub 2 (li_var d p))
            (LIU.append (LIU.sub 3 (li_paramsToks d ps))
              (LIU.append (LIU.sub 4 (li_eolToks d eol)) (LIU.sub 5 (li_fnBlock b)) (by decide))
              (by decide))
            (by decide))
          (by decide))
        (by decide)).rl
theorem li_block : ∀ b : List (Statement N), LI d (blockToks b)
  | [] => LI.congr (fun _ => rfl) (li_emptyBlock d)
  | s :: ss => LI.congr (fun _ => rfl) (li_lines (s :: ss))
theorem li_fnBlock : ∀ b : List (Statement N), LI d (fnBlockToks b)
  | [] => LI.congr (fun _ => rfl) (li_emptyBlock d)
  | s :: ss => LI.congr (fun _ => rfl) (li_fnLines (s :: ss))
theorem liu_else : ∀ e : Option (List (Statement N)), LIU d (elseToks e) [4, 5, 6]
  | none => LIU.congr (fun _ => rfl) ((LIU.nil d).mono (by simp))
  | some b => LIU.congr (fun _ => rfl)
      (LIU.cons_tk0 (.kw .else_) 4
        (LIU.cons_tk0 (.kw .newline) 5 (LIU.sub 6 (li_block b)) (by decide)) (by decide))
theorem li_lines : ∀ b : List (Statement N), LI d (linesToks b)
  | [] => LI.congr (fun _ => rfl) (LIU.nil d).rl
  | s :: ss => LI.congr (fun c => lines_cons s ss c)
      (LIU.append (LIU.sub 0 (li_stmt s))
        (LIU.append (LIU.sub 1 (li_stmtEol d s)) (LIU.sub 2 (li_lines ss)) (by decide))
        (by decide)).rl
theorem li_fnLines : ∀ b : List (Statement N), LI d (fnLinesToks b)
  | [] => LI.congr (fun _ => rfl) (LIU.nil d).rl
  | s :: ss => LI.congr (fun c => fnLines_cons s ss c)
      (LIU.append (LIU.sub 0 (li_stmt s))
        (LIU.append
          (LIU.ite (fun _ => (ss.isEmpty && s.isIfElse) = true) (fun _ _ _ => Iff.rfl) (LIU.nil d)
            (LIU.sub 1 (li_stmtEol d s)))
          (LIU.sub 2 (li_fnLines ss)) (by decide))
        (by decide)).rl
end

theorem li_blanksToks : ∀ k : Nat, LI d (blanksToks (N := N) k)
  | 0 => LI.congr (fun _ => rfl) (LIU.nil d).rl
  | k + 1 => LI.congr (fun _ => rfl)
      (LIU.cons_tk0 (.kw .newline) 0 (LIU.sub 1 (li_blanksToks k)) (by decide)).rl

/-- the blank lines before a block: their number is a pick -/
theorem li_blanksPick : LI d (fun c : Choices N => blanksToks c.choice c) :=
  LI.of_pick (F := fun pk c => blanksToks (pk []) c) fun pk => li_blanksToks d (pk [])

theorem li_prog : ∀ bs : List (List (Statement N)), LI d (progToks bs)
  | [] => LI.congr (fun _ => rfl) (LIU.sub 0 (li_blanksPick d)).rl
  | b :: bs => LI.congr (fun _ => rfl)
      (LIU.append (LIU.sub 0 (li_blanksPick d))
        (LIU.append (LIU.sub 1 (li_lines d b))
          (LIU.cons_tk0 (.kw .newline) 2 (LIU.sub 3 (li_prog bs)) (by decide)) (by decide))
        (by decide)).rl


end

/-! ### the spellings that end with the input (`…D`) -/

section
variable (dt : Tok N) [CharOps]

theorem liu_eolPunct : ∀ e : Eol, LIU dt (eolPunct (N := N) e) [0]
  | .none => LIU.congr (fun _ => rfl) ((LIU.nil dt).mono (by simp))
  | .dot => LIU.congr (fun _ => rfl) (LIU.tk0 dt (.kw .dot) 0)
  | .comma => LIU.congr (fun _ => rfl) (LIU.tk0 dt (.kw .comma) 0)

theorem li_stmtEolE : ∀ s : Statement N, LI dt s.eolToksE
  | .simple _ .none => LI.congr (fun _ => rfl) (LIU.nil dt).rl
  | .simple _ .dot => LI.congr (fun _ => rfl) (LIU.tk0 dt (.kw .dot) 0).rl
  | .simple _ .comma => LI.congr (fun _ => rfl) (LIU.tk0 dt (.kw .comma) 0).rl
  | .ifS _ _ _ _ => LI.congr (fun _ => rfl) (LIU.nil dt).rl
  | .whileS _ _ _ => LI.congr (fun _ => rfl) (LIU.nil dt).rl
  | .untilS _ _ _ => LI.congr (fun _ => rfl) (LIU.nil dt).rl
  | .func _ _ _ _ _ => LI.congr (fun _ => rfl) (LIU.nil dt).rl


theorem li_hdrE (d : Nat) (eol : Eol) : LI dt (hdrE (N := N) d eol) := by
  rcases d with _ | _ | d
  · exact (LIU.append (liu_eolPunct dt eol) (LIU.tk0 dt (.kw .newline) 1) (by decide)).rl
  · exact (LIU.append (liu_eolPunct dt eol) (LIU.tk0 dt (.kw .newline) 1) (by decide)).rl
  · exact (LIU.append (liu_eolPunct dt eol) (LIU.nil dt) (by decide)).rl

theorem li_blkE (d : Nat) : LI dt (blkE (N := N) d) := by
  rcases d with _ | d
  · exact (LIU.tk0 dt (.kw .newline) 0).rl
  · exact (LIU.nil dt).rl

/-- the line end of a header line and its last block -/
theorem liu_headerTail (d : Nat) (eol : Eol) (b : List (Statement N)) (i j : Nat) (hij : i ≠ j)
    (X : Choices N → List (Tok N)) (hX : LI dt X) :
    LIU dt (fun c => headerTailD d eol b (c.sub i) (c.sub j) (X (c.sub j))) [i, j] := by
  cases b with
  | nil =>
    exact LIU.congr (fun c => headerTailD_nil d eol _ _ _)
      (LIU.append (LIU.sub i (li_hdrE dt d eol)) (LIU.sub j (li_blkE dt d))
        (by intro k hk; simp at hk ⊢; omega))
  | cons s ss =>
    exact LIU.congr (fun _ => rfl)
      (LIU.append (LIU.sub i (li_eolToks dt eol)) (LIU.sub j hX)
        (by intro k hk; simp at hk ⊢; omega))

/-- the `Newline` after `else` and the last block -/
theorem liu_elseTail (d : Nat) (b : List (Statement N)) (X : Choices N → List (Tok N))
    (hX : LI dt X) :
    LIU dt (fun c => elseTailD d b (c.sub 5) (c.sub 6) (X (c.sub 6))) [5, 6] := by
  have hnl : LI dt (fun c : Choices N => [tk (.kw .newline) c]) :=
    LI.here dt (fun _ => .kw .newline) (fun _ _ _ => rfl)
  cases b with
  | nil =>
    rcases d with _ | _ | d
    · exact LIU.congr (fun _ => rfl)
        (LIU.append (LIU.sub 5 hnl) (LIU.sub 6 (li_blkE dt 0)) (by decide))
    · exact LIU.congr (fun _ => rfl)
        ((LIU.sub 5 hnl).mono (by simp))
    · exact LIU.congr (fun _ => rfl) ((LIU.nil dt).mono (by simp))
  | cons s ss =>
    exact LIU.congr (fun _ => rfl)
      (LIU.append (LIU.sub 5 hnl) (LIU.sub 6 hX) (by decide))

mutual
theorem li_stmtD : ∀ (s : Statement N) (d : Nat), LI dt (s.toksD d)
  | .simple s eol, d => LI.congr (fun c => simple_toksD d s eol c) (li_simple dt s)
  | .ifS cond eol t none, d => LI.congr (fun c => ifS_none_toksD d cond eol t c)
      (LIU.cons_tk0 (.kw .if_) 0
        (LIU.append (LIU.sub 1 (li_unparse dt cond))
          (liu_headerTail dt d eol t 2 3 (by decide) _ (li_linesD t d)) (by decide))
        (by decide)).rl
  | .ifS cond eol t (some b), d => LI.congr (fun c => ifS_some_toksD d cond eol t b c)
      (LIU.cons_tk0 (.kw .if_) 0
        (LIU.append (LIU.sub 1 (li_unparse dt cond))
          (LIU.append (LIU.sub 2 (li_eolToks dt eol))
            (LIU.append (LIU.sub 3 (li_block dt t))
              (LIU.cons_tk0 (.kw .else_) 4 (liu_elseTail dt d b _ (li_linesD b d)) (by decide))
              (by decide))
            (by decide))
          (by decide))
        (by decide)).rl
  | .whileS cond eol b, d => LI.congr (fun c => whileS_toksD d cond eol b c)
      (LIU.cons_tk0 (.kw .while_) 0
        (LIU.append (LIU.sub 1 (li_unparse dt cond))
          (liu_headerTail dt d eol b 2 3 (by decide) _ (li_linesD b d)) (by decide))
        (by decide)).rl
  | .untilS cond eol b, d => LI.congr (fun c => untilS_toksD d cond eol b c)
      (LIU.cons_tk0 (.kw .until_) 0
        (LIU.append (LIU.sub 1 (li_unparse dt cond))
          (liu_headerTail dt d eol b 2 3 (by decide) _ (li_linesD b d)) (by decide))
        (by decide)).rl
  | .func f p ps eol b, d => LI.congr (fun c => func_toksD d f p ps eol b c)
      (LIU.append (LIU.sub 0 (li_var dt f))
        (LIU.cons_tk0 (.kw .takes) 1
          (LIU.append (LIU.sub 2 (li_var dt p))
            (LIU.append (LIU.sub 3 (li_paramsToks dt ps))
              (liu_headerTail dt d eol b 4 5 (by decide) _ (li_fnLinesD b d)) (by decide))
            (by decide))
          (by decide))
        (by decide)).rl
theorem li_linesD : ∀ (b : List (Statement N)) (d : Nat), LI dt (linesToksD d b)
  | [], d => LI.congr (fun c => linesD_nil d c) (LIU.nil dt).rl
  | [s], 0 => LI.congr (fun c => linesD_one_zero s c)
      (LIU.append (LIU.sub 0 (li_stmt dt s)) (LIU.sub 1 (li_stmtEol dt s)) (by decide)).rl
  | [s], d + 1 => LI.congr (fun c => linesD_one_succ d s c)
      (LIU.append (LIU.sub 0 (li_stmtD s d)) (LIU.sub 1 (li_stmtEolE dt s)) (by decide)).rl
  | s :: s' :: ss, d => LI.congr (fun c => linesD_cons d s s' ss c)
      (LIU.append (LIU.sub 0 (li_stmt dt s))
        (LIU.append (LIU.sub 1 (li_stmtEol dt s)) (LIU.sub 2 (li_linesD (s' :: ss) d)) (by decide))
        (by decide)).rl
theorem li_fnLinesD : ∀ (b : List (Statement N)) (d : Nat), LI dt (fnLinesToksD d b)
  | [], d => LI.congr (fun c => fnLinesD_nil d c) (LIU.nil dt).rl
  | [s], 0 => LI.congr (fun c => fnLinesD_one 0 s c)
      (LIU.ite (fun _ => s.isIfElse = true) (fun _ _ _ => Iff.rfl)
        (LIU.sub 0 (li_stmtD s 0))
        (LIU.congr (fun c => linesD_one_zero s c)
          (LIU.append (LIU.sub 0 (li_stmt dt s)) (LIU.sub 1 (li_stmtEol dt s)) (by decide)))).rl
  | [s], d + 1 => LI.congr (fun c => fnLinesD_one (d + 1) s c)
      (LIU.ite (fun _ => s.isIfElse = true) (fun _ _ _ => Iff.rfl)
        (LIU.sub 0 (li_stmtD s (d + 1)))
        (LIU.congr (fun c => linesD_one_succ d s c)
          (LIU.append (LIU.sub 0 (li_stmtD s d)) (LIU.sub 1 (li_stmtEolE dt s)) (by decide)))).rl
  | s :: s' :: ss, d => LI.congr (fun c => fnLinesD_cons d s s' ss c)
      (LIU.append (LIU.sub 0 (li_stmt dt s))
        (LIU.append (LIU.sub 1 (li_stmtEol dt s)) (LIU.sub 2 (li_fnLinesD (s' :: ss) d)) (by decide))
        (by decide)).rl
end

theorem li_progD (d : Nat) : ∀ bs : List (List (Statement N)), LI dt (progToksD d bs)
  | [] => LI.congr (fun _ => rfl) (LIU.nil dt).rl
  | [b] => LI.congr (fun _ => rfl)
      (LIU.append (LIU.sub 0 (li_blanksPick dt)) (LIU.sub 1 (li_linesD dt b d)) (by decide)).rl
  | b :: b' :: bs => LI.congr (fun _ => rfl)
      (LIU.append (LIU.sub 0 (li_blanksPick dt))
        (LIU.append (LIU.sub 1 (li_lines dt b))
          (LIU.cons_tk0 (.kw .newline) 2 (LIU.sub 3 (li_progD d (b' :: bs))) (by decide)) (by decide))
        (by decide)).rl

end

/-! ### two choices with the same picks whose token lists agree on views and starts -/

/-- what the poetic-string conditions can see of a token: kind, spelling, payloads, start offset -/
def gv (t : Tok N) : (TK × Str × Option N × Str) × Nat := (tview t, t.start)

theorem gv_split {A A' B B' : List (Tok N)} (hl : A.length = A'.length)
    (h : (A ++ B).map gv = (A' ++ B').map gv) : A.map gv = A'.map gv ∧ B.map gv = B'.map gv := by
  rw [List.map_append, List.map_append] at h
  exact List.append_inj h (by simp [hl])

theorem gv_cons {a a' : Tok N} {B B' : List (Tok N)}
    (h : (a :: B).map gv = (a' :: B').map gv) : gv a = gv a' ∧ B.map gv = B'.map gv := by
  simpa using h

theorem lineText_gv (src : Str) (st : Nat) {rest rest₂ : List (Tok N)}
    (h : rest.map gv = rest₂.map gv) : lineText src st rest = lineText src st rest₂ := by
  cases rest with
  | nil =>
    cases rest₂ with
    | nil => rfl
    | cons _ _ => simp at h
  | cons a r =>
    cases rest₂ with
    | nil => simp at h
    | cons b r₂ =>
      have := (gv_cons h).1
      have hs : a.start = b.start := congrArg (·.2) this
      simp only [lineText, hs]

section
variable [CharOps]

theorem simple_strFits_congr (src : Str) (s : SimpleStmt N) (c c₂ : Choices N)
    (rest rest₂ : List (Tok N)) (hp : c.pick = c₂.pick)
    (hv : (s.toks c).map gv = (s.toks c₂).map gv) (hr : rest.map gv = rest₂.map gv) :
    s.StrFits src c rest → s.StrFits src c₂ rest₂ := by
  cases s with
  | poeticStr t text junk =>
    intro h
    have hv' : (t.toks (c.sub 0) ++ tk (.kw (saysKind (c.sub 1).choice)) (c.sub 1) ::
          junkToks junk (c.sub 2)).map gv
        = (t.toks (c₂.sub 0) ++ tk (.kw (saysKind (c₂.sub 1).choice)) (c₂.sub 1) ::
          junkToks junk (c₂.sub 2)).map gv := hv
    obtain ⟨_, h2⟩ := gv_split (li_target (c.tok []) t _ _ (sub_pick hp 0)) hv'
    obtain ⟨h3, _⟩ := gv_cons h2
    have hs : (c.sub 1).here.start = (c₂.sub 1).here.start := congrArg (·.2) h3
    have hsp : (c.sub 1).here.spelling = (c₂.sub 1).here.spelling := congrArg (·.1.2.1) h3
    show lineText src (c₂.sub 1).here.start rest₂ = some ((c₂.sub 1).here.spelling ++ ' ' :: text)
    rw [← hs, ← hsp, ← lineText_gv src _ hr]
    exact h
  | _ => intro _; trivial

theorem block_lines {b : List (Statement N)} {c c₂ : Choices N}
    (h : (blockToks b c).map gv = (blockToks b c₂).map gv) :
    (linesToks b c).map gv = (linesToks b c₂).map gv := by
  cases b with
  | nil => rfl
  | cons s ss => exact h

theorem fnBlock_lines {b : List (Statement N)} {c c₂ : Choices N}
    (h : (fnBlockToks b c).map gv = (fnBlockToks b c₂).map gv) :
    (fnLinesToks b c).map gv = (fnLinesToks b c₂).map gv := by
  cases b with
  | nil => rfl
  | cons s ss => exact h

mutual
theorem strFits_congr (src : Str) : (s : Statement N) → ∀ (c c₂ : Choices N) (rest rest₂ : List (Tok N)),
    c.pick = c₂.pick → (s.toks c).map gv = (s.toks c₂).map gv → rest.map gv = rest₂.map gv →
    s.StrFits src c rest → s.StrFits src c₂ rest₂
  | .simple s eol, c, c₂, rest, rest₂, hp, hv, hr, h =>
    simple_strFits_congr src s c c₂ rest rest₂ hp hv hr h
  | .ifS cond eol t e, c, c₂, rest, rest₂, hp, hv, hr, h => by
    rw [ifS_toks, ifS_toks] at hv
    rw [ifS_strFits] at h ⊢
    obtain ⟨_, hv⟩ := gv_cons hv
    obtain ⟨_, hv⟩ := gv_split (li_unparse (c.tok []) cond _ _ (sub_pick hp 1)) hv
    obtain ⟨_, hv⟩ := gv_split (li_eolToks (c.tok []) eol _ _ (sub_pick hp 2)) hv
    obtain ⟨hb, hv⟩ := gv_split (li_block (c.tok []) t _ _ (sub_pick hp 3)) hv
    refine ⟨linesStrFits_congr src t (c.sub 3) (c₂.sub 3) (sub_pick hp 3) (block_lines hb) h.1, ?_⟩
    cases e with
    | none => trivial
    | some b =>
      have hv' : (tk (.kw .else_) (c.sub 4) :: tk (.kw .newline) (c.sub 5) :: blockToks b (c.sub 6)).map gv
          = (tk (.kw .else_) (c₂.sub 4) :: tk (.kw .newline) (c₂.sub 5) :: blockToks b (c₂.sub 6)).map gv := hv
      obtain ⟨_, hv'⟩ := gv_cons hv'
      obtain ⟨_, hv'⟩ := gv_cons hv'
      exact linesStrFits_congr src b (c.sub 6) (c₂.sub 6) (sub_pick hp 6) (block_lines hv') h.2
  | .whileS cond eol b, c, c₂, rest, rest₂, hp, hv, hr, h => by
    rw [whileS_toks, whileS_toks] at hv
    obtain ⟨_, hv⟩ := gv_cons hv
    obtain ⟨_, hv⟩ := gv_split (li_unparse (c.tok []) cond _ _ (sub_pick hp 1)) hv
    obtain ⟨_, hv⟩ := gv_split (li_eolToks (c.tok []) eol _ _ (sub_pick hp 2)) hv
    exact linesStrFits_congr src b (c.sub 3) (c₂.sub 3) (sub_pick hp 3) (block_lines hv) h
  | .untilS cond eol b, c, c₂, rest, rest₂, hp, hv, hr, h => by
    rw [untilS_toks, untilS_toks] at hv
    obtain ⟨_, hv⟩ := gv_cons hv
    obtain ⟨_, hv⟩ := gv_split (li_unparse (c.tok []) cond _ _ (sub_pick hp 1)) hv
    obtain ⟨_, hv⟩ := gv_split (li_eolToks (c.tok []) eol _ _ (sub_pick hp 2)) hv
    exact linesStrFits_congr src b (c.sub 3) (c₂.sub 3) (sub_pick hp 3) (block_lines hv) h
  | .func f p ps eol b, c, c₂, rest, rest₂, hp, hv, hr, h => by
    rw [func_toks, func_toks] at hv
    obtain ⟨_, hv⟩ := gv_split (li_var (c.tok []) f _ _ (sub_pick hp 0)) hv
    obtain ⟨_, hv⟩ := gv_cons hv
    obtain ⟨_, hv⟩ := gv_split (li_var (c.tok []) p _ _ (sub_pick hp 2)) hv
    obtain ⟨_, hv⟩ := gv_split (li_paramsToks (c.tok []) ps _ _ (sub_pick hp 3)) hv
    obtain ⟨_, hv⟩ := gv_split (li_eolToks (c.tok []) eol _ _ (sub_pick hp 4)) hv
    exact fnLinesStrFits_congr src b (c.sub 5) (c₂.sub 5) (sub_pick hp 5) (fnBlock_lines hv) h
theorem linesStrFits_congr (src : Str) : (ls : List (Statement N)) → ∀ (c c₂ : Choices N),
    c.pick = c₂.pick → (linesToks ls c).map gv = (linesToks ls c₂).map gv →
    linesStrFits src ls c → linesStrFits src ls c₂
  | [], _, _, _, _, _ => trivial
  | s :: ss, c, c₂, hp, hv, h => by
    rw [lines_cons, lines_cons] at hv
    rw [linesStrFits_cons] at h ⊢
    obtain ⟨hs, hv⟩ := gv_split (li_stmt (c.tok []) s _ _ (sub_pick hp 0)) hv
    obtain ⟨he, hv⟩ := gv_split (li_stmtEol (c.tok []) s _ _ (sub_pick hp 1)) hv
    exact ⟨strFits_congr src s (c.sub 0) (c₂.sub 0) _ _ (sub_pick hp 0) hs he h.1,
      linesStrFits_congr src ss (c.sub 2) (c₂.sub 2) (sub_pick hp 2) hv h.2⟩
theorem fnLinesStrFits_congr (src : Str) : (ls : List (Statement N)) → ∀ (c c₂ : Choices N),
    c.pick = c₂.pick → (fnLinesToks ls c).map gv = (fnLinesToks ls c₂).map gv →
    fnLinesStrFits src ls c → fnLinesStrFits src ls c₂
  | [], _, _, _, _, _ => trivial
  | s :: ss, c, c₂, hp, hv, h => by
    rw [fnLines_cons, fnLines_cons] at hv
    rw [fnLinesStrFits_cons] at h ⊢
    obtain ⟨hs, hv⟩ := gv_split (li_stmt (c.tok []) s _ _ (sub_pick hp 0)) hv
    by_cases hc : (ss.isEmpty && s.isIfElse) = true
    · simp only [if_pos hc, List.nil_append] at hv h ⊢
      exact ⟨strFits_congr src s (c.sub 0) (c₂.sub 0) _ _ (sub_pick hp 0) hs rfl h.1,
        fnLinesStrFits_congr src ss (c.sub 2) (c₂.sub 2) (sub_pick hp 2) hv h.2⟩
    · simp only [if_neg hc] at hv h ⊢
      obtain ⟨he, hv⟩ := gv_split (li_stmtEol (c.tok []) s _ _ (sub_pick hp 1)) hv
      exact ⟨strFits_congr src s (c.sub 0) (c₂.sub 0) _ _ (sub_pick hp 0) hs he h.1,
        fnLinesStrFits_congr src ss (c.sub 2) (c₂.sub 2) (sub_pick hp 2) hv h.2⟩
end

/-- **The poetic-string conditions depend on views and starts only.** -/
theorem progStrFits_congr (src : Str) : ∀ (bs : List (List (Statement N))) (c c₂ : Choices N),
    c.pick = c₂.pick → (progToks bs c).map gv = (progToks bs c₂).map gv →
    progStrFits src bs c → progStrFits src bs c₂
  | [], _, _, _, _, _ => trivial
  | b :: bs, c, c₂, hp, hv, h => by
    have hv' : (blanksToks (c.sub 0).choice (c.sub 0) ++ (linesToks b (c.sub 1) ++
          tk (.kw .newline) (c.sub 2) :: progToks bs (c.sub 3))).map gv
        = (blanksToks (c₂.sub 0).choice (c₂.sub 0) ++ (linesToks b (c₂.sub 1) ++
          tk (.kw .newline) (c₂.sub 2) :: progToks bs (c₂.sub 3))).map gv := hv
    have h' : linesStrFits src b (c.sub 1) ∧ progStrFits src bs (c.sub 3) := h
    obtain ⟨_, hv'⟩ := gv_split (li_blanksPick (c.tok []) _ _ (sub_pick hp 0)) hv'
    obtain ⟨hl, hv'⟩ := gv_split (li_lines (c.tok []) b _ _ (sub_pick hp 1)) hv'
    obtain ⟨_, hv'⟩ := gv_cons hv'
    exact ⟨linesStrFits_congr src b (c.sub 1) (c₂.sub 1) (sub_pick hp 1) hl h'.1,
      progStrFits_congr src bs (c.sub 3) (c₂.sub 3) (sub_pick hp 3) hv' h'.2⟩

end

/-! ### the same for the spellings that end with the input -/

section
variable [CharOps]

theorem headerTailD_lines {d : Nat} {eol : Eol} {b : List (Statement N)} {c2 c3 c2' c3' : Choices N}
    {X X' : List (Tok N)} (hp : c2.pick = c2'.pick) (hb : b ≠ [])
    (h : (headerTailD d eol b c2 c3 X).map gv = (headerTailD d eol b c2' c3' X').map gv) :
    X.map gv = X'.map gv := by
  cases b with
  | nil => exact absurd rfl hb
  | cons s ss =>
    have h' : (Grammar.eolToks eol c2 ++ X).map gv = (Grammar.eolToks eol c2' ++ X').map gv := h
    exact (gv_split (li_eolToks (c2.tok []) eol _ _ hp) h').2

theorem elseTailD_lines {d : Nat} {b : List (Statement N)} {c5 c6 c5' c6' : Choices N}
    {X X' : List (Tok N)} (hb : b ≠ [])
    (h : (elseTailD d b c5 c6 X).map gv = (elseTailD d b c5' c6' X').map gv) :
    X.map gv = X'.map gv := by
  cases b with
  | nil => exact absurd rfl hb
  | cons s ss =>
    have h' : (tk (.kw .newline) c5 :: X).map gv = (tk (.kw .newline) c5' :: X').map gv := h
    exact (gv_cons h').2

theorem linesStrFitsD_nil (src : Str) (d : Nat) (c : Choices N) :
    linesStrFitsD src d ([] : List (Statement N)) c := by
  cases d <;> trivial

theorem fnLinesStrFitsD_nil (src : Str) (d : Nat) (c : Choices N) :
    fnLinesStrFitsD src d ([] : List (Statement N)) c := by
  cases d <;> trivial

mutual
theorem strFitsD_congr (src : Str) : (s : Statement N) → ∀ (d : Nat) (c c₂ : Choices N) (rest rest₂ : List (Tok N)),
    c.pick = c₂.pick → (s.toksD d c).map gv = (s.toksD d c₂).map gv → rest.map gv = rest₂.map gv →
    s.StrFitsD src d c rest → s.StrFitsD src d c₂ rest₂
  | .simple s eol, d, c, c₂, rest, rest₂, hp, hv, hr, h => by
    rw [simple_toksD, simple_toksD] at hv
    rw [simple_strFitsD] at h ⊢
    exact simple_strFits_congr src s c c₂ rest rest₂ hp hv hr h
  | .ifS cond eol t none, d, c, c₂, rest, rest₂, hp, hv, hr, h => by
    rw [ifS_none_toksD, ifS_none_toksD] at hv
    rw [ifS_none_strFitsD] at h ⊢
    obtain ⟨_, hv⟩ := gv_cons hv
    obtain ⟨_, hv⟩ := gv_split (li_unparse (c.tok []) cond _ _ (sub_pick hp 1)) hv
    by_cases hb : t = []
    · subst hb; exact linesStrFitsD_nil src d _
    · exact linesStrFitsD_congr src t d (c.sub 3) (c₂.sub 3) (sub_pick hp 3)
        (headerTailD_lines (sub_pick hp 2) hb hv) h
  | .ifS cond eol t (some b), d, c, c₂, rest, rest₂, hp, hv, hr, h => by
    rw [ifS_some_toksD, ifS_some_toksD] at hv
    rw [ifS_some_strFitsD] at h ⊢
    obtain ⟨_, hv⟩ := gv_cons hv
    obtain ⟨_, hv⟩ := gv_split (li_unparse (c.tok []) cond _ _ (sub_pick hp 1)) hv
    obtain ⟨_, hv⟩ := gv_split (li_eolToks (c.tok []) eol _ _ (sub_pick hp 2)) hv
    obtain ⟨ht, hv⟩ := gv_split (li_block (c.tok []) t _ _ (sub_pick hp 3)) hv
    obtain ⟨_, hv⟩ := gv_cons hv
    refine ⟨linesStrFits_congr src t (c.sub 3) (c₂.sub 3) (sub_pick hp 3) (block_lines ht) h.1, ?_⟩
    by_cases hb : b = []
    · subst hb; exact linesStrFitsD_nil src d _
    · exact linesStrFitsD_congr src b d (c.sub 6) (c₂.sub 6) (sub_pick hp 6)
        (elseTailD_lines hb hv) h.2
  | .whileS cond eol b, d, c, c₂, rest, rest₂, hp, hv, hr, h => by
    rw [whileS_toksD, whileS_toksD] at hv
    rw [whileS_strFitsD] at h ⊢
    obtain ⟨_, hv⟩ := gv_cons hv
    obtain ⟨_, hv⟩ := gv_split (li_unparse (c.tok []) cond _ _ (sub_pick hp 1)) hv
    by_cases hb : b = []
    · subst hb; exact linesStrFitsD_nil src d _
    · exact linesStrFitsD_congr src b d (c.sub 3) (c₂.sub 3) (sub_pick hp 3)
        (headerTailD_lines (sub_pick hp 2) hb hv) h
  | .untilS cond eol b, d, c, c₂, rest, rest₂, hp, hv, hr, h => by
    rw [untilS_toksD, untilS_toksD] at hv
    rw [untilS_strFitsD] at h ⊢
    obtain ⟨_, hv⟩ := gv_cons hv
    obtain ⟨_, hv⟩ := gv_split (li_unparse (c.tok []) cond _ _ (sub_pick hp 1)) hv
    by_cases hb : b = []
    · subst hb; exact linesStrFitsD_nil src d _
    · exact linesStrFitsD_congr src b d (c.sub 3) (c₂.sub 3) (sub_pick hp 3)
        (headerTailD_lines (sub_pick hp 2) hb hv) h
  | .func f p ps eol b, d, c, c₂, rest, rest₂, hp, hv, hr, h => by
    rw [func_toksD, func_toksD] at hv
    rw [func_strFitsD] at h ⊢
    obtain ⟨_, hv⟩ := gv_split (li_var (c.tok []) f _ _ (sub_pick hp 0)) hv
    obtain ⟨_, hv⟩ := gv_cons hv
    obtain ⟨_, hv⟩ := gv_split (li_var (c.tok []) p _ _ (sub_pick hp 2)) hv
    obtain ⟨_, hv⟩ := gv_split (li_paramsToks (c.tok []) ps _ _ (sub_pick hp 3)) hv
    by_cases hb : b = []
    · subst hb; exact fnLinesStrFitsD_nil src d _
    · exact fnLinesStrFitsD_congr src b d (c.sub 5) (c₂.sub 5) (sub_pick hp 5)
        (headerTailD_lines (sub_pick hp 4) hb hv) h
theorem linesStrFitsD_congr (src : Str) : (ls : List (Statement N)) → ∀ (d : Nat) (c c₂ : Choices N),
    c.pick = c₂.pick → (linesToksD d ls c).map gv = (linesToksD d ls c₂).map gv →
    linesStrFitsD src d ls c → linesStrFitsD src d ls c₂
  | [], d, c, c₂, _, _, _ => linesStrFitsD_nil src d c₂
  | [s], 0, c, c₂, hp, hv, h => by
    rw [linesD_one_zero, linesD_one_zero] at hv
    have h' : s.StrFits src (c.sub 0) (s.eolToks (c.sub 1)) := h
    show s.StrFits src (c₂.sub 0) (s.eolToks (c₂.sub 1))
    obtain ⟨hs, he⟩ := gv_split (li_stmt (c.tok []) s _ _ (sub_pick hp 0)) hv
    exact strFits_congr src s (c.sub 0) (c₂.sub 0) _ _ (sub_pick hp 0) hs he h'
  | [s], d + 1, c, c₂, hp, hv, h => by
    rw [linesD_one_succ, linesD_one_succ] at hv
    have h' : s.StrFitsD src d (c.sub 0) (s.eolToksE (c.sub 1)) := h
    show s.StrFitsD src d (c₂.sub 0) (s.eolToksE (c₂.sub 1))
    obtain ⟨hs, he⟩ := gv_split (li_stmtD (c.tok []) s d _ _ (sub_pick hp 0)) hv
    exact strFitsD_congr src s d (c.sub 0) (c₂.sub 0) _ _ (sub_pick hp 0) hs he h'
  | s :: s' :: ss, d, c, c₂, hp, hv, h => by
    rw [linesD_cons, linesD_cons] at hv
    rw [linesStrFitsD_cons] at h ⊢
    obtain ⟨hs, hv⟩ := gv_split (li_stmt (c.tok []) s _ _ (sub_pick hp 0)) hv
    obtain ⟨he, hv⟩ := gv_split (li_stmtEol (c.tok []) s _ _ (sub_pick hp 1)) hv
    exact ⟨strFits_congr src s (c.sub 0) (c₂.sub 0) _ _ (sub_pick hp 0) hs he h.1,
      linesStrFitsD_congr src (s' :: ss) d (c.sub 2) (c₂.sub 2) (sub_pick hp 2) hv h.2⟩
theorem fnLinesStrFitsD_congr (src : Str) : (ls : List (Statement N)) → ∀ (d : Nat) (c c₂ : Choices N),
    c.pick = c₂.pick → (fnLinesToksD d ls c).map gv = (fnLinesToksD d ls c₂).map gv →
    fnLinesStrFitsD src d ls c → fnLinesStrFitsD src d ls c₂
  | [], d, c, c₂, _, _, _ => fnLinesStrFitsD_nil src d c₂
  | [s], d, c, c₂, hp, hv, h => by
    rw [fnLinesD_one, fnLinesD_one] at hv
    rw [fnLinesStrFitsD_one] at h ⊢
    by_cases hc : s.isIfElse = true
    · simp only [if_pos hc] at hv h ⊢
      exact strFitsD_congr src s d (c.sub 0) (c₂.sub 0) _ _ (sub_pick hp 0) hv rfl h
    · simp only [if_neg hc] at hv h ⊢
      exact linesStrFitsD_congr src [s] d c c₂ hp hv h
  | s :: s' :: ss, d, c, c₂, hp, hv, h => by
    rw [fnLinesD_cons, fnLinesD_cons] at hv
    rw [fnLinesStrFitsD_cons] at h ⊢
    obtain ⟨hs, hv⟩ := gv_split (li_stmt (c.tok []) s _ _ (sub_pick hp 0)) hv
    obtain ⟨he, hv⟩ := gv_split (li_stmtEol (c.tok []) s _ _ (sub_pick hp 1)) hv
    exact ⟨strFits_congr src s (c.sub 0) (c₂.sub 0) _ _ (sub_pick hp 0) hs he h.1,
      fnLinesStrFitsD_congr src (s' :: ss) d (c.sub 2) (c₂.sub 2) (sub_pick hp 2) hv h.2⟩
end

/-- **… for the spellings that end with the input.** -/
theorem progStrFitsD_congr (src : Str) (d : Nat) : ∀ (bs : List (List (Statement N))) (c c₂ : Choices N),
    c.pick = c₂.pick → (progToksD d bs c).map gv = (progToksD d bs c₂).map gv →
    progStrFitsD src d bs c → progStrFitsD src d bs c₂
  | [], _, _, _, _, _ => trivial
  | [b], c, c₂, hp, hv, h => by
    have hv' : (blanksToks (c.sub 0).choice (c.sub 0) ++ linesToksD d b (c.sub 1)).map gv
        = (blanksToks (c₂.sub 0).choice (c₂.sub 0) ++ linesToksD d b (c₂.sub 1)).map gv := hv
    have h' : linesStrFitsD src d b (c.sub 1) := h
    show linesStrFitsD src d b (c₂.sub 1)
    obtain ⟨_, hv'⟩ := gv_split (li_blanksPick (c.tok []) _ _ (sub_pick hp 0)) hv'
    exact linesStrFitsD_congr src b d (c.sub 1) (c₂.sub 1) (sub_pick hp 1) hv' h'
  | b :: b' :: bs, c, c₂, hp, hv, h => by
    have hv' : (blanksToks (c.sub 0).choice (c.sub 0) ++ (linesToks b (c.sub 1) ++
          tk (.kw .newline) (c.sub 2) :: progToksD d (b' :: bs) (c.sub 3))).map gv
        = (blanksToks (c₂.sub 0).choice (c₂.sub 0) ++ (linesToks b (c₂.sub 1) ++
          tk (.kw .newline) (c₂.sub 2) :: progToksD d (b' :: bs) (c₂.sub 3))).map gv := hv
    have h' : linesStrFits src b (c.sub 1) ∧ progStrFitsD src d (b' :: bs) (c.sub 3) := h
    obtain ⟨_, hv'⟩ := gv_split (li_blanksPick (c.tok []) _ _ (sub_pick hp 0)) hv'
    obtain ⟨hl, hv'⟩ := gv_split (li_lines (c.tok []) b _ _ (sub_pick hp 1)) hv'
    obtain ⟨_, hv'⟩ := gv_cons hv'
    exact ⟨linesStrFits_congr src b (c.sub 1) (c₂.sub 1) (sub_pick hp 1) hl h'.1,
      progStrFitsD_congr src d (b' :: bs) (c.sub 3) (c₂.sub 3) (sub_pick hp 3) hv' h'.2⟩

end

/-! ### the composition: `hstr` for the given choices only -/

section
variable [CharOps] [NumOps N]

theorem visibleAt_fst_aux : ∀ (items : List (Sep × Piece)) (pre : Nat),
    (((items.zip (offsets pre items)).filter (fun x => !x.1.2.isComment)).map
        (fun x => ((x.1.2.expect : TK × Str × Option N × Str), x.2))).map (·.1)
      = (visible items).map (fun p => (p.expect : TK × Str × Option N × Str))
  | [], _ => rfl
  | (s, p) :: r, pre => by
    have ih := visibleAt_fst_aux r (pre + ulen s + ulen p.text)
    simp only [visible] at ih ⊢
    simp only [offsets, List.zip_cons_cons, List.filter_cons]
    cases hc : (!p.isComment)
    · simpa using ih
    · simpa using ih

/-- the views of `visibleAt` are the views of the visible pieces -/
theorem visibleAt_fst (items : List (Sep × Piece)) :
    (visibleAt (N := N) items).map (·.1)
      = (visible items).map (fun p => (p.expect : TK × Str × Option N × Str)) :=
  visibleAt_fst_aux items 0

theorem views_of_viewsAt {ts : List (Tok N)} {items : List (Sep × Piece)}
    (h : ts.map (fun t => (tview t, t.start)) = visibleAt items) :
    (visible items).map (fun p => (p.expect : TK × Str × Option N × Str)) = ts.map tview := by
  rw [← visibleAt_fst, ← h, List.map_map]
  rfl

/-- the condition `hstr` of `C02_text_poetic_string_partial` for ALL agreeing templates, from the
    condition for one of them -/
theorem strFits_all (src : Str) (bs : List (List (Statement N))) (c : Choices N)
    (items : List (Sep × Piece))
    (hva : (progToks bs c).map (fun t => (tview t, t.start)) = visibleAt items)
    (hstr : progStrFits src bs c) :
    ∀ c₂ : Choices N, c₂.pick = c.pick →
      (progToks bs c₂).map (fun t => (tview t, t.start)) = visibleAt items →
      progStrFits src bs c₂ :=
  fun c₂ hp hv₂ => progStrFits_congr src bs c c₂ hp.symm (hva.trans hv₂.symm) hstr

theorem strFitsD_all (src : Str) (d : Nat) (bs : List (List (Statement N))) (c : Choices N)
    (items : List (Sep × Piece))
    (hva : (progToksD d bs c).map (fun t => (tview t, t.start)) = visibleAt items)
    (hstr : progStrFitsD src d bs c) :
    ∀ c₂ : Choices N, c₂.pick = c.pick →
      (progToksD d bs c₂).map (fun t => (tview t, t.start)) = visibleAt items →
      progStrFitsD src d bs c₂ :=
  fun c₂ hp hv₂ => progStrFitsD_congr src d bs c c₂ hp.symm (hva.trans hv₂.symm) hstr

end

/-- **Token-list lengths depend on the picks only**: two choices with the same picks give token
    lists of the same length and the same kinds … -/
theorem progToks_length_of_pick [CharOps] (bs : List (List (Statement N))) (c c₂ : Choices N)
    (hp : c.pick = c₂.pick) : (progToks bs c).length = (progToks bs c₂).length :=
  li_prog (c.tok []) bs c c₂ hp

theorem progToksD_length_of_pick [CharOps] (d : Nat) (bs : List (List (Statement N))) (c c₂ : Choices N)
    (hp : c.pick = c₂.pick) : (progToksD d bs c).length = (progToksD d bs c₂).length :=
  li_progD (c.tok []) d bs c c₂ hp

theorem stmtToks_length_of_pick [CharOps] (s : Statement N) (c c₂ : Choices N)
    (hp : c.pick = c₂.pick) : (s.toks c).length = (s.toks c₂).length :=
  li_stmt (c.tok []) s c c₂ hp

theorem stmtToksD_length_of_pick [CharOps] (d : Nat) (s : Statement N) (c c₂ : Choices N)
    (hp : c.pick = c₂.pick) : (s.toksD d c).length = (s.toksD d c₂).length :=
  li_stmtD (c.tok []) s d c c₂ hp

end Grammar

/-! ### data of the non-vacuity examples of Rrss/Thm/C02TextString.lean -/

namespace SpellStringEx
open Grammar Lexer Spelling SpellEx SpellPoeticEx

/-- a template token with the four fields a piece fixes and a start offset -/
def tokAt (x : (TK × Str × Option Int × Str) × Nat) : Tok Int := { tokOf x.1 with start := x.2 }

/-- the choices (all picks `0`) whose templates carry the views AND start offsets of the visible
    pieces of `x says Hello, World! (you)⏎⏎` -/
def choicesSays : Choices Int :=
  choicesFor (@progToks Int asciiOps progSays) (fun _ => 0)
    ((@visibleAt Int numOpsInt itemsSays).map tokAt)

/-- … of `x says hi, there!<EOF>` -/
def choicesSaysEof : Choices Int :=
  choicesFor (@progToksD Int asciiOps 1 progSaysEof) (fun _ => 0)
    ((@visibleAt Int numOpsInt itemsSaysEof).map tokAt)

theorem says_viewsAt :
    (@progToks Int asciiOps progSays choicesSays).map (fun t => (tview t, t.start))
      = @visibleAt Int numOpsInt itemsSays := by decide +kernel

theorem says_strFits_given : progStrFits (spell itemsSays []) progSays choicesSays := by
  simp only [progStrFits, linesStrFits, Statement.StrFits, SimpleStmt.StrFits, progSays, and_true]
  decide +kernel

theorem saysEof_viewsAt :
    (@progToksD Int asciiOps 1 progSaysEof choicesSaysEof).map (fun t => (tview t, t.start))
      = @visibleAt Int numOpsInt itemsSaysEof := by decide +kernel

theorem saysEof_strFits_given :
    progStrFitsD (spell itemsSaysEof ['!']) 1 progSaysEof choicesSaysEof := by
  simp only [progStrFitsD, linesStrFitsD, Statement.StrFitsD, SimpleStmt.StrFits, progSaysEof]
  decide +kernel

/-- other templates with the same picks, views and starts (the `after` snapshots differ) -/
def choicesSays' : Choices Int :=
  ⟨choicesSays.pick, fun p => { choicesSays.tok p with after := ⟨7, 3, 5⟩ }⟩

theorem says_agree :
    (@progToks Int asciiOps progSays choicesSays).map (fun t => (tview t, t.start))
      = (@progToks Int asciiOps progSays choicesSays').map (fun t => (tview t, t.start)) := by
  decide +kernel

theorem says_differ : choicesSays.tok [1, 0, 1] ≠ choicesSays'.tok [1, 0, 1] := by
  intro h
  have := congrArg (fun t => t.after.line) h
  revert this
  decide +kernel

def choicesSaysEof' : Choices Int :=
  ⟨choicesSaysEof.pick, fun p => { choicesSaysEof.tok p with after := ⟨7, 3, 5⟩ }⟩

theorem saysEof_agree :
    (@progToksD Int asciiOps 1 progSaysEof choicesSaysEof).map (fun t => (tview t, t.start))
      = (@progToksD Int asciiOps 1 progSaysEof choicesSaysEof').map (fun t => (tview t, t.start)) := by
  decide +kernel

end SpellStringEx
end Rrss
