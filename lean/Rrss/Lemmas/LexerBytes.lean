/-
  Rrss.Lemmas.LexerBytes — byte-offset slicing lemmas (`ulen`, `dropBytes`, `takeBytes`,
  `substr`), line/column bookkeeping lemmas (`countNl`, `lastLine`, `locOf`), the search helpers
  of the lexer (`findNextIndex`, `advanceTo`, `scanClose`).
-/
import Rrss.Lexer
import Rrss.Spec.SourcePos
namespace Rrss
namespace Lexer
open Spec

/-! ### ulen -/

@[simp] theorem ulen_nil : ulen [] = 0 := rfl
@[simp] theorem ulen_cons (c : Char) (cs : Str) : ulen (c :: cs) = c.utf8Size + ulen cs := rfl
@[simp] theorem ulen_append (a b : Str) : ulen (a ++ b) = ulen a + ulen b := by
  induction a with
  | nil => simp
  | cons c cs ih => simp [ih, Nat.add_assoc]
@[simp] theorem ulen_reverse (a : Str) : ulen a.reverse = ulen a := by
  induction a with
  | nil => simp
  | cons c cs ih => simp [ih, Nat.add_comm]

theorem usize_pos (c : Char) : 0 < c.utf8Size := Char.utf8Size_pos c

theorem ulen_pos_of_ne_nil {s : Str} (h : s ≠ []) : 0 < ulen s := by
  cases s with
  | nil => exact absurd rfl h
  | cons c cs => have := usize_pos c; simp; omega

/-! ### dropBytes / takeBytes / substr -/

theorem dropBytes_append (a b : Str) : dropBytes (ulen a) (a ++ b) = some b := by
  induction a with
  | nil => cases b <;> simp [dropBytes]
  | cons c cs ih =>
    have := usize_pos c
    simp only [ulen_cons, List.cons_append]
    rw [show c.utf8Size + ulen cs = (c.utf8Size + ulen cs - 1) + 1 by omega, dropBytes]
    simp only [show c.utf8Size ≤ c.utf8Size + ulen cs - 1 + 1 by omega, ite_true]
    rw [show c.utf8Size + ulen cs - 1 + 1 - c.utf8Size = ulen cs by omega]; exact ih

theorem takeBytes_append (a b : Str) : takeBytes (ulen a) (a ++ b) = some a := by
  induction a with
  | nil => cases b <;> simp [takeBytes]
  | cons c cs ih =>
    have := usize_pos c
    simp only [ulen_cons, List.cons_append]
    rw [show c.utf8Size + ulen cs = (c.utf8Size + ulen cs - 1) + 1 by omega, takeBytes]
    simp only [show c.utf8Size ≤ c.utf8Size + ulen cs - 1 + 1 by omega, ite_true]
    rw [show c.utf8Size + ulen cs - 1 + 1 - c.utf8Size = ulen cs by omega, ih]; rfl

/-- the slice between two character boundaries -/
theorem substr_mid (pre mid post : Str) :
    substr (pre ++ mid ++ post) (ulen pre) (ulen pre + ulen mid) = some mid := by
  simp [substr, List.append_assoc, dropBytes_append, takeBytes_append]

theorem substr_mid' {src pre mid post : Str} {lo hi : Nat} (h : src = pre ++ mid ++ post)
    (hlo : lo = ulen pre) (hhi : hi = ulen pre + ulen mid) : substr src lo hi = some mid := by
  subst h hlo hhi; exact substr_mid _ _ _

theorem isCharBoundary_append (a b : Str) : isCharBoundary (a ++ b) (ulen a) = true := by
  simp [isCharBoundary, dropBytes_append]

theorem prefixBytes_append (a b : Str) : prefixBytes (a ++ b) (ulen a) = a := by
  induction a with
  | nil =>
    cases b with
    | nil => rfl
    | cons c cs => have := usize_pos c; simp [prefixBytes]; omega
  | cons c cs ih => simp [prefixBytes, ih]

theorem trueLoc_append (a b : Str) : trueLoc (a ++ b) (ulen a) = locOf a := by
  simp [trueLoc, prefixBytes_append]

/-! ### line feeds, last line -/

@[simp] theorem countNl_nil : countNl [] = 0 := rfl
@[simp] theorem countNl_append (a b : Str) : countNl (a ++ b) = countNl a + countNl b := by
  simp [countNl]
theorem countNl_cons (c : Char) (a : Str) :
    countNl (c :: a) = (if c = '\n' then 1 else 0) + countNl a := by
  simp only [countNl, List.count_cons]
  by_cases h : c = '\n' <;> simp [h, Nat.add_comm]

theorem countNl_eq_zero {a : Str} (h : ∀ x ∈ a, x ≠ '\n') : countNl a = 0 := by
  simp only [countNl, List.count_eq_zero]
  intro hm; exact h _ hm rfl

theorem takeWhile_append_stop {α} (p : α → Bool) (l₁ : List α) (x : α) (l₂ : List α)
    (hx : p x = false) : (l₁ ++ x :: l₂).takeWhile p = l₁.takeWhile p := by
  induction l₁ with
  | nil => simp [List.takeWhile, hx]
  | cons y ys ih => simp only [List.cons_append, List.takeWhile]; split <;> simp [ih]

theorem takeWhile_append_all {α} (p : α → Bool) (l₁ l₂ : List α)
    (h : ∀ y ∈ l₁, p y = true) : (l₁ ++ l₂).takeWhile p = l₁ ++ l₂.takeWhile p := by
  induction l₁ with
  | nil => simp
  | cons y ys ih =>
    simp only [List.cons_append, List.takeWhile, h y (by simp)]
    rw [ih (fun z hz => h z (by simp [hz]))]

theorem lastLine_append_noNl (a b : Str) (h : ∀ x ∈ b, x ≠ '\n') :
    lastLine (a ++ b) = lastLine a ++ b := by
  simp only [lastLine, List.reverse_append]
  rw [takeWhile_append_all]
  · simp
  · intro y hy; simp at hy; simpa using h y hy

theorem lastLine_append_nl (a b : Str) : lastLine (a ++ '\n' :: b) = lastLine b := by
  simp only [lastLine, List.reverse_append, List.reverse_cons, List.append_assoc,
    List.singleton_append]
  rw [takeWhile_append_stop]; simp

@[simp] theorem lastLine_nil : lastLine [] = [] := rfl

theorem locOf_nil : locOf [] = ⟨1, 0⟩ := rfl

theorem not_mem_nl_of_countNl_zero {q : Str} (h : countNl q = 0) : ∀ x ∈ q, x ≠ '\n' := by
  intro x hx hx'; subst hx'
  simp only [countNl, List.count_eq_zero] at h; exact h hx

theorem locOf_not_lt (p q : Str) : (locOf (p ++ q)).lt (locOf p) = false := by
  simp only [Loc.lt, locOf, countNl_append, Bool.or_eq_false_iff, Bool.and_eq_false_iff,
    decide_eq_false_iff_not, beq_eq_false_iff_ne]
  refine ⟨by omega, ?_⟩
  by_cases h : countNl q = 0
  · right
    rw [lastLine_append_noNl _ _ (not_mem_nl_of_countNl_zero h)]; simp
  · left; simp only [ne_eq]; omega

theorem Range_new_locOf (p q : Str) :
    Range.new (locOf p) (locOf (p ++ q)) = ⟨locOf p, locOf (p ++ q)⟩ := by
  simp [Range.new, locOf_not_lt]

theorem Range_new_same_line (l a b : Nat) (h : a ≤ b) :
    Range.new ⟨l, a⟩ ⟨l, b⟩ = ⟨⟨l, a⟩, ⟨l, b⟩⟩ := by
  have : (Loc.lt ⟨l, b⟩ ⟨l, a⟩) = false := by
    simp [Loc.lt]; omega
  simp [Range.new, this]

/-! ### Option max, make_loc_from, usub -/

@[simp] theorem optMax_none_right (a : Option Nat) : optMax a none = a := by cases a <;> rfl

theorem makeLocFrom_ok {l ls off : Nat} (h1 : off < 4294967296) (h2 : ls ≤ off) :
    makeLocFrom l ls off = .ok ⟨l, off - ls⟩ := by
  simp [makeLocFrom, h1, h2]

theorem usub_ok {a b : Nat} (h : b ≤ a) : usub a b = .ok (a - b) := by simp [usub, h]

/-! ### the line invariant -/

section
variable [CharOps]

/-- the one fact about the Unicode tables that the position theorems (not crash-freedom) need:
    a line feed is white space -/
def NlWs : Prop := CharOps.isWhitespace '\n' = true

/-- "contains no line feed" (as far as the position bookkeeping is concerned) -/
def NoNl (q : Str) : Prop := NlWs → ∀ x ∈ q, x ≠ '\n'

/-- `l`/`ls` are the line number and line start offset belonging to the end of the text `p`.
    The first component is what crash-freedom needs, the second what the positions need. -/
def LineOK (l ls : Nat) (p : Str) : Prop :=
  ls ≤ ulen p ∧ (NlWs → l = 1 + countNl p ∧ ls + ulen (lastLine p) = ulen p)

theorem NoNl_nil : NoNl [] := by intro _ x hx; simp at hx
theorem NoNl_of_forall {q : Str} (h : ∀ x ∈ q, x ≠ '\n') : NoNl q := fun _ => h
theorem NoNl_append {a b : Str} (ha : NoNl a) (hb : NoNl b) : NoNl (a ++ b) := by
  intro h x hx
  rcases List.mem_append.mp hx with hx | hx
  · exact ha h x hx
  · exact hb h x hx
theorem NoNl_cons {c : Char} {a : Str} (hc : c ≠ '\n') (ha : NoNl a) : NoNl (c :: a) := by
  intro h x hx
  rcases List.mem_cons.mp hx with rfl | hx
  · exact hc
  · exact ha h x hx

theorem LineOK.le {l ls : Nat} {p : Str} (h : LineOK l ls p) : ls ≤ ulen p := h.1

theorem LineOK.append {l ls : Nat} {p q : Str} (h : LineOK l ls p) (hq : NoNl q) :
    LineOK l ls (p ++ q) := by
  refine ⟨by have := h.1; simp; omega, fun hn => ?_⟩
  obtain ⟨h1, h2⟩ := h.2 hn
  have hq' := hq hn
  rw [lastLine_append_noNl _ _ hq', countNl_append, countNl_eq_zero hq']
  simp; omega

theorem LineOK.newline {l ls : Nat} {p : Str} (h : LineOK l ls p) :
    LineOK (l + 1) (ulen p + 1) (p ++ ['\n']) := by
  have hs : '\n'.utf8Size = 1 := by decide
  refine ⟨by simp [hs], fun hn => ?_⟩
  obtain ⟨h1, _⟩ := h.2 hn
  rw [lastLine_append_nl, countNl_append]
  simp [countNl_cons, hs]; omega

theorem LineOK.init : LineOK 1 0 [] := ⟨by simp, fun _ => by simp⟩

theorem LineOK.loc {l ls : Nat} {p : Str} (h : LineOK l ls p) (hn : NlWs) :
    (⟨l, ulen p - ls⟩ : Loc) = locOf p := by
  obtain ⟨h1, h2⟩ := h.2 hn
  simp only [locOf, h1]; congr 1; omega

end

/-! ### find_next_index, advance_to, the scan of scan_delimited -/

theorem findNextIndex_spec (p : Char → Bool) (srcLen : Nat) (rest : Str) (pos : Nat)
    (h : srcLen = pos + ulen rest) :
    ∃ a b, rest = a ++ b ∧ (∀ x ∈ a, p x = false) ∧ (∀ d ∈ b.head?, p d = true) ∧
      findNextIndex p srcLen rest pos = pos + ulen a := by
  induction rest generalizing pos with
  | nil => exact ⟨[], [], rfl, by simp, by simp, by simp [findNextIndex, h]⟩
  | cons c cs ih =>
    by_cases hc : p c = true
    · exact ⟨[], c :: cs, rfl, by simp, by simpa using hc, by simp [findNextIndex, hc]⟩
    · obtain ⟨a, b, hab, ha, hb, hr⟩ := ih (pos + c.utf8Size) (by simp at h; omega)
      refine ⟨c :: a, b, by simp [hab], ?_, hb, ?_⟩
      · intro x hx
        rcases List.mem_cons.mp hx with rfl | hx
        · simpa using hc
        · exact ha x hx
      · simp [findNextIndex, hc, hr]; omega

theorem advanceTo_spec (x post : Str) (pos : Nat) :
    advanceTo (pos + ulen x) (x ++ post) pos = (post, pos + ulen x) := by
  induction x generalizing pos with
  | nil => cases post <;> simp [advanceTo]
  | cons c cs ih =>
    have := usize_pos c
    simp only [List.cons_append, advanceTo, ulen_cons]
    rw [if_neg (by omega)]
    have := ih (pos + c.utf8Size)
    rw [show pos + (c.utf8Size + ulen cs) = pos + c.utf8Size + ulen cs by omega]; exact this

section
variable [CharOps]

/-- what `scanClose` computes: where the closing character is, and the line state after the text
    consumed up to and including it (or after all the text if there is none) -/
theorem scanClose_spec (close : Char) (rest p : Str) (l0 ls0 nl : Nat) (nls : Option Nat)
    (h : LineOK (l0 + nl) (nls.getD ls0) p) :
    (∃ a b nl' nls', scanClose close rest (ulen p) nl nls = (nl', nls', some (ulen p + ulen a)) ∧
        rest = a ++ close :: b ∧ LineOK (l0 + nl') (nls'.getD ls0) (p ++ a ++ [close])) ∨
    (∃ nl' nls', scanClose close rest (ulen p) nl nls = (nl', nls', none) ∧
        LineOK (l0 + nl') (nls'.getD ls0) (p ++ rest)) := by
  induction rest generalizing p nl nls with
  | nil => right; exact ⟨nl, nls, rfl, by simpa using h⟩
  | cons c cs ih =>
    have hstep : LineOK (l0 + (if c = '\n' then nl + 1 else nl))
        ((if c = '\n' then some (ulen p + 1) else nls).getD ls0) (p ++ [c]) := by
      by_cases hc : c = '\n'
      · subst hc; simpa [Nat.add_assoc] using h.newline
      · simpa [hc] using h.append (NoNl_of_forall (q := [c]) (by simpa using hc))
    by_cases hcl : c = close
    · left
      refine ⟨[], cs, (if c = '\n' then nl + 1 else nl),
        (if c = '\n' then some (ulen p + 1) else nls), ?_, by simp [hcl], ?_⟩
      · simp [scanClose, hcl]
      · simpa [hcl] using hstep
    · have hrec := ih (p ++ [c]) _ _ hstep
      have hu : ulen (p ++ [c]) = ulen p + c.utf8Size := by simp
      rw [hu] at hrec
      rcases hrec with ⟨a, b, nl', nls', h1, h2, h3⟩ | ⟨nl', nls', h1, h2⟩
      · left
        refine ⟨c :: a, b, nl', nls', ?_, by simp [h2], by simpa using h3⟩
        simp only [scanClose, hcl, if_false]
        rw [h1]; simp; omega
      · right
        refine ⟨nl', nls', ?_, by simpa using h2⟩
        simp only [scanClose, hcl, if_false]
        exact h1

end

/-! ### ASCII-case-blind prefix test (`scan_for_text`, `find_word_start`) -/

theorem toNat_ofNat_of_lt' {n : Nat} (h : n < 55296) : (Char.ofNat n).toNat = n := by
  have hv : n.isValidChar := Or.inl h
  unfold Char.ofNat
  rw [dif_pos hv]
  simp [Char.ofNatAux, ← Char.toNat_val]

theorem toNat_toAsciiLower (c : Char) :
    (toAsciiLower c).toNat = if 65 ≤ c.toNat ∧ c.toNat ≤ 90 then c.toNat + 32 else c.toNat := by
  have h2 : 'A'.toNat = 65 := by decide
  have h3 : 'Z'.toNat = 90 := by decide
  unfold toAsciiLower
  simp only [Char.le_def, UInt32.le_iff_toNat_le, Char.toNat_val, h2, h3]
  split
  · next h => exact toNat_ofNat_of_lt' (by omega)
  · rfl

/-- a character that is ASCII-case-equal to an ASCII character is ASCII (one byte) -/
theorem ascii_of_toAsciiLower_eq {c d : Char} (h : toAsciiLower c = toAsciiLower d)
    (hd : d.toNat < 128) : c.toNat < 128 := by
  have := congrArg Char.toNat h
  rw [toNat_toAsciiLower, toNat_toAsciiLower] at this
  split at this <;> split at this <;> omega

theorem utf8Size_eq_one_of_lt {c : Char} (h : c.toNat < 128) : c.utf8Size = 1 := by
  have : c.val.toNat < 128 := h
  unfold Char.utf8Size
  have h1 : c.val ≤ 127 := by
    rw [UInt32.le_iff_toNat_le]; simp; omega
  simp [h1]

/-- ASCII-case-equal to a character other than the line feed: not a line feed -/
theorem ne_nl_of_toAsciiLower_eq {c d : Char} (h : toAsciiLower c = toAsciiLower d)
    (hd : d ≠ '\n') : c ≠ '\n' := by
  intro hc
  subst hc
  apply hd
  have := congrArg Char.toNat h
  rw [toNat_toAsciiLower, toNat_toAsciiLower] at this
  have h10 : '\n'.toNat = 10 := by decide
  rw [h10] at this
  have hd10 : d.toNat = 10 := by
    split at this <;> split at this <;> omega
  have h1 := Char.ofNat_toNat d
  rw [hd10] at h1
  exact h1.symm

/-- what a successful test says: the text starts with a slice of as many characters (and bytes)
    as the ASCII literal, ASCII-case-equal to it character by character -/
theorem startsWithIgnoreAsciiCase_spec {text buf : Str}
    (h : startsWithIgnoreAsciiCase text buf = true) (ha : ∀ x ∈ text, x.toNat < 128) :
    ∃ sp r, buf = sp ++ r ∧ ulen sp = ulen text ∧ sp.length = text.length ∧
      (sp.map toAsciiLower = text.map toAsciiLower) := by
  induction text generalizing buf with
  | nil => exact ⟨[], buf, rfl, rfl, rfl, rfl⟩
  | cons d ds ih =>
    cases buf with
    | nil => simp [startsWithIgnoreAsciiCase] at h
    | cons c cs =>
      simp only [startsWithIgnoreAsciiCase, Bool.and_eq_true, beq_iff_eq] at h
      obtain ⟨sp, r, e1, e2, e3, e4⟩ := ih h.2 (fun x hx => ha x (by simp [hx]))
      have hd := ha d (by simp)
      have hc := ascii_of_toAsciiLower_eq h.1 hd
      refine ⟨c :: sp, r, by simp [e1], ?_, by simp [e3], by simp [h.1, e4]⟩
      simp only [ulen_cons, e2, utf8Size_eq_one_of_lt hc, utf8Size_eq_one_of_lt hd]

theorem ne_nl_of_map_toAsciiLower_eq {sp text : Str}
    (h : sp.map toAsciiLower = text.map toAsciiLower) (hno : ∀ x ∈ text, x ≠ '\n') :
    ∀ x ∈ sp, x ≠ '\n' := by
  induction sp generalizing text with
  | nil => intro x hx; simp at hx
  | cons c sp ih =>
    cases text with
    | nil => simp at h
    | cons d ds =>
      simp only [List.map_cons, List.cons.injEq] at h
      intro x hx
      rcases List.mem_cons.mp hx with rfl | hx
      · exact ne_nl_of_toAsciiLower_eq h.1 (hno d (by simp))
      · exact ih h.2 (fun y hy => hno y (by simp [hy])) x hx

/-! ### suffix stripping (`tokenize_word`) -/

theorem stripSuffix?_eq {suf w s : Str} (h : stripSuffix? suf w = some s) : w = s ++ suf := by
  unfold stripSuffix? at h
  split at h
  · next hs =>
    have := List.suffix_iff_eq_append.mp (List.isSuffixOf_iff_suffix.mp hs)
    simp at h; rw [← h]; exact this.symm
  · simp at h

theorem orElse_some_cases {α} {o : Option α} {f : Unit → Option α} {a : α}
    (h : o.orElse f = some a) : o = some a ∨ f () = some a := by
  cases o with
  | none => right; simpa using h
  | some b => left; simpa using h

theorem mem_takeWhile_imp' {α} {p : α → Bool} {l : List α} {x : α} (h : x ∈ l.takeWhile p) :
    p x = true := by
  induction l with
  | nil => simp at h
  | cons y ys ih =>
    simp only [List.takeWhile] at h
    split at h
    · next hy =>
      rcases List.mem_cons.mp h with rfl | h
      · exact hy
      · exact ih h
    · simp at h

theorem trimEndApostrophes_spec (w : Str) :
    ∃ gap, w = trimEndApostrophes w ++ gap ∧ ∀ x ∈ gap, x = '\'' := by
  refine ⟨(w.reverse.takeWhile (· == '\'')).reverse, ?_, ?_⟩
  · unfold trimEndApostrophes
    rw [← List.reverse_append, List.takeWhile_append_dropWhile, List.reverse_reverse]
  · intro x hx
    have := mem_takeWhile_imp' (List.mem_reverse.mp hx)
    simpa using this

/-- the two outcomes of the suffix analysis of `tokenize_word` -/
theorem splitWordSuffix_spec (w : Str) :
    (∃ stripped kind suf, splitWordSuffix w = (stripped, some (kind, ulen suf)) ∧
        w = stripped ++ suf ∧ suf.head? = some '\'' ∧ (∀ x ∈ suf, x ≠ '\n') ∧
        (kind = .apostropheS ∨ kind = .apostropheRE)) ∨
    (∃ gap, splitWordSuffix w = (trimEndApostrophes w, none) ∧
        w = trimEndApostrophes w ++ gap ∧ ∀ x ∈ gap, x = '\'') := by
  cases h1 : (stripSuffix? (str% "'s") w).orElse (fun _ => stripSuffix? (str% "'S") w) with
  | some stripped =>
    left
    have hsp : splitWordSuffix w = (stripped, some (.apostropheS, 2)) := by
      simp only [splitWordSuffix, h1]
    rcases orElse_some_cases h1 with h | h
    · exact ⟨stripped, .apostropheS, str% "'s", hsp, stripSuffix?_eq h, rfl, by decide, Or.inl rfl⟩
    · exact ⟨stripped, .apostropheS, str% "'S", hsp, stripSuffix?_eq h, rfl, by decide, Or.inl rfl⟩
  | none =>
    cases h2 : (stripSuffix? (str% "'re") w).orElse (fun _ =>
          (stripSuffix? (str% "'RE") w).orElse (fun _ =>
          (stripSuffix? (str% "'Re") w).orElse (fun _ =>
           stripSuffix? (str% "'rE") w))) with
    | some stripped =>
      left
      have hsp : splitWordSuffix w = (stripped, some (.apostropheRE, 3)) := by
        simp only [splitWordSuffix, h1, h2]
      rcases orElse_some_cases h2 with h | h
      · exact ⟨stripped, .apostropheRE, str% "'re", hsp, stripSuffix?_eq h, rfl, by decide, Or.inr rfl⟩
      rcases orElse_some_cases h with h | h
      · exact ⟨stripped, .apostropheRE, str% "'RE", hsp, stripSuffix?_eq h, rfl, by decide, Or.inr rfl⟩
      rcases orElse_some_cases h with h | h
      · exact ⟨stripped, .apostropheRE, str% "'Re", hsp, stripSuffix?_eq h, rfl, by decide, Or.inr rfl⟩
      · exact ⟨stripped, .apostropheRE, str% "'rE", hsp, stripSuffix?_eq h, rfl, by decide, Or.inr rfl⟩
    | none =>
      right
      obtain ⟨gap, hg1, hg2⟩ := trimEndApostrophes_spec w
      exact ⟨gap, by simp only [splitWordSuffix, h1, h2], hg1, hg2⟩

theorem lookup_mem {α β} [BEq α] [LawfulBEq α] {l : List (α × β)} {k : α} {b : β}
    (h : l.lookup k = some b) : (k, b) ∈ l := by
  obtain ⟨l₁, l₂, hl, _⟩ := List.lookup_eq_some_iff.mp h
  rw [hl]; simp

end Lexer
end Rrss
