/-
  Rrss.Lemmas.LexerTotal — the lexer only ever answers `.ok` or `.crash`
  (never `.err`, `.fuel`, `.resource`): in particular `lexAll kw src ≠ .fuel`.
-/
import Rrss.Lexer
namespace Rrss
namespace Lexer

variable {N : Type} {α β : Type}

/-- ok or crash -/
def OC (o : L α) : Prop :=
  match o with
  | .ok _ => True
  | .crash _ => True
  | _ => False

theorem OC.ok {a : α} : OC (.ok a : L α) := trivial
theorem OC.crash {s : Site} : OC (.crash s : L α) := trivial

theorem OC.bind {x : L α} {f : α → L β} (hx : OC x) (hf : ∀ a, OC (f a)) : OC (x.bind f) := by
  cases x with
  | ok a => exact hf a
  | crash s => trivial
  | err e => exact hx.elim
  | fuel => exact hx.elim
  | resource => exact hx.elim

theorem OC.ite {c : Prop} [Decidable c] {a b : L α} (ha : OC a) (hb : OC b) :
    OC (if c then a else b) := by
  by_cases h : c <;> simp [h, ha, hb]

theorem OC.ne_fuel {o : L α} (h : OC o) : o ≠ .fuel := by
  intro he; rw [he] at h; exact h

syntax "lleaf" : tactic
macro_rules | `(tactic| lleaf) => `(tactic| first | exact OC.ok | exact OC.crash | assumption)

macro "register_oc " id:ident : command =>
  `(macro_rules | `(tactic| lleaf) => `(tactic| with_reducible exact $id))

macro "lauto" : tactic => `(tactic| repeat (first
  | lleaf
  | (refine OC.bind (by lleaf) (fun _ => ?_))
  | (refine OC.bind ?_ (fun _ => ?_))
  | (refine OC.ite ?_ ?_)
  | split))

theorem makeLocFrom_oc {a b c : Nat} : OC (makeLocFrom a b c) := by unfold makeLocFrom; lauto
register_oc makeLocFrom_oc

theorem makeLoc_oc {st : LexState N} {o : Nat} : OC (makeLoc st o) := makeLocFrom_oc
register_oc makeLoc_oc

theorem makeRange_oc {st : LexState N} {a b : Nat} : OC (makeRange st a b) := by
  unfold makeRange; lauto
register_oc makeRange_oc

theorem sub_oc {st : LexState N} {a b : Nat} : OC (sub st a b) := by unfold sub; lauto
register_oc sub_oc

theorem makeTokenFrom_oc {st : LexState N} {a b : Nat} {k : TK} {e : Option LexErr} :
    OC (makeTokenFrom st a b k e) := by unfold makeTokenFrom; lauto
register_oc makeTokenFrom_oc

theorem usub_oc {a b : Nat} : OC (usub a b) := by unfold usub; lauto
register_oc usub_oc

section
set_option linter.unusedSectionVars false
variable [CharOps]

theorem scanForText_oc {st : LexState N} {s : Nat} {t : Str} {k : TK} : OC (scanForText st s t k) := by
  unfold scanForText; lauto
register_oc scanForText_oc

theorem scanApostropheNApostrophe_oc {st : LexState N} {s : Nat} :
    OC (scanApostropheNApostrophe st s) := scanForText_oc
register_oc scanApostropheNApostrophe_oc

theorem scanApostropheSuffix_oc {st : LexState N} {s : Nat} : OC (scanApostropheSuffix st s) := by
  unfold scanApostropheSuffix; lauto
register_oc scanApostropheSuffix_oc

theorem maybeFollowedByApostropheSuffix_oc {st : LexState N} {r : LexResult N} :
    OC (maybeFollowedByApostropheSuffix st r) := by
  unfold maybeFollowedByApostropheSuffix; lauto
register_oc maybeFollowedByApostropheSuffix_oc

theorem scanNumber_oc [NumOps N] {st : LexState N} {s : Nat} : OC (scanNumber st s) := by
  unfold scanNumber; lauto
register_oc scanNumber_oc

theorem findWordType_oc {kw : List (Str × TK)} {w : Str} : OC (findWordType kw w) := by
  unfold findWordType; lauto
register_oc findWordType_oc

theorem tokenizeWord_oc {kw : List (Str × TK)} {st : LexState N} {s : Nat} {w : Str} {e : Nat} :
    OC (tokenizeWord kw st s w e) := by
  unfold tokenizeWord; lauto
register_oc tokenizeWord_oc

theorem scanWord_oc {kw : List (Str × TK)} {st : LexState N} {s : Nat} : OC (scanWord kw st s) := by
  unfold scanWord; lauto
register_oc scanWord_oc

theorem scanKeyword_oc {kw : List (Str × TK)} {st : LexState N} {s : Nat} :
    OC (scanKeyword kw st s) := by
  unfold scanKeyword; lauto
register_oc scanKeyword_oc

theorem scanDelimited_oc {st : LexState N} {o : Nat} {c : Char} {k : TK} {e : LexErr} :
    OC (scanDelimited st o c k e) := by
  unfold scanDelimited; lauto
register_oc scanDelimited_oc

theorem scanComment_oc {st : LexState N} {o : Nat} : OC (scanComment st o) := scanDelimited_oc
register_oc scanComment_oc

theorem scanStringLiteral_oc {st : LexState N} {o : Nat} : OC (scanStringLiteral st o) :=
  scanDelimited_oc
register_oc scanStringLiteral_oc

theorem makeErrorToken_oc {st : LexState N} {s : Nat} {e : LexErr} : OC (makeErrorToken st s e) := by
  unfold makeErrorToken; lauto
register_oc makeErrorToken_oc

theorem charToken_oc {st : LexState N} {k : TK} {s : Nat} : OC (charToken st k s) := by
  unfold charToken; lauto
register_oc charToken_oc

theorem twoCharToken_oc {st : LexState N} {k : TK} {s : Nat} : OC (twoCharToken st k s) := by
  unfold twoCharToken; lauto
register_oc twoCharToken_oc

theorem some'_oc {x : L (LexResult N)} (h : OC x) : OC (some' x) := by
  unfold some'; lauto

macro_rules | `(tactic| lleaf) => `(tactic| (refine some'_oc ?_; lleaf))

theorem dispatch_oc [NumOps N] {kw : List (Str × TK)} {st : LexState N} {s : Nat} {c : Char} :
    OC (dispatch kw st s c) := by
  unfold dispatch; lauto
register_oc dispatch_oc

theorem finish_oc {st : LexState N} {r : LexResult N} : OC (finish st r) := by
  unfold finish; lauto
register_oc finish_oc

theorem step_oc [NumOps N] {kw : List (Str × TK)} {st : LexState N} : OC (step kw st) := by
  unfold step
  split
  · exact OC.ok
  · next start c rest1 pos1 _ =>
    dsimp only
    have h := dispatch_oc (N := N) (kw := kw) (st := { st with rest := rest1, pos := pos1 })
      (s := start) (c := c)
    split
    · exact OC.ok
    · exact finish_oc
    all_goals simp_all [OC]

theorem matchLoop_oc [NumOps N] {kw : List (Str × TK)} (st : LexState N) : OC (matchLoop kw st) := by
  induction hn : st.rest.length using Nat.strongRecOn generalizing st with
  | _ n ih =>
    have hs := step_oc (N := N) (kw := kw) (st := st)
    rw [matchLoop]
    split
    · exact OC.ok
    · exact OC.ok
    · next st1 hstep =>
      have h1 := step_lt hstep
      simp [StepResult.state] at h1
      exact ih st1.rest.length (by omega) st1 rfl
    all_goals simp_all [OC]

theorem next_oc [NumOps N] {kw : List (Str × TK)} (st : LexState N) : OC (next kw st) := by
  unfold next
  split
  · exact OC.ok
  · exact matchLoop_oc st

theorem lexLoop_oc [NumOps N] {kw : List (Str × TK)} (st : LexState N) : OC (lexLoop kw st) := by
  induction hn : measure st using Nat.strongRecOn generalizing st with
  | _ n ih =>
    have hs := next_oc (N := N) (kw := kw) st
    rw [lexLoop]
    split
    · exact OC.ok
    · next t st1 hnext =>
      have h1 := next_lt hnext
      have h2 := ih (measure st1) (by omega) st1 rfl
      split
      · exact OC.ok
      all_goals simp_all [OC]
    all_goals simp_all [OC]

/-- the lexer only answers `.ok` or `.crash` -/
theorem lexAll_oc [NumOps N] (kw : List (Str × TK)) (src : Str) : OC (lexAll (N := N) kw src) :=
  lexLoop_oc _

theorem lexAll_ne_fuel [NumOps N] (kw : List (Str × TK)) (src : Str) :
    lexAll (N := N) kw src ≠ .fuel := (lexAll_oc kw src).ne_fuel

end

end Lexer
end Rrss
