/-
  Rrss.Lemmas.LexRecase — helper definitions and lemmas for C15, text level, lexer half:
  re-casing the ASCII letters of a source text re-cases the token list and nothing else.

  * `CaseRel c c'`: the same character up to ASCII letter case (`asciiLowerChar c = asciiLowerChar c'`);
  * `RC s s'`: texts related character by character (since the repair D18 the lexer matches the
    literal sequences `'n'`, `'s`, `'re` up to ASCII case as well — `startsWithIgnoreAsciiCase` —
    so no further condition on the two texts is needed);
  * `AsciiLaws`: what is needed of the Unicode tables on the 52 ASCII letters;
  * one relational lemma per function of Rrss/Lexer.lean (`LRel`: both runs end the same way, with
    related results), the induction along `matchLoop` / `lexLoop`.
-/
import Rrss.Lemmas.Keys
import Rrss.Lemmas.LexerInv
set_option linter.unusedSectionVars false
set_option linter.unusedVariables false
namespace Rrss
namespace Recase
open Lexer CharOps Keys

/-! ## characters -/

/-- an ASCII letter -/
def Letter (c : Char) : Prop := (65 ≤ c.toNat ∧ c.toNat ≤ 90) ∨ (97 ≤ c.toNat ∧ c.toNat ≤ 122)

instance (c : Char) : Decidable (Letter c) := by unfold Letter; infer_instance

/-- the same character up to ASCII letter case -/
def CaseRel (c c' : Char) : Prop := asciiLowerChar c = asciiLowerChar c'

theorem char_eq_iff_toNat {a b : Char} : a = b ↔ a.toNat = b.toNat := by
  constructor
  · intro h; rw [h]
  · intro h
    have h1 := Char.ofNat_toNat a
    have h2 := Char.ofNat_toNat b
    rw [← h1, ← h2, h]

/-- code point of the ASCII lower-case image -/
theorem toNat_asciiLowerChar (c : Char) :
    (asciiLowerChar c).toNat = if 65 ≤ c.toNat ∧ c.toNat ≤ 90 then c.toNat + 32 else c.toNat := by
  have h2 : 'A'.toNat = 65 := by decide
  have h3 : 'Z'.toNat = 90 := by decide
  unfold asciiLowerChar
  simp only [char_le_iff_toNat, h2, h3]
  split
  · next h => exact char_toNat_ofNat_of_lt (by omega)
  · rfl

theorem caseRel_iff {c c' : Char} :
    CaseRel c c' ↔
      (if 65 ≤ c.toNat ∧ c.toNat ≤ 90 then c.toNat + 32 else c.toNat) =
      (if 65 ≤ c'.toNat ∧ c'.toNat ≤ 90 then c'.toNat + 32 else c'.toNat) := by
  unfold CaseRel
  rw [char_eq_iff_toNat, toNat_asciiLowerChar, toNat_asciiLowerChar]

theorem CaseRel.refl (c : Char) : CaseRel c c := rfl
theorem CaseRel.symm {c c' : Char} (h : CaseRel c c') : CaseRel c' c := Eq.symm h
theorem CaseRel.trans {a b c : Char} (h : CaseRel a b) (h' : CaseRel b c) : CaseRel a c :=
  Eq.trans h h'

/-- related characters are equal or both ASCII letters -/
theorem CaseRel.cases {c c' : Char} (h : CaseRel c c') : c = c' ∨ (Letter c ∧ Letter c') := by
  rw [caseRel_iff] at h
  unfold Letter
  rw [char_eq_iff_toNat]
  split at h <;> split at h <;> omega

theorem CaseRel.eq_iff {c c' : Char} (h : CaseRel c c') {x : Char} (hx : ¬ Letter x) :
    c' = x ↔ c = x := by
  rcases h.cases with rfl | ⟨h1, h2⟩
  · exact Iff.rfl
  · constructor
    · intro e; subst e; exact absurd h2 hx
    · intro e; subst e; exact absurd h1 hx

theorem CaseRel.beq {c c' : Char} (h : CaseRel c c') {x : Char} (hx : ¬ Letter x) :
    (c' == x) = (c == x) := by
  rw [Bool.eq_iff_iff]; simp only [beq_iff_eq]; exact h.eq_iff hx

theorem Letter.lt128 {c : Char} (h : Letter c) : c.toNat < 128 := by
  unfold Letter at h; omega

theorem utf8Size_of_lt128 {c : Char} (h : c.toNat < 128) : c.utf8Size = 1 := by
  have : c.val.toNat < 128 := h
  unfold Char.utf8Size
  have h1 : c.val ≤ 127 := by
    rw [UInt32.le_iff_toNat_le]; simp; omega
  simp [h1]

theorem CaseRel.utf8Size {c c' : Char} (h : CaseRel c c') : c'.utf8Size = c.utf8Size := by
  rcases h.cases with rfl | ⟨h1, h2⟩
  · rfl
  · rw [utf8Size_of_lt128 h1.lt128, utf8Size_of_lt128 h2.lt128]

theorem Letter.not_punct {c : Char} (h : Letter c) : isAsciiPunct c = false := by
  unfold Letter at h
  unfold isAsciiPunct
  simp only [Bool.or_eq_false_iff, Bool.and_eq_false_iff, decide_eq_false_iff_not]
  omega

theorem Letter.alnum {c : Char} (h : Letter c) : isAsciiAlnum c = true := by
  unfold Letter at h
  unfold isAsciiAlnum
  simp only [Bool.or_eq_true, Bool.and_eq_true, decide_eq_true_eq]
  omega

theorem CaseRel.punct {c c' : Char} (h : CaseRel c c') : isAsciiPunct c' = isAsciiPunct c := by
  rcases h.cases with rfl | ⟨h1, h2⟩
  · rfl
  · rw [h1.not_punct, h2.not_punct]

theorem CaseRel.alnum {c c' : Char} (h : CaseRel c c') : isAsciiAlnum c' = isAsciiAlnum c := by
  rcases h.cases with rfl | ⟨h1, h2⟩
  · rfl
  · rw [h1.alnum, h2.alnum]

/-- What the lexer needs of the Unicode tables on the 52 ASCII letters (true of Rust's `char`
    methods): they are alphabetic, not numeric, not white space, and `to_lowercase` sends them to
    their ASCII lower-case image (= `hfix` on letters and `hup` of Thm/C15.lean). -/
structure AsciiLaws [CharOps] : Prop where
  alpha : ∀ c, Letter c → isAlphabetic c = true
  notNum : ∀ c, Letter c → isNumeric c = false
  notWs : ∀ c, Letter c → isWhitespace c = false
  lower : ∀ c, Letter c → toLower c = [asciiLowerChar c]

section
variable [CharOps] (laws : AsciiLaws)
include laws

theorem CaseRel.ws {c c' : Char} (h : CaseRel c c') : isWhitespace c' = isWhitespace c := by
  rcases h.cases with rfl | ⟨h1, h2⟩
  · rfl
  · rw [laws.notWs _ h1, laws.notWs _ h2]

theorem CaseRel.alphabetic {c c' : Char} (h : CaseRel c c') : isAlphabetic c' = isAlphabetic c := by
  rcases h.cases with rfl | ⟨h1, h2⟩
  · rfl
  · rw [laws.alpha _ h1, laws.alpha _ h2]

theorem CaseRel.numeric {c c' : Char} (h : CaseRel c c') : isNumeric c' = isNumeric c := by
  rcases h.cases with rfl | ⟨h1, h2⟩
  · rfl
  · rw [laws.notNum _ h1, laws.notNum _ h2]

theorem CaseRel.toLower {c c' : Char} (h : CaseRel c c') : toLower c' = toLower c := by
  rcases h.cases with rfl | ⟨h1, h2⟩
  · rfl
  · rw [laws.lower _ h1, laws.lower _ h2, h]

theorem CaseRel.ignWs {c c' : Char} (h : CaseRel c c') :
    isIgnorableWhitespace c' = isIgnorableWhitespace c := by
  unfold isIgnorableWhitespace
  rw [h.ws laws]
  have : (c' != '\n') = (c != '\n') := by
    simp only [bne, h.beq (x := '\n') (by decide)]
  rw [this]

theorem CaseRel.ignPunct {c c' : Char} (h : CaseRel c c') :
    isIgnorablePunctuation c' = isIgnorablePunctuation c := by
  unfold isIgnorablePunctuation
  rw [h.punct]
  simp only [bne, h.beq (x := '_') (by decide), h.beq (x := '\'') (by decide)]

theorem CaseRel.wordEnd {c c' : Char} (h : CaseRel c c') : isWordEnd c' = isWordEnd c := by
  unfold isWordEnd
  rw [h.ws laws, h.ignPunct laws]

end

/-! ## lists related element by element -/

inductive F2 {α β : Type} (R : α → β → Prop) : List α → List β → Prop
  | nil : F2 R [] []
  | cons {a b l l'} : R a b → F2 R l l' → F2 R (a :: l) (b :: l')

namespace F2
variable {α β : Type} {R : α → β → Prop}

theorem length_eq {l : List α} {l' : List β} (h : F2 R l l') : l'.length = l.length := by
  induction h with
  | nil => rfl
  | cons _ _ ih => simp [ih]

theorem append {l₁ l₂ : List α} {m₁ m₂ : List β} (h₁ : F2 R l₁ m₁) (h₂ : F2 R l₂ m₂) :
    F2 R (l₁ ++ l₂) (m₁ ++ m₂) := by
  induction h₁ with
  | nil => exact h₂
  | cons h _ ih => exact .cons h ih

theorem reverse {l : List α} {m : List β} (h : F2 R l m) : F2 R l.reverse m.reverse := by
  induction h with
  | nil => exact .nil
  | cons h _ ih => simp only [List.reverse_cons]; exact ih.append (.cons h .nil)

theorem take {l : List α} {m : List β} (h : F2 R l m) (n : Nat) : F2 R (l.take n) (m.take n) := by
  induction h generalizing n with
  | nil => simp; exact .nil
  | cons h _ ih =>
    cases n with
    | zero => simp; exact .nil
    | succ n => simp only [List.take_succ_cons]; exact .cons h (ih n)

theorem drop {l : List α} {m : List β} (h : F2 R l m) (n : Nat) : F2 R (l.drop n) (m.drop n) := by
  induction h generalizing n with
  | nil => simp; exact .nil
  | cons h t ih =>
    cases n with
    | zero => simp; exact .cons h t
    | succ n => simp only [List.drop_succ_cons]; exact ih n

theorem imp {S : α → β → Prop} {l : List α} {m : List β} (h : F2 R l m)
    (hi : ∀ a b, R a b → S a b) : F2 S l m := by
  induction h with
  | nil => exact .nil
  | cons h _ ih => exact .cons (hi _ _ h) ih

theorem all_eq {l : List α} {m : List β} (h : F2 R l m) {p : α → Bool} {q : β → Bool}
    (hpq : ∀ a b, R a b → q b = p a) : m.all q = l.all p := by
  induction h with
  | nil => rfl
  | cons h _ ih => simp only [List.all_cons, hpq _ _ h, ih]

theorem dropWhile {l : List α} {m : List β} (h : F2 R l m) {p : α → Bool} {q : β → Bool}
    (hpq : ∀ a b, R a b → q b = p a) : F2 R (l.dropWhile p) (m.dropWhile q) := by
  induction h with
  | nil => exact .nil
  | cons h t ih =>
    simp only [List.dropWhile_cons, hpq _ _ h]
    split
    · exact ih
    · exact .cons h t

theorem getElem {l : List α} {m : List β} (h : F2 R l m) (i : Nat) (hi : i < l.length)
    (hi' : i < m.length) : R l[i] m[i] := by
  induction h generalizing i with
  | nil => simp at hi
  | cons h _ ih =>
    cases i with
    | zero => exact h
    | succ i => exact ih i (by simpa using hi) (by simpa using hi')

theorem of_getElem {l : List α} {m : List β} (hl : m.length = l.length)
    (h : ∀ (i : Nat) (hi : i < l.length) (hi' : i < m.length), R l[i] m[i]) : F2 R l m := by
  induction l generalizing m with
  | nil =>
    cases m with
    | nil => exact .nil
    | cons b m => simp at hl
  | cons a l ih =>
    cases m with
    | nil => simp at hl
    | cons b m =>
      refine .cons (h 0 (by simp) (by simp)) (ih (by simpa using hl) fun i hi hi' => ?_)
      exact h (i + 1) (by simpa using hi) (by simpa using hi')

end F2

/-- options related by `R` -/
def ORel {α β : Type} (R : α → β → Prop) : Option α → Option β → Prop
  | none, none => True
  | some a, some b => R a b
  | _, _ => False

theorem ORel.isSome {α β : Type} {R : α → β → Prop} {a : Option α} {b : Option β}
    (h : ORel R a b) : b.isSome = a.isSome := by
  cases a <;> cases b <;> simp_all [ORel]

/-! ## texts -/

/-- the same text up to ASCII letter case -/
abbrev RC : Str → Str → Prop := F2 CaseRel

theorem RC.refl (s : Str) : RC s s := by
  induction s with
  | nil => exact .nil
  | cons c s ih => exact .cons (CaseRel.refl c) ih

theorem RC.symm {s s' : Str} (h : RC s s') : RC s' s := by
  induction h with
  | nil => exact .nil
  | cons h _ ih => exact .cons h.symm ih

theorem RC.trans {a b c : Str} (h : RC a b) (h' : RC b c) : RC a c := by
  induction h generalizing c with
  | nil => cases h'; exact .nil
  | cons h _ ih => cases h' with | cons h2 t2 => exact .cons (h.trans h2) (ih t2)

/-- `RC` is "same ASCII lower-case image" -/
theorem rc_iff_map {s s' : Str} : RC s s' ↔ s.map asciiLowerChar = s'.map asciiLowerChar := by
  constructor
  · intro h
    induction h with
    | nil => rfl
    | cons h _ ih => simp only [List.map_cons, ih]; congr 1
  · intro h
    induction s generalizing s' with
    | nil => cases s' with
      | nil => exact .nil
      | cons c s' => simp at h
    | cons c s ih =>
      cases s' with
      | nil => simp at h
      | cons c' s' =>
        simp only [List.map_cons, List.cons.injEq] at h
        exact .cons h.1 (ih h.2)

theorem RC.ulen {s s' : Str} (h : RC s s') : ulen s' = ulen s := by
  induction h with
  | nil => rfl
  | cons h _ ih => simp only [Rrss.ulen, h.utf8Size, ih]

theorem RC.isEmpty {s s' : Str} (h : RC s s') : s'.isEmpty = s.isEmpty := by
  cases h <;> rfl

theorem RC.eq_nil_iff {s s' : Str} (h : RC s s') : s' = [] ↔ s = [] := by
  cases h <;> simp

/-- `char::to_ascii_lowercase` of the model is the `asciiLowerChar` of Thm/C15.lean -/
theorem toAsciiLower_eq (c : Char) : toAsciiLower c = asciiLowerChar c := rfl

/-- the ASCII-case-blind prefix test of `scan_for_text` / `find_word_start` does not see a
    re-casing of the text -/
theorem startsWithIgnoreAsciiCase_rc (text : Str) {t t' : Str} (h : RC t t') :
    startsWithIgnoreAsciiCase text t' = startsWithIgnoreAsciiCase text t := by
  induction text generalizing t t' with
  | nil => rfl
  | cons d ds ih =>
    cases h with
    | nil => rfl
    | cons hc ht =>
      simp only [startsWithIgnoreAsciiCase, toAsciiLower_eq]
      rw [show asciiLowerChar _ = asciiLowerChar _ from hc.symm, ih ht]

/-! ### byte slicing -/

theorem dropBytes_rc {s s' : Str} (h : RC s s') (n : Nat) :
    ORel RC (dropBytes n s) (dropBytes n s') := by
  induction h generalizing n with
  | nil => cases n <;> simp [dropBytes, ORel]; exact .nil
  | cons hc t ih =>
    cases n with
    | zero => simp only [dropBytes, ORel]; exact .cons hc t
    | succ n =>
      simp only [dropBytes, hc.utf8Size]
      split
      · exact ih _
      · trivial

theorem takeBytes_rc {s s' : Str} (h : RC s s') (n : Nat) :
    ORel RC (takeBytes n s) (takeBytes n s') := by
  induction h generalizing n with
  | nil => cases n <;> simp [takeBytes, ORel]; exact .nil
  | @cons a b l l' hc t ih =>
    cases n with
    | zero => simp only [takeBytes, ORel]; exact .nil
    | succ n =>
      simp only [takeBytes, hc.utf8Size]
      split
      · have := ih (n + 1 - a.utf8Size)
        revert this
        cases takeBytes _ _ <;> cases takeBytes _ _ <;> simp [ORel]
        intro h; exact .cons hc h
      · trivial

theorem substr_rc {s s' : Str} (h : RC s s') (lo hi : Nat) :
    ORel RC (substr s lo hi) (substr s' lo hi) := by
  unfold substr
  split
  · have h1 := dropBytes_rc h lo
    revert h1
    cases dropBytes lo s <;> cases dropBytes lo s' <;> simp [ORel]
    intro h2; exact takeBytes_rc h2 _
  · trivial

theorem isCharBoundary_rc {s s' : Str} (h : RC s s') (n : Nat) :
    isCharBoundary s' n = isCharBoundary s n := by
  unfold isCharBoundary
  exact (dropBytes_rc h n).isSome

theorem dropBytes_some : ∀ {n : Nat} {s r : Str}, dropBytes n s = some r →
    ∃ p, s = p ++ r ∧ Rrss.ulen p = n
  | 0, s, r, h => by simp [dropBytes] at h; exact ⟨[], by simp [h], rfl⟩
  | n + 1, [], r, h => by simp [dropBytes] at h
  | n + 1, c :: cs, r, h => by
    simp only [dropBytes] at h
    split at h
    · next hc =>
      obtain ⟨p, hp, hl⟩ := dropBytes_some h
      exact ⟨c :: p, by simp [hp], by simp [hl]; omega⟩
    · cases h

/-- the slice from a boundary to the end is the suffix dropped to -/
theorem substr_to_end {s r : Str} {lo : Nat} (h : dropBytes lo s = some r) :
    substr s lo (ulen s) = some r := by
  obtain ⟨p, hp, hl⟩ := dropBytes_some h
  exact substr_mid' (pre := p) (mid := r) (post := []) (by simp [hp]) hl.symm (by rw [hp]; simp [hl])

theorem substr_to_end_none {s : Str} {lo : Nat} (h : dropBytes lo s = none) :
    substr s lo (ulen s) = none := by
  unfold substr; split <;> simp [h]

theorem substr_to_end_rc {s s' : Str} (h : RC s s') (lo : Nat) :
    ORel RC (substr s lo (ulen s)) (substr s' lo (ulen s')) := by
  have h1 := dropBytes_rc h lo
  cases h2 : dropBytes lo s with
  | none =>
    cases h3 : dropBytes lo s' with
    | none => rw [substr_to_end_none h2, substr_to_end_none h3]; trivial
    | some r' => rw [h2, h3] at h1; exact h1.elim
  | some r =>
    cases h3 : dropBytes lo s' with
    | none => rw [h2, h3] at h1; exact h1.elim
    | some r' => rw [h2, h3] at h1; rw [substr_to_end h2, substr_to_end h3]; exact h1

/-! ### lower-casing, keywords -/

section
variable [CharOps] (laws : AsciiLaws)
include laws

theorem RC.lower {s s' : Str} (h : RC s s') : lower s' = lower s := by
  induction h with
  | nil => rfl
  | cons hc _ ih => rw [lower_cons, lower_cons, hc.toLower laws, ih]

theorem RC.matchKeyword (kw : List (Str × TK)) {s s' : Str} (h : RC s s') :
    matchKeyword kw s' = matchKeyword kw s :=
  matchKeyword_congr kw (h.lower laws)

theorem RC.isWord {s s' : Str} (h : RC s s') : isWord s' = isWord s := by
  unfold Lexer.isWord
  rw [h.isEmpty, h.all_eq (p := fun c => !isWordEnd c) (q := fun c => !isWordEnd c)
    (fun a b hab => by rw [hab.wordEnd laws])]

end

/-! ### the suffix analysis of `tokenize_word` (case-blind in the code itself) -/

theorem isSuffixOf_two (x y : Char) (w : Str) :
    [x, y].isSuffixOf w =
      match w.reverse with
      | a :: b :: _ => (y == a) && (x == b)
      | _ => false := by
  unfold List.isSuffixOf
  cases w.reverse with
  | nil => rfl
  | cons a r =>
    cases r with
    | nil => simp [List.isPrefixOf]
    | cons b r => simp [List.isPrefixOf]

theorem isSuffixOf_three (x y z : Char) (w : Str) :
    [x, y, z].isSuffixOf w =
      match w.reverse with
      | a :: b :: c :: _ => (z == a) && ((y == b) && (x == c))
      | _ => false := by
  unfold List.isSuffixOf
  cases w.reverse with
  | nil => rfl
  | cons a r =>
    cases r with
    | nil => simp [List.isPrefixOf]
    | cons b r =>
      cases r with
      | nil => simp [List.isPrefixOf]
      | cons c r => simp [List.isPrefixOf]

theorem stripSuffix?_def (suf w : Str) :
    stripSuffix? suf w = if suf.isSuffixOf w then some (w.take (w.length - suf.length)) else none :=
  rfl

/-- the `'s` / `'S` test -/
def sfxS (w : Str) : Option Str :=
  (stripSuffix? (str% "'s") w).orElse (fun _ => stripSuffix? (str% "'S") w)

/-- the `'re` / `'RE` / `'Re` / `'rE` test -/
def sfxRE (w : Str) : Option Str :=
  (stripSuffix? (str% "'re") w).orElse (fun _ =>
    (stripSuffix? (str% "'RE") w).orElse (fun _ =>
    (stripSuffix? (str% "'Re") w).orElse (fun _ =>
     stripSuffix? (str% "'rE") w)))

theorem splitWordSuffix_eq (w : Str) :
    splitWordSuffix w =
      match sfxS w with
      | some s => (s, some (.apostropheS, 2))
      | none =>
        match sfxRE w with
        | some s => (s, some (.apostropheRE, 3))
        | none => (trimEndApostrophes w, none) := rfl

theorem beq_char_iff (x a : Char) : (x == a) = true ↔ a.toNat = x.toNat := by
  rw [beq_iff_eq, char_eq_iff_toNat]; exact eq_comm

/-- does the word end in `'s` / `'S`? -/
def endS (w : Str) : Bool :=
  match w.reverse with
  | a :: b :: _ => (decide (a.toNat = 115) || decide (a.toNat = 83)) && decide (b.toNat = 39)
  | _ => false

/-- does the word end in `'re` in any letter case? -/
def endRE (w : Str) : Bool :=
  match w.reverse with
  | a :: b :: c :: _ =>
    (decide (a.toNat = 101) || decide (a.toNat = 69)) &&
      ((decide (b.toNat = 114) || decide (b.toNat = 82)) && decide (c.toNat = 39))
  | _ => false

theorem sfxS_eq (w : Str) :
    sfxS w = if endS w then some (w.take (w.length - 2)) else none := by
  unfold sfxS endS
  simp only [stripSuffix?_def, isSuffixOf_two]
  cases w.reverse with
  | nil => simp
  | cons a r =>
    cases r with
    | nil => simp
    | cons b r =>
      have e1 : ('s' == a) = decide (a.toNat = 115) := by
        rw [Bool.eq_iff_iff, beq_char_iff]; simp
      have e2 : ('S' == a) = decide (a.toNat = 83) := by
        rw [Bool.eq_iff_iff, beq_char_iff]; simp
      have e3 : ('\'' == b) = decide (b.toNat = 39) := by
        rw [Bool.eq_iff_iff, beq_char_iff]; simp
      simp only [e1, e2, e3, List.length_cons, List.length_nil]
      by_cases h1 : a.toNat = 115 <;> by_cases h2 : a.toNat = 83 <;> by_cases h3 : b.toNat = 39 <;>
        simp [h1, h2, h3]

theorem sfxRE_eq (w : Str) :
    sfxRE w = if endRE w then some (w.take (w.length - 3)) else none := by
  unfold sfxRE endRE
  simp only [stripSuffix?_def, isSuffixOf_three]
  cases w.reverse with
  | nil => simp
  | cons a r =>
    cases r with
    | nil => simp
    | cons b r =>
      cases r with
      | nil => simp
      | cons c r =>
        have e1 : ('e' == a) = decide (a.toNat = 101) := by
          rw [Bool.eq_iff_iff, beq_char_iff]; simp
        have e2 : ('E' == a) = decide (a.toNat = 69) := by
          rw [Bool.eq_iff_iff, beq_char_iff]; simp
        have e3 : ('r' == b) = decide (b.toNat = 114) := by
          rw [Bool.eq_iff_iff, beq_char_iff]; simp
        have e4 : ('R' == b) = decide (b.toNat = 82) := by
          rw [Bool.eq_iff_iff, beq_char_iff]; simp
        have e5 : ('\'' == c) = decide (c.toNat = 39) := by
          rw [Bool.eq_iff_iff, beq_char_iff]; simp
        simp only [e1, e2, e3, e4, e5, List.length_cons, List.length_nil]
        by_cases h1 : a.toNat = 101 <;> by_cases h2 : a.toNat = 69 <;>
          by_cases h3 : b.toNat = 114 <;> by_cases h4 : b.toNat = 82 <;>
          by_cases h5 : c.toNat = 39 <;> simp [h1, h2, h3, h4, h5]

theorem endS_rc {w w' : Str} (h : RC w w') : endS w' = endS w := by
  unfold endS
  have hr := h.reverse
  revert hr
  generalize w.reverse = u
  generalize w'.reverse = u'
  intro hr
  cases hr with
  | nil => rfl
  | cons ha hr =>
    cases hr with
    | nil => rfl
    | cons hb hr =>
      rw [caseRel_iff] at ha hb
      simp only
      rw [Bool.eq_iff_iff]
      simp only [Bool.and_eq_true, Bool.or_eq_true, decide_eq_true_eq]
      split at ha <;> split at ha <;> split at hb <;> split at hb <;> omega

theorem endRE_rc {w w' : Str} (h : RC w w') : endRE w' = endRE w := by
  unfold endRE
  have hr := h.reverse
  revert hr
  generalize w.reverse = u
  generalize w'.reverse = u'
  intro hr
  cases hr with
  | nil => rfl
  | cons ha hr =>
    cases hr with
    | nil => rfl
    | cons hb hr =>
      cases hr with
      | nil => rfl
      | cons hc hr =>
        rw [caseRel_iff] at ha hb hc
        simp only
        rw [Bool.eq_iff_iff]
        simp only [Bool.and_eq_true, Bool.or_eq_true, decide_eq_true_eq]
        split at ha <;> split at ha <;> split at hb <;> split at hb <;> split at hc <;>
          split at hc <;> omega

theorem sfxS_rc {w w' : Str} (h : RC w w') : ORel RC (sfxS w) (sfxS w') := by
  rw [sfxS_eq, sfxS_eq, endS_rc h, h.length_eq]
  split
  · exact h.take _
  · trivial

theorem sfxRE_rc {w w' : Str} (h : RC w w') : ORel RC (sfxRE w) (sfxRE w') := by
  rw [sfxRE_eq, sfxRE_eq, endRE_rc h, h.length_eq]
  split
  · exact h.take _
  · trivial

theorem trimEndApostrophes_rc {w w' : Str} (h : RC w w') :
    RC (trimEndApostrophes w) (trimEndApostrophes w') := by
  unfold trimEndApostrophes
  exact (h.reverse.dropWhile fun a b hab => hab.beq (by decide)).reverse

theorem splitWordSuffix_rc {w w' : Str} (h : RC w w') :
    (splitWordSuffix w').2 = (splitWordSuffix w).2 ∧
      RC (splitWordSuffix w).1 (splitWordSuffix w').1 := by
  rw [splitWordSuffix_eq, splitWordSuffix_eq]
  have h1 := sfxS_rc h
  have h2 := sfxRE_rc h
  have h3 := trimEndApostrophes_rc h
  revert h1 h2
  cases sfxS w <;> cases sfxS w' <;> cases sfxRE w <;> cases sfxRE w' <;> simp [ORel] <;>
    intros <;> assumption

/-! ## tokens, scanner results, lexer states, outcomes -/

variable {N : Type}

/-- the same token up to the letter case of its spelling (and of its text payload) -/
structure TokRel (t t' : Tok N) : Prop where
  kind : t'.kind = t.kind
  spelling : RC t.spelling t'.spelling
  start : t'.start = t.start
  range : t'.range = t.range
  num : t'.num = t.num
  text : RC t.text t'.text
  lexErr : t'.lexErr = t.lexErr
  after : t'.after = t.after

structure ResRel (r r' : LexResult N) : Prop where
  token : TokRel r.token r'.token
  stop : r'.stop = r.stop
  newlines : r'.newlines = r.newlines
  newLineStart : r'.newLineStart = r.newLineStart
  staged : ORel TokRel r.staged r'.staged

structure StRel (st st' : LexState N) : Prop where
  src : RC st.src st'.src
  rest : RC st.rest st'.rest
  pos : st'.pos = st.pos
  line : st'.line = st.line
  lineStart : st'.lineStart = st.lineStart
  staged : ORel TokRel st.staged st'.staged

/-- both runs end the same way: `ok` with related results, or a crash at the same site -/
def LRel {α β : Type} (R : α → β → Prop) : L α → L β → Prop
  | .ok a, .ok b => R a b
  | .crash s, .crash s' => s = s'
  | .err _, .err _ => True
  | .fuel, .fuel => True
  | .resource, .resource => True
  | _, _ => False

section
variable {α β α' β' : Type}

theorem LRel.bind {R : α → α' → Prop} {S : β → β' → Prop} {x : L α} {x' : L α'}
    {f : α → L β} {f' : α' → L β'} (hx : LRel R x x')
    (hf : ∀ a a', R a a' → LRel S (f a) (f' a')) : LRel S (x.bind f) (x'.bind f') := by
  cases x <;> cases x' <;> simp_all [LRel, Outcome.bind]

theorem LRel.bind_same {S : β → β' → Prop} {x : L α} {f : α → L β} {f' : α → L β'}
    (hf : ∀ a, LRel S (f a) (f' a)) : LRel S (x.bind f) (x.bind f') := by
  cases x <;> simp_all [LRel, Outcome.bind]

theorem LRel.ok {R : α → α' → Prop} {a : α} {a' : α'} (h : R a a') :
    LRel R (.ok a : L α) (.ok a' : L α') := h

theorem LRel.crash {R : α → α' → Prop} (s : Site) : LRel R (.crash s : L α) (.crash s : L α') := rfl

theorem LRel.refl_eq (x : L α) : LRel Eq x x := by cases x <;> simp [LRel]

theorem LRel.imp {R S : α → α' → Prop} {x : L α} {x' : L α'} (h : LRel R x x')
    (hi : ∀ a a', R a a' → S a a') : LRel S x x' := by
  cases x <;> cases x' <;> simp_all [LRel]

end

theorem StRel.ulen {st st' : LexState N} (h : StRel st st') : ulen st'.src = ulen st.src :=
  h.src.ulen

/-! ## the scanners -/

theorem sub_rel {st st' : LexState N} (h : StRel st st') (lo hi : Nat) :
    LRel RC (sub st lo hi) (sub st' lo hi) := by
  unfold sub
  have := substr_rc h.src lo hi
  revert this
  cases substr st.src lo hi <;> cases substr st'.src lo hi <;> simp [ORel, LRel]

theorem sub_end_rel {st st' : LexState N} (h : StRel st st') (lo : Nat) :
    LRel RC (sub st lo (ulen st.src)) (sub st' lo (ulen st'.src)) := by
  unfold sub
  have := substr_to_end_rc h.src lo
  revert this
  cases substr st.src lo (ulen st.src) <;> cases substr st'.src lo (ulen st'.src) <;>
    simp [ORel, LRel]

theorem makeLoc_eq {st st' : LexState N} (h : StRel st st') (o : Nat) :
    makeLoc st' o = makeLoc st o := by
  unfold makeLoc; rw [h.line, h.lineStart]

theorem makeRange_eq {st st' : LexState N} (h : StRel st st') (a b : Nat) :
    makeRange st' a b = makeRange st a b := by
  unfold makeRange
  have := (substr_rc h.src a b).isSome
  rw [makeLoc_eq h, makeLoc_eq h]
  revert this
  cases substr st.src a b <;> cases substr st'.src a b <;> simp

theorem makeTokenFrom_rel {st st' : LexState N} (h : StRel st st') (start len : Nat) (kind : TK)
    (err : Option LexErr) :
    LRel TokRel (makeTokenFrom st start len kind err) (makeTokenFrom st' start len kind err) := by
  unfold makeTokenFrom
  refine LRel.bind (sub_rel h _ _) fun sp sp' hsp => ?_
  rw [makeRange_eq h]
  refine LRel.bind_same fun r => ?_
  exact ⟨rfl, hsp, rfl, rfl, rfl, .nil, rfl, rfl⟩

theorem findNextIndex_rc {p p' : Char → Bool} (hp : ∀ c c', CaseRel c c' → p' c' = p c)
    {rest rest' : Str} (h : RC rest rest') (n pos : Nat) :
    findNextIndex p' n rest' pos = findNextIndex p n rest pos := by
  induction h generalizing pos with
  | nil => rfl
  | cons hc _ ih =>
    simp only [findNextIndex, hp _ _ hc, hc.utf8Size, ih]

section
variable [CharOps] (laws : AsciiLaws)
include laws

theorem findNextWordEnd_eq {st st' : LexState N} (h : StRel st st') :
    findNextWordEnd st' = findNextWordEnd st := by
  unfold findNextWordEnd
  rw [h.ulen, h.pos]
  exact findNextIndex_rc (fun c c' hc => hc.wordEnd laws) h.rest _ _

/-- results of `find_word_start` -/
def FRel (a a' : Nat × Char × List Char × Nat) : Prop :=
  a'.1 = a.1 ∧ CaseRel a.2.1 a'.2.1 ∧ RC a.2.2.1 a'.2.2.1 ∧ a'.2.2.2 = a.2.2.2

theorem findNonWs_rel {rest rest' : Str} (h : RC rest rest') (pos : Nat) :
    ORel FRel (findNonWs rest pos) (findNonWs rest' pos) := by
  induction h generalizing pos with
  | nil => trivial
  | cons hc t ih =>
    simp only [findNonWs, hc.ignWs laws, hc.utf8Size]
    split
    · exact ih _
    · exact ⟨rfl, hc, t, rfl⟩

theorem findWordStart_rel {rest rest' : Str} (h : RC rest rest') (pos : Nat) :
    ORel FRel (findWordStart rest pos) (findWordStart rest' pos) := by
  unfold findWordStart startsWithNApos
  rw [startsWithIgnoreAsciiCase_rc _ h]
  split
  · cases h with
    | nil => trivial
    | cons hc t => exact ⟨rfl, hc, t, by simp only [hc.utf8Size]⟩
  · exact findNonWs_rel laws h pos

omit laws in
/-- `scan_for_text`: the literal is matched up to ASCII case in both sources -/
theorem scanForText_rel {st st' : LexState N} (h : StRel st st') (start : Nat) (text : Str)
    (kind : TK) :
    LRel (ORel ResRel) (scanForText st start text kind) (scanForText st' start text kind) := by
  unfold scanForText
  refine LRel.bind (sub_end_rel h start) fun buf buf' hb => ?_
  rw [startsWithIgnoreAsciiCase_rc text hb]
  cases startsWithIgnoreAsciiCase text buf
  · trivial
  · refine LRel.bind (makeTokenFrom_rel h _ _ _ _) fun tok tok' htok => ?_
    exact ⟨htok, rfl, rfl, rfl, trivial⟩

omit laws in
theorem scanApostropheNApostrophe_rel {st st' : LexState N} (h : StRel st st') (start : Nat) :
    LRel (ORel ResRel) (scanApostropheNApostrophe st start)
      (scanApostropheNApostrophe st' start) :=
  scanForText_rel h start _ _

omit laws in
theorem scanApostropheSuffix_rel {st st' : LexState N} (h : StRel st st') (start : Nat) :
    LRel (ORel ResRel) (scanApostropheSuffix st start) (scanApostropheSuffix st' start) := by
  unfold scanApostropheSuffix
  refine LRel.bind (scanForText_rel h start _ _) fun r r' hr => ?_
  cases r <;> cases r' <;> simp only [ORel] at hr
  · exact scanForText_rel h start _ _
  · exact hr

omit laws in
theorem maybeFollowedByApostropheSuffix_rel {st st' : LexState N} (h : StRel st st')
    {r r' : LexResult N} (hr : ResRel r r') :
    LRel ResRel (maybeFollowedByApostropheSuffix st r) (maybeFollowedByApostropheSuffix st' r') := by
  unfold maybeFollowedByApostropheSuffix
  have hst : StRel
      ({ st with line := st.line + r.newlines, lineStart := r.newLineStart.getD st.lineStart } : LexState N)
      ({ st' with line := st'.line + r'.newlines, lineStart := r'.newLineStart.getD st'.lineStart } : LexState N) :=
    ⟨h.src, h.rest, h.pos, by simp only [h.line, hr.newlines],
      by simp only [h.lineStart, hr.newLineStart], h.staged⟩
  rw [hr.stop]
  refine LRel.bind (scanApostropheSuffix_rel hst _) fun s s' hs => ?_
  cases s <;> cases s' <;> simp only [ORel] at hs
  · exact hr
  · exact ⟨hr.token, by simp only [hs.stop], by simp only [hr.newlines, hs.newlines],
      by simp only [hr.newLineStart, hs.newLineStart], hs.token⟩

theorem scanNumber_rel [NumOps N]
    (hparse : ∀ t t' : Str, RC t t' → (NumOps.parse t' : Option N) = NumOps.parse t)
    {st st' : LexState N} (h : StRel st st') (start : Nat) :
    LRel (ORel ResRel) (scanNumber st start) (scanNumber st' start) := by
  unfold scanNumber
  have hstop : findNextIndex (fun c => !(isAsciiAlnum c || c == '.')) (ulen st'.src) st'.rest st'.pos
      = findNextIndex (fun c => !(isAsciiAlnum c || c == '.')) (ulen st.src) st.rest st.pos := by
    rw [h.ulen, h.pos]
    exact findNextIndex_rc (fun c c' hc => by simp only [hc.alnum, hc.beq (x := '.') (by decide)])
      h.rest _ _
  simp only [hstop]
  refine LRel.bind (sub_rel h _ _) fun text text' htext => ?_
  rw [hparse _ _ htext]
  cases (NumOps.parse text : Option N) with
  | none => trivial
  | some n =>
    simp only
    rw [makeRange_eq h]
    refine LRel.bind_same fun r => ?_
    refine LRel.bind (maybeFollowedByApostropheSuffix_rel h ?_) fun res res' hres => hres
    exact ⟨⟨rfl, htext, rfl, rfl, rfl, .nil, rfl, rfl⟩, rfl, rfl, rfl, trivial⟩

theorem findWordType_eq (kw : List (Str × TK)) {w w' : Str} (h : RC w w') :
    findWordType kw w' = findWordType kw w := by
  unfold findWordType
  rw [h.isEmpty, h.matchKeyword laws]

omit laws in
theorem usub_refl (a b : Nat) : LRel Eq (usub a b) (usub a b) := LRel.refl_eq _

theorem tokenizeWord_rel (kw : List (Str × TK)) {st st' : LexState N} (h : StRel st st')
    (start : Nat) {word word' : Str} (hw : RC word word') (stop : Nat) :
    LRel ResRel (tokenizeWord kw st start word stop) (tokenizeWord kw st' start word' stop) := by
  unfold tokenizeWord
  obtain ⟨h1, h2⟩ := splitWordSuffix_rc hw
  revert h1 h2
  rcases splitWordSuffix word with ⟨a, b⟩
  rcases splitWordSuffix word' with ⟨a', b'⟩
  intro h1 h2
  simp only at h1 h2
  have h1' := h1.symm
  subst h1'
  clear h1
  simp only
  have hstaged : LRel (ORel TokRel)
      (match b with
       | none => (.ok none : L (Option (Tok N)))
       | some (kind, len) =>
         (usub stop len).bind fun s => (makeTokenFrom st s len kind).bind fun t => .ok (some t))
      (match b with
       | none => (.ok none : L (Option (Tok N)))
       | some (kind, len) =>
         (usub stop len).bind fun s => (makeTokenFrom st' s len kind).bind fun t => .ok (some t)) := by
    cases b with
    | none => trivial
    | some p =>
      obtain ⟨kind, len⟩ := p
      simp only
      refine LRel.bind_same fun s => ?_
      exact LRel.bind (makeTokenFrom_rel h _ _ _ _) fun t t' ht => ht
  refine LRel.bind hstaged fun sg sg' hsg => ?_
  rw [findWordType_eq laws kw h2]
  refine LRel.bind_same fun kind => ?_
  rw [h2.ulen]
  refine LRel.bind (makeTokenFrom_rel h _ _ _ _) fun t t' ht => ?_
  exact ⟨ht, rfl, rfl, rfl, hsg⟩

theorem scanWord_rel (kw : List (Str × TK)) {st st' : LexState N} (h : StRel st st')
    (start : Nat) : LRel ResRel (scanWord kw st start) (scanWord kw st' start) := by
  unfold scanWord
  simp only [findNextWordEnd_eq laws h]
  refine LRel.bind (sub_rel h _ _) fun text text' htext => ?_
  rw [htext.all_eq (p := fun c => isAlphabetic c || c == '\'') (q := fun c => isAlphabetic c || c == '\'')
    (fun a b hab => by simp only [hab.alphabetic laws, hab.beq (x := '\'') (by decide)])]
  split
  · exact tokenizeWord_rel laws kw h start htext _
  · refine LRel.bind_same fun len => ?_
    refine LRel.bind (makeTokenFrom_rel h _ _ _ _) fun t t' ht => ?_
    exact ⟨ht, rfl, rfl, rfl, trivial⟩

theorem scanKeyword_rel (kw : List (Str × TK)) {st st' : LexState N} (h : StRel st st')
    (start : Nat) : LRel (ORel ResRel) (scanKeyword kw st start) (scanKeyword kw st' start) := by
  unfold scanKeyword
  simp only [findNextWordEnd_eq laws h]
  refine LRel.bind (sub_rel h _ _) fun text text' htext => ?_
  rw [htext.matchKeyword laws]
  cases matchKeyword kw text with
  | none => trivial
  | some kind =>
    simp only
    rw [makeRange_eq h]
    refine LRel.bind_same fun r => ?_
    exact ⟨⟨rfl, htext, rfl, rfl, rfl, .nil, rfl, rfl⟩, rfl, rfl, rfl, trivial⟩

omit laws in
theorem scanClose_rc {close : Char} (hclose : ¬ Letter close) {rest rest' : Str}
    (h : RC rest rest') (pos nl : Nat) (nls : Option Nat) :
    scanClose close rest' pos nl nls = scanClose close rest pos nl nls := by
  induction h generalizing pos nl nls with
  | nil => rfl
  | cons hc _ ih =>
    have e1 : (_ = '\n') = (_ = '\n') := propext (hc.eq_iff (x := '\n') (by decide))
    have e2 : (_ = close) = (_ = close) := propext (hc.eq_iff hclose)
    simp only [scanClose, e1, e2, hc.utf8Size, ih]

omit laws in
theorem scanDelimited_rel {st st' : LexState N} (h : StRel st st') (openIdx : Nat)
    {closeChar : Char} (hclose : ¬ Letter closeChar) (kind : TK) (error : LexErr) :
    LRel ResRel (scanDelimited st openIdx closeChar kind error)
      (scanDelimited st' openIdx closeChar kind error) := by
  unfold scanDelimited
  rw [makeLoc_eq h]
  refine LRel.bind_same fun startLoc => ?_
  rw [scanClose_rc hclose h.rest, h.pos]
  rcases scanClose closeChar st.rest st.pos 0 none with ⟨newlines, newLineStart, close⟩
  simp only
  have hmid : LRel (fun (x x' : TK × Str × Option LexErr × Str × Nat) =>
        x'.1 = x.1 ∧ RC x.2.1 x'.2.1 ∧ x'.2.2.1 = x.2.2.1 ∧ RC x.2.2.2.1 x'.2.2.2.1 ∧
          x'.2.2.2.2 = x.2.2.2.2)
      (match close with
       | some close =>
         (sub st (openIdx + 1) close).bind fun inner =>
         let stop := close + 1
         (sub st openIdx stop).bind fun text =>
         (.ok (kind, inner, (none : Option LexErr), text, stop) : L (TK × Str × Option LexErr × Str × Nat))
       | none =>
         (sub st openIdx (ulen st.src)).bind fun text =>
         .ok (.error, [], some error, text, ulen st.src))
      (match close with
       | some close =>
         (sub st' (openIdx + 1) close).bind fun inner =>
         let stop := close + 1
         (sub st' openIdx stop).bind fun text =>
         (.ok (kind, inner, (none : Option LexErr), text, stop) : L (TK × Str × Option LexErr × Str × Nat))
       | none =>
         (sub st' openIdx (ulen st'.src)).bind fun text =>
         .ok (.error, [], some error, text, ulen st'.src)) := by
    cases close with
    | some close =>
      simp only
      refine LRel.bind (sub_rel h _ _) fun inner inner' hin => ?_
      refine LRel.bind (sub_rel h _ _) fun text text' htx => ?_
      exact ⟨rfl, hin, rfl, htx, rfl⟩
    | none =>
      simp only
      rw [h.ulen]
      refine LRel.bind (sub_rel h _ _) fun text text' htx => ?_
      exact ⟨rfl, .nil, rfl, htx, rfl⟩
  refine LRel.bind hmid fun x x' hx => ?_
  obtain ⟨k, inner, err, text, stop⟩ := x
  obtain ⟨k', inner', err', text', stop'⟩ := x'
  obtain ⟨e1, e2, e3, e4, e5⟩ := hx
  simp only at e1 e2 e3 e4 e5
  subst e1 e3 e5
  simp only [h.line, h.lineStart]
  refine LRel.bind_same fun endLoc => ?_
  exact maybeFollowedByApostropheSuffix_rel h
    ⟨⟨rfl, e4, rfl, rfl, rfl, e2, rfl, rfl⟩, rfl, rfl, rfl, trivial⟩

theorem makeErrorToken_rel {st st' : LexState N} (h : StRel st st') (start : Nat)
    (error : LexErr) :
    LRel ResRel (makeErrorToken st start error) (makeErrorToken st' start error) := by
  unfold makeErrorToken
  simp only [findNextWordEnd_eq laws h]
  refine LRel.bind_same fun len => ?_
  refine LRel.bind (makeTokenFrom_rel h _ _ _ _) fun t t' ht => ?_
  exact ⟨ht, rfl, rfl, rfl, trivial⟩

omit laws in
theorem charToken_rel {st st' : LexState N} (h : StRel st st') (kind : TK) (start : Nat) :
    LRel ResRel (charToken st kind start) (charToken st' kind start) := by
  unfold charToken
  refine LRel.bind (makeTokenFrom_rel h _ _ _ _) fun t t' ht => ?_
  split
  · exact ⟨ht, rfl, rfl, rfl, trivial⟩
  · exact ⟨ht, rfl, rfl, rfl, trivial⟩

omit laws in
theorem twoCharToken_rel {st st' : LexState N} (h : StRel st st') (kind : TK) (start : Nat) :
    LRel ResRel (twoCharToken st kind start) (twoCharToken st' kind start) := by
  unfold twoCharToken
  refine LRel.bind (makeTokenFrom_rel h _ _ _ _) fun t t' ht => ?_
  exact ⟨ht, rfl, rfl, rfl, trivial⟩

omit laws in
theorem some'_rel {x x' : L (LexResult N)} (h : LRel ResRel x x') :
    LRel (ORel ResRel) (some' x) (some' x') :=
  LRel.bind h fun r r' hr => hr

omit laws in
theorem nextChar_eq {st st' : LexState N} (h : StRel st st') {x : Char} (hx : ¬ Letter x) :
    (nextChar st' = some x) = (nextChar st = some x) := by
  unfold nextChar
  have hr := h.rest
  revert hr
  generalize st.rest = r
  generalize st'.rest = r'
  intro hr
  cases hr with
  | nil => rfl
  | cons hc _ =>
    simp only [List.head?_cons, Option.some.injEq]
    exact propext (hc.eq_iff hx)

end

/-! ## one round, the loops -/

section
variable [CharOps] [NumOps N] (laws : AsciiLaws)
  (hparse : ∀ t t' : Str, RC t t' → (NumOps.parse t' : Option N) = NumOps.parse t)
include laws hparse

theorem dispatch_rel (kw : List (Str × TK)) {st st' : LexState N} (h : StRel st st') (start : Nat)
    {c c' : Char} (hc : CaseRel c c') :
    LRel (ORel ResRel) (dispatch kw st start c) (dispatch kw st' start c') := by
  unfold dispatch
  have e1 : (c' = '\n') = (c = '\n') := propext (hc.eq_iff (by decide))
  have e2 : (c' = '.') = (c = '.') := propext (hc.eq_iff (by decide))
  have e3 : (c' = ',') = (c = ',') := propext (hc.eq_iff (by decide))
  have e4 : (c' = '&') = (c = '&') := propext (hc.eq_iff (by decide))
  have e5 : (c' = '+') = (c = '+') := propext (hc.eq_iff (by decide))
  have e6 : (c' = '-') = (c = '-') := propext (hc.eq_iff (by decide))
  have e7 : (c' = '*') = (c = '*') := propext (hc.eq_iff (by decide))
  have e8 : (c' = '/') = (c = '/') := propext (hc.eq_iff (by decide))
  have e9 : (c' = '"') = (c = '"') := propext (hc.eq_iff (by decide))
  have e10 : (c' = '(') = (c = '(') := propext (hc.eq_iff (by decide))
  have e11 : (c' = '_') = (c = '_') := propext (hc.eq_iff (by decide))
  have e12 : (c' = '<') = (c = '<') := propext (hc.eq_iff (by decide))
  have e13 : (c' = '>') = (c = '>') := propext (hc.eq_iff (by decide))
  simp only [e1, e2, e3, e4, e5, e6, e7, e8, e9, e10, e11, e12, e13,
    nextChar_eq h (x := '=') (by decide), hc.ignPunct laws, hc.beq (x := '\'') (by decide),
    hc.numeric laws, hc.alphabetic laws]
  have hnum : LRel (ORel ResRel) (scanNumber st start) (scanNumber st' start) :=
    scanNumber_rel laws hparse h start
  by_cases h1 : c = '\n'
  · simp only [if_pos h1]; exact some'_rel (charToken_rel h _ _)
  simp only [if_neg h1]
  by_cases h2 : c = '.'
  · simp only [if_pos h2]
    refine LRel.bind hnum fun n n' hn => ?_
    cases n <;> cases n' <;> simp only [ORel] at hn
    · exact some'_rel (charToken_rel h _ _)
    · exact hn
  simp only [if_neg h2]
  by_cases h3 : c = ','
  · simp only [if_pos h3]; exact some'_rel (charToken_rel h _ _)
  simp only [if_neg h3]
  by_cases h4 : c = '&'
  · simp only [if_pos h4]; exact some'_rel (charToken_rel h _ _)
  simp only [if_neg h4]
  by_cases h5 : c = '+'
  · simp only [if_pos h5]; exact some'_rel (charToken_rel h _ _)
  simp only [if_neg h5]
  by_cases h6 : c = '-'
  · simp only [if_pos h6]; exact some'_rel (charToken_rel h _ _)
  simp only [if_neg h6]
  by_cases h7 : c = '*'
  · simp only [if_pos h7]; exact some'_rel (charToken_rel h _ _)
  simp only [if_neg h7]
  by_cases h8 : c = '/'
  · simp only [if_pos h8]; exact some'_rel (charToken_rel h _ _)
  simp only [if_neg h8]
  by_cases h9 : c = '"'
  · simp only [if_pos h9]; exact some'_rel (scanDelimited_rel h _ (by decide) _ _)
  simp only [if_neg h9]
  by_cases h10 : c = '('
  · simp only [if_pos h10]; exact some'_rel (scanDelimited_rel h _ (by decide) _ _)
  simp only [if_neg h10]
  by_cases h11 : c = '_'
  · simp only [if_pos h11]; exact some'_rel (makeErrorToken_rel laws h _ _)
  simp only [if_neg h11]
  by_cases h12 : c = '<'
  · simp only [if_pos h12]
    split
    · exact some'_rel (twoCharToken_rel h _ _)
    · exact some'_rel (charToken_rel h _ _)
  simp only [if_neg h12]
  by_cases h13 : c = '>'
  · simp only [if_pos h13]
    split
    · exact some'_rel (twoCharToken_rel h _ _)
    · exact some'_rel (charToken_rel h _ _)
  simp only [if_neg h13]
  refine LRel.bind (scanApostropheNApostrophe_rel h start) fun r r' hr => ?_
  cases r <;> cases r' <;> simp only [ORel] at hr
  · by_cases g1 : (isIgnorablePunctuation c || c == '\'') = true
    · simp only [if_pos g1]; trivial
    simp only [if_neg g1]
    by_cases g2 : isNumeric c = true
    · simp only [if_pos g2]
      refine LRel.bind hnum fun n n' hn => ?_
      cases n <;> cases n' <;> simp only [ORel] at hn
      · exact some'_rel (makeErrorToken_rel laws h _ _)
      · exact hn
    simp only [if_neg g2]
    by_cases g3 : isAlphabetic c = true
    · simp only [if_pos g3]
      refine LRel.bind (scanKeyword_rel laws kw h start) fun k k' hk => ?_
      cases k <;> cases k' <;> simp only [ORel] at hk
      · exact some'_rel (scanWord_rel laws kw h start)
      · exact hk
    simp only [if_neg g3]
    exact some'_rel (makeErrorToken_rel laws h _ _)
  · exact hr

omit laws hparse in
theorem advanceTo_rc (idx : Nat) {rest rest' : Str} (h : RC rest rest') (pos : Nat) :
    RC (advanceTo idx rest pos).1 (advanceTo idx rest' pos).1 ∧
      (advanceTo idx rest' pos).2 = (advanceTo idx rest pos).2 := by
  induction h generalizing pos with
  | nil => exact ⟨.nil, rfl⟩
  | cons hc t ih =>
    simp only [advanceTo, hc.utf8Size]
    split
    · exact ⟨.cons hc t, rfl⟩
    · exact ih _

/-- results of one round -/
def StepRel : StepResult N → StepResult N → Prop
  | .eof a, .eof b => StRel a b
  | .skip a, .skip b => StRel a b
  | .tok t a, .tok t' b => TokRel t t' ∧ StRel a b
  | _, _ => False

omit laws hparse in
theorem finish_rel {st st' : LexState N} (h : StRel st st') {r r' : LexResult N}
    (hr : ResRel r r') : LRel StepRel (finish st r) (finish st' r') := by
  unfold finish
  rw [hr.stop, isCharBoundary_rc h.src, h.pos]
  split
  · obtain ⟨a1, a2⟩ := advanceTo_rc r.stop h.rest st.pos
    exact ⟨hr.token, h.src, a1, a2, by simp only [h.line, hr.newlines],
      by simp only [h.lineStart, hr.newLineStart], hr.staged⟩
  · rfl

theorem step_rel (kw : List (Str × TK)) {st st' : LexState N} (h : StRel st st') :
    LRel StepRel (step kw st) (step kw st') := by
  unfold step
  have hf := findWordStart_rel laws h.rest st.pos
  rw [h.pos]
  revert hf
  cases findWordStart st.rest st.pos <;> cases findWordStart st'.rest st.pos <;>
    simp only [ORel] <;> intro hf
  · exact ⟨h.src, .nil, h.ulen, h.line, h.lineStart, h.staged⟩
  · exact hf.elim
  · exact hf.elim
  · rename_i a a'
    obtain ⟨start, c, rest1, pos1⟩ := a
    obtain ⟨start', c', rest1', pos1'⟩ := a'
    obtain ⟨f1, f2, f3, f4⟩ := hf
    simp only at f1 f2 f3 f4
    subst f1 f4
    simp only
    have hst1 : StRel ({ st with rest := rest1, pos := pos1' } : LexState N)
        ({ st' with rest := rest1', pos := pos1' } : LexState N) :=
      ⟨h.src, f3, rfl, h.line, h.lineStart, h.staged⟩
    have hd := dispatch_rel laws hparse kw hst1 start' f2
    revert hd
    generalize dispatch kw ({ st with rest := rest1, pos := pos1' } : LexState N) start' c = d
    generalize dispatch kw ({ st' with rest := rest1', pos := pos1' } : LexState N) start' c' = d'
    intro hd
    rcases d with (_ | r) | e | s | _ | _ <;> rcases d' with (_ | r') | e' | s' | _ | _ <;>
      simp only [LRel, ORel] at hd <;> try (exact hd.elim)
    · exact hst1
    · exact finish_rel hst1 hd
    · trivial
    · exact hd
    · trivial
    · trivial

omit laws hparse in
theorem matchLoop_unfold (kw : List (Str × TK)) (st : LexState N) :
    matchLoop kw st =
      match step kw st with
      | .ok (.eof st') => .ok (none, st')
      | .ok (.tok t st') => .ok (some t, st')
      | .ok (.skip st') => matchLoop kw st'
      | .err e => .err e
      | .crash s => .crash s
      | .fuel => .fuel
      | .resource => .resource := by
  rcases hs : step kw st with (st1 | st1 | ⟨t, st1⟩) | e | s | _ | _
  · simp only; exact matchLoop_eof hs
  · simp only; exact matchLoop_skip hs
  · simp only; exact matchLoop_tok hs
  all_goals (rw [matchLoop]; split <;> rename_i heq <;> rw [hs] at heq <;> cases heq <;> try rfl)

omit laws hparse in
theorem lexLoop_unfold (kw : List (Str × TK)) (st : LexState N) :
    lexLoop kw st =
      match next kw st with
      | .ok (none, _) => .ok []
      | .ok (some t, st') =>
        (lexLoop kw st').bind fun ts => .ok ({ t with after := snap st' } :: ts)
      | .err e => .err e
      | .crash s => .crash s
      | .fuel => .fuel
      | .resource => .resource := by
  rcases hn : next kw st with ⟨(_ | t), st'⟩ | e | s | _ | _
  · simp only; exact lexLoop_nil hn
  · simp only; exact lexLoop_cons hn
  all_goals (rw [lexLoop]; split <;> rename_i heq <;> rw [hn] at heq <;> cases heq <;> try rfl)

/-- results of `match_loop` / `next` -/
def NRel (a a' : Option (Tok N) × LexState N) : Prop := ORel TokRel a.1 a'.1 ∧ StRel a.2 a'.2

theorem matchLoop_rel (kw : List (Str × TK)) :
    ∀ (n : Nat) {st st' : LexState N}, st.rest.length = n → StRel st st' →
      LRel NRel (matchLoop kw st) (matchLoop kw st') := by
  intro n
  induction n using Nat.strongRecOn with
  | _ n ih =>
    intro st st' hn h
    rw [matchLoop_unfold, matchLoop_unfold]
    have hs := step_rel laws hparse kw h
    rcases hstep : step kw st with (st1 | st1 | ⟨t, st1⟩) | e | s | _ | _ <;>
      rcases hstep' : step kw st' with (st1' | st1' | ⟨t', st1'⟩) | e' | s' | _ | _ <;>
      rw [hstep, hstep'] at hs <;> simp only [LRel, StepRel] at hs <;> try (exact hs.elim)
    · exact ⟨trivial, hs⟩
    · have hlt := step_lt hstep
      simp only [StepResult.state] at hlt
      rcases hlt with ⟨_, hx⟩ | hlt
      · cases hx
      · exact ih _ (by omega) rfl hs
    · exact ⟨hs.1, hs.2⟩
    · trivial
    · exact hs
    · trivial
    · trivial

theorem next_rel (kw : List (Str × TK)) {st st' : LexState N} (h : StRel st st') :
    LRel NRel (next kw st) (next kw st') := by
  unfold next
  have hsg := h.staged
  revert hsg
  cases hs : st.staged <;> cases hs' : st'.staged <;> simp only [ORel] <;> intro hsg
  · exact matchLoop_rel laws hparse kw _ rfl h
  · exact hsg.elim
  · exact hsg.elim
  · exact ⟨hsg, h.src, h.rest, h.pos, h.line, h.lineStart, trivial⟩

omit laws hparse in
theorem snap_eq {st st' : LexState N} (h : StRel st st') : snap st' = snap st := by
  unfold snap currentIdx
  rw [h.line, h.lineStart]
  have hsg := h.staged
  have hr := h.rest
  revert hsg hr
  cases st.staged <;> cases st'.staged <;> simp only [ORel] <;> intro hsg
  · generalize st.rest = r
    generalize st'.rest = r'
    intro hr
    cases hr with
    | nil => simp only [h.ulen]
    | cons _ _ => simp only [h.pos]
  · exact hsg.elim
  · exact hsg.elim
  · intro _; simp only [hsg.start]

theorem lexLoop_rel (kw : List (Str × TK)) :
    ∀ (n : Nat) {st st' : LexState N}, measure st = n → StRel st st' →
      LRel (F2 TokRel) (lexLoop kw st) (lexLoop kw st') := by
  intro n
  induction n using Nat.strongRecOn with
  | _ n ih =>
    intro st st' hn h
    rw [lexLoop_unfold, lexLoop_unfold]
    have hs := next_rel laws hparse kw h
    rcases hnext : next kw st with ⟨(_ | t), st1⟩ | e | s | _ | _ <;>
      rcases hnext' : next kw st' with ⟨(_ | t'), st1'⟩ | e' | s' | _ | _ <;>
      rw [hnext, hnext'] at hs <;> simp only [LRel, NRel, ORel] at hs <;>
      try (first | exact hs.elim | exact hs.1.elim)
    · exact F2.nil
    · have hlt := next_lt hnext
      simp only
      refine LRel.bind (ih _ (by omega) rfl hs.2) fun ts ts' hts => ?_
      refine F2.cons ?_ hts
      exact ⟨hs.1.kind, hs.1.spelling, hs.1.start, hs.1.range, hs.1.num, hs.1.text, hs.1.lexErr,
        snap_eq hs.2⟩
    · trivial
    · exact hs
    · trivial
    · trivial

/-- **the lexer commutes with re-casing**: on two texts related by `RC` the lexer ends the same
    way, and the token lists are related token by token -/
theorem lexAll_rel (kw : List (Str × TK)) {s s' : Str} (h : RC s s') :
    LRel (F2 TokRel) (lexAll (N := N) kw s) (lexAll (N := N) kw s') :=
  lexLoop_rel laws hparse kw _ rfl ⟨h, h, rfl, rfl, rfl, trivial⟩

end

end Recase
end Rrss
