/-
  Rrss.Lemmas.PoeticParse — helper lemmas for C11, parts 3–5: the parser functions for poetic
  literals (`isPoeticNumberLiteralToken`, `poeticLoopBody`, `parsePoeticNumberLiteral`,
  `parsePoeticNumberAssignmentRhs`, `parsePoeticStringAssignmentRhs`), run on a parser state.
-/
import Rrss.Parser
import Rrss.Spec.PoeticTokens
namespace Rrss
namespace PoeticParse
open Parser Lexer

variable {N : Type}

/-! ### the parser monad, run on a state -/

theorem pure_run {α : Type} (a : α) (st : PState N) : (P.pure a : P N α) st = .ok (a, st) := rfl

theorem bind_run {α β : Type} (x : P N α) (f : α → P N β) (st : PState N) :
    P.bind x f st = (x st).bind (fun r => f r.1 r.2) := by
  unfold P.bind Outcome.bind; cases x st <;> rfl

theorem failWith_run {α : Type} (c : PCode N) (st : PState N) :
    (failWith c : P N α) st = .err ⟨c, errLocOf st⟩ := rfl

theorem fail_run {α : Type} (e : ParseErr N) (st : PState N) : (P.fail e : P N α) st = .err e := rfl

theorem map_ok {ε α β : Type} (f : α → β) (a : α) : (Outcome.ok a : Outcome ε α).map f = .ok (f a) := rfl

/-- the state after the head token `tok` has been consumed -/
def stepped (st : PState N) (tok : Tok N) (ts : List (Tok N)) : PState N :=
  { st with toks := ts, last := tok.after }

/-! ### token classes -/

theorem isHyphen_iff (t : Tok N) : isHyphen t = true ↔ t.kind = .minus ∧ t.spelling = ['-'] := by
  simp [isHyphen]

section
variable [CharOps]

theorem isPoeticNumberLiteralToken_iff (t : Tok N) :
    isPoeticNumberLiteralToken t = true ↔
      (t.kind = .dot ∨ t.kind = .comma ∨ t.kind = .apostropheS ∨ t.kind = .apostropheRE) ∨
      (t.kind = .minus ∧ t.spelling = ['-']) ∨ isWord t.spelling = true := by
  unfold isPoeticNumberLiteralToken
  split <;> simp_all [isHyphen_iff]

theorem accepted_of_hyphen {t : Tok N} (h : isHyphen t = true) : isPoeticNumberLiteralToken t = true :=
  (isPoeticNumberLiteralToken_iff t).mpr (.inr (.inl ((isHyphen_iff t).mp h)))

/-! ### one round of the poetic loop -/

theorem body_nil (rec : Rec N) (st : PState N) (h : st.toks = []) :
    poeticLoopBody rec st = .ok ([], st) := by
  simp only [poeticLoopBody, bind, pure, matchAndConsume, h, bind_run, Outcome.bind_ok, pure_run]

theorem body_stop (rec : Rec N) (st : PState N) (tok : Tok N) (ts : List (Tok N))
    (h : st.toks = tok :: ts) (hp : isPoeticNumberLiteralToken tok = false) :
    poeticLoopBody rec st = .ok ([], st) := by
  simp only [poeticLoopBody, bind, pure, matchAndConsume, h, hp, bind_run, Outcome.bind_ok, pure_run,
    Bool.false_eq_true, if_false]

theorem body_comma (rec : Rec N) (st : PState N) (tok : Tok N) (ts : List (Tok N))
    (h : st.toks = tok :: ts) (hk : tok.kind = .comma) :
    poeticLoopBody rec st = rec.poeticLoop (stepped st tok ts) := by
  simp only [poeticLoopBody, bind, pure, matchAndConsume, h, isPoeticNumberLiteralToken, hk, bind_run,
    if_true, Outcome.bind_ok, pure_run, stepped]
  cases rec.poeticLoop { st with toks := ts, last := tok.after } <;> rfl

theorem body_dot (rec : Rec N) (st : PState N) (tok : Tok N) (ts : List (Tok N))
    (h : st.toks = tok :: ts) (hk : tok.kind = .dot) :
    poeticLoopBody rec st =
      (rec.poeticLoop (stepped st tok ts)).map (fun r => (.dot :: r.1, r.2)) := by
  simp only [poeticLoopBody, bind, pure, matchAndConsume, h, isPoeticNumberLiteralToken, hk, bind_run,
    if_true, Outcome.bind_ok, pure_run, stepped]
  cases rec.poeticLoop { st with toks := ts, last := tok.after } <;> rfl

theorem body_apostropheS (rec : Rec N) (st : PState N) (tok : Tok N) (ts : List (Tok N))
    (h : st.toks = tok :: ts) (hk : tok.kind = .apostropheS) :
    poeticLoopBody rec st =
      (rec.poeticLoop (stepped st tok ts)).map (fun r => (.suffix tok.spelling :: r.1, r.2)) := by
  simp only [poeticLoopBody, bind, pure, matchAndConsume, h, isPoeticNumberLiteralToken, hk, bind_run,
    if_true, Outcome.bind_ok, pure_run, stepped]
  cases rec.poeticLoop { st with toks := ts, last := tok.after } <;> rfl

theorem body_apostropheRE (rec : Rec N) (st : PState N) (tok : Tok N) (ts : List (Tok N))
    (h : st.toks = tok :: ts) (hk : tok.kind = .apostropheRE) :
    poeticLoopBody rec st =
      (rec.poeticLoop (stepped st tok ts)).map (fun r => (.suffix tok.spelling :: r.1, r.2)) := by
  simp only [poeticLoopBody, bind, pure, matchAndConsume, h, isPoeticNumberLiteralToken, hk, bind_run,
    if_true, Outcome.bind_ok, pure_run, stepped]
  cases rec.poeticLoop { st with toks := ts, last := tok.after } <;> rfl

/-- common first part of the three hyphen cases -/
theorem body_hyphen_aux (rec : Rec N) (st : PState N) (tok : Tok N) (ts : List (Tok N))
    (h : st.toks = tok :: ts) (hh : isHyphen tok = true) :
    poeticLoopBody rec st =
      (advance (stepped st tok ts)).bind fun r =>
        match r.1 with
        | none => .err ⟨.poeticLiteralEndingWithHyphen, errLocOf r.2⟩
        | some nextToken =>
          if isWord nextToken.spelling then
            (rec.poeticLoop r.2).map (fun q => (.suffix ('-' :: nextToken.spelling) :: q.1, q.2))
          else .err ⟨.unexpectedToken, .token nextToken⟩ := by
  have hk := ((isHyphen_iff tok).mp hh).1
  simp only [poeticLoopBody, bind, pure, matchAndConsume, h, accepted_of_hyphen hh, hk, bind_run,
    if_true, Outcome.bind_ok, stepped, hh]
  cases hadv : advance { st with toks := ts, last := tok.after } with
  | ok r =>
    obtain ⟨nx, st'⟩ := r
    simp only [Outcome.bind_ok]
    cases nx with
    | none => simp only [bind_run, failWith_run]; rfl
    | some nextToken =>
      simp only []
      by_cases hw : isWord nextToken.spelling = true
      · simp only [hw, if_true, bind_run, pure_run, Outcome.bind_ok]
        cases rec.poeticLoop st' <;> rfl
      · simp only [hw]; rfl
  | err e => rfl
  | crash s => rfl
  | fuel => rfl
  | resource => rfl

theorem body_hyphen_word (rec : Rec N) (st : PState N) (tok next : Tok N) (ts : List (Tok N))
    (h : st.toks = tok :: next :: ts) (hh : isHyphen tok = true) (hw : isWord next.spelling = true) :
    poeticLoopBody rec st =
      (rec.poeticLoop (stepped st next ts)).map
        (fun r => (.suffix ('-' :: next.spelling) :: r.1, r.2)) := by
  rw [body_hyphen_aux rec st tok (next :: ts) h hh]
  simp [advance, stepped, hw]

theorem body_hyphen_end (rec : Rec N) (st : PState N) (tok : Tok N)
    (h : st.toks = [tok]) (hh : isHyphen tok = true) :
    poeticLoopBody rec st = .err ⟨.poeticLiteralEndingWithHyphen, .line st.eof.line⟩ := by
  rw [body_hyphen_aux rec st tok [] h hh]
  simp [advance, stepped, errLocOf]

theorem body_hyphen_other (rec : Rec N) (st : PState N) (tok next : Tok N) (ts : List (Tok N))
    (h : st.toks = tok :: next :: ts) (hh : isHyphen tok = true) (hw : isWord next.spelling = false) :
    poeticLoopBody rec st = .err ⟨.unexpectedToken, .token next⟩ := by
  rw [body_hyphen_aux rec st tok (next :: ts) h hh]
  simp [advance, stepped, hw]

theorem body_word (rec : Rec N) (st : PState N) (tok : Tok N) (ts : List (Tok N))
    (h : st.toks = tok :: ts) (hk1 : tok.kind ≠ .dot) (hk2 : tok.kind ≠ .comma)
    (hk3 : tok.kind ≠ .apostropheS) (hk4 : tok.kind ≠ .apostropheRE) (hh : isHyphen tok = false)
    (hw : isWord tok.spelling = true) :
    poeticLoopBody rec st =
      (rec.poeticLoop (stepped st tok ts)).map (fun r => (.word tok.spelling :: r.1, r.2)) := by
  have hp : isPoeticNumberLiteralToken tok = true :=
    (isPoeticNumberLiteralToken_iff tok).mpr (.inr (.inr hw))
  simp only [poeticLoopBody, bind, pure, matchAndConsume, h, hp, bind_run, if_true, Outcome.bind_ok,
    stepped]
  simp only [hh, Bool.false_eq_true, if_false, pure_run, bind_run, Outcome.bind_ok]
  cases rec.poeticLoop { st with toks := ts, last := tok.after } <;> rfl

/-! ### `parse_poetic_number_literal` -/

theorem literal_starting_with_hyphen (rec : Rec N) (st : PState N) (tok : Tok N) (ts : List (Tok N))
    (h : st.toks = tok :: ts) (hh : isHyphen tok = true) :
    parsePoeticNumberLiteral rec st = .err ⟨.poeticLiteralStartingWithHyphen, .token tok⟩ := by
  simp only [parsePoeticNumberLiteral, bind, pure, current, bind_run, Outcome.bind_ok, h,
    List.head?_cons, hh, if_true, failWith_run, errLocOf]

/-- otherwise: the loop, then the emptiness test -/
theorem literal_eq (rec : Rec N) (st : PState N)
    (h : ∀ tok ts, st.toks = tok :: ts → isHyphen tok = false) :
    parsePoeticNumberLiteral rec st =
      (poeticLoopBody rec st).bind fun r =>
        if r.1.isEmpty then .err ⟨.expectedPoeticNumberLiteral, errLocOf r.2⟩ else .ok r := by
  have key : ∀ o : Outcome (ParseErr N) (List PoeticElem × PState N),
      (o.bind fun r => (if r.1.isEmpty = true then failWith PCode.expectedPoeticNumberLiteral
          else P.pure r.1 : P N _) r.2) =
      o.bind fun r =>
        if r.1.isEmpty then .err ⟨.expectedPoeticNumberLiteral, errLocOf r.2⟩ else .ok r := by
    intro o
    cases o with
    | ok r =>
      simp only [Outcome.bind_ok]
      cases he : r.1.isEmpty <;>
        simp only [Bool.false_eq_true, if_false, if_true, pure_run, failWith_run]
    | err e => rfl
    | crash s => rfl
    | fuel => rfl
    | resource => rfl
  cases ht : st.toks with
  | nil =>
    simp only [parsePoeticNumberLiteral, bind, pure, current, bind_run, Outcome.bind_ok, ht,
      List.head?_nil, Bool.false_eq_true, if_false]
    exact key _
  | cons tok ts =>
    simp only [parsePoeticNumberLiteral, bind, pure, current, bind_run, Outcome.bind_ok, ht,
      List.head?_cons, h tok ts ht, Bool.false_eq_true, if_false]
    exact key _

theorem literal_empty (rec : Rec N) (st : PState N)
    (h : st.toks = [] ∨ ∃ tok ts, st.toks = tok :: ts ∧ isPoeticNumberLiteralToken tok = false) :
    parsePoeticNumberLiteral rec st = .err ⟨.expectedPoeticNumberLiteral, errLocOf st⟩ := by
  rw [literal_eq]
  · rcases h with h | ⟨tok, ts, h, hp⟩
    · rw [body_nil rec st h]; rfl
    · rw [body_stop rec st tok ts h hp]; rfl
  · intro tok ts ht
    rcases h with h | ⟨tok', ts', h, hp⟩
    · rw [h] at ht; cases ht
    · rw [h] at ht; cases ht
      cases hh : isHyphen tok with
      | false => rfl
      | true => rw [accepted_of_hyphen hh] at hp; cases hp

end

/-! ### `parse_poetic_number_assignment_rhs` -/

theorem isLiteralWord_iff (k : TK) :
    isLiteralWord k = true ↔
      k = .mysterious ∨ k = .null ∨ k = .number ∨ k = .stringLit ∨ k = .empty ∨ k = .true_ ∨
      k = .false_ := by
  cases k <;> simp [isLiteralWord]

/-- the test that sends the right-hand side to `parse_expression` -/
def nextIsNumber : List (Tok N) → Bool
  | n :: _ => n.kind == .number
  | [] => false

def startsExpression : List (Tok N) → Bool
  | [] => false
  | t :: rest => isLiteralWord t.kind || (isHyphen t && nextIsNumber rest)

theorem isCurrentNegativeNumber_cons (st : PState N) (t : Tok N) (rest : List (Tok N))
    (h : st.toks = t :: rest) :
    isCurrentNegativeNumber st = .ok (isHyphen t && nextIsNumber rest, st) := by
  unfold isCurrentNegativeNumber
  rw [h]
  cases rest <;> rfl

section
variable [CharOps]

theorem rhs_end (rec : Rec N) (st : PState N) (h : st.toks = []) :
    parsePoeticNumberAssignmentRhs rec st = .err ⟨.unexpectedEndOfTokens, .line st.last.line⟩ := by
  simp only [parsePoeticNumberAssignmentRhs, bind, currentOrError, bind_run, h, errLocOf]
  rfl

theorem rhs_expression (rec : Rec N) (st : PState N) (tok : Tok N) (ts : List (Tok N))
    (h : st.toks = tok :: ts) (hs : startsExpression st.toks = true) :
    parsePoeticNumberAssignmentRhs rec st =
      (parseExpression rec st).map (fun r => (.expr r.1, r.2)) := by
  rw [h] at hs
  simp only [startsExpression] at hs
  simp only [parsePoeticNumberAssignmentRhs, bind, pure, currentOrError, bind_run, h,
    Outcome.bind_ok]
  by_cases hl : isLiteralWord tok.kind = true
  · simp only [hl, if_true, pure_run, Outcome.bind_ok, bind_run]
    cases parseExpression rec st <;> rfl
  · have hl' : isLiteralWord tok.kind = false := by simpa using hl
    rw [hl', Bool.false_or] at hs
    simp only [hl', Bool.false_eq_true, if_false, isCurrentNegativeNumber_cons st tok ts h, hs,
      Outcome.bind_ok, if_true, bind_run, pure_run]
    cases parseExpression rec st <;> rfl

theorem rhs_literal (rec : Rec N) (st : PState N) (tok : Tok N) (ts : List (Tok N))
    (h : st.toks = tok :: ts) (hs : startsExpression st.toks = false) :
    parsePoeticNumberAssignmentRhs rec st =
      (parsePoeticNumberLiteral rec st).map (fun r => (.lit r.1, r.2)) := by
  rw [h] at hs
  simp only [startsExpression, Bool.or_eq_false_iff] at hs
  obtain ⟨hl, hn⟩ := hs
  simp only [parsePoeticNumberAssignmentRhs, bind, pure, currentOrError, bind_run, h,
    Outcome.bind_ok, hl, Bool.false_eq_true, if_false, isCurrentNegativeNumber_cons st tok ts h, hn,
    pure_run]
  cases parsePoeticNumberLiteral rec st <;> rfl

end

/-! ### byte-offset slicing -/

theorem dropBytes_ulen_append (p r : Str) : dropBytes (ulen p) (p ++ r) = some r := by
  induction p with
  | nil => cases r <;> rfl
  | cons c cs ih =>
    have hc : 0 < c.utf8Size := Char.utf8Size_pos c
    obtain ⟨m, hm⟩ : ∃ m, ulen (c :: cs) = m + 1 := ⟨c.utf8Size + ulen cs - 1, by simp [ulen]; omega⟩
    have hle : c.utf8Size ≤ m + 1 := by simp [ulen] at hm; omega
    have hsub : m + 1 - c.utf8Size = ulen cs := by simp [ulen] at hm; omega
    rw [hm]
    simp only [List.cons_append, dropBytes, hle, if_true, hsub, ih]

theorem takeBytes_ulen_append (p r : Str) : takeBytes (ulen p) (p ++ r) = some p := by
  induction p with
  | nil => cases r <;> rfl
  | cons c cs ih =>
    have hc : 0 < c.utf8Size := Char.utf8Size_pos c
    obtain ⟨m, hm⟩ : ∃ m, ulen (c :: cs) = m + 1 := ⟨c.utf8Size + ulen cs - 1, by simp [ulen]; omega⟩
    have hle : c.utf8Size ≤ m + 1 := by simp [ulen] at hm; omega
    have hsub : m + 1 - c.utf8Size = ulen cs := by simp [ulen] at hm; omega
    rw [hm]
    simp only [List.cons_append, takeBytes, hle, if_true, hsub, ih, Option.map]

theorem ulen_append (p r : Str) : ulen (p ++ r) = ulen p + ulen r := by
  induction p with
  | nil => simp [ulen]
  | cons c cs ih => simp [ulen, ih, Nat.add_assoc]

/-- the slice of `pre ++ mid ++ post` between the byte offsets where `mid` starts and ends -/
theorem substr_mid (pre mid post : Str) :
    substr (pre ++ mid ++ post) (ulen pre) (ulen pre + ulen mid) = some mid := by
  unfold substr
  simp only [Nat.le_add_right, if_true, List.append_assoc, dropBytes_ulen_append, Option.bind,
    Nat.add_sub_cancel_left, takeBytes_ulen_append]

/-! ### `match_until_next(Newline)` -/

theorem dropUntil_found (k : TK) (eof : Snap) (mid : List (Tok N)) (nl : Tok N) (rest : List (Tok N))
    (last : Snap) (hmid : ∀ t ∈ mid, t.kind ≠ k) (hnl : nl.kind = k) :
    (dropUntil k eof (mid ++ nl :: rest) last).1 = nl :: rest := by
  induction mid generalizing last with
  | nil => simp [dropUntil, hnl]
  | cons t ts ih =>
    have ht : (t.kind == k) = false := by simpa using hmid t (List.mem_cons_self ..)
    simp only [List.cons_append, dropUntil, ht, Bool.false_eq_true, if_false]
    exact ih _ (fun t' ht' => hmid t' (List.mem_cons_of_mem _ ht'))

theorem dropUntil_none (k : TK) (eof : Snap) (toks : List (Tok N)) (last : Snap)
    (h : ∀ t ∈ toks, t.kind ≠ k) : dropUntil k eof toks last = ([], eof) := by
  induction toks generalizing last with
  | nil => rfl
  | cons t ts ih =>
    have ht : (t.kind == k) = false := by simpa using h t (List.mem_cons_self ..)
    simp only [dropUntil, ht, Bool.false_eq_true, if_false]
    exact ih _ (fun t' ht' => h t' (List.mem_cons_of_mem _ ht'))

/-! ### `parse_poetic_string_assignment_rhs` -/

/-- the state `match_until_next(Newline)` leaves -/
def afterLine (st : PState N) : PState N :=
  { st with toks := (dropUntil .newline st.eof st.toks st.last).1,
            last := (dropUntil .newline st.eof st.toks st.last).2 }

/-- byte offset where the captured text ends: the start of the next `Newline` token, or the end
    of the source -/
def lineEnd (st : PState N) : Nat :=
  match (afterLine st).toks with
  | stopTok :: _ => stopTok.start
  | [] => ulen st.src

/-- the text `get_literal_text_between/after` returns is the slice up to `lineEnd` -/
theorem literalTextOf_eq (says : Tok N) (st : PState N) :
    literalTextOf st.src says (afterLine st).toks.head? = substr st.src says.start (lineEnd st) := by
  unfold literalTextOf lineEnd
  cases (afterLine st).toks <;> rfl

/-- `parse_poetic_string_assignment_rhs` in one equation: the literal text from the `says` token
    to the end of the line (`literalTextOf`), minus the spelling of `says`, minus exactly one
    space. -/
theorem stringRhs_eq' (says : Tok N) (st : PState N) :
    parsePoeticStringAssignmentRhs says st =
      match literalTextOf st.src says (afterLine st).toks.head? with
      | none => .crash .parsePoeticText
      | some text =>
        match stripPrefix? says.spelling text with
        | none => .crash .parsePoeticText
        | some afterSays =>
          match stripPrefix? [' '] afterSays with
          | some rhs => .ok (rhs, afterLine st)
          | none => .err ⟨.expectedSpaceAfterSays says, errLocOf (afterLine st)⟩ := by
  simp only [parsePoeticStringAssignmentRhs, bind, pure, matchUntilNext, bind_run, Outcome.bind_ok,
    afterLine, getLiteralText]
  cases literalTextOf st.src says (dropUntil TK.newline st.eof st.toks st.last).1.head? with
  | none => rfl
  | some text =>
    simp only [Outcome.bind_ok]
    cases stripPrefix? says.spelling text with
    | none => rfl
    | some afterSays =>
      simp only [P.ofOption, pure_run, Outcome.bind_ok]
      cases stripPrefix? [' '] afterSays <;> rfl

/-- the same with the slice written out -/
theorem stringRhs_eq (says : Tok N) (st : PState N) :
    parsePoeticStringAssignmentRhs says st =
      match substr st.src says.start (lineEnd st) with
      | none => .crash .parsePoeticText
      | some text =>
        match stripPrefix? says.spelling text with
        | none => .crash .parsePoeticText
        | some afterSays =>
          match stripPrefix? [' '] afterSays with
          | some rhs => .ok (rhs, afterLine st)
          | none => .err ⟨.expectedSpaceAfterSays says, errLocOf (afterLine st)⟩ := by
  rw [stringRhs_eq', literalTextOf_eq]

theorem stripPrefix?_append (d r : Str) : stripPrefix? d (d ++ r) = some r := by
  induction d with
  | nil => cases r <;> rfl
  | cons c cs ih => simp [stripPrefix?, ih]

/-! ### source-shaped statements for poetic strings -/

/-- the line has a `Newline` token: the text between `says␣` and that token is the string -/
theorem stringRhs_line (says nl : Tok N) (st : PState N) (pre T post : Str)
    (mid rest : List (Tok N))
    (hsrc : st.src = pre ++ (says.spelling ++ ' ' :: T) ++ post)
    (hstart : says.start = ulen pre)
    (htoks : st.toks = mid ++ nl :: rest) (hmid : ∀ t ∈ mid, t.kind ≠ .newline)
    (hnl : nl.kind = .newline) (hnlstart : nl.start = ulen pre + ulen (says.spelling ++ ' ' :: T)) :
    parsePoeticStringAssignmentRhs says st = .ok (T, afterLine st) ∧
      (afterLine st).toks = nl :: rest := by
  have htk : (afterLine st).toks = nl :: rest := by
    simp only [afterLine, htoks]; exact dropUntil_found _ _ mid nl rest _ hmid hnl
  refine ⟨?_, htk⟩
  have hend : lineEnd st = ulen pre + ulen (says.spelling ++ ' ' :: T) := by
    simp only [lineEnd, htk, hnlstart]
  rw [stringRhs_eq, hend, hsrc, hstart, substr_mid]
  simp only [stripPrefix?_append]
  simp [stripPrefix?]

/-- the line is the last one and has no `Newline` token: the text up to the end of the source -/
theorem stringRhs_eof (says : Tok N) (st : PState N) (pre T : Str)
    (hsrc : st.src = pre ++ (says.spelling ++ ' ' :: T))
    (hstart : says.start = ulen pre)
    (htoks : ∀ t ∈ st.toks, t.kind ≠ .newline) :
    parsePoeticStringAssignmentRhs says st = .ok (T, afterLine st) ∧ (afterLine st).toks = [] := by
  have htk : (afterLine st).toks = [] := by
    simp only [afterLine, dropUntil_none _ _ _ _ htoks]
  refine ⟨?_, htk⟩
  have hend : lineEnd st = ulen pre + ulen (says.spelling ++ ' ' :: T) := by
    simp only [lineEnd, htk, hsrc, ulen_append]
  have h := substr_mid pre (says.spelling ++ ' ' :: T) []
  rw [List.append_nil] at h
  rw [stringRhs_eq, hend, hsrc, hstart, h]
  simp only [stripPrefix?_append]
  simp [stripPrefix?]

/-- no space directly after `says`: `ExpectedSpaceAfterSays` -/
theorem stringRhs_no_space (says : Tok N) (st : PState N) (pre R post : Str)
    (hsrc : st.src = pre ++ (says.spelling ++ R) ++ post)
    (hstart : says.start = ulen pre)
    (hend : lineEnd st = ulen pre + ulen (says.spelling ++ R))
    (hR : R.head? ≠ some ' ') :
    parsePoeticStringAssignmentRhs says st =
      .err ⟨.expectedSpaceAfterSays says, errLocOf (afterLine st)⟩ := by
  rw [stringRhs_eq, hend, hsrc, hstart, substr_mid]
  simp only [stripPrefix?_append]
  cases R with
  | nil => simp [stripPrefix?]
  | cons c cs =>
    have : ¬ (' ' = c) := fun hc => hR (by rw [← hc]; rfl)
    simp [stripPrefix?, this]

/-! ### `parse_poetic_assignment` -/

section
variable [CharOps]

theorem poeticAssignment_says (rec : Rec N) (i : Ident) (r : Range) (st st1 : PState N)
    (dest : Lhs N) (tok : Tok N) (ts : List (Tok N))
    (hl : parseAssignmentLhsWith rec i r st = .ok (dest, st1)) (ht : st1.toks = tok :: ts)
    (hk : tok.kind = .says ∨ tok.kind = .say) :
    parsePoeticAssignment rec i r st =
      (parsePoeticStringAssignmentRhs tok (stepped st1 tok ts)).map
        (fun q => (.poeticStr dest q.1, q.2)) := by
  have hany : isAnyKind [TK.is, .apostropheS, .apostropheRE, .says, .say] tok = true := by
    rcases hk with hk | hk <;> simp [isAnyKind, hk]
  have hc : (tok.kind == TK.says || tok.kind == TK.say) = true := by
    rcases hk with hk | hk <;> simp [hk]
  simp only [parsePoeticAssignment, bind, pure, bind_run, hl, Outcome.bind_ok, expectAny,
    matchAndConsume, ht, hany, if_true, pure_run, hc, stepped]
  cases parsePoeticStringAssignmentRhs tok { st1 with toks := ts, last := tok.after } <;> rfl

theorem poeticAssignment_is (rec : Rec N) (i : Ident) (r : Range) (st st1 : PState N)
    (dest : Lhs N) (tok : Tok N) (ts : List (Tok N))
    (hl : parseAssignmentLhsWith rec i r st = .ok (dest, st1)) (ht : st1.toks = tok :: ts)
    (hk : tok.kind = .is ∨ tok.kind = .apostropheS ∨ tok.kind = .apostropheRE) :
    parsePoeticAssignment rec i r st =
      (parsePoeticNumberAssignmentRhs rec (stepped st1 tok ts)).map
        (fun q => (.poeticNum dest q.1, q.2)) := by
  have hany : isAnyKind [TK.is, .apostropheS, .apostropheRE, .says, .say] tok = true := by
    rcases hk with hk | hk | hk <;> simp [isAnyKind, hk]
  have hc : (tok.kind == TK.says || tok.kind == TK.say) = false := by
    rcases hk with hk | hk | hk <;> simp [hk]
  simp only [parsePoeticAssignment, bind, pure, bind_run, hl, Outcome.bind_ok, expectAny,
    matchAndConsume, ht, hany, if_true, pure_run, hc, stepped, Bool.false_eq_true, if_false]
  cases parsePoeticNumberAssignmentRhs rec { st1 with toks := ts, last := tok.after } <;> rfl

end

/-! ### the whole loop, with the knot tied (`parser n`) -/

open Spec.PoeticTokens (Reading read isHyphenTok)

/-- the parser outcome `o`, reached from state `st`, is what the reading `r` prescribes -/
def Agrees (st : PState N) (o : Outcome (ParseErr N) (List PoeticElem × PState N)) :
    Reading N → Prop
  | .done es rest =>
    ∃ st', o = .ok (es, st') ∧ st'.toks = rest ∧ st'.src = st.src ∧ st'.eof = st.eof ∧
      st'.parsingList = st.parsingList
  | .endsWithHyphen => o = .err ⟨.poeticLiteralEndingWithHyphen, .line st.eof.line⟩
  | .unexpected t => o = .err ⟨.unexpectedToken, .token t⟩

theorem Agrees.transport {st st1 : PState N} (hsrc : st1.src = st.src) (heof : st1.eof = st.eof)
    (hpl : st1.parsingList = st.parsingList)
    {o : Outcome (ParseErr N) (List PoeticElem × PState N)} {r : Reading N} (h : Agrees st1 o r) :
    Agrees st o r := by
  cases r with
  | done es rest =>
    obtain ⟨st', h1, h2, h3, h4, h5⟩ := h
    exact ⟨st', h1, h2, h3.trans hsrc, h4.trans heof, h5.trans hpl⟩
  | endsWithHyphen => simpa [Agrees, heof] using h
  | unexpected t => exact h

theorem Agrees.cons {st : PState N} {o : Outcome (ParseErr N) (List PoeticElem × PState N)}
    {r : Reading N} (e : PoeticElem) (h : Agrees st o r) :
    Agrees st (o.map (fun q => (e :: q.1, q.2))) (r.cons e) := by
  cases r with
  | done es rest =>
    obtain ⟨st', h1, h2⟩ := h
    exact ⟨st', by rw [h1]; rfl, h2⟩
  | endsWithHyphen => simp only [Agrees] at h; rw [h]; rfl
  | unexpected t => simp only [Agrees] at h; rw [h]; rfl

section
variable [CharOps]

theorem loop_agrees (n : Nat) :
    ∀ st : PState N, st.toks.length ≤ n →
      Agrees st (poeticLoopBody (parser n) st) (read st.toks) := by
  induction n with
  | zero =>
    intro st hlen
    have ht : st.toks = [] := List.eq_nil_of_length_eq_zero (by omega)
    rw [body_nil _ st ht, ht]
    exact ⟨st, rfl, ht, rfl, rfl, rfl⟩
  | succ n ih =>
    intro st hlen
    cases ht : st.toks with
    | nil =>
      rw [body_nil _ st ht]
      exact ⟨st, rfl, ht, rfl, rfl, rfl⟩
    | cons t ts =>
      have hrec : (parser (N := N) (n + 1)).poeticLoop = poeticLoopBody (parser n) := rfl
      have hts : ts.length ≤ n := by rw [ht] at hlen; simpa using hlen
      have ih1 := ih (stepped st t ts) hts
      have tr : ∀ {o r}, Agrees (stepped st t ts) o r → Agrees st o r :=
        fun h => Agrees.transport rfl rfl rfl h
      rw [Spec.PoeticTokens.read.eq_def]
      simp only []
      by_cases hcomma : t.kind = .comma
      · simp only [hcomma, if_true]
        rw [body_comma _ st t ts ht hcomma, hrec]
        exact tr ih1
      by_cases hdot : t.kind = .dot
      · simp only [hdot, if_true, if_false, reduceCtorEq]
        rw [body_dot _ st t ts ht hdot, hrec]
        exact tr (ih1.cons _)
      by_cases hs : t.kind = .apostropheS
      · simp only [hs, if_true, if_false, reduceCtorEq, true_or]
        rw [body_apostropheS _ st t ts ht hs, hrec]
        exact tr (ih1.cons _)
      by_cases hre : t.kind = .apostropheRE
      · simp only [hre, if_true, if_false, reduceCtorEq, or_true]
        rw [body_apostropheRE _ st t ts ht hre, hrec]
        exact tr (ih1.cons _)
      simp only [hcomma, hdot, hs, hre, if_false, or_self]
      have hhy : isHyphenTok t = isHyphen t := rfl
      rw [hhy]
      cases hh : isHyphen t with
      | true =>
        simp only [if_true]
        cases ts with
        | nil =>
          simp only []
          rw [body_hyphen_end _ st t ht hh]
          rfl
        | cons nx ts' =>
          simp only []
          cases hw : isWord nx.spelling with
          | true =>
            simp only [if_true]
            rw [body_hyphen_word _ st t nx ts' ht hh hw, hrec]
            have hts' : ts'.length ≤ n := by simp at hts; omega
            have ih2 := ih (stepped st nx ts') hts'
            exact Agrees.transport (st1 := stepped st nx ts') rfl rfl rfl (ih2.cons _)
          | false =>
            simp only [Bool.false_eq_true, if_false]
            rw [body_hyphen_other _ st t nx ts' ht hh hw]
            rfl
      | false =>
        simp only [Bool.false_eq_true, if_false]
        cases hw : isWord t.spelling with
        | true =>
          simp only [if_true]
          rw [body_word _ st t ts ht hdot hcomma hs hre hh hw, hrec]
          exact tr (ih1.cons _)
        | false =>
          simp only [Bool.false_eq_true, if_false]
          have hp : isPoeticNumberLiteralToken t = false := by
            cases hp : isPoeticNumberLiteralToken t with
            | false => rfl
            | true =>
              rcases (isPoeticNumberLiteralToken_iff t).mp hp with h | h | h
              · rcases h with h | h | h | h <;> contradiction
              · rw [(isHyphen_iff t).mpr h] at hh; cases hh
              · rw [h] at hw; cases hw
          rw [body_stop _ st t ts ht hp]
          exact ⟨st, rfl, ht, rfl, rfl, rfl⟩

/-- what `parse_poetic_number_literal` must answer, given the reading of the tokens -/
def LiteralAgrees (st : PState N) (o : Outcome (ParseErr N) (List PoeticElem × PState N)) :
    Reading N → Prop
  | .done [] rest =>
    ∃ st', o = .err ⟨.expectedPoeticNumberLiteral, errLocOf st'⟩ ∧ st'.toks = rest ∧
      st'.eof = st.eof
  | .done (e :: es) rest =>
    ∃ st', o = .ok (e :: es, st') ∧ st'.toks = rest ∧ st'.src = st.src ∧ st'.eof = st.eof ∧
      st'.parsingList = st.parsingList
  | .endsWithHyphen => o = .err ⟨.poeticLiteralEndingWithHyphen, .line st.eof.line⟩
  | .unexpected t => o = .err ⟨.unexpectedToken, .token t⟩

theorem literal_agrees (n : Nat) (st : PState N) (hlen : st.toks.length ≤ n)
    (h : ∀ tok ts, st.toks = tok :: ts → isHyphen tok = false) :
    LiteralAgrees st (parsePoeticNumberLiteral (parser n) st) (read st.toks) := by
  rw [literal_eq _ st h]
  have ha := loop_agrees n st hlen
  cases hr : read st.toks with
  | done es rest =>
    rw [hr] at ha
    obtain ⟨st', h1, h2, h3, h4, h5⟩ := ha
    rw [h1]
    cases es with
    | nil => exact ⟨st', rfl, h2, h4⟩
    | cons e es => exact ⟨st', rfl, h2, h3, h4, h5⟩
  | endsWithHyphen => rw [hr] at ha; simp only [Agrees] at ha; rw [ha]; rfl
  | unexpected t => rw [hr] at ha; simp only [Agrees] at ha; rw [ha]; rfl

end

end PoeticParse
end Rrss
