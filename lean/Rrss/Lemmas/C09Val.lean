/-
  Rrss.Lemmas.C09Val — value-level facts for C09 (crash freedom): no operation of the value
  algebra returns `Outcome.crash`, and `Poetic.computeValue` always answers `ok`.
-/
import Rrss.Val
import Rrss.Poetic
set_option linter.unusedSectionVars false
namespace Rrss

/-- the outcome is not a crash -/
def Outcome.NoCrash {ε α : Type} (r : Outcome ε α) : Prop := ∀ s, r ≠ .crash s

namespace Outcome
variable {ε α β : Type}

@[simp] theorem noCrash_ok (a : α) : (Outcome.ok a : Outcome ε α).NoCrash := fun _ h => by cases h
@[simp] theorem noCrash_err (e : ε) : (Outcome.err e : Outcome ε α).NoCrash := fun _ h => by cases h
@[simp] theorem noCrash_fuel : (Outcome.fuel : Outcome ε α).NoCrash := fun _ h => by cases h
@[simp] theorem noCrash_resource : (Outcome.resource : Outcome ε α).NoCrash := fun _ h => by cases h
@[simp] theorem noCrash_crash (s : Site) : ¬ (Outcome.crash s : Outcome ε α).NoCrash := fun h => h s rfl

theorem NoCrash.bind {x : Outcome ε α} {f : α → Outcome ε β} (hx : x.NoCrash)
    (hf : ∀ a, (f a).NoCrash) : (x.bind f).NoCrash := by
  cases x <;> simp_all [Outcome.bind]

theorem NoCrash.map {x : Outcome ε α} (f : α → β) (hx : x.NoCrash) : (x.map f).NoCrash :=
  hx.bind (fun _ => noCrash_ok _)

end Outcome

namespace Val
variable {N : Type} [NumOps N]
open NumOps Outcome

theorem toOutput_noCrash (v : Val N) : v.toOutput.NoCrash := by
  rw [toOutput_eq]; exact noCrash_ok _

/-- `decay` never yields an array (why the `unreachable!()` of `to_string_for_output` is dead) -/
theorem decay_not_arr (v : Val N) : v.decay.isArr = false := by
  cases v <;> rfl

/-- `array_coerce` always yields an array (why the `unreachable_unchecked` of `push` is dead) -/
theorem arrayCoerce_arr (v : Val N) : ∃ s d, arrayCoerce v = arr s d := by
  cases v <;> simp [arrayCoerce, emptyArr]

theorem push_ok (v : Val N) (vals : List (Val N)) : ∃ r, push v vals = .ok r := by
  obtain ⟨s, d, h⟩ := arrayCoerce_arr v
  exact ⟨arr (s ++ vals) d, by simp [push, h]⟩

theorem push_noCrash (v : Val N) (vals : List (Val N)) : (push v vals).NoCrash := by
  obtain ⟨r, h⟩ := push_ok v vals
  rw [h]; exact noCrash_ok _

theorem pop_noCrash (v : Val N) : (pop v).NoCrash := by
  unfold pop; split <;> simp

theorem plus_noCrash (cap : Nat) (a b : Val N) : (plus cap a b).NoCrash := by
  unfold plus; split
  · split <;> simp
  · simp
  · simp

theorem multiply_noCrash (cap : Nat) (a b : Val N) : (multiply cap a b).NoCrash := by
  unfold multiply; split
  · simp
  · split
    · dsimp only; split <;> split <;> simp
    · simp
  · simp

theorem compare_noCrash (a b : Val N) : (compare a b).NoCrash := by
  unfold compare; split
  · simp
  · split <;> simp

theorem negate_noCrash (v : Val N) : (negate v).NoCrash := by
  unfold negate; split <;> simp

theorem inc_noCrash (v : Val N) (x : Int) : (inc v x).NoCrash := by
  unfold inc; split <;> simp

theorem roundUp_noCrash (v : Val N) : (roundUp v).NoCrash := by
  unfold roundUp; split <;> simp
theorem roundDown_noCrash (v : Val N) : (roundDown v).NoCrash := by
  unfold roundDown; split <;> simp
theorem roundNearest_noCrash (v : Val N) : (roundNearest v).NoCrash := by
  unfold roundNearest; split <;> simp

theorem index_noCrash (v k : Val N) : (index v k).NoCrash := by
  unfold index; split
  · split <;> simp
  · split
    · simp
    · simp
    · split <;> simp
  · simp

theorem split_noCrash (v : Val N) (d : Option (Val N)) : (split v d).NoCrash := by
  unfold split; split
  · split <;> split <;> simp
  · simp

theorem join_noCrash (v : Val N) (d : Option (Val N)) : (join v d).NoCrash := by
  unfold join; split
  · split
    · split <;> simp
    · dsimp only
      split
      · split <;> simp
      · simp
      · split <;> simp
  · simp

theorem cast_noCrash (v : Val N) (p : Option (Val N)) : (cast v p).NoCrash := by
  unfold cast; split
  · split
    · simp
    · split
      · simp
      · split
        · simp
        · split <;> simp
  · split
    · split
      · simp
      · split
        · simp
        · split
          · simp
          · split <;> simp
    · simp
    · split <;> simp
  · simp

/-! ### `updateAt` -/

/-- after auto-extension the cell at index `i` exists: the `get_mut(i).unchecked_unwrap()` of
    `index_arr_or_insert` is safe -/
theorem extended_get (seq : List (Val N)) (i : Nat) :
    (if i ≥ seq.length then extendTo seq (i + 1) else seq)[i]? ≠ none := by
  split
  · simp [extendTo]; omega
  · simp; omega

/-- `updateAt` crashes only if the closure does -/
theorem updateAt_noCrash {β : Type} (cap : Nat) (f : Val N → VRes N (Val N × β))
    (hf : ∀ v, (f v).NoCrash) : ∀ (keys : List (Val N)) (v : Val N),
    (updateAt cap f keys v).2.NoCrash := by
  intro keys
  induction keys with
  | nil =>
    intro v; unfold updateAt
    have := hf v
    split <;> simp_all
  | cons k ks ih =>
    intro v; unfold updateAt; dsimp only
    split
    · split
      · split
        · simp
        · split
          · simp
          · split
            · rename_i h; exact absurd h (extended_get _ _)
            · exact ih _
      · simp
      · split
        · exact ih _
        · simp
    · simp
    · simp

/-- whatever holds of every extra result the closure can return holds of the one `updateAt`
    returns -/
theorem updateAt_ok_post {β : Type} (cap : Nat) (f : Val N → VRes N (Val N × β)) (P : β → Prop)
    (hf : ∀ v v' b, f v = .ok (v', b) → P b) : ∀ (keys : List (Val N)) (v : Val N) (b : β),
    (updateAt cap f keys v).2 = .ok b → P b := by
  intro keys
  induction keys with
  | nil =>
    intro v b; unfold updateAt
    split <;> simp_all
    rename_i h; intro hb; subst hb; exact hf _ _ _ h
  | cons k ks ih =>
    intro v b; unfold updateAt; dsimp only
    split
    · split
      · split
        · simp
        · split
          · simp
          · split
            · simp
            · exact ih _ _
      · simp
      · split
        · exact ih _ _
        · simp
    · simp
    · simp

end Val

namespace Poetic
variable {N : Type} [NumOps N]

/-- `compute_value` always answers `ok` (the repaired iterator has no `unreachable!()`) -/
theorem computeValue_ok (elems : List PoeticElem) :
    ∃ n : N, (computeValue elems : Outcome Unit N) = .ok n := ⟨_, rfl⟩

end Poetic
end Rrss
