/-
  Rrss.Lemmas.RockRoll — the rock / roll statements of `Interp.execStmt` unfolded (C06).
-/
import Rrss.Lemmas.Mutation
namespace Rrss
namespace Interp
variable [CharOps] {N : Type} [NumOps N]
open Env

/-- the closure `visit_array_pop_expr` hands to `WriteVal` -/
def popW : Writer N := fun v => (Val.pop v).bind fun (x, rest) => .ok (rest, some x)

omit [CharOps] [NumOps N] in
theorem evalPop_eq (rec : Rec N) (arr : Primary N) :
    evalPop rec arr =
      (rec.writePrimary popW arr >>= fun out =>
        match out.res with
        | .error e => M.fail e
        | .ok () =>
          match out.back with
          | some v => pure v
          | none => M.crash .producePopUnwrap) := rfl

theorem execStmt_push_list_eq (rec : Rec N) (arr : Primary N) (l : ExprList N) (st : ExecSt N) :
    execStmt rec (.push arr (some (.list l))) st =
      (tick >>= fun _ => evalArgs rec l.toList >>= fun vals =>
        fatal (rec.writePrimary (liftW fun v => Val.push v vals) arr) >>= fun _ => pure st) := by
  unfold execStmt
  rfl

theorem execStmt_push_none_eq (rec : Rec N) (arr : Primary N) (st : ExecSt N) :
    execStmt rec (.push arr none) st =
      (tick >>= fun _ =>
        fatal (rec.writePrimary (liftW fun v => Val.push v []) arr) >>= fun _ => pure st) := by
  unfold execStmt
  rfl

theorem execStmt_pop_eq (rec : Rec N) (arr : Primary N) (dest : Option (Lhs N)) (st : ExecSt N) :
    execStmt rec (.pop arr dest) st =
      (tick >>= fun _ => evalPop rec arr >>= fun back =>
        match dest with
        | some d => fatal (writeLhs rec (assignW back) d) >>= fun _ => pure st
        | none => pure st) := by
  unfold execStmt
  cases dest <;> rfl

omit [CharOps] in
theorem updateAt_popW_cons (cap : Nat) (x : Val N) (xs : List (Val N)) (d : List (Key × Val N)) :
    Val.updateAt cap popW [] (.arr (x :: xs) d) = (.arr xs d, .ok (some x)) := rfl

omit [CharOps] in
theorem updateAt_popW_nil (cap : Nat) (d : List (Key × Val N)) :
    Val.updateAt cap popW [] (.arr [] d : Val N) = (.arr [] d, .ok (some .undef)) := rfl

end Interp
end Rrss
