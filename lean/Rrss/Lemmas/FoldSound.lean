/-
  Rrss.Lemmas.FoldSound — helper lemmas for C17 (constant folders vs. interpreter).
-/
import Rrss.Fold
import Rrss.Interp
import Rrss.Spec.ConstExpr
namespace Rrss
namespace FoldSound
open Interp NumOps

section
variable {N : Type}

/-- What evaluating a constant of depth `d` with fuel `n` must give: the value when the fuel
    suffices, `fuel` otherwise; the environment is returned as it was. -/
def expected (d n : Nat) (v : Val N) (env : Env N) : Outcome (RtErr N) (Val N) × Env N :=
  (if d ≤ n then .ok v else .fuel, env)

theorem bind_apply {α β : Type} (x : M N α) (f : α → M N β) (env : Env N) :
    (x >>= f) env = M.bind x f env := rfl

theorem expected_of_le {d n : Nat} (h : d ≤ n) (v : Val N) (env : Env N) :
    expected d n v env = (.ok v, env) := by simp [expected, h]

theorem expected_of_lt {d n : Nat} (h : n < d) (v : Val N) (env : Env N) :
    expected d n v env = (.fuel, env) := by
  have : ¬ d ≤ n := by omega
  simp [expected, this]

theorem expected_cases (d n : Nat) (v : Val N) (env : Env N) :
    expected d n v env = (.fuel, env) ∨ expected d n v env = (.ok v, env) := by
  by_cases h : d ≤ n <;> simp [expected, h]
/-- an expression the string folder accepts is a string literal -/
theorem strExpr_ok_iff (e : Expr N) (s : Str) :
    Fold.strExpr e = .ok s ↔ ∃ r, e = .prim (.lit (.str s) r) := by
  constructor
  · intro h
    match e, h with
    | .prim (.lit (.str t) r), h =>
      simp only [Fold.strExpr, Except.ok.injEq] at h
      subst h
      exact ⟨r, rfl⟩
    | .prim (.lit .mysterious _), h => simp [Fold.strExpr] at h
    | .prim (.lit (.bool _) _), h => simp [Fold.strExpr] at h
    | .prim (.lit .null _), h => simp [Fold.strExpr] at h
    | .prim (.lit (.num _) _), h => simp [Fold.strExpr] at h
    | .prim (.ident _ _), h => simp [Fold.strExpr] at h
    | .prim (.sub _ _), h => simp [Fold.strExpr] at h
    | .prim (.call _ _ _), h => simp [Fold.strExpr] at h
    | .prim (.pop _), h => simp [Fold.strExpr] at h
    | .bin _ _ _ _, h => simp [Fold.strExpr] at h
    | .un _ _, h => simp [Fold.strExpr] at h
  · rintro ⟨r, rfl⟩
    rfl

theorem strExpr_error_of_reads {e : Expr N} (h : Reads e) : ∃ err, Fold.strExpr e = .error err := by
  cases h with
  | prim hp => cases hp <;> exact ⟨_, by rw [Fold.strExpr]⟩
  | un _ => exact ⟨_, by rw [Fold.strExpr]⟩
  | binLhs _ => exact ⟨_, by rw [Fold.strExpr]⟩
  | binFirst _ => exact ⟨_, by rw [Fold.strExpr]⟩
  | binRest _ _ => exact ⟨_, by rw [Fold.strExpr]⟩

theorem strList_single (l : ExprList N) (h : l.rest = []) : Fold.strList l = Fold.strExpr l.first := by
  simp [Fold.strList, h]

theorem strList_many (l : ExprList N) (h : l.rest ≠ []) : Fold.strList l = .error .needMoreInfo := by
  simp [Fold.strList, h]

theorem strList_ok_iff (l : ExprList N) (s : Str) :
    Fold.strList l = .ok s ↔ l.rest = [] ∧ Fold.strExpr l.first = .ok s := by
  by_cases h : l.rest = [] <;> simp [Fold.strList, h]

end

section
variable {N : Type} [NumOps N]

theorem applyOp_ok {op : BinOp} {f : N → N → N} (h : Fold.arith? op = some f) (a y : N)
    (b : M N (Val N)) (env : Env N) (hb : b env = (.ok (.num y), env)) :
    applyOp op (.num a) b env = (.ok (.num (f a y)), env) := by
  cases op <;> simp [Fold.arith?] at h <;> subst h <;>
    simp [applyOp, bind_apply, M.bind, hb, M.get, M.liftV, Val.plus, Val.plusCoerced, Val.multiply,
      Val.arithCoerced, Val.subtract, Val.divide, pure, M.pure]

theorem applyOp_fuel {op : BinOp} {f : N → N → N} (h : Fold.arith? op = some f) (a : N)
    (b : M N (Val N)) (env : Env N) (hb : b env = (.fuel, env)) :
    applyOp op (.num a) b env = (.fuel, env) := by
  cases op <;> simp [Fold.arith?] at h <;>
    simp [applyOp, bind_apply, M.bind, hb]

/-- one step of `foldOp` over a constant operand -/
theorem foldOp_cons_expected {op : BinOp} {f : N → N → N} (hop : Fold.arith? op = some f)
    (rec : Rec N) (a b x : N) (e : Expr N) (es : List (Expr N)) (d d' n : Nat) (env : Env N)
    (he : rec.evalExpr e env = expected d n (.num b) env)
    (hes : foldOp rec op (.num (f a b)) es env = expected d' n (.num x) env) :
    foldOp rec op (.num a) (e :: es) env = expected (max d d') n (.num x) env := by
  show M.bind (applyOp op (.num a) (rec.evalExpr e)) (fun a' => foldOp rec op a' es) env = _
  by_cases h : d ≤ n
  · rw [expected_of_le h] at he
    simp only [M.bind, applyOp_ok hop a b _ env he, hes]
    by_cases h' : d' ≤ n
    · rw [expected_of_le h', expected_of_le (by omega)]
    · rw [expected_of_lt (by omega), expected_of_lt (by omega)]
  · rw [expected_of_lt (by omega)] at he
    simp only [M.bind, applyOp_fuel hop a _ env he]
    rw [expected_of_lt (by omega)]
end

section
variable [CharOps] {N : Type} [NumOps N]

mutual
/-- exact behaviour of the interpreter on a primary that folds to a number -/
theorem numPrimary_exact : (p : Primary N) → (x : N) → Fold.numPrimary p = .ok x →
    ∀ (n : Nat) (env : Env N), (interp n).evalPrimary p env = expected p.depth n (.num x) env
  | .lit (.num y) r, x, h, n, env => by
    simp only [Fold.numPrimary, Except.ok.injEq] at h
    subst h
    cases n with
    | zero => rfl
    | succ n => rfl
  | .lit .mysterious _, _, h, _, _ => by simp [Fold.numPrimary] at h
  | .lit (.bool _) _, _, h, _, _ => by simp [Fold.numPrimary] at h
  | .lit .null _, _, h, _, _ => by simp [Fold.numPrimary] at h
  | .lit (.str _) _, _, h, _, _ => by simp [Fold.numPrimary] at h
  | .ident _ _, _, h, _, _ => by simp [Fold.numPrimary] at h
  | .sub _ _, _, h, _, _ => by simp [Fold.numPrimary] at h
  | .call _ _ _, _, h, _, _ => by simp [Fold.numPrimary] at h
  | .pop _, _, h, _, _ => by simp [Fold.numPrimary] at h
/-- exact behaviour of the interpreter on an expression that folds to a number -/
theorem numExpr_exact : (e : Expr N) → (x : N) → Fold.numExpr e = .ok x →
    ∀ (n : Nat) (env : Env N), (interp n).evalExpr e env = expected e.depth n (.num x) env
  | .prim p, x, h, n, env => by
    rw [Fold.numExpr] at h
    cases n with
    | zero => rfl
    | succ n =>
      show (interp n).evalPrimary p env = _
      rw [numPrimary_exact p x h n env]
      simp [expected, Expr.depth]
  | .bin op lhs first rest, x, h, n, env => by
    rw [Fold.numExpr] at h
    split at h
    · cases h
    rename_i l hl
    split at h
    · cases h
    rename_i f hf
    split at h
    · cases h
    rename_i b hb
    cases n with
    | zero => rfl
    | succ n =>
      have ih1 := numExpr_exact lhs l hl n env
      have ih2 := numExpr_exact first b hb n env
      have ih3 := numFold_exact op f hf rest (f l b) x h n env
      have h23 := foldOp_cons_expected hf (interp n) l b x first rest _ _ n env ih2 ih3
      show M.bind ((interp n).evalExpr lhs) (fun l => foldOp (interp n) op l (first :: rest)) env = _
      simp only [M.bind, Expr.depth]
      by_cases h1 : lhs.depth ≤ n
      · rw [ih1, expected_of_le h1]
        simp only [h23]
        by_cases h2 : max first.depth (depthList rest) ≤ n
        · rw [expected_of_le h2, expected_of_le (by omega)]
        · rw [expected_of_lt (by omega), expected_of_lt (by omega)]
      · rw [ih1, expected_of_lt (by omega), expected_of_lt (by omega)]
  | .un op e, x, h, n, env => by
    rw [Fold.numExpr] at h
    split at h
    · cases h
    rename_i y hy
    cases op with
    | not => cases h
    | minus =>
      simp only [Except.ok.injEq] at h
      subst h
      cases n with
      | zero => rfl
      | succ n =>
        have ih := numExpr_exact e y hy n env
        show M.bind ((interp n).evalExpr e) (fun v => M.liftV (Val.negate v)) env = _
        simp only [M.bind, Expr.depth]
        by_cases h1 : e.depth ≤ n
        · rw [ih, expected_of_le h1, expected_of_le (by omega)]
          rfl
        · rw [ih, expected_of_lt (by omega), expected_of_lt (by omega)]
/-- exact behaviour of `foldOp` on a list operand that folds -/
theorem numFold_exact (op : BinOp) (f : N → N → N) (hop : Fold.arith? op = some f) :
    (es : List (Expr N)) → (a x : N) → Fold.numFold f a es = .ok x →
    ∀ (n : Nat) (env : Env N),
      foldOp (interp n) op (.num a) es env = expected (depthList es) n (.num x) env
  | [], a, x, h, n, env => by
    simp only [Fold.numFold, Except.ok.injEq] at h
    subst h
    simp [foldOp, expected, depthList, pure, M.pure]
  | e :: es, a, x, h, n, env => by
    rw [Fold.numFold] at h
    split at h
    · cases h
    rename_i b hb
    have ih1 := numExpr_exact e b hb n env
    have ih2 := numFold_exact op f hop es (f a b) x h n env
    rw [depthList]
    exact foldOp_cons_expected hop (interp n) a b x e es _ _ n env ih1 ih2
end


/-- exact behaviour of the interpreter on an expression that folds to a string -/
theorem strExpr_exact (e : Expr N) (s : Str) (h : Fold.strExpr e = .ok s) (n : Nat) (env : Env N) :
    (interp n).evalExpr e env = expected e.depth n (.str s) env := by
  obtain ⟨r, rfl⟩ := (strExpr_ok_iff e s).mp h
  match n with
  | 0 => rfl
  | 1 => rfl
  | n + 2 => rfl

end

section
variable {N : Type} [NumOps N]

/-! ### completeness -/

theorem numFold_ok_of_all (f : N → N → N) :
    (es : List (Expr N)) → (∀ e, e ∈ es → ∃ x, Fold.numExpr e = .ok x) →
    ∀ a, ∃ x, Fold.numFold f a es = .ok x
  | [], _, a => ⟨a, by rw [Fold.numFold]⟩
  | e :: es, h, a => by
    obtain ⟨b, hb⟩ := h e (by simp)
    obtain ⟨x, hx⟩ := numFold_ok_of_all f es (fun e' he' => h e' (by simp [he'])) (f a b)
    exact ⟨x, by rw [Fold.numFold, hb]; exact hx⟩

theorem arith?_of_isArith {op : BinOp} (h : op.isArith = true) :
    ∃ f : N → N → N, Fold.arith? op = some f := by
  cases op <;> simp [BinOp.isArith] at h <;> exact ⟨_, rfl⟩

theorem arith?_isSome_iff (op : BinOp) :
    (∃ f : N → N → N, Fold.arith? op = some f) ↔ op.isArith = true := by
  cases op <;> simp [BinOp.isArith, Fold.arith?]

theorem numExpr_of_const {e : Expr N} (h : Const e) : ∃ x, Fold.numExpr e = .ok x := by
  induction h with
  | lit x r => exact ⟨x, by rw [Fold.numExpr, Fold.numPrimary]⟩
  | neg _ ih =>
    obtain ⟨y, hy⟩ := ih
    exact ⟨neg y, by rw [Fold.numExpr, hy]⟩
  | @bin op l first rest hop _ _ _ ihl ihf ihr =>
    obtain ⟨a, ha⟩ := ihl
    obtain ⟨b, hb⟩ := ihf
    obtain ⟨f, hf⟩ := arith?_of_isArith (N := N) hop
    obtain ⟨x, hx⟩ := numFold_ok_of_all f rest ihr (f a b)
    exact ⟨x, by rw [Fold.numExpr, ha, hf, hb]; exact hx⟩

/-! ### no false constants -/

theorem numFold_error_of_mem (f : N → N → N) :
    (es : List (Expr N)) → (e : Expr N) → e ∈ es → (∃ err, Fold.numExpr e = .error err) →
    ∀ a, ∃ err, Fold.numFold f a es = .error err
  | [], _, hm, _, _ => by simp at hm
  | e' :: es, e, hm, he, a => by
    rw [Fold.numFold]
    cases hb : Fold.numExpr e' with
    | error err => exact ⟨err, rfl⟩
    | ok b =>
      rcases List.mem_cons.mp hm with rfl | hm'
      · obtain ⟨err, herr⟩ := he
        rw [hb] at herr
        cases herr
      · exact numFold_error_of_mem f es e hm' he (f a b)

theorem numPrimary_error_of_reads {p : Primary N} (h : p.Reads) :
    Fold.numPrimary p = .error .unknownValue := by
  cases h <;> rw [Fold.numPrimary]

theorem numExpr_error_of_reads {e : Expr N} (h : Reads e) : ∃ err, Fold.numExpr e = .error err := by
  induction h with
  | prim hp => exact ⟨_, by rw [Fold.numExpr]; exact numPrimary_error_of_reads hp⟩
  | @un op e _ ih =>
    obtain ⟨err, herr⟩ := ih
    exact ⟨err, by rw [Fold.numExpr, herr]⟩
  | @binLhs op l first rest _ ih =>
    obtain ⟨err, herr⟩ := ih
    exact ⟨err, by rw [Fold.numExpr, herr]⟩
  | @binFirst op l first rest _ ih =>
    obtain ⟨err, herr⟩ := ih
    rw [Fold.numExpr]
    cases Fold.numExpr l with
    | error e1 => exact ⟨e1, rfl⟩
    | ok a =>
      cases (Fold.arith? op : Option (N → N → N)) with
      | none => exact ⟨_, rfl⟩
      | some f => exact ⟨err, by simp only [herr]⟩
  | @binRest op l first e rest hm _ ih =>
    rw [Fold.numExpr]
    cases Fold.numExpr l with
    | error e1 => exact ⟨e1, rfl⟩
    | ok a =>
      cases (Fold.arith? op : Option (N → N → N)) with
      | none => exact ⟨_, rfl⟩
      | some f =>
        cases Fold.numExpr first with
        | error e2 => exact ⟨e2, rfl⟩
        | ok b => exact numFold_error_of_mem f rest e hm ih (f a b)

/-! ### the converse of completeness: what the numeric folder accepts is `Const` -/

mutual
theorem const_of_numExpr : (e : Expr N) → (x : N) → Fold.numExpr e = .ok x → Const e
  | .prim (.lit (.num y) r), _, _ => .lit y r
  | .prim (.lit .mysterious _), _, h => by simp [Fold.numExpr, Fold.numPrimary] at h
  | .prim (.lit (.bool _) _), _, h => by simp [Fold.numExpr, Fold.numPrimary] at h
  | .prim (.lit .null _), _, h => by simp [Fold.numExpr, Fold.numPrimary] at h
  | .prim (.lit (.str _) _), _, h => by simp [Fold.numExpr, Fold.numPrimary] at h
  | .prim (.ident _ _), _, h => by simp [Fold.numExpr, Fold.numPrimary] at h
  | .prim (.sub _ _), _, h => by simp [Fold.numExpr, Fold.numPrimary] at h
  | .prim (.call _ _ _), _, h => by simp [Fold.numExpr, Fold.numPrimary] at h
  | .prim (.pop _), _, h => by simp [Fold.numExpr, Fold.numPrimary] at h
  | .un op e, x, h => by
    rw [Fold.numExpr] at h
    split at h
    · cases h
    rename_i y hy
    cases op with
    | not => cases h
    | minus => exact .neg (const_of_numExpr e y hy)
  | .bin op lhs first rest, x, h => by
    rw [Fold.numExpr] at h
    split at h
    · cases h
    rename_i l hl
    split at h
    · cases h
    rename_i f hf
    split at h
    · cases h
    rename_i b hb
    exact .bin ((arith?_isSome_iff op).mp ⟨f, hf⟩) (const_of_numExpr lhs l hl)
      (const_of_numExpr first b hb) (const_of_numFold f rest (f l b) x h)
theorem const_of_numFold (f : N → N → N) : (es : List (Expr N)) → (a x : N) →
    Fold.numFold f a es = .ok x → ∀ e, e ∈ es → Const e
  | [], _, _, _, e, hm => by simp at hm
  | e' :: es, a, x, h, e, hm => by
    rw [Fold.numFold] at h
    split at h
    · cases h
    rename_i b hb
    rcases List.mem_cons.mp hm with h1 | hm'
    · rw [h1]; exact const_of_numExpr e' b hb
    · exact const_of_numFold f es (f a b) x h e hm'
end

/-! ### top-level lists -/

theorem numList_single (l : ExprList N) (h : l.rest = []) : Fold.numList l = Fold.numExpr l.first := by
  simp [Fold.numList, h]

theorem numList_many (l : ExprList N) (h : l.rest ≠ []) : Fold.numList l = .error .needMoreInfo := by
  simp [Fold.numList, h]

theorem numList_ok_iff (l : ExprList N) (x : N) :
    Fold.numList l = .ok x ↔ l.rest = [] ∧ Fold.numExpr l.first = .ok x := by
  by_cases h : l.rest = [] <;> simp [Fold.numList, h]



end
end FoldSound
end Rrss
