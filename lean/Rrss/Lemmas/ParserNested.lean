/-
  Rrss.Lemmas.ParserNested — C13: a fault at a statement boundary is reported at ANY nesting depth.

  `LoopFault src eof h e k0`: started on the tokens `h` (whatever the lexer snapshot `last`), one
  round of the statement loop of a block — and of a function body — fails with `e`, at every
  recursion depth `≥ k0`. `ctx_err`: then so does the statement loop started on `k.toks c ++ h`
  for every well-formed context `k` (Rrss/Spec/FaultContext.lean): the complete statements before
  the hole are parsed (C02: `stmt_run`, `lines_run`), the headers of the open compound statements
  are parsed, and the error travels up through `parse_block` / `parse_function_block`,
  `parse_if_statement` / `parse_loop` / `parse_function`, `parse_statement` and the loops.
  `top_ctx_err`: the same through the top-level loop, after complete top-level blocks.
-/
import Rrss.Lemmas.RoundTripBlock
import Rrss.Lemmas.RoundTripSentences
import Rrss.Spec.FaultContext
namespace Rrss
namespace Grammar
open Parser

variable {N : Type} [CharOps]

set_option linter.unusedSimpArgs false
set_option linter.unusedVariables false

/-! ### the statement loop of a block (`false`) / of a function body (`true`) -/

/-- one round of the statement loop of a block, resp. of a function body -/
def loopOf : Bool → Rec N → P N (List (Stmt N))
  | false, r => stmtLoopBody r
  | true, r => fnStmtLoopBody r

/-- the loop one level down, as called through `rec` -/
def recLoopOf : Bool → Rec N → P N (List (Stmt N))
  | false, r => r.stmtLoop
  | true, r => r.fnStmtLoop

theorem recLoopOf_succ (fn : Bool) (n : Nat) :
    recLoopOf fn (parser (n + 1) : Rec N) = loopOf fn (parser n) := by
  cases fn <;> rfl

/-- an error of `parse_statement` is the error of the round of either loop -/
theorem loopOf_of_stmt_err (fn : Bool) (rec : Rec N) {st : PState N} {e : ParseErr N}
    (h : parseStatement rec st = .err e) : loopOf fn rec st = .err e := by
  cases fn
  · show stmtLoopBody rec st = _
    rw [stmtLoopBody, bind_run, h]
  · show fnStmtLoopBody rec st = _
    rw [fnStmtLoopBody, bind_run, h]

/-- after a complete statement with its line end, an error of the rest of the loop is the error of
    the round -/
theorem loopOf_of_rest_err (fn : Bool) (rec : Rec N) {st st1 st2 : PState N} {s : Stmt N}
    {e : ParseErr N} (hs : parseStatement rec st = .ok (some s, st1))
    (hterm : fn = true → isFunctionTerminator s = false)
    (heol : expectEol st1 = .ok ((), st2)) (hrest : recLoopOf fn rec st2 = .err e) :
    loopOf fn rec st = .err e := by
  cases fn
  · show stmtLoopBody rec st = _
    rw [stmtLoopBody, bind_run, hs]
    simp only [bind_run, heol]
    rw [show rec.stmtLoop st2 = .err e from hrest]
  · show fnStmtLoopBody rec st = _
    rw [fnStmtLoopBody, bind_run, hs]
    simp only [hterm rfl, Bool.false_eq_true, if_false, bind_run, heol]
    rw [show rec.fnStmtLoop st2 = .err e from hrest]

/-! ### the fault -/

/-- the tokens `h` are rejected with `e` by one round of the statement loop of a block and of a
    function body, whatever the lexer snapshot, at every recursion depth `≥ k0` -/
def LoopFault (src : Str) (eof : Snap) (h : List (Tok N)) (e : ParseErr N) (k0 : Nat) : Prop :=
  ∀ k, k0 ≤ k → ∀ fn last, loopOf fn (parser k) ⟨src, h, last, eof, false⟩ = .err e

/-- a fault does not look like the end of a block: there is a token, and it is neither a line
    break nor `else` -/
theorem LoopFault.not_blockEnd {src : Str} {eof : Snap} {h : List (Tok N)} {e : ParseErr N} {k0 : Nat}
    (hf : LoopFault src eof h e k0) : ¬ BlockEnd h := by
  intro hbe
  have := hf k0 (Nat.le_refl _) false default
  change stmtLoopBody (parser k0) _ = _ at this
  rw [stmtLoopBody, bind_run, stmt_none hbe] at this
  cases this

omit [CharOps] in
theorem not_blockEnd_iff {h : List (Tok N)} :
    ¬ BlockEnd h ↔ h ≠ [] ∧ nextIn [.newline, .else_] h = false := by
  unfold BlockEnd
  constructor
  · intro hn
    refine ⟨fun h0 => hn (Or.inl h0), ?_⟩
    cases hx : nextIn [.newline, .else_] h with
    | false => rfl
    | true => exact absurd (Or.inr hx) hn
  · rintro ⟨h1, h2⟩ (h3 | h3)
    · exact h1 h3
    · rw [h2] at h3; cases h3

/-! ### errors travel up through blocks -/

theorem block_err (rec : Rec N) {toks : List (Tok N)} {src : Str} {last eof : Snap} {b : Bool}
    {e : ParseErr N} (hlast : SnapOK src last) (hnl : nextIn [.newline] toks = false)
    (h : stmtLoopBody rec ⟨src, toks, last, eof, b⟩ = .err e) :
    parseBlock rec ⟨src, toks, last, eof, b⟩ = .err e := by
  simp [parseBlock, bind_run, currentLoc_ok _ _ _ _ _ hlast, mac_stop_kind hnl, h]

theorem fnblock_err (rec : Rec N) {toks : List (Tok N)} {src : Str} {last eof : Snap} {b : Bool}
    {e : ParseErr N} (hlast : SnapOK src last) (hnl : nextIn [.newline] toks = false)
    (h : fnStmtLoopBody rec ⟨src, toks, last, eof, b⟩ = .err e) :
    parseFunctionBlock rec ⟨src, toks, last, eof, b⟩ = .err e := by
  simp [parseFunctionBlock, bind_run, currentLoc_ok _ _ _ _ _ hlast, mac_stop_kind hnl, h]

/-! ### errors travel up through the headers of compound statements -/

/-- `if C <eol>` followed by a block that fails -/
theorem ifThen_err (cond : Expression N) (eol : Eol) (d : Choices N) (n : Nat) (X : List (Tok N))
    (src : Str) (last eof : Snap) (e : ParseErr N)
    (hwc : cond.wf = true) (hok : (eol != .comma || cond.commaOK) = true)
    (hn : (unparse cond (d.sub 1)).length ≤ n + 1)
    (hB : parseBlock (parser n) ⟨src, X, ((d.sub 2).sub 1).here.after, eof, false⟩ = .err e) :
    parseStatement (parser (n + 1))
      ⟨src, tk (.kw .if_) (d.sub 0) :: (unparse cond (d.sub 1) ++ (eolToks eol (d.sub 2) ++ X)),
        last, eof, false⟩ = .err e := by
  have hcs := cond_stop cond eol (d.sub 2) X hok
  have he := fun last => expression_run cond (d.sub 1) (n + 1) _ src last eof false hwc hn hcs
  have heol := fun last => expectEol_run eol (d.sub 2) X src last eof false
  simp [parseStatement, current_run, map_run, parseIfStatement, bind_run, consume_cons, isKind, he,
    heol, eol_last, hrec_block, hB]

/-- `if C <eol> then-block else <newline>` followed by a block that fails -/
theorem ifElse_err (cond : Expression N) (eol : Eol) (t : List (Statement N)) (d : Choices N) (n : Nat)
    (X : List (Tok N)) (src : Str) (last eof : Snap) (e : ParseErr N)
    (hwc : cond.wf = true) (hok : (eol != .comma || cond.commaOK) = true) (hwt : stmtsWf t = true)
    (hsane : d.Sane src) (hfT : linesFit src t (d.sub 3))
    (hn : (unparse cond (d.sub 1)).length ≤ n + 1) (hnt : (blockToks t (d.sub 3)).length ≤ n)
    (hB : parseBlock (parser n) ⟨src, X, (d.sub 5).here.after, eof, false⟩ = .err e) :
    parseStatement (parser (n + 1))
      ⟨src, tk (.kw .if_) (d.sub 0) :: (unparse cond (d.sub 1) ++ (eolToks eol (d.sub 2) ++
        (blockToks t (d.sub 3) ++ tk (.kw .else_) (d.sub 4) :: tk (.kw .newline) (d.sub 5) :: X))),
        last, eof, false⟩ = .err e := by
  have hcs := cond_stop cond eol (d.sub 2)
    (blockToks t (d.sub 3) ++ tk (.kw .else_) (d.sub 4) :: tk (.kw .newline) (d.sub 5) :: X) hok
  have he := fun last => expression_run cond (d.sub 1) (n + 1) _ src last eof false hwc hn hcs
  have heol := fun last => expectEol_run eol (d.sub 2)
    (blockToks t (d.sub 3) ++ tk (.kw .else_) (d.sub 4) :: tk (.kw .newline) (d.sub 5) :: X) src last eof
    false
  have hlt := lines_len_le_block t (d.sub 3)
  have hlinesT : LinesRun t (d.sub 3) n (tk (.kw .else_) (d.sub 4) :: tk (.kw .newline) (d.sub 5) :: X)
      src eof := fun last =>
    lines_run t (d.sub 3) n _ src last eof hwt (by omega) (Or.inr rfl) (sane_sub hsane 3) hfT
  obtain ⟨TB, hTB, _⟩ := block_run t (d.sub 3) n
    (tk (.kw .else_) (d.sub 4) :: tk (.kw .newline) (d.sub 5) :: X) src
    ((d.sub 2).sub 1).here.after eof (sane_here hsane [2, 1]) hlinesT
  simp [parseStatement, current_run, map_run, parseIfStatement, bind_run, consume_cons, isKind, he,
    heol, eol_last, hrec_block, hTB, mac_cons, expectTokenOrEnd, advance_cons, hB]

/-- `while C <eol>` / `until C <eol>` followed by a block that fails -/
theorem loop_err (isWhile : Bool) (cond : Expression N) (eol : Eol) (d : Choices N) (n : Nat)
    (X : List (Tok N)) (src : Str) (last eof : Snap) (e : ParseErr N)
    (hwc : cond.wf = true) (hok : (eol != .comma || cond.commaOK) = true)
    (hn : (unparse cond (d.sub 1)).length ≤ n + 1)
    (hB : parseBlock (parser n) ⟨src, X, ((d.sub 2).sub 1).here.after, eof, false⟩ = .err e) :
    parseStatement (parser (n + 1))
      ⟨src, tk (.kw (if isWhile then TK.while_ else TK.until_)) (d.sub 0) ::
        (unparse cond (d.sub 1) ++ (eolToks eol (d.sub 2) ++ X)), last, eof, false⟩ = .err e := by
  have hcs := cond_stop cond eol (d.sub 2) X hok
  have he := fun last => expression_run cond (d.sub 1) (n + 1) _ src last eof false hwc hn hcs
  have heol := fun last => expectEol_run eol (d.sub 2) X src last eof false
  rw [loop_dispatch]
  cases isWhile <;>
    simp [map_run, parseLoop, bind_run, consume_cons, isAnyKind, he, heol, eol_last, hrec_block, hB]

/-- `f takes p (sep p)* <eol>` followed by a function body that fails -/
theorem func_err (f p : VarSpec) (ps : List VarSpec) (eol : Eol) (d : Choices N) (n : Nat)
    (X : List (Tok N)) (src : Str) (last eof : Snap) (e : ParseErr N)
    (hwf : f.wf = true) (hwp : p.wf = true) (hwps : ps.all VarSpec.wf = true)
    (heolc : (eol != Eol.comma) = true)
    (hn : (f.toks (d.sub 0)).length + 1 + (p.toks (d.sub 2)).length + (paramsToks ps (d.sub 3)).length
      ≤ n + 1)
    (hB : parseFunctionBlock (parser n) ⟨src, X, ((d.sub 4).sub 1).here.after, eof, false⟩ = .err e) :
    parseStatement (parser (n + 1))
      ⟨src, f.toks (d.sub 0) ++ tk (.kw .takes) (d.sub 1) :: (p.toks (d.sub 2) ++
        (paramsToks ps (d.sub 3) ++ (eolToks eol (d.sub 4) ++ X))), last, eof, false⟩ = .err e := by
  have heh : nextIn (.word :: argSeps) (eolToks eol (d.sub 4) ++ X) = false := by
    cases eol with
    | none => simp [eolToks, nextIn_cons, argSeps]
    | dot => simp [eolToks, nextIn_cons, argSeps]
    | comma => simp at heolc
  have hpnext : nextIn [.word] (paramsToks ps (d.sub 3) ++ (eolToks eol (d.sub 4) ++ X)) = false := by
    cases ps with
    | nil => simpa [paramsToks] using nextIn_sub heh (ks' := [.word]) (by decide)
    | cons v' vs' =>
      simp only [paramsToks, List.append_assoc]
      exact nextIn_of_head (sep_head _) (by decide)
  have hx := ident_run (.var f) d (n + 1)
    (tk (.kw .takes) (d.sub 1) :: (p.toks (d.sub 2) ++ (paramsToks ps (d.sub 3) ++
      (eolToks eol (d.sub 4) ++ X)))) src last eof
    false hwf (by simpa [IdSpec.toks] using (by omega : (f.toks (d.sub 0)).length ≤ n + 1))
    (by simp [nextIn_cons])
  have hp := fun last => expectVar_run p (d.sub 2) (n + 1) (paramsToks ps (d.sub 3) ++
    (eolToks eol (d.sub 4) ++ X)) src last eof false hwp (by omega) hpnext
  have hps := fun last => params_run ps (d.sub 3) (n + 1) (eolToks eol (d.sub 4) ++ X) src last eof false
    hwps (by omega) heh
  have heol := fun last => expectEol_run eol (d.sub 4) X src last eof false
  obtain ⟨t0, ts0, h1, h2⟩ := var_head_kind f (d.sub 0)
  simp only [IdSpec.toks, IdSpec.toIdent, IdSpec.range] at hx
  change expectIdentifier (parser (n + 1)) ⟨src, f.toks (d.sub 0) ++ _, last, eof, false⟩ = _ at hx
  have hdisp : parseStatement (parser (n + 1)) ⟨src, f.toks (d.sub 0) ++ (tk (.kw .takes) (d.sub 1) ::
      (p.toks (d.sub 2) ++ (paramsToks ps (d.sub 3) ++ (eolToks eol (d.sub 4) ++ X)))), last, eof, false⟩
      = (some <$> parseStatementStartingWithWord (parser (n + 1))) ⟨src, f.toks (d.sub 0) ++
        (tk (.kw .takes) (d.sub 1) :: (p.toks (d.sub 2) ++ (paramsToks ps (d.sub 3) ++
          (eolToks eol (d.sub 4) ++ X)))), last, eof, false⟩ := by
    rw [h1]
    rcases h2 with h2 | h2 <;>
      simp [parseStatement, current_run, bind_run, h2]
  rw [hdisp]
  simp [map_run, parseStatementStartingWithWord, bind_run, hx, current_run, asVariableName,
    parseFunction, consume_cons, isKind, parseParameterList, hp, hps, heol, eol_last, hrec_fnblock, hB,
    pure_run]

/-! ### the first token of a context -/

/-- a context is the hole, or starts with a token that starts a statement -/
theorem ctx_head (k : Ctx N) (c : Choices N) :
    k.toks c = [] ∨ ∃ t ts, k.toks c = t :: ts ∧ stmtStarts.contains t.kind = true := by
  cases k with
  | hole => exact Or.inl rfl
  | next s k =>
    obtain ⟨t, ts, h1, h2⟩ := stmt_head s (c.sub 0)
    exact Or.inr ⟨t, _, by simp only [Ctx.toks, h1, List.cons_append]; rfl, h2⟩
  | ifThen cond eol k => exact Or.inr ⟨_, _, rfl, rfl⟩
  | ifElse cond eol t k => exact Or.inr ⟨_, _, rfl, rfl⟩
  | whileS cond eol k => exact Or.inr ⟨_, _, rfl, rfl⟩
  | untilS cond eol k => exact Or.inr ⟨_, _, rfl, rfl⟩
  | func f p ps eol k =>
    obtain ⟨t, ts, h1, h2⟩ := var_head_stmt f ((c.sub 0).sub 0)
    exact Or.inr ⟨t, _, by simp only [Ctx.toks, h1, List.cons_append]; rfl, h2⟩

/-- a context followed by a fault does not look like the end of a block -/
theorem ctx_not_blockEnd (k : Ctx N) (c : Choices N) {h : List (Tok N)} (hh : ¬ BlockEnd h) :
    ¬ BlockEnd (k.toks c ++ h) := by
  rcases ctx_head k c with h0 | ⟨t, ts, h1, h2⟩
  · simpa [h0] using hh
  · rw [not_blockEnd_iff]
    refine ⟨by simp [h1], ?_⟩
    exact nextIn_of_head ⟨t, ts, h1, h2⟩ (by decide)

omit [CharOps] in
theorem not_nl_of_not_blockEnd {h : List (Tok N)} (hh : ¬ BlockEnd h) : nextIn [.newline] h = false :=
  nextIn_sub (not_blockEnd_iff.mp hh).2 (by decide)

omit [CharOps] in
theorem not_else_of_not_blockEnd {h : List (Tok N)} (hh : ¬ BlockEnd h) : nextIn [.else_] h = false :=
  nextIn_sub (not_blockEnd_iff.mp hh).2 (by decide)

/-! ### the induction over contexts -/

/-- **the nested core.** For a well-formed context `k` (a block if `fn = false`, a function body if
    `fn = true`), spelled with the choices `c`, followed by tokens `h` that every round of the
    statement loops rejects with `e`: the statement loop started before the context fails with
    `e` — at every depth `n ≥ #tokens of the context + k0`. -/
theorem ctx_err (k : Ctx N) : ∀ (fn : Bool) (c : Choices N) (n : Nat) (h : List (Tok N)) (src : Str)
    (last eof : Snap) (e : ParseErr N) (k0 : Nat),
    Ctx.wf fn k = true → (k.toks c).length + k0 ≤ n → LoopFault src eof h e k0 → c.Sane src →
    k.Fits src c →
    loopOf fn (parser n) ⟨src, k.toks c ++ h, last, eof, false⟩ = .err e := by
  induction k with
  | hole =>
    intro fn c n h src last eof e k0 _ hn hf _ _
    simpa [Ctx.toks] using hf n (by simpa [Ctx.toks] using hn) fn last
  | next s k ih =>
    intro fn c n h src last eof e k0 hw hn hf hsane hfit
    simp only [Ctx.wf, Bool.and_eq_true] at hw
    obtain ⟨⟨hws, hterm⟩, hwk⟩ := hw
    obtain ⟨hf1, hf2, hf3⟩ := hfit
    simp only [Ctx.toks, List.length_append] at hn
    obtain ⟨t0, ts0, hh, _⟩ := stmt_head s (c.sub 0)
    have hpos : 1 ≤ (s.toks (c.sub 0)).length := by simp [hh]
    cases n with
    | zero => omega
    | succ n =>
      obtain ⟨s', last', hs1, hl1, hs2⟩ := stmt_run s (c.sub 0) (n + 1)
        (s.eolToks (c.sub 1) ++ (k.toks (c.sub 2) ++ h)) src last eof hws (by omega)
        (stmt_stop_eol s (c.sub 1) _ hws hf2) (sane_sub hsane 0)
        (stmt_fits_congr src s _ (stmt_eol_head s _ _).symm hf1)
      have hl1' := hl1 (stmt_eol_ne s _ _)
      subst hl1'
      have hrest := ih fn (c.sub 2) n h src
        (lastSnap (s.eolToks (c.sub 1)) (lastSnap (s.toks (c.sub 0)) last)) eof e k0 hwk (by omega) hf
        (sane_sub hsane 2) hf3
      simp only [Ctx.toks, List.append_assoc]
      refine loopOf_of_rest_err fn _ hs1 ?_ (expectEol_stmt s (c.sub 1) _ src _ eof false) ?_
      · intro hfn
        subst hfn
        rw [← isFunctionTerminator_erase, hs2, isFunctionTerminator_toStmt]
        simpa using hterm
      · rw [recLoopOf_succ]; exact hrest
  | ifThen cond eol k ih =>
    intro fn c n h src last eof e k0 hw hn hf hsane hfit
    simp only [Ctx.wf, Bool.and_eq_true] at hw
    obtain ⟨⟨hwc, hok⟩, hwk⟩ := hw
    simp only [Ctx.toks, List.length_cons, List.length_append] at hn
    cases n with
    | zero => omega
    | succ n =>
      have hinner := ih false ((c.sub 0).sub 3) n h src (((c.sub 0).sub 2).sub 1).here.after eof e k0 hwk
        (by omega) hf (sane_sub (sane_sub hsane 0) 3) hfit
      have hB := block_err (parser n) (sane_here hsane [0, 2, 1])
        (not_nl_of_not_blockEnd (ctx_not_blockEnd k _ hf.not_blockEnd)) hinner
      apply loopOf_of_stmt_err
      simp only [Ctx.toks, List.cons_append, List.append_assoc]
      exact ifThen_err cond eol (c.sub 0) n _ src last eof e hwc hok (by omega) hB
  | ifElse cond eol t k ih =>
    intro fn c n h src last eof e k0 hw hn hf hsane hfit
    simp only [Ctx.wf, Bool.and_eq_true] at hw
    obtain ⟨⟨⟨hwc, hok⟩, hwt⟩, hwk⟩ := hw
    simp only [Ctx.toks, List.length_cons, List.length_append] at hn
    cases n with
    | zero => omega
    | succ n =>
      have hinner := ih false ((c.sub 0).sub 6) n h src ((c.sub 0).sub 5).here.after eof e k0 hwk
        (by omega) hf (sane_sub (sane_sub hsane 0) 6) hfit.2
      have hB := block_err (parser n) (sane_here hsane [0, 5])
        (not_nl_of_not_blockEnd (ctx_not_blockEnd k _ hf.not_blockEnd)) hinner
      apply loopOf_of_stmt_err
      simp only [Ctx.toks, List.cons_append, List.append_assoc]
      exact ifElse_err cond eol t (c.sub 0) n _ src last eof e hwc hok hwt (sane_sub hsane 0)
        hfit.1 (by omega) (by omega) hB
  | whileS cond eol k ih =>
    intro fn c n h src last eof e k0 hw hn hf hsane hfit
    simp only [Ctx.wf, Bool.and_eq_true] at hw
    obtain ⟨⟨hwc, hok⟩, hwk⟩ := hw
    simp only [Ctx.toks, List.length_cons, List.length_append] at hn
    cases n with
    | zero => omega
    | succ n =>
      have hinner := ih false ((c.sub 0).sub 3) n h src (((c.sub 0).sub 2).sub 1).here.after eof e k0 hwk
        (by omega) hf (sane_sub (sane_sub hsane 0) 3) hfit
      have hB := block_err (parser n) (sane_here hsane [0, 2, 1])
        (not_nl_of_not_blockEnd (ctx_not_blockEnd k _ hf.not_blockEnd)) hinner
      apply loopOf_of_stmt_err
      simp only [Ctx.toks, List.cons_append, List.append_assoc]
      exact loop_err true cond eol (c.sub 0) n _ src last eof e hwc hok (by omega) hB
  | untilS cond eol k ih =>
    intro fn c n h src last eof e k0 hw hn hf hsane hfit
    simp only [Ctx.wf, Bool.and_eq_true] at hw
    obtain ⟨⟨hwc, hok⟩, hwk⟩ := hw
    simp only [Ctx.toks, List.length_cons, List.length_append] at hn
    cases n with
    | zero => omega
    | succ n =>
      have hinner := ih false ((c.sub 0).sub 3) n h src (((c.sub 0).sub 2).sub 1).here.after eof e k0 hwk
        (by omega) hf (sane_sub (sane_sub hsane 0) 3) hfit
      have hB := block_err (parser n) (sane_here hsane [0, 2, 1])
        (not_nl_of_not_blockEnd (ctx_not_blockEnd k _ hf.not_blockEnd)) hinner
      apply loopOf_of_stmt_err
      simp only [Ctx.toks, List.cons_append, List.append_assoc]
      exact loop_err false cond eol (c.sub 0) n _ src last eof e hwc hok (by omega) hB
  | func f p ps eol k ih =>
    intro fn c n h src last eof e k0 hw hn hf hsane hfit
    simp only [Ctx.wf, Bool.and_eq_true] at hw
    obtain ⟨⟨⟨⟨hwf, hwp⟩, hwps⟩, heolc⟩, hwk⟩ := hw
    simp only [Ctx.toks, List.length_cons, List.length_append] at hn
    cases n with
    | zero => omega
    | succ n =>
      have hinner := ih true ((c.sub 0).sub 5) n h src (((c.sub 0).sub 4).sub 1).here.after eof e k0 hwk
        (by omega) hf (sane_sub (sane_sub hsane 0) 5) hfit
      have hB := fnblock_err (parser n) (sane_here hsane [0, 4, 1])
        (not_nl_of_not_blockEnd (ctx_not_blockEnd k _ hf.not_blockEnd)) hinner
      apply loopOf_of_stmt_err
      simp only [Ctx.toks, List.cons_append, List.append_assoc]
      exact func_err f p ps eol (c.sub 0) n _ src last eof e hwf hwp hwps heolc (by omega) hB

/-! ### the top-level loop -/

/-- the top-level loop fails with `e` -/
def TopErr (n : Nat) (src : Str) (toks : List (Tok N)) (last eof : Snap) (e : ParseErr N) : Prop :=
  topLoopBody (parser n) ⟨src, toks, last, eof, false⟩ = .err e

/-- blank lines before the failing rest are skipped -/
theorem blanks_err (X : List (Tok N)) (src : Str) (eof : Snap) (e : ParseErr N) (L : Nat)
    (hX : ∀ m last', L ≤ m → SnapOK src last' → TopErr m src X last' eof e)
    (hXe : nextIn [.else_] X = false) :
    ∀ (k : Nat) (c : Choices N) (n : Nat) (last : Snap), k + L ≤ n → SnapOK src last → c.Sane src →
      TopErr n src (blanksToks k c ++ X) last eof e := by
  intro k
  induction k with
  | zero =>
    intro c n last hn hl _
    simpa [blanksToks] using hX n last (by omega) hl
  | succ k ih =>
    intro c n last hn hl hs
    cases n with
    | zero => omega
    | succ n =>
      have h1 := ih (c.sub 1) n (c.sub 0).here.after (by omega) (sane_here hs [0]) (sane_sub hs 1)
      have helse : nextIn [.else_] (blanksToks k (c.sub 1) ++ X) = false := by
        cases k with
        | zero => simpa [blanksToks] using hXe
        | succ k' => simp [blanksToks, nextIn_cons]
      unfold TopErr at h1 ⊢
      rw [topLoopBody]
      simp [blanksToks, bind_run, current_run, parseBlock, currentLoc_ok _ _ _ _ _ hl, mac_cons, isKind,
        topLoopAfterBlock, currentMatches_stop helse, hrec_topLoop, h1, pure_run, Block.isEmpty]

/-- a complete top-level block with its closing blank line before the failing rest is parsed -/
theorem block_step_err (b : List (Statement N)) (hne : b ≠ []) (hwb : stmtsWf b = true) (X : List (Tok N))
    (src : Str) (eof : Snap) (e : ParseErr N) (L : Nat)
    (hX : ∀ m last', L ≤ m → SnapOK src last' → TopErr m src X last' eof e)
    (hXe : nextIn [.else_] X = false)
    (c1 c2 : Choices N) (hs1 : c1.Sane src) (hit1 : linesFit src b c1) (hs2 : SnapOK src c2.here.after) :
    ∀ m last', (linesToks b c1).length + 1 + L ≤ m → SnapOK src last' →
      TopErr m src (linesToks b c1 ++ tk (.kw .newline) c2 :: X) last' eof e := by
  intro m last' hm hl'
  cases b with
  | nil => exact absurd rfl hne
  | cons s ss =>
    have hpos : 1 ≤ (linesToks (s :: ss) c1).length := by
      obtain ⟨t, ts, h1, _⟩ := stmt_head s (c1.sub 0)
      rw [lines_cons, h1]; simp
    cases m with
    | zero => omega
    | succ m =>
      cases m with
      | zero => omega
      | succ m =>
        obtain ⟨ss', hl1, hl2⟩ := lines_run (s :: ss) c1 (m + 2) (tk (.kw .newline) c2 :: X) src last' eof
          hwb (by omega) (Or.inr rfl) hs1 hit1
        have hsane2 := lines_last_sane (s :: ss) (by simp) c1 src last' hs1
        have h1 := hX m c2.here.after (by omega) hs2
        unfold TopErr at h1 ⊢
        have hcur : (linesToks (s :: ss) c1 ++ tk (.kw .newline) c2 :: X).head? ≠ none := by
          obtain ⟨t, ts, h1', _⟩ := stmt_head s (c1.sub 0)
          rw [lines_cons, h1']; simp
        rw [topLoopBody]
        rw [bind_run, current_run]
        cases hc : (linesToks (s :: ss) c1 ++ tk (.kw .newline) c2 :: X).head? with
        | none => exact absurd hc hcur
        | some t0 =>
          simp only [hc]
          simp [bind_run, parseBlock, currentLoc_ok _ _ _ _ _ hl',
            mac_stop_kind (lines_not_nl s ss c1 _), hl1, pure_run, topLoopAfterBlock,
            currentMatches_cons, isKind, hrec_topLoop]
          rw [topLoopBody]
          simp [bind_run, current_run, parseBlock, currentLoc_ok _ _ _ _ _ hsane2, mac_cons, isKind,
            pure_run, topLoopAfterBlock, currentMatches_stop hXe, hrec_topLoop, h1, Block.isEmpty]

/-- the top-level block that holds the hole -/
theorem top_hole_err (k : Ctx N) (c : Choices N) (h : List (Tok N)) (src : Str) (eof : Snap)
    (e : ParseErr N) (k0 : Nat) (hw : Ctx.wf false k = true) (hf : LoopFault src eof h e k0)
    (hsane : c.Sane src) (hit : k.Fits src c) :
    ∀ m last', (k.toks c).length + k0 ≤ m → SnapOK src last' →
      TopErr m src (k.toks c ++ h) last' eof e := by
  intro m last' hm hl'
  have hnb := ctx_not_blockEnd k c hf.not_blockEnd
  have hloop := ctx_err k false c m h src last' eof e k0 hw hm hf hsane hit
  have hB := block_err (parser m) hl' (not_nl_of_not_blockEnd hnb) hloop
  unfold TopErr
  rw [topLoopBody, bind_run, current_run]
  cases hc : (k.toks c ++ h).head? with
  | none =>
    exfalso
    exact (not_blockEnd_iff.mp hnb).1 (by simpa using hc)
  | some t0 =>
    simp only [hc]
    rw [bind_run, hB]

theorem progCtx_not_else (bs : List (List (Statement N))) (k : Ctx N) (c : Choices N) {h : List (Tok N)}
    (hw : progWf bs = true) (hh : ¬ BlockEnd h) : nextIn [.else_] (progCtxToks bs k c ++ h) = false := by
  have hb : ∀ j (c' : Choices N) (X : List (Tok N)), nextIn [.else_] X = false →
      nextIn [.else_] (blanksToks j c' ++ X) = false := by
    intro j c' X hX
    cases j with
    | zero => simpa [blanksToks] using hX
    | succ k' => simp [blanksToks, nextIn_cons]
  cases bs with
  | nil =>
    rw [progCtxToks, List.append_assoc]
    exact hb _ _ _ (not_else_of_not_blockEnd (ctx_not_blockEnd k _ hh))
  | cons b bs =>
    rw [progCtxToks, List.append_assoc]
    apply hb
    simp only [progWf, List.all_cons, Bool.and_eq_true, Bool.not_eq_true', List.isEmpty_eq_false_iff] at hw
    rw [List.append_assoc]
    exact lines_not_else b hw.1.1 _ _

/-- **through the top-level loop.** After complete top-level blocks, a context in the next block,
    then a fault: the top-level loop fails with the error of the fault. -/
theorem top_ctx_err : ∀ (bs : List (List (Statement N))) (k : Ctx N) (c : Choices N) (n : Nat)
    (h : List (Tok N)) (src : Str) (last eof : Snap) (e : ParseErr N) (k0 : Nat),
    progWf bs = true → Ctx.wf false k = true → (progCtxToks bs k c).length + k0 ≤ n →
    LoopFault src eof h e k0 → SnapOK src last → c.Sane src → progCtxFits src bs k c →
    TopErr n src (progCtxToks bs k c ++ h) last eof e := by
  intro bs
  induction bs with
  | nil =>
    intro k c n h src last eof e k0 _ hwk hn hf hl hs hit
    rw [progCtxToks] at hn ⊢
    simp only [List.length_append, blanks_len] at hn
    rw [List.append_assoc]
    exact blanks_err _ src eof e ((k.toks (c.sub 1)).length + k0)
      (top_hole_err k (c.sub 1) h src eof e k0 hwk hf (sane_sub hs 1) hit)
      (not_else_of_not_blockEnd (ctx_not_blockEnd k _ hf.not_blockEnd))
      (c.sub 0).choice (c.sub 0) n last (by omega) hl (sane_sub hs 0)
  | cons b bs ih =>
    intro k c n h src last eof e k0 hw hwk hn hf hl hs hit
    have hw' := hw
    simp only [progWf, List.all_cons, Bool.and_eq_true, Bool.not_eq_true', List.isEmpty_eq_false_iff] at hw
    obtain ⟨⟨hne, hwb⟩, hwbs⟩ := hw
    have hwbs' : progWf bs = true := by simpa [progWf] using hwbs
    rw [progCtxToks] at hn ⊢
    simp only [List.length_append, List.length_cons, blanks_len] at hn
    have hrest : ∀ m last', (progCtxToks bs k (c.sub 3)).length + k0 ≤ m → SnapOK src last' →
        TopErr m src (progCtxToks bs k (c.sub 3) ++ h) last' eof e := fun m last' hm hl' =>
      ih k (c.sub 3) m h src last' eof e k0 hwbs' hwk hm hf hl' (sane_sub hs 3) hit.2
    have hstep := block_step_err b hne hwb (progCtxToks bs k (c.sub 3) ++ h) src eof e _ hrest
      (progCtx_not_else bs k (c.sub 3) hwbs' hf.not_blockEnd) (c.sub 1) (c.sub 2) (sane_sub hs 1)
      hit.1 (sane_here hs [2])
    have := blanks_err _ src eof e _ hstep (lines_not_else b hne (c.sub 1) _)
      (c.sub 0).choice (c.sub 0) n last (by omega) hl (sane_sub hs 0)
    simpa [List.append_assoc] using this

/-! ### packaged for arbitrary states -/

/-- the fault hypothesis of Rrss/Thm/C13Nested.lean (on states) gives a `LoopFault` -/
theorem loopFault_of_states {src : Str} {eof : Snap} {h : List (Tok N)} {e : ParseErr N} {k0 : Nat}
    (hfault : ∀ m, k0 ≤ m → ∀ st' : PState N, st'.toks = h → st'.src = src → st'.eof = eof →
      st'.parsingList = false →
      parseStatement (parser m) st' = .err e ∨
        (stmtLoopBody (parser m) st' = .err e ∧ fnStmtLoopBody (parser m) st' = .err e)) :
    LoopFault src eof h e k0 := by
  intro m hm fn last
  rcases hfault m hm ⟨src, h, last, eof, false⟩ rfl rfl rfl rfl with h1 | ⟨h1, h2⟩
  · exact loopOf_of_stmt_err fn _ h1
  · cases fn
    · exact h1
    · exact h2

theorem block_ctx_err_state (k : Ctx N) (c : Choices N) (h : List (Tok N)) (e : ParseErr N) (k0 : Nat)
    (st : PState N) (n : Nat) (htoks : st.toks = k.toks c ++ h) (hflag : st.parsingList = false)
    (hlast : SnapOK st.src st.last) (hsane : c.Sane st.src) (hit : k.Fits st.src c)
    (hf : LoopFault st.src st.eof h e k0) (hn : (k.toks c).length + k0 ≤ n) :
    (Ctx.wf false k = true → parseBlock (parser n) st = .err e) ∧
    (Ctx.wf true k = true → parseFunctionBlock (parser n) st = .err e) := by
  obtain ⟨src, toks, last, eof, pl⟩ := st
  simp only at htoks hflag hsane hlast hf hit
  subst htoks hflag
  have hnl := not_nl_of_not_blockEnd (ctx_not_blockEnd k c hf.not_blockEnd)
  exact ⟨fun hw => block_err _ hlast hnl (ctx_err k false c n h src last eof e k0 hw hn hf hsane hit),
    fun hw => fnblock_err _ hlast hnl (ctx_err k true c n h src last eof e k0 hw hn hf hsane hit)⟩

theorem program_ctx_err_state (p : ProgCtx N) (c : Choices N) (h : List (Tok N)) (e : ParseErr N)
    (k0 : Nat) (st : PState N) (n : Nat) (hwf : p.wf = true) (htoks : st.toks = p.toks c ++ h)
    (hflag : st.parsingList = false) (hlast : SnapOK st.src st.last) (hsane : c.Sane st.src)
    (hit : p.Fits st.src c) (hf : LoopFault st.src st.eof h e k0) (hn : (p.toks c).length + k0 ≤ n) :
    parseProgramBody (parser n) st = .err e := by
  obtain ⟨src, toks, last, eof, pl⟩ := st
  simp only at htoks hflag hsane hlast hf hit
  subst htoks hflag
  simp only [ProgCtx.wf, Bool.and_eq_true] at hwf
  have := top_ctx_err p.blocks p.ctx c n h src last eof e k0 hwf.1 hwf.2 hn hf hlast hsane hit
  unfold TopErr at this
  simp [parseProgramBody, bind_run, ProgCtx.toks, this]

/-- an error of `Parser::parse` on the lexed text is the error of `parse(text)` -/
theorem parseProgram_of_program_err [NumOps N] {kw : List (Str × TK)} {src : Str} {raw : List (Tok N)}
    {e : ParseErr N} (hlex : Lexer.lexAll kw src = .ok raw)
    (h : (parser ((skipComments raw).length + 2)).program (initState src raw) = .err e) :
    parseProgram kw src = .err e := by
  unfold parseProgram runOn
  simp only [hlex]
  have hlen : (initState src raw).toks.length = (skipComments raw).length := rfl
  rw [hlen, h]

omit [CharOps] in
theorem initState_snapOK (src : Str) (raw : List (Tok N)) : SnapOK src (initState src raw).last :=
  ⟨Nat.zero_le _, Nat.le_refl _⟩

/-! ### the tokens of a context are a prefix of a spelling of a block by the grammar -/

omit [CharOps] in
theorem ctx_plug_ne (k : Ctx N) {ss : List (Statement N)} (h : ss ≠ []) : k.plug ss ≠ [] := by
  cases k <;> simp [Ctx.plug, h]

theorem single_prefix (s : Statement N) (c : Choices N) (K : List (Tok N))
    (h : ∃ tail, s.toks (c.sub 0) = K ++ tail) :
    (∃ tail, linesToks [s] c = K ++ tail) ∧ (∃ tail, fnLinesToks [s] c = K ++ tail) := by
  obtain ⟨tail, h⟩ := h
  exact ⟨⟨_, by rw [lines_cons, h, List.append_assoc]⟩, ⟨_, by rw [fnLines_cons, h, List.append_assoc]⟩⟩

theorem blockToks_ne {b : List (Statement N)} (h : b ≠ []) (c : Choices N) : blockToks b c = linesToks b c := by
  cases b with
  | nil => exact absurd rfl h
  | cons s ss => rfl

theorem fnBlockToks_ne {b : List (Statement N)} (h : b ≠ []) (c : Choices N) :
    fnBlockToks b c = fnLinesToks b c := by
  cases b with
  | nil => exact absurd rfl h
  | cons s ss => rfl

/-- putting statements into the hole and closing the open blocks gives a block whose spelling by the
    grammar (as a block: `linesToks`; as a function body: `fnLinesToks`), for the same choices,
    starts with the tokens of the context -/
theorem ctx_toks_prefix (k : Ctx N) : ∀ (c : Choices N) (ss : List (Statement N)), ss ≠ [] →
    (∃ tail, linesToks (k.plug ss) c = k.toks c ++ tail) ∧
    (∃ tail, fnLinesToks (k.plug ss) c = k.toks c ++ tail) := by
  induction k with
  | hole => intro c ss _; exact ⟨⟨_, rfl⟩, ⟨_, rfl⟩⟩
  | next s k ih =>
    intro c ss hss
    obtain ⟨⟨t1, h1⟩, ⟨t2, h2⟩⟩ := ih (c.sub 2) ss hss
    have hne := ctx_plug_ne k hss
    refine ⟨⟨t1, ?_⟩, ⟨t2, ?_⟩⟩
    · simp only [Ctx.plug, Ctx.toks, lines_cons, h1, List.append_assoc]
    · have : (k.plug ss).isEmpty = false := by simpa using hne
      simp only [Ctx.plug, Ctx.toks, fnLines_cons, h2, this, Bool.false_and, Bool.false_eq_true, if_false,
        List.append_assoc]
  | ifThen cond eol k ih =>
    intro c ss hss
    obtain ⟨⟨t1, h1⟩, _⟩ := ih ((c.sub 0).sub 3) ss hss
    refine single_prefix _ c _ ⟨t1 ++ elseToks none (c.sub 0), ?_⟩
    rw [ifS_toks, blockToks_ne (ctx_plug_ne k hss), h1]
    simp [Ctx.toks, List.append_assoc]
  | ifElse cond eol t k ih =>
    intro c ss hss
    obtain ⟨⟨t1, h1⟩, _⟩ := ih ((c.sub 0).sub 6) ss hss
    refine single_prefix _ c _ ⟨t1, ?_⟩
    rw [ifS_toks]
    simp only [elseToks]
    rw [blockToks_ne (ctx_plug_ne k hss), h1]
    simp [Ctx.toks, List.append_assoc]
  | whileS cond eol k ih =>
    intro c ss hss
    obtain ⟨⟨t1, h1⟩, _⟩ := ih ((c.sub 0).sub 3) ss hss
    refine single_prefix _ c _ ⟨t1, ?_⟩
    rw [whileS_toks, blockToks_ne (ctx_plug_ne k hss), h1]
    simp [Ctx.toks, List.append_assoc]
  | untilS cond eol k ih =>
    intro c ss hss
    obtain ⟨⟨t1, h1⟩, _⟩ := ih ((c.sub 0).sub 3) ss hss
    refine single_prefix _ c _ ⟨t1, ?_⟩
    rw [untilS_toks, blockToks_ne (ctx_plug_ne k hss), h1]
    simp [Ctx.toks, List.append_assoc]
  | func f p ps eol k ih =>
    intro c ss hss
    obtain ⟨_, ⟨t2, h2⟩⟩ := ih ((c.sub 0).sub 5) ss hss
    refine single_prefix _ c _ ⟨t2, ?_⟩
    rw [func_toks, fnBlockToks_ne (ctx_plug_ne k hss), h2]
    simp [Ctx.toks, List.append_assoc]

/-- the same for programs: the tokens of a program context are a prefix of the spelling, for the
    same choices, of the program obtained by plugging the hole -/
theorem progCtx_toks_prefix (p : ProgCtx N) (c : Choices N) (ss : List (Statement N)) (hss : ss ≠ []) :
    ∃ tail, progToks (p.plug ss) c = p.toks c ++ tail := by
  obtain ⟨bs, k⟩ := p
  simp only [ProgCtx.plug, ProgCtx.toks]
  induction bs generalizing c with
  | nil =>
    obtain ⟨⟨t1, h1⟩, _⟩ := ctx_toks_prefix k (c.sub 1) ss hss
    exact ⟨t1 ++ tk (.kw .newline) (c.sub 2) :: progToks [] (c.sub 3),
      by simp only [List.nil_append, progToks, progCtxToks, h1, List.append_assoc]⟩
  | cons b bs ih =>
    obtain ⟨t1, h1⟩ := ih (c.sub 3)
    exact ⟨t1, by simp only [List.cons_append, progToks, progCtxToks, h1, List.append_assoc,
      List.cons_append]⟩

/-! ### plugging well-formed statements into a well-formed context gives a well-formed program -/

theorem stmtsWf_single (s : Statement N) : stmtsWf [s] = s.wf := by
  rw [stmtsWf_cons]; simp [stmtsWf]

theorem ctx_plug_wf (k : Ctx N) : ∀ (fn : Bool) (ss : List (Statement N)), ss ≠ [] →
    Ctx.wf fn k = true → stmtsWf ss = true → fnBodyOK ss = true →
    stmtsWf (k.plug ss) = true ∧ (fn = true → fnBodyOK (k.plug ss) = true) := by
  induction k with
  | hole => intro fn ss _ _ h1 h2; exact ⟨h1, fun _ => h2⟩
  | next s1 k ih =>
    intro fn ss hss hw h1 h2
    simp only [Ctx.wf, Bool.and_eq_true] at hw
    obtain ⟨⟨hws, hterm⟩, hwk⟩ := hw
    obtain ⟨i1, i2⟩ := ih fn ss hss hwk h1 h2
    refine ⟨by simp only [Ctx.plug, stmtsWf_cons, hws, i1, Bool.and_self], fun hfn => ?_⟩
    subst hfn
    have hni : s1.isIfElse = false := by simpa using hterm
    have i2' := i2 rfl
    simp only [Ctx.plug]
    cases hp : k.plug ss with
    | nil => exact absurd hp (ctx_plug_ne k hss)
    | cons s' ss' =>
      rw [hp] at i2'
      simp [fnBodyOK, hni, i2']
  | ifThen cond eol k ih =>
    intro fn ss hss hw h1 h2
    simp only [Ctx.wf, Bool.and_eq_true] at hw
    obtain ⟨⟨hwc, hok⟩, hwk⟩ := hw
    obtain ⟨i1, _⟩ := ih false ss hss hwk h1 h2
    exact ⟨by simp only [Ctx.plug, stmtsWf_single, ifS_wf, hwc, hok, i1, Bool.and_self], fun _ => rfl⟩
  | ifElse cond eol t k ih =>
    intro fn ss hss hw h1 h2
    simp only [Ctx.wf, Bool.and_eq_true] at hw
    obtain ⟨⟨⟨hwc, hok⟩, hwt⟩, hwk⟩ := hw
    obtain ⟨i1, _⟩ := ih false ss hss hwk h1 h2
    exact ⟨by simp only [Ctx.plug, stmtsWf_single, ifS_wf, hwc, hok, hwt, i1, Bool.and_self],
      fun _ => rfl⟩
  | whileS cond eol k ih =>
    intro fn ss hss hw h1 h2
    simp only [Ctx.wf, Bool.and_eq_true] at hw
    obtain ⟨⟨hwc, hok⟩, hwk⟩ := hw
    obtain ⟨i1, _⟩ := ih false ss hss hwk h1 h2
    exact ⟨by simp only [Ctx.plug, stmtsWf_single, whileS_wf, hwc, hok, i1, Bool.and_self], fun _ => rfl⟩
  | untilS cond eol k ih =>
    intro fn ss hss hw h1 h2
    simp only [Ctx.wf, Bool.and_eq_true] at hw
    obtain ⟨⟨hwc, hok⟩, hwk⟩ := hw
    obtain ⟨i1, _⟩ := ih false ss hss hwk h1 h2
    exact ⟨by simp only [Ctx.plug, stmtsWf_single, untilS_wf, hwc, hok, i1, Bool.and_self], fun _ => rfl⟩
  | func f p ps eol k ih =>
    intro fn ss hss hw h1 h2
    simp only [Ctx.wf, Bool.and_eq_true] at hw
    obtain ⟨⟨⟨⟨hwf, hwp⟩, hwps⟩, heolc⟩, hwk⟩ := hw
    obtain ⟨i1, i2⟩ := ih true ss hss hwk h1 h2
    exact ⟨by simp only [Ctx.plug, stmtsWf_single, func_wf, hwf, hwp, hwps, heolc, i1, i2 rfl,
      Bool.and_self], fun _ => rfl⟩

theorem progCtx_plug_wf (p : ProgCtx N) (ss : List (Statement N)) (hss : ss ≠ []) (hw : p.wf = true)
    (h1 : stmtsWf ss = true) (h2 : fnBodyOK ss = true) : progWf (p.plug ss) = true := by
  simp only [ProgCtx.wf, Bool.and_eq_true] at hw
  have hk := (ctx_plug_wf p.ctx false ss hss hw.2 h1 h2).1
  have hne : (p.ctx.plug ss).isEmpty = false := by simpa using ctx_plug_ne p.ctx hss
  have hb := hw.1
  simp only [progWf] at hb ⊢
  simp [ProgCtx.plug, List.all_append, hb, hk, hne]

/-! ### contexts whose parse does not depend on the templates (`plain`, as for C02) -/

/-- no complete statement before the hole has a poetic literal, a poetic string, `rock … like` or a
    negative poetic right-hand side; a bare `break` only if `ab` -/
def Ctx.plain (ab : Bool) : Ctx N → Bool
  | .hole => true
  | .next s k => s.plain ab && Ctx.plain ab k
  | .ifThen _ _ k => Ctx.plain ab k
  | .ifElse _ _ t k => stmtsPlain ab t && Ctx.plain ab k
  | .whileS _ _ k => Ctx.plain ab k
  | .untilS _ _ k => Ctx.plain ab k
  | .func _ _ _ _ k => Ctx.plain ab k

def ProgCtx.plain (ab : Bool) (p : ProgCtx N) : Bool := progPlain ab p.blocks && p.ctx.plain ab

/-- for a plain context `Fits` holds (given `NoIt` if bare `break`s occur) -/
theorem ctx_plain_fits {ab : Bool} (src : Str) (k : Ctx N) : ∀ (c : Choices N),
    Ctx.plain ab k = true → (ab = true → c.NoIt) → k.Fits src c := by
  induction k with
  | hole => intro c _ _; trivial
  | next s k ih =>
    intro c hp hit
    simp only [Ctx.plain, Bool.and_eq_true] at hp
    exact ⟨plain_fits src s (c.sub 0) _ hp.1 (fun h => noIt_sub (hit h) 0),
      stmt_plain_eolOK s (c.sub 1) hp.1 (fun h => noIt_sub (hit h) 1),
      ih (c.sub 2) hp.2 (fun h => noIt_sub (hit h) 2)⟩
  | ifThen cond eol k ih =>
    intro c hp hit
    exact ih _ hp (fun h => noIt_sub (noIt_sub (hit h) 0) 3)
  | ifElse cond eol t k ih =>
    intro c hp hit
    simp only [Ctx.plain, Bool.and_eq_true] at hp
    exact ⟨plain_linesFit src t _ hp.1 (fun h => noIt_sub (noIt_sub (hit h) 0) 3),
      ih _ hp.2 (fun h => noIt_sub (noIt_sub (hit h) 0) 6)⟩
  | whileS cond eol k ih =>
    intro c hp hit
    exact ih _ hp (fun h => noIt_sub (noIt_sub (hit h) 0) 3)
  | untilS cond eol k ih =>
    intro c hp hit
    exact ih _ hp (fun h => noIt_sub (noIt_sub (hit h) 0) 3)
  | func f p ps eol k ih =>
    intro c hp hit
    exact ih _ hp (fun h => noIt_sub (noIt_sub (hit h) 0) 5)

theorem progCtx_plain_fits {ab : Bool} (src : Str) (p : ProgCtx N) (c : Choices N)
    (hp : p.plain ab = true) (hit : ab = true → c.NoIt) : p.Fits src c := by
  obtain ⟨bs, k⟩ := p
  simp only [ProgCtx.plain, Bool.and_eq_true] at hp
  obtain ⟨hb, hk⟩ := hp
  simp only [ProgCtx.Fits]
  induction bs generalizing c with
  | nil => exact ctx_plain_fits src k _ hk (fun h => noIt_sub (hit h) 1)
  | cons b bs ih =>
    have hb' : stmtsPlain ab b = true ∧ progPlain ab bs = true := by
      simpa [progPlain] using hb
    exact ⟨plain_linesFit src b _ hb'.1 (fun h => noIt_sub (hit h) 1),
      ih (c.sub 3) (fun h => noIt_sub (hit h) 3) hb'.2⟩

end Grammar
end Rrss
