/-
  Rrss.Lemmas.ParserFuel — the parser never runs out of fuel:
  `parseProgram kw src ≠ .fuel` for every source text.

  `G n Q p`: on every state with fewer than `n` remaining tokens, `p` does not answer `.fuel`,
  an `.ok` result leaves at most as many tokens as it found, and strictly fewer if `Q` holds of
  the result value. The fields of `rec` are assumed `G n`; every non-recursive parser function
  `f rec` is shown `G (n+1)`: its body may call `rec` only after consuming a token.
-/
import Rrss.Parser
namespace Rrss
namespace Parser

variable {N : Type} {α β : Type}

/-- the parser specification used for fuel sufficiency -/
structure G (n : Nat) (Q : α → Bool) (p : P N α) : Prop where
  prop : ∀ st : PState N, st.toks.length < n →
    match p st with
    | .ok (a, st') => st'.toks.length ≤ st.toks.length ∧ (Q a = true → st'.toks.length < st.toks.length)
    | .fuel => False
    | _ => True

/-- no information about consumption -/
abbrev qF : α → Bool := fun _ => false
/-- always consumes -/
abbrev qT : α → Bool := fun _ => true

theorem G.mono {n m : Nat} {Q : α → Bool} {p : P N α} (h : G n Q p) (hm : m ≤ n) : G m Q p :=
  ⟨fun st hst => h.prop st (by omega)⟩

theorem G.weaken {n : Nat} {Q Q' : α → Bool} {p : P N α} (h : G n Q p)
    (hq : ∀ a, Q' a = true → Q a = true) : G n Q' p := by
  refine ⟨fun st hst => ?_⟩
  have h1 := h.prop st hst
  cases hp : p st with
  | ok r => obtain ⟨a, st'⟩ := r; rw [hp] at h1; exact ⟨h1.1, fun h' => h1.2 (hq a h')⟩
  | fuel => rw [hp] at h1; exact h1
  | err e => trivial
  | crash s => trivial
  | resource => trivial

theorem G.toF {n : Nat} {Q : α → Bool} {p : P N α} (h : G n Q p) : G n qF p :=
  h.weaken (by simp)

/-- sequencing without tracking consumption of `x` -/
theorem G.bind {n : Nat} {Q : α → Bool} {Q' : β → Bool} {x : P N α} {f : α → P N β}
    (hx : G n Q x) (hf : ∀ a, G n Q' (f a)) : G n Q' (P.bind x f) := by
  refine ⟨fun st hst => ?_⟩
  have h1 := hx.prop st hst
  simp only [P.bind]
  cases hxs : x st with
  | ok r =>
    obtain ⟨a, st'⟩ := r
    rw [hxs] at h1
    have h2 := (hf a).prop st' (by have := h1.1; omega)
    simp only
    cases hfs : f a st' with
    | ok r2 =>
      obtain ⟨b, st''⟩ := r2
      rw [hfs] at h2
      exact ⟨by have := h1.1; have := h2.1; omega, fun hq => by have := h1.1; have := h2.2 hq; omega⟩
    | fuel => rw [hfs] at h2; exact h2
    | err e => trivial
    | crash s => trivial
    | resource => trivial
  | fuel => rw [hxs] at h1; exact h1
  | err e => trivial
  | crash s => trivial
  | resource => trivial

/-- sequencing at a function's entry: after an `x` that consumed, `rec` may be called -/
theorem G.bindC {n : Nat} {Q : α → Bool} {Q' : β → Bool} {x : P N α} {f : α → P N β}
    (hx : G (n + 1) Q x) (hc : ∀ a, Q a = true → G n qF (f a))
    (hf : ∀ a, Q a = false → G (n + 1) Q' (f a)) : G (n + 1) Q' (P.bind x f) := by
  refine ⟨fun st hst => ?_⟩
  have h1 := hx.prop st hst
  simp only [P.bind]
  cases hxs : x st with
  | ok r =>
    obtain ⟨a, st'⟩ := r
    rw [hxs] at h1
    simp only
    cases hq : Q a with
    | true =>
      have hlt := h1.2 hq
      have h2 := (hc a hq).prop st' (by omega)
      cases hfs : f a st' with
      | ok r2 =>
        obtain ⟨b, st''⟩ := r2
        rw [hfs] at h2
        exact ⟨by have := h2.1; omega, fun _ => by have := h2.1; omega⟩
      | fuel => rw [hfs] at h2; exact h2
      | err e => trivial
      | crash s => trivial
      | resource => trivial
    | false =>
      have h2 := (hf a hq).prop st' (by have := h1.1; omega)
      cases hfs : f a st' with
      | ok r2 =>
        obtain ⟨b, st''⟩ := r2
        rw [hfs] at h2
        exact ⟨by have := h1.1; have := h2.1; omega, fun hq' => by have := h1.1; have := h2.2 hq'; omega⟩
      | fuel => rw [hfs] at h2; exact h2
      | err e => trivial
      | crash s => trivial
      | resource => trivial
  | fuel => rw [hxs] at h1; exact h1
  | err e => trivial
  | crash s => trivial
  | resource => trivial

/-! ### normal form of `do` blocks -/

@[simp] theorem P.bind_eq (x : P N α) (f : α → P N β) : (x >>= f) = P.bind x f := rfl
@[simp] theorem P.pure_eq (a : α) : (pure a : P N α) = P.pure a := rfl
@[simp] theorem P.map_eq (g : α → β) (x : P N α) : (g <$> x) = P.bind x (fun a => P.pure (g a)) := rfl

/-! ### primitives -/

theorem G.pure {n : Nat} {Q : α → Bool} {a : α} (h : Q a = false) : G n Q (P.pure a : P N α) := by
  refine ⟨fun st _ => ?_⟩; simp [P.pure, h]

theorem G.pure' {n : Nat} {Q : α → Bool} {a : α} (h : Q a = false) : G n Q (Pure.pure a : P N α) :=
  G.pure h

theorem G.failWith {n : Nat} {Q : α → Bool} {c : PCode N} : G n Q (failWith c : P N α) := by
  refine ⟨fun st _ => ?_⟩; simp [Parser.failWith]

theorem G.fail {n : Nat} {Q : α → Bool} {e : ParseErr N} : G n Q (P.fail e : P N α) := by
  refine ⟨fun st _ => ?_⟩; simp [P.fail]

theorem G.crash {n : Nat} {Q : α → Bool} {s : Site} : G n Q (P.crash s : P N α) := by
  refine ⟨fun st _ => ?_⟩; simp [P.crash]

theorem G.ofOption {n : Nat} {s : Site} {o : Option α} : G n qF (P.ofOption s o : P N α) := by
  cases o with
  | none => exact G.crash
  | some a => exact G.pure rfl

theorem current_good {n : Nat} : G n qF (current : P N _) := by
  refine ⟨fun st _ => ?_⟩; simp [current]

theorem currentMatches_good {n : Nat} {m : Tok N → Bool} : G n qF (currentMatches m) := by
  refine ⟨fun ⟨_, toks, _, _, _⟩ _ => ?_⟩; cases toks <;> simp [currentMatches]

theorem currentLine_good {n : Nat} : G n qF (currentLine : P N _) := by
  refine ⟨fun st _ => ?_⟩; simp [currentLine]

theorem currentLoc_good {n : Nat} : G n qF (currentLoc : P N _) := by
  refine ⟨fun st _ => ?_⟩
  by_cases h1 : st.last.idx ≤ ulen st.src <;> by_cases h2 : st.last.lineStart ≤ st.last.idx <;>
    simp [currentLoc, h1, h2]

theorem newParseError_good {n : Nat} {c : PCode N} : G n qF (newParseError c) := by
  refine ⟨fun st _ => ?_⟩; simp [newParseError]

theorem currentOrError_good {n : Nat} : G n qF (currentOrError : P N _) := by
  refine ⟨fun ⟨_, toks, _, _, _⟩ _ => ?_⟩; cases toks <;> simp [currentOrError]

theorem getParsingList_good {n : Nat} : G n qF (getParsingList : P N _) := by
  refine ⟨fun st _ => ?_⟩; simp [getParsingList]

theorem setParsingList_good {n : Nat} {b : Bool} : G n qF (setParsingList b : P N _) := by
  refine ⟨fun st _ => ?_⟩; simp [setParsingList]

theorem isCurrentNegativeNumber_good {n : Nat} : G n qF (isCurrentNegativeNumber : P N _) := by
  refine ⟨fun ⟨_, toks, _, _, _⟩ _ => ?_⟩; cases toks <;> simp [isCurrentNegativeNumber]

theorem advance_good {n : Nat} : G n Option.isSome (advance : P N _) := by
  refine ⟨fun ⟨_, toks, _, _, _⟩ _ => ?_⟩; cases toks <;> simp [advance]

theorem matchAndConsume_good {n : Nat} {m : Tok N → Bool} : G n Option.isSome (matchAndConsume m) := by
  refine ⟨fun ⟨_, toks, _, _, _⟩ _ => ?_⟩
  cases toks with
  | nil => simp [matchAndConsume]
  | cons t ts => by_cases h : m t = true <;> simp [matchAndConsume, h]

theorem consume_good {n : Nat} {m : Tok N → Bool} : G n qT (consume m) := by
  refine ⟨fun ⟨_, toks, _, _, _⟩ _ => ?_⟩
  cases toks with
  | nil => simp [consume]
  | cons t ts => by_cases h : m t = true <;> simp [consume, h]

theorem dropUntil_le (k : TK) (eof : Snap) (ts : List (Tok N)) (last : Snap) :
    (dropUntil k eof ts last).1.length ≤ ts.length := by
  induction ts generalizing last with
  | nil => simp [dropUntil]
  | cons t ts ih =>
    simp only [dropUntil]
    split
    · simp
    · have := ih t.after; simp; omega

theorem matchUntilNext_good {n : Nat} {k : TK} : G n qF (matchUntilNext k : P N _) := by
  refine ⟨fun st _ => ?_⟩; simp only [matchUntilNext]
  exact ⟨dropUntil_le _ _ _ _, by simp⟩

/-- leaves of the proof search (extended after each lemma) -/
syntax "pleaf" : tactic
macro_rules | `(tactic| pleaf) => `(tactic| assumption)
macro_rules | `(tactic| pleaf) => `(tactic| with_reducible first
  | exact G.failWith
  | exact G.fail
  | exact G.crash
  | exact G.ofOption
  | exact current_good
  | exact currentMatches_good
  | exact currentLine_good
  | exact currentLoc_good
  | exact newParseError_good
  | exact currentOrError_good
  | exact getParsingList_good
  | exact setParsingList_good
  | exact isCurrentNegativeNumber_good
  | exact advance_good
  | exact matchAndConsume_good
  | exact consume_good
  | exact matchUntilNext_good
  | exact G.toF advance_good
  | exact G.toF matchAndConsume_good
  | exact G.toF consume_good)
macro_rules | `(tactic| pleaf) => `(tactic|
  ((with_reducible first | refine G.pure ?_ | refine G.pure' ?_) <;> first | rfl | (simp; done)))

/-- register a lemma `foo_good : G n Q foo` (for all `n`) -/
macro "register_prim " id:ident : command =>
  `(macro_rules | `(tactic| pleaf) => `(tactic| with_reducible first | exact $id | exact G.toF $id))

/-- register a lemma `foo_good (hr : RecGood n rec) : G (n+1) Q (foo rec …)` -/
macro "register_good " id:ident : command =>
  `(macro_rules | `(tactic| pleaf) => `(tactic| with_reducible first
      | exact G.mono ($id (by assumption)) (by omega)
      | exact G.toF (G.mono ($id (by assumption)) (by omega))))

/-- one step of sequencing: at a function's entry (`G (n+1)`) track consumption of the first
    action (by the shape of its `Q`), otherwise plain sequencing -/
macro "pbind" : tactic => `(tactic| first
  | (refine G.bindC (Q := Option.isSome) (by pleaf) ?_ ?_ <;> intro a hq <;> cases a <;> simp at hq <;>
      try dsimp only)
  | refine G.bindC (Q := qT) (by pleaf) (fun a _ => ?_) (fun a hq => by simp at hq)
  | refine G.bindC (Q := qF) (by pleaf) (fun a hq => by simp at hq) (fun a _ => ?_)
  | refine G.bind (Q := qF) (by pleaf) (fun a => ?_)
  | refine G.bind (Q := qF) ?_ (fun a => ?_))

/-- proof search -/
macro "pauto" : tactic => `(tactic| repeat (first
  | ((with_reducible show G _ _ (P.bind _ _)); pbind)
  | split
  | pleaf
  | pbind))

/-- unfold to the normal form -/
macro "pnorm" : tactic => `(tactic| simp only [P.bind_eq, P.pure_eq, P.map_eq])

/-- a fact for every `n+1` holds for every `n` (`G 0` is vacuous) -/
theorem G.all {Q : α → Bool} {p : P N α} (h : ∀ n, G (n + 1) Q p) : ∀ {n}, G n Q p := by
  intro n
  cases n with
  | zero => exact ⟨fun st hst => by omega⟩
  | succ n => exact h n

theorem matchAndConsumeP_good {n : Nat} {m : Tok N → Outcome Unit Bool} :
    G n Option.isSome (matchAndConsumeP m) := by
  refine ⟨fun ⟨_, toks, _, _, _⟩ _ => ?_⟩
  cases toks with
  | nil => simp [matchAndConsumeP]
  | cons t ts =>
    simp only [matchAndConsumeP]
    cases hm : m t with
    | ok b => cases b <;> simp
    | _ => simp
register_prim matchAndConsumeP_good

/-- the hypothesis on `rec`: every field is good on states with fewer than `n` tokens -/
structure RecGood (n : Nat) (rec : Rec N) : Prop where
  unary : G n qF rec.unary
  primary : G n qF rec.primary
  subscriptChain : ∀ a i, G n qF (rec.subscriptChain a i)
  binLoop : ∀ l e, G n qF (rec.binLoop l e)
  listLoop : ∀ l, G n qF (rec.listLoop l)
  fancyLoop : ∀ e, G n qF (rec.fancyLoop e)
  argsLoop : G n qF rec.argsLoop
  paramsLoop : G n qF rec.paramsLoop
  poeticLoop : G n qF rec.poeticLoop
  buildKnockLoop : ∀ k, G n qF (rec.buildKnockLoop k)
  capitalizedLoop : G n qF rec.capitalizedLoop
  block : G n qF rec.block
  functionBlock : G n qF rec.functionBlock
  stmtLoop : G n qF rec.stmtLoop
  fnStmtLoop : G n qF rec.fnStmtLoop
  topLoop : G n qF rec.topLoop
  expression : G n qF rec.expression
  program : G n qF rec.program

macro_rules | `(tactic| pleaf) => `(tactic| with_reducible first
  | exact RecGood.unary (by assumption)
  | exact RecGood.primary (by assumption)
  | exact RecGood.subscriptChain (by assumption) _ _
  | exact RecGood.binLoop (by assumption) _ _
  | exact RecGood.listLoop (by assumption) _
  | exact RecGood.fancyLoop (by assumption) _
  | exact RecGood.argsLoop (by assumption)
  | exact RecGood.paramsLoop (by assumption)
  | exact RecGood.poeticLoop (by assumption)
  | exact RecGood.buildKnockLoop (by assumption) _
  | exact RecGood.capitalizedLoop (by assumption)
  | exact RecGood.block (by assumption)
  | exact RecGood.functionBlock (by assumption)
  | exact RecGood.stmtLoop (by assumption)
  | exact RecGood.fnStmtLoop (by assumption)
  | exact RecGood.topLoop (by assumption))

/-! ### the functions of the parser, bottom-up -/

theorem expectToken_good {n : Nat} {k : TK} : G n qT (expectToken k : P N _) :=
  G.all fun n => by unfold expectToken; pnorm; pauto
register_prim expectToken_good

theorem expectTokenOrEnd_good {n : Nat} {k : TK} : G n Option.isSome (expectTokenOrEnd k : P N _) :=
  G.all fun n => by unfold expectTokenOrEnd; pnorm; pauto
register_prim expectTokenOrEnd_good

theorem expectAny_good {n : Nat} {ks : List TK} : G n qT (expectAny ks : P N _) :=
  G.all fun n => by unfold expectAny; pnorm; pauto
register_prim expectAny_good

theorem expectEol_good {n : Nat} : G n qF (expectEol : P N _) :=
  G.all fun n => by unfold expectEol; pnorm; pauto
register_prim expectEol_good

set_option linter.unusedSectionVars false
variable [CharOps]

theorem expectTokenIspelled_good {n : Nat} {t : Str} : G n qT (expectTokenIspelled t : P N _) :=
  G.all fun n => by unfold expectTokenIspelled; pnorm; pauto
register_prim expectTokenIspelled_good

theorem parsePronoun_good {n : Nat} : G n Option.isSome (parsePronoun : P N _) :=
  G.all fun n => by unfold parsePronoun; pnorm; pauto
register_prim parsePronoun_good

theorem parseLiteralExpression_good {n : Nat} : G n qF (parseLiteralExpression : P N _) :=
  G.all fun n => by unfold parseLiteralExpression; pnorm; pauto
register_prim parseLiteralExpression_good

theorem parseCommonIdentifier_good {n : Nat} : G n Option.isSome (parseCommonIdentifier : P N _) :=
  G.all fun n => by unfold parseCommonIdentifier; pnorm; pauto
register_prim parseCommonIdentifier_good

theorem parseSimpleIdentifier_good {n : Nat} : G n Option.isSome (parseSimpleIdentifier : P N _) :=
  G.all fun n => by unfold parseSimpleIdentifier; pnorm; pauto
register_prim parseSimpleIdentifier_good

/-- hypotheses of generic lemmas, possibly at a larger bound -/
macro_rules | `(tactic| pleaf) => `(tactic| with_reducible first
  | exact G.mono (by assumption) (by omega)
  | exact G.toF (G.mono (by assumption) (by omega)))

variable {n : Nat} {rec : Rec N}

/-- a non-empty list -/
abbrev qNE {γ : Type} : List γ → Bool := fun l => !l.isEmpty

theorem capitalizedLoopBody_good (hr : RecGood n rec) : G (n + 1) qNE (capitalizedLoopBody rec) := by
  unfold capitalizedLoopBody; pnorm
  refine G.bindC (Q := Option.isSome) (by pleaf) ?_ ?_ <;> intro a hq <;> cases a <;> simp at hq <;> dsimp only
  · pauto
  · exact G.pure rfl
register_good capitalizedLoopBody_good

theorem parseCapitalizedIdentifier_good (hr : RecGood n rec) :
    G (n + 1) Option.isSome (parseCapitalizedIdentifier rec) := by
  unfold parseCapitalizedIdentifier; pnorm
  refine G.bindC (Q := qNE) (capitalizedLoopBody_good hr) ?_ ?_ <;> intro a hq
  · pauto
  · cases a with
    | nil => exact G.pure rfl
    | cons x xs => simp at hq
register_good parseCapitalizedIdentifier_good

theorem parseVariableName_good (hr : RecGood n rec) :
    G (n + 1) Option.isSome (parseVariableName rec) := by
  unfold parseVariableName; pnorm; pauto
register_good parseVariableName_good

theorem parseIdentifier_good (hr : RecGood n rec) :
    G (n + 1) Option.isSome (parseIdentifier rec) := by
  unfold parseIdentifier; pnorm; pauto
register_good parseIdentifier_good

theorem expectIdentifier_good (hr : RecGood n rec) : G (n + 1) qT (expectIdentifier rec) := by
  unfold expectIdentifier; pnorm; pauto
register_good expectIdentifier_good

theorem expectVariableName_good (hr : RecGood n rec) : G (n + 1) qT (expectVariableName rec) := by
  unfold expectVariableName; pnorm; pauto
register_good expectVariableName_good

theorem paramLoopBody_good {γ : Type} {p : P N γ} {again : P N (List γ)} {rc : Bool}
    (hp : G n qF p) (ha : G n qF again) : G (n + 1) qF (paramLoopBody p again rc) := by
  unfold paramLoopBody; pnorm; pauto

theorem argsLoopBody_good (hr : RecGood n rec) : G (n + 1) qF (argsLoopBody rec) :=
  paramLoopBody_good hr.unary hr.argsLoop
register_good argsLoopBody_good

theorem parseFunctionCall_good (hr : RecGood n rec) : G (n + 1) qT (parseFunctionCall rec) := by
  unfold parseFunctionCall parseParameterList; pnorm
  refine G.bindC (Q := qT) (by pleaf) (fun a _ => ?_) (fun a hq => by simp at hq)
  refine G.bind (Q := qF) (by pleaf) (fun a => ?_)
  refine G.bind (Q := qF) ((paramLoopBody_good hr.unary hr.argsLoop).mono (by omega)) (fun a => ?_)
  pauto
register_good parseFunctionCall_good

theorem parseIdentifierOrFunctionCall_good (hr : RecGood n rec) :
    G (n + 1) qF (parseIdentifierOrFunctionCall rec) := by
  unfold parseIdentifierOrFunctionCall; pnorm; pauto
register_good parseIdentifierOrFunctionCall_good

theorem parseArrayPopExpr_good (hr : RecGood n rec) : G (n + 1) qF (parseArrayPopExpr rec) := by
  unfold parseArrayPopExpr; pnorm; pauto
register_good parseArrayPopExpr_good

theorem parseNonSubscriptPrimary_good (hr : RecGood n rec) :
    G (n + 1) qF (parseNonSubscriptPrimary rec) := by
  unfold parseNonSubscriptPrimary; pnorm; pauto
register_good parseNonSubscriptPrimary_good

theorem subscriptChain_good (hr : RecGood n rec) (a i : Primary N) :
    G (n + 1) qF (subscriptChain rec a i) := by
  unfold subscriptChain; pnorm; pauto
macro_rules | `(tactic| pleaf) => `(tactic| with_reducible
  exact G.mono (subscriptChain_good (by assumption) _ _) (by omega))

theorem parseArraySubscriptAfter_good (hr : RecGood n rec) (e : Primary N) :
    G (n + 1) qF (parseArraySubscriptAfter rec e) := by
  unfold parseArraySubscriptAfter; pnorm; pauto
macro_rules | `(tactic| pleaf) => `(tactic| with_reducible
  exact G.mono (parseArraySubscriptAfter_good (by assumption) _) (by omega))

theorem parseAssignmentLhsWith_good (hr : RecGood n rec) (i : Ident) (r : Range) :
    G (n + 1) qF (parseAssignmentLhsWith rec i r) := by
  unfold parseAssignmentLhsWith; pnorm; pauto
macro_rules | `(tactic| pleaf) => `(tactic| with_reducible
  exact G.mono (parseAssignmentLhsWith_good (by assumption) _ _) (by omega))

theorem parseAssignmentLhs_good (hr : RecGood n rec) : G (n + 1) qT (parseAssignmentLhs rec) := by
  unfold parseAssignmentLhs; pnorm; pauto
register_good parseAssignmentLhs_good

theorem parsePrimary_good (hr : RecGood n rec) : G (n + 1) qF (parsePrimary rec) := by
  unfold parsePrimary; pnorm; pauto
register_good parsePrimary_good

theorem parseUnary_good (hr : RecGood n rec) : G (n + 1) qF (parseUnary rec) := by
  unfold parseUnary; pnorm; pauto
register_good parseUnary_good

theorem listLoopBody_good (hr : RecGood n rec) (lvl : Level) {next : P N (Expr N)}
    (hn : G (n + 1) qF next) : G (n + 1) qF (listLoopBody rec lvl next) := by
  unfold listLoopBody; pnorm; pauto

theorem parseExpressionList_good (hr : RecGood n rec) (lvl : Level) {next : P N (Expr N)}
    (hn : G (n + 1) qF next) : G (n + 1) qF (parseExpressionList rec lvl next) := by
  have := listLoopBody_good hr lvl hn
  unfold parseExpressionList; pnorm; pauto

theorem binLoopBody_good (hr : RecGood n rec) (lvl : Level) {next : P N (Expr N)}
    (hn : G (n + 1) qF next) (e : Expr N) : G (n + 1) qF (binLoopBody rec lvl next e) := by
  have := parseExpressionList_good hr lvl hn
  unfold binLoopBody; pnorm; pauto

theorem parseBinaryExpression_good (hr : RecGood n rec) (lvl : Level) {next : P N (Expr N)}
    (hn : G (n + 1) qF next) : G (n + 1) qF (parseBinaryExpression rec lvl next) := by
  unfold parseBinaryExpression; pnorm
  exact G.bind hn (fun e => binLoopBody_good hr lvl hn e)

theorem parseFactor_good (hr : RecGood n rec) : G (n + 1) qF (parseFactor rec) :=
  parseBinaryExpression_good hr _ (parseUnary_good hr)
register_good parseFactor_good

theorem parseTerm_good (hr : RecGood n rec) : G (n + 1) qF (parseTerm rec) :=
  parseBinaryExpression_good hr _ (parseFactor_good hr)
register_good parseTerm_good

theorem parseFancyComparison_good (hr : RecGood n rec) (e : Expr N) :
    G (n + 1) qF (parseFancyComparison rec e) := by
  unfold parseFancyComparison; pnorm; pauto
macro_rules | `(tactic| pleaf) => `(tactic| with_reducible
  exact G.mono (parseFancyComparison_good (by assumption) _) (by omega))

theorem fancyLoopBody_good (hr : RecGood n rec) (e : Expr N) :
    G (n + 1) qF (fancyLoopBody rec e) := by
  unfold fancyLoopBody; pnorm; pauto
macro_rules | `(tactic| pleaf) => `(tactic| with_reducible
  exact G.mono (fancyLoopBody_good (by assumption) _) (by omega))

theorem parseComparison_good (hr : RecGood n rec) : G (n + 1) qF (parseComparison rec) := by
  unfold parseComparison; pnorm
  refine G.bind (parseTerm_good hr) (fun e => ?_)
  refine G.bindC (Q := Option.isSome) (by pleaf) ?_ ?_ <;> intro a hq <;> cases a <;> simp at hq <;> dsimp only
  · pauto
  · exact binLoopBody_good hr .comparison (parseTerm_good hr) e
register_good parseComparison_good

theorem parseLogical_good (hr : RecGood n rec) : G (n + 1) qF (parseLogical rec) :=
  parseBinaryExpression_good hr _ (parseComparison_good hr)
register_good parseLogical_good

theorem parseExpression_good (hr : RecGood n rec) : G (n + 1) qF (parseExpression rec) :=
  parseLogical_good hr
register_good parseExpression_good

theorem parseToplevelExpressionList_good (hr : RecGood n rec) :
    G (n + 1) qF (parseToplevelExpressionList rec) :=
  parseExpressionList_good hr _ (parseExpression_good hr)
register_good parseToplevelExpressionList_good

theorem operandOf_good (hr : RecGood n rec) (lvl : Level) : G (n + 1) qF (operandOf rec lvl) := by
  cases lvl <;> simp only [operandOf] <;> pleaf

/-! ### statements -/

theorem getLiteralText_good {n : Nat} {says : Tok N} {stop : Option (Tok N)} :
    G n qF (getLiteralText says stop) := by
  refine ⟨fun st _ => ?_⟩
  simp only [getLiteralText]
  cases literalTextOf st.src says stop <;> simp
register_prim getLiteralText_good

theorem parsePutAssignment_good (hr : RecGood n rec) : G (n + 1) qT (parsePutAssignment rec) := by
  unfold parsePutAssignment; pnorm; pauto
register_good parsePutAssignment_good

theorem parseLetAssignment_good (hr : RecGood n rec) : G (n + 1) qT (parseLetAssignment rec) := by
  unfold parseLetAssignment; pnorm; pauto
register_good parseLetAssignment_good

set_option maxHeartbeats 4000000 in
theorem poeticLoopBody_good (hr : RecGood n rec) : G (n + 1) qF (poeticLoopBody rec) := by
  unfold poeticLoopBody; pnorm; pauto
register_good poeticLoopBody_good

theorem parsePoeticNumberLiteral_good (hr : RecGood n rec) :
    G (n + 1) qF (parsePoeticNumberLiteral rec) := by
  unfold parsePoeticNumberLiteral; pnorm; pauto
register_good parsePoeticNumberLiteral_good

theorem parsePoeticNumberAssignmentRhs_good (hr : RecGood n rec) :
    G (n + 1) qF (parsePoeticNumberAssignmentRhs rec) := by
  unfold parsePoeticNumberAssignmentRhs; pnorm; pauto
register_good parsePoeticNumberAssignmentRhs_good

theorem parsePoeticStringAssignmentRhs_good {n : Nat} {says : Tok N} :
    G n qF (parsePoeticStringAssignmentRhs says) :=
  G.all fun n => by unfold parsePoeticStringAssignmentRhs; pnorm; pauto
register_prim parsePoeticStringAssignmentRhs_good

theorem parsePoeticAssignment_good (hr : RecGood n rec) (i : Ident) (r : Range) :
    G (n + 1) qF (parsePoeticAssignment rec i r) := by
  unfold parsePoeticAssignment; pnorm; pauto
macro_rules | `(tactic| pleaf) => `(tactic| with_reducible
  exact G.mono (parsePoeticAssignment_good (by assumption) _ _) (by omega))

theorem paramsLoopBody_good (hr : RecGood n rec) : G (n + 1) qF (paramsLoopBody rec) :=
  paramLoopBody_good ((expectVariableName_good hr).toF.mono (by omega)) hr.paramsLoop
register_good paramsLoopBody_good

theorem parseFunction_good (hr : RecGood n rec) (name : VarName) (r : Range) :
    G (n + 1) qT (parseFunction rec name r) := by
  unfold parseFunction parseParameterList; pnorm
  refine G.bindC (Q := qT) (by pleaf) (fun a _ => ?_) (fun a hq => by simp at hq)
  have := (paramsLoopBody_good hr).mono (Nat.le_succ n)
  unfold paramsLoopBody at this
  pauto
macro_rules | `(tactic| pleaf) => `(tactic| with_reducible first
  | exact G.mono (parseFunction_good (by assumption) _ _) (by omega)
  | exact G.toF (G.mono (parseFunction_good (by assumption) _ _) (by omega)))

theorem asVariableName_good {n : Nat} {i : Ident} {r : Range} :
    G n qF (asVariableName i r : P N _) := by
  unfold asVariableName; cases i <;> pauto
register_prim asVariableName_good

theorem parseStatementStartingWithWord_good (hr : RecGood n rec) :
    G (n + 1) qT (parseStatementStartingWithWord rec) := by
  unfold parseStatementStartingWithWord; pnorm; pauto
register_good parseStatementStartingWithWord_good

theorem parseIfStatement_good (hr : RecGood n rec) : G (n + 1) qT (parseIfStatement rec) := by
  unfold parseIfStatement; pnorm; pauto
register_good parseIfStatement_good

theorem parseLoop_good (hr : RecGood n rec) (k : TK) : G (n + 1) qT (parseLoop rec k) := by
  unfold parseLoop; pnorm; pauto
macro_rules | `(tactic| pleaf) => `(tactic| with_reducible first
  | exact G.mono (parseLoop_good (by assumption) _) (by omega)
  | exact G.toF (G.mono (parseLoop_good (by assumption) _) (by omega)))

theorem buildKnockLoopBody_good (hr : RecGood n rec) (k : TK) :
    G (n + 1) qF (buildKnockLoopBody rec k) := by
  unfold buildKnockLoopBody; pnorm; pauto
macro_rules | `(tactic| pleaf) => `(tactic| with_reducible
  exact G.mono (buildKnockLoopBody_good (by assumption) _) (by omega))

theorem parseBuildKnockHelper_good (hr : RecGood n rec) (b s : TK) :
    G (n + 1) qT (parseBuildKnockHelper rec b s) := by
  unfold parseBuildKnockHelper; pnorm; pauto
macro_rules | `(tactic| pleaf) => `(tactic| with_reducible first
  | exact G.mono (parseBuildKnockHelper_good (by assumption) _ _) (by omega)
  | exact G.toF (G.mono (parseBuildKnockHelper_good (by assumption) _ _) (by omega)))

theorem parseBuild_good (hr : RecGood n rec) : G (n + 1) qT (parseBuild rec) := by
  unfold parseBuild; pnorm; pauto
register_good parseBuild_good

theorem parseKnock_good (hr : RecGood n rec) : G (n + 1) qT (parseKnock rec) := by
  unfold parseKnock; pnorm; pauto
register_good parseKnock_good

theorem parseSay_good (hr : RecGood n rec) : G (n + 1) qT (parseSay rec) := by
  unfold parseSay; pnorm; pauto
register_good parseSay_good

theorem parseListen_good (hr : RecGood n rec) : G (n + 1) qT (parseListen rec) := by
  unfold parseListen; pnorm; pauto
register_good parseListen_good

theorem checkMutationArgs_good {n : Nat} {o : Primary N} {d : Option (Lhs N)} :
    G n qF (checkMutationArgs o d) := by
  unfold checkMutationArgs; pauto
register_prim checkMutationArgs_good

set_option maxHeartbeats 4000000 in
theorem parseMutation_good (hr : RecGood n rec) : G (n + 1) qT (parseMutation rec) := by
  unfold parseMutation; pnorm; pauto
register_good parseMutation_good

theorem parseRoundingDirection_good {n : Nat} : G n qF (parseRoundingDirection : P N _) :=
  G.all fun n => by unfold parseRoundingDirection; pnorm; pauto
register_prim parseRoundingDirection_good

theorem parseRounding_good (hr : RecGood n rec) : G (n + 1) qT (parseRounding rec) := by
  unfold parseRounding; pnorm; pauto
register_good parseRounding_good

theorem parseBreak_good {n : Nat} : G n qT (parseBreak : P N _) :=
  G.all fun n => by unfold parseBreak; pnorm; pauto
register_prim parseBreak_good

theorem parseSimpleContinue_good {n : Nat} : G n qT (parseSimpleContinue : P N _) :=
  G.all fun n => by unfold parseSimpleContinue; pnorm; pauto
register_prim parseSimpleContinue_good

theorem parseTakeItToTheTop_good {n : Nat} : G n qT (parseTakeItToTheTop : P N _) :=
  G.all fun n => by unfold parseTakeItToTheTop; pnorm; pauto
register_prim parseTakeItToTheTop_good

theorem parseArrayPushRhs_good (hr : RecGood n rec) : G (n + 1) qF (parseArrayPushRhs rec) := by
  unfold parseArrayPushRhs; pnorm; pauto
register_good parseArrayPushRhs_good

theorem parseArrayPush_good (hr : RecGood n rec) : G (n + 1) qT (parseArrayPush rec) := by
  unfold parseArrayPush; pnorm; pauto
register_good parseArrayPush_good

theorem parseArrayPop_good (hr : RecGood n rec) : G (n + 1) qT (parseArrayPop rec) := by
  unfold parseArrayPop; pnorm; pauto
register_good parseArrayPop_good

theorem parseReturn_good (hr : RecGood n rec) : G (n + 1) qT (parseReturn rec) := by
  unfold parseReturn; pnorm; pauto
register_good parseReturn_good

set_option maxHeartbeats 4000000 in
theorem parseStatement_good (hr : RecGood n rec) : G (n + 1) Option.isSome (parseStatement rec) := by
  unfold parseStatement; pnorm; pauto
register_good parseStatement_good

theorem stmtLoopBody_good (hr : RecGood n rec) : G (n + 1) qF (stmtLoopBody rec) := by
  unfold stmtLoopBody; pnorm; pauto
register_good stmtLoopBody_good

theorem parseBlock_good (hr : RecGood n rec) : G (n + 1) qF (parseBlock rec) := by
  unfold parseBlock; pnorm; pauto
register_good parseBlock_good

theorem fnStmtLoopBody_good (hr : RecGood n rec) : G (n + 1) qF (fnStmtLoopBody rec) := by
  unfold fnStmtLoopBody; pnorm; pauto
register_good fnStmtLoopBody_good

theorem parseFunctionBlock_good (hr : RecGood n rec) : G (n + 1) qF (parseFunctionBlock rec) := by
  unfold parseFunctionBlock; pnorm; pauto
register_good parseFunctionBlock_good

end Parser
end Rrss
