/-
  Rrss.Lemmas.RoundTripBase — C02, parser half: basic machinery (running the parser monad on
  explicit states, `lastSnap`, stop lemmas for the primitives), the tree WITH ranges that the
  parser builds from an unparsed syntax (`ast`), and identifiers.
-/
import Rrss.Parser
import Rrss.Spec.Grammar
namespace Rrss
namespace Grammar
open Parser

variable {N : Type}

/-! ### states -/

/-- the `last` field after consuming `toks` -/
def lastSnap : List (Tok N) → Snap → Snap
  | [], l => l
  | t :: ts, _ => lastSnap ts t.after

@[simp] theorem lastSnap_nil (l : Snap) : lastSnap ([] : List (Tok N)) l = l := rfl
@[simp] theorem lastSnap_cons (t : Tok N) (ts l) : lastSnap (t :: ts) l = lastSnap ts t.after := rfl
@[simp] theorem lastSnap_append (a b : List (Tok N)) (l : Snap) :
    lastSnap (a ++ b) l = lastSnap b (lastSnap a l) := by
  induction a generalizing l with
  | nil => rfl
  | cons t ts ih => simp [ih]

/-! ### running the monad -/

theorem bind_run {α β} (x : P N α) (f : α → P N β) (st : PState N) :
    (x >>= f) st = match x st with
      | .ok (a, st') => f a st'
      | .err e => .err e
      | .crash s => .crash s
      | .fuel => .fuel
      | .resource => .resource := rfl

theorem pure_run {α} (a : α) (st : PState N) : (pure a : P N α) st = .ok (a, st) := rfl

theorem map_run {α β} (g : α → β) (x : P N α) (st : PState N) :
    (g <$> x) st = match x st with
      | .ok (a, st') => .ok (g a, st')
      | .err e => .err e
      | .crash s => .crash s
      | .fuel => .fuel
      | .resource => .resource := by
  show (x >>= fun a => pure (g a)) st = _
  rw [bind_run]; cases x st <;> rfl

theorem ofOption_some {α} (s : Site) (a : α) (st : PState N) :
    (P.ofOption s (some a) : P N α) st = .ok (a, st) := rfl

theorem mac_cons (m : Tok N → Bool) (src t ts last eof b) :
    matchAndConsume m ⟨src, t :: ts, last, eof, b⟩ =
      if m t then .ok (some t, ⟨src, ts, t.after, eof, b⟩)
      else .ok (none, ⟨src, t :: ts, last, eof, b⟩) := rfl

theorem mac_nil (m : Tok N → Bool) (src last eof b) :
    matchAndConsume m ⟨src, [], last, eof, b⟩ = .ok (none, ⟨src, [], last, eof, b⟩) := rfl

theorem consume_cons (m : Tok N → Bool) (src t ts last eof b) :
    consume m ⟨src, t :: ts, last, eof, b⟩ =
      if m t then .ok (t, ⟨src, ts, t.after, eof, b⟩) else .crash .parseConsume := rfl

theorem current_run (st : PState N) : current st = .ok (st.toks.head?, st) := rfl

theorem currentMatches_cons (m : Tok N → Bool) (src t ts last eof b) :
    currentMatches m ⟨src, t :: ts, last, eof, b⟩ = .ok (m t, ⟨src, t :: ts, last, eof, b⟩) := rfl

theorem currentMatches_nil (m : Tok N → Bool) (src last eof b) :
    currentMatches m ⟨src, [], last, eof, b⟩ = .ok (false, ⟨src, [], last, eof, b⟩) := rfl

theorem advance_cons (src) (t : Tok N) (ts last eof b) :
    advance ⟨src, t :: ts, last, eof, b⟩ = .ok (some t, ⟨src, ts, t.after, eof, b⟩) := rfl

/-! ### the next token -/

theorem nextIn_cons (ks : List TK) (t : Tok N) (ts) : nextIn ks (t :: ts) = ks.contains t.kind := rfl
@[simp] theorem nextIn_nil (ks : List TK) : nextIn ks ([] : List (Tok N)) = false := rfl

theorem nextIn_sub {ks ks' : List TK} {rest : List (Tok N)} (h : nextIn ks rest = false)
    (hs : ∀ k ∈ ks', k ∈ ks) : nextIn ks' rest = false := by
  cases rest with
  | nil => rfl
  | cons t ts =>
    simp only [nextIn_cons, List.contains_eq_mem, decide_eq_false_iff_not] at h ⊢
    exact fun hm => h (hs _ hm)

theorem nextIn_append {ks ks' : List TK} {rest : List (Tok N)} :
    nextIn (ks ++ ks') rest = false ↔ nextIn ks rest = false ∧ nextIn ks' rest = false := by
  cases rest with
  | nil => simp
  | cons t ts => simp [nextIn_cons]

/-- a token that is not wanted is not consumed -/
theorem mac_stop_any {ks : List TK} {rest : List (Tok N)} (h : nextIn ks rest = false)
    (src last eof b) :
    matchAndConsume (isAnyKind ks) ⟨src, rest, last, eof, b⟩ = .ok (none, ⟨src, rest, last, eof, b⟩) := by
  cases rest with
  | nil => rfl
  | cons t ts =>
    rw [mac_cons]
    have : isAnyKind ks t = false := by simpa [nextIn_cons, isAnyKind] using h
    simp [this]

theorem mac_stop_kind {k : TK} {rest : List (Tok N)} (h : nextIn [k] rest = false)
    (src last eof b) :
    matchAndConsume (isKind k) ⟨src, rest, last, eof, b⟩ = .ok (none, ⟨src, rest, last, eof, b⟩) := by
  cases rest with
  | nil => rfl
  | cons t ts =>
    rw [mac_cons]
    have : isKind k t = false := by
      simp only [nextIn_cons, List.contains_cons, List.contains_nil, Bool.or_false] at h
      simpa [isKind] using h
    simp [this]

theorem currentMatches_stop {k : TK} {rest : List (Tok N)} (h : nextIn [k] rest = false)
    (src last eof b) :
    currentMatches (isKind k) ⟨src, rest, last, eof, b⟩ = .ok (false, ⟨src, rest, last, eof, b⟩) := by
  cases rest with
  | nil => rfl
  | cons t ts =>
    rw [currentMatches_cons]
    have : isKind k t = false := by
      simp only [nextIn_cons, List.contains_cons, List.contains_nil, Bool.or_false] at h
      simpa [isKind] using h
    simp [this]

/-! ### tokens made by `tk` -/

@[simp] theorem tk_kw_kind (k : TK) (c : Choices N) : (tk (.kw k) c).kind = k := rfl
@[simp] theorem tk_word_kind (s : Str) (c : Choices N) : (tk (.word s) c).kind = .word := rfl
@[simp] theorem tk_word_spelling (s : Str) (c : Choices N) : (tk (.word s) c).spelling = s := rfl
@[simp] theorem tk_spelled_kind (k : TK) (s : Str) (c : Choices N) : (tk (.spelled k s) c).kind = k := rfl
@[simp] theorem tk_spelled_spelling (k : TK) (s : Str) (c : Choices N) :
    (tk (.spelled k s) c).spelling = s := rfl
@[simp] theorem tk_num_kind (n : N) (c : Choices N) : (tk (.num n) c).kind = .number := rfl
@[simp] theorem tk_str_kind (s : Str) (c : Choices N) : (tk (.str s) c).kind = .stringLit := rfl
@[simp] theorem tk_range (s : TokSpec N) (c : Choices N) : (tk s c).range = c.here.range := by
  cases s <;> rfl

/-! ### the tree with ranges -/

/-- spelling and range of each word of a capitalised name -/
def wordsNames : List Str → Choices N → List (Str × Range)
  | [], _ => []
  | w :: ws, c => (w, (c.sub 0).here.range) :: wordsNames ws (c.sub 1)

def VarSpec.range : VarSpec → Choices N → Range
  | .simple _, c => (c.sub 0).here.range
  | .common _ _ _, c => (c.sub 0).here.range.concat (c.sub 1).here.range
  | .proper w1 w2 ws, c => (accRanges ((wordsNames (w1 :: w2 :: ws) c).map Prod.snd)).getD default

mutual
def Prim.ast : Prim N → Choices N → Rrss.Primary N
  | .pronoun, c => .ident .pronoun (c.sub 0).here.range
  | .var v, c => .ident (.var v.toName) (v.range (c.sub 0))
  | .lit l, c => .lit l.toLit (c.sub 0).here.range
  | .call f a as, c => .call f.toName (f.range (c.sub 0)) (a.ast (c.sub 2) :: argsAst as (c.sub 3))
  | .pop p, c => .pop (p.ast (c.sub 1))
def Primary.ast : Primary N → Choices N → Rrss.Primary N
  | .mk h subs, c => subsAst subs (c.sub 1) (h.ast (c.sub 0))
def Unary.ast : Unary N → Choices N → Expr N
  | .mk ops p, c => ops.foldr (fun o e => Expr.un o e) (.prim (p.ast (c.sub 1)))
def argsAst : List (Unary N) → Choices N → List (Expr N)
  | [], _ => []
  | u :: us, c => u.ast (c.sub 1) :: argsAst us (c.sub 2)
def subsAst : List (Prim N) → Choices N → Rrss.Primary N → Rrss.Primary N
  | [], _, acc => acc
  | s :: ss, c, acc => subsAst ss (c.sub 2) (.sub acc (s.ast (c.sub 1)))
end

/-! ### identifiers -/

section
variable [CharOps]

omit [CharOps] in
theorem macP_cons (m : Tok N → Outcome Unit Bool) (src t ts last eof b) :
    matchAndConsumeP m ⟨src, t :: ts, last, eof, b⟩ =
      match m t with
      | .ok true => .ok (some t, ⟨src, ts, t.after, eof, b⟩)
      | .ok false => .ok (none, ⟨src, t :: ts, last, eof, b⟩)
      | .crash s => .crash s
      | _ => .resource := rfl

theorem capLoop_stop (rec : Rec N) {rest : List (Tok N)} (h : nextIn [.word] rest = false)
    (src last eof b) :
    capitalizedLoopBody rec ⟨src, rest, last, eof, b⟩ = .ok ([], ⟨src, rest, last, eof, b⟩) := by
  cases rest with
  | nil => rfl
  | cons t ts =>
    have hk : (t.kind == TK.word) = false := by
      simp only [nextIn_cons, List.contains_cons, List.contains_nil, Bool.or_false] at h
      simpa using h
    simp [capitalizedLoopBody, bind_run, macP_cons, isCapitalizedWord, hk, pure_run]

theorem capLoop_words (ws : List Str) : ∀ (c : Choices N) (n : Nat) (rest : List (Tok N)) src last eof b,
    ws.all capitalised = true → ws.length ≤ n → nextIn [.word] rest = false →
    capitalizedLoopBody (parser n) ⟨src, wordsToks ws c ++ rest, last, eof, b⟩
      = .ok (wordsNames ws c, ⟨src, rest, lastSnap (wordsToks ws c) last, eof, b⟩) := by
  induction ws with
  | nil =>
    intro c n rest src last eof b _ _ hr
    simpa [wordsToks, wordsNames] using capLoop_stop (parser n) hr src last eof b
  | cons w ws ih =>
    intro c n rest src last eof b hw hn hr
    cases n with
    | zero => simp at hn
    | succ n =>
      simp only [List.all_cons, Bool.and_eq_true] at hw
      obtain ⟨hw1, hw2⟩ := hw
      cases w with
      | nil => simp [capitalised] at hw1
      | cons ch w =>
        have hup : CharOps.isUppercase ch = true := by simpa [capitalised] using hw1
        have hrec : (parser (n + 1) : Rec N).capitalizedLoop = capitalizedLoopBody (parser n) := rfl
        rw [capitalizedLoopBody]
        simp only [wordsToks, List.cons_append, bind_run, macP_cons,
          isCapitalizedWord, tk_word_kind, tk_word_spelling, beq_self_eq_true, if_true, hup, hrec]
        rw [ih (c.sub 1) n rest src _ eof b hw2 (by simpa using hn) hr]
        simp [pure_run, wordsNames, tk_range]

omit [CharOps] in
theorem foldl_acc_some (rs : List Range) (a : Range) :
    ∃ x, List.foldl (fun acc r => some (match acc with | some sr => sr.concat r | none => r))
      (some a) rs = some x := by
  induction rs generalizing a with
  | nil => exact ⟨a, rfl⟩
  | cons r rs ih => simpa using ih (a.concat r)

omit [CharOps] in
theorem accRanges_cons_isSome (r : Range) (rs : List Range) : ∃ x, accRanges (r :: rs) = some x := by
  unfold accRanges
  simp only [List.foldl_cons]
  exact foldl_acc_some rs r

end

end Grammar
end Rrss
