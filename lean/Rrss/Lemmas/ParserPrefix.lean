/-
  Rrss.Lemmas.ParserPrefix — errors are fatal: a parse error found after a prefix of complete
  statements (inside a block) and of complete blocks (at top level) is the result of the whole
  parse. `StmtPrefix n st m st'`: from `st`, the statement loop at depth `n` parses a sequence of
  complete statements, each followed by its end of line, and arrives at depth `m` in `st'`.
  `TopPrefix n st m st'`: the same for the top-level loop and complete blocks.
-/
import Rrss.Lemmas.ParserCatalogue
namespace Rrss
namespace Parser

set_option linter.unusedVariables false
set_option linter.unusedSimpArgs false
set_option linter.unusedSectionVars false

variable {N : Type} [CharOps]

/-- a sequence of complete statements, each with its end of line -/
inductive StmtPrefix : Nat → PState N → Nat → PState N → Prop
  | refl (n : Nat) (st : PState N) : StmtPrefix n st n st
  | step {n m : Nat} {st st1 st2 st' : PState N} {s : Stmt N}
      (hs : parseStatement (parser n) st = .ok (some s, st1))
      (heol : expectEol st1 = .ok ((), st2))
      (hrest : StmtPrefix n st2 m st') : StmtPrefix (n + 1) st m st'

/-- a sequence of complete top-level blocks, none followed by a stray `else` -/
inductive TopPrefix : Nat → PState N → Nat → PState N → Prop
  | refl (n : Nat) (st : PState N) : TopPrefix n st n st
  | block {n m : Nat} {st st1 st' : PState N} {b : Block N}
      (hne : st.toks ≠ [])
      (hb : parseBlock (parser n) st = .ok (b, st1))
      (hnoelse : ∀ t, st1.toks.head? = some t → t.kind ∉ [TK.else_])
      (hrest : TopPrefix n st1 m st') : TopPrefix (n + 1) st m st'

theorem stmtLoop_succ (n : Nat) : (parser (n + 1) : Rec N).stmtLoop = stmtLoopBody (parser n) := rfl
theorem topLoop_succ (n : Nat) : (parser (n + 1) : Rec N).topLoop = topLoopBody (parser n) := rfl
theorem program_succ (n : Nat) :
    (parser (n + 1) : Rec N).program = parseProgramBody (parser n) := rfl

/-- an error of the statement loop after a prefix of complete statements is the error of the
    statement loop started before the prefix -/
theorem StmtPrefix.err {n m : Nat} {st st' : PState N} {e : ParseErr N}
    (h : StmtPrefix n st m st') (he : (parser m).stmtLoop st' = .err e) :
    (parser n).stmtLoop st = .err e := by
  induction h with
  | refl n st => exact he
  | step hs heol hrest ih =>
    rw [stmtLoop_succ]
    unfold stmtLoopBody
    simp only [P.bind_eq, P.bind, hs, heol, ih he]

/-- an error of the top-level loop after a prefix of complete blocks is the error of the
    top-level loop started before the prefix -/
theorem TopPrefix.err {n m : Nat} {st st' : PState N} {e : ParseErr N}
    (h : TopPrefix n st m st') (he : (parser m).topLoop st' = .err e) :
    (parser n).topLoop st = .err e := by
  induction h with
  | refl n st => exact he
  | @block n m st st1 st' b hne hb hnoelse hrest ih =>
    rw [topLoop_succ]
    unfold topLoopBody
    cases hs : st.toks with
    | nil => exact absurd hs hne
    | cons t ts =>
      have hcm : currentMatches (isKind .else_) st1 = .ok (false, st1) := by
        unfold currentMatches
        cases hs1 : st1.toks with
        | nil => rfl
        | cons t1 ts1 =>
          have := hnoelse t1 (by simp [hs1])
          simp at this
          simp [isKind, this]
      simp only [P.bind_eq, P.bind, current, hs, List.head?_cons, hb, topLoopAfterBlock, hcm,
        Bool.false_eq_true, if_false, ih he]

/-- the error of the top-level loop is the error of `Parser::parse` -/
theorem program_of_topLoop_err {n : Nat} {st : PState N} {e : ParseErr N}
    (h : (parser (n + 1)).topLoop st = .err e) : (parser (n + 1)).program st = .err e := by
  rw [program_succ]
  rw [topLoop_succ] at h
  unfold parseProgramBody
  simp only [P.bind_eq, P.bind, h]

/-- the error of the statement loop is the error of the block and of the top-level loop starting
    there -/
theorem topLoop_of_stmtLoop_err {n : Nat} {st : PState N} {e : ParseErr N} (hloc : LocOk st)
    (hnl : CurNotIn st [.newline]) (hne : st.toks ≠ [])
    (h : (parser (n + 1)).stmtLoop st = .err e) : (parser (n + 1)).topLoop st = .err e := by
  rw [topLoop_succ]
  rw [stmtLoop_succ] at h
  exact topLoopBody_of_parseBlock_err _ hne (parseBlock_of_stmtLoopBody_err _ hloc hnl h)

/-- an error of `parse_statement` is the error of the statement loop -/
theorem stmtLoop_of_parseStatement_err {n : Nat} {st : PState N} {e : ParseErr N}
    (h : parseStatement (parser n) st = .err e) : (parser (n + 1)).stmtLoop st = .err e := by
  rw [stmtLoop_succ]
  unfold stmtLoopBody
  simp only [P.bind_eq, P.bind, h]

end Parser
end Rrss
