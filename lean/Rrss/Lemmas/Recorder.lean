/-
  Rrss.Lemmas.Recorder — the recording visitor over a flat list of callbacks (for C16).
-/
import Rrss.Lemmas.Walk
namespace Rrss
open Spec.Nodes

theorem recorder_monoidal (N : Type) : (recorder N).Monoidal where
  assoc := List.append_assoc
  dflt_left := List.nil_append
  dflt_right := List.append_nil

namespace Recorder
variable {N : Type}

/-- what the recorder answers to the callback `ev` when it is invocation number `i` -/
def answer (ev : Event N) (i : Nat) : List Nat := if ev.isLeaf then [i] else []

/-- one recorded callback -/
def rec1 (ev : Event N) : VM (RecState N) Nat (List Nat) := recordEvent ev (answer ev)

/-- the recorder over a flat list of callbacks -/
def runEv : List (Event N) → List Nat → VM (RecState N) Nat (List Nat)
  | [], acc => pure acc
  | ev :: evs, acc => do
    let o ← rec1 ev
    runEv evs (acc ++ o)

theorem runEv_append (as bs : List (Event N)) (acc : List Nat) :
    runEv (as ++ bs) acc = runEv as acc >>= runEv bs := by
  induction as generalizing acc with
  | nil => simp only [List.nil_append, runEv, pure_bind]
  | cons a as ih => simp only [List.cons_append, runEv, ih, bind_assoc]

theorem pre_eq (d : Disp) :
    ((recorder N).pre d >>= fun _ => pure []) = rec1 (.disp d) := by
  funext s
  simp only [recorder, VM.bind_apply, rec1, recordEvent, answer, Event.isLeaf]
  by_cases h : s.failAt = some s.count <;> simp [h, VM.pure_apply]

theorem step_disp (d : Disp) : Flat.step (recorder N) (.disp d) = rec1 (.disp d) := pre_eq d

theorem step_leaf (l : Leaf N) (r : Range) :
    Flat.step (recorder N) (.leaf l r) = rec1 (.leaf l) := rfl

theorem step_name (c : Bool) (n : VarName) (r : Range) :
    Flat.step (recorder N) (.name c n r) =
      rec1 (.disp .varName) >>= fun a => rec1 (.leaf (nameLeaf n)) >>= fun b =>
      pure (a ++ b) := by
  have h : Flat.step (recorder N) (.name c n r) =
      (recorder N).pre .varName >>= fun _ => rec1 (.leaf (nameLeaf n)) := by
    cases n <;> rfl
  rw [h, ← pre_eq]
  simp only [bind_assoc, pure_bind, List.nil_append, bind_pure]

/-- the recorder over the nodes = the recorder over their callbacks -/
theorem run_eq_runEv (ns : List (Node N)) (acc : List Nat) :
    Flat.run (recorder N) ns acc = runEv (ns.flatMap Node.events) acc := by
  induction ns generalizing acc with
  | nil => rfl
  | cons n ns ih =>
    rw [List.flatMap_cons, runEv_append, Flat.run]
    simp only [ih]
    cases n with
    | disp d => simp only [step_disp, Node.events, runEv, bind_assoc, pure_bind]; rfl
    | leaf l r => simp only [step_leaf, Node.events, runEv, bind_assoc, pure_bind]; rfl
    | name c n r =>
      simp only [step_name, Node.events, runEv, bind_assoc, pure_bind, List.append_assoc]
      rfl

/-- positions of the leaf callbacks, counted from `k` -/
def idxFrom : Nat → List (Event N) → List Nat
  | _, [] => []
  | k, ev :: evs => answer ev k ++ idxFrom (k + 1) evs

/-- no failure point inside: everything is logged and the leaf positions are returned -/
theorem runEv_ok (evs : List (Event N)) (acc : List Nat) (s : RecState N)
    (h : ∀ i, s.failAt = some i → i < s.count ∨ s.count + evs.length ≤ i) :
    runEv evs acc s =
      (.ok (acc ++ idxFrom s.count evs),
       { s with log := evs.reverse ++ s.log, count := s.count + evs.length }) := by
  induction evs generalizing acc s with
  | nil => simp [runEv, idxFrom, VM.pure_apply]
  | cons ev evs ih =>
    have h0 : s.failAt ≠ some s.count := by
      intro h'; have := h _ h'; simp only [List.length_cons] at this; omega
    simp only [runEv, VM.bind_apply, rec1, recordEvent, if_neg h0]
    rw [ih]
    · simp [idxFrom, Nat.add_assoc, Nat.add_comm 1]
    · intro i hi
      have := h i hi
      simp only [List.length_cons] at this
      show i < s.count + 1 ∨ s.count + 1 + evs.length ≤ i
      omega

/-- failure point inside: the callbacks up to and including number `i` are logged -/
theorem runEv_fail (evs : List (Event N)) (acc : List Nat) (s : RecState N) (i : Nat)
    (hf : s.failAt = some i) (h1 : s.count ≤ i) (h2 : i < s.count + evs.length) :
    runEv evs acc s =
      (.error i,
       { s with log := (evs.take (i - s.count + 1)).reverse ++ s.log, count := i + 1 }) := by
  induction evs generalizing acc s with
  | nil => simp at h2; omega
  | cons ev evs ih =>
    simp only [runEv, VM.bind_apply, rec1, recordEvent]
    by_cases hc : i = s.count
    · subst hc
      simp [hf]
    · have h0 : s.failAt ≠ some s.count := by
        rw [hf]; intro h'; exact hc (Option.some.inj h')
      simp only [if_neg h0]
      have h2' : i < s.count + 1 + evs.length := by
        simp only [List.length_cons] at h2; omega
      have := ih (acc ++ answer ev s.count) { s with log := ev :: s.log, count := s.count + 1 }
        hf (show s.count + 1 ≤ i by omega) h2'
      rw [this]
      have : i - s.count + 1 = (i - (s.count + 1) + 1) + 1 := by omega
      simp [this]

theorem idxFrom_eq (k : Nat) (evs : List (Event N)) :
    idxFrom k evs = (leafIndices evs).map (· + k) := by
  induction evs generalizing k with
  | nil => rfl
  | cons ev evs ih =>
    simp only [idxFrom, ih, leafIndices, List.length_cons, List.range_succ_eq_map,
      List.filter_cons, List.filter_map]
    cases ev <;>
      simp [answer, Event.isLeaf, Function.comp_def, Nat.add_assoc, Nat.add_comm 1]

theorem idxFrom_zero (evs : List (Event N)) : idxFrom 0 evs = leafIndices evs := by
  simp [idxFrom_eq]

/-! decidable equality of recorder results, so that concrete walks can be evaluated by the
    kernel (`decide +kernel`) in examples -/
deriving instance DecidableEq for Lit
deriving instance DecidableEq for Leaf
deriving instance DecidableEq for Event
deriving instance DecidableEq for RecState
deriving instance DecidableEq for Except

end Recorder

/-! ### the recorder on a program -/

theorem recorder_program_ok {N : Type} (p : Program N) (s : RecState N)
    (h : ∀ i, s.failAt = some i → i < s.count ∨ s.count + (nodes p).length ≤ i) :
    Walk.program (recorder N) p s =
      (.ok (Recorder.idxFrom s.count (nodes p)),
       { s with log := (nodes p).reverse ++ s.log, count := s.count + (nodes p).length }) := by
  rw [Walk.program_eq (recorder_monoidal N), Flat.runD, Recorder.run_eq_runEv]
  exact (Recorder.runEv_ok (nodes p) [] s h).trans (by rw [List.nil_append])

theorem recorder_program_fail {N : Type} (p : Program N) (s : RecState N) (i : Nat)
    (hf : s.failAt = some i) (h1 : s.count ≤ i) (h2 : i < s.count + (nodes p).length) :
    Walk.program (recorder N) p s =
      (.error i,
       { s with log := ((nodes p).take (i - s.count + 1)).reverse ++ s.log, count := i + 1 }) := by
  rw [Walk.program_eq (recorder_monoidal N), Flat.runD, Recorder.run_eq_runEv]
  exact Recorder.runEv_fail (nodes p) [] s i hf h1 h2

end Rrss
