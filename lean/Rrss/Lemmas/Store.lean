/-
  Rrss.Lemmas.Store — helper definitions and lemmas for C06: the write path `Val.updateAt`,
  the read path `Val.index`, `push` / `pop`, and the link to `Rrss.Spec.Store`.
-/
import Rrss.Val
import Rrss.Spec.Store
namespace Rrss
namespace Val
variable {N : Type}
open NumOps

/-! ### vocabulary used by the C06 statements -/

/-- Writing through mysterious first turns it into a fresh array (`index_or_insert`). -/
def vivify : Val N → Val N
  | undef => emptyArr
  | v => v

/-- a position in the sequence part, or a key of the dictionary part -/
inductive Slot
  | idx (i : Nat)
  | key (k : Key)
  deriving DecidableEq

/-- Which cell of an array a subscript designates: numbers the position `n as usize`,
    mysterious / null / booleans / strings a dictionary key, arrays nothing. -/
def slot [NumOps N] : Val N → Option Slot
  | num n => some (.idx (toUSize n))
  | undef => some (.key .undef)
  | null => some (.key .null)
  | bool b => some (.key (.bool b))
  | str s => some (.key (.str s))
  | arr _ _ => none

/-- a subscript the write path accepts: not an array, and a number only below the two bounds -/
def WritableKey [NumOps N] (cap : Nat) : Val N → Prop
  | num n => toUSize n < cap ∧ toUSize n < usizeMax
  | arr _ _ => False
  | _ => True

/-- read along a path of subscripts, outermost first -/
def indexPath [NumOps N] : Val N → List (Val N) → VRes N (Val N)
  | v, [] => .ok v
  | v, k :: ks => (index v k).bind fun c => indexPath c ks

/-- The write path can walk `keys` from `v`: every value on the way is an array or mysterious,
    every subscript is writable. -/
def Walkable [NumOps N] (cap : Nat) : List (Val N) → Val N → Prop
  | [], _ => True
  | k :: ks, v =>
    (∃ s d, vivify v = arr s d) ∧ WritableKey cap k ∧
      ∀ c, index (vivify v) k = .ok c → Walkable cap ks c

/-- the abstract array behind a model array -/
def toSpec (seq : List (Val N)) (dict : List (Key × Val N)) : Spec.Store.Arr Key (Val N) :=
  ⟨seq, fun k => dlookup k dict⟩

/-- pop `n` times (model side), collecting what comes out -/
def popN [NumOps N] : Nat → Val N → VRes N (List (Val N) × Val N)
  | 0, a => .ok ([], a)
  | n + 1, a =>
    (pop a).bind fun (x, a') => (popN n a').bind fun (xs, a'') => .ok (x :: xs, a'')

/-! ### association-list dictionary -/

@[simp] theorem dlookup_dset_same (k : Key) (v : Val N) (d : List (Key × Val N)) :
    dlookup k (dset k v d) = some v := by
  induction d with
  | nil => simp [dset, dlookup]
  | cons p rest ih =>
    obtain ⟨k', v'⟩ := p
    by_cases h : k = k'
    · simp [dset, dlookup, h]
    · simp [dset, dlookup, h, ih]

theorem dlookup_dset_other (k k' : Key) (v : Val N) (d : List (Key × Val N)) (h : k' ≠ k) :
    dlookup k' (dset k v d) = dlookup k' d := by
  induction d with
  | nil => simp [dset, dlookup, h]
  | cons p rest ih =>
    obtain ⟨k₀, v₀⟩ := p
    by_cases h0 : k = k₀
    · subst h0; simp [dset, dlookup, h]
    · by_cases h1 : k' = k₀
      · simp [dset, dlookup, h0, h1]
      · simp [dset, dlookup, h0, h1, ih]

/-! ### extension of the sequence -/

theorem extendTo_length (seq : List (Val N)) (n : Nat) :
    (extendTo seq n).length = max seq.length n := by
  simp [extendTo]; omega

theorem extendTo_of_le (seq : List (Val N)) (n : Nat) (h : n ≤ seq.length) :
    extendTo seq n = seq := by
  simp [extendTo, Nat.sub_eq_zero_of_le h]

theorem extendTo_getElem? (seq : List (Val N)) (n j : Nat) :
    (extendTo seq n)[j]? =
      if j < seq.length then seq[j]? else if j < n then some undef else none := by
  simp only [extendTo, List.getElem?_append, List.getElem?_replicate]
  split
  · rfl
  · congr 1; apply propext; omega

theorem extendTo_getD (seq : List (Val N)) (n j : Nat) :
    ((extendTo seq n)[j]?).getD undef = (seq[j]?).getD undef := by
  rw [extendTo_getElem?]
  split
  · rfl
  · next h =>
    have : seq[j]? = none := by simp; omega
    rw [this]; split <;> rfl

theorem extendTo_self_getElem? (seq : List (Val N)) (i : Nat) :
    (extendTo seq (i + 1))[i]? = some ((seq[i]?).getD undef) := by
  rw [extendTo_getElem?]
  split
  · next h => simp [h]
  · next h =>
    have : seq[i]? = none := by simp; omega
    simp [this]

/-- the sequence after a write at `i` -/
theorem set_extendTo_getElem? (seq : List (Val N)) (i j : Nat) (x : Val N) :
    ((extendTo seq (i + 1)).set i x)[j]? =
      if j = i then some x
      else if j < seq.length then seq[j]?
      else if j < i + 1 then some undef else none := by
  rw [List.getElem?_set, extendTo_length, extendTo_getElem?]
  by_cases h : i = j
  · subst h
    have : i < max seq.length (i + 1) := by omega
    simp [this]
  · have h' : ¬ j = i := fun e => h e.symm
    simp [h, h']

theorem set_extendTo_getD_same (seq : List (Val N)) (i : Nat) (x : Val N) :
    (((extendTo seq (i + 1)).set i x)[i]?).getD undef = x := by
  simp [set_extendTo_getElem?]

theorem set_extendTo_getD_other (seq : List (Val N)) (i j : Nat) (x : Val N) (h : j ≠ i) :
    (((extendTo seq (i + 1)).set i x)[j]?).getD undef = (seq[j]?).getD undef := by
  rw [set_extendTo_getElem?, if_neg h]
  split
  · rfl
  · next hj =>
    have : seq[j]? = none := by simp; omega
    rw [this]; split <;> rfl

theorem set_extendTo_length (seq : List (Val N)) (i : Nat) (x : Val N) :
    ((extendTo seq (i + 1)).set i x).length = max seq.length (i + 1) := by
  simp [extendTo_length]

theorem set_extendTo_eq_spec (seq : List (Val N)) (i : Nat) (x : Val N) :
    (extendTo seq (i + 1)).set i x =
      (List.range (max seq.length (i + 1))).map fun j =>
        if j = i then x else (match seq[j]? with | some v => v | none => undef) := by
  apply List.ext_getElem?
  intro j
  rw [set_extendTo_getElem?]
  simp only [List.getElem?_map]
  by_cases hj : j < max seq.length (i + 1)
  · rw [List.getElem?_range hj]
    simp only [Option.map_some]
    by_cases hji : j = i
    · simp [hji]
    · simp only [if_neg hji]
      by_cases hl : j < seq.length
      · simp [hl]
      · have h1 : seq[j]? = none := by simp; omega
        have h2 : j < i + 1 := by omega
        simp [hl, h2]
  · have hr : (List.range (max seq.length (i + 1)))[j]? = none := by simp; omega
    rw [hr]
    have h1 : ¬ j = i := by omega
    have h2 : ¬ j < seq.length := by omega
    have h3 : ¬ j < i + 1 := by omega
    simp [h1, h2, h3]

variable [NumOps N]

/-! ### `vivify`, `slot`, `toKey` -/

omit [NumOps N] in
@[simp] theorem vivify_arr (s : List (Val N)) (d : List (Key × Val N)) :
    vivify (arr s d) = arr s d := rfl
omit [NumOps N] in
@[simp] theorem vivify_undef : vivify (undef : Val N) = emptyArr := rfl

omit [NumOps N] in
theorem vivify_of_ne_undef (v : Val N) (h : v ≠ undef) : vivify v = v := by
  cases v <;> first | rfl | exact absurd rfl h

omit [NumOps N] in
theorem vivify_vivify (v : Val N) : vivify (vivify v) = vivify v := by
  cases v <;> rfl

theorem slot_of_toKey {k : Val N} {key : Key} (h : toKey k = some key) :
    slot k = some (.key key) := by
  cases k <;> simp_all [toKey, slot]

omit [NumOps N] in
theorem toKey_num (n : N) : toKey (num n) = none := rfl

/-! ### one step of the write path -/

theorem updateAt_nil {β} (cap : Nat) (f : Val N → VRes N (Val N × β)) (v : Val N) :
    updateAt cap f [] v =
      match f v with
      | .ok (v', b) => (v', .ok b)
      | .err e => (v, .err e)
      | .crash s => (v, .crash s)
      | .fuel => (v, .fuel)
      | .resource => (v, .resource) := by
  simp only [updateAt]; rfl

theorem updateAt_cons_vivify {β} (cap : Nat) (f : Val N → VRes N (Val N × β)) (k : Val N)
    (ks : List (Val N)) (v : Val N) :
    updateAt cap f (k :: ks) v = updateAt cap f (k :: ks) (vivify v) := by
  cases v <;> rfl

theorem updateAt_cons_num {β} (cap : Nat) (f : Val N → VRes N (Val N × β)) (n : N)
    (ks : List (Val N)) (seq : List (Val N)) (dict : List (Key × Val N))
    (h1 : toUSize n < usizeMax) (h2 : toUSize n < cap) :
    updateAt cap f (num n :: ks) (arr seq dict) =
      (arr ((extendTo seq (toUSize n + 1)).set (toUSize n)
              (updateAt cap f ks ((seq[toUSize n]?).getD undef)).1) dict,
       (updateAt cap f ks ((seq[toUSize n]?).getD undef)).2) := by
  simp only [updateAt]
  rw [if_neg (by omega), if_neg (by omega)]
  have hseq : (if toUSize n ≥ seq.length then extendTo seq (toUSize n + 1) else seq)
      = extendTo seq (toUSize n + 1) := by
    split
    · rfl
    · exact (extendTo_of_le _ _ (by omega)).symm
  rw [hseq, extendTo_self_getElem?]

theorem updateAt_cons_num_max {β} (cap : Nat) (f : Val N → VRes N (Val N × β)) (n : N)
    (ks : List (Val N)) (seq : List (Val N)) (dict : List (Key × Val N))
    (h1 : usizeMax ≤ toUSize n) :
    updateAt cap f (num n :: ks) (arr seq dict) = (arr seq dict, .err (.invalidKey (num n))) := by
  simp only [updateAt]
  rw [if_pos (by omega)]

theorem updateAt_cons_num_cap {β} (cap : Nat) (f : Val N → VRes N (Val N × β)) (n : N)
    (ks : List (Val N)) (seq : List (Val N)) (dict : List (Key × Val N))
    (h1 : toUSize n < usizeMax) (h2 : cap ≤ toUSize n) :
    updateAt cap f (num n :: ks) (arr seq dict) = (arr seq dict, .resource) := by
  simp only [updateAt]
  rw [if_neg (by omega), if_pos (by omega)]

theorem updateAt_cons_arrkey {β} (cap : Nat) (f : Val N → VRes N (Val N × β))
    (ks s : List (Val N)) (d : List (Key × Val N))
    (seq : List (Val N)) (dict : List (Key × Val N)) :
    updateAt cap f (arr s d :: ks) (arr seq dict) =
      (arr seq dict, .err (.invalidKey (arr s d))) := by
  simp only [updateAt]

theorem updateAt_cons_key {β} (cap : Nat) (f : Val N → VRes N (Val N × β)) (k : Val N)
    (key : Key) (ks : List (Val N)) (seq : List (Val N)) (dict : List (Key × Val N))
    (hk : toKey k = some key) :
    updateAt cap f (k :: ks) (arr seq dict) =
      (arr seq (dset key (updateAt cap f ks ((dlookup key dict).getD undef)).1 dict),
       (updateAt cap f ks ((dlookup key dict).getD undef)).2) := by
  cases k <;> simp_all [updateAt, toKey]

theorem updateAt_cons_str {β} (cap : Nat) (f : Val N → VRes N (Val N × β)) (k : Val N)
    (ks : List (Val N)) (s : Str) :
    updateAt cap f (k :: ks) (str s) = (str s, .err (.indexNotAssignable k (str s))) := by
  simp only [updateAt]

theorem updateAt_cons_notIndexable {β} (cap : Nat) (f : Val N → VRes N (Val N × β)) (k : Val N)
    (ks : List (Val N)) (v : Val N) (h : v.kind = 1 ∨ v.kind = 2 ∨ v.kind = 3) :
    updateAt cap f (k :: ks) v = (v, .err (.notIndexable v)) := by
  cases v <;> simp_all [updateAt, kind]

/-! ### reading -/

theorem index_arr_num (seq : List (Val N)) (dict : List (Key × Val N)) (n : N) :
    index (arr seq dict) (num n) = .ok ((seq[toUSize n]?).getD undef) := rfl

theorem index_arr_key (seq : List (Val N)) (dict : List (Key × Val N)) (k : Val N) (key : Key)
    (hk : toKey k = some key) :
    index (arr seq dict) k = .ok ((dlookup key dict).getD undef) := by
  cases k <;> simp_all [index, toKey]

theorem index_arr_arrkey (seq s : List (Val N)) (dict d : List (Key × Val N)) :
    index (arr seq dict) (arr s d) = .err (.invalidKey (arr s d)) := rfl

omit [NumOps N] in
/-- a subscript is a number, an array, or has a dictionary key -/
theorem key_cases (k : Val N) :
    (∃ n, k = num n) ∨ (∃ s d, k = arr s d) ∨ (∃ key, toKey k = some key) := by
  cases k
  · exact .inr (.inr ⟨_, rfl⟩)
  · exact .inr (.inr ⟨_, rfl⟩)
  · exact .inr (.inr ⟨_, rfl⟩)
  · exact .inl ⟨_, rfl⟩
  · exact .inr (.inr ⟨_, rfl⟩)
  · exact .inr (.inl ⟨_, _, rfl⟩)

theorem writableKey_of_toKey {cap : Nat} {k : Val N} {key : Key} (h : toKey k = some key) :
    WritableKey cap k := by
  cases k <;> simp_all [toKey, WritableKey]

theorem writableKey_iff (cap : Nat) (k : Val N) :
    WritableKey cap k ↔
      ((∃ n, k = num n ∧ toUSize n < cap ∧ toUSize n < usizeMax) ∨ ∃ key, toKey k = some key) := by
  cases k <;> simp [WritableKey, toKey]

omit [NumOps N] in
theorem vivify_arr_iff (a : Val N) :
    (∃ s d, vivify a = arr s d) ↔ (a = undef ∨ ∃ s d, a = arr s d) := by
  cases a <;> simp [vivify, emptyArr]

omit [NumOps N] in
/-- a value is an array after vivification, a string, or not indexable at all -/
theorem vivify_cases (v : Val N) :
    (∃ s d, vivify v = arr s d) ∨ (∃ s, v = str s) ∨
      ((v.kind = 1 ∨ v.kind = 2 ∨ v.kind = 3)) := by
  cases v
  · exact .inl ⟨[], [], rfl⟩
  · exact .inr (.inr (.inl rfl))
  · exact .inr (.inr (.inr (.inl rfl)))
  · exact .inr (.inr (.inr (.inr rfl)))
  · exact .inr (.inl ⟨_, rfl⟩)
  · exact .inl ⟨_, _, rfl⟩

/-! ### the general one-step law of the write path

  Writing along `k :: ks` from `v` either stops at this level — then nothing but the
  vivification of `v` happened and the status is an error or `resource` — or it goes through
  the cell `c` that reading `vivify v` at `k` yields, and then the result reads back at `k` as
  the rewritten cell, with the status of the inner write. -/

theorem updateAt_step {β} (cap : Nat) (f : Val N → VRes N (Val N × β)) (k : Val N)
    (ks : List (Val N)) (v : Val N) :
    ((updateAt cap f (k :: ks) v).1 = vivify v ∧
      ((∃ e, (updateAt cap f (k :: ks) v).2 = .err e) ∨ (updateAt cap f (k :: ks) v).2 = .resource) ∧
      ¬ ((∃ s d, vivify v = arr s d) ∧ WritableKey cap k))
    ∨
    ((∃ s d, vivify v = arr s d) ∧ WritableKey cap k ∧
      ∃ c, index (vivify v) k = .ok c ∧
        (updateAt cap f (k :: ks) v).2 = (updateAt cap f ks c).2 ∧
        (∃ s' d', (updateAt cap f (k :: ks) v).1 = arr s' d') ∧
        index (updateAt cap f (k :: ks) v).1 k = .ok (updateAt cap f ks c).1) := by
  rw [updateAt_cons_vivify]
  rcases vivify_cases v with ⟨seq, dict, hv⟩ | ⟨s, rfl⟩ | hkind
  · rw [hv]
    rcases key_cases k with ⟨n, rfl⟩ | ⟨s, d, rfl⟩ | ⟨key, hk⟩
    · by_cases h1 : toUSize n < usizeMax
      · by_cases h2 : toUSize n < cap
        · right
          refine ⟨⟨_, _, rfl⟩, ⟨h2, h1⟩, _, index_arr_num _ _ _, ?_⟩
          rw [updateAt_cons_num cap f n ks seq dict h1 h2]
          refine ⟨rfl, ⟨_, _, rfl⟩, ?_⟩
          rw [index_arr_num, set_extendTo_getD_same]
        · left
          rw [updateAt_cons_num_cap cap f n ks seq dict h1 (by omega)]
          refine ⟨rfl, .inr rfl, ?_⟩
          rintro ⟨_, hw⟩; exact h2 hw.1
      · left
        rw [updateAt_cons_num_max cap f n ks seq dict (by omega)]
        refine ⟨rfl, .inl ⟨_, rfl⟩, ?_⟩
        rintro ⟨_, hw⟩; exact h1 hw.2
    · left
      rw [updateAt_cons_arrkey]
      refine ⟨rfl, .inl ⟨_, rfl⟩, ?_⟩
      rintro ⟨_, hw⟩; exact hw
    · right
      refine ⟨⟨_, _, rfl⟩, writableKey_of_toKey hk, _, index_arr_key _ _ _ _ hk, ?_⟩
      rw [updateAt_cons_key cap f k key ks seq dict hk]
      refine ⟨rfl, ⟨_, _, rfl⟩, ?_⟩
      rw [index_arr_key _ _ _ _ hk, dlookup_dset_same]; rfl
  · left
    rw [show vivify (str s : Val N) = str s from rfl, updateAt_cons_str]
    refine ⟨rfl, .inl ⟨_, rfl⟩, ?_⟩
    rintro ⟨⟨_, _, h⟩, _⟩; cases h
  · left
    have hv : vivify v = v := by
      cases v <;> simp_all [kind, vivify]
    rw [hv, updateAt_cons_notIndexable cap f k ks v hkind]
    refine ⟨rfl, .inl ⟨_, rfl⟩, ?_⟩
    rintro ⟨⟨_, _, h⟩, _⟩
    cases v <;> simp_all [kind]

/-! ### frame at one level: other subscripts read as before -/

theorem index_updateAt_other {β} (cap : Nat) (f : Val N → VRes N (Val N × β)) (k k' : Val N)
    (ks : List (Val N)) (v : Val N) (h : slot k ≠ slot k') :
    index (updateAt cap f (k :: ks) v).1 k' = index (vivify v) k' := by
  rw [updateAt_cons_vivify]
  rcases vivify_cases v with ⟨seq, dict, hv⟩ | ⟨s, rfl⟩ | hkind
  · rw [hv]
    rcases key_cases k with ⟨n, rfl⟩ | ⟨s, d, rfl⟩ | ⟨key, hk⟩
    · by_cases h1 : toUSize n < usizeMax
      · by_cases h2 : toUSize n < cap
        · rw [updateAt_cons_num cap f n ks seq dict h1 h2]
          rcases key_cases k' with ⟨m, rfl⟩ | ⟨s, d, rfl⟩ | ⟨key', hk'⟩
          · have hne : toUSize m ≠ toUSize n := by
              intro e; apply h; simp [slot, e]
            rw [index_arr_num, index_arr_num, set_extendTo_getD_other _ _ _ _ hne]
          · rfl
          · rw [index_arr_key _ _ _ _ hk', index_arr_key _ _ _ _ hk']
        · rw [updateAt_cons_num_cap cap f n ks seq dict h1 (by omega)]
      · rw [updateAt_cons_num_max cap f n ks seq dict (by omega)]
    · rw [updateAt_cons_arrkey]
    · rw [updateAt_cons_key cap f k key ks seq dict hk]
      rcases key_cases k' with ⟨m, rfl⟩ | ⟨s, d, rfl⟩ | ⟨key', hk'⟩
      · rfl
      · rfl
      · have hne : key' ≠ key := by
          intro e; apply h; rw [slot_of_toKey hk, slot_of_toKey hk', e]
        rw [index_arr_key _ _ _ _ hk', index_arr_key _ _ _ _ hk', dlookup_dset_other _ _ _ _ hne]
  · rw [show vivify (str s : Val N) = str s from rfl, updateAt_cons_str]
  · have hv : vivify v = v := by
      cases v <;> simp_all [kind, vivify]
    rw [hv, updateAt_cons_notIndexable cap f k ks v hkind]

/-! ### never a crash -/

theorem updateAt_no_crash {β} (cap : Nat) (f : Val N → VRes N (Val N × β))
    (hf : ∀ c s, f c ≠ .crash s) (keys : List (Val N)) (v : Val N) (s : Site) :
    (updateAt cap f keys v).2 ≠ .crash s := by
  induction keys generalizing v with
  | nil =>
    rw [updateAt_nil]
    have := hf v
    split <;> simp_all
  | cons k ks ih =>
    rcases updateAt_step cap f k ks v with ⟨_, h, _⟩ | ⟨_, _, c, _, h, _⟩
    · rcases h with ⟨e, h⟩ | h <;> rw [h] <;> simp
    · rw [h]; exact ih c

/-! ### paths -/

@[simp] theorem indexPath_nil (v : Val N) : indexPath v [] = .ok v := rfl
theorem indexPath_cons (v k : Val N) (ks : List (Val N)) :
    indexPath v (k :: ks) = (index v k).bind fun c => indexPath c ks := rfl

theorem indexPath_append (v : Val N) (p q : List (Val N)) :
    indexPath v (p ++ q) = (indexPath v p).bind fun c => indexPath c q := by
  induction p generalizing v with
  | nil => rfl
  | cons k ks ih =>
    simp only [List.cons_append, indexPath_cons]
    cases index v k <;> simp [Outcome.bind, ih]

theorem index_undef (k : Val N) : index (undef : Val N) k = .err (.notIndexable undef) := rfl

/-- a successful read never starts from mysterious, so vivification is invisible to it -/
theorem vivify_of_index_ok {v k c : Val N} (h : index v k = .ok c) : vivify v = v := by
  cases v <;> first | rfl | (rw [index_undef] at h; cases h)

/-- success of the write path ⇒ the value the closure produced can be read back -/
theorem indexPath_updateAt_same {β} (cap : Nat) (f : Val N → VRes N (Val N × β))
    (ks : List (Val N)) (v : Val N) (b : β) (h : (updateAt cap f ks v).2 = .ok b) :
    ∃ c c', f c = .ok (c', b) ∧ indexPath (updateAt cap f ks v).1 ks = .ok c' := by
  induction ks generalizing v with
  | nil =>
    rw [updateAt_nil] at h ⊢
    cases hf : f v with
    | ok p =>
      obtain ⟨v', b'⟩ := p
      rw [hf] at h
      simp only at h ⊢
      cases h
      exact ⟨v, v', hf, rfl⟩
    | err e => rw [hf] at h; cases h
    | crash s => rw [hf] at h; cases h
    | fuel => rw [hf] at h; cases h
    | resource => rw [hf] at h; cases h
  | cons k ks ih =>
    rcases updateAt_step cap f k ks v with ⟨_, hst, _⟩ | ⟨_, _, c, _, hst, _, hrd⟩
    · rcases hst with ⟨e, hst⟩ | hst <;> rw [hst] at h <;> cases h
    · rw [hst] at h
      obtain ⟨c0, c', hf, hp⟩ := ih c h
      refine ⟨c0, c', hf, ?_⟩
      rw [indexPath_cons, hrd]
      exact hp

/-- the write path with an always-succeeding closure succeeds exactly on walkable paths -/
theorem updateAt_ok_of_walkable {β} (cap : Nat) (x : Val N) (b : β)
    (ks : List (Val N)) (v : Val N) (h : Walkable cap ks v) :
    (updateAt cap (fun _ => .ok (x, b)) ks v).2 = .ok b := by
  induction ks generalizing v with
  | nil => rfl
  | cons k ks ih =>
    obtain ⟨ha, hk, hw⟩ := h
    rcases updateAt_step cap (fun _ => .ok (x, b)) k ks v with ⟨_, _, hn⟩ | ⟨_, _, c, hc, hst, _⟩
    · exact absurd ⟨ha, hk⟩ hn
    · rw [hst]; exact ih c (hw c hc)

theorem walkable_of_updateAt_ok {β} (cap : Nat) (f : Val N → VRes N (Val N × β)) (b : β)
    (ks : List (Val N)) (v : Val N) (h : (updateAt cap f ks v).2 = .ok b) :
    Walkable cap ks v := by
  induction ks generalizing v with
  | nil => trivial
  | cons k ks ih =>
    rcases updateAt_step cap f k ks v with ⟨_, hst, _⟩ | ⟨ha, hk, c, hc, hst, _⟩
    · rcases hst with ⟨e, hst⟩ | hst <;> rw [hst] at h <;> cases h
    · refine ⟨ha, hk, ?_⟩
      intro c' hc'
      rw [hc] at hc'
      cases hc'
      rw [hst] at h
      exact ih c h

/-- Path frame: a read that succeeded before, along a path that leaves the written path at a
    different subscript, yields the same value after the write — whatever the closure does and
    whether or not the write succeeds. -/
theorem indexPath_updateAt_other {β} (cap : Nat) (f : Val N → VRes N (Val N × β))
    (p : List (Val N)) (k k' : Val N) (r r' : List (Val N)) (v y : Val N)
    (hkk : slot k ≠ slot k') (hread : indexPath v (p ++ k' :: r') = .ok y) :
    indexPath (updateAt cap f (p ++ k :: r) v).1 (p ++ k' :: r') = .ok y := by
  induction p generalizing v with
  | nil =>
    simp only [List.nil_append, indexPath_cons] at hread ⊢
    rw [index_updateAt_other cap f k k' r v hkk]
    cases hi : index v k' with
    | ok c => rw [vivify_of_index_ok hi, hi]; rw [hi] at hread; exact hread
    | err e => rw [hi] at hread; cases hread
    | crash s => rw [hi] at hread; cases hread
    | fuel => rw [hi] at hread; cases hread
    | resource => rw [hi] at hread; cases hread
  | cons q p ih =>
    simp only [List.cons_append, indexPath_cons] at hread ⊢
    cases hi : index v q with
    | ok c =>
      rw [hi] at hread
      simp only [Outcome.bind_ok] at hread
      have hv := vivify_of_index_ok hi
      rcases updateAt_step cap f q (p ++ k :: r) v with ⟨h1, _, _⟩ | ⟨_, _, c0, hc0, _, _, hrd⟩
      · rw [h1, hv, hi]; exact hread
      · rw [hv, hi] at hc0
        cases hc0
        rw [hrd]
        exact ih c hread
    | err e => rw [hi] at hread; cases hread
    | crash s => rw [hi] at hread; cases hread
    | fuel => rw [hi] at hread; cases hread
    | resource => rw [hi] at hread; cases hread

/-! ### push / pop -/

omit [NumOps N] in
theorem push_arr (s vs : List (Val N)) (d : List (Key × Val N)) :
    push (arr s d) vs = .ok (arr (s ++ vs) d) := rfl

theorem popN_arr (n : Nat) (s : List (Val N)) (d : List (Key × Val N)) :
    popN n (arr s d) =
      .ok (s.take n ++ List.replicate (n - s.length) undef, arr (s.drop n) d) := by
  induction n generalizing s with
  | zero => simp [popN]
  | succ n ih =>
    cases s with
    | nil =>
      simp only [popN, pop, Outcome.bind_ok]
      rw [ih]
      simp [List.replicate_succ]
    | cons x xs =>
      simp only [popN, pop, Outcome.bind_ok]
      rw [ih]
      simp

omit [NumOps N] in
theorem toSpec_pop (s : List (Val N)) (d : List (Key × Val N)) :
    ∃ x s', pop (arr s d) = .ok (x, arr s' d) ∧
      Spec.Store.pop undef (toSpec s d) = (x, toSpec s' d) := by
  cases s with
  | nil => exact ⟨undef, [], rfl, rfl⟩
  | cons x xs => exact ⟨x, xs, rfl, rfl⟩

theorem toSpec_popN (n : Nat) (s : List (Val N)) (d : List (Key × Val N)) :
    ∃ xs s', popN n (arr s d) = .ok (xs, arr s' d) ∧
      Spec.Store.popN undef n (toSpec s d) = (xs, toSpec s' d) := by
  induction n generalizing s with
  | zero => exact ⟨[], s, rfl, rfl⟩
  | succ n ih =>
    cases s with
    | nil =>
      obtain ⟨xs, s', h1, h2⟩ := ih []
      refine ⟨undef :: xs, s', ?_, ?_⟩
      · simp only [popN, pop, Outcome.bind_ok, h1]
      · have : Spec.Store.pop undef (toSpec ([] : List (Val N)) d) = (undef, toSpec [] d) := rfl
        simp only [Spec.Store.popN, this, h2]
    | cons x t =>
      obtain ⟨xs, s', h1, h2⟩ := ih t
      refine ⟨x :: xs, s', ?_, ?_⟩
      · simp only [popN, pop, Outcome.bind_ok, h1]
      · have : Spec.Store.pop undef (toSpec (x :: t) d) = (x, toSpec t d) := rfl
        simp only [Spec.Store.popN, this, h2]

end Val
end Rrss
