/-
  Rrss.Lemmas.LintOrder — helpers for C19: `postprocess` is a stable sort by line; the
  constant-assignment pass never crashes; the repeated-identifier pass over a flat mention list.
-/
import Rrss.Lemmas.Walk
import Rrss.Lint
namespace Rrss
open Spec.Nodes

namespace Lint

/-! ### `postprocess` -/

theorem le_trans' (a b c : Diag) : decide (a.line ≤ b.line) = true → decide (b.line ≤ c.line) = true →
    decide (a.line ≤ c.line) = true := by
  simp only [decide_eq_true_eq]; exact Nat.le_trans

theorem le_total' (a b : Diag) : (decide (a.line ≤ b.line) || decide (b.line ≤ a.line)) = true := by
  simp only [Bool.or_eq_true, decide_eq_true_eq]; exact Nat.le_total _ _

theorem postprocess_sorted (ds : List Diag) :
    (postprocess ds).Pairwise fun a b => a.line ≤ b.line := by
  have := List.pairwise_mergeSort le_trans' le_total' ds
  simpa only [postprocess, decide_eq_true_eq] using this

theorem postprocess_perm (ds : List Diag) : (postprocess ds).Perm ds :=
  List.mergeSort_perm _ _

/-- stability: the diagnostics of any one line keep their relative order -/
theorem postprocess_stable (ds : List Diag) (l : Nat) :
    (postprocess ds).filter (fun d => d.line = l) = ds.filter (fun d => d.line = l) := by
  symm
  apply List.Sublist.eq_of_length
  · have hsub : (ds.filter (fun d => d.line = l)).Sublist (postprocess ds) := by
      apply List.sublist_mergeSort le_trans' le_total'
      · rw [List.pairwise_filter]
        apply List.pairwise_of_forall
        intro a b ha hb
        simp only [decide_eq_true_eq] at ha hb ⊢
        omega
      · exact List.filter_sublist
    have := hsub.filter (fun d => decide (d.line = l))
    simpa only [List.filter_filter, Bool.and_self] using this
  · exact ((postprocess_perm ds).filter _).length_eq.symm

/-! ### the constant-assignment pass never crashes -/

/-- the only crash site of the pass is unreachable on a text that has a poetic spelling -/
theorem templateOf_ok (t : Str) (h : hasPoeticSpelling t = true) : ∃ r, templateOf t = .ok r := by
  induction t with
  | nil => exact ⟨[], rfl⟩
  | cons c cs ih =>
    simp only [hasPoeticSpelling, List.all_cons, Bool.and_eq_true, Bool.or_eq_true, beq_iff_eq,
      isAsciiDigit, decide_eq_true_eq] at h
    obtain ⟨hc, hcs⟩ := h
    obtain ⟨r, hr⟩ := ih hcs
    unfold templateOf
    by_cases hd : c = '.'
    · exact ⟨.dot :: r, by simp [hd, hr]⟩
    · have h48 : ¬ c.toNat < 48 := by
        rcases hc with hc | hc
        · exact absurd hc hd
        · omega
      exact ⟨.word (c.toNat - 48) :: r, by simp [hd, h48, hr]⟩

variable {N : Type} [NumOps N]

theorem numericPayload_ok (pre var t : Str) : ∃ r, numericPayload pre var t = .ok r := by
  unfold numericPayload
  split
  · rename_i h
    obtain ⟨r, hr⟩ := templateOf_ok t h
    exact ⟨_, by rw [hr]; rfl⟩
  · exact ⟨_, rfl⟩

theorem numericDiag_ok (var : Str) (x : N) (line : Nat) :
    ∃ r, numericDiag var x line = .ok r := by
  obtain ⟨r, hr⟩ := numericPayload_ok [] (var ++ str% " is ") (NumOps.fmt x)
  exact ⟨_, by simp only [numericDiag, hr]; rfl⟩

theorem pushDiag_ok (var : Str) (x : N) (line : Nat) : ∃ r, pushDiag var x line = .ok r := by
  obtain ⟨r, hr⟩ := numericPayload_ok (str% "Rock ") (var ++ str% " like ") (NumOps.fmt x)
  exact ⟨_, by simp only [pushDiag, hr]; rfl⟩

theorem boringAssign_ok (dest : Lhs N) (op : Option BinOp) (value : ExprList N) :
    ∃ r, boringAssign dest op value = .ok r := by
  unfold boringAssign
  split
  · exact ⟨_, rfl⟩
  · dsimp only
    split
    · exact numericDiag_ok _ _ _
    · split <;> exact ⟨_, rfl⟩
    · exact ⟨_, rfl⟩

theorem boringPoetic_ok (dest : Lhs N) (rhs : PoeticRhs N) :
    ∃ r, boringPoetic dest rhs = .ok r := by
  unfold boringPoetic
  split
  · exact ⟨_, rfl⟩
  · dsimp only
    split
    · exact numericDiag_ok _ _ _
    · split <;> exact ⟨_, rfl⟩
    · exact ⟨_, rfl⟩

theorem boringPush_ok (arr : Primary N) (value : Option (PushRhs N)) :
    ∃ r, boringPush arr value = .ok r := by
  unfold boringPush
  split
  · split
    · exact pushDiag_ok _ _ _
    · exact ⟨_, rfl⟩
  · exact ⟨_, rfl⟩

mutual
theorem boringStmt_ok : (s : Stmt N) → ∃ r, boringStmt s = .ok r
  | .assign dest op value => by rw [boringStmt]; exact boringAssign_ok _ _ _
  | .poeticNum dest rhs => by rw [boringStmt]; exact boringPoetic_ok _ _
  | .push arr value => by rw [boringStmt]; exact boringPush_ok _ _
  | .ifS _ t none => by
    obtain ⟨a, ha⟩ := boringBlock_ok t
    exact ⟨a ++ [], by rw [boringStmt, ha]; rfl⟩
  | .ifS _ t (some b) => by
    obtain ⟨a, ha⟩ := boringBlock_ok t
    obtain ⟨c, hc⟩ := boringBlock_ok b
    exact ⟨a ++ c, by rw [boringStmt, ha]; simp only [Outcome.bind_ok, hc]⟩
  | .whileS _ b => by rw [boringStmt]; exact boringBlock_ok b
  | .untilS _ b => by rw [boringStmt]; exact boringBlock_ok b
  | .func _ _ _ body => by rw [boringStmt]; exact boringBlock_ok body
  | .poeticStr .. => ⟨[], by simp only [boringStmt]⟩
  | .inc .. => ⟨[], by simp only [boringStmt]⟩
  | .dec .. => ⟨[], by simp only [boringStmt]⟩
  | .input .. => ⟨[], by simp only [boringStmt]⟩
  | .output .. => ⟨[], by simp only [boringStmt]⟩
  | .mutation .. => ⟨[], by simp only [boringStmt]⟩
  | .rounding .. => ⟨[], by simp only [boringStmt]⟩
  | .continue_ .. => ⟨[], by simp only [boringStmt]⟩
  | .break_ .. => ⟨[], by simp only [boringStmt]⟩
  | .pop .. => ⟨[], by simp only [boringStmt]⟩
  | .ret .. => ⟨[], by simp only [boringStmt]⟩
  | .call .. => ⟨[], by simp only [boringStmt]⟩
theorem boringBlock_ok : (b : Block N) → ∃ r, boringBlock b = .ok r
  | .mk _ ss => by rw [boringBlock]; exact boringStmts_ok ss
theorem boringStmts_ok : (ss : List (Stmt N)) → ∃ r, boringStmts ss = .ok r
  | [] => ⟨[], by rw [boringStmts]⟩
  | s :: ss => by
    obtain ⟨a, ha⟩ := boringStmt_ok s
    obtain ⟨b, hb⟩ := boringStmts_ok ss
    exact ⟨a ++ b, by rw [boringStmts, ha]; simp only [Outcome.bind_ok, hb]⟩
end

theorem boringBlocks_ok (bs : List (Block N)) : ∃ r, boringBlocks bs = .ok r := by
  induction bs with
  | nil => exact ⟨_, rfl⟩
  | cons b bs ih =>
    obtain ⟨a, ha⟩ := boringBlock_ok b
    obtain ⟨c, hc⟩ := ih
    exact ⟨a ++ c, by simp only [boringBlocks, ha, hc, Outcome.bind_ok]⟩

theorem run_ok (p : Program N) : ∃ boring, boringBlocks p.code = .ok boring ∧
    run p = .ok (postprocess (boring ++ missedPronouns p)) := by
  obtain ⟨b, hb⟩ := boringBlocks_ok p.code
  exact ⟨b, hb, by simp only [run, hb, Outcome.bind_ok]⟩

/-! ### the repeated-identifier pass -/

theorem missed_monoidal (N : Type) : (missedVisitor N).Monoidal where
  assoc := List.append_assoc
  dflt_left := List.nil_append
  dflt_right := List.append_nil

/-- the pass over a flat list of mentions, from pass state `last` -/
def missedFrom : Option VarName → List Mention → List Diag
  | _, [] => []
  | last, m :: ms =>
    if m.isCallee = false ∧ last = some m.name then missedDiag m.name m.line :: missedFrom last ms
    else missedFrom (some m.name) ms

omit [NumOps N] in
theorem run_cons_apply {σ Out E : Type} (v : Visitor N σ Out E) (n : Node N) (ns : List (Node N))
    (acc : Out) (s : σ) :
    Flat.run v (n :: ns) acc s = match Flat.step v n s with
      | (.ok o, s') => Flat.run v ns (v.combine acc o) s'
      | (.error e, s') => (.error e, s') := by
  simp only [Flat.run, VM.bind_apply]
  rcases Flat.step v n s with ⟨(e | a), s'⟩ <;> rfl

omit [NumOps N] in
theorem missed_run (ns : List (Node N)) (acc : List Diag) (last : Option VarName) :
    ∃ last', Flat.run (missedVisitor N) ns acc last =
      (.ok (acc ++ missedFrom last (ns.filterMap Node.mention?)), last') := by
  induction ns generalizing acc last with
  | nil => exact ⟨last, by simp [Flat.run, VM.pure_apply, missedFrom]⟩
  | cons n ns ih =>
    cases n with
    | disp d =>
      obtain ⟨l', h⟩ := ih acc last
      refine ⟨l', ?_⟩
      have hs : Flat.step (missedVisitor N) (.disp d) last = (.ok [], last) := rfl
      rw [run_cons_apply, hs]
      show Flat.run _ ns (acc ++ []) last = _
      rw [List.append_nil, h]; rfl
    | leaf l r =>
      obtain ⟨l', h⟩ := ih acc last
      refine ⟨l', ?_⟩
      have hs : Flat.step (missedVisitor N) (.leaf l r) last = (.ok [], last) := rfl
      rw [run_cons_apply, hs]
      show Flat.run _ ns (acc ++ []) last = _
      rw [List.append_nil, h]; rfl
    | name c n r =>
      have hs : Flat.step (missedVisitor N) (.name c n r) last =
          if (!c && last == some n) = true then (.ok [missedDiag n r.line], last)
          else (.ok [], some n) := rfl
      have hf : (Node.name c n r :: ns).filterMap Node.mention? =
          ⟨n, r.line, c⟩ :: ns.filterMap Node.mention? := rfl
      by_cases hm : c = false ∧ last = some n
      · obtain ⟨l', h⟩ := ih (acc ++ [missedDiag n r.line]) last
        refine ⟨l', ?_⟩
        have hc : (!c && last == some n) = true := by simp [hm.1, hm.2]
        rw [run_cons_apply, hs, if_pos hc]
        show Flat.run _ ns (acc ++ [missedDiag n r.line]) last = _
        rw [h, hf, missedFrom, if_pos hm, List.append_assoc]; rfl
      · obtain ⟨l', h⟩ := ih acc (some n)
        refine ⟨l', ?_⟩
        have hc : ¬ (!c && last == some n) = true := by
          simpa only [Bool.and_eq_true, Bool.not_eq_true', beq_iff_eq] using hm
        rw [run_cons_apply, hs, if_neg hc]
        show Flat.run _ ns (acc ++ []) (some n) = _
        rw [List.append_nil, h, hf, missedFrom, if_neg hm]

omit [NumOps N] in
theorem missedPronouns_eq_missedFrom (p : Program N) :
    missedPronouns p = missedFrom none (mentions p) := by
  obtain ⟨l', h⟩ := missed_run (enum p) [] none
  have h' : Walk.program (missedVisitor N) p none = (.ok (missedFrom none (mentions p)), l') := by
    rw [Walk.program_eq (missed_monoidal N)]
    exact h
  simp only [missedPronouns, h']

theorem missedFrom_eq_zip (last : Option VarName) (ms : List Mention) :
    missedFrom last ms =
      (((ms.zip (last :: ms.map fun m => some m.name)).filter fun mp =>
          mp.1.isCallee = false ∧ mp.2 = some mp.1.name).map (·.1)).map
        fun m => missedDiag m.name m.line := by
  induction ms generalizing last with
  | nil => rfl
  | cons m ms ih =>
    simp only [missedFrom, List.map_cons, List.zip_cons_cons, List.filter_cons]
    by_cases hm : m.isCallee = false ∧ last = some m.name
    · simp only [hm, and_self, if_true, decide_true, List.map_cons]
      rw [← hm.2, ih]
    · simp only [hm, if_false, decide_false]
      rw [ih]
      simp

/-! decidable equality of lint results, so that concrete runs can be evaluated by the kernel
    (`decide +kernel`) in examples -/
deriving instance DecidableEq for Outcome

theorem missedFrom_none (ms : List Mention) :
    missedFrom none ms = (repeated ms).map fun m => missedDiag m.name m.line :=
  missedFrom_eq_zip none ms

end Lint

theorem Spec.Nodes.withPrev_getElem? (ms : List Mention) (i : Nat) (h : i < ms.length) :
    (withPrev ms)[i]? =
      some (ms[i], if i = 0 then none else (ms[i - 1]?).map (·.name)) := by
  cases i with
  | zero =>
    cases ms with
    | nil => simp at h
    | cons m ms => simp [withPrev]
  | succ i =>
    simp [withPrev, List.getElem?_zip_eq_some, List.getElem?_eq_getElem h,
      List.getElem?_eq_getElem (Nat.lt_of_succ_lt h)]

end Rrss
