/-
  Rrss.Lemmas.LexerTiling — consequences of `Tiling` in the vocabulary of property C12:
  per-token slices and positions, ordering, ignorable gaps; `Range` normalisation facts.
-/
import Rrss.Lemmas.LexerInv
namespace Rrss
namespace Lexer
open Spec

set_option linter.unusedSectionVars false

variable {N : Type}

section
variable [CharOps]

/-- every token of a tiling is a correct token right after some prefix of the source -/
theorem Tiling.tok_at [NumOps N] {kw : List (Str × TK)} {toks : List (Tok N)} :
    ∀ {pre rest : Str}, Tiling kw pre rest toks → ∀ t ∈ toks,
      ∃ p post, pre ++ rest = p ++ t.spelling ++ post ∧ TokAt kw p t := by
  induction toks with
  | nil => intro _ _ _ t ht; simp at ht
  | cons u us ih =>
    intro pre rest h t ht
    obtain ⟨gap, post, h1, _, h3, _, h4⟩ := h
    rcases List.mem_cons.mp ht with rfl | ht
    · exact ⟨pre ++ gap, post, by rw [h1]; simp, h3⟩
    · obtain ⟨p, post', k1, k2⟩ := ih h4 t ht
      exact ⟨p, post', by rw [h1, ← k1]; simp, k2⟩

/-- the snapshot stored in every token of a tiling: index and line counters of a prefix of the
    source that ends at or after the token -/
theorem Tiling.snap_at [NumOps N] {kw : List (Str × TK)} {toks : List (Tok N)} :
    ∀ {pre rest : Str}, Tiling kw pre rest toks → ∀ t ∈ toks,
      ∃ p post, pre ++ rest = p ++ post ∧ t.after.idx = ulen p ∧
        LineOK t.after.line t.after.lineStart p ∧ t.start + ulen t.spelling ≤ ulen p := by
  induction toks with
  | nil => intro _ _ _ t ht; simp at ht
  | cons u us ih =>
    intro pre rest h t ht
    obtain ⟨gap, post, h1, _, h3, ⟨ga, post', k1, _, k3, k4⟩, h4⟩ := h
    rcases List.mem_cons.mp ht with rfl | ht
    · refine ⟨pre ++ gap ++ t.spelling ++ ga, post', by rw [h1, k1]; simp, k3, k4, ?_⟩
      rw [h3.start_eq]; simp; omega
    · obtain ⟨p, post'', j1, j2⟩ := ih h4 t ht
      exact ⟨p, post'', by rw [h1, ← j1]; simp, j2⟩

theorem Tiling.start_ge [NumOps N] {kw : List (Str × TK)} {toks : List (Tok N)} :
    ∀ {pre rest : Str}, Tiling kw pre rest toks → ∀ t ∈ toks, ulen pre ≤ t.start := by
  induction toks with
  | nil => intro _ _ _ t ht; simp at ht
  | cons u us ih =>
    intro pre rest h t ht
    obtain ⟨gap, post, _, _, h3, _, h4⟩ := h
    rcases List.mem_cons.mp ht with rfl | ht
    · rw [h3.start_eq]; simp
    · have := ih h4 t ht
      simp at this; omega

/-- tokens are ordered and do not overlap -/
theorem Tiling.pairwise [NumOps N] {kw : List (Str × TK)} {toks : List (Tok N)} :
    ∀ {pre rest : Str}, Tiling kw pre rest toks →
      toks.Pairwise (fun t u => t.start + ulen t.spelling ≤ u.start) := by
  induction toks with
  | nil => intro _ _ _; exact List.Pairwise.nil
  | cons u us ih =>
    intro pre rest h
    obtain ⟨gap, post, _, _, h3, _, h4⟩ := h
    refine List.Pairwise.cons ?_ (ih h4)
    intro v hv
    have := Tiling.start_ge h4 v hv
    rw [h3.start_eq]
    simp at this ⊢; omega

/-- where a character of `a ++ b` sits -/
theorem split_cases {a b p q : Str} {c : Char} (h : a ++ b = p ++ c :: q) :
    (∃ m, p = a ++ m ∧ b = m ++ c :: q) ∨ (∃ k, a = p ++ c :: k ∧ q = k ++ b) := by
  rcases List.append_eq_append_iff.mp h with ⟨m, h1, h2⟩ | ⟨k, h1, h2⟩
  · left; exact ⟨m, h1, h2⟩
  · cases k with
    | nil => left; exact ⟨[], by simpa using h1.symm, by simpa using h2.symm⟩
    | cons d k' =>
      simp at h2
      right; exact ⟨k', by rw [h1, h2.1], h2.2⟩

/-- every character outside all token spans is ignorable -/
theorem Tiling.gaps [NumOps N] {kw : List (Str × TK)} {toks : List (Tok N)} :
    ∀ {pre rest : Str}, Tiling kw pre rest toks → ∀ (m q : Str) (c : Char),
      rest = m ++ c :: q →
      (∀ t ∈ toks, ¬ (t.start ≤ ulen (pre ++ m) ∧ ulen (pre ++ m) < t.start + ulen t.spelling)) →
      Ign c := by
  induction toks with
  | nil =>
    intro pre rest h m q c hr _
    exact h c (by rw [hr]; simp)
  | cons u us ih =>
    intro pre rest h m q c hr hnc
    obtain ⟨gap, post, h1, h2, h3, _, h4⟩ := h
    have h5 : gap ++ (u.spelling ++ post) = m ++ c :: q := by rw [← hr, h1]; simp
    rcases split_cases h5 with ⟨m1, k1, k2⟩ | ⟨k, k1, _⟩
    · rcases split_cases k2 with ⟨m2, j1, j2⟩ | ⟨k, j1, _⟩
      · -- in the text after the token
        refine ih h4 m2 q c j2 ?_
        intro t ht
        have := hnc t (List.mem_cons_of_mem _ ht)
        rw [k1, j1] at this
        simpa [List.append_assoc] using this
      · -- inside the token: excluded
        exfalso
        apply hnc u (List.mem_cons_self ..)
        have hpos := usize_pos c
        rw [h3.start_eq, k1, j1]
        simp; omega
    · exact h2 c (by rw [k1]; simp)

/-! ### the snapshot of the exhausted lexer -/

/-- line counters after the last token (those given, if there is no token) -/
def finalLS : Nat × Nat → List (Tok N) → Nat × Nat
  | init, [] => init
  | _, u :: us => finalLS (u.after.line, u.after.lineStart) us

theorem finalLS_eq_getLast (init : Nat × Nat) (toks : List (Tok N)) :
    finalLS init toks =
      match toks.getLast? with
      | none => init
      | some t => (t.after.line, t.after.lineStart) := by
  induction toks generalizing init with
  | nil => rfl
  | cons u us ih =>
    rw [finalLS, ih]
    cases us with
    | nil => rfl
    | cons v vs =>
      rw [List.getLast?_cons_cons]
      cases h : (v :: vs).getLast? with
      | none => simp at h
      | some t => rfl

theorem eofSnap_eq_finalLS (src : Str) (toks : List (Tok N)) :
    eofSnap src toks = ⟨(finalLS (1, 0) toks).1, (finalLS (1, 0) toks).2, ulen src⟩ := by
  rw [finalLS_eq_getLast]
  unfold eofSnap
  cases toks.getLast? <;> rfl

theorem Ign_ne_nl {c : Char} (h : Ign c) : c ≠ '\n' := by
  intro he; subst he
  rcases h with h | h | h
  · simp [isIgnorableWhitespace] at h
  · revert h; decide
  · revert h; decide

/-- the line counters of the exhausted lexer belong to the end of the source -/
theorem Tiling.eof_line [NumOps N] {kw : List (Str × TK)} {toks : List (Tok N)} :
    ∀ {pre rest : Str} {l0 ls0 : Nat}, Tiling kw pre rest toks →
      ∀ (ga rest' : Str), rest = ga ++ rest' → (∀ c ∈ ga, c = '\'') →
        LineOK l0 ls0 (pre ++ ga) →
        LineOK (finalLS (l0, ls0) toks).1 (finalLS (l0, ls0) toks).2 (pre ++ rest) := by
  induction toks with
  | nil =>
    intro pre rest l0 ls0 h ga rest' hr _ hl
    have hno : NoNl rest' := NoNl_of_forall fun x hx => Ign_ne_nl (h x (by rw [hr]; simp [hx]))
    have := hl.append hno
    rw [hr]; simpa [finalLS] using this
  | cons u us ih =>
    intro pre rest l0 ls0 h ga rest' _ _ _
    obtain ⟨gap, post, h1, _, _, ⟨ga', post', k1, k2, _, k4⟩, h4⟩ := h
    have := ih (l0 := u.after.line) (ls0 := u.after.lineStart) h4 ga' post' k1 k2 k4
    rw [h1]
    simpa [finalLS] using this

end

/-! ### source_range.rs -/

theorem Loc.le_refl' (a : Loc) : a.le a = true := by simp [Loc.le]

theorem Loc.le_trans' {a b c : Loc} (h1 : a.le b = true) (h2 : b.le c = true) : a.le c = true := by
  simp only [Loc.le, Bool.or_eq_true, Bool.and_eq_true, decide_eq_true_eq, beq_iff_eq] at *
  omega

theorem Loc.le_of_not_lt {a b : Loc} (h : b.lt a = false) : a.le b = true := by
  simp only [Loc.le, Loc.lt, Bool.or_eq_true, Bool.and_eq_true, decide_eq_true_eq, beq_iff_eq,
    Bool.or_eq_false_iff, Bool.and_eq_false_iff, decide_eq_false_iff_not,
    beq_eq_false_iff_ne] at *
  omega

theorem Loc.le_of_lt {a b : Loc} (h : a.lt b = true) : a.le b = true := by
  simp only [Loc.le, Loc.lt, Bool.or_eq_true, Bool.and_eq_true, decide_eq_true_eq,
    beq_iff_eq] at *
  omega

/-- `SourceRange::new` is normalised -/
theorem Range.new_normalized (s e : Loc) : (Range.new s e).start.le (Range.new s e).stop = true := by
  unfold Range.new
  cases h : e.lt s with
  | true => simpa using Loc.le_of_lt h
  | false => simpa using Loc.le_of_not_lt h

/-- `concat` of two normalised ranges is normalised and starts at the smaller start -/
theorem Range.concat_normalized (a b : Range) (ha : a.start.le a.stop = true)
    (hb : b.start.le b.stop = true) :
    (a.concat b).start.le (a.concat b).stop = true ∧
    (a.concat b).start = (if a.start.le b.start then a.start else b.start) ∧
    (a.concat b).start.le a.start = true ∧ (a.concat b).start.le b.start = true := by
  obtain ⟨⟨l1, c1⟩, ⟨l2, c2⟩⟩ := a
  obtain ⟨⟨l3, c3⟩, ⟨l4, c4⟩⟩ := b
  simp only [Range.concat, Range.le, Loc.le, Loc.lt, Bool.or_eq_true, Bool.and_eq_true,
    decide_eq_true_eq, beq_iff_eq, Loc.mk.injEq] at *
  split <;> rename_i h
  · refine ⟨by simp; omega, ?_, by simp, by simp; omega⟩
    rw [if_pos (by omega)]
  · refine ⟨by simp; omega, ?_, by simp; omega, by simp⟩
    split
    · simp; omega
    · rfl

end Lexer
end Rrss
