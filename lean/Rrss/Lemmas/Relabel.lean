/-
  Rrss.Lemmas.Relabel — the tokens of the grammar (Rrss/Spec/Grammar.lean) can be re-labelled:
  if a token list `ts` agrees with `progToks bs c` token by token on the four fields the grammar
  can fix (kind, spelling, number payload, text payload: `Spelling.tview`), then `ts` IS
  `progToks bs c'` for templates `c'` with the same picks, every template being one of the `ts`
  or a given default token.  This is what turns the tokens of a lexer run into a `Choices`.

  Method: every `toks` function is a flat concatenation of components applied to `c.sub k` with
  pairwise distinct `k` (possibly guarded by conditions on the picks); `RL` (re-labelling) is
  closed under these constructions, given that the components read disjoint sets of first path
  indices (`Uses`).
-/
import Rrss.Spec.Spelling
import Rrss.Lemmas.RoundTripEof
set_option linter.unusedSectionVars false
set_option linter.unusedVariables false
namespace Rrss
namespace Grammar
open Spelling (tview)

variable {N : Type}

/-! ### the combinators -/

theorem mkTok_of_view {spec : TokSpec N} {t u : Tok N} (h : tview (mkTok spec t) = tview u) :
    mkTok spec u = u := by
  obtain ⟨k, sp, st, rg, nm, tx, le, af⟩ := u
  cases spec <;>
    (simp only [tview, mkTok, Prod.mk.injEq] at h
     obtain ⟨h1, h2, h3, h4⟩ := h
     simp only [mkTok]
     try subst h1
     try subst h2
     try subst h3
     try subst h4
     rfl)

/-- `F` can be re-labelled -/
def RL (d : Tok N) (F : Choices N → List (Tok N)) : Prop :=
  ∀ (c : Choices N) (ts : List (Tok N)), (F c).map tview = ts.map tview →
    ∃ tk' : List Nat → Tok N, F ⟨c.pick, tk'⟩ = ts ∧ ∀ p, tk' p ∈ d :: ts

/-- `F` reads template tokens only at paths whose first index is in `I` -/
def Uses (F : Choices N → List (Tok N)) (I : List Nat) : Prop :=
  ∀ c c' : Choices N, c.pick = c'.pick → (∀ i ∈ I, ∀ q, c.tok (i :: q) = c'.tok (i :: q)) →
    F c = F c'

structure RLU (d : Tok N) (F : Choices N → List (Tok N)) (I : List Nat) : Prop where
  rl : RL d F
  uses : Uses F I

theorem RL.congr {d : Tok N} {F G : Choices N → List (Tok N)} (h : ∀ c, F c = G c)
    (hG : RL d G) : RL d F := by
  have : F = G := funext h
  rw [this]; exact hG

theorem RLU.congr {d : Tok N} {F G : Choices N → List (Tok N)} {I : List Nat}
    (h : ∀ c, F c = G c) (hG : RLU d G I) : RLU d F I := by
  have : F = G := funext h
  rw [this]; exact hG

theorem RLU.mono {d : Tok N} {F : Choices N → List (Tok N)} {I J : List Nat}
    (h : RLU d F I) (hIJ : ∀ i ∈ I, i ∈ J) : RLU d F J :=
  ⟨h.rl, fun c c' hp ht => h.uses c c' hp (fun i hi q => ht i (hIJ i hi) q)⟩

theorem RLU.nil (d : Tok N) : RLU d (fun _ => ([] : List (Tok N))) [] := by
  refine ⟨fun c ts h => ⟨fun _ => d, ?_, fun _ => by simp⟩, fun _ _ _ _ => rfl⟩
  have : ts = [] := by simpa using h.symm
  rw [this]

/-- one token whose template sits at the root of the choices -/
theorem RL.here (d : Tok N) (s : Choices N → TokSpec N)
    (hs : ∀ c c' : Choices N, c.pick = c'.pick → s c = s c') :
    RL d (fun c => [tk (s c) c]) := by
  intro c ts h
  cases ts with
  | nil => simp at h
  | cons u us =>
    cases us with
    | cons v vs => simp at h
    | nil =>
      simp only [List.map_cons, List.map_nil, List.cons.injEq, and_true] at h
      refine ⟨fun _ => u, ?_, fun _ => by simp⟩
      have e : s ⟨c.pick, fun _ => u⟩ = s c := hs _ _ rfl
      show [mkTok (s ⟨c.pick, fun _ => u⟩) u] = [u]
      rw [e, mkTok_of_view h]

theorem RLU.sub {d : Tok N} {G : Choices N → List (Tok N)} (i : Nat) (hG : RL d G) :
    RLU d (fun c => G (c.sub i)) [i] := by
  refine ⟨fun c ts h => ?_, fun c c' hp ht => ?_⟩
  · obtain ⟨tkG, h1, h2⟩ := hG (c.sub i) ts h
    refine ⟨fun p => match p with
      | j :: q => if j = i then tkG q else d
      | [] => d, ?_, ?_⟩
    · have e : (Choices.sub ⟨c.pick, fun p => match p with
          | j :: q => if j = i then tkG q else d
          | [] => d⟩ i : Choices N) = ⟨(c.sub i).pick, tkG⟩ := by
        simp [Choices.sub]
      rw [e]; exact h1
    · intro p
      cases p with
      | nil => simp
      | cons j q =>
        by_cases hj : j = i
        · simp only [hj, if_true]; exact h2 q
        · simp only [hj, if_false]; simp
  · have e : c.sub i = c'.sub i := by
      simp only [Choices.sub, hp]
      congr 1
      funext p
      exact ht i (by simp) p
    rw [e]

/-- one token whose template sits at `c.sub i` -/
theorem RLU.tk (d : Tok N) (s : Choices N → TokSpec N)
    (hs : ∀ c c' : Choices N, c.pick = c'.pick → s c = s c') (i : Nat) :
    RLU d (fun c => [tk (s c) (c.sub i)]) [i] := by
  refine ⟨fun c ts h => ?_, fun c c' hp ht => ?_⟩
  · cases ts with
    | nil => simp at h
    | cons u us =>
      cases us with
      | cons v vs => simp at h
      | nil =>
        simp only [List.map_cons, List.map_nil, List.cons.injEq, and_true] at h
        refine ⟨fun _ => u, ?_, fun _ => by simp⟩
        have e : s ⟨c.pick, fun _ => u⟩ = s c := hs _ _ rfl
        show [mkTok (s ⟨c.pick, fun _ => u⟩) u] = [u]
        rw [e, mkTok_of_view h]
  · show [mkTok (s c) (c.tok [i])] = [mkTok (s c') (c'.tok [i])]
    rw [hs c c' hp, ht i (by simp) []]

theorem RLU.tk0 (d : Tok N) (spec : TokSpec N) (i : Nat) :
    RLU d (fun c => [Grammar.tk spec (c.sub i)]) [i] :=
  RLU.tk d (fun _ => spec) (fun _ _ _ => rfl) i

theorem RLU.append {d : Tok N} {F G : Choices N → List (Tok N)} {I J : List Nat}
    (hF : RLU d F I) (hG : RLU d G J) (hdis : ∀ i ∈ I, i ∉ J) :
    RLU d (fun c => F c ++ G c) (I ++ J) := by
  refine ⟨fun c ts h => ?_, fun c c' hp ht => ?_⟩
  · rw [List.map_append] at h
    obtain ⟨ts1, ts2, hts, h1, h2⟩ := List.map_eq_append_iff.mp h.symm
    obtain ⟨tkF, f1, f2⟩ := hF.rl c ts1 h1.symm
    obtain ⟨tkG, g1, g2⟩ := hG.rl c ts2 h2.symm
    refine ⟨fun p => match p with
      | j :: q => if j ∈ I then tkF (j :: q) else tkG (j :: q)
      | [] => d, ?_, ?_⟩
    · have eF : F ⟨c.pick, fun p => match p with
          | j :: q => if j ∈ I then tkF (j :: q) else tkG (j :: q)
          | [] => d⟩ = F ⟨c.pick, tkF⟩ :=
        hF.uses _ _ rfl (fun i hi q => by simp only [hi, if_true])
      have eG : G ⟨c.pick, fun p => match p with
          | j :: q => if j ∈ I then tkF (j :: q) else tkG (j :: q)
          | [] => d⟩ = G ⟨c.pick, tkG⟩ :=
        hG.uses _ _ rfl (fun j hj q => by
          have : j ∉ I := fun hi => hdis j hi hj
          simp only [this, if_false])
      show F _ ++ G _ = ts
      rw [eF, eG, f1, g1, hts]
    · intro p
      rw [hts]
      cases p with
      | nil => simp
      | cons j q =>
        by_cases hj : j ∈ I
        · simp only [hj, if_true]
          rcases List.mem_cons.mp (f2 (j :: q)) with h | h
          · simp [h]
          · simp [h]
        · simp only [hj, if_false]
          rcases List.mem_cons.mp (g2 (j :: q)) with h | h
          · simp [h]
          · simp [h]
  · show F c ++ G c = F c' ++ G c'
    rw [hF.uses c c' hp (fun i hi q => ht i (by simp [hi]) q),
      hG.uses c c' hp (fun i hi q => ht i (by simp [hi]) q)]

/-- a token in front -/
theorem RLU.cons_tk {d : Tok N} {G : Choices N → List (Tok N)} {J : List Nat}
    (s : Choices N → TokSpec N) (hs : ∀ c c' : Choices N, c.pick = c'.pick → s c = s c') (i : Nat)
    (hG : RLU d G J) (hi : i ∉ J) :
    RLU d (fun c => Grammar.tk (s c) (c.sub i) :: G c) (i :: J) :=
  RLU.append (RLU.tk d s hs i) hG (by intro j hj; simp at hj; subst hj; exact hi)

theorem RLU.cons_tk0 {d : Tok N} {G : Choices N → List (Tok N)} {J : List Nat}
    (spec : TokSpec N) (i : Nat) (hG : RLU d G J) (hi : i ∉ J) :
    RLU d (fun c => Grammar.tk spec (c.sub i) :: G c) (i :: J) :=
  RLU.cons_tk (fun _ => spec) (fun _ _ _ => rfl) i hG hi

/-- a condition on the picks -/
theorem RLU.ite {d : Tok N} {F G : Choices N → List (Tok N)} {I J : List Nat}
    (P : Choices N → Prop) [DecidablePred P]
    (hP : ∀ c c' : Choices N, c.pick = c'.pick → (P c ↔ P c'))
    (hF : RLU d F I) (hG : RLU d G J) :
    RLU d (fun c => if P c then F c else G c) (I ++ J) := by
  refine ⟨fun c ts h => ?_, fun c c' hp ht => ?_⟩
  · by_cases hc : P c
    · simp only [hc, if_true] at h
      obtain ⟨tk', h1, h2⟩ := hF.rl c ts h
      refine ⟨tk', ?_, h2⟩
      have : P ⟨c.pick, tk'⟩ := (hP ⟨c.pick, tk'⟩ c rfl).mpr hc
      simp only [this, if_true]; exact h1
    · simp only [hc, if_false] at h
      obtain ⟨tk', h1, h2⟩ := hG.rl c ts h
      refine ⟨tk', ?_, h2⟩
      have : ¬ P ⟨c.pick, tk'⟩ := fun hh => hc ((hP ⟨c.pick, tk'⟩ c rfl).mp hh)
      simp only [this, if_false]; exact h1
  · show (if P c then F c else G c) = (if P c' then F c' else G c')
    by_cases hc : P c
    · have hc' : P c' := (hP c c' hp).mp hc
      simp only [hc, hc', if_true]
      exact hF.uses c c' hp (fun i hi q => ht i (by simp [hi]) q)
    · have hc' : ¬ P c' := fun hh => hc ((hP c c' hp).mpr hh)
      simp only [hc, hc', if_false]
      exact hG.uses c c' hp (fun i hi q => ht i (by simp [hi]) q)

/-- a family indexed by the picks -/
theorem RL.of_pick {d : Tok N} {F : (List Nat → Nat) → Choices N → List (Tok N)}
    (h : ∀ pk, RL d (F pk)) : RL d (fun c => F c.pick c) := by
  intro c ts hv
  obtain ⟨tk', h1, h2⟩ := h c.pick c ts hv
  exact ⟨tk', h1, h2⟩

theorem RLU.of_pick {d : Tok N} {F : (List Nat → Nat) → Choices N → List (Tok N)} {I : List Nat}
    (h : ∀ pk, RLU d (F pk) I) : RLU d (fun c => F c.pick c) I :=
  ⟨RL.of_pick fun pk => (h pk).rl, fun c c' hp ht => by
    show F c.pick c = F c'.pick c'
    rw [hp]; exact (h c'.pick).uses c c' hp ht⟩

/-- closes the side conditions "this spec / condition depends on the picks only" -/
macro "pick_tac" : tactic =>
  `(tactic| (intro c c' h; simp only [Choices.choice, Choices.sub, h] <;> rfl))

/-! ### identifiers, literals, the three lowest levels -/

section
variable (d : Tok N)

theorem rl_wordsToks : ∀ ws : List Str, RL d (wordsToks (N := N) ws)
  | [] => RL.congr (fun _ => rfl) (RLU.nil d).rl
  | w :: ws => RL.congr (fun _ => rfl)
      (RLU.cons_tk0 (.word w) 0 (RLU.sub 1 (rl_wordsToks ws)) (by decide)).rl

theorem rl_var : ∀ v : VarSpec, RL d (VarSpec.toks (N := N) v)
  | .simple s => RL.congr (fun _ => rfl) (RLU.tk0 d (.word s) 0).rl
  | .common pre w k => RL.congr (fun _ => rfl)
      (RLU.cons_tk0 (.spelled .commonPrefix pre) 0 (RLU.tk0 d (.spelled k w) 1) (by decide)).rl
  | .proper w1 w2 ws => RL.congr (fun _ => rfl) (rl_wordsToks d (w1 :: w2 :: ws))

theorem rl_unopsToks : ∀ os : List UnOp, RL d (unopsToks (N := N) os)
  | [] => RL.congr (fun _ => rfl) (RLU.nil d).rl
  | o :: os => RL.congr (fun _ => rfl)
      (RLU.cons_tk0 (.kw (unopKind o)) 0 (RLU.sub 1 (rl_unopsToks os)) (by decide)).rl

/-- the five argument separators, by number -/
def sepF (n : Nat) (c : Choices N) : List (Tok N) :=
  match n with
  | 0 => [tk (.kw .comma) (c.sub 0)]
  | 1 => [tk (.kw .comma) (c.sub 0), tk (.kw .and) (c.sub 1)]
  | 2 => [tk (.kw .ampersand) (c.sub 0)]
  | 3 => [tk (.kw .apostropheNApostrophe) (c.sub 0)]
  | _ => [tk (.kw .and) (c.sub 0)]

theorem rlu_sepF : ∀ n, RLU d (sepF (N := N) n) [0, 1]
  | 0 => (RLU.tk0 d (.kw .comma) 0).mono (by decide)
  | 1 => RLU.cons_tk0 (.kw .comma) 0 (RLU.tk0 d (.kw .and) 1) (by decide)
  | 2 => (RLU.tk0 d (.kw .ampersand) 0).mono (by decide)
  | 3 => (RLU.tk0 d (.kw .apostropheNApostrophe) 0).mono (by decide)
  | _ + 4 => (RLU.tk0 d (.kw .and) 0).mono (by decide)

theorem rl_sepToks : RL d (sepToks (N := N)) :=
  RL.congr (F := sepToks) (G := fun c => sepF (c.pick [] % 5) c) (fun _ => rfl)
    (RL.of_pick (F := fun pk c => sepF (pk [] % 5) c) fun pk => (rlu_sepF d _).rl)

mutual
theorem rl_prim : ∀ p : Prim N, RL d p.toks
  | .pronoun => RL.congr (fun _ => rfl) (RLU.tk0 d (.kw .pronoun) 0).rl
  | .var v => RL.congr (fun _ => rfl) (RLU.sub 0 (rl_var d v)).rl
  | .lit l => RL.congr (fun _ => rfl)
      (RLU.tk d (fun c => l.spec (c.sub 1).choice) (by pick_tac) 0).rl
  | .call f a as => RL.congr (fun _ => rfl)
      (RLU.append (RLU.sub 0 (rl_var d f))
        (RLU.cons_tk0 (.kw .taking) 1
          (RLU.append (RLU.sub 2 (rl_unary a)) (RLU.sub 3 (rl_args as)) (by decide))
          (by decide)) (by decide)).rl
  | .pop p => RL.congr (fun _ => rfl)
      (RLU.cons_tk0 (.kw .roll) 0 (RLU.sub 1 (rl_primary p)) (by decide)).rl
theorem rl_primary : ∀ p : Primary N, RL d p.toks
  | .mk h subs => RL.congr (fun _ => rfl)
      (RLU.append (RLU.sub 0 (rl_prim h)) (RLU.sub 1 (rl_subs subs)) (by decide)).rl
theorem rl_unary : ∀ u : Unary N, RL d u.toks
  | .mk ops p => RL.congr (fun _ => rfl)
      (RLU.append (RLU.sub 0 (rl_unopsToks d ops)) (RLU.sub 1 (rl_primary p)) (by decide)).rl
theorem rl_args : ∀ us : List (Unary N), RL d (argsToks us)
  | [] => RL.congr (fun _ => rfl) (RLU.nil d).rl
  | u :: us => RL.congr (fun _ => rfl)
      (RLU.append (RLU.sub 0 (rl_sepToks d))
        (RLU.append (RLU.sub 1 (rl_unary u)) (RLU.sub 2 (rl_args us)) (by decide))
        (by decide)).rl
theorem rl_subs : ∀ ss : List (Prim N), RL d (subsToks ss)
  | [] => RL.congr (fun _ => rfl) (RLU.nil d).rl
  | s :: ss => RL.congr (fun _ => rfl)
      (RLU.cons_tk0 (.kw .at) 0
        (RLU.append (RLU.sub 1 (rl_prim s)) (RLU.sub 2 (rl_subs ss)) (by decide))
        (by decide)).rl
end

end

/-! ### operand lists, operator spines, the ladder -/

section
variable (d : Tok N)

theorem rl_commaToks : RL d (commaToks (N := N)) :=
  RL.congr (fun _ => rfl)
    (RLU.cons_tk0 (.kw .comma) 0
      (RLU.ite (fun c => c.choice % 2 = 1) (by pick_tac) (RLU.tk0 d (.kw .and) 1) (RLU.nil d))
      (by decide)).rl

section generic
variable {α : Type} (L : Syn N α) (hL : ∀ x, RL d (L.toks x))
include hL

theorem rl_restToks : ∀ es : List α, RL d (restToks L es)
  | [] => RL.congr (fun _ => rfl) (RLU.nil d).rl
  | e :: es => RL.congr (fun _ => rfl)
      (RLU.append (RLU.sub 0 (rl_commaToks d))
        (RLU.append (RLU.sub 1 (hL e)) (RLU.sub 2 (rl_restToks es)) (by decide))
        (by decide)).rl

theorem rl_opList (l : OpList α) : RL d (OpList.toks L l) :=
  RL.congr (fun _ => rfl)
    (RLU.append (RLU.sub 0 (hL l.first)) (RLU.sub 1 (rl_restToks d L hL l.rest)) (by decide)).rl

theorem rl_opsToks : ∀ r : List (BinOp × OpList α), RL d (opsToks L r)
  | [] => RL.congr (fun _ => rfl) (RLU.nil d).rl
  | (op, l) :: r => RL.congr (fun _ => rfl)
      (RLU.cons_tk (fun c => .kw (opKind op (c.sub 0).choice)) (by pick_tac) 0
        (RLU.append (RLU.sub 1 (rl_opList d L hL l)) (RLU.sub 2 (rl_opsToks r)) (by decide))
        (by decide)).rl

theorem rl_spine (ops : List BinOp) (s : Spine α) : RL d ((spineSyn L ops).toks s) :=
  RL.congr (fun _ => rfl)
    (RLU.append (RLU.sub 0 (hL s.head)) (RLU.sub 1 (rl_opsToks d L hL s.ops)) (by decide)).rl

end generic

variable [CharOps]

theorem rl_unarySyn (u : Unary N) : RL d (unarySyn.toks u) := rl_unary d u

theorem rl_factor (f : Factor N) : RL d (factorSyn.toks f) :=
  rl_spine d unarySyn (rl_unarySyn d) _ f

theorem rl_term (t : Term N) : RL d (termSyn.toks t) :=
  rl_spine d factorSyn (rl_factor d) _ t

theorem rl_fancy : ∀ f : Fancy, RL d (Fancy.toks (N := N) f)
  | .eq => RL.congr (fun _ => rfl) (RLU.nil d).rl
  | .notEq => RL.congr (fun _ => rfl) (RLU.tk0 d (.kw .not) 0).rl
  | .greater => RL.congr (fun _ => rfl)
      (RLU.cons_tk0 (.kw .bigger) 0 (RLU.tk0 d (.kw .than) 1) (by decide)).rl
  | .less => RL.congr (fun _ => rfl)
      (RLU.cons_tk0 (.kw .smaller) 0 (RLU.tk0 d (.kw .than) 1) (by decide)).rl
  | .greaterEq => RL.congr (fun _ => rfl)
      (RLU.cons_tk0 (.kw .as) 0
        (RLU.cons_tk0 (.kw .big) 1 (RLU.tk0 d (.kw .as) 2) (by decide)) (by decide)).rl
  | .lessEq => RL.congr (fun _ => rfl)
      (RLU.cons_tk0 (.kw .as) 0
        (RLU.cons_tk0 (.kw .small) 1 (RLU.tk0 d (.kw .as) 2) (by decide)) (by decide)).rl

theorem rl_linksToks : ∀ r : List (Fancy × Term N), RL d (linksToks r)
  | [] => RL.congr (fun _ => rfl) (RLU.nil d).rl
  | (f, t) :: r => RL.congr (fun _ => rfl)
      (RLU.cons_tk (fun c => .kw (isKind3 (c.sub 0).choice)) (by pick_tac) 0
        (RLU.append (RLU.sub 1 (rl_fancy d f))
          (RLU.append (RLU.sub 2 (rl_term d t)) (RLU.sub 3 (rl_linksToks r)) (by decide))
          (by decide))
        (by decide)).rl

theorem rl_comparison : ∀ x : Comparison N, RL d (comparisonSyn.toks x)
  | ⟨h, .chain links⟩ => RL.congr (fun _ => rfl)
      (RLU.append (RLU.sub 0 (rl_term d h)) (RLU.sub 1 (rl_linksToks d links)) (by decide)).rl
  | ⟨h, .spine ops⟩ => RL.congr (fun _ => rfl)
      (RLU.append (RLU.sub 0 (rl_term d h))
        (RLU.sub 1 (rl_opsToks d termSyn (rl_term d) ops)) (by decide)).rl

theorem rl_logical (e : Logical N) : RL d (logicalSyn.toks e) :=
  rl_spine d comparisonSyn (rl_comparison d) _ e

theorem rl_unparse (e : Expression N) : RL d (unparse e) :=
  RL.congr (fun _ => rfl) (rl_logical d e)

theorem rl_exprList (l : OpList (Expression N)) : RL d (OpList.toks logicalSyn l) :=
  rl_opList d logicalSyn (rl_logical d) l

end

/-! ### statements -/

section
variable (d : Tok N) [CharOps]

theorem rl_id : ∀ x : IdSpec, RL d (IdSpec.toks (N := N) x)
  | .pronoun => RL.congr (fun _ => rfl) (RLU.tk0 d (.kw .pronoun) 0).rl
  | .var v => RL.congr (fun _ => rfl) (RLU.sub 0 (rl_var d v)).rl

theorem rl_target (t : Target N) : RL d t.toks :=
  RL.congr (fun _ => rfl)
    (RLU.append (RLU.sub 0 (rl_id d t.id)) (RLU.sub 1 (rl_subs d t.subs)) (by decide)).rl

theorem rl_item : ∀ i : PoeticItem, RL d (PoeticItem.toks (N := N) i)
  | .comma => RL.congr (fun _ => rfl) (RLU.tk0 d (.kw .comma) 0).rl
  | .dot => RL.congr (fun _ => rfl) (RLU.tk0 d (.kw .dot) 0).rl
  | .apos re sp => RL.congr (fun _ => rfl)
      (RLU.tk0 d (.spelled (if re then .apostropheRE else .apostropheS) sp) 0).rl
  | .hyphen w k => RL.congr (fun _ => rfl)
      (RLU.cons_tk0 (.spelled .minus ['-']) 0 (RLU.tk0 d (.spelled k w) 1) (by decide)).rl
  | .word w k => RL.congr (fun _ => rfl) (RLU.tk0 d (.spelled k w) 0).rl

theorem rl_itemsToks : ∀ is : List PoeticItem, RL d (itemsToks (N := N) is)
  | [] => RL.congr (fun _ => rfl) (RLU.nil d).rl
  | i :: is => RL.congr (fun _ => rfl)
      (RLU.append (RLU.sub 0 (rl_item d i)) (RLU.sub 1 (rl_itemsToks is)) (by decide)).rl

theorem rl_junkToks : ∀ ks : List TK, RL d (junkToks (N := N) ks)
  | [] => RL.congr (fun _ => rfl) (RLU.nil d).rl
  | k :: ks => RL.congr (fun _ => rfl)
      (RLU.cons_tk0 (.kw k) 0 (RLU.sub 1 (rl_junkToks ks)) (by decide)).rl

theorem rl_suffixToks (k : TK) : ∀ n : Nat, RL d (suffixToks (N := N) k n)
  | 0 => RL.congr (fun _ => rfl) (RLU.nil d).rl
  | n + 1 => RL.congr (fun _ => rfl)
      (RLU.cons_tk0 (.kw k) 0
        (RLU.append
          (RLU.ite (fun c => c.choice % 2 = 1) (by pick_tac) (RLU.tk0 d (.kw .comma) 1) (RLU.nil d))
          (RLU.sub 2 (rl_suffixToks k n)) (by decide))
        (by decide)).rl

/-- an optional token at the root, the option depending on the picks -/
theorem rl_optTokP (b : Choices N → Bool)
    (hb : ∀ c c' : Choices N, c.pick = c'.pick → b c = b c') (k : TK) :
    RL d (fun c => optTok (b c) k c) := by
  intro c ts h
  change (optTok (b c) k c).map tview = ts.map tview at h
  show ∃ tk' : List Nat → Tok N, optTok (b ⟨c.pick, tk'⟩) k ⟨c.pick, tk'⟩ = ts ∧ ∀ p, tk' p ∈ d :: ts
  by_cases hc : b c = true
  · have e : optTok (b c) k c = [tk (.kw k) c] := by simp [optTok, hc]
    rw [e] at h
    obtain ⟨tk', h1, h2⟩ := RL.here d (fun _ => TokSpec.kw k) (fun _ _ _ => rfl) c ts h
    refine ⟨tk', ?_, h2⟩
    have : b ⟨c.pick, tk'⟩ = true := by rw [hb ⟨c.pick, tk'⟩ c rfl]; exact hc
    simp only [optTok, this, if_true]; exact h1
  · have e : optTok (b c) k c = [] := by simp [optTok, hc]
    rw [e] at h
    have hts : ts = [] := by simpa using h.symm
    refine ⟨fun _ => d, ?_, fun _ => by simp⟩
    have : ¬ b ⟨c.pick, fun _ => d⟩ = true := by rw [hb ⟨c.pick, fun _ => d⟩ c rfl]; exact hc
    simp only [optTok, this, hts]
    rfl

theorem rl_simple : ∀ s : SimpleStmt N, RL d s.toks
  | .say e => RL.congr (fun _ => rfl)
      (RLU.cons_tk (fun c => .kw (if (c.sub 0).choice % 2 = 0 then .say else .sayAlias)) (by pick_tac) 0
        (RLU.sub 1 (rl_unparse d e)) (by decide)).rl
  | .put e t => RL.congr (fun _ => rfl)
      (RLU.cons_tk0 (.kw .put) 0
        (RLU.append (RLU.sub 1 (rl_unparse d e))
          (RLU.cons_tk0 (.kw .into) 2 (RLU.sub 3 (rl_target d t)) (by decide)) (by decide))
        (by decide)).rl
  | .letBe t none l => RL.congr (fun _ => rfl)
      (RLU.cons_tk0 (.kw .let_) 0
        (RLU.append (RLU.sub 1 (rl_target d t))
          (RLU.cons_tk0 (.kw .be) 2
            (RLU.append (RLU.nil d) (RLU.sub 4 (rl_exprList d l)) (by decide)) (by decide))
          (by decide))
        (by decide)).rl
  | .letBe t (some o) l => RL.congr (fun _ => rfl)
      (RLU.cons_tk0 (.kw .let_) 0
        (RLU.append (RLU.sub 1 (rl_target d t))
          (RLU.cons_tk0 (.kw .be) 2
            (RLU.append (RLU.tk d (fun c => .kw (opKind o (c.sub 3).choice)) (by pick_tac) 3)
              (RLU.sub 4 (rl_exprList d l)) (by decide)) (by decide))
          (by decide))
        (by decide)).rl
  | .build x n => RL.congr (fun _ => rfl)
      (RLU.cons_tk0 (.kw .build) 0
        (RLU.append (RLU.sub 1 (rl_id d x)) (RLU.sub 2 (rl_suffixToks d .up (n + 1))) (by decide))
        (by decide)).rl
  | .knock x n => RL.congr (fun _ => rfl)
      (RLU.cons_tk0 (.kw .knock) 0
        (RLU.append (RLU.sub 1 (rl_id d x)) (RLU.sub 2 (rl_suffixToks d .down (n + 1))) (by decide))
        (by decide)).rl
  | .listen none => RL.congr (fun _ => rfl) (RLU.tk0 d (.kw .listen) 0).rl
  | .listen (some t) => RL.congr (fun _ => rfl)
      (RLU.cons_tk0 (.kw .listen) 0
        (RLU.cons_tk0 (.kw .to) 1 (RLU.sub 2 (rl_target d t)) (by decide)) (by decide)).rl
  | .turn dir e => RL.congr (fun _ => rfl)
      (RLU.ite (fun c => (c.sub 0).choice % 2 = 0) (by pick_tac)
        (RLU.cons_tk0 (.kw .turn) 0
          (RLU.cons_tk0 (.kw (dirKind dir)) 1 (RLU.sub 2 (rl_unparse d e)) (by decide)) (by decide))
        (RLU.cons_tk0 (.kw .turn) 0
          (RLU.append (RLU.sub 2 (rl_unparse d e)) (RLU.tk0 d (.kw (dirKind dir)) 1) (by decide))
          (by decide))).rl
  | .rock p none => RL.congr (fun _ => rfl)
      (RLU.cons_tk0 (.kw .rock) 0 (RLU.sub 1 (rl_primary d p)) (by decide)).rl
  | .rock p (some l) => RL.congr (fun _ => rfl)
      (RLU.cons_tk0 (.kw .rock) 0
        (RLU.append (RLU.sub 1 (rl_primary d p))
          (RLU.cons_tk0 (.kw .with_) 2 (RLU.sub 3 (rl_exprList d l)) (by decide)) (by decide))
        (by decide)).rl
  | .roll p none => RL.congr (fun _ => rfl)
      (RLU.cons_tk0 (.kw .roll) 0 (RLU.sub 1 (rl_primary d p)) (by decide)).rl
  | .roll p (some t) => RL.congr (fun _ => rfl)
      (RLU.cons_tk0 (.kw .roll) 0
        (RLU.append (RLU.sub 1 (rl_primary d p))
          (RLU.cons_tk0 (.kw .into) 2 (RLU.sub 3 (rl_target d t)) (by decide)) (by decide))
        (by decide)).rl
  | .ret kw e => RL.congr (fun _ => rfl)
      (RLU.cons_tk0 (.spelled .return_ kw) 0
        (RLU.append
          (RLU.sub 1 (rl_optTokP d
            (fun c => CharOps.lower kw == str% "give" && decide (c.choice % 2 = 1)) (by pick_tac) .back))
          (RLU.append (RLU.sub 2 (rl_unparse d e))
            (RLU.sub 3 (rl_optTokP d (fun c => decide (c.choice % 2 = 1)) (by pick_tac) .back))
            (by decide))
          (by decide))
        (by decide)).rl
  | .break_ none => RL.congr (fun _ => rfl) (RLU.tk0 d (.kw .break_) 0).rl
  | .break_ (some it) => RL.congr (fun _ => rfl)
      (RLU.cons_tk0 (.kw .break_) 0
        (RLU.cons_tk0 (.anyKind it) 1 (RLU.tk0 d (.kw .down) 2) (by decide)) (by decide)).rl
  | .continue_ none => RL.congr (fun _ => rfl) (RLU.tk0 d (.kw .continue_) 0).rl
  | .continue_ (some (it, the)) => RL.congr (fun _ => rfl)
      (RLU.cons_tk0 (.kw .take) 0
        (RLU.cons_tk0 (.anyKind it) 1
          (RLU.cons_tk0 (.kw .to) 2
            (RLU.cons_tk0 (.anyKind the) 3 (RLU.tk0 d (.kw .top) 4) (by decide)) (by decide))
          (by decide))
        (by decide)).rl
  | .mutation op p none none => RL.congr (fun _ => rfl)
      (RLU.cons_tk0 (.kw (mutKind op)) 0
        (RLU.append (RLU.sub 1 (rl_primary d p))
          (RLU.append (RLU.nil d) (RLU.nil d) (by decide)) (by decide))
        (by decide)).rl
  | .mutation op p (some t) none => RL.congr (fun _ => rfl)
      (RLU.cons_tk0 (.kw (mutKind op)) 0
        (RLU.append (RLU.sub 1 (rl_primary d p))
          (RLU.append (RLU.cons_tk0 (.kw .into) 2 (RLU.sub 3 (rl_target d t)) (by decide))
            (RLU.nil d) (by decide)) (by decide))
        (by decide)).rl
  | .mutation op p none (some e) => RL.congr (fun _ => rfl)
      (RLU.cons_tk0 (.kw (mutKind op)) 0
        (RLU.append (RLU.sub 1 (rl_primary d p))
          (RLU.append (RLU.nil d)
            (RLU.cons_tk0 (.kw .with_) 4 (RLU.sub 5 (rl_unparse d e)) (by decide)) (by decide))
          (by decide))
        (by decide)).rl
  | .mutation op p (some t) (some e) => RL.congr (fun _ => rfl)
      (RLU.cons_tk0 (.kw (mutKind op)) 0
        (RLU.append (RLU.sub 1 (rl_primary d p))
          (RLU.append (RLU.cons_tk0 (.kw .into) 2 (RLU.sub 3 (rl_target d t)) (by decide))
            (RLU.cons_tk0 (.kw .with_) 4 (RLU.sub 5 (rl_unparse d e)) (by decide)) (by decide))
          (by decide))
        (by decide)).rl
  | .call f a as => RL.congr (fun _ => rfl)
      (RLU.append (RLU.sub 0 (rl_var d f))
        (RLU.cons_tk0 (.kw .taking) 1
          (RLU.append (RLU.sub 2 (rl_unary d a)) (RLU.sub 3 (rl_args d as)) (by decide))
          (by decide)) (by decide)).rl
  | .poeticLit t lit => RL.congr (fun _ => rfl)
      (RLU.append (RLU.sub 0 (rl_target d t))
        (RLU.cons_tk (fun c => .kw (isKind3 (c.sub 1).choice)) (by pick_tac) 1
          (RLU.sub 2 (rl_itemsToks d lit)) (by decide)) (by decide)).rl
  | .poeticExpr t e => RL.congr (fun _ => rfl)
      (RLU.append (RLU.sub 0 (rl_target d t))
        (RLU.cons_tk (fun c => .kw (isKind3 (c.sub 1).choice)) (by pick_tac) 1
          (RLU.sub 2 (rl_unparse d e)) (by decide)) (by decide)).rl
  | .poeticStr t _ junk => RL.congr (fun _ => rfl)
      (RLU.append (RLU.sub 0 (rl_target d t))
        (RLU.cons_tk (fun c => .kw (saysKind (c.sub 1).choice)) (by pick_tac) 1
          (RLU.sub 2 (rl_junkToks d junk)) (by decide)) (by decide)).rl
  | .rockLike p lit => RL.congr (fun _ => rfl)
      (RLU.cons_tk0 (.kw .rock) 0
        (RLU.append (RLU.sub 1 (rl_primary d p))
          (RLU.cons_tk0 (.kw .like) 2 (RLU.sub 3 (rl_itemsToks d lit)) (by decide)) (by decide))
        (by decide)).rl

end

/-! ### lines, blocks, programs -/

section
variable (d : Tok N) [CharOps]

theorem rl_eolToks : ∀ e : Eol, RL d (Grammar.eolToks (N := N) e)
  | .none => RL.congr (fun _ => rfl)
      (RLU.append (RLU.nil d) (RLU.tk0 d (.kw .newline) 1) (by decide)).rl
  | .dot => RL.congr (fun _ => rfl)
      (RLU.append (RLU.tk0 d (.kw .dot) 0) (RLU.tk0 d (.kw .newline) 1) (by decide)).rl
  | .comma => RL.congr (fun _ => rfl)
      (RLU.append (RLU.tk0 d (.kw .comma) 0) (RLU.tk0 d (.kw .newline) 1) (by decide)).rl

theorem rl_stmtEol : ∀ s : Statement N, RL d s.eolToks
  | .simple _ e => RL.congr (fun _ => rfl) (rl_eolToks d e)
  | .ifS _ _ _ _ => RL.congr (fun _ => rfl) (RLU.tk0 d (.kw .newline) 1).rl
  | .whileS _ _ _ => RL.congr (fun _ => rfl) (RLU.tk0 d (.kw .newline) 1).rl
  | .untilS _ _ _ => RL.congr (fun _ => rfl) (RLU.tk0 d (.kw .newline) 1).rl
  | .func _ _ _ _ _ => RL.congr (fun _ => rfl) (RLU.tk0 d (.kw .newline) 1).rl

theorem rl_paramsToks : ∀ vs : List VarSpec, RL d (paramsToks (N := N) vs)
  | [] => RL.congr (fun _ => rfl) (RLU.nil d).rl
  | v :: vs => RL.congr (fun _ => rfl)
      (RLU.append (RLU.sub 0 (rl_sepToks d))
        (RLU.append (RLU.sub 1 (rl_var d v)) (RLU.sub 2 (rl_paramsToks vs)) (by decide))
        (by decide)).rl

/-- the blank line that stands for an empty block -/
theorem rl_emptyBlock : RL d (fun c : Choices N => [tk (.kw .newline) (c.sub 0)]) :=
  (RLU.tk0 d (.kw .newline) 0).rl

mutual
theorem rl_stmt : ∀ s : Statement N, RL d s.toks
  | .simple s _ => RL.congr (fun _ => rfl) (rl_simple d s)
  | .ifS cond eol t e => RL.congr (fun c => ifS_toks cond eol t e c)
      (RLU.cons_tk0 (.kw .if_) 0
        (RLU.append (RLU.sub 1 (rl_unparse d cond))
          (RLU.append (RLU.sub 2 (rl_eolToks d eol))
            (RLU.append (RLU.sub 3 (rl_block t)) (rlu_else e) (by decide))
            (by decide))
          (by decide))
        (by decide)).rl
  | .whileS cond eol b => RL.congr (fun c => whileS_toks cond eol b c)
      (RLU.cons_tk0 (.kw .while_) 0
        (RLU.append (RLU.sub 1 (rl_unparse d cond))
          (RLU.append (RLU.sub 2 (rl_eolToks d eol)) (RLU.sub 3 (rl_block b)) (by decide))
          (by decide))
        (by decide)).rl
  | .untilS cond eol b => RL.congr (fun c => untilS_toks cond eol b c)
      (RLU.cons_tk0 (.kw .until_) 0
        (RLU.append (RLU.sub 1 (rl_unparse d cond))
          (RLU.append (RLU.sub 2 (rl_eolToks d eol)) (RLU.sub 3 (rl_block b)) (by decide))
          (by decide))
        (by decide)).rl
  | .func f p ps eol b => RL.congr (fun c => func_toks f p ps eol b c)
      (RLU.append (RLU.sub 0 (rl_var d f))
        (RLU.cons_tk0 (.kw .takes) 1
          (RLU.append (RLU.sub 2 (rl_var d p))
            (RLU.append (RLU.sub 3 (rl_paramsToks d ps))
              (RLU.append (RLU.sub 4 (rl_eolToks d eol)) (RLU.sub 5 (rl_fnBlock b)) (by decide))
              (by decide))
            (by decide))
          (by decide))
        (by decide)).rl
theorem rl_block : ∀ b : List (Statement N), RL d (blockToks b)
  | [] => RL.congr (fun _ => rfl) (rl_emptyBlock d)
  | s :: ss => RL.congr (fun _ => rfl) (rl_lines (s :: ss))
theorem rl_fnBlock : ∀ b : List (Statement N), RL d (fnBlockToks b)
  | [] => RL.congr (fun _ => rfl) (rl_emptyBlock d)
  | s :: ss => RL.congr (fun _ => rfl) (rl_fnLines (s :: ss))
theorem rlu_else : ∀ e : Option (List (Statement N)), RLU d (elseToks e) [4, 5, 6]
  | none => RLU.congr (fun _ => rfl) ((RLU.nil d).mono (by simp))
  | some b => RLU.congr (fun _ => rfl)
      (RLU.cons_tk0 (.kw .else_) 4
        (RLU.cons_tk0 (.kw .newline) 5 (RLU.sub 6 (rl_block b)) (by decide)) (by decide))
theorem rl_lines : ∀ b : List (Statement N), RL d (linesToks b)
  | [] => RL.congr (fun _ => rfl) (RLU.nil d).rl
  | s :: ss => RL.congr (fun c => lines_cons s ss c)
      (RLU.append (RLU.sub 0 (rl_stmt s))
        (RLU.append (RLU.sub 1 (rl_stmtEol d s)) (RLU.sub 2 (rl_lines ss)) (by decide))
        (by decide)).rl
theorem rl_fnLines : ∀ b : List (Statement N), RL d (fnLinesToks b)
  | [] => RL.congr (fun _ => rfl) (RLU.nil d).rl
  | s :: ss => RL.congr (fun c => fnLines_cons s ss c)
      (RLU.append (RLU.sub 0 (rl_stmt s))
        (RLU.append
          (RLU.ite (fun _ => (ss.isEmpty && s.isIfElse) = true) (fun _ _ _ => Iff.rfl) (RLU.nil d)
            (RLU.sub 1 (rl_stmtEol d s)))
          (RLU.sub 2 (rl_fnLines ss)) (by decide))
        (by decide)).rl
end

theorem rl_blanksToks : ∀ k : Nat, RL d (blanksToks (N := N) k)
  | 0 => RL.congr (fun _ => rfl) (RLU.nil d).rl
  | k + 1 => RL.congr (fun _ => rfl)
      (RLU.cons_tk0 (.kw .newline) 0 (RLU.sub 1 (rl_blanksToks k)) (by decide)).rl

/-- the blank lines before a block: their number is a pick -/
theorem rl_blanksPick : RL d (fun c : Choices N => blanksToks c.choice c) :=
  RL.of_pick (F := fun pk c => blanksToks (pk []) c) fun pk => rl_blanksToks d (pk [])

theorem rl_prog : ∀ bs : List (List (Statement N)), RL d (progToks bs)
  | [] => RL.congr (fun _ => rfl) (RLU.sub 0 (rl_blanksPick d)).rl
  | b :: bs => RL.congr (fun _ => rfl)
      (RLU.append (RLU.sub 0 (rl_blanksPick d))
        (RLU.append (RLU.sub 1 (rl_lines d b))
          (RLU.cons_tk0 (.kw .newline) 2 (RLU.sub 3 (rl_prog bs)) (by decide)) (by decide))
        (by decide)).rl

/-- **Re-labelling.** A token list that agrees with `progToks bs c` on kind, spelling and the two
    payloads is `progToks bs c'` for templates `c'` with the same picks; every template of `c'` is
    one of the given tokens or the default token `d`. -/
theorem progToks_relabel (bs : List (List (Statement N))) (c : Choices N) (ts : List (Tok N))
    (h : (progToks bs c).map tview = ts.map tview) :
    ∃ c' : Choices N, c'.pick = c.pick ∧ progToks bs c' = ts ∧ ∀ p, c'.tok p ∈ d :: ts := by
  obtain ⟨tk', h1, h2⟩ := rl_prog d bs c ts h
  exact ⟨⟨c.pick, tk'⟩, rfl, h1, h2⟩

theorem stmtToks_relabel (s : Statement N) (c : Choices N) (ts : List (Tok N))
    (h : (s.toks c).map tview = ts.map tview) :
    ∃ c' : Choices N, c'.pick = c.pick ∧ s.toks c' = ts ∧ ∀ p, c'.tok p ∈ d :: ts := by
  obtain ⟨tk', h1, h2⟩ := rl_stmt d s c ts h
  exact ⟨⟨c.pick, tk'⟩, rfl, h1, h2⟩

theorem unparse_relabel (e : Expression N) (c : Choices N) (ts : List (Tok N))
    (h : (unparse e c).map tview = ts.map tview) :
    ∃ c' : Choices N, c'.pick = c.pick ∧ unparse e c' = ts ∧ ∀ p, c'.tok p ∈ d :: ts := by
  obtain ⟨tk', h1, h2⟩ := rl_unparse d e c ts h
  exact ⟨⟨c.pick, tk'⟩, rfl, h1, h2⟩

end

/-! ### the spellings that end with the input (`…D`) -/

section
variable (dt : Tok N) [CharOps]

theorem rlu_eolPunct : ∀ e : Eol, RLU dt (eolPunct (N := N) e) [0]
  | .none => RLU.congr (fun _ => rfl) ((RLU.nil dt).mono (by simp))
  | .dot => RLU.congr (fun _ => rfl) (RLU.tk0 dt (.kw .dot) 0)
  | .comma => RLU.congr (fun _ => rfl) (RLU.tk0 dt (.kw .comma) 0)

theorem rl_stmtEolE : ∀ s : Statement N, RL dt s.eolToksE
  | .simple _ .none => RL.congr (fun _ => rfl) (RLU.nil dt).rl
  | .simple _ .dot => RL.congr (fun _ => rfl) (RLU.tk0 dt (.kw .dot) 0).rl
  | .simple _ .comma => RL.congr (fun _ => rfl) (RLU.tk0 dt (.kw .comma) 0).rl
  | .ifS _ _ _ _ => RL.congr (fun _ => rfl) (RLU.nil dt).rl
  | .whileS _ _ _ => RL.congr (fun _ => rfl) (RLU.nil dt).rl
  | .untilS _ _ _ => RL.congr (fun _ => rfl) (RLU.nil dt).rl
  | .func _ _ _ _ _ => RL.congr (fun _ => rfl) (RLU.nil dt).rl

/-- the line end of a header whose (last) block is empty, the last `d` newlines omitted -/
def hdrE (d : Nat) (eol : Eol) (c2 : Choices N) : List (Tok N) :=
  eolPunct eol c2 ++
    (match d with
     | 0 => [tk (.kw .newline) (c2.sub 1)]
     | 1 => [tk (.kw .newline) (c2.sub 1)]
     | _ => [])

/-- the blank line that stands for an empty last block, unless omitted -/
def blkE (d : Nat) (c3 : Choices N) : List (Tok N) :=
  match d with
  | 0 => [tk (.kw .newline) (c3.sub 0)]
  | _ => []

theorem headerTailD_nil (d : Nat) (eol : Eol) (c2 c3 : Choices N) (lines : List (Tok N)) :
    headerTailD d eol ([] : List (Statement N)) c2 c3 lines = hdrE d eol c2 ++ blkE d c3 := by
  rcases d with _ | _ | d <;> simp [headerTailD, emptyTailD, hdrE, blkE]

theorem rl_hdrE (d : Nat) (eol : Eol) : RL dt (hdrE (N := N) d eol) := by
  rcases d with _ | _ | d
  · exact (RLU.append (rlu_eolPunct dt eol) (RLU.tk0 dt (.kw .newline) 1) (by decide)).rl
  · exact (RLU.append (rlu_eolPunct dt eol) (RLU.tk0 dt (.kw .newline) 1) (by decide)).rl
  · exact (RLU.append (rlu_eolPunct dt eol) (RLU.nil dt) (by decide)).rl

theorem rl_blkE (d : Nat) : RL dt (blkE (N := N) d) := by
  rcases d with _ | d
  · exact (RLU.tk0 dt (.kw .newline) 0).rl
  · exact (RLU.nil dt).rl

/-- the line end of a header line and its last block -/
theorem rlu_headerTail (d : Nat) (eol : Eol) (b : List (Statement N)) (i j : Nat) (hij : i ≠ j)
    (X : Choices N → List (Tok N)) (hX : RL dt X) :
    RLU dt (fun c => headerTailD d eol b (c.sub i) (c.sub j) (X (c.sub j))) [i, j] := by
  cases b with
  | nil =>
    exact RLU.congr (fun c => headerTailD_nil d eol _ _ _)
      (RLU.append (RLU.sub i (rl_hdrE dt d eol)) (RLU.sub j (rl_blkE dt d))
        (by intro k hk; simp at hk ⊢; omega))
  | cons s ss =>
    exact RLU.congr (fun _ => rfl)
      (RLU.append (RLU.sub i (rl_eolToks dt eol)) (RLU.sub j hX)
        (by intro k hk; simp at hk ⊢; omega))

/-- the `Newline` after `else` and the last block -/
theorem rlu_elseTail (d : Nat) (b : List (Statement N)) (X : Choices N → List (Tok N))
    (hX : RL dt X) :
    RLU dt (fun c => elseTailD d b (c.sub 5) (c.sub 6) (X (c.sub 6))) [5, 6] := by
  have hnl : RL dt (fun c : Choices N => [tk (.kw .newline) c]) :=
    RL.here dt (fun _ => .kw .newline) (fun _ _ _ => rfl)
  cases b with
  | nil =>
    rcases d with _ | _ | d
    · exact RLU.congr (fun _ => rfl)
        (RLU.append (RLU.sub 5 hnl) (RLU.sub 6 (rl_blkE dt 0)) (by decide))
    · exact RLU.congr (fun _ => rfl)
        ((RLU.sub 5 hnl).mono (by simp))
    · exact RLU.congr (fun _ => rfl) ((RLU.nil dt).mono (by simp))
  | cons s ss =>
    exact RLU.congr (fun _ => rfl)
      (RLU.append (RLU.sub 5 hnl) (RLU.sub 6 hX) (by decide))

mutual
theorem rl_stmtD : ∀ (s : Statement N) (d : Nat), RL dt (s.toksD d)
  | .simple s eol, d => RL.congr (fun c => simple_toksD d s eol c) (rl_simple dt s)
  | .ifS cond eol t none, d => RL.congr (fun c => ifS_none_toksD d cond eol t c)
      (RLU.cons_tk0 (.kw .if_) 0
        (RLU.append (RLU.sub 1 (rl_unparse dt cond))
          (rlu_headerTail dt d eol t 2 3 (by decide) _ (rl_linesD t d)) (by decide))
        (by decide)).rl
  | .ifS cond eol t (some b), d => RL.congr (fun c => ifS_some_toksD d cond eol t b c)
      (RLU.cons_tk0 (.kw .if_) 0
        (RLU.append (RLU.sub 1 (rl_unparse dt cond))
          (RLU.append (RLU.sub 2 (rl_eolToks dt eol))
            (RLU.append (RLU.sub 3 (rl_block dt t))
              (RLU.cons_tk0 (.kw .else_) 4 (rlu_elseTail dt d b _ (rl_linesD b d)) (by decide))
              (by decide))
            (by decide))
          (by decide))
        (by decide)).rl
  | .whileS cond eol b, d => RL.congr (fun c => whileS_toksD d cond eol b c)
      (RLU.cons_tk0 (.kw .while_) 0
        (RLU.append (RLU.sub 1 (rl_unparse dt cond))
          (rlu_headerTail dt d eol b 2 3 (by decide) _ (rl_linesD b d)) (by decide))
        (by decide)).rl
  | .untilS cond eol b, d => RL.congr (fun c => untilS_toksD d cond eol b c)
      (RLU.cons_tk0 (.kw .until_) 0
        (RLU.append (RLU.sub 1 (rl_unparse dt cond))
          (rlu_headerTail dt d eol b 2 3 (by decide) _ (rl_linesD b d)) (by decide))
        (by decide)).rl
  | .func f p ps eol b, d => RL.congr (fun c => func_toksD d f p ps eol b c)
      (RLU.append (RLU.sub 0 (rl_var dt f))
        (RLU.cons_tk0 (.kw .takes) 1
          (RLU.append (RLU.sub 2 (rl_var dt p))
            (RLU.append (RLU.sub 3 (rl_paramsToks dt ps))
              (rlu_headerTail dt d eol b 4 5 (by decide) _ (rl_fnLinesD b d)) (by decide))
            (by decide))
          (by decide))
        (by decide)).rl
theorem rl_linesD : ∀ (b : List (Statement N)) (d : Nat), RL dt (linesToksD d b)
  | [], d => RL.congr (fun c => linesD_nil d c) (RLU.nil dt).rl
  | [s], 0 => RL.congr (fun c => linesD_one_zero s c)
      (RLU.append (RLU.sub 0 (rl_stmt dt s)) (RLU.sub 1 (rl_stmtEol dt s)) (by decide)).rl
  | [s], d + 1 => RL.congr (fun c => linesD_one_succ d s c)
      (RLU.append (RLU.sub 0 (rl_stmtD s d)) (RLU.sub 1 (rl_stmtEolE dt s)) (by decide)).rl
  | s :: s' :: ss, d => RL.congr (fun c => linesD_cons d s s' ss c)
      (RLU.append (RLU.sub 0 (rl_stmt dt s))
        (RLU.append (RLU.sub 1 (rl_stmtEol dt s)) (RLU.sub 2 (rl_linesD (s' :: ss) d)) (by decide))
        (by decide)).rl
theorem rl_fnLinesD : ∀ (b : List (Statement N)) (d : Nat), RL dt (fnLinesToksD d b)
  | [], d => RL.congr (fun c => fnLinesD_nil d c) (RLU.nil dt).rl
  | [s], 0 => RL.congr (fun c => fnLinesD_one 0 s c)
      (RLU.ite (fun _ => s.isIfElse = true) (fun _ _ _ => Iff.rfl)
        (RLU.sub 0 (rl_stmtD s 0))
        (RLU.congr (fun c => linesD_one_zero s c)
          (RLU.append (RLU.sub 0 (rl_stmt dt s)) (RLU.sub 1 (rl_stmtEol dt s)) (by decide)))).rl
  | [s], d + 1 => RL.congr (fun c => fnLinesD_one (d + 1) s c)
      (RLU.ite (fun _ => s.isIfElse = true) (fun _ _ _ => Iff.rfl)
        (RLU.sub 0 (rl_stmtD s (d + 1)))
        (RLU.congr (fun c => linesD_one_succ d s c)
          (RLU.append (RLU.sub 0 (rl_stmtD s d)) (RLU.sub 1 (rl_stmtEolE dt s)) (by decide)))).rl
  | s :: s' :: ss, d => RL.congr (fun c => fnLinesD_cons d s s' ss c)
      (RLU.append (RLU.sub 0 (rl_stmt dt s))
        (RLU.append (RLU.sub 1 (rl_stmtEol dt s)) (RLU.sub 2 (rl_fnLinesD (s' :: ss) d)) (by decide))
        (by decide)).rl
end

theorem rl_progD (d : Nat) : ∀ bs : List (List (Statement N)), RL dt (progToksD d bs)
  | [] => RL.congr (fun _ => rfl) (RLU.nil dt).rl
  | [b] => RL.congr (fun _ => rfl)
      (RLU.append (RLU.sub 0 (rl_blanksPick dt)) (RLU.sub 1 (rl_linesD dt b d)) (by decide)).rl
  | b :: b' :: bs => RL.congr (fun _ => rfl)
      (RLU.append (RLU.sub 0 (rl_blanksPick dt))
        (RLU.append (RLU.sub 1 (rl_lines dt b))
          (RLU.cons_tk0 (.kw .newline) 2 (RLU.sub 3 (rl_progD d (b' :: bs))) (by decide)) (by decide))
        (by decide)).rl

/-- **Re-labelling, for the spellings that end with the input.** -/
theorem progToksD_relabel (d : Nat) (bs : List (List (Statement N))) (c : Choices N)
    (ts : List (Tok N)) (h : (progToksD d bs c).map tview = ts.map tview) :
    ∃ c' : Choices N, c'.pick = c.pick ∧ progToksD d bs c' = ts ∧ ∀ p, c'.tok p ∈ dt :: ts := by
  obtain ⟨tk', h1, h2⟩ := rl_progD dt d bs c ts h
  exact ⟨⟨c.pick, tk'⟩, rfl, h1, h2⟩

end

end Grammar
end Rrss
