/-
  Rrss.Lemmas.ApplyOp — the interpreter monad `M` pointwise, and the unfolding of `applyOp`,
  `foldOp`, `evalExpr` (shared by C14 and C03).
-/
import Rrss.Interp
set_option linter.unusedSectionVars false
namespace Rrss

namespace M
variable {N α β : Type}

@[simp] theorem pure_apply (a : α) (env : Env N) : (pure a : M N α) env = (.ok a, env) := rfl

theorem bind_apply (x : M N α) (f : α → M N β) (env : Env N) :
    (x >>= f) env = match x env with
      | (.ok a, e') => f a e'
      | (.err er, e') => (.err er, e')
      | (.crash s, e') => (.crash s, e')
      | (.fuel, e') => (.fuel, e')
      | (.resource, e') => (.resource, e') := rfl

theorem bind_ok {x : M N α} {f : α → M N β} {env env' : Env N} {a : α}
    (h : x env = (.ok a, env')) : (x >>= f) env = f a env' := by
  rw [bind_apply, h]

/-- a computation that does not answer `ok` stops the sequel (same result type) -/
theorem bind_stop {x : M N α} {f : α → M N α} {env : Env N}
    (h : (x env).1.isOk = false) : (x >>= f) env = x env := by
  rw [bind_apply]
  rcases hx : x env with ⟨o, e'⟩
  rw [hx] at h
  cases o <;> simp_all [Outcome.isOk]

@[simp] theorem pure_bind (a : α) (f : α → M N β) : ((pure a : M N α) >>= f) = f a := rfl

theorem liftV_apply (r : VRes N α) (env : Env N) :
    (M.liftV r : M N α) env = (match r with
      | .ok a => .ok a
      | .err e => .err (.val e)
      | .crash s => .crash s
      | .fuel => .fuel
      | .resource => .resource, env) := by
  cases r <;> rfl

end M

namespace Interp
variable {N : Type} [NumOps N]

/-- the operators whose right operand is always evaluated -/
def BinOp.strict : BinOp → Bool
  | .and | .or | .nor => false
  | _ => true

/-- one application on an already evaluated right operand never touches the environment;
    this is its result -/
def opVal (cap : Nat) (op : BinOp) (a b : Val N) : VRes N (Val N) :=
  match op with
  | .plus => Val.plus cap a b
  | .minus => .ok (Val.subtract a b)
  | .multiply => Val.multiply cap a b
  | .divide => .ok (Val.divide a b)
  | .and => .ok (.bool (a.isTruthy && b.isTruthy))
  | .or => .ok (.bool (a.isTruthy || b.isTruthy))
  | .nor => .ok (.bool (!(a.isTruthy || b.isTruthy)))
  | .eq => .ok (.bool (Val.equals a b))
  | .notEq => .ok (.bool (!Val.equals a b))
  | .greater => (Val.compare a b).map fun r => .bool (ordIs r (· == .gt))
  | .greaterEq => (Val.compare a b).map fun r => .bool (ordIs r (· != .lt))
  | .less => (Val.compare a b).map fun r => .bool (ordIs r (· == .lt))
  | .lessEq => (Val.compare a b).map fun r => .bool (ordIs r (· != .gt))

theorem cmpOp_aux (r : VRes N (Option Ordering)) (p : Ordering → Bool) (env : Env N) :
    ((M.liftV r : M N _) >>= fun r => pure (Val.bool (ordIs r p))) env
      = M.liftV (r.map fun r => (Val.bool (ordIs r p) : Val N)) env := by
  cases r <;> rfl

theorem applyOp_pure (op : BinOp) (a b : Val N) (env : Env N) :
    applyOp op a (pure b) env = M.liftV (opVal env.cap op a b) env := by
  cases op
  case and | or | nor => cases h : a.isTruthy <;> simp only [applyOp, opVal, h] <;> rfl
  case greater => exact cmpOp_aux (Val.compare a b) _ env
  case greaterEq => exact cmpOp_aux (Val.compare a b) _ env
  case less => exact cmpOp_aux (Val.compare a b) _ env
  case lessEq => exact cmpOp_aux (Val.compare a b) _ env
  all_goals rfl

/-- strict operators: evaluate the right operand, then apply -/
theorem applyOp_strict (op : BinOp) (h : BinOp.strict op = true) (a : Val N) (b : M N (Val N)) :
    applyOp op a b = b >>= fun bv => applyOp op a (pure bv) := by
  cases op <;> first | rfl | cases h

end Interp
end Rrss

namespace Rrss
namespace Interp
variable {N : Type} [NumOps N]

/-- the four ordering operators on an ordered-or-unordered pair -/
theorem applyOp_cmp_ok {a b : Val N} {o : Option Ordering} (h : Val.compare a b = .ok o)
    (env : Env N) :
    applyOp .less a (pure b) env = (.ok (.bool (ordIs o (· == .lt))), env)
    ∧ applyOp .lessEq a (pure b) env = (.ok (.bool (ordIs o (· != .gt))), env)
    ∧ applyOp .greater a (pure b) env = (.ok (.bool (ordIs o (· == .gt))), env)
    ∧ applyOp .greaterEq a (pure b) env = (.ok (.bool (ordIs o (· != .lt))), env) := by
  refine ⟨?_, ?_, ?_, ?_⟩ <;> (rw [applyOp_pure]; simp only [opVal, h]; rfl)

/-- the four ordering operators on an invalid pair -/
theorem applyOp_cmp_err {a b : Val N} {e : ValErr N} (h : Val.compare a b = .err e)
    (env : Env N) :
    applyOp .less a (pure b) env = (.err (.val e), env)
    ∧ applyOp .lessEq a (pure b) env = (.err (.val e), env)
    ∧ applyOp .greater a (pure b) env = (.err (.val e), env)
    ∧ applyOp .greaterEq a (pure b) env = (.err (.val e), env) := by
  refine ⟨?_, ?_, ?_, ?_⟩ <;> (rw [applyOp_pure]; simp only [opVal, h]; rfl)

end Interp
end Rrss
