/-
  Rrss.Lemmas.SpellPoetic — the template conditions `progFits` / `progFitsD` of the token-level
  round trip (Rrss/Thm/C02.lean), discharged for the tokens of a lexer run on a spelled text
  (Rrss/Spec/Spelling.lean) at the places where the parser reads the SPELLING or the START of a
  token: the token after a bare `break` (not `it`), the token after a poetic number literal / after
  `rock … like …` (not a word), the hyphen of `X is -5` (`-`), the text of `X says …` (a slice of the
  source).

  Method: the lexer round trip gives that every token of the run has the kind and the spelling of
  a well-formed piece (and starts at its offset: Lemmas/SpellOffsets); a piece of kind `Newline` /
  `Dot` / `Comma` is spelled `⏎` / `.` / `,` (`Lexed`); the tokens of every statement are an infix
  of `progToks bs c'`, which IS the token list of the run (Lemmas/Relabel), so membership facts
  (`Lexed`) and neighbour facts (`AdjOK`: a `Minus` right after `is` is spelled `-`) carry over;
  the poetic-string conditions (`progStrFits`, a part of `progFits`) are a hypothesis for all
  templates that agree with the pieces on kinds, spellings, payloads and start offsets.
-/
import Rrss.Lemmas.SpellExamples
import Rrss.Lemmas.SpellOffsets
set_option linter.unusedSectionVars false
set_option linter.unusedVariables false
namespace Rrss
namespace Grammar
open Lexer Parser Spelling

variable {N : Type} [CharOps]

/-! ### what the pieces give -/

/-- `char::to_lowercase` leaves the three punctuation characters alone that can follow a bare
    `break` (true of the Rust std: they have no case) -/
def PunctLower : Prop :=
  CharOps.toLower '\n' = ['\n'] ∧ CharOps.toLower '.' = ['.'] ∧ CharOps.toLower ',' = [',']

/-- a token of kind `Newline` / `Dot` / `Comma` is spelled `⏎` / `.` / `,` -/
def Lexed (t : Tok N) : Prop :=
  (t.kind = .newline → t.spelling = ['\n']) ∧ (t.kind = .dot → t.spelling = ['.']) ∧
    (t.kind = .comma → t.spelling = [','])

theorem promised_no_punct :
    ∀ p ∈ Spec.promised, p.2 ≠ .newline ∧ p.2 ≠ .dot ∧ p.2 ≠ .comma := by decide +kernel

theorem piece_punct (p : Piece) (hwf : p.wf = true) :
    (p.kind = .newline → p.text = ['\n']) ∧ (p.kind = .dot → p.text = ['.']) ∧
      (p.kind = .comma → p.text = [',']) := by
  cases p with
  | kw a k caps =>
    have hm : (a, k) ∈ Spec.promised := by
      simpa [Piece.wf] using hwf
    have := promised_no_punct _ hm
    simp only [Piece.kind]
    exact ⟨fun h => absurd h this.1, fun h => absurd h this.2.1, fun h => absurd h this.2.2⟩
  | sym s => cases s <;> simp [Piece.kind, Sym.kind, Piece.text, Sym.text]
  | suffix re caps => cases re <;> simp [Piece.kind]
  | _ => simp [Piece.kind, Piece.text]

theorem spellOK_wf : ∀ (items : List (Sep × Piece)) (prev : Option Piece) (e : Sep),
    spellOK prev items e = true → ∀ x ∈ items, x.2.wf = true
  | [], _, _, _, x, hx => by cases hx
  | (s, p) :: r, prev, e, h, x, hx => by
    simp only [spellOK, Bool.and_eq_true] at h
    rcases List.mem_cons.mp hx with rfl | hx
    · exact h.1.2
    · exact spellOK_wf r (some p) e h.2 x hx

section
variable [NumOps N]

theorem view_of_mem {ts : List (Tok N)} {items : List (Sep × Piece)}
    (h : ts.map tview = items.map (fun x => (x.2.expect : TK × Str × Option N × Str)))
    {t : Tok N} (ht : t ∈ ts) : ∃ x ∈ items, t.kind = x.2.kind ∧ t.spelling = x.2.text := by
  have : tview t ∈ items.map (fun x => (x.2.expect : TK × Str × Option N × Str)) := by
    rw [← h]; exact List.mem_map_of_mem ht
  obtain ⟨x, hx, hv⟩ := List.mem_map.mp this
  simp only [Piece.expect, tview, Prod.mk.injEq] at hv
  exact ⟨x, hx, hv.1.symm, hv.2.1.symm⟩

/-- the tokens of a spelled text: line ends and the punctuation before them are spelled as such -/
theorem lexed_of_views {ts : List (Tok N)} {items : List (Sep × Piece)}
    (h : ts.map tview = items.map (fun x => (x.2.expect : TK × Str × Option N × Str)))
    (hwf : ∀ x ∈ items, x.2.wf = true) : ∀ t ∈ ts, Lexed t := by
  intro t ht
  obtain ⟨x, hx, hk, hs⟩ := view_of_mem h ht
  have := piece_punct x.2 (hwf x hx)
  rw [← hk, ← hs] at this
  exact this

end

theorem lexed_not_it (hpl : PunctLower) {t : Tok N} (hl : Lexed t)
    (hk : t.kind = .newline ∨ t.kind = .dot ∨ t.kind = .comma) :
    (CharOps.lower t.spelling == str% "it") = false := by
  obtain ⟨h1, h2, h3⟩ := hpl
  rcases hk with hk | hk | hk
  · rw [hl.1 hk]; simp [CharOps.lower, h1]
  · rw [hl.2.1 hk]; simp [CharOps.lower, h2]
  · rw [hl.2.2 hk]; simp [CharOps.lower, h3]

theorem lexed_newline_ends (hnl : CharOps.isWhitespace '\n' = true) {t : Tok N} (hl : Lexed t)
    (hk : t.kind = .newline) : continuesPoetic t = false := by
  simp [continuesPoetic, hk, hl.1 hk, poeticPunct, Lexer.isWord, Lexer.isWordEnd, hnl]

/-! ### programs whose template conditions concern spellings and source slices -/

/-- a negative poetic right-hand side `X is -5` only if `hy`; a poetic string `X says …` only if `ps` -/
def SimpleStmt.lexable (hy ps : Bool) : SimpleStmt N → Bool
  | .poeticExpr _ e => hy || e.headUnary.poeticStart != some true
  | .poeticStr _ _ _ => ps
  | _ => true

mutual
def Statement.lexable (hy ps : Bool) : Statement N → Bool
  | .simple s _ => s.lexable hy ps
  | .ifS _ _ t e =>
      stmtsLexable hy ps t &&
        (match e with
         | some b => stmtsLexable hy ps b
         | none => true)
  | .whileS _ _ b => stmtsLexable hy ps b
  | .untilS _ _ b => stmtsLexable hy ps b
  | .func _ _ _ _ b => stmtsLexable hy ps b
def stmtsLexable (hy ps : Bool) : List (Statement N) → Bool
  | [] => true
  | s :: ss => s.lexable hy ps && stmtsLexable hy ps ss
end

/-- all programs, except: `X is -5` only if `hy`, poetic strings `X says …` only if `ps` (bare
    `break`s, poetic number literals, `rock … like …` are always allowed) -/
def progLexable (hy ps : Bool) (bs : List (List (Statement N))) : Bool := bs.all (stmtsLexable hy ps)

/-- the part of `Fits` about poetic strings: the text of `X says …` is the slice of the source from
    the start of the `says` token to the start of the next `Newline` token, minus `says␣` -/
def SimpleStmt.StrFits (src : Str) : SimpleStmt N → Choices N → List (Tok N) → Prop
  | .poeticStr _ text _, c, rest =>
      lineText src (c.sub 1).here.start rest = some ((c.sub 1).here.spelling ++ ' ' :: text)
  | _, _, _ => True

mutual
def Statement.StrFits (src : Str) : Statement N → Choices N → List (Tok N) → Prop
  | .simple s _, c, rest => s.StrFits src c rest
  | .ifS _ _ t e, c, _ =>
      linesStrFits src t (c.sub 3) ∧
        (match e with
         | some b => linesStrFits src b (c.sub 6)
         | none => True)
  | .whileS _ _ b, c, _ => linesStrFits src b (c.sub 3)
  | .untilS _ _ b, c, _ => linesStrFits src b (c.sub 3)
  | .func _ _ _ _ b, c, _ => fnLinesStrFits src b (c.sub 5)
def linesStrFits (src : Str) : List (Statement N) → Choices N → Prop
  | [], _ => True
  | s :: ss, c => s.StrFits src (c.sub 0) (s.eolToks (c.sub 1)) ∧ linesStrFits src ss (c.sub 2)
def fnLinesStrFits (src : Str) : List (Statement N) → Choices N → Prop
  | [], _ => True
  | s :: ss, c =>
      s.StrFits src (c.sub 0) (if ss.isEmpty && s.isIfElse then [] else s.eolToks (c.sub 1)) ∧
        fnLinesStrFits src ss (c.sub 2)
end

/-- the poetic-string conditions of a program (a part of `progFits`) -/
def progStrFits (src : Str) : List (List (Statement N)) → Choices N → Prop
  | [], _ => True
  | b :: bs, c => linesStrFits src b (c.sub 1) ∧ progStrFits src bs (c.sub 3)

theorem ifS_strFits (src : Str) (cond : Expression N) (eol : Eol) (t : List (Statement N))
    (e : Option (List (Statement N))) (c : Choices N) (rest : List (Tok N)) :
    (Statement.ifS cond eol t e).StrFits src c rest = (linesStrFits src t (c.sub 3) ∧
      (match e with
       | some b => linesStrFits src b (c.sub 6)
       | none => True)) := by
  cases e <;> rfl

theorem linesStrFits_cons (src : Str) (s : Statement N) (ss : List (Statement N)) (c : Choices N) :
    linesStrFits src (s :: ss) c = (s.StrFits src (c.sub 0) (s.eolToks (c.sub 1)) ∧
      linesStrFits src ss (c.sub 2)) := rfl

theorem fnLinesStrFits_cons (src : Str) (s : Statement N) (ss : List (Statement N)) (c : Choices N) :
    fnLinesStrFits src (s :: ss) c = (s.StrFits src (c.sub 0)
      (if ss.isEmpty && s.isIfElse then [] else s.eolToks (c.sub 1)) ∧
        fnLinesStrFits src ss (c.sub 2)) := rfl

/-- the kinds of `is` / `'s` / `'re` -/
def isKinds : List TK := [.is, .apostropheS, .apostropheRE]

/-- right after `is` / `'s` / `'re`, a `Minus` token is spelled `-` -/
def HyOK (a b : Tok N) : Prop := isKinds.contains a.kind = true → b.kind = .minus → b.spelling = ['-']

/-- … for every two neighbours of a token list -/
def AdjOK (l : List (Tok N)) : Prop := ∀ a b, [a, b] <:+: l → HyOK a b

omit [CharOps] in
theorem isKind3_isKinds (n : Nat) : isKinds.contains (isKind3 n) = true := by
  unfold isKind3; split <;> rfl

omit [CharOps] in
theorem infix_l {α : Type} {X A B : List α} (h : X <:+: A) : X <:+: A ++ B := by
  obtain ⟨s, t, h⟩ := h; exact ⟨s, t ++ B, by simp [← h]⟩
omit [CharOps] in
theorem infix_r {α : Type} {X A B : List α} (h : X <:+: B) : X <:+: A ++ B := by
  obtain ⟨s, t, h⟩ := h; exact ⟨A ++ s, t, by simp [← h]⟩
omit [CharOps] in
theorem infix_c {α : Type} {X B : List α} {a : α} (h : X <:+: B) : X <:+: a :: B := by
  obtain ⟨s, t, h⟩ := h; exact ⟨a :: s, t, by simp [← h]⟩

omit [CharOps] in
theorem mem_of_head? {α : Type} {l : List α} {a : α} (h : l.head? = some a) : a ∈ l := by
  cases l with
  | nil => cases h
  | cons b l => simp at h; subst h; simp

/-- the first token of a right-hand side `-5` is a `Minus` token -/
theorem hyphen_head (e : Expression N) (c : Choices N) (hp : e.headUnary.poeticStart = some true) :
    ∀ t, (unparse e c).head? = some t → t.kind = .minus := by
  obtain ⟨tail, ht⟩ := unparse_headUnary e c
  rw [ht]
  generalize e.headUnary = u at hp
  generalize (((c.sub 0).sub 0).sub 0).sub 0 = cu
  obtain ⟨ops, p⟩ := u
  obtain ⟨h, subs⟩ := p
  cases ops with
  | nil => cases h <;> simp [Unary.poeticStart] at hp
  | cons o os =>
    cases o with
    | not => simp [Unary.poeticStart] at hp
    | minus =>
      cases os with
      | cons o' os' => simp [Unary.poeticStart] at hp
      | nil =>
        intro t ht
        simp [Unary.toks, unopsToks, unopKind] at ht
        subst ht; rfl

theorem simple_lex_fits {hy ps : Bool} (L : List (Tok N)) (hAdj : hy = true → AdjOK L)
    (src : Str) (s : SimpleStmt N) (c : Choices N) (rest : List (Tok N))
    (hp : s.lexable hy ps = true) (hQ : s.toks c <:+: L)
    (hS : ps = true → s.StrFits src c rest) : s.Fits src c rest := by
  cases s with
  | poeticExpr t e =>
    intro h t0 ht0
    have hy' : hy = true := by simpa [SimpleStmt.lexable, h] using hp
    obtain ⟨tail, htail⟩ : ∃ tail, unparse e (c.sub 2) = t0 :: tail := by
      cases hu : unparse e (c.sub 2) with
      | nil => rw [hu] at ht0; cases ht0
      | cons x xs => rw [hu] at ht0; simp at ht0; subst ht0; exact ⟨xs, rfl⟩
    have hi : [tk (.kw (isKind3 (c.sub 1).choice)) (c.sub 1), t0] <:+: L := by
      refine List.IsInfix.trans ⟨t.toks (c.sub 0), tail, ?_⟩ hQ
      simp [SimpleStmt.toks, htail]
    exact hAdj hy' _ _ hi (isKind3_isKinds _) (hyphen_head e _ h t0 ht0)
  | poeticStr t text junk => exact hS (by simpa [SimpleStmt.lexable] using hp)
  | _ => trivial

theorem eolToks_head_kind (eol : Eol) (c : Choices N) :
    ∀ t, (eolToks eol c).head? = some t → t.kind = .newline ∨ t.kind = .dot ∨ t.kind = .comma := by
  intro t ht
  cases eol <;> simp [eolToks] at ht <;> subst ht <;> simp

theorem stmt_lex_eolOK (hpl : PunctLower) (hnl : CharOps.isWhitespace '\n' = true)
    (s : Statement N) (c : Choices N) (hw : s.wf = true)
    (hQ : ∀ t ∈ s.eolToks c, Lexed t) : s.EolOK c := by
  cases s with
  | simple s eol =>
    show s.PeekStop (eolToks eol c)
    have hQ' : ∀ t ∈ eolToks eol c, Lexed t := hQ
    rw [simple_wf] at hw
    simp only [Bool.and_eq_true] at hw
    cases s with
    | break_ it =>
      cases it with
      | none =>
        intro t ht
        exact lexed_not_it hpl (hQ' t (mem_of_head? ht)) (eolToks_head_kind eol c t ht)
      | some it => trivial
    | poeticLit t lit =>
      intro t0 ht0
      have hl := hQ' t0 (mem_of_head? ht0)
      cases eol with
      | none =>
        simp [eolToks] at ht0; subst ht0
        exact lexed_newline_ends hnl hl rfl
      | dot => simp [SimpleStmt.dotOK] at hw
      | comma => simp [SimpleStmt.commaOK] at hw
    | rockLike p lit =>
      intro t0 ht0
      have hl := hQ' t0 (mem_of_head? ht0)
      cases eol with
      | none =>
        simp [eolToks] at ht0; subst ht0
        exact lexed_newline_ends hnl hl rfl
      | dot => simp [SimpleStmt.dotOK] at hw
      | comma => simp [SimpleStmt.commaOK] at hw
    | _ => trivial
  | _ => trivial

omit [CharOps] in
theorem ifS_lexable (hy ps : Bool) (cond : Expression N) (eol : Eol) (t : List (Statement N))
    (e : Option (List (Statement N))) :
    (Statement.ifS cond eol t e).lexable hy ps = (stmtsLexable hy ps t &&
      (match e with
       | some b => stmtsLexable hy ps b
       | none => true)) := by
  cases e <;> rfl

theorem mem_blockToks {b : List (Statement N)} {c : Choices N} {t : Tok N} (h : t ∈ linesToks b c) :
    t ∈ blockToks b c := by
  cases b with
  | nil => simp [lines_nil] at h
  | cons s ss => exact h

theorem mem_fnBlockToks {b : List (Statement N)} {c : Choices N} {t : Tok N} (h : t ∈ fnLinesToks b c) :
    t ∈ fnBlockToks b c := by
  cases b with
  | nil => simp [fnLines_nil] at h
  | cons s ss => exact h

theorem infix_blockToks (b : List (Statement N)) (c : Choices N) : linesToks b c <:+: blockToks b c := by
  cases b with
  | nil => rw [lines_nil]; exact List.nil_infix
  | cons s ss => exact List.infix_rfl

theorem infix_fnBlockToks (b : List (Statement N)) (c : Choices N) :
    fnLinesToks b c <:+: fnBlockToks b c := by
  cases b with
  | nil => rw [fnLines_nil]; exact List.nil_infix
  | cons s ss => exact List.infix_rfl

theorem infix_headerTailD (d : Nat) (eol : Eol) (b : List (Statement N)) (c2 c3 : Choices N) :
    linesToksD d b c3 <:+: headerTailD d eol b c2 c3 (linesToksD d b c3) := by
  cases b with
  | nil => rw [linesD_nil]; exact List.nil_infix
  | cons s ss => exact infix_r List.infix_rfl

theorem infix_headerTailD_fn (d : Nat) (eol : Eol) (b : List (Statement N)) (c2 c3 : Choices N) :
    fnLinesToksD d b c3 <:+: headerTailD d eol b c2 c3 (fnLinesToksD d b c3) := by
  cases b with
  | nil => rw [fnLinesD_nil]; exact List.nil_infix
  | cons s ss => exact infix_r List.infix_rfl

theorem infix_elseTailD (d : Nat) (b : List (Statement N)) (c5 c6 : Choices N) :
    linesToksD d b c6 <:+: elseTailD d b c5 c6 (linesToksD d b c6) := by
  cases b with
  | nil => rw [linesD_nil]; exact List.nil_infix
  | cons s ss => exact infix_c List.infix_rfl

/-- `X <:+: …` where `X` is one of the components of a nest of `++` and `::` -/
syntax "infix_core" : tactic
macro_rules
  | `(tactic| infix_core) => `(tactic| first
      | exact List.infix_rfl
      | exact infix_blockToks _ _
      | exact infix_fnBlockToks _ _
      | exact infix_headerTailD _ _ _ _ _
      | exact infix_headerTailD_fn _ _ _ _ _
      | exact infix_elseTailD _ _ _ _
      | (apply infix_c; infix_core)
      | (apply infix_l; infix_core)
      | (apply infix_r; infix_core))
macro "infix_tac" : tactic => `(tactic| ((try simp only [elseToks]); infix_core))

section
variable (hpl : PunctLower) (hnl : CharOps.isWhitespace '\n' = true)
  (L : List (Tok N)) (hL : ∀ t ∈ L, Lexed t) {hy : Bool} (hAdj : hy = true → AdjOK L)
include hpl hnl hL hAdj

mutual
theorem lex_fits {ps : Bool} (src : Str) : (s : Statement N) → ∀ (c : Choices N) (rest : List (Tok N)),
    s.wf = true → s.lexable hy ps = true → s.toks c <:+: L →
    (ps = true → s.StrFits src c rest) → s.Fits src c rest
  | .simple s eol, c, rest, _, hp, hQ, hS => simple_lex_fits L hAdj src s c rest hp hQ hS
  | .ifS cond eol t e, c, rest, hw, hp, hQ, hS => by
    rw [ifS_lexable] at hp
    rw [ifS_wf] at hw
    simp only [Bool.and_eq_true] at hp hw
    rw [ifS_fits]
    rw [ifS_toks] at hQ
    rw [ifS_strFits] at hS
    refine ⟨lex_linesFit src t (c.sub 3) hw.1.2 hp.1
      (List.IsInfix.trans (by infix_tac) hQ) (fun h => (hS h).1), ?_⟩
    cases e with
    | none => trivial
    | some b =>
      exact lex_linesFit src b (c.sub 6) hw.2 hp.2
        (List.IsInfix.trans (by infix_tac) hQ) (fun h => (hS h).2)
  | .whileS cond eol b, c, rest, hw, hp, hQ, hS => by
    rw [whileS_wf] at hw
    simp only [Bool.and_eq_true] at hw
    rw [whileS_toks] at hQ
    exact lex_linesFit src b (c.sub 3) hw.2 hp (List.IsInfix.trans (by infix_tac) hQ)
      (fun h => hS h)
  | .untilS cond eol b, c, rest, hw, hp, hQ, hS => by
    rw [untilS_wf] at hw
    simp only [Bool.and_eq_true] at hw
    rw [untilS_toks] at hQ
    exact lex_linesFit src b (c.sub 3) hw.2 hp (List.IsInfix.trans (by infix_tac) hQ)
      (fun h => hS h)
  | .func f p ps' eol b, c, rest, hw, hp, hQ, hS => by
    rw [func_wf] at hw
    simp only [Bool.and_eq_true] at hw
    rw [func_toks] at hQ
    exact lex_fnLinesFit src b (c.sub 5) hw.1.2 hp (List.IsInfix.trans (by infix_tac) hQ)
      (fun h => hS h)
theorem lex_linesFit {ps : Bool} (src : Str) : (ls : List (Statement N)) → ∀ (c : Choices N),
    stmtsWf ls = true → stmtsLexable hy ps ls = true → linesToks ls c <:+: L →
    (ps = true → linesStrFits src ls c) → linesFit src ls c
  | [], c, _, _, _, _ => trivial
  | s :: ss, c, hw, hp, hQ, hS => by
    have hp' : (s.lexable hy ps && stmtsLexable hy ps ss) = true := hp
    rw [stmtsWf_cons] at hw
    simp only [Bool.and_eq_true] at hp' hw
    rw [linesFit_cons]
    rw [lines_cons] at hQ
    rw [linesStrFits_cons] at hS
    exact ⟨lex_fits src s (c.sub 0) _ hw.1 hp'.1 (List.IsInfix.trans (by infix_tac) hQ) (fun h => (hS h).1),
      stmt_lex_eolOK hpl hnl s (c.sub 1) hw.1 (fun x hx => hL x (hQ.subset (by simp [hx]))),
      lex_linesFit src ss (c.sub 2) hw.2 hp'.2 (List.IsInfix.trans (by infix_tac) hQ) (fun h => (hS h).2)⟩
theorem lex_fnLinesFit {ps : Bool} (src : Str) : (ls : List (Statement N)) → ∀ (c : Choices N),
    stmtsWf ls = true → stmtsLexable hy ps ls = true → fnLinesToks ls c <:+: L →
    (ps = true → fnLinesStrFits src ls c) → fnLinesFit src ls c
  | [], c, _, _, _, _ => trivial
  | s :: ss, c, hw, hp, hQ, hS => by
    have hp' : (s.lexable hy ps && stmtsLexable hy ps ss) = true := hp
    rw [stmtsWf_cons] at hw
    simp only [Bool.and_eq_true] at hp' hw
    rw [fnLinesFit_cons]
    rw [fnLines_cons] at hQ
    rw [fnLinesStrFits_cons] at hS
    refine ⟨?_, lex_fnLinesFit src ss (c.sub 2) hw.2 hp'.2 (List.IsInfix.trans (by infix_tac) hQ)
      (fun h => (hS h).2)⟩
    split
    · rename_i hc
      rw [if_pos hc] at hS
      exact lex_fits src s (c.sub 0) _ hw.1 hp'.1 (List.IsInfix.trans (by infix_tac) hQ) (fun h => (hS h).1)
    · rename_i hc
      rw [if_neg hc] at hQ hS
      exact ⟨lex_fits src s (c.sub 0) _ hw.1 hp'.1 (List.IsInfix.trans (by infix_tac) hQ) (fun h => (hS h).1),
        stmt_lex_eolOK hpl hnl s (c.sub 1) hw.1 (fun x hx => hL x (hQ.subset (by simp [hx])))⟩
end

theorem lex_progFits {ps : Bool} (src : Str) : ∀ (bs : List (List (Statement N))) (c : Choices N),
    progWf bs = true → progLexable hy ps bs = true → progToks bs c <:+: L →
    (ps = true → progStrFits src bs c) → progFits src bs c
  | [], c, _, _, _, _ => trivial
  | b :: bs, c, hw, hp, hQ, hS => by
    simp only [progLexable, List.all_cons, Bool.and_eq_true] at hp
    simp only [progWf, List.all_cons, Bool.and_eq_true] at hw
    have hQ' : blanksToks (c.sub 0).choice (c.sub 0) ++ (linesToks b (c.sub 1) ++
        tk (.kw .newline) (c.sub 2) :: progToks bs (c.sub 3)) <:+: L := hQ
    have hS' : ps = true → linesStrFits src b (c.sub 1) ∧ progStrFits src bs (c.sub 3) := hS
    exact ⟨lex_linesFit hpl hnl L hL hAdj src b (c.sub 1) hw.1.2 hp.1 (List.IsInfix.trans (by infix_tac) hQ')
        (fun h => (hS' h).1),
      lex_progFits src bs (c.sub 3) (by simpa [progWf] using hw.2) (by simpa [progLexable] using hp.2)
        (List.IsInfix.trans (by infix_tac) hQ') (fun h => (hS' h).2)⟩

end

/-! ### the poetic-string conditions for the spellings that end with the input -/

mutual
/-- the poetic-string part of `FitsD` -/
def Statement.StrFitsD (src : Str) : Nat → Statement N → Choices N → List (Tok N) → Prop
  | _, .simple s _, c, rest => s.StrFits src c rest
  | d, .ifS _ _ t none, c, _ => linesStrFitsD src d t (c.sub 3)
  | d, .ifS _ _ t (some b), c, _ => linesStrFits src t (c.sub 3) ∧ linesStrFitsD src d b (c.sub 6)
  | d, .whileS _ _ b, c, _ => linesStrFitsD src d b (c.sub 3)
  | d, .untilS _ _ b, c, _ => linesStrFitsD src d b (c.sub 3)
  | d, .func _ _ _ _ b, c, _ => fnLinesStrFitsD src d b (c.sub 5)
def linesStrFitsD (src : Str) : Nat → List (Statement N) → Choices N → Prop
  | _, [], _ => True
  | d, s :: ss, c =>
      match ss with
      | [] =>
          (match d with
           | 0 => s.StrFits src (c.sub 0) (s.eolToks (c.sub 1))
           | d' + 1 => s.StrFitsD src d' (c.sub 0) (s.eolToksE (c.sub 1)))
      | _ :: _ => s.StrFits src (c.sub 0) (s.eolToks (c.sub 1)) ∧ linesStrFitsD src d ss (c.sub 2)
def fnLinesStrFitsD (src : Str) : Nat → List (Statement N) → Choices N → Prop
  | _, [], _ => True
  | d, s :: ss, c =>
      match ss with
      | [] =>
          if s.isIfElse then s.StrFitsD src d (c.sub 0) []
          else
            (match d with
             | 0 => s.StrFits src (c.sub 0) (s.eolToks (c.sub 1))
             | d' + 1 => s.StrFitsD src d' (c.sub 0) (s.eolToksE (c.sub 1)))
      | _ :: _ => s.StrFits src (c.sub 0) (s.eolToks (c.sub 1)) ∧ fnLinesStrFitsD src d ss (c.sub 2)
end

/-- the poetic-string part of `progFitsD`: a `says` line that ends with the input runs to the end
    of the source -/
def progStrFitsD (src : Str) (d : Nat) : List (List (Statement N)) → Choices N → Prop
  | [], _ => True
  | [b], c => linesStrFitsD src d b (c.sub 1)
  | b :: b' :: bs, c => linesStrFits src b (c.sub 1) ∧ progStrFitsD src d (b' :: bs) (c.sub 3)

theorem simple_strFitsD (src : Str) (d : Nat) (s : SimpleStmt N) (eol : Eol) (c : Choices N) (r : List (Tok N)) :
    (Statement.simple s eol).StrFitsD src d c r = s.StrFits src c r := by
  cases d <;> rfl
theorem ifS_none_strFitsD (src : Str) (d : Nat) (cond : Expression N) (eol : Eol) (t : List (Statement N))
    (c : Choices N) (r : List (Tok N)) :
    (Statement.ifS cond eol t none).StrFitsD src d c r = linesStrFitsD src d t (c.sub 3) := by
  cases d <;> rfl
theorem ifS_some_strFitsD (src : Str) (d : Nat) (cond : Expression N) (eol : Eol) (t b : List (Statement N))
    (c : Choices N) (r : List (Tok N)) :
    (Statement.ifS cond eol t (some b)).StrFitsD src d c r
      = (linesStrFits src t (c.sub 3) ∧ linesStrFitsD src d b (c.sub 6)) := by
  cases d <;> rfl
theorem whileS_strFitsD (src : Str) (d : Nat) (cond : Expression N) (eol : Eol) (b : List (Statement N))
    (c : Choices N) (r : List (Tok N)) :
    (Statement.whileS cond eol b).StrFitsD src d c r = linesStrFitsD src d b (c.sub 3) := by
  cases d <;> rfl
theorem untilS_strFitsD (src : Str) (d : Nat) (cond : Expression N) (eol : Eol) (b : List (Statement N))
    (c : Choices N) (r : List (Tok N)) :
    (Statement.untilS cond eol b).StrFitsD src d c r = linesStrFitsD src d b (c.sub 3) := by
  cases d <;> rfl
theorem func_strFitsD (src : Str) (d : Nat) (f p : VarSpec) (ps : List VarSpec) (eol : Eol)
    (b : List (Statement N)) (c : Choices N) (r : List (Tok N)) :
    (Statement.func f p ps eol b).StrFitsD src d c r = fnLinesStrFitsD src d b (c.sub 5) := by
  cases d <;> rfl
theorem linesStrFitsD_cons (src : Str) (d : Nat) (s s' : Statement N) (ss : List (Statement N)) (c : Choices N) :
    linesStrFitsD src d (s :: s' :: ss) c = (s.StrFits src (c.sub 0) (s.eolToks (c.sub 1)) ∧
      linesStrFitsD src d (s' :: ss) (c.sub 2)) := by
  cases d <;> rfl
theorem fnLinesStrFitsD_one (src : Str) (d : Nat) (s : Statement N) (c : Choices N) :
    fnLinesStrFitsD src d [s] c
      = if s.isIfElse then s.StrFitsD src d (c.sub 0) [] else linesStrFitsD src d [s] c := by
  cases d <;> rfl
theorem fnLinesStrFitsD_cons (src : Str) (d : Nat) (s s' : Statement N) (ss : List (Statement N)) (c : Choices N) :
    fnLinesStrFitsD src d (s :: s' :: ss) c = (s.StrFits src (c.sub 0) (s.eolToks (c.sub 1)) ∧
      fnLinesStrFitsD src d (s' :: ss) (c.sub 2)) := by
  cases d <;> rfl

/-! ### the spellings that end with the input (`…D d`) -/

theorem eolPunct_head_kind (eol : Eol) (c : Choices N) :
    ∀ t, (eolPunct eol c).head? = some t → t.kind = .newline ∨ t.kind = .dot ∨ t.kind = .comma := by
  intro t ht
  cases eol <;> simp [eolPunct] at ht <;> subst ht <;> simp

theorem stmt_lex_eolOKE (hpl : PunctLower) (s : Statement N) (c : Choices N) (hw : s.wf = true)
    (hQ : ∀ t ∈ s.eolToksE c, Lexed t) : s.EolOKE c := by
  cases s with
  | simple s eol =>
    show s.PeekStop (eolPunct eol c)
    have hQ' : ∀ t ∈ eolPunct eol c, Lexed t := by
      rw [← eolToksE_simple s eol c]; exact hQ
    rw [simple_wf] at hw
    simp only [Bool.and_eq_true] at hw
    cases s with
    | break_ it =>
      cases it with
      | none =>
        intro t ht
        exact lexed_not_it hpl (hQ' t (mem_of_head? ht)) (eolPunct_head_kind eol c t ht)
      | some it => trivial
    | poeticLit t lit =>
      intro t0 ht0
      cases eol with
      | none => simp [eolPunct] at ht0
      | dot => simp [SimpleStmt.dotOK] at hw
      | comma => simp [SimpleStmt.commaOK] at hw
    | rockLike p lit =>
      intro t0 ht0
      cases eol with
      | none => simp [eolPunct] at ht0
      | dot => simp [SimpleStmt.dotOK] at hw
      | comma => simp [SimpleStmt.commaOK] at hw
    | _ => trivial
  | _ => trivial

theorem mem_headerTailD {d : Nat} {eol : Eol} {b : List (Statement N)} {c2 c3 : Choices N} {t : Tok N}
    (h : t ∈ linesToksD d b c3) : t ∈ headerTailD d eol b c2 c3 (linesToksD d b c3) := by
  cases b with
  | nil => simp [linesD_nil] at h
  | cons s ss => simp [headerTailD, h]

theorem mem_headerTailD_fn {d : Nat} {eol : Eol} {b : List (Statement N)} {c2 c3 : Choices N} {t : Tok N}
    (h : t ∈ fnLinesToksD d b c3) : t ∈ headerTailD d eol b c2 c3 (fnLinesToksD d b c3) := by
  cases b with
  | nil => simp [fnLinesD_nil] at h
  | cons s ss => simp [headerTailD, h]

theorem mem_elseTailD {d : Nat} {b : List (Statement N)} {c5 c6 : Choices N} {t : Tok N}
    (h : t ∈ linesToksD d b c6) : t ∈ elseTailD d b c5 c6 (linesToksD d b c6) := by
  cases b with
  | nil => simp [linesD_nil] at h
  | cons s ss => simp [elseTailD, h]

section
variable (hpl : PunctLower) (hnl : CharOps.isWhitespace '\n' = true)
  (L : List (Tok N)) (hL : ∀ t ∈ L, Lexed t) {hy : Bool} (hAdj : hy = true → AdjOK L)
include hpl hnl hL hAdj

mutual
theorem lex_fitsD {ps : Bool} (src : Str) : (s : Statement N) → ∀ (d : Nat) (c : Choices N) (rest : List (Tok N)),
    s.wf = true → s.lexable hy ps = true → s.toksD d c <:+: L →
    (ps = true → s.StrFitsD src d c rest) → s.FitsD src d c rest
  | .simple s eol, d, c, rest, _, hp, hQ, hS => by
    rw [simple_fitsD]
    rw [simple_toksD] at hQ
    rw [simple_strFitsD] at hS
    exact simple_lex_fits L hAdj src s c rest hp hQ hS
  | .ifS cond eol t none, d, c, rest, hw, hp, hQ, hS => by
    rw [ifS_lexable] at hp
    rw [ifS_wf] at hw
    simp only [Bool.and_eq_true] at hp hw
    rw [ifS_none_fitsD]
    rw [ifS_none_toksD] at hQ
    rw [ifS_none_strFitsD] at hS
    exact lex_linesFitD src t d (c.sub 3) hw.1.2 hp.1 (List.IsInfix.trans (by infix_tac) hQ) hS
  | .ifS cond eol t (some b), d, c, rest, hw, hp, hQ, hS => by
    rw [ifS_lexable] at hp
    rw [ifS_wf] at hw
    simp only [Bool.and_eq_true] at hp hw
    rw [ifS_some_fitsD]
    rw [ifS_some_toksD] at hQ
    rw [ifS_some_strFitsD] at hS
    exact ⟨lex_linesFit hpl hnl L hL hAdj src t (c.sub 3) hw.1.2 hp.1
        (List.IsInfix.trans (by infix_tac) hQ) (fun h => (hS h).1),
      lex_linesFitD src b d (c.sub 6) hw.2 hp.2 (List.IsInfix.trans (by infix_tac) hQ)
        (fun h => (hS h).2)⟩
  | .whileS cond eol b, d, c, rest, hw, hp, hQ, hS => by
    rw [whileS_wf] at hw
    simp only [Bool.and_eq_true] at hw
    rw [whileS_fitsD]
    rw [whileS_toksD] at hQ
    rw [whileS_strFitsD] at hS
    exact lex_linesFitD src b d (c.sub 3) hw.2 hp (List.IsInfix.trans (by infix_tac) hQ) hS
  | .untilS cond eol b, d, c, rest, hw, hp, hQ, hS => by
    rw [untilS_wf] at hw
    simp only [Bool.and_eq_true] at hw
    rw [untilS_fitsD]
    rw [untilS_toksD] at hQ
    rw [untilS_strFitsD] at hS
    exact lex_linesFitD src b d (c.sub 3) hw.2 hp (List.IsInfix.trans (by infix_tac) hQ) hS
  | .func f p ps' eol b, d, c, rest, hw, hp, hQ, hS => by
    rw [func_wf] at hw
    simp only [Bool.and_eq_true] at hw
    rw [func_fitsD]
    rw [func_toksD] at hQ
    rw [func_strFitsD] at hS
    exact lex_fnLinesFitD src b d (c.sub 5) hw.1.2 hp (List.IsInfix.trans (by infix_tac) hQ) hS
theorem lex_linesFitD {ps : Bool} (src : Str) : (ls : List (Statement N)) → ∀ (d : Nat) (c : Choices N),
    stmtsWf ls = true → stmtsLexable hy ps ls = true → linesToksD d ls c <:+: L →
    (ps = true → linesStrFitsD src d ls c) → linesFitD src d ls c
  | [], d, c, _, _, _, _ => by cases d <;> trivial
  | [s], 0, c, hw, hp, hQ, hS => by
    have hp' : (s.lexable hy ps && stmtsLexable hy ps []) = true := hp
    rw [stmtsWf_cons] at hw
    simp only [Bool.and_eq_true] at hp' hw
    rw [linesFitD_one_zero]
    rw [linesD_one_zero] at hQ
    have hS' : ps = true → s.StrFits src (c.sub 0) (s.eolToks (c.sub 1)) := hS
    exact ⟨lex_fits hpl hnl L hL hAdj src s (c.sub 0) _ hw.1 hp'.1 (List.IsInfix.trans (by infix_tac) hQ)
        hS',
      stmt_lex_eolOK hpl hnl s (c.sub 1) hw.1 (fun x hx => hL x (hQ.subset (by simp [hx])))⟩
  | [s], d + 1, c, hw, hp, hQ, hS => by
    have hp' : (s.lexable hy ps && stmtsLexable hy ps []) = true := hp
    rw [stmtsWf_cons] at hw
    simp only [Bool.and_eq_true] at hp' hw
    rw [linesFitD_one_succ]
    rw [linesD_one_succ] at hQ
    have hS' : ps = true → s.StrFitsD src d (c.sub 0) (s.eolToksE (c.sub 1)) := hS
    exact ⟨lex_fitsD src s d (c.sub 0) _ hw.1 hp'.1 (List.IsInfix.trans (by infix_tac) hQ) hS',
      stmt_lex_eolOKE hpl s (c.sub 1) hw.1 (fun x hx => hL x (hQ.subset (by simp [hx])))⟩
  | s :: s' :: ss, d, c, hw, hp, hQ, hS => by
    have hp' : (s.lexable hy ps && stmtsLexable hy ps (s' :: ss)) = true := hp
    rw [stmtsWf_cons] at hw
    simp only [Bool.and_eq_true] at hp' hw
    rw [linesFitD_cons]
    rw [linesD_cons] at hQ
    rw [linesStrFitsD_cons] at hS
    exact ⟨lex_fits hpl hnl L hL hAdj src s (c.sub 0) _ hw.1 hp'.1 (List.IsInfix.trans (by infix_tac) hQ)
        (fun h => (hS h).1),
      stmt_lex_eolOK hpl hnl s (c.sub 1) hw.1 (fun x hx => hL x (hQ.subset (by simp [hx]))),
      lex_linesFitD src (s' :: ss) d (c.sub 2) hw.2 hp'.2 (List.IsInfix.trans (by infix_tac) hQ)
        (fun h => (hS h).2)⟩
theorem lex_fnLinesFitD {ps : Bool} (src : Str) : (ls : List (Statement N)) → ∀ (d : Nat) (c : Choices N),
    stmtsWf ls = true → stmtsLexable hy ps ls = true → fnLinesToksD d ls c <:+: L →
    (ps = true → fnLinesStrFitsD src d ls c) → fnLinesFitD src d ls c
  | [], d, c, _, _, _, _ => by cases d <;> trivial
  | [s], d, c, hw, hp, hQ, hS => by
    have hp' : (s.lexable hy ps && stmtsLexable hy ps []) = true := hp
    have hw0 := hw
    rw [stmtsWf_cons] at hw
    simp only [Bool.and_eq_true] at hp' hw
    rw [fnLinesFitD_one]
    rw [fnLinesD_one] at hQ
    rw [fnLinesStrFitsD_one] at hS
    split
    · rename_i hc
      rw [if_pos hc] at hQ hS
      exact lex_fitsD src s d (c.sub 0) _ hw.1 hp'.1 hQ hS
    · rename_i hc
      rw [if_neg hc] at hQ hS
      exact lex_linesFitD src [s] d c hw0 hp hQ hS
  | s :: s' :: ss, d, c, hw, hp, hQ, hS => by
    have hp' : (s.lexable hy ps && stmtsLexable hy ps (s' :: ss)) = true := hp
    rw [stmtsWf_cons] at hw
    simp only [Bool.and_eq_true] at hp' hw
    rw [fnLinesFitD_cons]
    rw [fnLinesD_cons] at hQ
    rw [fnLinesStrFitsD_cons] at hS
    exact ⟨lex_fits hpl hnl L hL hAdj src s (c.sub 0) _ hw.1 hp'.1 (List.IsInfix.trans (by infix_tac) hQ)
        (fun h => (hS h).1),
      stmt_lex_eolOK hpl hnl s (c.sub 1) hw.1 (fun x hx => hL x (hQ.subset (by simp [hx]))),
      lex_fnLinesFitD src (s' :: ss) d (c.sub 2) hw.2 hp'.2 (List.IsInfix.trans (by infix_tac) hQ)
        (fun h => (hS h).2)⟩
end

theorem lex_progFitsD {ps : Bool} (src : Str) (d : Nat) : ∀ (bs : List (List (Statement N))) (c : Choices N),
    progWf bs = true → progLexable hy ps bs = true → progToksD d bs c <:+: L →
    (ps = true → progStrFitsD src d bs c) → progFitsD src d bs c
  | [], c, _, _, _, _ => trivial
  | [b], c, hw, hp, hQ, hS => by
    simp only [progLexable, List.all_cons, Bool.and_eq_true] at hp
    simp only [progWf, List.all_cons, Bool.and_eq_true] at hw
    have hQ' : blanksToks (c.sub 0).choice (c.sub 0) ++ linesToksD d b (c.sub 1) <:+: L := hQ
    have hS' : ps = true → linesStrFitsD src d b (c.sub 1) := hS
    exact lex_linesFitD hpl hnl L hL hAdj src b d (c.sub 1) hw.1.2 hp.1
      (List.IsInfix.trans (by infix_tac) hQ') hS'
  | b :: b' :: bs, c, hw, hp, hQ, hS => by
    simp only [progLexable, List.all_cons, Bool.and_eq_true] at hp
    simp only [progWf, List.all_cons, Bool.and_eq_true] at hw
    have hQ' : blanksToks (c.sub 0).choice (c.sub 0) ++ (linesToks b (c.sub 1) ++
        tk (.kw .newline) (c.sub 2) :: progToksD d (b' :: bs) (c.sub 3)) <:+: L := hQ
    have hS' : ps = true → linesStrFits src b (c.sub 1) ∧ progStrFitsD src d (b' :: bs) (c.sub 3) := hS
    exact ⟨lex_linesFit hpl hnl L hL hAdj src b (c.sub 1) hw.1.2 hp.1 (List.IsInfix.trans (by infix_tac) hQ')
        (fun h => (hS' h).1),
      lex_progFitsD src d (b' :: bs) (c.sub 3) (by simpa [progWf] using hw.2)
        (by simpa [progLexable] using hp.2) (List.IsInfix.trans (by infix_tac) hQ') (fun h => (hS' h).2)⟩

end

/-! ### `progPlain` programs, with bare `break`s, are `progLexable` -/

omit [CharOps] in
theorem simple_lexable_of_plain (ab hy ps : Bool) (s : SimpleStmt N) (h : s.plain ab = true) :
    s.lexable hy ps = true := by
  cases s <;> simp_all [SimpleStmt.plain, SimpleStmt.lexable]

mutual
theorem stmt_lexable_of_plain (ab hy ps : Bool) : (s : Statement N) → s.plain ab = true →
    s.lexable hy ps = true
  | .simple s _, h => simple_lexable_of_plain ab hy ps s h
  | .ifS _ _ t e, h => by
    rw [ifS_plain] at h
    rw [ifS_lexable]
    simp only [Bool.and_eq_true] at h ⊢
    refine ⟨stmts_lexable_of_plain ab hy ps t h.1, ?_⟩
    cases e with
    | none => rfl
    | some b => exact stmts_lexable_of_plain ab hy ps b h.2
  | .whileS _ _ b, h => stmts_lexable_of_plain ab hy ps b h
  | .untilS _ _ b, h => stmts_lexable_of_plain ab hy ps b h
  | .func _ _ _ _ b, h => stmts_lexable_of_plain ab hy ps b h
theorem stmts_lexable_of_plain (ab hy ps : Bool) : (ls : List (Statement N)) → stmtsPlain ab ls = true →
    stmtsLexable hy ps ls = true
  | [], _ => rfl
  | s :: ss, h => by
    have h' : (s.plain ab && stmtsPlain ab ss) = true := h
    simp only [Bool.and_eq_true] at h'
    show (s.lexable hy ps && stmtsLexable hy ps ss) = true
    rw [stmt_lexable_of_plain ab hy ps s h'.1, stmts_lexable_of_plain ab hy ps ss h'.2]; rfl
end

theorem lexable_of_plain (ab hy ps : Bool) (bs : List (List (Statement N)))
    (h : progPlain ab bs = true) : progLexable hy ps bs = true := by
  simp only [progPlain, progLexable, List.all_eq_true] at h ⊢
  exact fun b hb => stmts_lexable_of_plain ab hy ps b (h b hb)

/-! ### the composition -/

/-- kinds, spellings, payloads and START OFFSETS of the visible pieces of a text (a function of the
    pieces and separators alone) -/
def visibleAt [NumOps N] (items : List (Sep × Piece)) : List ((TK × Str × Option N × Str) × Nat) :=
  ((items.zip (offsets 0 items)).filter (fun x => !x.1.2.isComment)).map
    (fun x => ((x.1.2.expect : TK × Str × Option N × Str), x.2))

theorem skipComments_viewsAt [NumOps N] : ∀ (ts : List (Tok N)) (items : List (Sep × Piece)) (offs : List Nat),
    ts.map tview = items.map (fun x => (x.2.expect : TK × Str × Option N × Str)) →
    ts.map (·.start) = offs →
    (skipComments ts).map (fun t => (tview t, t.start)) =
      ((items.zip offs).filter (fun x => !x.1.2.isComment)).map
        (fun x => ((x.1.2.expect : TK × Str × Option N × Str), x.2))
  | [], [], offs, _, _ => by simp [skipComments]
  | [], _ :: _, _, h, _ => by simp at h
  | _ :: _, [], _, h, _ => by simp at h
  | t :: ts, x :: items, offs, h, ho => by
    cases offs with
    | nil => simp at ho
    | cons o offs =>
      simp only [List.map_cons, List.cons.injEq] at h ho
      have ih := skipComments_viewsAt ts items offs h.2 ho.2
      have hk : t.kind = x.2.kind := by
        have := congrArg (·.1) h.1
        simpa [tview, Piece.expect] using this
      have e : (!x.2.isComment) = (t.kind != .comment) := by
        simp [Piece.isComment, bne, hk]
      simp only [skipComments, List.zip_cons_cons, List.filter_cons, e] at ih ⊢
      split
      · simp only [List.map_cons, List.cons.injEq]
        exact ⟨by rw [h.1, ho.1], ih⟩
      · exact ih

/-- every `Minus` piece right after an `is` / `'s` / `'re` piece is written `-` (decidable) -/
def hyphensOK : List Piece → Bool
  | a :: b :: r =>
      (!(isKinds.contains a.kind && b.kind == .minus) || b.text == ['-']) && hyphensOK (b :: r)
  | _ => true

theorem adjOK_of_views [NumOps N] (l : List (Tok N)) : ∀ (ps : List Piece),
    l.map tview = ps.map (fun p => (p.expect : TK × Str × Option N × Str)) →
    hyphensOK ps = true → AdjOK l := by
  induction l with
  | nil => intro ps _ _ a b h; have := h.length_le; simp at this
  | cons x r ih =>
    intro ps hv hh a b hab
    cases ps with
    | nil => simp at hv
    | cons p ps' =>
      simp only [List.map_cons, List.cons.injEq] at hv
      rcases List.infix_cons_iff.mp hab with hpre | hin
      · cases r with
        | nil => have := hpre.length_le; simp at this
        | cons y r' =>
          cases ps' with
          | nil => simp at hv
          | cons q ps'' =>
            simp only [List.map_cons, List.cons.injEq] at hv
            simp only [List.cons_prefix_cons] at hpre
            obtain ⟨rfl, rfl, _⟩ := hpre
            intro hk hm
            have hka : a.kind = p.kind := by
              have := congrArg (·.1) hv.1; simpa [tview, Piece.expect] using this
            have hkb : b.kind = q.kind := by
              have := congrArg (·.1) hv.2.1; simpa [tview, Piece.expect] using this
            have hsb : b.spelling = q.text := by
              have := congrArg (·.2.1) hv.2.1; simpa [tview, Piece.expect] using this
            simp only [hyphensOK, Bool.and_eq_true, Bool.or_eq_true, Bool.not_eq_true',
              Bool.and_eq_false_iff, beq_iff_eq] at hh
            rw [hsb]
            rcases hh.1 with (h1 | h1) | h1
            · rw [← hka, hk] at h1; cases h1
            · rw [← hkb, hm] at h1; simp at h1
            · exact h1
      · refine ih ps' hv.2 ?_ a b hin
        cases ps' with
        | nil => rfl
        | cons q ps'' =>
          simp only [hyphensOK, Bool.and_eq_true] at hh
          exact hh.2

/-- **Parsing a spelled text whose program peeks at spellings and source slices.** As `parse_spell`,
    for programs with bare `break`s, poetic number literals, `rock … like …`, (if `hy`, and every
    `Minus` piece right after an `is` piece is written `-`) `X is -5` and (if `ps`, and the texts in the tree are
    the source slices at the offsets of the pieces: `hstr`) poetic strings. -/
theorem parse_spell_lex [NumOps N] (laws : SpellLaws) (hpl : PunctLower)
    (hdot : (NumOps.parse ['.'] : Option N) = none)
    (kw : List (Str × TK)) (hkw : ∀ w, kw.lookup w = Spec.promised.lookup w)
    (hy ps : Bool) (bs : List (List (Statement N))) (c : Choices N)
    (items : List (Sep × Piece)) (e : Sep)
    (hwf : progWf bs = true) (hlx : progLexable hy ps bs = true)
    (hminus : hy = true → hyphensOK (visible items) = true)
    (hstr : ps = true → ∀ c₂ : Choices N, c₂.pick = c.pick →
      (progToks bs c₂).map (fun t => (tview t, t.start)) = visibleAt items →
      progStrFits (spell items e) bs c₂)
    (hlen : ulen (spell items e) < 2 ^ 32)
    (hok : spellOK none items e = true)
    (hnum : ∀ x ∈ items, x.2.kind = .number → (x.2.numOf : Option N).isSome = true)
    (hv : (visible items).map (fun p => (p.expect : TK × Str × Option N × Str))
      = (progToks bs c).map tview) :
    ∃ p : Program N, parseProgram kw (spell items e) = .ok p ∧
      p.code.map eraseB = progToAst bs := by
  obtain ⟨ts, hlex, hts, hstarts⟩ := lexAll_spell_starts laws hdot kw hkw items e hlen hok hnum
  have hviews : (progToks bs c).map tview = (skipComments ts).map tview := by
    rw [skipComments_views hts, hv]
  let d : Tok N := { kind := .newline, spelling := [], start := 0, range := default }
  obtain ⟨c', hpick, hc', hmem⟩ := progToks_relabel d bs c (skipComments ts) hviews
  have hsane : c'.Sane (spell items e) := by
    intro p
    rcases List.mem_cons.mp (hmem p) with h | h
    · rw [h]; exact ⟨Nat.zero_le _, Nat.le_refl _⟩
    · have hm : c'.tok p ∈ ts := (List.mem_filter.mp h).1
      obtain ⟨h1, h2, _, _⟩ := c01_snapshots hlen hlex _ hm
      exact ⟨h2, h1⟩
  have hL : ∀ t ∈ progToks bs c', Lexed t := by
    intro t ht
    rw [hc'] at ht
    exact lexed_of_views hts (spellOK_wf items none e hok) t (List.mem_filter.mp ht).1
  have hAdj : hy = true → AdjOK (progToks bs c') := fun h => by
    rw [hc']
    exact adjOK_of_views _ _ (skipComments_views hts) (hminus h)
  have hS : ps = true → progStrFits (spell items e) bs c' := fun h =>
    hstr h c' hpick (by rw [hc']; exact skipComments_viewsAt ts items _ hts hstarts)
  obtain ⟨p, st', hp, hcode, _⟩ := program_roundtrip bs c' (initState (spell items e) ts)
    ((initState (spell items e) ts).toks.length + 1) hwf hc'.symm rfl
    ⟨Nat.zero_le _, Nat.le_refl _⟩ hsane
    (lex_progFits hpl laws.nl _ hL hAdj _ bs c' hwf hlx List.infix_rfl hS)
    (by rw [hc']; exact Nat.le_succ _)
  refine ⟨p, ?_, hcode⟩
  unfold parseProgram
  rw [runOn_of_lex _ hlex]
  unfold runToks
  have hentry : (parser (N := N) ((initState (spell items e) ts).toks.length + 2)).program
      = parseProgramBody (parser (N := N) ((initState (spell items e) ts).toks.length + 1)) := rfl
  simp only [hentry, hp]

/-- **… that ends with the input**: the same for the spellings `progToksD d`. -/
theorem parse_spell_lex_at_eof [NumOps N] (laws : SpellLaws) (hpl : PunctLower)
    (hdot : (NumOps.parse ['.'] : Option N) = none)
    (kw : List (Str × TK)) (hkw : ∀ w, kw.lookup w = Spec.promised.lookup w)
    (hy ps : Bool) (d : Nat) (bs : List (List (Statement N))) (c : Choices N)
    (items : List (Sep × Piece)) (e : Sep)
    (hwf : progWf bs = true) (hlx : progLexable hy ps bs = true)
    (hminus : hy = true → hyphensOK (visible items) = true)
    (hstr : ps = true → ∀ c₂ : Choices N, c₂.pick = c.pick →
      (progToksD d bs c₂).map (fun t => (tview t, t.start)) = visibleAt items →
      progStrFitsD (spell items e) d bs c₂)
    (hlen : ulen (spell items e) < 2 ^ 32)
    (hok : spellOK none items e = true)
    (hnum : ∀ x ∈ items, x.2.kind = .number → (x.2.numOf : Option N).isSome = true)
    (hv : (visible items).map (fun p => (p.expect : TK × Str × Option N × Str))
      = (progToksD d bs c).map tview) :
    ∃ p : Program N, parseProgram kw (spell items e) = .ok p ∧
      p.code.map eraseB = progToAst bs := by
  obtain ⟨ts, hlex, hts, hstarts⟩ := lexAll_spell_starts laws hdot kw hkw items e hlen hok hnum
  have hviews : (progToksD d bs c).map tview = (skipComments ts).map tview := by
    rw [skipComments_views hts, hv]
  let dt : Tok N := { kind := .newline, spelling := [], start := 0, range := default }
  obtain ⟨c', hpick, hc', hmem⟩ := progToksD_relabel dt d bs c (skipComments ts) hviews
  have hsane : c'.Sane (spell items e) := by
    intro p
    rcases List.mem_cons.mp (hmem p) with h | h
    · rw [h]; exact ⟨Nat.zero_le _, Nat.le_refl _⟩
    · have hm : c'.tok p ∈ ts := (List.mem_filter.mp h).1
      obtain ⟨h1, h2, _, _⟩ := c01_snapshots hlen hlex _ hm
      exact ⟨h2, h1⟩
  have hL : ∀ t ∈ progToksD d bs c', Lexed t := by
    intro t ht
    rw [hc'] at ht
    exact lexed_of_views hts (spellOK_wf items none e hok) t (List.mem_filter.mp ht).1
  have hAdj : hy = true → AdjOK (progToksD d bs c') := fun h => by
    rw [hc']
    exact adjOK_of_views _ _ (skipComments_views hts) (hminus h)
  have hS : ps = true → progStrFitsD (spell items e) d bs c' := fun h =>
    hstr h c' hpick (by rw [hc']; exact skipComments_viewsAt ts items _ hts hstarts)
  obtain ⟨p, st', hp, hcode, _⟩ := program_roundtripD d bs c' (initState (spell items e) ts)
    ((initState (spell items e) ts).toks.length + 1) hwf hc'.symm rfl
    ⟨Nat.zero_le _, Nat.le_refl _⟩ hsane
    (lex_progFitsD hpl laws.nl _ hL hAdj _ d bs c' hwf hlx List.infix_rfl hS)
    (by rw [hc']; exact Nat.le_succ _)
  refine ⟨p, ?_, hcode⟩
  unfold parseProgram
  rw [runOn_of_lex _ hlex]
  unfold runToks
  have hentry : (parser (N := N) ((initState (spell items e) ts).toks.length + 2)).program
      = parseProgramBody (parser (N := N) ((initState (spell items e) ts).toks.length + 1)) := rfl
  simp only [hentry, hp]

end Grammar

/-! ### data of the non-vacuity examples of Rrss/Thm/C02TextPoetic.lean -/

namespace SpellPoeticEx
open Grammar Lexer Spelling SpellEx

theorem punctLower_asciiOps : @PunctLower asciiOps := by unfold PunctLower; decide
theorem punctLower_charOpsImpl : @PunctLower charOpsImpl := by unfold PunctLower; decide +kernel

/-- the choices (all picks `0`) under which the tokens `progToks bs` carry the kinds, spellings and
    payloads of the visible pieces of `items` -/
def choicesOf (bs : List (List (Statement Int))) (items : List (Sep × Piece)) : Choices Int :=
  choicesFor (@progToks Int asciiOps bs) (fun _ => 0)
    ((visible items).map fun p => tokOf (@Piece.expect Int numOpsInt p))

/-- `while x⏎break⏎⏎⏎` (the two blank lines close the loop and the top-level block) -/
def progBreak : List (List (Statement Int)) :=
  [[.whileS Ex.xE .none [.simple (.break_ none) .none]]]
def itemsBreak : List (Sep × Piece) :=
  [([], kwd (str% "while") .while_), ([' '], .name (str% "x")), ([], .nl),
   ([], kwd (str% "break") .break_), ([], .nl), ([], .nl), ([], .nl)]

/-- `Tommy was a lovestruck ladykiller⏎rock x like a rolling stone⏎break⏎⏎` -/
def progTommy : List (List (Statement Int)) :=
  [[.simple Ex.tommyS .none, .simple Ex.rockS .none, .simple (.break_ none) .none]]
def itemsTommy : List (Sep × Piece) :=
  [([], .name (str% "Tommy")), ([' '], kwd (str% "was") .is), ([' '], kwd (str% "a") .commonPrefix),
   ([' '], .name (str% "lovestruck")), ([' '], .name (str% "ladykiller")), ([], .nl),
   ([], kwd (str% "rock") .rock), ([' '], .name (str% "x")), ([' '], kwd (str% "like") .like),
   ([' '], kwd (str% "a") .commonPrefix), ([' '], .name (str% "rolling")), ([' '], .name (str% "stone")),
   ([], .nl), ([], kwd (str% "break") .break_), ([], .nl), ([], .nl)]

/-- `x is -5⏎say x minus 1⏎Tommy was a lovestruck ladykiller⏎⏎` (the word `minus` is fine where
    it does not follow `is`) -/
def xMinusOne : Expression Int :=
  Comparison.toLogical (Term.toComparison
    ⟨vx.f, [(.minus, .one ((Prim.lit (.num 1) : Prim Int).toUnary.toFactor))]⟩)
def progNeg : List (List (Statement Int)) :=
  [[.simple Ex.negS .none, .simple (.say xMinusOne) .none, .simple Ex.tommyS .none]]
def itemsNeg : List (Sep × Piece) :=
  [([], .name (str% "x")), ([' '], kwd (str% "is") .is), ([' '], .sym .minus), ([], .num (str% "5")),
   ([], .nl),
   ([], kwd (str% "say") .say), ([' '], .name (str% "x")), ([' '], kwd (str% "minus") .minus),
   ([' '], .num (str% "1")), ([], .nl),
   ([], .name (str% "Tommy")), ([' '], kwd (str% "was") .is), ([' '], kwd (str% "a") .commonPrefix),
   ([' '], .name (str% "lovestruck")), ([' '], .name (str% "ladykiller")), ([], .nl), ([], .nl)]

/-- `while x⏎break⏎x is -5⏎Tommy was a lovestruck ladykiller` — the text ends right after the
    poetic literal (`d = 1`: the blank line that closes the block and the last `Newline` omitted) -/
def progEof : List (List (Statement Int)) :=
  [[.whileS Ex.xE .none [.simple (.break_ none) .none], .simple Ex.negS .none, .simple Ex.tommyS .none]]
def itemsEof : List (Sep × Piece) :=
  [([], kwd (str% "while") .while_), ([' '], .name (str% "x")), ([], .nl),
   ([], kwd (str% "break") .break_), ([], .nl), ([], .nl),
   ([], .name (str% "x")), ([' '], kwd (str% "is") .is), ([' '], .sym .minus), ([], .num (str% "5")),
   ([], .nl),
   ([], .name (str% "Tommy")), ([' '], kwd (str% "was") .is), ([' '], kwd (str% "a") .commonPrefix),
   ([' '], .name (str% "lovestruck")), ([' '], .name (str% "ladykiller"))]
def choicesEof : Choices Int :=
  choicesFor (@progToksD Int asciiOps 1 progEof) (fun _ => 0)
    ((visible itemsEof).map fun p => tokOf (@Piece.expect Int numOpsInt p))

/-- `x says Hello, World! (you)⏎⏎`: the text is everything after `says␣` up to the line feed,
    ignored punctuation and comment included -/
def progSays : List (List (Statement Int)) :=
  [[.simple (.poeticStr Ex.xT (str% "Hello, World! (you)") [.word, .comma, .word]) .none]]
def itemsSays : List (Sep × Piece) :=
  [([], .name (str% "x")), ([' '], kwd (str% "says") .says), ([' '], .name (str% "Hello")),
   ([], .sym .comma), ([' '], .name (str% "World")), (['!', ' '], .comment (str% "you")), ([], .nl),
   ([], .nl)]

theorem says_views : @visibleAt Int numOpsInt itemsSays =
    [((.word, str% "x", none, []), 0), ((.says, str% "says", none, []), 2),
     ((.word, str% "Hello", none, []), 7), ((.comma, [','], none, []), 12),
     ((.word, str% "World", none, []), 14), ((.newline, ['\n'], none, []), 26),
     ((.newline, ['\n'], none, []), 27)] := by decide +kernel

/-- the condition `hstr` of `C02_text_poetic_string_partial` for this text: whatever templates
    agree with the pieces on kinds, spellings, payloads and start offsets, the text of the tree is
    the slice of the source between the offsets of `says` (2) and of the line feed (26), minus
    `says␣` -/
theorem says_strFits (c₂ : Choices Int) (hpick : c₂.pick = fun _ => 0)
    (hview : (@progToks Int asciiOps progSays c₂).map (fun t => (tview t, t.start))
      = @visibleAt Int numOpsInt itemsSays) :
    progStrFits (spell itemsSays []) progSays c₂ := by
  have hp : ∀ p, c₂.pick p = 0 := fun p => by rw [hpick]
  rw [says_views] at hview
  simp [progSays, progToks, blanksToks, linesToks, Statement.toks, Statement.eolToks, Grammar.eolToks,
    SimpleStmt.toks, Target.toks, IdSpec.toks, VarSpec.toks, subsToks, junkToks, Choices.sub,
    Choices.choice, Choices.here, hp, saysKind, tk, mkTok, tview, Ex.xT, Ex.va] at hview
  obtain ⟨_, ⟨⟨h1, _⟩, h2⟩, _, _, _, ⟨_, h3⟩, _⟩ := hview
  simp only [progStrFits, linesStrFits, Statement.StrFits, SimpleStmt.StrFits, progSays,
    Statement.eolToks, Grammar.eolToks, lineText, Choices.sub, Choices.here, tk, mkTok, h1, h2, h3,
    List.nil_append, and_true]
  decide +kernel

/-- `x says hi, there!` — the text ends with the input (`d = 1`) -/
def progSaysEof : List (List (Statement Int)) :=
  [[.simple (.poeticStr Ex.xT (str% "hi, there!") [.word, .comma, .word]) .none]]
def itemsSaysEof : List (Sep × Piece) :=
  [([], .name (str% "x")), ([' '], kwd (str% "says") .says), ([' '], .name (str% "hi")),
   ([], .sym .comma), ([' '], .name (str% "there"))]
def choicesSaysEof : Choices Int :=
  choicesFor (@progToksD Int asciiOps 1 progSaysEof) (fun _ => 0)
    ((visible itemsSaysEof).map fun p => tokOf (@Piece.expect Int numOpsInt p))

theorem saysEof_views : @visibleAt Int numOpsInt itemsSaysEof =
    [((.word, str% "x", none, []), 0), ((.says, str% "says", none, []), 2),
     ((.word, str% "hi", none, []), 7), ((.comma, [','], none, []), 9),
     ((.word, str% "there", none, []), 11)] := by decide +kernel

/-- the condition `hstr` of `C02_text_poetic_string_at_eof_partial` for this text: the slice runs
    from the offset of `says` (2) to the end of the source -/
theorem saysEof_strFits (c₂ : Choices Int) (hpick : c₂.pick = fun _ => 0)
    (hview : (@progToksD Int asciiOps 1 progSaysEof c₂).map (fun t => (tview t, t.start))
      = @visibleAt Int numOpsInt itemsSaysEof) :
    progStrFitsD (spell itemsSaysEof ['!']) 1 progSaysEof c₂ := by
  have hp : ∀ p, c₂.pick p = 0 := fun p => by rw [hpick]
  rw [saysEof_views] at hview
  simp [progSaysEof, progToksD, blanksToks, linesToksD, Statement.toksD, Statement.eolToksE,
    SimpleStmt.toks, Target.toks, IdSpec.toks, VarSpec.toks, subsToks, junkToks, Choices.sub,
    Choices.choice, Choices.here, hp, saysKind, tk, mkTok, tview, Ex.xT, Ex.va] at hview
  obtain ⟨_, ⟨⟨h1, _⟩, h2⟩, _⟩ := hview
  simp only [progStrFitsD, linesStrFitsD, Statement.StrFitsD, SimpleStmt.StrFits, progSaysEof,
    Statement.eolToksE, lineText, Choices.sub, Choices.here, h1, h2]
  decide +kernel
end SpellPoeticEx
end Rrss
