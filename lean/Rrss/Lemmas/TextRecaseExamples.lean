/-
  Rrss.Lemmas.TextRecaseExamples — data and kernel evaluations for the non-vacuity examples of
  Rrss/Thm/C15Lex.lean (ASCII tables `Lexer.asciiOps`, integer numbers, the transcribed keyword
  table), the decidable form of the side condition on poetic string literals.
-/
import Rrss.Lemmas.TextRecase
set_option linter.unusedSectionVars false
set_option linter.unusedVariables false
namespace Rrss
namespace Recase
open Lexer CharOps Keys Parser

variable {N : Type}

/-! ### the side condition on poetic string literals, by recursion on the token list -/

/-- after every `says`/`say` token of the list the text up to the next `Newline` token (or the end)
    is the same in `s'` as in `s` -/
def SayFixed (s s' : Str) : List (Tok N) → Prop
  | [] => True
  | t :: post =>
    ((t.kind = .says ∨ t.kind = .say) →
      substr s' (t.start + ulen t.spelling) (sayEnd s post) =
        substr s (t.start + ulen t.spelling) (sayEnd s post)) ∧ SayFixed s s' post

instance decSayFixed (s s' : Str) : (l : List (Tok N)) → Decidable (SayFixed s s' l)
  | [] => isTrue trivial
  | t :: post => by
    unfold SayFixed
    have := decSayFixed s s' post
    infer_instance

theorem sayFixed_decomp {s s' : Str} {l : List (Tok N)} (h : SayFixed s s' l) :
    ∀ pre t post, l = pre ++ t :: post → (t.kind = .says ∨ t.kind = .say) →
      substr s' (t.start + ulen t.spelling) (sayEnd s post) =
        substr s (t.start + ulen t.spelling) (sayEnd s post) := by
  induction l with
  | nil => intro pre t post e; simp at e
  | cons u l ih =>
    intro pre t post e hk
    cases pre with
    | nil =>
      simp only [List.nil_append, List.cons.injEq] at e
      obtain ⟨rfl, rfl⟩ := e
      exact h.1 hk
    | cons v pre =>
      simp only [List.cons_append, List.cons.injEq] at e
      exact ih h.2 pre t post e.2 hk

/-! ### a re-cased program -/

/-- keywords, a common variable, a two-word proper variable, a string literal, `'s` -/
def exText : Str :=
  str% "Put 5 into my heart\nTommy Lee's \"ok\"\nShout my heart\nShout Tommy Lee\n"

/-- the same text with many letters in the other case, `'s` included (the contents of the string
    literal and the capitalisation of the word tokens `heart`, `Tommy`, `Lee` kept) -/
def exTextRecased : Str :=
  str% "PUT 5 iNTo MY hEART\nTOMMY LEE'S \"ok\"\nsHOUT My heART\nSHOUT TommY LeE\n"

/-- a poetic string literal -/
def exSay : Str := str% "Tommy says Hello World\nShout Tommy\n"

/-- re-cased outside the text of the poetic string literal -/
def exSayRecased : Str := str% "TOMMY SAYS Hello World\nsHOUT TOMMY\n"

/-- tokens of a text, through the fuel copy of the lexer loops (`[]` unless the result is `ok`) -/
def toksOf (src : Str) : List (Tok Int) :=
  match @lexLoopF Int asciiOps numOpsInt defaultKeywords 400 (LexState.init src) with
  | .ok ts => ts
  | _ => []

theorem lexes_of_isOk {src : Str}
    (h : (@lexLoopF Int asciiOps numOpsInt defaultKeywords 400 (LexState.init src)).isOk = true) :
    @lexAll Int asciiOps numOpsInt defaultKeywords src = .ok (toksOf src) := by
  apply @lexLoopF_sound Int asciiOps numOpsInt defaultKeywords 400
  unfold toksOf
  cases hh : @lexLoopF Int asciiOps numOpsInt defaultKeywords 400 (LexState.init src) <;>
    simp_all [Outcome.isOk]

theorem exText_lexes :
    @lexAll Int asciiOps numOpsInt defaultKeywords exText = .ok (toksOf exText) :=
  lexes_of_isOk (by decide +kernel)

theorem exTextRecased_lexes :
    @lexAll Int asciiOps numOpsInt defaultKeywords exTextRecased = .ok (toksOf exTextRecased) :=
  lexes_of_isOk (by decide +kernel)

/-- kinds and spellings, for display -/
def kindsOf (src : Str) : List (TK × Str) := (toksOf src).map fun t => (t.kind, t.spelling)

/-- the program a text parses to (the empty program unless parsing succeeds) -/
def progOf (src : Str) : Program Int :=
  match @runToks Int asciiOps (Program Int) (fun r => r.program) src (toksOf src) with
  | .ok p => p
  | _ => ⟨[]⟩

theorem parses_of_isOk {src : Str}
    (hl : @lexAll Int asciiOps numOpsInt defaultKeywords src = .ok (toksOf src))
    (h : (@runToks Int asciiOps (Program Int) (fun r => r.program) src (toksOf src)).isOk = true) :
    @parseProgram Int asciiOps numOpsInt defaultKeywords src = .ok (progOf src) := by
  unfold parseProgram
  rw [@runOn_of_lex Int asciiOps numOpsInt (Program Int) (fun r => r.program) _ _ _ hl]
  unfold progOf
  cases hh : @runToks Int asciiOps (Program Int) (fun r => r.program) src (toksOf src) <;>
    simp_all [Outcome.isOk]

theorem exText_parses :
    @parseProgram Int asciiOps numOpsInt defaultKeywords exText = .ok (progOf exText) :=
  parses_of_isOk exText_lexes (by decide +kernel)

theorem exTextRecased_parses :
    @parseProgram Int asciiOps numOpsInt defaultKeywords exTextRecased = .ok (progOf exTextRecased) :=
  parses_of_isOk exTextRecased_lexes (by decide +kernel)

end Recase
end Rrss
