/-
  Rrss.Lemmas.LexRoundTrip — the lexer round trip: a text written down from a list of pieces
  (Rrss/Spec/Spelling.lean) lexes to exactly the tokens the pieces stand for.

  Method: forward simulation. For every class of piece an "exact" lemma computes what `dispatch`
  returns on the start character (kind, spelling, payloads, staged suffix or none, stop offset);
  the line bookkeeping and the loop invariant `LInv` are taken over from `step_spec`
  (Lemmas/LexerInv): `step` is a function, so the state our computation finds is the state
  `step_spec` talks about.  A piece with a suffix `'s` / `'re` glued to it is one round of the loop
  (`dispatch_compound`, `step_tok_exactS`): the suffix is staged and delivered by the next `next`.
-/
import Rrss.Spec.Spelling
import Rrss.Lemmas.LexRecase
set_option linter.unusedSectionVars false
set_option linter.unusedVariables false
set_option linter.unusedSimpArgs false
namespace Rrss
namespace Lexer
open Spec Recase Keys

/-! ### what is needed of the Unicode tables, on ASCII -/

/-- Facts about Rust's `char` methods on ASCII characters (all true of the Rust std): the 52
    letters are alphabetic, not numeric, not white space and lower-case to their ASCII lower-case
    image (`AsciiLaws`); the ten digits are numeric and not white space; space, tab and line feed
    are white space; ASCII punctuation is not white space; the apostrophe is its own lower-case
    image. -/
structure SpellLaws [CharOps] : Prop where
  letters : AsciiLaws
  digitNum : ∀ c, Spelling.isDigit c = true → CharOps.isNumeric c = true
  digitNotWs : ∀ c, Spelling.isDigit c = true → CharOps.isWhitespace c = false
  space : CharOps.isWhitespace ' ' = true
  tab : CharOps.isWhitespace '\t' = true
  nl : CharOps.isWhitespace '\n' = true
  punctNotWs : ∀ c, isAsciiPunct c = true → CharOps.isWhitespace c = false
  aposLower : CharOps.toLower '\'' = ['\'']

/-! ### ASCII classes of the specification vs. those of the model -/

theorem letter_of_isLetter {c : Char} (h : Spelling.isLetter c = true) : Letter c := by
  simp only [Spelling.isLetter, Spelling.isLower, Spelling.isUpper, Bool.or_eq_true,
    Bool.and_eq_true, decide_eq_true_eq] at h
  unfold Letter; omega

theorem spToLower_eq (c : Char) : Spelling.toLower c = asciiLowerChar c := by
  rw [char_eq_iff_toNat, toNat_asciiLowerChar]
  unfold Spelling.toLower Spelling.isUpper
  by_cases h : 65 ≤ c.toNat ∧ c.toNat ≤ 90
  · rw [if_pos (by simpa using h), if_pos h]
    exact char_toNat_ofNat_of_lt (by omega)
  · rw [if_neg (by simpa using h), if_neg h]

theorem toNat_spToUpper (c : Char) :
    (Spelling.toUpper c).toNat = if 97 ≤ c.toNat ∧ c.toNat ≤ 122 then c.toNat - 32 else c.toNat := by
  unfold Spelling.toUpper Spelling.isLower
  by_cases h : 97 ≤ c.toNat ∧ c.toNat ≤ 122
  · rw [if_pos (by simpa using h), if_pos h]
    exact char_toNat_ofNat_of_lt (by omega)
  · rw [if_neg (by simpa using h), if_neg h]

/-- a keyword character: ASCII lower-case letter or apostrophe -/
def KwChar (c : Char) : Prop := (97 ≤ c.toNat ∧ c.toNat ≤ 122) ∨ c = '\''

/-- a character of a re-cased keyword: ASCII letter or apostrophe -/
def WChar (c : Char) : Prop := Letter c ∨ c = '\''

theorem apos_toNat : ('\'' : Char).toNat = 39 := by decide

theorem asciiLower_spToUpper {c : Char} (h : KwChar c) : asciiLowerChar (Spelling.toUpper c) = c := by
  rw [char_eq_iff_toNat, toNat_asciiLowerChar, toNat_spToUpper]
  rcases h with h | h
  · rw [if_pos h, if_pos (by omega)]; omega
  · subst h; decide

theorem asciiLower_kwChar {c : Char} (h : KwChar c) : asciiLowerChar c = c := by
  rw [char_eq_iff_toNat, toNat_asciiLowerChar]
  rcases h with h | h
  · rw [if_neg (by omega)]
  · subst h; rw [if_neg (by rw [apos_toNat]; omega)]

theorem wchar_spToUpper {c : Char} (h : KwChar c) : WChar (Spelling.toUpper c) := by
  rcases h with h | h
  · left; unfold Letter; rw [toNat_spToUpper, if_pos h]; omega
  · right; subst h; decide

theorem wchar_of_kwChar {c : Char} (h : KwChar c) : WChar c := by
  rcases h with h | h
  · left; unfold Letter; omega
  · right; exact h

/-- a casing choice applied to an alias word: lower-casing gives the alias back, and every
    character is a letter or an apostrophe -/
theorem applyCaps_spec (caps : List Bool) (a : Str) (ha : ∀ c ∈ a, KwChar c) :
    (Spelling.applyCaps caps a).map asciiLowerChar = a ∧
    (∀ c ∈ Spelling.applyCaps caps a, WChar c) ∧
    (Spelling.applyCaps caps a).length = a.length := by
  induction a generalizing caps with
  | nil => cases caps <;> simp [Spelling.applyCaps]
  | cons c cs ih =>
    have hc := ha c (by simp)
    have hcs : ∀ x ∈ cs, KwChar x := fun x hx => ha x (by simp [hx])
    cases caps with
    | nil =>
      have e : Spelling.applyCaps [] (c :: cs) = c :: cs := rfl
      rw [e]
      refine ⟨?_, fun x hx => wchar_of_kwChar (ha x hx), rfl⟩
      have : ∀ l : Str, (∀ x ∈ l, KwChar x) → l.map asciiLowerChar = l := by
        intro l hl
        induction l with
        | nil => rfl
        | cons d ds ihd =>
          simp only [List.map_cons]
          rw [asciiLower_kwChar (hl d (by simp)), ihd (fun x hx => hl x (by simp [hx]))]
      exact this _ ha
    | cons b bs =>
      obtain ⟨h1, h2, h3⟩ := ih bs hcs
      simp only [Spelling.applyCaps, List.map_cons, List.length_cons, h1, h3]
      refine ⟨?_, ?_, trivial⟩
      · cases b
        · simp [asciiLower_kwChar hc]
        · simp [asciiLower_spToUpper hc]
      · intro x hx
        rcases List.mem_cons.mp hx with rfl | hx
        · cases b
          · simpa using wchar_of_kwChar hc
          · simpa using wchar_spToUpper hc
        · exact h2 x hx

/-! ### the promised-alias table -/

theorem promised_chars : ∀ p ∈ promised, ∀ c ∈ p.1, KwChar c := by
  have h : promised.all (fun p => p.1.all (fun c => (decide (97 ≤ c.toNat) && decide (c.toNat ≤ 122))
      || c == '\'')) = true := by decide +kernel
  intro p hp c hc
  have := List.all_eq_true.mp (List.all_eq_true.mp h p hp) c hc
  simpa [KwChar] using this

theorem promised_head : ∀ p ∈ promised, ∃ c cs, p.1 = c :: cs ∧ 97 ≤ c.toNat ∧ c.toNat ≤ 122 := by
  have h : promised.all (fun p => match p.1 with
      | c :: _ => decide (97 ≤ c.toNat) && decide (c.toNat ≤ 122)
      | [] => false) = true := by decide +kernel
  intro p hp
  have := List.all_eq_true.mp h p hp
  cases h1 : p.1 with
  | nil => rw [h1] at this; simp at this
  | cons c cs => rw [h1] at this; exact ⟨c, cs, rfl, by simpa using this⟩

theorem promised_lookup : ∀ p ∈ promised, List.lookup p.1 promised = some p.2 := by
  have h : promised.all (fun p => List.lookup p.1 promised == some p.2) = true := by decide +kernel
  intro p hp
  exact eq_of_beq (List.all_eq_true.mp h p hp)

/-! ### exact scanner results -/

section
variable {N : Type} [CharOps] [NumOps N]

/-- the facts about a scanner result that the round trip needs: kind, spelling, payloads, no
    staged suffix, stop offset -/
structure Exact (r : LexResult N) (pre sp : Str) (k : TK) (n : Option N) (tx : Str) : Prop where
  kind : r.token.kind = k
  spelling : r.token.spelling = sp
  num : r.token.num = n
  txt : r.token.text = tx
  staged : r.staged = none
  stop : r.stop = ulen pre + ulen sp

theorem findNextIndex_exact (p : Char → Bool) (srcLen : Nat) (a b : Str) (pos : Nat)
    (h : srcLen = pos + ulen (a ++ b)) (ha : ∀ x ∈ a, p x = false)
    (hb : ∀ d ∈ b.head?, p d = true) :
    findNextIndex p srcLen (a ++ b) pos = pos + ulen a := by
  induction a generalizing pos with
  | nil =>
    cases b with
    | nil => simp [findNextIndex, h]
    | cons d ds =>
      have := hb d (by simp)
      simp [findNextIndex, this]
  | cons c cs ih =>
    have hc : p c = false := ha c (by simp)
    simp only [List.cons_append, findNextIndex, hc]
    rw [if_neg (by simp)]
    rw [ih (pos + c.utf8Size) (by simp at h ⊢; omega) (fun x hx => ha x (by simp [hx]))]
    simp; omega

/-- a `find_next_index` search from the scanner context, when the answer is known -/
theorem Ctx.findExact {st : LexState N} {pre : Str} {c : Char} (hc : Ctx st pre c)
    (p : Char → Bool) {a b : Str} (hrest : st.rest = a ++ b) (ha : ∀ x ∈ a, p x = false)
    (hb : ∀ d ∈ b.head?, p d = true) :
    findNextIndex p (ulen st.src) st.rest st.pos = ulen pre + ulen (c :: a) ∧
      st.src = pre ++ (c :: a) ++ b := by
  constructor
  · rw [hrest, findNextIndex_exact p _ a b st.pos (by rw [← hrest]; exact hc.ulen_src) ha hb,
      hc.pos_eq]
    simp [Nat.add_assoc]
  · rw [hc.src_eq, hrest]; simp

theorem toAsciiLower_eq_apos {d : Char} (h : toAsciiLower d = '\'') : d = '\'' := by
  rw [char_eq_iff_toNat] at h ⊢
  rw [toNat_toAsciiLower, apos_toNat] at h
  rw [apos_toNat]
  split at h <;> omega

/-- a text that does not start with an apostrophe does not start with `'n'`, `'s`, `'re` -/
theorem startsWith_apos_false (ts post : Str) (h : ∀ d ∈ post.head?, d ≠ '\'') :
    startsWithIgnoreAsciiCase ('\'' :: ts) post = false := by
  cases post with
  | nil => rfl
  | cons d ds =>
    have hd : d ≠ '\'' := h d (by simp)
    simp only [startsWithIgnoreAsciiCase, Bool.and_eq_false_iff, beq_eq_false_iff_ne]
    left
    intro he
    exact hd (toAsciiLower_eq_apos (by rw [he]; decide))

theorem scanForText_none {st : LexState N} {p post text : Str} {start : Nat} (kind : TK)
    (h : st.src = p ++ post) (hstart : start = ulen p)
    (hsw : startsWithIgnoreAsciiCase text post = false) :
    scanForText st start text kind = .ok none := by
  have hsub : sub st start (ulen st.src) = .ok post :=
    sub_ok (pre := p) (mid := post) (post := []) (by simp [h]) hstart (by rw [h]; simp)
  simp only [scanForText, hsub, Outcome.bind_ok, hsw]

theorem scanApostropheSuffix_none {st : LexState N} {p post : Str} {start : Nat}
    (h : st.src = p ++ post) (hstart : start = ulen p) (hp : ∀ d ∈ post.head?, d ≠ '\'') :
    scanApostropheSuffix st start = .ok none := by
  unfold scanApostropheSuffix
  rw [scanForText_none _ h hstart (startsWith_apos_false _ _ hp)]
  simp only [Outcome.bind_ok]
  exact scanForText_none _ h hstart (startsWith_apos_false _ _ hp)

/-- no `'s` / `'re` follows: the result is returned as it is -/
theorem maybeFollowed_none {st : LexState N} {p post : Str} (r : LexResult N)
    (h : st.src = p ++ post) (hstop : r.stop = ulen p) (hp : ∀ d ∈ post.head?, d ≠ '\'') :
    maybeFollowedByApostropheSuffix st r = .ok r := by
  unfold maybeFollowedByApostropheSuffix
  simp only []
  rw [scanApostropheSuffix_none (p := p) (post := post) (by exact h) hstop hp]
  rfl

theorem scanNApos_none {st : LexState N} {pre : Str} {c : Char} (hc : Ctx st pre c)
    (h : c ≠ '\'') : scanApostropheNApostrophe st (ulen pre) = .ok none := by
  unfold scanApostropheNApostrophe
  exact scanForText_none _ hc.src_eq rfl (startsWith_apos_false _ _ (by simpa using h))

/-! ### the dispatch on a start character that is none of the thirteen special ones -/

/-- the start characters with a branch of their own in `match_loop` -/
def specials : Str := ['\n', '.', ',', '&', '+', '-', '*', '/', '"', '(', '_', '<', '>']

theorem dispatch_other (kw : List (Str × TK)) (st : LexState N) (start : Nat) {c : Char}
    (h : c ∉ specials) :
    dispatch kw st start c =
      (scanApostropheNApostrophe st start).bind fun r =>
      match r with
      | some result => .ok (some result)
      | none =>
        if isIgnorablePunctuation c || c == '\'' then .ok none
        else if CharOps.isNumeric c then
          (scanNumber st start).bind fun number =>
          match number with
          | some number => .ok (some number)
          | none => some' (makeErrorToken st start .invalidToken)
        else if CharOps.isAlphabetic c then
          (scanKeyword kw st start).bind fun k =>
          match k with
          | some k => .ok (some k)
          | none => some' (scanWord kw st start)
        else some' (makeErrorToken st start .invalidToken) := by
  simp only [specials, List.mem_cons, List.not_mem_nil, or_false, not_or] at h
  obtain ⟨h1, h2, h3, h4, h5, h6, h7, h8, h9, h10, h11, h12, h13⟩ := h
  unfold dispatch
  rw [if_neg h1, if_neg h2, if_neg h3, if_neg h4, if_neg h5, if_neg h6, if_neg h7, if_neg h8,
    if_neg h9, if_neg h10, if_neg h11, if_neg h12, if_neg h13]
  congr 1

theorem specials_not_letter : ∀ d ∈ specials, ¬ Letter d := by decide
theorem specials_not_digit : ∀ d ∈ specials, Spelling.isDigit d = false := by decide
theorem noise_not_special : ∀ d ∈ Spelling.noiseChars, d ∉ specials := by decide
theorem noise_punct : ∀ d ∈ Spelling.noiseChars, isIgnorablePunctuation d = true := by decide
theorem noise_ne_nl : ∀ d ∈ Spelling.noiseChars, d ≠ '\n' := by decide

theorem letter_not_special {c : Char} (h : Letter c) : c ∉ specials :=
  fun hm => specials_not_letter c hm h

theorem digit_not_special {c : Char} (h : Spelling.isDigit c = true) : c ∉ specials :=
  fun hm => by rw [specials_not_digit c hm] at h; cases h

theorem letter_ne_apos {c : Char} (h : Letter c) : c ≠ '\'' := by
  intro he; subst he; revert h; decide

theorem digit_ne_apos {c : Char} (h : Spelling.isDigit c = true) : c ≠ '\'' := by
  intro he; subst he; revert h; decide

theorem digit_not_punct {c : Char} (h : Spelling.isDigit c = true) : isAsciiPunct c = false := by
  simp only [Spelling.isDigit, Bool.and_eq_true, decide_eq_true_eq] at h
  unfold isAsciiPunct
  simp only [Bool.or_eq_false_iff, Bool.and_eq_false_iff, decide_eq_false_iff_not]
  omega

theorem digit_lt128 {c : Char} (h : Spelling.isDigit c = true) : c.toNat < 128 := by
  simp only [Spelling.isDigit, Bool.and_eq_true, decide_eq_true_eq] at h; omega

end

/-! ### the scanners, exactly -/

section
variable {N : Type} [CharOps] [NumOps N]

theorem charToken_exact (kind : TK) {st : LexState N} {pre : Str} {c : Char}
    (hc : Ctx st pre c) (hsz : c.utf8Size = 1) :
    ∃ r, charToken st kind (ulen pre) = .ok r ∧ Exact r pre [c] kind none [] := by
  have hsrc : st.src = pre ++ [c] ++ st.rest := by rw [hc.src_eq]; simp
  have hmk := makeTokenFrom_ok (st := st) (pre := pre) (mid := [c]) (post := st.rest)
    (lo := ulen pre) (len := 1) kind none hsrc rfl (by simp [hsz]) hc.line.le hc.small
  simp only [charToken, hmk, Outcome.bind_ok]
  split <;> exact ⟨_, rfl, ⟨rfl, rfl, rfl, rfl, rfl, by simp [hsz]⟩⟩

theorem twoCharToken_exact (kind : TK) {st : LexState N} {pre rest' : Str} {c : Char}
    (hc : Ctx st pre c) (hsz : c.utf8Size = 1) (hrest : st.rest = '=' :: rest') :
    ∃ r, twoCharToken st kind (ulen pre) = .ok r ∧ Exact r pre [c, '='] kind none [] := by
  have hsrc : st.src = pre ++ [c, '='] ++ rest' := by rw [hc.src_eq, hrest]; simp
  have hsz2 : '='.utf8Size = 1 := by decide
  have hmk := makeTokenFrom_ok (st := st) (pre := pre) (mid := [c, '=']) (post := rest')
    (lo := ulen pre) (len := 2) kind none hsrc rfl (by simp [hsz, hsz2]) hc.line.le hc.small
  simp only [twoCharToken, hmk, Outcome.bind_ok]
  exact ⟨_, rfl, ⟨rfl, rfl, rfl, rfl, rfl, by simp [hsz, hsz2]⟩⟩

theorem scanKeyword_some (kw : List (Str × TK)) {st : LexState N} {pre a b : Str} {c : Char}
    {k : TK} (hc : Ctx st pre c) (hrest : st.rest = a ++ b)
    (ha : ∀ x ∈ a, isWordEnd x = false) (hb : ∀ d ∈ b.head?, isWordEnd d = true)
    (hk : matchKeyword kw (c :: a) = some k) :
    ∃ r, scanKeyword kw st (ulen pre) = .ok (some r) ∧ Exact r pre (c :: a) k none [] := by
  obtain ⟨hstop, hsrc⟩ := hc.findExact isWordEnd hrest ha hb
  unfold scanKeyword findNextWordEnd
  simp only [hstop]
  rw [sub_ok hsrc rfl rfl]
  simp only [Outcome.bind_ok, hk]
  rw [makeRange_ok hsrc rfl rfl hc.line.le hc.small]
  simp only [Outcome.bind_ok]
  exact ⟨_, rfl, ⟨rfl, rfl, rfl, rfl, rfl, rfl⟩⟩

theorem scanKeyword_none (kw : List (Str × TK)) {st : LexState N} {pre a b : Str} {c : Char}
    (hc : Ctx st pre c) (hrest : st.rest = a ++ b)
    (ha : ∀ x ∈ a, isWordEnd x = false) (hb : ∀ d ∈ b.head?, isWordEnd d = true)
    (hk : matchKeyword kw (c :: a) = none) :
    scanKeyword kw st (ulen pre) = .ok none := by
  obtain ⟨hstop, hsrc⟩ := hc.findExact isWordEnd hrest ha hb
  unfold scanKeyword findNextWordEnd
  simp only [hstop]
  rw [sub_ok hsrc rfl rfl]
  simp only [Outcome.bind_ok, hk]

/-- a word without apostrophes has no suffix to split off -/
theorem splitWordSuffix_plain {w : Str} (h : ∀ x ∈ w, x ≠ '\'') : splitWordSuffix w = (w, none) := by
  rcases splitWordSuffix_spec w with ⟨stripped, kind, suf, _, hw, hhead, _, _⟩ | ⟨gap, hsp, hw, hgap⟩
  · exfalso
    cases suf with
    | nil => simp at hhead
    | cons d ds =>
      simp at hhead; subst hhead
      exact h '\'' (by rw [hw]; simp) rfl
  · have hg : gap = [] := by
      cases gap with
      | nil => rfl
      | cons d ds =>
        exfalso
        have := hgap d (by simp)
        subst this
        exact h '\'' (by rw [hw]; simp) rfl
    rw [hg, List.append_nil] at hw
    rw [hsp, ← hw]

theorem scanWord_name (hal : ∀ c, Letter c → CharOps.isAlphabetic c = true)
    (kw : List (Str × TK)) {st : LexState N} {pre a b : Str} {c : Char}
    (hc : Ctx st pre c) (hrest : st.rest = a ++ b)
    (ha : ∀ x ∈ a, isWordEnd x = false) (hb : ∀ d ∈ b.head?, isWordEnd d = true)
    (hall : ∀ x ∈ c :: a, Letter x) (hk : matchKeyword kw (c :: a) = none) :
    ∃ r, scanWord kw st (ulen pre) = .ok r ∧ Exact r pre (c :: a) .word none [] := by
  obtain ⟨hstop, hsrc⟩ := hc.findExact isWordEnd hrest ha hb
  have hsplit : splitWordSuffix (c :: a) = (c :: a, none) :=
    splitWordSuffix_plain fun x hx => letter_ne_apos (hall x hx)
  have hallb : (c :: a).all (fun c => CharOps.isAlphabetic c || c == '\'') = true := by
    rw [List.all_eq_true]; intro x hx; simp [hal x (hall x hx)]
  have hmk := makeTokenFrom_ok (st := st) (pre := pre) (mid := c :: a) (post := b)
    (lo := ulen pre) (len := ulen (c :: a)) .word none hsrc rfl rfl hc.line.le hc.small
  unfold scanWord findNextWordEnd
  simp only [hstop]
  rw [sub_ok hsrc rfl rfl]
  simp only [Outcome.bind_ok]
  rw [if_pos hallb]
  simp only [tokenizeWord, hsplit, Outcome.bind_ok, findWordType_ok kw (List.cons_ne_nil c a), hk,
    Option.getD_none, hmk]
  exact ⟨_, rfl, ⟨rfl, rfl, rfl, rfl, rfl, rfl⟩⟩

theorem scanNumber_exact {st : LexState N} {pre a b : Str} {c : Char} {n : N}
    (hc : Ctx st pre c) (hrest : st.rest = a ++ b)
    (ha : ∀ x ∈ a, (isAsciiAlnum x || x == '.') = true)
    (hb : ∀ d ∈ b.head?, (isAsciiAlnum d || d == '.') = false ∧ d ≠ '\'')
    (hp : (NumOps.parse (c :: a) : Option N) = some n) :
    ∃ r, scanNumber st (ulen pre) = .ok (some r) ∧ Exact r pre (c :: a) .number (some n) [] := by
  obtain ⟨hstop, hsrc⟩ := hc.findExact (fun c => !(isAsciiAlnum c || c == '.')) hrest
    (fun x hx => by simp only [ha x hx, Bool.not_true])
    (fun d hd => by simp only [(hb d hd).1, Bool.not_false])
  unfold scanNumber
  simp only [hstop]
  rw [sub_ok hsrc rfl rfl]
  simp only [Outcome.bind_ok, hp]
  rw [makeRange_ok hsrc rfl rfl hc.line.le hc.small]
  simp only [Outcome.bind_ok]
  rw [maybeFollowed_none (p := pre ++ (c :: a)) (post := b) _ hsrc (by simp)
    (fun d hd => (hb d hd).2)]
  simp only [Outcome.bind_ok]
  exact ⟨_, rfl, ⟨rfl, rfl, rfl, rfl, rfl, rfl⟩⟩

/-- `scan_number` on a lone `.` finds no number, provided `"."` does not parse -/
theorem scanNumber_dot (hdot : (NumOps.parse ['.'] : Option N) = none)
    {st : LexState N} {pre : Str} (hc : Ctx st pre '.')
    (hb : ∀ d ∈ st.rest.head?, (isAsciiAlnum d || d == '.') = false) :
    scanNumber st (ulen pre) = .ok none := by
  obtain ⟨hstop, hsrc⟩ := hc.findExact (fun c => !(isAsciiAlnum c || c == '.'))
    (a := []) (b := st.rest) rfl (by simp) (fun d hd => by simp only [hb d hd, Bool.not_false])
  unfold scanNumber
  simp only [hstop]
  rw [sub_ok hsrc rfl rfl]
  simp only [Outcome.bind_ok, hdot]

theorem scanClose_exact (close : Char) (inner post : Str) (pos nl : Nat) (nls : Option Nat)
    (ls : Nat) (hin : ∀ x ∈ inner, x ≠ close) (hb : nls.getD ls ≤ pos) :
    ∃ nl' nls', scanClose close (inner ++ close :: post) pos nl nls =
        (nl', nls', some (pos + ulen inner)) ∧ nls'.getD ls ≤ pos + ulen inner + 1 := by
  induction inner generalizing pos nl nls with
  | nil =>
    refine ⟨if close = '\n' then nl + 1 else nl, if close = '\n' then some (pos + 1) else nls,
      by simp [scanClose], ?_⟩
    by_cases h : close = '\n'
    · rw [if_pos h]; simp
    · rw [if_neg h]; simp only [ulen_nil]; omega
  | cons c cs ih =>
    have hc : c ≠ close := hin c (by simp)
    have hpos := usize_pos c
    obtain ⟨nl', nls', h1, h2⟩ := ih (pos + c.utf8Size) (if c = '\n' then nl + 1 else nl)
      (if c = '\n' then some (pos + 1) else nls) (fun x hx => hin x (by simp [hx]))
      (by
        by_cases h : c = '\n'
        · rw [if_pos h]; show pos + 1 ≤ _; omega
        · rw [if_neg h]; omega)
    refine ⟨nl', nls', ?_, by simp only [ulen_cons]; omega⟩
    simp only [List.cons_append, scanClose, hc, if_false]
    rw [h1]; simp only [ulen_cons]; rw [Nat.add_assoc]

theorem scanDelimited_exact {st : LexState N} {pre inner post : Str} {c : Char}
    (closeChar : Char) (kind : TK) (error : LexErr)
    (hc : Ctx st pre c) (hsz : c.utf8Size = 1) (hcsz : closeChar.utf8Size = 1)
    (hrest : st.rest = inner ++ closeChar :: post) (hin : ∀ x ∈ inner, x ≠ closeChar)
    (hp : ∀ d ∈ post.head?, d ≠ '\'') :
    ∃ r, scanDelimited st (ulen pre) closeChar kind error = .ok r ∧
      Exact r pre (c :: (inner ++ [closeChar])) kind none inner := by
  have hlen : ulen st.src = ulen pre + 1 + ulen inner + 1 + ulen post := by
    rw [hc.src_eq, hrest]; simp [hsz, hcsz]; omega
  have hsmall := hc.small
  have hle := hc.line.le
  have hpos : st.pos = ulen pre + 1 := by rw [hc.pos_eq, hsz]
  obtain ⟨nl', nls', hsc, hbound⟩ := scanClose_exact closeChar inner post st.pos 0 none
    st.lineStart hin (by simp; omega)
  have hsrcA : st.src = (pre ++ [c]) ++ inner ++ (closeChar :: post) := by
    rw [hc.src_eq, hrest]; simp
  have hsrcB : st.src = pre ++ (c :: (inner ++ [closeChar])) ++ post := by
    rw [hc.src_eq, hrest]; simp
  unfold scanDelimited
  simp only [makeLoc]
  rw [makeLocFrom_ok (by omega) hle]
  simp only [Outcome.bind_ok]
  rw [hrest, hsc]
  simp only []
  rw [sub_ok hsrcA (by simp [hsz]) (by simp [hsz, hpos] <;> omega), Outcome.bind_ok,
    sub_ok hsrcB rfl (by simp [hsz, hcsz, hpos] <;> omega)]
  simp only [Outcome.bind_ok]
  rw [makeLocFrom_ok (by rw [hpos]; omega) (by rw [hpos] at hbound ⊢; omega)]
  simp only [Outcome.bind_ok]
  rw [maybeFollowed_none (p := pre ++ (c :: (inner ++ [closeChar]))) (post := post) _ hsrcB
    (by simp [hsz, hcsz, hpos] <;> omega) hp]
  exact ⟨_, rfl, ⟨rfl, rfl, rfl, rfl, rfl, by simp [hsz, hcsz, hpos] <;> omega⟩⟩

end

/-! ### the suffixes `'s` / `'re` and the separator `'n'` -/

section
variable {N : Type} [CharOps] [NumOps N]

/-- the spellings of a suffix -/
def sufTexts (re : Bool) : List Str :=
  if re then [str% "'re", str% "'RE", str% "'Re", str% "'rE"] else [str% "'s", str% "'S"]

/-- the kind of a suffix -/
def sufKind (re : Bool) : TK := if re then .apostropheRE else .apostropheS

theorem suffix_text_mem (re : Bool) (caps : List Bool) :
    (Spelling.Piece.suffix re caps).text ∈ sufTexts re := by
  have hu1 : Spelling.toUpper '\'' = '\'' := by decide
  have hu2 : Spelling.toUpper 's' = 'S' := by decide
  have hu3 : Spelling.toUpper 'r' = 'R' := by decide
  have hu4 : Spelling.toUpper 'e' = 'E' := by decide
  cases re
  · rcases caps with _ | ⟨a, _ | ⟨b, t⟩⟩ <;> (try cases a) <;> (try cases b) <;>
      simp [Spelling.Piece.text, Spelling.applyCaps, sufTexts, hu1, hu2]
  · rcases caps with _ | ⟨a, _ | ⟨b, _ | ⟨c, t⟩⟩⟩ <;> (try cases a) <;> (try cases b) <;> (try cases c) <;>
      simp [Spelling.Piece.text, Spelling.applyCaps, sufTexts, hu1, hu3, hu4]

/-- every suffix spelling: an apostrophe, then letters; 2 or 3 bytes -/
theorem sufTexts_spec (re : Bool) {sf : Str} (h : sf ∈ sufTexts re) :
    (∃ t, sf = '\'' :: t ∧ ∀ x ∈ t, Letter x) ∧ ulen sf = (if re then 3 else 2) ∧
      (∀ x ∈ sf, x ≠ '\n') := by
  cases re
  · simp only [sufTexts, Bool.false_eq_true, if_false, List.mem_cons, List.not_mem_nil, or_false] at h
    rcases h with rfl | rfl <;> exact ⟨⟨_, rfl, by decide⟩, by decide, by decide⟩
  · simp only [sufTexts, if_true, List.mem_cons, List.not_mem_nil, or_false] at h
    rcases h with rfl | rfl | rfl | rfl <;> exact ⟨⟨_, rfl, by decide⟩, by decide, by decide⟩

theorem stripSuffix?_append (suf host : Str) : stripSuffix? suf (host ++ suf) = some host := by
  unfold stripSuffix?
  have : suf.isSuffixOf (host ++ suf) = true := by
    rw [List.isSuffixOf_iff_suffix]; exact List.suffix_append host suf
  simp [this]

theorem stripSuffix?_none {suf sf : Str} (host : Str) (h : suf.length ≤ sf.length)
    (hn : suf.isSuffixOf sf = false) : stripSuffix? suf (host ++ sf) = none := by
  unfold stripSuffix?
  have : suf.isSuffixOf (host ++ sf) = false := by
    rw [Bool.eq_false_iff]
    intro hs
    rw [List.isSuffixOf_iff_suffix] at hs
    have := List.suffix_of_suffix_length_le hs (List.suffix_append host sf) h
    rw [← List.isSuffixOf_iff_suffix] at this
    rw [this] at hn; cases hn
  simp [this]

/-- the suffix analysis of `tokenize_word` on a word that ends with a suffix spelling -/
theorem splitWordSuffix_suffix (host : Str) (re : Bool) {sf : Str} (h : sf ∈ sufTexts re) :
    splitWordSuffix (host ++ sf) =
      (host, some (if re then (TK.apostropheRE, 3) else (TK.apostropheS, 2))) := by
  cases re
  · simp only [sufTexts, Bool.false_eq_true, if_false, List.mem_cons, List.not_mem_nil, or_false] at h
    rcases h with rfl | rfl
    · simp [splitWordSuffix, stripSuffix?_append]
    · simp [splitWordSuffix, stripSuffix?_append,
        stripSuffix?_none (suf := str% "'s") (sf := str% "'S") host (by decide) (by decide)]
  · simp only [sufTexts, if_true, List.mem_cons, List.not_mem_nil, or_false] at h
    have n1 : ∀ sf', sf' ∈ sufTexts true → stripSuffix? (str% "'s") (host ++ sf') = none ∧
        stripSuffix? (str% "'S") (host ++ sf') = none := by
      intro sf' h'
      simp only [sufTexts, if_true, List.mem_cons, List.not_mem_nil, or_false] at h'
      rcases h' with rfl | rfl | rfl | rfl <;>
        exact ⟨stripSuffix?_none host (by decide) (by decide), stripSuffix?_none host (by decide) (by decide)⟩
    rcases h with rfl | rfl | rfl | rfl
    · simp [splitWordSuffix, stripSuffix?_append, (n1 (str% "'re") (by simp [sufTexts])).1,
        (n1 (str% "'re") (by simp [sufTexts])).2]
    · simp [splitWordSuffix, stripSuffix?_append, (n1 (str% "'RE") (by simp [sufTexts])).1,
        (n1 (str% "'RE") (by simp [sufTexts])).2,
        stripSuffix?_none (suf := str% "'re") (sf := str% "'RE") host (by decide) (by decide)]
    · simp [splitWordSuffix, stripSuffix?_append, (n1 (str% "'Re") (by simp [sufTexts])).1,
        (n1 (str% "'Re") (by simp [sufTexts])).2,
        stripSuffix?_none (suf := str% "'re") (sf := str% "'Re") host (by decide) (by decide),
        stripSuffix?_none (suf := str% "'RE") (sf := str% "'Re") host (by decide) (by decide)]
    · simp [splitWordSuffix, stripSuffix?_append, (n1 (str% "'rE") (by simp [sufTexts])).1,
        (n1 (str% "'rE") (by simp [sufTexts])).2,
        stripSuffix?_none (suf := str% "'re") (sf := str% "'rE") host (by decide) (by decide),
        stripSuffix?_none (suf := str% "'RE") (sf := str% "'rE") host (by decide) (by decide),
        stripSuffix?_none (suf := str% "'Re") (sf := str% "'rE") host (by decide) (by decide)]

/-- `scan_for_text` finds the text -/
theorem scanForText_some {st : LexState N} {p sf post text : Str} {start : Nat} (kind : TK)
    (h : st.src = p ++ sf ++ post) (hstart : start = ulen p) (hl : st.lineStart ≤ ulen p)
    (hsmall : ulen st.src < 4294967296)
    (hsw : startsWithIgnoreAsciiCase text (sf ++ post) = true) (hlen : ulen text = ulen sf) :
    scanForText st start text kind = .ok (some
      { token := { kind := kind, spelling := sf, start := start,
                   range := rawRange st.line st.lineStart (ulen p) (ulen sf), lexErr := none }
        stop := start + ulen text, newlines := 0, newLineStart := none }) := by
  have hsub : sub st start (ulen st.src) = .ok (sf ++ post) :=
    sub_ok (pre := p) (mid := sf ++ post) (post := []) (by simp [h]) hstart
      (by rw [h]; simp)
  have hmk := makeTokenFrom_ok (st := st) (pre := p) (mid := sf) (post := post) kind none h hstart
    hlen hl hsmall
  simp only [scanForText, hsub, Outcome.bind_ok, hsw, hmk]

theorem startsWith_suffix (re : Bool) {sf : Str} (h : sf ∈ sufTexts re) (post : Str) :
    startsWithIgnoreAsciiCase (if re then str% "'re" else str% "'s") (sf ++ post) = true ∧
    (re = true → startsWithIgnoreAsciiCase (str% "'s") (sf ++ post) = false) := by
  cases re
  · simp only [sufTexts, Bool.false_eq_true, if_false, List.mem_cons, List.not_mem_nil, or_false] at h
    rcases h with rfl | rfl <;>
      (refine ⟨?_, fun h => by cases h⟩
       simp [startsWithIgnoreAsciiCase] <;> decide)
  · simp only [sufTexts, if_true, List.mem_cons, List.not_mem_nil, or_false] at h
    rcases h with rfl | rfl | rfl | rfl <;>
      (refine ⟨?_, fun _ => ?_⟩
       · simp [startsWithIgnoreAsciiCase] <;> decide
       · simp [startsWithIgnoreAsciiCase] <;> decide)

/-- `scan_apostrophe_suffix` finds the suffix -/
theorem scanApostropheSuffix_some {st : LexState N} {p post : Str} {start : Nat} (re : Bool)
    {sf : Str} (hsf : sf ∈ sufTexts re)
    (h : st.src = p ++ sf ++ post) (hstart : start = ulen p) (hl : st.lineStart ≤ ulen p)
    (hsmall : ulen st.src < 4294967296) :
    scanApostropheSuffix st start = .ok (some
      { token := { kind := sufKind re, spelling := sf, start := start,
                   range := rawRange st.line st.lineStart (ulen p) (ulen sf), lexErr := none }
        stop := start + ulen sf, newlines := 0, newLineStart := none }) := by
  obtain ⟨hs1, hs2⟩ := startsWith_suffix re hsf post
  have hu := (sufTexts_spec re hsf).2.1
  unfold scanApostropheSuffix
  cases re
  · simp only [Bool.false_eq_true, if_false] at hs1 hu
    rw [scanForText_some .apostropheS h hstart hl hsmall hs1 (by rw [hu]; decide)]
    simp only [Outcome.bind_ok, sufKind, Bool.false_eq_true, if_false]
    rw [hu]; rfl
  · simp only [if_true] at hs1 hu
    rw [scanForText_none (p := p) (post := sf ++ post) .apostropheS (by rw [h]; simp) hstart (hs2 rfl)]
    simp only [Outcome.bind_ok]
    rw [scanForText_some .apostropheRE h hstart hl hsmall hs1 (by rw [hu]; decide)]
    simp only [sufKind, if_true]
    rw [hu]; rfl

/-- a suffix follows: it is staged -/
theorem maybeFollowed_some {st : LexState N} {p post : Str} (r : LexResult N) (re : Bool)
    {sf : Str} (hsf : sf ∈ sufTexts re)
    (h : st.src = p ++ sf ++ post) (hstop : r.stop = ulen p)
    (hl : r.newLineStart.getD st.lineStart ≤ ulen p) (hsmall : ulen st.src < 4294967296) :
    ∃ r' s, maybeFollowedByApostropheSuffix st r = .ok r' ∧ r'.token = r.token ∧
      r'.staged = some s ∧ r'.stop = r.stop + ulen sf ∧
      s.kind = sufKind re ∧ s.spelling = sf ∧ s.num = none ∧ s.text = [] := by
  unfold maybeFollowedByApostropheSuffix
  simp only []
  rw [scanApostropheSuffix_some (p := p) (post := post) re hsf (by exact h) hstop (by exact hl)
    (by exact hsmall)]
  simp only [Outcome.bind_ok]
  refine ⟨_, _, rfl, rfl, rfl, ?_, rfl, rfl, rfl, rfl⟩
  show max r.stop (r.stop + ulen sf) = r.stop + ulen sf
  omega

/-- the facts about a scanner result with a staged suffix -/
structure ExactS (r : LexResult N) (pre sp : Str) (k : TK) (n : Option N) (tx : Str)
    (k' : TK) (sf : Str) : Prop where
  kind : r.token.kind = k
  spelling : r.token.spelling = sp
  num : r.token.num = n
  txt : r.token.text = tx
  staged : ∃ s, r.staged = some s ∧ s.kind = k' ∧ s.spelling = sf ∧ s.num = none ∧ s.text = []
  stop : r.stop = ulen pre + ulen sp + ulen sf

/-- `scan_word` on a word followed by a suffix -/
theorem scanWord_suffix (hal : ∀ c, Letter c → CharOps.isAlphabetic c = true)
    (kw : List (Str × TK)) {st : LexState N} {pre a b : Str} {c : Char} (re : Bool) {sf : Str}
    (hsf : sf ∈ sufTexts re) {k : TK}
    (hc : Ctx st pre c) (hrest : st.rest = a ++ sf ++ b)
    (ha : ∀ x ∈ a, isWordEnd x = false) (hsfw : ∀ x ∈ sf, isWordEnd x = false)
    (hb : ∀ d ∈ b.head?, isWordEnd d = true)
    (hall : ∀ x ∈ c :: a, Letter x ∨ x = '\'')
    (hk : (matchKeyword kw (c :: a)).getD .word = k) :
    ∃ r, scanWord kw st (ulen pre) = .ok r ∧ ExactS r pre (c :: a) k none [] (sufKind re) sf := by
  obtain ⟨hstop, hsrc⟩ := hc.findExact isWordEnd (a := a ++ sf) (b := b) (by rw [hrest])
    (fun x hx => by
      rcases List.mem_append.mp hx with hx | hx
      · exact ha x hx
      · exact hsfw x hx) hb
  obtain ⟨⟨t, hsft, htl⟩, hu, hnonl⟩ := sufTexts_spec re hsf
  have hsplit : splitWordSuffix (c :: (a ++ sf)) =
      (c :: a, some (if re then (TK.apostropheRE, 3) else (TK.apostropheS, 2))) := by
    have := splitWordSuffix_suffix (c :: a) re hsf
    simpa using this
  have hallb : (c :: (a ++ sf)).all (fun c => CharOps.isAlphabetic c || c == '\'') = true := by
    rw [List.all_eq_true]; intro x hx
    have : Letter x ∨ x = '\'' := by
      rcases List.mem_cons.mp hx with rfl | hx
      · exact hall _ (by simp)
      · rcases List.mem_append.mp hx with hx | hx
        · exact hall x (by simp [hx])
        · rw [hsft] at hx
          rcases List.mem_cons.mp hx with rfl | hx
          · right; rfl
          · left; exact htl x hx
    rcases this with h | h
    · simp [hal x h]
    · simp [h]
  have hsrc1 : st.src = (pre ++ (c :: a)) ++ sf ++ b := by rw [hsrc]; simp
  have hsrc2 : st.src = pre ++ (c :: a) ++ (sf ++ b) := by rw [hsrc]; simp
  have hlen : ulen (c :: (a ++ sf)) = ulen (c :: a) + ulen sf := by simp; omega
  have hmk1 := makeTokenFrom_ok (st := st) (pre := pre ++ (c :: a)) (mid := sf) (post := b)
    (lo := ulen pre + ulen (c :: (a ++ sf)) - ulen sf) (len := ulen sf) (sufKind re) none hsrc1
    (by rw [hlen]; simp only [ulen_append]; omega) rfl
    (by have := hc.line.le; simp only [ulen_append]; omega) hc.small
  have hmk2 := makeTokenFrom_ok (st := st) (pre := pre) (mid := c :: a) (post := sf ++ b)
    (lo := ulen pre) (len := ulen (c :: a)) k none hsrc2 rfl rfl hc.line.le hc.small
  unfold scanWord findNextWordEnd
  simp only [hstop]
  rw [sub_ok hsrc rfl rfl]
  simp only [Outcome.bind_ok]
  rw [if_pos hallb]
  simp only [tokenizeWord, hsplit]
  cases re
  · simp only [Bool.false_eq_true, if_false] at hu ⊢
    rw [usub_ok (by rw [hlen, hu]; omega)]
    simp only [Outcome.bind_ok, findWordType_ok kw (List.cons_ne_nil c a), hk]
    rw [hu] at hmk1
    simp only [sufKind, Bool.false_eq_true, if_false] at hmk1
    rw [hmk1]
    simp only [Outcome.bind_ok, hmk2]
    exact ⟨_, rfl, ⟨rfl, rfl, rfl, rfl, ⟨_, rfl, rfl, rfl, rfl, rfl⟩, by simp [hlen, Nat.add_assoc]⟩⟩
  · simp only [if_true] at hu ⊢
    rw [usub_ok (by rw [hlen, hu]; omega)]
    simp only [Outcome.bind_ok, findWordType_ok kw (List.cons_ne_nil c a), hk]
    rw [hu] at hmk1
    simp only [sufKind, if_true] at hmk1
    rw [hmk1]
    simp only [Outcome.bind_ok, hmk2]
    exact ⟨_, rfl, ⟨rfl, rfl, rfl, rfl, ⟨_, rfl, rfl, rfl, rfl, rfl⟩, by simp [hlen, Nat.add_assoc]⟩⟩

theorem suffix_head_props (re : Bool) {sf : Str} (hsf : sf ∈ sufTexts re) (post : Str) :
    ∀ d ∈ (sf ++ post).head?, (isAsciiAlnum d || d == '.') = false := by
  obtain ⟨⟨t, hsft, _⟩, _, _⟩ := sufTexts_spec re hsf
  intro d hd
  rw [hsft] at hd
  simp only [List.cons_append, List.head?_cons, Option.mem_def, Option.some.injEq] at hd
  subst hd; decide

/-- `scan_number` on a number followed by a suffix -/
theorem scanNumber_suffix {st : LexState N} {pre a post : Str} {c : Char} {n : N} (re : Bool)
    {sf : Str} (hsf : sf ∈ sufTexts re)
    (hc : Ctx st pre c) (hrest : st.rest = a ++ (sf ++ post))
    (ha : ∀ x ∈ a, (isAsciiAlnum x || x == '.') = true)
    (hp : (NumOps.parse (c :: a) : Option N) = some n) :
    ∃ r, scanNumber st (ulen pre) = .ok (some r) ∧
      ExactS r pre (c :: a) .number (some n) [] (sufKind re) sf := by
  obtain ⟨hstop, hsrc⟩ := hc.findExact (fun c => !(isAsciiAlnum c || c == '.')) hrest
    (fun x hx => by simp only [ha x hx, Bool.not_true])
    (fun d hd => by simp only [suffix_head_props re hsf post d hd, Bool.not_false])
  have hsrc' : st.src = (pre ++ (c :: a)) ++ sf ++ post := by rw [hsrc]; simp
  unfold scanNumber
  simp only [hstop]
  rw [sub_ok hsrc rfl rfl]
  simp only [Outcome.bind_ok, hp]
  rw [makeRange_ok hsrc rfl rfl hc.line.le hc.small]
  simp only [Outcome.bind_ok]
  obtain ⟨r', s, h1, h2, h3, h4, h5, h6, h7, h8⟩ := maybeFollowed_some (st := st)
    (p := pre ++ (c :: a)) (post := post)
    { token := { kind := .number, spelling := c :: a, start := ulen pre,
                 range := rawRange st.line st.lineStart (ulen pre) (ulen (c :: a)), num := some n }
      stop := ulen pre + ulen (c :: a), newlines := 0, newLineStart := none } re hsf hsrc'
    (by simp) (by have := hc.line.le; simp only [Option.getD_none, ulen_append]; omega) hc.small
  rw [h1]
  simp only [Outcome.bind_ok]
  refine ⟨r', rfl, ?_⟩
  exact ⟨by rw [h2], by rw [h2], by rw [h2], by rw [h2], ⟨s, h3, h5, h6, h7, h8⟩, by rw [h4]⟩

/-- `scan_delimited` on a string literal followed by a suffix -/
theorem scanDelimited_suffix {st : LexState N} {pre inner post : Str} {c : Char}
    (closeChar : Char) (kind : TK) (error : LexErr) (re : Bool) {sf : Str} (hsf : sf ∈ sufTexts re)
    (hc : Ctx st pre c) (hsz : c.utf8Size = 1) (hcsz : closeChar.utf8Size = 1)
    (hrest : st.rest = inner ++ closeChar :: (sf ++ post)) (hin : ∀ x ∈ inner, x ≠ closeChar) :
    ∃ r, scanDelimited st (ulen pre) closeChar kind error = .ok r ∧
      ExactS r pre (c :: (inner ++ [closeChar])) kind none inner (sufKind re) sf := by
  have hu := (sufTexts_spec re hsf).2.1
  have hlen : ulen st.src = ulen pre + 1 + ulen inner + 1 + ulen sf + ulen post := by
    rw [hc.src_eq, hrest]; simp [hsz, hcsz]; omega
  have hsmall := hc.small
  have hle := hc.line.le
  have hpos : st.pos = ulen pre + 1 := by rw [hc.pos_eq, hsz]
  obtain ⟨nl', nls', hsc, hbound⟩ := scanClose_exact closeChar inner (sf ++ post) st.pos 0 none
    st.lineStart hin (by simp; omega)
  have hsrcA : st.src = (pre ++ [c]) ++ inner ++ (closeChar :: (sf ++ post)) := by
    rw [hc.src_eq, hrest]; simp
  have hsrcB : st.src = pre ++ (c :: (inner ++ [closeChar])) ++ (sf ++ post) := by
    rw [hc.src_eq, hrest]; simp
  have hsrcC : st.src = (pre ++ (c :: (inner ++ [closeChar]))) ++ sf ++ post := by
    rw [hsrcB]; simp
  unfold scanDelimited
  simp only [makeLoc]
  rw [makeLocFrom_ok (by omega) hle]
  simp only [Outcome.bind_ok]
  rw [hrest, hsc]
  simp only []
  rw [sub_ok hsrcA (by simp [hsz]) (by simp [hsz, hpos] <;> omega), Outcome.bind_ok,
    sub_ok hsrcB rfl (by simp [hsz, hcsz, hpos] <;> omega)]
  simp only [Outcome.bind_ok]
  rw [makeLocFrom_ok (by rw [hpos]; omega) (by rw [hpos] at hbound ⊢; omega)]
  simp only [Outcome.bind_ok]
  obtain ⟨r', s, h1, h2, h3, h4, h5, h6, h7, h8⟩ := maybeFollowed_some (st := st)
    (p := pre ++ (c :: (inner ++ [closeChar]))) (post := post)
    { token := { kind := kind, spelling := c :: (inner ++ [closeChar]), start := ulen pre,
                 range := (⟨st.line, ulen pre - st.lineStart⟩ : Loc).to
                   ⟨st.line + nl', st.pos + ulen inner + 1 - nls'.getD st.lineStart⟩,
                 text := inner, lexErr := none }
      stop := st.pos + ulen inner + 1, newlines := nl', newLineStart := nls' } re hsf hsrcC
    (by simp [hsz, hcsz, hpos] <;> omega)
    (by rw [hpos] at hbound; simp [hsz, hcsz] <;> omega) hsmall
  rw [h1]
  refine ⟨r', rfl, ?_⟩
  exact ⟨by rw [h2], by rw [h2], by rw [h2], by rw [h2], ⟨s, h3, h5, h6, h7, h8⟩,
    by rw [h4]; simp [hsz, hcsz, hpos] <;> omega⟩

end
/-! ### `dispatch` on the first character of a piece -/

section
variable {N : Type} [CharOps] [NumOps N]

/-- what the text after a piece must look like for the piece to end where it should (the semantic
    form of `Spelling.glueOK` / `sepOK`) -/
def Bound : Spelling.Piece → Str → Prop
  | .kw _ _ _, post => ∀ d ∈ post.head?, isWordEnd d = true
  | .name _, post => ∀ d ∈ post.head?, isWordEnd d = true
  | .num _, post => ∀ d ∈ post.head?, (isAsciiAlnum d || d == '.') = false ∧ d ≠ '\''
  | .sym .dot, post => ∀ d ∈ post.head?, (isAsciiAlnum d || d == '.') = false ∧ d ≠ '\''
  | .sym .lt, post => ∀ d ∈ post.head?, d ≠ '='
  | .sym .gt, post => ∀ d ∈ post.head?, d ≠ '='
  | .str _, post => ∀ d ∈ post.head?, d ≠ '\''
  | .comment _, post => ∀ d ∈ post.head?, d ≠ '\''
  | .suffix _ _, post => ∀ d ∈ post.head?, isWordEnd d = true
  | _, _ => True

theorem wchar_not_wordEnd (laws : SpellLaws) {c : Char} (h : WChar c) : isWordEnd c = false := by
  rcases h with h | h
  · simp [isWordEnd, isIgnorablePunctuation, laws.letters.notWs c h, h.not_punct]
  · subst h
    have : CharOps.isWhitespace '\'' = false := laws.punctNotWs _ (by decide)
    simp [isWordEnd, this]
    decide

theorem lower_letters (laws : SpellLaws) (w : Str) (h : ∀ x ∈ w, Letter x) :
    CharOps.lower w = w.map asciiLowerChar := by
  induction w with
  | nil => rfl
  | cons c cs ih =>
    have := ih (fun x hx => h x (by simp [hx]))
    simp only [CharOps.lower, List.flatMap_cons, List.map_cons] at this ⊢
    rw [this, laws.letters.lower c (h c (by simp))]
    rfl

theorem lower_recased (laws : SpellLaws) {w alias : Str} (ha : ∀ c ∈ alias, KwChar c)
    (h : w.map asciiLowerChar = alias) : CharOps.lower w = alias := by
  refine lower_eq_of_asciiLowerChar ?_ ?_ ?_ h
  · intro c hc
    rcases hc with hc | hc
    · have hl : Letter c := by
        have h1 := char_le_iff_toNat.mp hc.1
        have h2 := char_le_iff_toNat.mp hc.2
        have e1 : 'a'.toNat = 97 := by decide
        have e2 : 'z'.toNat = 122 := by decide
        unfold Letter; omega
      rw [laws.letters.lower c hl]
      have : asciiLowerChar c = c := by
        apply asciiLower_kwChar
        left
        have h1 := char_le_iff_toNat.mp hc.1
        have h2 := char_le_iff_toNat.mp hc.2
        have e1 : 'a'.toNat = 97 := by decide
        have e2 : 'z'.toNat = 122 := by decide
        omega
      rw [this]
    · subst hc; exact laws.aposLower
  · intro c hc
    have hl : Letter c := by
      have h1 := char_le_iff_toNat.mp hc.1
      have h2 := char_le_iff_toNat.mp hc.2
      have e1 : 'A'.toNat = 65 := by decide
      have e2 : 'Z'.toNat = 90 := by decide
      unfold Letter; omega
    rw [laws.letters.lower c hl]
    unfold asciiLowerChar
    rw [if_pos hc]
  · intro c hc
    rcases ha c hc with h1 | h1
    · have e1 : 'a'.toNat = 97 := by decide
      have e2 : 'z'.toNat = 122 := by decide
      simp only [isKeywordChar, Bool.or_eq_true, Bool.and_eq_true, decide_eq_true_eq, beq_iff_eq]
      left
      exact ⟨char_le_iff_toNat.mpr (by omega), char_le_iff_toNat.mpr (by omega)⟩
    · subst h1; decide

/-- the dispatch on an ASCII letter: keyword, else word -/
theorem dispatch_letter (laws : SpellLaws) (kw : List (Str × TK)) {st : LexState N} {pre : Str}
    {c : Char} (hc : Ctx st pre c) (hl : Letter c) :
    dispatch kw st (ulen pre) c =
      (scanKeyword kw st (ulen pre)).bind fun k =>
      match k with
      | some k => .ok (some k)
      | none => some' (scanWord kw st (ulen pre)) := by
  rw [dispatch_other kw st _ (letter_not_special hl), scanNApos_none hc (letter_ne_apos hl)]
  simp only [Outcome.bind_ok]
  have h1 : (isIgnorablePunctuation c || c == '\'') = false := by
    simp [isIgnorablePunctuation, hl.not_punct, letter_ne_apos hl]
  rw [if_neg (by simp [h1]), if_neg (by simp [laws.letters.notNum c hl]),
    if_pos (laws.letters.alpha c hl)]

theorem dispatch_digit (laws : SpellLaws) (kw : List (Str × TK)) {st : LexState N} {pre : Str}
    {c : Char} (hc : Ctx st pre c) (hd : Spelling.isDigit c = true) :
    dispatch kw st (ulen pre) c =
      (scanNumber st (ulen pre)).bind fun number =>
      match number with
      | some number => .ok (some number)
      | none => some' (makeErrorToken st (ulen pre) .invalidToken) := by
  rw [dispatch_other kw st _ (digit_not_special hd), scanNApos_none hc (digit_ne_apos hd)]
  simp only [Outcome.bind_ok]
  have h1 : (isIgnorablePunctuation c || c == '\'') = false := by
    simp [isIgnorablePunctuation, digit_not_punct hd, digit_ne_apos hd]
  rw [if_neg (by simp [h1]), if_pos (laws.digitNum c hd)]

/-- an ignorable punctuation character that starts no token is skipped -/
theorem dispatch_noise (kw : List (Str × TK)) {st : LexState N} {pre : Str}
    {c : Char} (hc : Ctx st pre c) (hn : Spelling.isNoise c = true) :
    dispatch kw st (ulen pre) c = .ok none := by
  have hm : c ∈ Spelling.noiseChars := by simpa [Spelling.isNoise] using hn
  have hca : c ≠ '\'' := by intro he; subst he; revert hm; decide
  rw [dispatch_other kw st _ (noise_not_special c hm), scanNApos_none hc hca]
  simp only [Outcome.bind_ok]
  rw [if_pos (by simp [noise_punct c hm])]

theorem some'_exact {x : L (LexResult N)} {pre sp : Str} {k : TK} {n : Option N} {tx : Str}
    (h : ∃ r, x = .ok r ∧ Exact r pre sp k n tx) :
    ∃ r, some' x = .ok (some r) ∧ Exact r pre sp k n tx := by
  obtain ⟨r, hr, he⟩ := h
  exact ⟨r, some'_ok hr, he⟩

theorem isLetter_alnum {x : Char} (h : (Spelling.isLetter x || Spelling.isDigit x || x == '.') = true) :
    (isAsciiAlnum x || x == '.') = true := by
  by_cases hx : x = '.'
  · simp [hx]
  · simp only [Spelling.isLetter, Spelling.isLower, Spelling.isUpper, Spelling.isDigit, isAsciiAlnum,
      Bool.or_eq_true, Bool.and_eq_true, decide_eq_true_eq, beq_iff_eq] at h ⊢
    rcases h with h | h
    · left; omega
    · exact absurd h hx

/-- **the dispatch on the first character of a piece**: the scanner returns exactly the token the
    piece stands for, without staged suffix, stopping right after the piece -/
theorem dispatch_piece (laws : SpellLaws) (hdot : (NumOps.parse ['.'] : Option N) = none)
    (kw : List (Str × TK)) (hkw : ∀ w, kw.lookup w = promised.lookup w)
    (p : Spelling.Piece) (hwf : p.wf = true) (hns : p.isSuffix = false)
    (hnum : ∀ t, p = .num t → (NumOps.parse t : Option N).isSome = true)
    {st : LexState N} {pre a post : Str} {c : Char} (hc : Ctx st pre c)
    (htext : p.text = c :: a) (hrest : st.rest = a ++ post) (hb : Bound p post) :
    ∃ r, dispatch kw st (ulen pre) c = .ok (some r) ∧
      Exact r pre (c :: a) p.kind p.numOf p.payload := by
  cases p with
  | suffix re caps => simp [Spelling.Piece.isSuffix] at hns
  | nApos u =>
    have htext' : ['\'', if u then 'N' else 'n', '\''] = c :: a := htext
    simp only [List.cons.injEq] at htext'
    obtain ⟨h1, h2⟩ := htext'
    subst h1 h2
    have hsrc : st.src = pre ++ ['\'', if u then 'N' else 'n', '\''] ++ post := by
      rw [hc.src_eq, hrest]; simp
    have hsw : startsWithIgnoreAsciiCase (str% "'n'")
        (['\'', if u then 'N' else 'n', '\''] ++ post) = true := by
      cases u <;> simp [startsWithIgnoreAsciiCase] <;> decide
    have hlen : ulen (str% "'n'") = ulen ['\'', if u then 'N' else 'n', '\''] := by
      cases u <;> decide
    rw [dispatch_other kw st _ (by decide)]
    unfold scanApostropheNApostrophe
    rw [scanForText_some .apostropheNApostrophe hsrc rfl hc.line.le hc.small hsw hlen]
    simp only [Outcome.bind_ok]
    exact ⟨_, rfl, ⟨rfl, rfl, rfl, rfl, rfl, by rw [hlen]⟩⟩
  | kw alias k caps =>
    have hmem : (alias, k) ∈ promised := by
      simpa [Spelling.Piece.wf] using hwf
    have hchars := promised_chars _ hmem
    obtain ⟨c0, cs0, halias, hc0⟩ := promised_head _ hmem
    obtain ⟨hmap, hw, _⟩ := applyCaps_spec caps alias hchars
    have htext' : Spelling.applyCaps caps alias = c :: a := htext
    rw [htext'] at hmap hw
    have hcl : Letter c := by
      rcases hw c (by simp) with h | h
      · exact h
      · exfalso
        subst h
        have halias' : alias = c0 :: cs0 := halias
        rw [halias'] at hmap
        simp only [List.map_cons, List.cons.injEq] at hmap
        have : c0 = '\'' := by rw [← hmap.1]; decide
        subst this
        revert hc0; decide
    have hk : matchKeyword kw (c :: a) = some k :=
      matchKeyword_of_lower (lower_recased laws hchars hmap)
        (by rw [hkw]; exact promised_lookup _ hmem)
    rw [dispatch_letter laws kw hc hcl]
    obtain ⟨r, hr, he⟩ := scanKeyword_some kw hc hrest
      (fun x hx => wchar_not_wordEnd laws (hw x (by simp [hx]))) hb hk
    rw [hr]
    exact ⟨r, rfl, he⟩
  | name w =>
    simp only [Spelling.Piece.wf, Bool.and_eq_true, List.all_eq_true, Option.isNone_iff_eq_none]
      at hwf
    obtain ⟨⟨_, hall⟩, hlk⟩ := hwf
    have htext' : w = c :: a := htext
    subst htext'
    have hall' : ∀ x ∈ c :: a, Letter x := fun x hx => letter_of_isLetter (hall x hx)
    have hk : matchKeyword kw (c :: a) = none := by
      unfold matchKeyword
      rw [lower_letters laws _ hall', hkw, ← hlk]
      congr 1
      exact List.map_congr_left fun x _ => (spToLower_eq x).symm
    rw [dispatch_letter laws kw hc (hall' c (by simp))]
    have ha : ∀ x ∈ a, isWordEnd x = false :=
      fun x hx => wchar_not_wordEnd laws (Or.inl (hall' x (by simp [hx])))
    rw [scanKeyword_none kw hc hrest ha hb hk]
    simp only [Outcome.bind_ok]
    exact some'_exact (scanWord_name laws.letters.alpha kw hc hrest ha hb hall' hk)
  | num t =>
    have htext' : t = c :: a := htext
    subst htext'
    simp only [Spelling.Piece.wf, Bool.and_eq_true, List.all_eq_true] at hwf
    obtain ⟨hd, hall⟩ := hwf
    have hp := hnum _ rfl
    obtain ⟨n, hn⟩ := Option.isSome_iff_exists.mp hp
    rw [dispatch_digit laws kw hc hd]
    obtain ⟨r, hr, he⟩ := scanNumber_exact hc hrest
      (fun x hx => isLetter_alnum (hall x (by simp [hx]))) hb hn
    rw [hr]
    refine ⟨r, rfl, ?_⟩
    have : (Spelling.Piece.num (c :: a)).numOf = some n := hn
    rw [this]
    exact he
  | str s =>
    have htext' : '"' :: (s ++ ['"']) = c :: a := htext
    simp only [List.cons.injEq] at htext'
    obtain ⟨h1, h2⟩ := htext'
    subst h1 h2
    have hin : ∀ x ∈ s, x ≠ '"' := by
      simp only [Spelling.Piece.wf, Bool.not_eq_true', List.contains_eq_mem,
        decide_eq_false_iff_not] at hwf
      intro x hx he; subst he; exact hwf hx
    have hd : dispatch kw st (ulen pre) '"' = some' (scanStringLiteral st (ulen pre)) := by
      simp [dispatch]
    rw [hd]
    exact some'_exact (scanDelimited_exact '"' .stringLit .unterminatedString hc (by decide)
      (by decide) (by rw [hrest]; simp) hin hb)
  | comment s =>
    have htext' : '(' :: (s ++ [')']) = c :: a := htext
    simp only [List.cons.injEq] at htext'
    obtain ⟨h1, h2⟩ := htext'
    subst h1 h2
    have hin : ∀ x ∈ s, x ≠ ')' := by
      simp only [Spelling.Piece.wf, Bool.not_eq_true', List.contains_eq_mem,
        decide_eq_false_iff_not] at hwf
      intro x hx he; subst he; exact hwf hx
    have hd : dispatch kw st (ulen pre) '(' = some' (scanComment st (ulen pre)) := by
      simp [dispatch]
    rw [hd]
    exact some'_exact (scanDelimited_exact ')' .comment .unterminatedComment hc (by decide)
      (by decide) (by rw [hrest]; simp) hin hb)
  | nl =>
    have htext' : ['\n'] = c :: a := htext
    simp only [List.cons.injEq] at htext'
    obtain ⟨h1, h2⟩ := htext'
    subst h1 h2
    have hd : dispatch kw st (ulen pre) '\n' = some' (charToken st .newline (ulen pre)) := by
      simp [dispatch]
    rw [hd]
    exact some'_exact (charToken_exact .newline hc (by decide))
  | sym s =>
    cases s with
    | plus =>
      have htext' : ['+'] = c :: a := htext
      simp only [List.cons.injEq] at htext'
      obtain ⟨h1, h2⟩ := htext'
      subst h1 h2
      have hd : dispatch kw st (ulen pre) '+' = some' (charToken st .plus (ulen pre)) := by
        simp [dispatch]
      rw [hd]
      exact some'_exact (charToken_exact .plus hc (by decide))
    | minus =>
      have htext' : ['-'] = c :: a := htext
      simp only [List.cons.injEq] at htext'
      obtain ⟨h1, h2⟩ := htext'
      subst h1 h2
      have hd : dispatch kw st (ulen pre) '-' = some' (charToken st .minus (ulen pre)) := by
        simp [dispatch]
      rw [hd]
      exact some'_exact (charToken_exact .minus hc (by decide))
    | times =>
      have htext' : ['*'] = c :: a := htext
      simp only [List.cons.injEq] at htext'
      obtain ⟨h1, h2⟩ := htext'
      subst h1 h2
      have hd : dispatch kw st (ulen pre) '*' = some' (charToken st .multiply (ulen pre)) := by
        simp [dispatch]
      rw [hd]
      exact some'_exact (charToken_exact .multiply hc (by decide))
    | over =>
      have htext' : ['/'] = c :: a := htext
      simp only [List.cons.injEq] at htext'
      obtain ⟨h1, h2⟩ := htext'
      subst h1 h2
      have hd : dispatch kw st (ulen pre) '/' = some' (charToken st .divide (ulen pre)) := by
        simp [dispatch]
      rw [hd]
      exact some'_exact (charToken_exact .divide hc (by decide))
    | amp =>
      have htext' : ['&'] = c :: a := htext
      simp only [List.cons.injEq] at htext'
      obtain ⟨h1, h2⟩ := htext'
      subst h1 h2
      have hd : dispatch kw st (ulen pre) '&' = some' (charToken st .ampersand (ulen pre)) := by
        simp [dispatch]
      rw [hd]
      exact some'_exact (charToken_exact .ampersand hc (by decide))
    | comma =>
      have htext' : [','] = c :: a := htext
      simp only [List.cons.injEq] at htext'
      obtain ⟨h1, h2⟩ := htext'
      subst h1 h2
      have hd : dispatch kw st (ulen pre) ',' = some' (charToken st .comma (ulen pre)) := by
        simp [dispatch]
      rw [hd]
      exact some'_exact (charToken_exact .comma hc (by decide))
    | dot =>
      have htext' : ['.'] = c :: a := htext
      simp only [List.cons.injEq] at htext'
      obtain ⟨h1, h2⟩ := htext'
      subst h1 h2
      have hsn : scanNumber st (ulen pre) = .ok none :=
        scanNumber_dot hdot hc (by
          intro d hd'
          rw [hrest] at hd'
          exact (hb d (by simpa using hd')).1)
      have hd : dispatch kw st (ulen pre) '.' = some' (charToken st .dot (ulen pre)) := by
        simp [dispatch, hsn]
      rw [hd]
      exact some'_exact (charToken_exact .dot hc (by decide))
    | lt =>
      have htext' : ['<'] = c :: a := htext
      simp only [List.cons.injEq] at htext'
      obtain ⟨h1, h2⟩ := htext'
      subst h1 h2
      have hnc : nextChar st ≠ some '=' := by
        unfold nextChar
        rw [hrest]
        intro he
        exact hb '=' (by simpa using he) rfl
      have hd : dispatch kw st (ulen pre) '<' = some' (charToken st .less (ulen pre)) := by
        simp [dispatch, hnc]
      rw [hd]
      exact some'_exact (charToken_exact .less hc (by decide))
    | gt =>
      have htext' : ['>'] = c :: a := htext
      simp only [List.cons.injEq] at htext'
      obtain ⟨h1, h2⟩ := htext'
      subst h1 h2
      have hnc : nextChar st ≠ some '=' := by
        unfold nextChar
        rw [hrest]
        intro he
        exact hb '=' (by simpa using he) rfl
      have hd : dispatch kw st (ulen pre) '>' = some' (charToken st .greater (ulen pre)) := by
        simp [dispatch, hnc]
      rw [hd]
      exact some'_exact (charToken_exact .greater hc (by decide))
    | le =>
      have htext' : ['<', '='] = c :: a := htext
      simp only [List.cons.injEq] at htext'
      obtain ⟨h1, h2⟩ := htext'
      subst h1 h2
      have hnc : nextChar st = some '=' := by
        unfold nextChar
        rw [hrest]; rfl
      have hd : dispatch kw st (ulen pre) '<' = some' (twoCharToken st .lessEq (ulen pre)) := by
        simp [dispatch, hnc]
      rw [hd]
      exact some'_exact (twoCharToken_exact .lessEq hc (by decide) (by rw [hrest]; rfl))
    | ge =>
      have htext' : ['>', '='] = c :: a := htext
      simp only [List.cons.injEq] at htext'
      obtain ⟨h1, h2⟩ := htext'
      subst h1 h2
      have hnc : nextChar st = some '=' := by
        unfold nextChar
        rw [hrest]; rfl
      have hd : dispatch kw st (ulen pre) '>' = some' (twoCharToken st .greaterEq (ulen pre)) := by
        simp [dispatch, hnc]
      rw [hd]
      exact some'_exact (twoCharToken_exact .greaterEq hc (by decide) (by rw [hrest]; rfl))


theorem some'_exactS {x : L (LexResult N)} {pre sp : Str} {k : TK} {n : Option N} {tx : Str}
    {k' : TK} {sf : Str} (h : ∃ r, x = .ok r ∧ ExactS r pre sp k n tx k' sf) :
    ∃ r, some' x = .ok (some r) ∧ ExactS r pre sp k n tx k' sf := by
  obtain ⟨r, hr, he⟩ := h
  exact ⟨r, some'_ok hr, he⟩

theorem promised_no_suffix : ∀ p ∈ promised,
    (str% "'s").isSuffixOf p.1 = false ∧ (str% "'re").isSuffixOf p.1 = false := by
  have h : promised.all (fun p => !(str% "'s").isSuffixOf p.1 && !(str% "'re").isSuffixOf p.1) = true := by
    decide +kernel
  intro p hp
  have := List.all_eq_true.mp h p hp
  simpa using this

/-- no promised alias ends with `'s` or `'re` -/
theorem lookup_suffix_none (x : Str) (re : Bool) :
    promised.lookup (x ++ (if re then str% "'re" else str% "'s")) = none := by
  cases hl : promised.lookup (x ++ (if re then str% "'re" else str% "'s")) with
  | none => rfl
  | some k =>
    exfalso
    have hm := mem_of_lookup_eq_some hl
    obtain ⟨h1, h2⟩ := promised_no_suffix _ hm
    cases re
    · have : (str% "'s").isSuffixOf (x ++ str% "'s") = true := by
        rw [List.isSuffixOf_iff_suffix]; exact List.suffix_append _ _
      simp only [Bool.false_eq_true, if_false] at h1
      rw [this] at h1; cases h1
    · have : (str% "'re").isSuffixOf (x ++ str% "'re") = true := by
        rw [List.isSuffixOf_iff_suffix]; exact List.suffix_append _ _
      simp only [if_true] at h2
      rw [this] at h2; cases h2

theorem lower_suffix (laws : SpellLaws) (re : Bool) {sf : Str} (h : sf ∈ sufTexts re) :
    CharOps.lower sf = (if re then str% "'re" else str% "'s") := by
  have hl : ∀ x : Char, Letter x → CharOps.toLower x = [asciiLowerChar x] := laws.letters.lower
  cases re
  · simp only [sufTexts, Bool.false_eq_true, if_false, List.mem_cons, List.not_mem_nil, or_false] at h
    rcases h with rfl | rfl
    · simp only [CharOps.lower, List.flatMap_cons, List.flatMap_nil, laws.aposLower,
        hl 's' (by decide)]
      decide
    · simp only [CharOps.lower, List.flatMap_cons, List.flatMap_nil, laws.aposLower,
        hl 'S' (by decide)]
      decide
  · simp only [sufTexts, if_true, List.mem_cons, List.not_mem_nil, or_false] at h
    rcases h with rfl | rfl | rfl | rfl
    · simp only [CharOps.lower, List.flatMap_cons, List.flatMap_nil, laws.aposLower,
        hl 'r' (by decide), hl 'e' (by decide)]
      decide
    · simp only [CharOps.lower, List.flatMap_cons, List.flatMap_nil, laws.aposLower,
        hl 'R' (by decide), hl 'E' (by decide)]
      decide
    · simp only [CharOps.lower, List.flatMap_cons, List.flatMap_nil, laws.aposLower,
        hl 'R' (by decide), hl 'e' (by decide)]
      decide
    · simp only [CharOps.lower, List.flatMap_cons, List.flatMap_nil, laws.aposLower,
        hl 'r' (by decide), hl 'E' (by decide)]
      decide

/-- a word with a suffix glued to it is not a keyword -/
theorem matchKeyword_suffixed (laws : SpellLaws) (kw : List (Str × TK))
    (hkw : ∀ w, kw.lookup w = promised.lookup w) (w : Str) (re : Bool) {sf : Str}
    (h : sf ∈ sufTexts re) : matchKeyword kw (w ++ sf) = none := by
  unfold matchKeyword
  have : CharOps.lower (w ++ sf) = CharOps.lower w ++ CharOps.lower sf := by
    simp [CharOps.lower]
  rw [this, lower_suffix laws re h, hkw]
  exact lookup_suffix_none _ re

theorem suffix_wchars (re : Bool) {sf : Str} (h : sf ∈ sufTexts re) : ∀ x ∈ sf, WChar x := by
  obtain ⟨⟨t, hsft, htl⟩, _, _⟩ := sufTexts_spec re h
  intro x hx
  rw [hsft] at hx
  rcases List.mem_cons.mp hx with rfl | hx
  · right; rfl
  · left; exact htl x hx

/-- **the dispatch on the first character of a piece with a suffix glued to it**: the token of
    the piece, the suffix staged -/
theorem dispatch_compound (laws : SpellLaws)
    (kw : List (Str × TK)) (hkw : ∀ w, kw.lookup w = promised.lookup w)
    (p : Spelling.Piece) (hwf : p.wf = true) (hhost : p.isHost = true)
    (hnum : ∀ t, p = .num t → (NumOps.parse t : Option N).isSome = true)
    (re : Bool) {sf : Str} (hsf : sf ∈ sufTexts re)
    {st : LexState N} {pre a post : Str} {c : Char} (hc : Ctx st pre c)
    (htext : p.text = c :: a) (hrest : st.rest = a ++ (sf ++ post))
    (hb : ∀ d ∈ post.head?, isWordEnd d = true) :
    ∃ r, dispatch kw st (ulen pre) c = .ok (some r) ∧
      ExactS r pre (c :: a) p.kind p.numOf p.payload (sufKind re) sf := by
  have hsfw : ∀ x ∈ sf, isWordEnd x = false :=
    fun x hx => wchar_not_wordEnd laws (suffix_wchars re hsf x hx)
  cases p with
  | kw alias k caps =>
    have hmem : (alias, k) ∈ promised := by
      simpa [Spelling.Piece.wf] using hwf
    have hchars := promised_chars _ hmem
    obtain ⟨c0, cs0, halias, hc0⟩ := promised_head _ hmem
    obtain ⟨hmap, hw, _⟩ := applyCaps_spec caps alias hchars
    have htext' : Spelling.applyCaps caps alias = c :: a := htext
    rw [htext'] at hmap hw
    have hcl : Letter c := by
      rcases hw c (by simp) with h | h
      · exact h
      · exfalso
        subst h
        have halias' : alias = c0 :: cs0 := halias
        rw [halias'] at hmap
        simp only [List.map_cons, List.cons.injEq] at hmap
        have : c0 = '\'' := by rw [← hmap.1]; decide
        subst this
        revert hc0; decide
    have hk : matchKeyword kw (c :: a) = some k :=
      matchKeyword_of_lower (lower_recased laws hchars hmap)
        (by rw [hkw]; exact promised_lookup _ hmem)
    have ha : ∀ x ∈ a, isWordEnd x = false :=
      fun x hx => wchar_not_wordEnd laws (hw x (by simp [hx]))
    rw [dispatch_letter laws kw hc hcl]
    rw [scanKeyword_none kw hc (a := a ++ sf) (b := post) (by rw [hrest]; simp)
      (fun x hx => by
        rcases List.mem_append.mp hx with hx | hx
        · exact ha x hx
        · exact hsfw x hx) hb
      (by have := matchKeyword_suffixed laws kw hkw (c :: a) re hsf; simpa using this)]
    simp only [Outcome.bind_ok]
    exact some'_exactS (scanWord_suffix laws.letters.alpha kw re hsf hc (by rw [hrest]; simp) ha hsfw hb
      (fun x hx => hw x hx) (by rw [hk]; rfl))
  | name w =>
    simp only [Spelling.Piece.wf, Bool.and_eq_true, List.all_eq_true, Option.isNone_iff_eq_none]
      at hwf
    obtain ⟨⟨_, hall⟩, hlk⟩ := hwf
    have htext' : w = c :: a := htext
    subst htext'
    have hall' : ∀ x ∈ c :: a, Letter x := fun x hx => letter_of_isLetter (hall x hx)
    have hk : matchKeyword kw (c :: a) = none := by
      unfold matchKeyword
      rw [lower_letters laws _ hall', hkw, ← hlk]
      congr 1
      exact List.map_congr_left fun x _ => (spToLower_eq x).symm
    have ha : ∀ x ∈ a, isWordEnd x = false :=
      fun x hx => wchar_not_wordEnd laws (Or.inl (hall' x (by simp [hx])))
    rw [dispatch_letter laws kw hc (hall' c (by simp))]
    rw [scanKeyword_none kw hc (a := a ++ sf) (b := post) (by rw [hrest]; simp)
      (fun x hx => by
        rcases List.mem_append.mp hx with hx | hx
        · exact ha x hx
        · exact hsfw x hx) hb
      (by have := matchKeyword_suffixed laws kw hkw (c :: a) re hsf; simpa using this)]
    simp only [Outcome.bind_ok]
    exact some'_exactS (scanWord_suffix laws.letters.alpha kw re hsf hc (by rw [hrest]; simp) ha hsfw hb
      (fun x hx => Or.inl (hall' x hx)) (by rw [hk]; rfl))
  | num t =>
    have htext' : t = c :: a := htext
    subst htext'
    simp only [Spelling.Piece.wf, Bool.and_eq_true, List.all_eq_true] at hwf
    obtain ⟨hd, hall⟩ := hwf
    have hp := hnum _ rfl
    obtain ⟨n, hn⟩ := Option.isSome_iff_exists.mp hp
    rw [dispatch_digit laws kw hc hd]
    obtain ⟨r, hr, he⟩ := scanNumber_suffix re hsf hc hrest
      (fun x hx => isLetter_alnum (hall x (by simp [hx]))) hn
    rw [hr]
    refine ⟨r, rfl, ?_⟩
    have : (Spelling.Piece.num (c :: a)).numOf = some n := hn
    rw [this]
    exact he
  | str s =>
    have htext' : '"' :: (s ++ ['"']) = c :: a := htext
    simp only [List.cons.injEq] at htext'
    obtain ⟨h1, h2⟩ := htext'
    subst h1 h2
    have hin : ∀ x ∈ s, x ≠ '"' := by
      simp only [Spelling.Piece.wf, Bool.not_eq_true', List.contains_eq_mem,
        decide_eq_false_iff_not] at hwf
      intro x hx he; subst he; exact hwf hx
    have hd : dispatch kw st (ulen pre) '"' = some' (scanStringLiteral st (ulen pre)) := by
      simp [dispatch]
    rw [hd]
    exact some'_exactS (scanDelimited_suffix (post := post) '"' .stringLit .unterminatedString re hsf
      hc (by decide) (by decide) (by rw [hrest]; simp) hin)
  | sym s => simp [Spelling.Piece.isHost] at hhost
  | nl => simp [Spelling.Piece.isHost] at hhost
  | comment s => simp [Spelling.Piece.isHost] at hhost
  | nApos u => simp [Spelling.Piece.isHost] at hhost
  | suffix re' caps => simp [Spelling.Piece.isHost] at hhost

end
/-! ### one round of the loop on blanks followed by a piece / a noise character / nothing -/

section
variable {N : Type} [CharOps] [NumOps N]

/-- a run of ASCII blanks -/
def Blanks (g : Str) : Prop := ∀ x ∈ g, x = ' ' ∨ x = '\t'

theorem blank_ignWs (laws : SpellLaws) {x : Char} (h : x = ' ' ∨ x = '\t') :
    isIgnorableWhitespace x = true := by
  rcases h with rfl | rfl
  · simp [isIgnorableWhitespace, laws.space]
  · simp [isIgnorableWhitespace, laws.tab]

theorem findNonWs_blanks (laws : SpellLaws) (g : Str) (c : Char) (rest1 : Str) (pos : Nat)
    (hg : Blanks g) (hcw : isIgnorableWhitespace c = false) :
    findNonWs (g ++ c :: rest1) pos = some (pos + ulen g, c, rest1, pos + ulen g + c.utf8Size) := by
  induction g generalizing pos with
  | nil => simp [findNonWs, hcw]
  | cons b g' ih =>
    have hb := blank_ignWs laws (hg b (by simp))
    simp only [List.cons_append, findNonWs, hb, if_true]
    rw [ih _ (fun x hx => hg x (by simp [hx]))]
    simp [Nat.add_assoc]

theorem findNonWs_blanks_none (laws : SpellLaws) (g : Str) (pos : Nat) (hg : Blanks g) :
    findNonWs g pos = none := by
  induction g generalizing pos with
  | nil => rfl
  | cons b g' ih =>
    have hb := blank_ignWs laws (hg b (by simp))
    simp only [findNonWs, hb, if_true]
    exact ih _ (fun x hx => hg x (by simp [hx]))

theorem startsWithNApos_blank {b : Char} (h : b = ' ' ∨ b = '\t') (r : Str) :
    startsWithNApos (b :: r) = false := by
  rcases h with rfl | rfl <;>
    exact startsWith_apos_false _ _ (by simp)

theorem findWordStart_blanks (laws : SpellLaws) (g : Str) (c : Char) (rest1 : Str) (pos : Nat)
    (hg : Blanks g) (hcw : isIgnorableWhitespace c = false) :
    findWordStart (g ++ c :: rest1) pos =
      some (pos + ulen g, c, rest1, pos + ulen g + c.utf8Size) := by
  cases g with
  | nil =>
    unfold findWordStart
    split
    · simp
    · simpa using findNonWs_blanks laws [] c rest1 pos hg hcw
  | cons b g' =>
    unfold findWordStart
    rw [List.cons_append, startsWithNApos_blank (hg b (by simp))]
    simp only [Bool.false_eq_true, if_false]
    exact findNonWs_blanks laws (b :: g') c rest1 pos hg hcw

theorem findWordStart_blanks_none (laws : SpellLaws) (g : Str) (pos : Nat) (hg : Blanks g) :
    findWordStart g pos = none := by
  cases g with
  | nil => simp [findWordStart, startsWithNApos, startsWithIgnoreAsciiCase, findNonWs]
  | cons b g' =>
    unfold findWordStart
    rw [startsWithNApos_blank (hg b (by simp))]
    simp only [Bool.false_eq_true, if_false]
    exact findNonWs_blanks_none laws _ pos hg

theorem blanks_noNl {g : Str} (hg : Blanks g) : NoNl g :=
  NoNl_of_forall (fun x hx => by rcases hg x hx with rfl | rfl <;> decide)

/-- a round that returns a token, exactly -/
theorem step_tok_exact (laws : SpellLaws) (kw : List (Str × TK)) {st : LexState N}
    {cov g a post : Str} {c : Char} {k : TK} {n : Option N} {tx : Str}
    (h : LInv kw st cov) (hs : st.staged = none) (hrest : st.rest = g ++ c :: (a ++ post))
    (hg : Blanks g) (hcw : isIgnorableWhitespace c = false)
    (hd : ∀ st1 : LexState N, Ctx st1 (cov ++ g) c → st1.rest = a ++ post →
        ∃ r, dispatch kw st1 (ulen (cov ++ g)) c = .ok (some r) ∧
          Exact r (cov ++ g) (c :: a) k n tx) :
    ∃ t st', step kw st = .ok (.tok t st') ∧ t.kind = k ∧ t.spelling = c :: a ∧ t.num = n ∧
      t.text = tx ∧ st'.rest = post ∧ st'.staged = none ∧ LInv kw st' (cov ++ g ++ (c :: a)) := by
  have hsp : stagedSp st = [] := by simp [stagedSp, hs]
  have hsrc0 : st.src = cov ++ st.rest := by simpa [hsp] using h.src_eq
  have hpos0 : st.pos = ulen cov := by simpa [hsp] using h.pos_eq
  have hstart : st.pos + ulen g = ulen (cov ++ g) := by rw [hpos0]; simp
  have hctx : Ctx ({ st with rest := a ++ post, pos := ulen (cov ++ g) + c.utf8Size } : LexState N)
      (cov ++ g) c :=
    ⟨by simp [hsrc0, hrest], rfl, h.line.append (blanks_noNl hg), h.small⟩
  obtain ⟨r, hdr, he⟩ := hd _ hctx rfl
  have hfin := finish_spec
    ({ st with rest := a ++ post, pos := ulen (cov ++ g) + c.utf8Size } : LexState N) r
    (cov ++ g ++ (c :: a)) a post (by simp [hsrc0, hrest]) rfl
    (by rw [he.stop]; simp only [ulen_append, ulen_cons] <;> omega)
    (by rw [he.stop]; simp only [ulen_append, ulen_cons] <;> omega)
  have hstep : step kw st = .ok (.tok r.token
      { st with rest := post, pos := r.stop
                line := st.line + r.newlines
                lineStart := r.newLineStart.getD st.lineStart
                staged := r.staged }) := by
    unfold step
    rw [hrest, findWordStart_blanks laws g c (a ++ post) st.pos hg hcw]
    simp only []
    rw [hstart, hdr]
    exact hfin
  refine ⟨_, _, hstep, he.kind, he.spelling, he.num, he.txt, rfl, he.staged, ?_⟩
  rcases step_spec kw h hs with ⟨st', h1, _⟩ | ⟨st', g2, h1, _⟩ |
      ⟨t, st', g2, ga, h1, h2, _, _, _, h6⟩
  · rw [hstep] at h1; cases h1
  · rw [hstep] at h1; cases h1
  · rw [hstep] at h1
    injection h1 with h1
    injection h1 with ht hst'
    subst ht hst'
    have hsp' : stagedSp
        ({ st with
            rest := post, pos := r.stop, line := st.line + r.newlines,
            lineStart := r.newLineStart.getD st.lineStart, staged := r.staged } : LexState N)
          = [] := by
      simp [stagedSp, he.staged]
    rw [hsp', he.spelling, hrest] at h2
    simp only [List.append_nil] at h2
    have h3 : g ++ (c :: a) = g2 ++ (c :: a) ++ ga := by
      apply List.append_cancel_right (bs := post)
      simpa [List.append_assoc] using h2
    rw [he.spelling] at h6
    have h4 : cov ++ g2 ++ (c :: a) ++ ga = cov ++ g ++ (c :: a) := by
      rw [List.append_assoc cov g, h3]; simp [List.append_assoc]
    rw [h4] at h6
    exact h6

/-- a round that skips a noise character -/
theorem step_skip_exact (laws : SpellLaws) (kw : List (Str × TK)) {st : LexState N}
    {cov g post : Str} {c : Char}
    (h : LInv kw st cov) (hs : st.staged = none) (hrest : st.rest = g ++ c :: post)
    (hg : Blanks g) (hn : Spelling.isNoise c = true) :
    ∃ st', step kw st = .ok (.skip st') ∧ st'.rest = post ∧ st'.staged = none ∧
      LInv kw st' (cov ++ g ++ [c]) := by
  have hm : c ∈ Spelling.noiseChars := by simpa [Spelling.isNoise] using hn
  have hcw : isIgnorableWhitespace c = false := by
    have : CharOps.isWhitespace c = false :=
      laws.punctNotWs c (by
        have := noise_punct c hm
        simp only [isIgnorablePunctuation, Bool.and_eq_true] at this
        exact this.1.1)
    simp [isIgnorableWhitespace, this]
  have hsp : stagedSp st = [] := by simp [stagedSp, hs]
  have hsrc0 : st.src = cov ++ st.rest := by simpa [hsp] using h.src_eq
  have hpos0 : st.pos = ulen cov := by simpa [hsp] using h.pos_eq
  have hstart : st.pos + ulen g = ulen (cov ++ g) := by rw [hpos0]; simp
  have hctx : Ctx ({ st with rest := post, pos := ulen (cov ++ g) + c.utf8Size } : LexState N)
      (cov ++ g) c :=
    ⟨by simp [hsrc0, hrest], rfl, h.line.append (blanks_noNl hg), h.small⟩
  have hstep : step kw st = .ok (.skip
      ({ st with rest := post, pos := ulen (cov ++ g) + c.utf8Size } : LexState N)) := by
    unfold step
    rw [hrest, findWordStart_blanks laws g c post st.pos hg hcw]
    simp only []
    rw [hstart, dispatch_noise kw hctx hn]
  refine ⟨_, hstep, rfl, hs, ?_⟩
  rcases step_spec kw h hs with ⟨st', h1, _⟩ | ⟨st', g2, h1, h2, _, _, h5⟩ |
      ⟨t, st', g2, ga, h1, _⟩
  · rw [hstep] at h1; cases h1
  · rw [hstep] at h1
    injection h1 with h1
    injection h1 with hst'
    subst hst'
    rw [hrest] at h2
    have h3 : g ++ [c] = g2 := by
      apply List.append_cancel_right (bs := post)
      simpa [List.append_assoc] using h2
    rw [List.append_assoc, h3]
    exact h5
  · rw [hstep] at h1; cases h1

/-- a round at the end of the text -/
theorem step_eof_exact (laws : SpellLaws) (kw : List (Str × TK)) {st : LexState N} {g : Str}
    (hrest : st.rest = g) (hg : Blanks g) :
    ∃ st', step kw st = .ok (.eof st') := by
  unfold step
  rw [hrest, findWordStart_blanks_none laws g st.pos hg]
  exact ⟨_, rfl⟩


/-- a round that returns a token and stages a suffix, exactly -/
theorem step_tok_exactS (laws : SpellLaws) (kw : List (Str × TK)) {st : LexState N}
    {cov g a sf post : Str} {c : Char} {k : TK} {n : Option N} {tx : Str} {k' : TK}
    (h : LInv kw st cov) (hs : st.staged = none)
    (hrest : st.rest = g ++ c :: (a ++ (sf ++ post)))
    (hg : Blanks g) (hcw : isIgnorableWhitespace c = false)
    (hd : ∀ st1 : LexState N, Ctx st1 (cov ++ g) c → st1.rest = a ++ (sf ++ post) →
        ∃ r, dispatch kw st1 (ulen (cov ++ g)) c = .ok (some r) ∧
          ExactS r (cov ++ g) (c :: a) k n tx k' sf) :
    ∃ t st' sg, step kw st = .ok (.tok t st') ∧ t.kind = k ∧ t.spelling = c :: a ∧ t.num = n ∧
      t.text = tx ∧ st'.rest = post ∧ st'.staged = some sg ∧
      sg.kind = k' ∧ sg.spelling = sf ∧ sg.num = none ∧ sg.text = [] ∧
      LInv kw st' (cov ++ g ++ (c :: a)) := by
  have hsp : stagedSp st = [] := by simp [stagedSp, hs]
  have hsrc0 : st.src = cov ++ st.rest := by simpa [hsp] using h.src_eq
  have hpos0 : st.pos = ulen cov := by simpa [hsp] using h.pos_eq
  have hstart : st.pos + ulen g = ulen (cov ++ g) := by rw [hpos0]; simp
  have hctx : Ctx ({ st with rest := a ++ (sf ++ post), pos := ulen (cov ++ g) + c.utf8Size } :
      LexState N) (cov ++ g) c :=
    ⟨by simp [hsrc0, hrest], rfl, h.line.append (blanks_noNl hg), h.small⟩
  obtain ⟨r, hdr, he⟩ := hd _ hctx rfl
  obtain ⟨sg, hsg, k1, k2, k3, k4⟩ := he.staged
  have hfin := finish_spec
    ({ st with rest := a ++ (sf ++ post), pos := ulen (cov ++ g) + c.utf8Size } : LexState N) r
    (cov ++ g ++ (c :: a) ++ sf) (a ++ sf) post (by simp [hsrc0, hrest]) (by simp)
    (by rw [he.stop]; simp only [ulen_append, ulen_cons] <;> omega)
    (by rw [he.stop]; simp only [ulen_append, ulen_cons] <;> omega)
  have hstep : step kw st = .ok (.tok r.token
      { st with rest := post, pos := r.stop
                line := st.line + r.newlines
                lineStart := r.newLineStart.getD st.lineStart
                staged := r.staged }) := by
    unfold step
    rw [hrest, findWordStart_blanks laws g c (a ++ (sf ++ post)) st.pos hg hcw]
    simp only []
    rw [hstart, hdr]
    exact hfin
  refine ⟨_, _, sg, hstep, he.kind, he.spelling, he.num, he.txt, rfl, hsg, k1, k2, k3, k4, ?_⟩
  rcases step_spec kw h hs with ⟨st', h1, _⟩ | ⟨st', g2, h1, _⟩ |
      ⟨t, st', g2, ga, h1, h2, _, _, _, h6⟩
  · rw [hstep] at h1; cases h1
  · rw [hstep] at h1; cases h1
  · rw [hstep] at h1
    injection h1 with h1
    injection h1 with ht hst'
    subst ht hst'
    have hsp' : stagedSp
        ({ st with
            rest := post, pos := r.stop, line := st.line + r.newlines,
            lineStart := r.newLineStart.getD st.lineStart, staged := r.staged } : LexState N)
          = sf := by
      simp [stagedSp, hsg, k2]
    rw [hsp', he.spelling, hrest] at h2
    have h3 : g ++ (c :: a) = g2 ++ (c :: a) ++ ga := by
      apply List.append_cancel_right (bs := sf ++ post)
      simpa [List.append_assoc] using h2
    rw [he.spelling] at h6
    have h4 : cov ++ g2 ++ (c :: a) ++ ga = cov ++ g ++ (c :: a) := by
      rw [List.append_assoc cov g, h3]; simp [List.append_assoc]
    rw [h4] at h6
    exact h6

/-- delivering a staged suffix -/
theorem next_staged (kw : List (Str × TK)) {st : LexState N} {cov : Str} {s : Tok N}
    (h : LInv kw st cov) (hst : st.staged = some s) :
    next kw st = .ok (some s, { st with staged := none }) ∧
      LInv kw ({ st with staged := none } : LexState N) (cov ++ s.spelling) := by
  have hnext : next kw st = .ok (some s, { st with staged := none }) := by
    simp [next, hst]
  have hsp : stagedSp st = s.spelling := by simp [stagedSp, hst]
  refine ⟨hnext, ?_⟩
  have hsp' : stagedSp ({ st with staged := none } : LexState N) = [] := rfl
  refine ⟨h.small, ?_, ?_, ?_, by rw [hsp']; exact NoNl_nil, by intro s' hs'; cases hs'⟩
  · rw [hsp']; simpa [hsp] using h.src_eq
  · rw [hsp']; simpa [hsp] using h.pos_eq
  · exact h.line.append (by simpa [hsp] using h.staged_nonl)

end
/-! ### from the decidable conditions of the specification to the boundary conditions -/

section
variable {N : Type} [CharOps] [NumOps N]

/-- per-character form of `Bound` -/
def BoundC : Spelling.Piece → Char → Prop
  | .kw _ _ _, d => isWordEnd d = true
  | .name _, d => isWordEnd d = true
  | .num _, d => (isAsciiAlnum d || d == '.') = false ∧ d ≠ '\''
  | .sym .dot, d => (isAsciiAlnum d || d == '.') = false ∧ d ≠ '\''
  | .sym .lt, d => d ≠ '='
  | .sym .gt, d => d ≠ '='
  | .str _, d => d ≠ '\''
  | .comment _, d => d ≠ '\''
  | .suffix _ _, d => isWordEnd d = true
  | _, _ => True

theorem bound_of_boundC {p : Spelling.Piece} {post : Str} (h : ∀ d ∈ post.head?, BoundC p d) :
    Bound p post := by
  cases p with
  | sym s => cases s <;> first | exact h | trivial
  | kw a k c => exact h
  | name w => exact h
  | num t => exact h
  | str s => exact h
  | comment s => exact h
  | suffix re caps => exact h
  | nl => trivial
  | nApos u => trivial

/-- the class of the first character of a piece -/
def HeadC : Spelling.Piece → Char → Prop
  | .kw _ _ _, c => Letter c
  | .name _, c => Letter c
  | .num _, c => Spelling.isDigit c = true
  | .sym s, c => s.text.head? = some c
  | .str _, c => c = '"'
  | .nl, c => c = '\n'
  | .comment _, c => c = '('
  | .nApos _, c => c = '\''
  | .suffix _ _, c => c = '\''

theorem piece_head (p : Spelling.Piece) (hwf : p.wf = true) :
    ∃ c a, p.text = c :: a ∧ HeadC p c := by
  cases p with
  | kw alias k caps =>
    have hmem : (alias, k) ∈ promised := by simpa [Spelling.Piece.wf] using hwf
    have hchars := promised_chars _ hmem
    obtain ⟨c0, cs0, halias, hc0⟩ := promised_head _ hmem
    have halias' : alias = c0 :: cs0 := halias
    obtain ⟨hmap, hw, hlen⟩ := applyCaps_spec caps alias hchars
    cases htext : Spelling.applyCaps caps alias with
    | nil => rw [htext, halias'] at hlen; simp at hlen
    | cons c a =>
      refine ⟨c, a, htext, ?_⟩
      rw [htext] at hmap hw
      rcases hw c (by simp) with h | h
      · exact h
      · exfalso
        subst h
        rw [halias'] at hmap
        simp only [List.map_cons, List.cons.injEq] at hmap
        have : c0 = '\'' := by rw [← hmap.1]; decide
        subst this
        revert hc0; decide
  | name w =>
    simp only [Spelling.Piece.wf, Bool.and_eq_true, List.all_eq_true] at hwf
    cases w with
    | nil => simp at hwf
    | cons c a => exact ⟨c, a, rfl, letter_of_isLetter (hwf.1.2 c (by simp))⟩
  | num t =>
    cases t with
    | nil => simp [Spelling.Piece.wf] at hwf
    | cons c a =>
      simp only [Spelling.Piece.wf, Bool.and_eq_true] at hwf
      exact ⟨c, a, rfl, hwf.1⟩
  | sym s => cases s <;> exact ⟨_, _, rfl, rfl⟩
  | str s => exact ⟨_, _, rfl, rfl⟩
  | nl => exact ⟨_, _, rfl, rfl⟩
  | comment s => exact ⟨_, _, rfl, rfl⟩
  | nApos u => exact ⟨_, _, rfl, rfl⟩
  | suffix re caps =>
    obtain ⟨⟨t, hsft, _⟩, _, _⟩ := sufTexts_spec re (suffix_text_mem re caps)
    exact ⟨_, _, hsft, rfl⟩

theorem letter_props {c : Char} (h : Letter c) : c ≠ '=' ∧ c ≠ '\'' := by
  constructor <;> (intro he; subst he; revert h; decide)

theorem digit_props {c : Char} (h : Spelling.isDigit c = true) : c ≠ '=' ∧ c ≠ '\'' := by
  constructor <;> (intro he; subst he; revert h; decide)

/-- the first character of a piece is not ignorable white space -/
theorem head_notWs (laws : SpellLaws) {p : Spelling.Piece} {c : Char} (h : HeadC p c) :
    isIgnorableWhitespace c = false := by
  have hpunct : ∀ d, isAsciiPunct d = true → isIgnorableWhitespace d = false := by
    intro d hd; simp [isIgnorableWhitespace, laws.punctNotWs d hd]
  cases p with
  | kw a k caps => simp [isIgnorableWhitespace, laws.letters.notWs c h]
  | name w => simp [isIgnorableWhitespace, laws.letters.notWs c h]
  | num t => simp [isIgnorableWhitespace, laws.digitNotWs c h]
  | sym s =>
    cases s <;> (simp only [HeadC, Spelling.Sym.text, List.head?_cons, Option.some.injEq] at h
                 subst h
                 exact hpunct _ (by decide))
  | str s => have h' : c = '"' := h; subst h'; exact hpunct _ (by decide)
  | nl => have h' : c = '\n' := h; subst h'; simp [isIgnorableWhitespace]
  | comment s => have h' : c = '(' := h; subst h'; exact hpunct _ (by decide)
  | nApos u => have h' : c = '\'' := h; subst h'; exact hpunct _ (by decide)
  | suffix re caps => have h' : c = '\'' := h; subst h'; exact hpunct _ (by decide)

/-- a symbol, a string, a line feed or a comment -/
def qW : Spelling.Piece → Bool
  | .sym _ | .str _ | .nl | .comment _ => true
  | _ => false

/-- a symbol other than `.`, a string, a line feed or a comment -/
def qA : Spelling.Piece → Bool
  | .sym .dot => false
  | .sym _ | .str _ | .nl | .comment _ => true
  | _ => false

/-- not `'n'`, not a suffix -/
def qQ : Spelling.Piece → Bool
  | .nApos _ | .suffix _ _ => false
  | _ => true

theorem glueW {p q : Spelling.Piece} (hg : Spelling.glueOK p q = true)
    (hns : q.isSuffix = false)
    (hp : (match p with | .kw _ _ _ | .name _ | .suffix _ _ => true | _ => false) = true) :
    qW q = true := by
  cases p <;> simp at hp <;>
    (cases q with
     | sym s => rfl
     | _ => first | rfl | simp [Spelling.glueOK, Spelling.Piece.isSuffix, Spelling.Piece.isHost] at hg hns)

theorem glueA {p q : Spelling.Piece} (hg : Spelling.glueOK p q = true)
    (hns : q.isSuffix = false)
    (hp : (match p with | .num _ | .sym .dot => true | _ => false) = true) :
    qA q = true := by
  cases p with
  | num t =>
    cases q with
    | sym s => cases s <;> first | rfl | simp [Spelling.glueOK] at hg
    | _ => first | rfl | simp [Spelling.glueOK, Spelling.Piece.isSuffix, Spelling.Piece.isHost] at hg hns
  | sym s' =>
    cases s' <;> simp at hp
    cases q with
    | sym s => cases s <;> first | rfl | simp [Spelling.glueOK] at hg
    | _ => first | rfl | simp [Spelling.glueOK, Spelling.Piece.isSuffix, Spelling.Piece.isHost] at hg hns
  | _ => simp at hp

theorem glueQ {p q : Spelling.Piece} (hg : Spelling.glueOK p q = true)
    (hns : q.isSuffix = false)
    (hp : (match p with | .str _ | .comment _ => true | _ => false) = true) :
    qQ q = true := by
  cases p <;> simp at hp <;>
    (cases q with
     | sym s => rfl
     | _ => first | rfl | simp [Spelling.glueOK, Spelling.Piece.isSuffix, Spelling.Piece.isHost] at hg hns)

/-- a piece that may follow directly provides the boundary -/
theorem boundC_glue (laws : SpellLaws) {p q : Spelling.Piece} {d : Char}
    (hg : Spelling.glueOK p q = true) (hns : q.isSuffix = false) (hd : HeadC q d) :
    BoundC p d := by
  have hnlw : isWordEnd '\n' = true := by simp [isWordEnd, laws.nl]
  have hE : d ≠ '=' := by
    cases q with
    | kw a k caps => exact (letter_props hd).1
    | name w => exact (letter_props hd).1
    | num t => exact (digit_props hd).1
    | sym s =>
      cases s <;> (simp only [HeadC, Spelling.Sym.text, List.head?_cons, Option.some.injEq] at hd
                   subst hd
                   decide)
    | str s => have h' : d = '"' := hd; subst h'; decide
    | nl => have h' : d = '\n' := hd; subst h'; decide
    | comment s => have h' : d = '(' := hd; subst h'; decide
    | nApos u => have h' : d = '\'' := hd; subst h'; decide
    | suffix re caps => have h' : d = '\'' := hd; subst h'; decide
  have hQ : qQ q = true → d ≠ '\'' := by
    intro hq
    cases q with
    | kw a k caps => exact (letter_props hd).2
    | name w => exact (letter_props hd).2
    | num t => exact (digit_props hd).2
    | sym s =>
      cases s <;> (simp only [HeadC, Spelling.Sym.text, List.head?_cons, Option.some.injEq] at hd
                   subst hd
                   decide)
    | str s => have h' : d = '"' := hd; subst h'; decide
    | nl => have h' : d = '\n' := hd; subst h'; decide
    | comment s => have h' : d = '(' := hd; subst h'; decide
    | nApos u => simp [qQ] at hq
    | suffix re caps => simp [qQ] at hq
  have hW : qW q = true → isWordEnd d = true := by
    intro hq
    cases q with
    | sym s =>
      cases s <;> (simp only [HeadC, Spelling.Sym.text, List.head?_cons, Option.some.injEq] at hd
                   subst hd
                   simp only [isWordEnd, Bool.or_eq_true]
                   exact Or.inr (by decide))
    | str s =>
      have h' : d = '"' := hd; subst h'
      have : isIgnorablePunctuation '"' = true := by decide
      simp [isWordEnd, this]
    | nl => have h' : d = '\n' := hd; subst h'; exact hnlw
    | comment s =>
      have h' : d = '(' := hd; subst h'
      have : isIgnorablePunctuation '(' = true := by decide
      simp [isWordEnd, this]
    | _ => simp [qW] at hq
  have hA : qA q = true → (isAsciiAlnum d || d == '.') = false ∧ d ≠ '\'' := by
    intro hq
    cases q with
    | sym s =>
      cases s <;> first
        | (simp [qA] at hq; done)
        | (simp only [HeadC, Spelling.Sym.text, List.head?_cons, Option.some.injEq] at hd
           subst hd
           decide)
    | str s => have h' : d = '"' := hd; subst h'; decide
    | nl => have h' : d = '\n' := hd; subst h'; decide
    | comment s => have h' : d = '(' := hd; subst h'; decide
    | _ => simp [qA] at hq
  cases p with
  | kw a k caps => exact hW (glueW hg hns rfl)
  | name w => exact hW (glueW hg hns rfl)
  | suffix re caps => exact hW (glueW hg hns rfl)
  | num t => exact hA (glueA hg hns rfl)
  | sym s =>
    cases s with
    | dot => exact hA (glueA hg hns rfl)
    | lt => exact hE
    | gt => exact hE
    | _ => trivial
  | str s => exact hQ (glueQ hg hns rfl)
  | comment s => exact hQ (glueQ hg hns rfl)
  | nl => trivial
  | nApos u => trivial

theorem noise_A : ∀ d ∈ Spelling.noiseChars, (isAsciiAlnum d || d == '.') = false ∧ d ≠ '\'' := by
  decide

/-- after `<` / `>` the next character is not `=` -/
def ltgtOK (p : Spelling.Piece) (d : Char) : Bool :=
  match p with
  | .sym .lt | .sym .gt => d != '='
  | _ => true

/-- a junk character provides the boundary (after `<` / `>` it must not be `=`) -/
theorem boundC_junk (laws : SpellLaws) {p : Spelling.Piece} {d : Char}
    (hj : Spelling.isJunk d = true) (hne : ltgtOK p d = true) : BoundC p d := by
  have hW : isWordEnd d = true := by
    simp only [Spelling.isJunk, Bool.or_eq_true] at hj
    rcases hj with hj | hj
    · have hb : d = ' ' ∨ d = '\t' := by simpa [Spelling.isBlank] using hj
      rcases hb with rfl | rfl
      · simp [isWordEnd, laws.space]
      · simp [isWordEnd, laws.tab]
    · have hm : d ∈ Spelling.noiseChars := by simpa [Spelling.isNoise] using hj
      simp [isWordEnd, noise_punct d hm]
  have hA : (isAsciiAlnum d || d == '.') = false ∧ d ≠ '\'' := by
    simp only [Spelling.isJunk, Bool.or_eq_true] at hj
    rcases hj with hj | hj
    · have hb : d = ' ' ∨ d = '\t' := by simpa [Spelling.isBlank] using hj
      rcases hb with rfl | rfl <;> decide
    · exact noise_A d (by simpa [Spelling.isNoise] using hj)
  cases p with
  | kw a k caps => exact hW
  | name w => exact hW
  | suffix re caps => exact hW
  | num t => exact hA
  | sym s =>
    cases s with
    | dot => exact hA
    | lt => show d ≠ '='; simpa [ltgtOK] using hne
    | gt => show d ≠ '='; simpa [ltgtOK] using hne
    | _ => trivial
  | str s => exact hA.2
  | comment s => exact hA.2
  | nl => trivial
  | nApos u => trivial

theorem sepOK_junk {p q : Option Spelling.Piece} {s : Spelling.Sep}
    (h : Spelling.sepOK p s q = true) : ∀ x ∈ s, Spelling.isJunk x = true := by
  simp only [Spelling.sepOK, Bool.and_eq_true, List.all_eq_true] at h
  exact h.1

/-- a separated piece is not a suffix -/
theorem sepOK_cons_notSuffix {p : Option Spelling.Piece} {q : Spelling.Piece} {x : Char}
    {s : Spelling.Sep} (h : Spelling.sepOK p (x :: s) (some q) = true) : q.isSuffix = false := by
  simp only [Spelling.sepOK, Bool.and_eq_true] at h
  simpa using h.2.1

theorem sepOK_cons_ne {p : Spelling.Piece} {q : Option Spelling.Piece} {x : Char}
    {s : Spelling.Sep} (h : Spelling.sepOK (some p) (x :: s) q = true) : ltgtOK p x = true := by
  simp only [Spelling.sepOK, Bool.and_eq_true] at h
  have := h.2.2
  cases p with
  | sym s => cases s <;> first | rfl | simpa [ltgtOK] using this
  | _ => rfl

/-- does the list start with a suffix glued to the piece before it? -/
def startsGluedSuffix : List (Spelling.Sep × Spelling.Piece) → Bool
  | ([], .suffix _ _) :: _ => true
  | _ => false

theorem startsGluedSuffix_spec {r : List (Spelling.Sep × Spelling.Piece)}
    (h : startsGluedSuffix r = true) : ∃ re caps r', r = ([], .suffix re caps) :: r' := by
  cases r with
  | nil => simp [startsGluedSuffix] at h
  | cons sq r' =>
    obtain ⟨s, q⟩ := sq
    cases s with
    | cons x s' => simp [startsGluedSuffix] at h
    | nil =>
      cases q with
      | suffix re caps => exact ⟨re, caps, r', rfl⟩
      | _ => simp [startsGluedSuffix] at h

/-- the list does not start with a suffix piece -/
def headNotSuffix : List (Spelling.Sep × Spelling.Piece) → Bool
  | (_, q) :: _ => !q.isSuffix
  | [] => true

/-- after a piece of an admissible text that is not followed by a glued suffix, no suffix follows -/
theorem headNotSuffix_of_spellOK {p : Spelling.Piece} {r : List (Spelling.Sep × Spelling.Piece)}
    {e : Spelling.Sep} (h : Spelling.spellOK (some p) r e = true)
    (hng : startsGluedSuffix r = false) : headNotSuffix r = true := by
  cases r with
  | nil => rfl
  | cons sq r' =>
    obtain ⟨s, q⟩ := sq
    simp only [Spelling.spellOK, Bool.and_eq_true] at h
    cases s with
    | cons x s' => simpa [headNotSuffix] using sepOK_cons_notSuffix h.1.1
    | nil =>
      cases q with
      | suffix re caps => simp [startsGluedSuffix] at hng
      | _ => rfl

/-- the text after a piece of an admissible text meets the boundary condition of the piece,
    unless a suffix is glued to the piece -/
theorem bound_of_spellOK (laws : SpellLaws) (p : Spelling.Piece) (r : List (Spelling.Sep × Spelling.Piece))
    (e : Spelling.Sep) (h : Spelling.spellOK (some p) r e = true)
    (hng : startsGluedSuffix r = false) :
    Bound p (Spelling.spell r e) := by
  apply bound_of_boundC
  cases r with
  | nil =>
    simp only [Spelling.spellOK] at h
    cases e with
    | nil => intro d hd; simp [Spelling.spell] at hd
    | cons x e' =>
      intro d hd
      simp only [Spelling.spell, List.head?_cons, Option.mem_def, Option.some.injEq] at hd
      subst hd
      exact boundC_junk laws (sepOK_junk h x (by simp)) (sepOK_cons_ne h)
  | cons sq r' =>
    obtain ⟨s, q⟩ := sq
    simp only [Spelling.spellOK, Bool.and_eq_true] at h
    obtain ⟨⟨hsep, hqwf⟩, _⟩ := h
    cases s with
    | nil =>
      obtain ⟨c, a, hq, hh⟩ := piece_head q hqwf
      intro d hd
      simp only [Spelling.spell, List.nil_append, hq, List.cons_append, List.head?_cons,
        Option.mem_def, Option.some.injEq] at hd
      subst hd
      have hg : Spelling.glueOK p q = true := by
        simpa [Spelling.sepOK] using hsep
      have hns : q.isSuffix = false := by
        cases q with
        | suffix re caps => simp [startsGluedSuffix] at hng
        | _ => rfl
      exact boundC_glue laws hg hns hh
    | cons x s' =>
      intro d hd
      simp only [Spelling.spell, List.cons_append, List.head?_cons, Option.mem_def,
        Option.some.injEq] at hd
      subst hd
      exact boundC_junk laws (sepOK_junk hsep x (by simp)) (sepOK_cons_ne hsep)

end

/-! ### the loops -/

section
variable {N : Type} [CharOps] [NumOps N]

/-- a run of junk characters -/
def Junk (s : Str) : Prop := ∀ x ∈ s, Spelling.isJunk x = true

/-- `match_loop` runs through a separator: pending blanks `g`, then the separator `s` -/
theorem matchLoop_junk (laws : SpellLaws) (kw : List (Str × TK)) (tail : Str) :
    ∀ (s g : Str) (st : LexState N) (cov : Str),
      LInv kw st cov → st.staged = none → st.rest = g ++ (s ++ tail) → Blanks g → Junk s →
      ∃ st' cov' g', matchLoop kw st = matchLoop kw st' ∧ LInv kw st' cov' ∧ st'.staged = none ∧
        st'.rest = g' ++ tail ∧ Blanks g'
  | [], g, st, cov, h, hs, hr, hg, _ => ⟨st, cov, g, rfl, h, hs, by simpa using hr, hg⟩
  | c :: s', g, st, cov, h, hs, hr, hg, hj => by
    have hc := hj c (by simp)
    have hj' : Junk s' := fun x hx => hj x (by simp [hx])
    simp only [Spelling.isJunk, Bool.or_eq_true] at hc
    rcases hc with hc | hc
    · have hb : c = ' ' ∨ c = '\t' := by simpa [Spelling.isBlank] using hc
      refine matchLoop_junk laws kw tail s' (g ++ [c]) st cov h hs (by rw [hr]; simp) ?_ hj'
      intro x hx
      rcases List.mem_append.mp hx with hx | hx
      · exact hg x hx
      · simp at hx; subst hx; exact hb
    · obtain ⟨st1, h1, h2, h3, h4⟩ := step_skip_exact laws kw h hs (post := s' ++ tail)
        (by rw [hr]; simp) hg hc
      obtain ⟨st', cov', g', k1, k2, k3, k4, k5⟩ := matchLoop_junk laws kw tail s' [] st1 _ h4 h3
        (by simpa using h2) (by intro x hx; simp at hx) hj'
      exact ⟨st', cov', g', by rw [matchLoop_skip h1, k1], k2, k3, k4, k5⟩

/-- **the token loop on a spelled text** -/
theorem lexLoop_spell (laws : SpellLaws) (hdot : (NumOps.parse ['.'] : Option N) = none)
    (kw : List (Str × TK)) (hkw : ∀ w, kw.lookup w = promised.lookup w) :
    ∀ (n : Nat) (items : List (Spelling.Sep × Spelling.Piece)), items.length = n →
      ∀ (e : Spelling.Sep) (prev : Option Spelling.Piece) (st : LexState N) (cov : Str),
      LInv kw st cov → st.staged = none → st.rest = Spelling.spell items e →
      Spelling.spellOK prev items e = true → headNotSuffix items = true →
      (∀ x ∈ items, ∀ t, x.2 = .num t → (NumOps.parse t : Option N).isSome = true) →
      ∃ ts, lexLoop kw st = .ok ts ∧
        ts.map Spelling.tview = items.map (fun x => (x.2.expect : TK × Str × Option N × Str)) := by
  intro n
  induction n using Nat.strongRecOn with
  | _ n ih =>
    intro items hn e prev st cov h hs hr hok hhead hnum
    cases items with
    | nil =>
      have hj : Junk e := sepOK_junk (by simpa [Spelling.spellOK] using hok)
      obtain ⟨st', cov', g', k1, k2, k3, k4, k5⟩ := matchLoop_junk laws kw [] e [] st cov h hs
        (by simpa [Spelling.spell] using hr) (by intro x hx; simp at hx) hj
      obtain ⟨st'', hst''⟩ := step_eof_exact laws kw (st := st') (by simpa using k4) k5
      have hnext : next kw st = .ok (none, st'') := by
        simp only [next, hs]
        rw [k1]; exact matchLoop_eof hst''
      exact ⟨[], lexLoop_nil hnext, rfl⟩
    | cons sp r =>
      obtain ⟨s, p⟩ := sp
      simp only [Spelling.spellOK, Bool.and_eq_true] at hok
      obtain ⟨⟨hsep, hwf⟩, hokr⟩ := hok
      have hp : p.isSuffix = false := by simpa [headNotSuffix] using hhead
      have hj : Junk s := sepOK_junk hsep
      obtain ⟨c, a, htext, hh⟩ := piece_head p hwf
      cases hgs : startsGluedSuffix r with
      | false =>
        obtain ⟨st', cov', g', k1, k2, k3, k4, k5⟩ := matchLoop_junk laws kw
          (p.text ++ Spelling.spell r e) s [] st cov h hs (by simpa [Spelling.spell] using hr)
          (by intro x hx; simp at hx) hj
        have hb := bound_of_spellOK laws p r e hokr hgs
        obtain ⟨t, st'', j1, j2, j3, j4, j5, j6, j7, j8⟩ := step_tok_exact laws kw
          (a := a) (post := Spelling.spell r e) (c := c) k2 k3
          (by rw [k4, htext]; simp) k5 (head_notWs laws hh)
          (fun st1 hctx hrest1 =>
            dispatch_piece laws hdot kw hkw p hwf hp (fun t ht => hnum (s, p) (by simp) t ht)
              hctx htext hrest1 hb)
        have hnext : next kw st = .ok (some t, st'') := by
          simp only [next, hs]
          rw [k1]; exact matchLoop_tok j1
        obtain ⟨ts, l1, l2⟩ := ih r.length (by rw [← hn]; simp) r rfl e (some p) st'' _ j8 j7 j6
          hokr (headNotSuffix_of_spellOK hokr hgs) (fun x hx => hnum x (by simp [hx]))
        rw [lexLoop_cons hnext, l1]
        refine ⟨_, rfl, ?_⟩
        simp only [List.map_cons, l2]
        congr 1
        simp only [Spelling.tview, Spelling.Piece.expect, j2, j3, j4, j5, htext]
      | true =>
        obtain ⟨re, caps, r', hr'⟩ := startsGluedSuffix_spec hgs
        subst hr'
        simp only [Spelling.spellOK, Bool.and_eq_true] at hokr
        obtain ⟨⟨hsep2, _⟩, hokr'⟩ := hokr
        have hhost : p.isHost = true := by simpa [Spelling.sepOK, Spelling.glueOK] using hsep2
        have hsf := suffix_text_mem re caps
        -- nothing is glued to the suffix but a symbol, a string, a line feed or a comment
        have hng' : startsGluedSuffix r' = false := by
          cases hgs' : startsGluedSuffix r' with
          | false => rfl
          | true =>
            exfalso
            obtain ⟨re2, caps2, r'', hr''⟩ := startsGluedSuffix_spec hgs'
            subst hr''
            simp only [Spelling.spellOK, Bool.and_eq_true] at hokr'
            have := hokr'.1.1
            simp [Spelling.sepOK, Spelling.glueOK, Spelling.Piece.isHost] at this
        have hb := bound_of_spellOK laws (.suffix re caps) r' e hokr' hng'
        obtain ⟨st', cov', g', k1, k2, k3, k4, k5⟩ := matchLoop_junk laws kw
          (p.text ++ Spelling.spell (([], .suffix re caps) :: r') e) s [] st cov h hs
          (by simpa [Spelling.spell] using hr) (by intro x hx; simp at hx) hj
        obtain ⟨t, st'', sg, j1, j2, j3, j4, j5, j6, j7, m1, m2, m3, m4, j8⟩ := step_tok_exactS laws kw
          (a := a) (sf := (Spelling.Piece.suffix re caps).text) (post := Spelling.spell r' e)
          (c := c) k2 k3
          (by rw [k4, htext]; simp [Spelling.spell]) k5 (head_notWs laws hh)
          (fun st1 hctx hrest1 =>
            dispatch_compound laws kw hkw p hwf hhost (fun t ht => hnum (s, p) (by simp) t ht)
              re hsf hctx htext hrest1 hb)
        have hnext : next kw st = .ok (some t, st'') := by
          simp only [next, hs]
          rw [k1]; exact matchLoop_tok j1
        obtain ⟨hnext2, hinv2⟩ := next_staged kw j8 j7
        obtain ⟨ts, l1, l2⟩ := ih r'.length (by rw [← hn]; simp; omega) r' rfl e
          (some (.suffix re caps)) ({ st'' with staged := none } : LexState N) _ hinv2 rfl j6
          hokr' (headNotSuffix_of_spellOK hokr' hng') (fun x hx => hnum x (by simp [hx]))
        rw [lexLoop_cons hnext, lexLoop_cons hnext2, l1]
        refine ⟨_, rfl, ?_⟩
        simp only [List.map_cons, l2]
        congr 1
        · simp only [Spelling.tview, Spelling.Piece.expect, j2, j3, j4, j5, htext]
        · congr 1
          simp only [Spelling.tview, Spelling.Piece.expect, m1, m2, m3, m4]
          cases re <;> rfl

/-- **the lexer on a spelled text** -/
theorem lexAll_spell (laws : SpellLaws) (hdot : (NumOps.parse ['.'] : Option N) = none)
    (kw : List (Str × TK)) (hkw : ∀ w, kw.lookup w = promised.lookup w)
    (items : List (Spelling.Sep × Spelling.Piece)) (e : Spelling.Sep)
    (hlen : ulen (Spelling.spell items e) < 2 ^ 32)
    (hok : Spelling.spellOK none items e = true)
    (hnum : ∀ x ∈ items, x.2.kind = .number → (x.2.numOf : Option N).isSome = true) :
    ∃ ts : List (Tok N), lexAll kw (Spelling.spell items e) = .ok ts ∧
      ts.map Spelling.tview = items.map (fun x => (x.2.expect : TK × Str × Option N × Str)) := by
  have hhead : headNotSuffix items = true := by
    cases items with
    | nil => rfl
    | cons sq r =>
      obtain ⟨s, q⟩ := sq
      simp only [Spelling.spellOK, Bool.and_eq_true] at hok
      cases s with
      | nil => simpa [headNotSuffix, Spelling.sepOK] using hok.1.1
      | cons x s' => simpa [headNotSuffix] using sepOK_cons_notSuffix hok.1.1
  exact lexLoop_spell laws hdot kw hkw _ items rfl e none _ [] (LInv.init kw _ hlen) rfl rfl hok hhead
    (fun x hx t ht => by
      have := hnum x hx (by rw [ht]; rfl)
      rw [ht] at this
      exact this)

end

end Lexer
end Rrss
