/-
  Rrss.Lemmas.LexerEval — kernel-evaluable copies of the two well-founded loops of the lexer
  (driven by fuel, hence structurally recursive), proved to agree with the real ones whenever they
  return `ok`; a tiny ASCII `CharOps` table. Used only for the non-vacuity examples of the theorem
  files (`lexLoop`/`matchLoop` are well-founded recursions, which `decide` cannot unfold).
-/
import Rrss.Lemmas.LexerInv
import Rrss.NumInt
namespace Rrss
namespace Lexer

set_option linter.unusedSectionVars false

variable {N : Type}

/-- ASCII-only character tables, for examples -/
@[reducible] def asciiOps : CharOps where
  isAlphabetic c := (65 ≤ c.toNat && c.toNat ≤ 90) || (97 ≤ c.toNat && c.toNat ≤ 122)
  isNumeric c := 48 ≤ c.toNat && c.toNat ≤ 57
  isWhitespace c := c == ' ' || c == '\n' || c == '\t' || c == '\r'
  isUppercase c := 65 ≤ c.toNat && c.toNat ≤ 90
  isLowercase c := 97 ≤ c.toNat && c.toNat ≤ 122
  toLower c := if 65 ≤ c.toNat && c.toNat ≤ 90 then [Char.ofNat (c.toNat + 32)] else [c]

section
variable [CharOps] [NumOps N]

/-- `matchLoop` with fuel -/
def matchLoopF (kw : List (Str × TK)) : Nat → LexState N → L (Option (Tok N) × LexState N)
  | 0, _ => .fuel
  | n + 1, st =>
    match step kw st with
    | .ok (.eof st') => .ok (none, st')
    | .ok (.tok t st') => .ok (some t, st')
    | .ok (.skip st') => matchLoopF kw n st'
    | .err e => .err e
    | .crash s => .crash s
    | .fuel => .fuel
    | .resource => .resource

theorem matchLoopF_sound (kw : List (Str × TK)) :
    ∀ (n : Nat) (st : LexState N) (r : Option (Tok N) × LexState N),
      matchLoopF kw n st = .ok r → matchLoop kw st = .ok r := by
  intro n
  induction n with
  | zero => intro st r h; simp [matchLoopF] at h
  | succ n ih =>
    intro st r h
    simp only [matchLoopF] at h
    split at h
    · next st' hs => rw [matchLoop_eof hs]; exact h
    · next t st' hs => rw [matchLoop_tok hs]; exact h
    · next st' hs => rw [matchLoop_skip hs]; exact ih _ _ h
    all_goals cases h

/-- `next` with fuel -/
def nextF (kw : List (Str × TK)) (n : Nat) (st : LexState N) : L (Option (Tok N) × LexState N) :=
  match st.staged with
  | some t => .ok (some t, { st with staged := none })
  | none => matchLoopF kw n st

theorem nextF_sound (kw : List (Str × TK)) (n : Nat) (st : LexState N)
    (r : Option (Tok N) × LexState N) (h : nextF kw n st = .ok r) : next kw st = .ok r := by
  unfold nextF at h
  unfold next
  split at h
  · next t hs => simp only [hs]; exact h
  · next hs => simp only [hs]; exact matchLoopF_sound kw n st r h

/-- `lexLoop` with fuel -/
def lexLoopF (kw : List (Str × TK)) : Nat → LexState N → L (List (Tok N))
  | 0, _ => .fuel
  | n + 1, st =>
    match nextF kw n st with
    | .ok (none, _) => .ok []
    | .ok (some t, st') =>
      (lexLoopF kw n st').bind fun ts => .ok ({ t with after := snap st' } :: ts)
    | .err e => .err e
    | .crash s => .crash s
    | .fuel => .fuel
    | .resource => .resource

theorem lexLoopF_sound (kw : List (Str × TK)) :
    ∀ (n : Nat) (st : LexState N) (ts : List (Tok N)),
      lexLoopF kw n st = .ok ts → lexLoop kw st = .ok ts := by
  intro n
  induction n with
  | zero => intro st ts h; simp [lexLoopF] at h
  | succ n ih =>
    intro st ts h
    simp only [lexLoopF] at h
    split at h
    · next st' hs => rw [lexLoop_nil (nextF_sound kw n st _ hs)]; exact h
    · next t st' hs =>
      rw [lexLoop_cons (nextF_sound kw n st _ hs)]
      cases hl : lexLoopF kw n st' with
      | ok ts' => rw [hl] at h; rw [ih _ _ hl]; exact h
      | err e => rw [hl] at h; cases h
      | crash s => rw [hl] at h; cases h
      | fuel => rw [hl] at h; cases h
      | resource => rw [hl] at h; cases h
    all_goals cases h

/-- what the examples look at: kind, spelling, byte offset, range -/
def view (t : Tok N) : TK × Str × Nat × Range := (t.kind, t.spelling, t.start, t.range)

/-- the views of the tokens computed with fuel `n` (`none` unless the result is `ok`) -/
def lexViewsF (kw : List (Str × TK)) (n : Nat) (src : Str) : Option (List (TK × Str × Nat × Range)) :=
  match lexLoopF (N := N) kw n (LexState.init src) with
  | .ok ts => some (ts.map view)
  | _ => none

theorem lexAll_of_views (kw : List (Str × TK)) (n : Nat) (src : Str)
    (l : List (TK × Str × Nat × Range)) (h : lexViewsF (N := N) kw n src = some l) :
    ∃ toks : List (Tok N), lexAll kw src = .ok toks ∧ toks.map view = l := by
  unfold lexViewsF at h
  split at h
  · next ts hs =>
    simp at h
    exact ⟨ts, lexLoopF_sound kw n _ ts hs, h⟩
  · cases h

end

/-! ### example data -/

/-- example text: a keyword, a two-line string literal followed by `'s`, a number, a line break, an
    identifier with a digit at an offset > 0 (error token), a pronoun with a staged `'s`, a word
    with trailing apostrophes (dropped) -/
def exSrc : Str := str% "say \"a\nb\"'s 3\nfoo1 it's we''"

/-- kind, spelling, byte offset and range of the tokens of `exSrc` -/
def exViews : List (TK × Str × Nat × Range) :=
  [ (.say, str% "say", 0, ⟨⟨1, 0⟩, ⟨1, 3⟩⟩),
    (.stringLit, str% "\"a\nb\"", 4, ⟨⟨1, 4⟩, ⟨2, 2⟩⟩),
    (.apostropheS, str% "'s", 9, ⟨⟨2, 2⟩, ⟨2, 4⟩⟩),
    (.number, str% "3", 12, ⟨⟨2, 5⟩, ⟨2, 6⟩⟩),
    (.newline, str% "\n", 13, ⟨⟨2, 6⟩, ⟨2, 7⟩⟩),
    (.error, str% "foo1", 14, ⟨⟨3, 0⟩, ⟨3, 4⟩⟩),
    (.pronoun, str% "it", 19, ⟨⟨3, 5⟩, ⟨3, 7⟩⟩),
    (.apostropheS, str% "'s", 21, ⟨⟨3, 7⟩, ⟨3, 9⟩⟩),
    (.word, str% "we", 24, ⟨⟨3, 10⟩, ⟨3, 12⟩⟩) ]

/-- the example text lexes (with the ASCII tables, integer numbers, the real keyword table) to
    tokens with exactly these views; evaluated by the kernel through the fuel copies -/
theorem exSrc_lexes :
    ∃ toks : List (Tok Int), @lexAll Int asciiOps numOpsInt defaultKeywords exSrc = .ok toks ∧
      toks.map view = exViews :=
  @lexAll_of_views Int asciiOps numOpsInt defaultKeywords 100 exSrc exViews (by decide +kernel)

section

end
end Lexer
end Rrss
