/-
  Rrss.Lemmas.RoundTripShape — C02, parser half: the tree with ranges that the parser builds
  (`ast`) is the grammar's tree (`toAst`) up to source ranges.
-/
import Rrss.Lemmas.RoundTripLadder
namespace Rrss
namespace Grammar
open Parser

variable {N : Type}

theorem eraseL_eq_map (l : List (Expr N)) : eraseL l = l.map eraseE := by
  induction l with
  | nil => rfl
  | cons e es ih => simp [eraseL, ih]

mutual
theorem eraseP_idem : (p : Rrss.Primary N) → eraseP (eraseP p) = eraseP p
  | .lit _ _ => rfl
  | .ident _ _ => rfl
  | .sub a i => by simp only [eraseP, eraseP_idem a, eraseP_idem i]
  | .call _ _ args => by simp only [eraseP, eraseL_idem args]
  | .pop a => by simp only [eraseP, eraseP_idem a]
theorem eraseE_idem : (e : Expr N) → eraseE (eraseE e) = eraseE e
  | .prim p => by simp only [eraseE, eraseP_idem p]
  | .bin _ l f r => by simp only [eraseE, eraseE_idem l, eraseE_idem f, eraseL_idem r]
  | .un _ e => by simp only [eraseE, eraseE_idem e]
theorem eraseL_idem : (l : List (Expr N)) → eraseL (eraseL l) = eraseL l
  | [] => rfl
  | e :: es => by simp only [eraseL, eraseE_idem e, eraseL_idem es]
end

mutual
theorem prim_shape : (p : Prim N) → ∀ (c : Choices N), eraseP (p.ast c) = p.toAst
  | .pronoun, c => rfl
  | .var v, c => rfl
  | .lit l, c => rfl
  | .call f a as, c => by
    simp only [Prim.ast, Prim.toAst, eraseP, eraseL, unary_shape a (c.sub 2), args_shape as (c.sub 3)]
  | .pop p, c => by simp only [Prim.ast, Prim.toAst, eraseP, primary_shape p (c.sub 1)]
theorem primary_shape : (p : Primary N) → ∀ (c : Choices N), eraseP (p.ast c) = p.toAst
  | .mk h subs, c => by
    simp only [Primary.ast, Primary.toAst]
    exact subs_shape subs (c.sub 1) _ _ (prim_shape h (c.sub 0))
theorem unary_shape : (u : Unary N) → ∀ (c : Choices N), eraseE (u.ast c) = u.toAst
  | .mk ops p, c => by
    simp only [Unary.ast, Unary.toAst]
    induction ops with
    | nil => simp only [List.foldr_nil, eraseE, primary_shape p (c.sub 1)]
    | cons o os ih => simp only [List.foldr_cons, eraseE, ih]
theorem args_shape : (as : List (Unary N)) → ∀ (c : Choices N), eraseL (argsAst as c) = argsToAst as
  | [], c => rfl
  | u :: us, c => by
    simp only [argsAst, argsToAst, eraseL, unary_shape u (c.sub 1), args_shape us (c.sub 2)]
theorem subs_shape : (ss : List (Prim N)) → ∀ (c : Choices N) (acc acc' : Rrss.Primary N),
    eraseP acc = acc' → eraseP (subsAst ss c acc) = subsToAst ss acc'
  | [], c, acc, acc', h => by simpa [subsAst, subsToAst] using h
  | s :: ss, c, acc, acc', h => by
    simp only [subsAst, subsToAst]
    exact subs_shape ss (c.sub 2) _ _ (by simp only [eraseP, h, prim_shape s (c.sub 1)])
end

/-- the tree with ranges has the shape of the grammar's tree -/
def LayShape {α : Type} (L : Lay N α) : Prop := ∀ (x : α) (c : Choices N), eraseE (L.ast x c) = L.toAst x

theorem restAst_shape {α : Type} {L : Lay N α} (H : LayShape L) (es : List α) (c : Choices N) :
    eraseL (restAst L es c) = es.map L.toAst := by
  induction es generalizing c with
  | nil => rfl
  | cons e es ih => simp [restAst, eraseL, H e, ih]

theorem foldOpsR_shape {α : Type} {L : Lay N α} (H : LayShape L) (os : List (BinOp × OpList α))
    (c : Choices N) (e e' : Expr N) (he : eraseE e = e') :
    eraseE (foldOpsR L e os c) = foldOps L.toSyn e' os := by
  induction os generalizing c e e' with
  | nil => simpa [foldOpsR, foldOps] using he
  | cons ol r ih =>
    obtain ⟨op, l⟩ := ol
    simp only [foldOpsR, foldOps]
    exact ih _ _ _ (by simp only [eraseE, he, H l.first, restAst_shape H])

theorem spine_shape {α : Type} {L : Lay N α} (H : LayShape L) (ops : List BinOp) :
    LayShape (spineLay L ops) := fun s c =>
  foldOpsR_shape H s.ops (c.sub 1) _ _ (H s.head (c.sub 0))

section
variable [CharOps]

theorem unary_layShape : LayShape (unaryLay (N := N)) := fun u c => unary_shape u c
theorem factor_layShape : LayShape (factorLay (N := N)) := spine_shape unary_layShape _
theorem term_layShape : LayShape (termLay (N := N)) := spine_shape factor_layShape _

theorem foldLinksR_shape (links : List (Fancy × Term N)) (c : Choices N) (e e' : Expr N)
    (he : eraseE e = e') : eraseE (foldLinksR e links c) = foldLinks e' links := by
  induction links generalizing c e e' with
  | nil => simpa [foldLinksR, foldLinks] using he
  | cons ft r ih =>
    obtain ⟨f, t⟩ := ft
    simp only [foldLinksR, foldLinks]
    exact ih _ _ _ (by
      simp only [eraseE, he, eraseL]
      rw [term_layShape t]; rfl)

theorem comparison_layShape : LayShape (comparisonLay (N := N)) := by
  intro x c
  obtain ⟨head, tail⟩ := x
  cases tail with
  | chain links => exact foldLinksR_shape links (c.sub 1) _ _ (term_layShape head (c.sub 0))
  | spine os => exact foldOpsR_shape term_layShape os (c.sub 1) _ _ (term_layShape head (c.sub 0))

theorem logical_layShape : LayShape (logicalLay (N := N)) := spine_shape comparison_layShape _

/-- the round trip for expressions on an arbitrary parser state -/
theorem expression_roundtrip (e : Expression N) (c : Choices N) (rest : List (Tok N)) (st : PState N)
    (n : Nat) (b : Bool) (hwf : logicalSyn.wf b e = true) (hstop : logicalSyn.Stop b e rest)
    (htoks : st.toks = unparse e c ++ rest) (hflag : st.parsingList = b)
    (hn : (unparse e c).length ≤ n) :
    ∃ t st', parseExpression (parser n) st = .ok (t, st') ∧
      t.eraseRanges = (toAst e).eraseRanges ∧ eraseE t = toAst e ∧ st'.toks = rest ∧
      st'.parsingList = b ∧ st'.src = st.src ∧ st'.eof = st.eof ∧
      st'.last = lastSnap (unparse e c) st.last := by
  obtain ⟨src, toks, last, eof, pl⟩ := st
  simp only at htoks hflag
  subst htoks hflag
  have hsh : eraseE (logicalLay.ast e c) = toAst e := logical_layShape e c
  refine ⟨logicalLay.ast e c, _, expression_run e c n rest src last eof pl hwf hn hstop, ?_, hsh,
    rfl, rfl, rfl, rfl, rfl⟩
  show eraseE (logicalLay.ast e c) = eraseE (toAst e)
  rw [hsh, ← hsh, eraseE_idem]

theorem logical_forb : (logicalLay (N := N)).forbidden
    = [.word, .taking, .at, .multiply, .divide, .plus, .with_, .minus, .is, .apostropheS,
       .apostropheRE, .less, .lessEq, .greater, .greaterEq, .isnt, .and, .or, .nor] := rfl

/-- a token that continues no expression ends every expression -/
theorem stop_of_endsExpr (b : Bool) (e : Expression N) {rest : List (Tok N)} (h : EndsExpr rest) :
    logicalSyn.Stop b e rest := by
  unfold EndsExpr continuers at h
  obtain ⟨h1, h2⟩ := nextIn_append.mp h
  exact ⟨h2, fun _ => h1, fun _ _ => nextIn_sub h1 (by decide)⟩

end

end Grammar
end Rrss
