/-
  Rrss.Lemmas.LexerDispatch — the `match start_char { … }` of `match_loop` never crashes and
  either skips an ignorable character or returns a correct scanner result.
-/
import Rrss.Lemmas.LexerDelim
namespace Rrss
namespace Lexer
open Spec

set_option linter.unusedSectionVars false

variable {N : Type}

section
variable [CharOps]

theorem some'_ok {x : L (LexResult N)} {r : LexResult N} (h : x = .ok r) :
    some' x = .ok (some r) := by
  simp [some', h]

theorem some'_case [NumOps N] {kw : List (Str × TK)} {st : LexState N} {pre : Str}
    {x : L (LexResult N)} (h : ∃ r, x = .ok r ∧ ResOK kw st pre r) :
    ∃ r, some' x = .ok (some r) ∧ ResOK kw st pre r := by
  obtain ⟨r, hr, hok⟩ := h
  exact ⟨r, some'_ok hr, hok⟩

theorem charTok_case [NumOps N] (kw : List (Str × TK)) {st : LexState N} {pre : Str} {c : Char}
    (kind : TK) (hc : Ctx st pre c) (hsz : c.utf8Size = 1) (hcn : c ≠ '\n')
    (h1 : kind ≠ .newline) (h2 : kind ≠ .number) (h3 : kind ≠ .stringLit) (h4 : kind ≠ .comment) :
    ∃ r, some' (charToken st kind (ulen pre)) = .ok (some r) ∧ ResOK kw st pre r :=
  some'_case (charToken_spec kw kind hc hsz
    ⟨fun h => absurd h h1, fun h => absurd h hcn⟩ h2 h3 h4)

theorem scanNApos_spec [NumOps N] (kw : List (Str × TK)) {st : LexState N} {pre : Str} {c : Char}
    (hc : Ctx st pre c) :
    scanApostropheNApostrophe st (ulen pre) = .ok none ∨
    ∃ r, scanApostropheNApostrophe st (ulen pre) = .ok (some r) ∧ ResOK kw st pre r := by
  unfold scanApostropheNApostrophe
  rcases scanForText_spec kw (text := str% "'n'") .apostropheNApostrophe hc.src_eq rfl hc.line
      hc.small (by simp) (by decide) (by decide) (by decide) (by decide) (by decide) (by decide) with
    h | ⟨tok, post', h1, h2, h3, _, h4, _, h5⟩
  · left; exact h
  · right
    refine ⟨_, h1, ResOK.simple (post := post') ?_ ?_ h5 ?_ rfl⟩
    · show st.src = pre ++ tok.spelling ++ post'
      rw [hc.src_eq, h2]; simp
    · show ulen pre + _ = ulen pre + ulen tok.spelling
      rw [h3]
    · show LineOK (st.line + 0) ((none : Option Nat).getD st.lineStart) (pre ++ tok.spelling)
      simpa using hc.line.append (NoNl_of_forall h4)

/-- the dispatch on the start character: never a crash; either `continue` on an ignorable
    punctuation character / apostrophe, or a correct result -/
theorem dispatch_spec [NumOps N] (kw : List (Str × TK)) {st : LexState N} {pre : Str} {c : Char}
    (hc : Ctx st pre c) :
    (dispatch kw st (ulen pre) c = .ok none ∧
        (isIgnorablePunctuation c = true ∨ c = '\'') ∧ c ≠ '\n') ∨
    ∃ r, dispatch kw st (ulen pre) c = .ok (some r) ∧ ResOK kw st pre r := by
  unfold dispatch
  by_cases h : c = '\n'
  · subst h; rw [if_pos rfl]; right
    exact some'_case (charToken_spec kw .newline hc (by decide) (by simp) (by simp) (by simp)
      (by simp))
  rw [if_neg h]
  have hcn := h
  clear h
  by_cases h : c = '.'
  · subst h; rw [if_pos rfl]; right
    rcases scanNumber_spec kw hc hcn with h1 | ⟨r, h1, h2⟩
    · rw [h1]; simp only [Outcome.bind_ok]
      exact charTok_case kw .dot hc (by decide) hcn (by simp) (by simp) (by simp) (by simp)
    · rw [h1]; exact ⟨r, rfl, h2⟩
  rw [if_neg h]; clear h
  by_cases h : c = ','
  · subst h; rw [if_pos rfl]; right
    exact charTok_case kw .comma hc (by decide) hcn (by simp) (by simp) (by simp) (by simp)
  rw [if_neg h]; clear h
  by_cases h : c = '&'
  · subst h; rw [if_pos rfl]; right
    exact charTok_case kw .ampersand hc (by decide) hcn (by simp) (by simp) (by simp) (by simp)
  rw [if_neg h]; clear h
  by_cases h : c = '+'
  · subst h; rw [if_pos rfl]; right
    exact charTok_case kw .plus hc (by decide) hcn (by simp) (by simp) (by simp) (by simp)
  rw [if_neg h]; clear h
  by_cases h : c = '-'
  · subst h; rw [if_pos rfl]; right
    exact charTok_case kw .minus hc (by decide) hcn (by simp) (by simp) (by simp) (by simp)
  rw [if_neg h]; clear h
  by_cases h : c = '*'
  · subst h; rw [if_pos rfl]; right
    exact charTok_case kw .multiply hc (by decide) hcn (by simp) (by simp) (by simp) (by simp)
  rw [if_neg h]; clear h
  by_cases h : c = '/'
  · subst h; rw [if_pos rfl]; right
    exact charTok_case kw .divide hc (by decide) hcn (by simp) (by simp) (by simp) (by simp)
  rw [if_neg h]; clear h
  by_cases h : c = '"'
  · subst h; rw [if_pos rfl]; right
    exact some'_case (scanDelimited_spec kw '"' .stringLit .unterminatedString hc (by decide)
      (by decide) hcn (Or.inl ⟨rfl, rfl, rfl⟩))
  rw [if_neg h]; clear h
  by_cases h : c = '('
  · subst h; rw [if_pos rfl]; right
    exact some'_case (scanDelimited_spec kw ')' .comment .unterminatedComment hc (by decide)
      (by decide) hcn (Or.inr ⟨rfl, rfl, rfl⟩))
  rw [if_neg h]; clear h
  by_cases h : c = '_'
  · subst h; rw [if_pos rfl]; right
    exact some'_case (makeErrorToken_spec kw .underscore hc hcn)
  rw [if_neg h]; clear h
  by_cases h : c = '<'
  · subst h; rw [if_pos rfl]; right
    by_cases hn : nextChar st = some '='
    · rw [if_pos hn]
      exact some'_case (twoCharToken_spec kw .lessEq hc (by decide) hcn hn (by simp) (by simp)
        (by simp) (by simp))
    · rw [if_neg hn]
      exact charTok_case kw .less hc (by decide) hcn (by simp) (by simp) (by simp) (by simp)
  rw [if_neg h]; clear h
  by_cases h : c = '>'
  · subst h; rw [if_pos rfl]; right
    by_cases hn : nextChar st = some '='
    · rw [if_pos hn]
      exact some'_case (twoCharToken_spec kw .greaterEq hc (by decide) hcn hn (by simp) (by simp)
        (by simp) (by simp))
    · rw [if_neg hn]
      exact charTok_case kw .greater hc (by decide) hcn (by simp) (by simp) (by simp) (by simp)
  rw [if_neg h]; clear h
  rcases scanNApos_spec kw hc with h1 | ⟨r, h1, h2⟩
  rotate_left
  · right; rw [h1]; exact ⟨r, rfl, h2⟩
  rw [h1]; simp only [Outcome.bind_ok]
  by_cases hig : (isIgnorablePunctuation c || c == '\'') = true
  · left
    rw [if_pos hig]
    refine ⟨rfl, ?_, hcn⟩
    simpa using hig
  rw [if_neg hig]
  have hca : c ≠ '\'' := by
    intro he; apply hig; simp [he]
  by_cases hnum : CharOps.isNumeric c = true
  · rw [if_pos hnum]; right
    rcases scanNumber_spec kw hc hcn with h1 | ⟨r, h1, h2⟩
    · rw [h1]; simp only [Outcome.bind_ok]
      exact some'_case (makeErrorToken_spec kw .invalidToken hc hcn)
    · rw [h1]; exact ⟨r, rfl, h2⟩
  rw [if_neg hnum]
  by_cases hal : CharOps.isAlphabetic c = true
  · rw [if_pos hal]; right
    rcases scanKeyword_spec kw hc hcn with h1 | ⟨r, h1, h2⟩
    · rw [h1]; simp only [Outcome.bind_ok]
      exact some'_case (scanWord_spec kw hc hcn hca)
    · rw [h1]; exact ⟨r, rfl, h2⟩
  rw [if_neg hal]; right
  exact some'_case (makeErrorToken_spec kw .invalidToken hc hcn)

end
end Lexer
end Rrss
