/-
  Rrss.Lemmas.ParserFuel — `parse_fuel_sufficient`: `parseProgram kw src ≠ .fuel`.
  (The per-function lemmas are in Rrss.Lemmas.ParserFuelBase.)
-/
import Rrss.Lemmas.ParserFuelBase
import Rrss.Lemmas.LexerTotal
namespace Rrss
namespace Parser

variable {N : Type} {α β : Type}

/-! ### inversion of `bind`, and two facts about where `parse_statement` does not consume -/

theorem P.bind_ok {x : P N α} {f : α → P N β} {st : PState N} {r : β × PState N} :
    P.bind x f st = .ok r ↔ ∃ a st1, x st = .ok (a, st1) ∧ f a st1 = .ok r := by
  simp only [P.bind]
  cases hx : x st with
  | ok p =>
    obtain ⟨a, st1⟩ := p
    exact ⟨fun h => ⟨a, st1, rfl, h⟩, fun ⟨_, _, he, h⟩ => by
      simp only [Outcome.ok.injEq, Prod.mk.injEq] at he; obtain ⟨rfl, rfl⟩ := he; exact h⟩
  | _ => simp

theorem map_some_ne_none {p : P N α} {st st2 : PState N} :
    (some <$> p) st = .ok (none, st2) → False := by
  intro h
  rw [P.map_eq, P.bind_ok] at h
  obtain ⟨a, st1, _, h⟩ := h
  simp [P.pure] at h

set_option linter.unusedSectionVars false
variable [CharOps] {n : Nat} {rec : Rec N}

set_option maxHeartbeats 2000000 in
/-- `parse_statement` answers `None` only without consuming, at the end or before `Else`/`Newline` -/
theorem parseStatement_none {st st2 : PState N} (h : parseStatement rec st = .ok (none, st2)) :
    st2 = st ∧ ∀ t ts, st.toks = t :: ts → t.kind = .else_ ∨ t.kind = .newline := by
  unfold parseStatement at h
  simp only [P.bind_eq] at h
  rw [P.bind_ok] at h
  obtain ⟨cur, st1, hc, h⟩ := h
  simp only [current, Outcome.ok.injEq, Prod.mk.injEq] at hc
  obtain ⟨rfl, rfl⟩ := hc
  cases htoks : st.toks with
  | nil =>
    simp only [htoks, List.head?] at h
    simp [Pure.pure, P.pure] at h
    exact ⟨h.symm, by simp⟩
  | cons t ts =>
    simp only [htoks, List.head?] at h
    generalize hk : t.kind = k at h
    cases k <;> simp only [] at h
    all_goals first
      | exact (map_some_ne_none h).elim
      | (simp [failWith] at h; done)
      | (simp [Pure.pure, P.pure] at h
         refine ⟨h.symm, fun t' ts' ht => ?_⟩
         simp at ht
         obtain ⟨rfl, rfl⟩ := ht
         simp [hk])

theorem currentLoc_ok {st st1 : PState N} {l : Loc} (h : currentLoc st = .ok (l, st1)) : st1 = st := by
  unfold currentLoc at h
  split at h
  · split at h
    · simp at h; exact h.2.symm
    · simp at h
  · simp at h

theorem matchAndConsume_ok {m : Tok N → Bool} {st st1 : PState N} {o : Option (Tok N)}
    (h : matchAndConsume m st = .ok (o, st1)) :
    (o = none ∧ st1 = st ∧ ∀ t ts, st.toks = t :: ts → m t = false) ∨
    (st1.toks.length < st.toks.length) := by
  unfold matchAndConsume at h
  split at h
  · next t ts htoks =>
    split at h
    · simp at h; right; rw [← h.2, htoks]; simp
    · next hm =>
      simp at h; left
      refine ⟨h.1.symm, h.2.symm, fun t' ts' ht => ?_⟩
      rw [htoks] at ht; simp at ht; rw [← ht.1]; simpa using hm
  · next htoks =>
    simp at h; left
    exact ⟨h.1.symm, h.2.symm, fun t' ts' ht => by simp [htoks] at ht⟩

/-- the tail of `stmtLoopBody` after a statement -/
theorem stmtLoopTail_good (hr : RecGood n rec) (s : Stmt N) :
    G n qF (do expectEol; let rest ← rec.stmtLoop; pure (s :: rest) : P N (List (Stmt N))) := by
  pnorm; pauto

/-- `parse_block` either consumes, or stops in front of an `Else` (or at the end) unchanged -/
theorem parseBlock_progress (hr : RecGood n rec) {st st' : PState N} {b : Block N}
    (hst : st.toks.length < n + 1) (h : parseBlock rec st = .ok (b, st')) :
    st'.toks.length < st.toks.length ∨
      (st'.toks = st.toks ∧ ∀ t ts, st.toks = t :: ts → t.kind = .else_) := by
  unfold parseBlock at h
  simp only [P.bind_eq] at h
  rw [P.bind_ok] at h
  obtain ⟨loc, st1, hloc, h⟩ := h
  have := currentLoc_ok hloc; subst this
  rw [P.bind_ok] at h
  obtain ⟨nl, st2, hnl, h⟩ := h
  rcases matchAndConsume_ok hnl with ⟨rfl, rfl, hnot⟩ | hlt
  · -- no leading newline: the statement loop
    simp only at h
    rw [P.bind_ok] at h
    obtain ⟨ss, st3, hss, h⟩ := h
    simp [Pure.pure, P.pure] at h
    obtain ⟨-, rfl⟩ := h
    unfold stmtLoopBody at hss
    rw [P.bind_eq, P.bind_ok] at hss
    obtain ⟨s, st4, hs, hss⟩ := hss
    cases s with
    | none =>
      simp [Pure.pure, P.pure] at hss
      obtain ⟨-, rfl⟩ := hss
      obtain ⟨rfl, hkind⟩ := parseStatement_none hs
      right
      refine ⟨rfl, fun t ts ht => ?_⟩
      rcases hkind t ts ht with h1 | h1
      · exact h1
      · have := hnot t ts ht; simp [isKind, h1] at this
    | some s =>
      left
      have h1 := (parseStatement_good hr).prop _ hst
      rw [hs] at h1
      have hlt := h1.2 rfl
      have h2 := (stmtLoopTail_good hr s).prop st4 (by omega)
      simp only at hss
      rw [hss] at h2
      have := h2.1
      omega
  · -- a leading newline was consumed
    left
    cases nl with
    | none =>
      -- impossible branch shape is irrelevant: whatever follows does not add tokens
      simp only at h
      rw [P.bind_ok] at h
      obtain ⟨ss, st3, hss, h⟩ := h
      simp [Pure.pure, P.pure] at h
      obtain ⟨-, rfl⟩ := h
      have h1 := ((stmtLoopBody_good hr).mono (Nat.le_refl _)).prop st2 (by omega)
      rw [hss] at h1
      have := h1.1
      omega
    | some t =>
      simp [Pure.pure, P.pure] at h
      obtain ⟨-, rfl⟩ := h
      exact hlt

theorem topLoopAfterBlock_good (hr : RecGood n rec) (b : Block N) :
    G n qF (topLoopAfterBlock rec b) := by
  unfold topLoopAfterBlock; pnorm; pauto

/-- in front of an `Else`, the rest of the round is the stray-`else` error -/
theorem topLoopAfterBlock_else (b : Block N) {st : PState N} {t : Tok N} {ts : List (Tok N)}
    (ht : st.toks = t :: ts) (hk : t.kind = .else_) :
    ∃ e, topLoopAfterBlock rec b st = .err e := by
  unfold topLoopAfterBlock
  simp [P.bind, currentMatches, ht, isKind, hk, failWith]

theorem topLoopBody_good (hr : RecGood n rec) : G (n + 1) qF (topLoopBody rec) := by
  refine ⟨fun st hst => ?_⟩
  obtain ⟨src, toks, last, eof, pl⟩ := st
  unfold topLoopBody
  simp only [P.bind_eq]
  cases toks with
  | nil => simp [P.bind, current, Pure.pure, P.pure]
  | cons t ts =>
    simp only [P.bind, current, List.head?]
    generalize hst0 : (⟨src, t :: ts, last, eof, pl⟩ : PState N) = st at *
    have htoks : st.toks = t :: ts := by rw [← hst0]
    have hb := (parseBlock_good hr).prop st hst
    cases hpb : parseBlock rec st with
    | ok r =>
      obtain ⟨block, st1⟩ := r
      rw [hpb] at hb
      simp only
      rcases parseBlock_progress hr hst hpb with hlt | ⟨heq, helse⟩
      · have h2 := (topLoopAfterBlock_good hr block).prop st1 (by omega)
        cases hk : topLoopAfterBlock rec block st1 with
        | ok r2 =>
          obtain ⟨bs, st2⟩ := r2
          rw [hk] at h2
          have hl : st.toks.length = (t :: ts).length := by rw [htoks]
          exact ⟨by have := h2.1; omega, by simp⟩
        | fuel => rw [hk] at h2; exact h2
        | err e => trivial
        | crash s => trivial
        | resource => trivial
      · obtain ⟨e, he⟩ := topLoopAfterBlock_else (rec := rec) block (heq.trans htoks) (helse t ts htoks)
        rw [he]; trivial
    | fuel => rw [hpb] at hb; exact hb
    | err e => trivial
    | crash s => trivial
    | resource => trivial

theorem parseProgramBody_good (hr : RecGood n rec) : G (n + 1) qF (parseProgramBody rec) := by
  have := topLoopBody_good hr
  unfold parseProgramBody; pnorm; pauto

/-! ### tying the knot -/

theorem mkRec_good (hr : RecGood n rec) : RecGood (n + 1) (mkRec rec) where
  unary := parseUnary_good hr
  primary := parsePrimary_good hr
  subscriptChain := subscriptChain_good hr
  binLoop := fun l e => binLoopBody_good hr l (operandOf_good hr l) e
  listLoop := fun l => listLoopBody_good hr l (operandOf_good hr l)
  fancyLoop := fancyLoopBody_good hr
  argsLoop := argsLoopBody_good hr
  paramsLoop := paramsLoopBody_good hr
  poeticLoop := poeticLoopBody_good hr
  buildKnockLoop := buildKnockLoopBody_good hr
  capitalizedLoop := (capitalizedLoopBody_good hr).toF
  block := parseBlock_good hr
  functionBlock := parseFunctionBlock_good hr
  stmtLoop := stmtLoopBody_good hr
  fnStmtLoop := fnStmtLoopBody_good hr
  topLoop := topLoopBody_good hr
  expression := parseExpression_good hr
  program := parseProgramBody_good hr

theorem G.zero {Q : α → Bool} {p : P N α} : G 0 Q p := ⟨fun st hst => by omega⟩

/-- every field of `parser n` is good on states with fewer than `n` tokens -/
theorem parser_good : ∀ n : Nat, RecGood n (parser n : Rec N)
  | 0 => by constructor <;> intros <;> exact G.zero
  | n + 1 => mkRec_good (parser_good n)

/-- an entry point that is good at every depth never runs out of fuel under `runOn` -/
theorem runOn_ne_fuel [NumOps N] {γ : Type} (entry : Rec N → P N γ)
    (h : ∀ n, G n qF (entry (parser n))) (kw : List (Str × TK)) (src : Str) :
    runOn entry kw src ≠ .fuel := by
  unfold runOn
  have hl := Lexer.lexAll_oc (N := N) kw src
  cases hlex : Lexer.lexAll (N := N) kw src with
  | ok raw =>
    simp only
    have hp := (h ((initState src raw).toks.length + 2)).prop (initState src raw) (by omega)
    cases he : entry (parser ((initState src raw).toks.length + 2)) (initState src raw) with
    | ok r => simp
    | fuel => rw [he] at hp; exact hp.elim
    | err e => simp
    | crash s => simp
    | resource => simp
  | fuel => rw [hlex] at hl; exact hl.elim
  | err e => rw [hlex] at hl; exact hl.elim
  | resource => rw [hlex] at hl; exact hl.elim
  | crash s => simp

/-- C01 (fuel part): parsing a whole program never runs out of fuel, for every source text,
    keyword table, character classification and number type. -/
theorem parse_fuel_sufficient [NumOps N] (kw : List (Str × TK)) :
    ∀ src : Str, parseProgram (N := N) kw src ≠ .fuel :=
  fun src => runOn_ne_fuel (fun r => r.program) (fun n => (parser_good n).program) kw src

theorem parseExpressionSrc_fuel_sufficient [NumOps N] (kw : List (Str × TK)) :
    ∀ src : Str, parseExpressionSrc (N := N) kw src ≠ .fuel :=
  fun src => runOn_ne_fuel (fun r => r.expression) (fun n => (parser_good n).expression) kw src

end Parser
end Rrss

#print axioms Rrss.Parser.parse_fuel_sufficient
