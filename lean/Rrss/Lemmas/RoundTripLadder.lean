/-
  Rrss.Lemmas.RoundTripLadder — C02, parser half: the ladder unary → factor → term → comparison
  (with `is`-chains) → logical = expression, by instantiating the generic step.
-/
import Rrss.Lemmas.RoundTripSpine
namespace Rrss
namespace Grammar
open Parser

variable {N : Type} [CharOps]

/-! ### unary -/

def unaryLay : Lay N (Unary N) := ⟨unarySyn, Unary.ast⟩

omit [CharOps] in
theorem primStarts_unop {k : TK} (h : primStarts.contains k = true) : getUnaryOperator k = none := by
  simp only [primStarts, List.contains_eq_mem, List.mem_cons, List.not_mem_nil, or_false,
    decide_eq_true_eq] at h
  rcases h with h | h | h | h | h | h | h | h | h | h | h <;> subst h <;> rfl

omit [CharOps] in
theorem unary_head' (u : Unary N) (c : Choices N) :
    ∃ t ts, u.toks c = t :: ts ∧ exprStarts.contains t.kind = true ∧ getUnaryOperator t.kind = u.startsUn := by
  cases u with
  | mk ops p =>
    cases ops with
    | nil =>
      obtain ⟨t, ts, h1, h2⟩ := primary_head p (c.sub 1)
      refine ⟨t, ts, by simp [Unary.toks, unopsToks, h1], ?_, ?_⟩
      · simp only [exprStarts, List.contains_eq_mem, List.mem_append, decide_eq_true_eq] at h2 ⊢
        exact Or.inr h2
      · simpa [Unary.startsUn] using primStarts_unop h2
    | cons o os =>
      refine ⟨_, _, by simp only [Unary.toks, unopsToks, List.cons_append]; rfl, ?_, ?_⟩
      · cases o <;> rfl
      · cases o <;> rfl

theorem unary_forb : (unaryLay (N := N)).forbidden = [.word, .taking, .at] := rfl

theorem unary_ok : LayOK (N := N) .factor unaryLay := by
  refine ⟨?_, unary_head', by rw [unary_forb]; decide⟩
  intro u c n rest src last eof b hw hn hs
  exact unary_run u c n rest src last eof b hw hn ⟨hs.1, hs.2.1⟩

/-! ### factor, term -/

def factorLay : Lay N (Factor N) := spineLay unaryLay [.multiply, .divide]
def termLay : Lay N (Term N) := spineLay factorLay [.plus, .minus]

theorem factor_forb : (factorLay (N := N)).forbidden = [.word, .taking, .at, .multiply, .divide] := rfl
theorem term_forb : (termLay (N := N)).forbidden
    = [.word, .taking, .at, .multiply, .divide, .plus, .with_, .minus] := rfl

theorem factor_ok : LayOK (N := N) .term factorLay :=
  spine_ok unary_ok [.multiply, .divide] rfl (by decide) (by rw [unary_forb]; decide) (fun _ => rfl)
    (by decide)

theorem term_ok : LayOK (N := N) .comparison termLay :=
  spine_ok factor_ok [.plus, .minus] rfl (by decide) (by rw [factor_forb]; decide) (fun _ => rfl)
    (by decide)

/-! ### comparison -/

theorem termLay_toSyn : (termLay (N := N)).toSyn = termSyn := rfl

def foldLinksR : Expr N → List (Fancy × Term N) → Choices N → Expr N
  | e, [], _ => e
  | e, (f, t) :: r, c => foldLinksR (.bin f.op e (termLay.ast t (c.sub 2)) []) r (c.sub 3)

def comparisonLay : Lay N (Comparison N) :=
  ⟨comparisonSyn, fun x c =>
    match x.tail with
    | .chain links => foldLinksR (termLay.ast x.head (c.sub 0)) links (c.sub 1)
    | .spine ops => foldOpsR termLay (termLay.ast x.head (c.sub 0)) ops (c.sub 1)⟩

theorem comparison_forb : (comparisonLay (N := N)).forbidden
    = [.word, .taking, .at, .multiply, .divide, .plus, .with_, .minus, .is, .apostropheS,
       .apostropheRE, .less, .lessEq, .greater, .greaterEq, .isnt] := rfl

omit [CharOps] in
theorem isKind3_mem (k : Nat) : isKind3 k ∈ isOperators := by
  unfold isKind3
  split <;> simp [isOperators]

omit [CharOps] in
theorem is_tok_any (k : Nat) (c : Choices N) :
    isAnyKind isOperators (tk (.kw (isKind3 k)) c : Tok N) = true := by
  simpa [isAnyKind] using isKind3_mem k

omit [CharOps] in
theorem nextIn_is (ks : List TK) (hd : ∀ kd ∈ isOperators, kd ∉ ks) (k : Nat) (c : Choices N)
    (ts : List (Tok N)) : nextIn ks (tk (.kw (isKind3 k)) c :: ts) = false := by
  simp only [nextIn_cons, tk_kw_kind, List.contains_eq_mem, decide_eq_false_iff_not]
  exact hd _ (isKind3_mem k)

/-- a term may be followed by `is` -/
theorem term_stop_is (b : Bool) (t : Term N) (k : Nat) (c : Choices N) (ts : List (Tok N)) :
    termSyn.Stop b t (tk (.kw (isKind3 k)) c :: ts) :=
  ⟨nextIn_is _ (by rw [← termLay_toSyn, term_forb]; decide) k c ts,
   fun _ => nextIn_is _ (by decide) k c ts, fun _ _ => nextIn_is _ (by decide) k c ts⟩

theorem term_run (t : Term N) (c : Choices N) (n : Nat) (rest : List (Tok N)) (src last eof) (b : Bool)
    (hw : termSyn.wf b t = true) (hn : (termSyn.toks t c).length ≤ n) (hs : termSyn.Stop b t rest) :
    parseTerm (parser n) ⟨src, termSyn.toks t c ++ rest, last, eof, b⟩
      = .ok (termLay.ast t c, ⟨src, rest, lastSnap (termSyn.toks t c) last, eof, b⟩) :=
  term_ok.runs t c n rest src last eof b hw hn hs

theorem term_heads (t : Term N) (c : Choices N) : ∃ tk0 ts, termSyn.toks t c = tk0 :: ts ∧
    exprStarts.contains tk0.kind = true ∧ getUnaryOperator tk0.kind = termSyn.startsUn t :=
  term_ok.heads t c

theorem fancy_run (f : Fancy) (t : Term N) (c1 c2 : Choices N) (n : Nat) (rest : List (Tok N))
    (src last eof) (b : Bool) (lhs : Expr N)
    (hw : termSyn.wf b t = true) (hnot : (!(f == .eq && termSyn.startsUn t == some .not)) = true)
    (hn : (termSyn.toks t c2).length ≤ n) (hs : termSyn.Stop b t rest) :
    parseFancyComparison (parser n) lhs ⟨src, f.toks c1 ++ (termSyn.toks t c2 ++ rest), last, eof, b⟩
      = .ok (.bin f.op lhs (termLay.ast t c2) [],
          ⟨src, rest, lastSnap (termSyn.toks t c2) (lastSnap (f.toks c1) last), eof, b⟩) := by
  have ht := fun last => term_run t c2 n rest src last eof b hw hn hs
  obtain ⟨tk0, ts0, h1, h2, h3⟩ := term_heads t c2
  have has : nextIn [.as] (termSyn.toks t c2 ++ rest) = false :=
    nextIn_of_head (starts := exprStarts) ⟨tk0, ts0, h1, h2⟩ (by decide)
  have hbs : nextIn [.bigger, .smaller] (termSyn.toks t c2 ++ rest) = false :=
    nextIn_of_head (starts := exprStarts) ⟨tk0, ts0, h1, h2⟩ (by decide)
  cases f with
  | eq =>
    have hn' : nextIn [.not] (termSyn.toks t c2 ++ rest) = false := by
      have hne : termSyn.startsUn t ≠ some .not := by simpa using hnot
      have h3' : ¬ tk0.kind = TK.not := by
        intro hk
        rw [hk] at h3
        exact hne h3.symm
      simp [h1, nextIn_cons, h3']
    simp [parseFancyComparison, Fancy.toks, bind_run, mac_stop_kind has, mac_stop_any hbs,
      mac_stop_kind hn', ht, pure_run, Fancy.op]
  | notEq =>
    simp [parseFancyComparison, Fancy.toks, bind_run, mac_cons, isKind, isAnyKind, ht, pure_run, Fancy.op]
  | greater =>
    simp [parseFancyComparison, Fancy.toks, bind_run, mac_cons, isKind, isAnyKind, ht, pure_run, Fancy.op,
      getBinaryOperator, ofOption_some, expectToken]
  | less =>
    simp [parseFancyComparison, Fancy.toks, bind_run, mac_cons, isKind, isAnyKind, ht, pure_run, Fancy.op,
      getBinaryOperator, ofOption_some, expectToken]
  | greaterEq =>
    simp [parseFancyComparison, Fancy.toks, bind_run, mac_cons, isKind, isAnyKind, ht, pure_run, Fancy.op,
      getBinaryOperator, ofOption_some, expectToken, expectAny]
  | lessEq =>
    simp [parseFancyComparison, Fancy.toks, bind_run, mac_cons, isKind, isAnyKind, ht, pure_run, Fancy.op,
      getBinaryOperator, ofOption_some, expectToken, expectAny]

theorem hrec_fancyLoop (n : Nat) (e : Expr N) :
    (parser (n + 1) : Rec N).fancyLoop e = fancyLoopBody (parser n) e := rfl

omit [CharOps] in
theorem fancy_toks_len (f : Fancy) (c : Choices N) : (f.toks c).length ≤ 3 := by
  cases f <;> simp [Fancy.toks]

theorem links_run : ∀ (links : List (Fancy × Term N)) (t0 : Term N) (c : Choices N) (n : Nat)
    (rest : List (Tok N)) (src last eof) (b : Bool) (e : Expr N),
    wfLinks b links = true → (linksToks links c).length ≤ n →
    nextIn (comparisonLay (N := N)).forbidden rest = false →
    (termSyn.edgeCall (lastTerm t0 links) = true → nextIn argSeps rest = false) →
    (b = false → termSyn.edgeList (lastTerm t0 links) = true → nextIn [.comma] rest = false) →
    fancyLoopBody (parser n) e ⟨src, linksToks links c ++ rest, last, eof, b⟩
      = .ok (foldLinksR e links c, ⟨src, rest, lastSnap (linksToks links c) last, eof, b⟩) := by
  intro links
  induction links with
  | nil =>
    intro t0 c n rest src last eof b e _ _ h1 _ _
    have h1' : nextIn isOperators rest = false := nextIn_sub h1 (by rw [comparison_forb]; decide)
    simp [linksToks, fancyLoopBody, bind_run, mac_stop_any h1', pure_run, foldLinksR]
  | cons ft r ih =>
    intro t0 c n rest src last eof b e hw hn h1 h2 h3
    obtain ⟨f, t⟩ := ft
    simp only [wfLinks, Bool.and_eq_true] at hw
    obtain ⟨⟨hwt, hnot⟩, hwr⟩ := hw
    simp only [linksToks, List.length_cons, List.length_append] at hn
    cases n with
    | zero => omega
    | succ n =>
      have hstop : termSyn.Stop b t (linksToks r (c.sub 3) ++ rest) := by
        cases r with
        | nil =>
          exact ⟨by simpa [linksToks] using nextIn_sub h1 (by rw [comparison_forb, ← termLay_toSyn, term_forb]; decide),
            by simpa [linksToks, lastTerm] using h2, by simpa [linksToks, lastTerm] using h3⟩
        | cons ft' r' =>
          obtain ⟨f', t'⟩ := ft'
          simpa [linksToks] using term_stop_is b t _ _ _
      have hf := fun last e => fancy_run f t (c.sub 1) (c.sub 2) (n + 1) (linksToks r (c.sub 3) ++ rest)
        src last eof b e hwt hnot (by omega) hstop
      have hr := fun last e => ih t (c.sub 3) n rest src last eof b e hwr (by omega) h1
        (by simpa [lastTerm] using h2) (by simpa [lastTerm] using h3)
      rw [fancyLoopBody]
      simp [linksToks, bind_run, mac_cons, is_tok_any, hf, hrec_fancyLoop, hr, foldLinksR]

omit [CharOps] in
theorem cmp_kinds_ok : ∀ op ∈ comparisonOps, ∀ kd ∈ opKinds op,
    kd ∉ [TK.word, .taking, .at, .multiply, .divide, .plus, .with_, .minus] ∧ kd ∉ isOperators := by
  decide

omit [CharOps] in
theorem cmp_ne_eq {op : BinOp} (hm : op ∈ comparisonOps) : op ≠ .eq := by
  intro h; subst h; simp [comparisonOps] at hm

theorem comparison_ok : LayOK (N := N) .logical comparisonLay := by
  refine ⟨?_, ?_, by rw [comparison_forb]; decide⟩
  · intro x c n rest src last eof b hw hn hs
    obtain ⟨head, tail⟩ := x
    obtain ⟨hs1, hs2, hs3⟩ := hs
    have hforbT : nextIn (termSyn (N := N)).forbidden rest = false :=
      nextIn_sub hs1 (by rw [comparison_forb, ← termLay_toSyn, term_forb]; decide)
    have hisR : nextIn isOperators rest = false := nextIn_sub hs1 (by rw [comparison_forb]; decide)
    cases tail with
    | chain links =>
      simp only [comparisonLay, comparisonSyn, Bool.and_eq_true] at hw hn hs2 hs3 ⊢
      simp only [List.length_append] at hn
      obtain ⟨hwh, hwl⟩ := hw
      have hstop : termSyn.Stop b head (linksToks links (c.sub 1) ++ rest) := by
        cases links with
        | nil =>
          exact ⟨by simpa [linksToks] using hforbT, by simpa [linksToks, lastTerm] using hs2,
            by simpa [linksToks, lastTerm] using hs3⟩
        | cons ft r =>
          obtain ⟨f, t⟩ := ft
          simpa [linksToks] using term_stop_is b head _ _ _
      have hh := term_run head (c.sub 0) n (linksToks links (c.sub 1) ++ rest) src last eof b hwh
        (by omega) hstop
      show parseComparison (parser n) _ = _
      cases links with
      | nil =>
        have hcmp : nextIn (opsOf .comparison) rest = false :=
          nextIn_sub hs1 (by rw [comparison_forb]; decide)
        simp only [linksToks, List.append_nil, List.nil_append] at hh ⊢
        simp [parseComparison, bind_run, hh, mac_stop_any hisR, binLoopBody, mac_stop_any hcmp, pure_run,
          foldLinksR]
      | cons ft r =>
        obtain ⟨f, t⟩ := ft
        simp only [wfLinks, Bool.and_eq_true] at hwl
        obtain ⟨⟨hwt, hnot⟩, hwr⟩ := hwl
        simp only [linksToks, List.length_cons, List.length_append] at hn
        have hstopt : termSyn.Stop b t (linksToks r ((c.sub 1).sub 3) ++ rest) := by
          cases r with
          | nil =>
            exact ⟨by simpa [linksToks] using hforbT, by simpa [linksToks, lastTerm] using hs2,
              by simpa [linksToks, lastTerm] using hs3⟩
          | cons ft' r' =>
            obtain ⟨f', t'⟩ := ft'
            simpa [linksToks] using term_stop_is b t _ _ _
        have hf := fun last e => fancy_run f t ((c.sub 1).sub 1) ((c.sub 1).sub 2) n
          (linksToks r ((c.sub 1).sub 3) ++ rest) src last eof b e hwt hnot (by omega) hstopt
        have hr := fun last e => links_run r t ((c.sub 1).sub 3) n rest src last eof b e hwr (by omega)
          hs1 (by simpa [lastTerm] using hs2) (by simpa [lastTerm] using hs3)
        simp only [linksToks, List.cons_append, List.append_assoc] at hh ⊢
        simp [parseComparison, bind_run, hh, mac_cons, is_tok_any, hf, hr, foldLinksR]
    | spine os =>
      simp only [comparisonLay, comparisonSyn, Bool.and_eq_true] at hw hn hs2 hs3 ⊢
      simp only [List.length_append] at hn
      obtain ⟨hwh, hwo⟩ := hw
      have hforb' : ∀ op ∈ comparisonOps, ∀ k, opKind op k ∉ (termLay (N := N)).forbidden :=
        fun op hm k => by
          rw [term_forb]
          exact (cmp_kinds_ok op hm _ (opKind_mem op k (cmp_ne_eq hm))).1
      have hstop_is : termSyn.Stop b head (opsToks termSyn os (c.sub 1) ++ rest) ∧
          nextIn isOperators (opsToks termSyn os (c.sub 1) ++ rest) = false := by
        cases os with
        | nil =>
          exact ⟨⟨by simpa [opsToks] using hforbT, by simpa [opsToks, opsEdgeCall] using hs2,
            by simpa [opsToks] using hs3⟩, by simpa [opsToks] using hisR⟩
        | cons ol r =>
          obtain ⟨op, l⟩ := ol
          simp only [wfOps, Bool.and_eq_true, List.contains_eq_mem, decide_eq_true_eq] at hwo
          obtain ⟨⟨⟨hmem, hprev⟩, _⟩, _⟩ := hwo
          have := stop_before_op (termLay (N := N)).toSyn comparisonOps hforb' op hmem
            (termSyn.edgeCall head) hprev
            (tk (.kw (opKind op ((c.sub 1).sub 0).choice)) ((c.sub 1).sub 0)) _ rfl
            (OpList.toks termSyn l ((c.sub 1).sub 1) ++ opsToks termSyn r ((c.sub 1).sub 2) ++ rest)
          simp only [opsToks, List.cons_append, List.append_assoc] at this ⊢
          refine ⟨⟨this.1, this.2.1, fun _ _ => this.2.2⟩, ?_⟩
          simp only [nextIn_cons, tk_kw_kind, List.contains_eq_mem, decide_eq_false_iff_not]
          exact (cmp_kinds_ok op hmem _ (opKind_mem op _ (cmp_ne_eq hmem))).2
      have hh := term_run head (c.sub 0) n (opsToks termSyn os (c.sub 1) ++ rest) src last eof b hwh
        (by omega) hstop_is.1
      have ho := fun last e => ops_run term_ok comparisonOps rfl (by decide) hforb' os (c.sub 1) n rest
        src last eof b (termSyn.edgeCall head) e hwo (by rw [termLay_toSyn]; omega)
        (nextIn_sub hs1 (by rw [comparison_forb, term_forb]; decide)) hs2
        (fun hb hne => hs3 hb (by cases os with
          | nil => exact absurd rfl hne
          | cons _ _ => rfl))
      show parseComparison (parser n) _ = _
      simp only [termLay_toSyn, operandOf] at ho
      simp [parseComparison, bind_run, hh, mac_stop_any hstop_is.2, ho]
  · intro x c
    obtain ⟨t, ts, h1, h2, h3⟩ := term_heads x.head (c.sub 0)
    exact ⟨t, _, by simp only [comparisonLay, comparisonSyn, h1, List.cons_append]; rfl, h2, h3⟩

/-! ### logical = expression -/

def logicalLay : Lay N (Logical N) := spineLay comparisonLay [.and, .or, .nor]

theorem logical_ok : LayOK (N := N) .toplevel logicalLay :=
  spine_ok comparison_ok [.and, .or, .nor] rfl (by decide) (by rw [comparison_forb]; decide)
    (fun _ => rfl) (by decide)

theorem logicalLay_toSyn : (logicalLay (N := N)).toSyn = logicalSyn := rfl

/-- the round trip for expressions, with the exact tree (ranges included) and the exact state -/
theorem expression_run (e : Expression N) (c : Choices N) (n : Nat) (rest : List (Tok N))
    (src last eof) (b : Bool)
    (hw : logicalSyn.wf b e = true) (hn : (unparse e c).length ≤ n) (hs : logicalSyn.Stop b e rest) :
    parseExpression (parser n) ⟨src, unparse e c ++ rest, last, eof, b⟩
      = .ok (logicalLay.ast e c, ⟨src, rest, lastSnap (unparse e c) last, eof, b⟩) :=
  logical_ok.runs e c n rest src last eof b hw hn hs

end Grammar
