/-
  Rrss.Lemmas.RoundTripSane — C02, parser half: every token the grammar emits carries the `after`
  snapshot of one of the template tokens, so `Choices.Sane` makes `current_loc` readable after ANY
  token of a header line (needed when the input ends right after a header: `if x<EOF>`).
-/
import Rrss.Lemmas.RoundTripBlock
namespace Rrss
namespace Grammar
open Parser

variable {N : Type}

/-- every token carries a readable lexer snapshot -/
def SaneToks (src : Str) (toks : List (Tok N)) : Prop := ∀ t ∈ toks, SnapOK src t.after

theorem saneToks_nil (src : Str) : SaneToks src ([] : List (Tok N)) := fun _ h => by cases h

theorem saneToks_cons {src : Str} {t : Tok N} {ts : List (Tok N)} (h1 : SnapOK src t.after)
    (h2 : SaneToks src ts) : SaneToks src (t :: ts) := by
  intro x hx
  rcases List.mem_cons.mp hx with h | h
  · subst h; exact h1
  · exact h2 x h

theorem saneToks_append {src : Str} {a b : List (Tok N)} (h1 : SaneToks src a) (h2 : SaneToks src b) :
    SaneToks src (a ++ b) := by
  intro x hx
  rcases List.mem_append.mp hx with h | h
  · exact h1 x h
  · exact h2 x h

theorem sane_tk {src : Str} {c : Choices N} (h : c.Sane src) (spec : TokSpec N) :
    SnapOK src (tk spec c).after := by
  rw [tk_after]; exact h []

theorem lastSnap_sane {src : Str} (toks : List (Tok N)) (l : Snap) (hl : SnapOK src l)
    (h : SaneToks src toks) : SnapOK src (lastSnap toks l) := by
  induction toks generalizing l with
  | nil => exact hl
  | cons t ts ih =>
    exact ih t.after (h t (List.mem_cons_self ..)) (fun x hx => h x (List.mem_cons_of_mem _ hx))

theorem sane1 {src : Str} {c : Choices N} (h : c.Sane src) (spec : TokSpec N) :
    SaneToks src [tk spec c] := saneToks_cons (sane_tk h _) (saneToks_nil _)

theorem words_sane {src : Str} (ws : List Str) (c : Choices N) (h : c.Sane src) :
    SaneToks src (wordsToks ws c) := by
  induction ws generalizing c with
  | nil => exact saneToks_nil _
  | cons w ws ih =>
    simp only [wordsToks]
    exact saneToks_cons (sane_tk (sane_sub h 0) _) (ih _ (sane_sub h 1))

theorem var_sane {src : Str} (v : VarSpec) (c : Choices N) (h : c.Sane src) : SaneToks src (v.toks c) := by
  cases v with
  | simple s => exact sane1 (sane_sub h 0) _
  | common pre w k => exact saneToks_cons (sane_tk (sane_sub h 0) _) (sane1 (sane_sub h 1) _)
  | proper w1 w2 ws => exact words_sane _ c h

theorem unops_sane {src : Str} (os : List UnOp) (c : Choices N) (h : c.Sane src) :
    SaneToks src (unopsToks os c) := by
  induction os generalizing c with
  | nil => exact saneToks_nil _
  | cons o os ih =>
    simp only [unopsToks]
    exact saneToks_cons (sane_tk (sane_sub h 0) _) (ih _ (sane_sub h 1))

theorem sep_sane {src : Str} (c : Choices N) (h : c.Sane src) : SaneToks src (sepToks c) := by
  unfold sepToks
  split <;> first
    | exact sane1 (sane_sub h 0) _
    | exact saneToks_cons (sane_tk (sane_sub h 0) _) (sane1 (sane_sub h 1) _)

mutual
theorem prim_sane {src : Str} : (p : Prim N) → ∀ (c : Choices N), c.Sane src → SaneToks src (p.toks c)
  | .pronoun, c, h => by simp only [Prim.toks]; exact sane1 (sane_sub h 0) _
  | .var v, c, h => by simp only [Prim.toks]; exact var_sane v _ (sane_sub h 0)
  | .lit l, c, h => by simp only [Prim.toks]; exact sane1 (sane_sub h 0) _
  | .call f a as, c, h => by
    simp only [Prim.toks]
    exact saneToks_append (var_sane f _ (sane_sub h 0)) (saneToks_cons (sane_tk (sane_sub h 1) _)
      (saneToks_append (unary_sane a _ (sane_sub h 2)) (args_sane as _ (sane_sub h 3))))
  | .pop p, c, h => by
    simp only [Prim.toks]
    exact saneToks_cons (sane_tk (sane_sub h 0) _) (primary_sane p _ (sane_sub h 1))
theorem primary_sane {src : Str} : (p : Primary N) → ∀ (c : Choices N), c.Sane src → SaneToks src (p.toks c)
  | .mk hd subs, c, h => by
    simp only [Primary.toks]
    exact saneToks_append (prim_sane hd _ (sane_sub h 0)) (subs_sane subs _ (sane_sub h 1))
theorem unary_sane {src : Str} : (u : Unary N) → ∀ (c : Choices N), c.Sane src → SaneToks src (u.toks c)
  | .mk ops p, c, h => by
    simp only [Unary.toks]
    exact saneToks_append (unops_sane ops _ (sane_sub h 0)) (primary_sane p _ (sane_sub h 1))
theorem args_sane {src : Str} : (as : List (Unary N)) → ∀ (c : Choices N), c.Sane src →
    SaneToks src (argsToks as c)
  | [], c, h => by simp only [argsToks]; exact saneToks_nil _
  | u :: us, c, h => by
    simp only [argsToks]
    exact saneToks_append (sep_sane _ (sane_sub h 0)) (saneToks_append (unary_sane u _ (sane_sub h 1))
      (args_sane us _ (sane_sub h 2)))
theorem subs_sane {src : Str} : (ss : List (Prim N)) → ∀ (c : Choices N), c.Sane src →
    SaneToks src (subsToks ss c)
  | [], c, h => by simp only [subsToks]; exact saneToks_nil _
  | s :: ss, c, h => by
    simp only [subsToks]
    exact saneToks_cons (sane_tk (sane_sub h 0) _) (saneToks_append (prim_sane s _ (sane_sub h 1))
      (subs_sane ss _ (sane_sub h 2)))
end

/-- the tokens of a syntactic category carry readable snapshots -/
def SynSane {α : Type} (L : Syn N α) : Prop :=
  ∀ (src : Str) (x : α) (c : Choices N), c.Sane src → SaneToks src (L.toks x c)

section generic
variable {α : Type} {L : Syn N α}

theorem comma_sane {src : Str} (c : Choices N) (h : c.Sane src) : SaneToks src (commaToks c) := by
  unfold commaToks
  refine saneToks_cons (sane_tk (sane_sub h 0) _) ?_
  split
  · exact sane1 (sane_sub h 1) _
  · exact saneToks_nil _

theorem rest_sane (H : SynSane L) {src : Str} (es : List α) (c : Choices N) (h : c.Sane src) :
    SaneToks src (restToks L es c) := by
  induction es generalizing c with
  | nil => exact saneToks_nil _
  | cons e es ih =>
    simp only [restToks]
    exact saneToks_append (comma_sane _ (sane_sub h 0)) (saneToks_append (H src e _ (sane_sub h 1))
      (ih _ (sane_sub h 2)))

theorem oplist_sane (H : SynSane L) {src : Str} (l : OpList α) (c : Choices N) (h : c.Sane src) :
    SaneToks src (OpList.toks L l c) := by
  simp only [OpList.toks]
  exact saneToks_append (H src _ _ (sane_sub h 0)) (rest_sane H _ _ (sane_sub h 1))

theorem ops_sane (H : SynSane L) {src : Str} (os : List (BinOp × OpList α)) (c : Choices N)
    (h : c.Sane src) : SaneToks src (opsToks L os c) := by
  induction os generalizing c with
  | nil => exact saneToks_nil _
  | cons ol r ih =>
    obtain ⟨op, l⟩ := ol
    simp only [opsToks]
    exact saneToks_cons (sane_tk (sane_sub h 0) _) (saneToks_append (oplist_sane H l _ (sane_sub h 1))
      (ih _ (sane_sub h 2)))

theorem spine_sane (H : SynSane L) (ops : List BinOp) : SynSane (spineSyn L ops) := by
  intro src s c h
  simp only [spineSyn]
  exact saneToks_append (H src _ _ (sane_sub h 0)) (ops_sane H _ _ (sane_sub h 1))

end generic

section
variable [CharOps]

theorem unarySyn_sane : SynSane (unarySyn (N := N)) := fun _ u c h => unary_sane u c h
theorem factorSyn_sane : SynSane (factorSyn (N := N)) := spine_sane unarySyn_sane _
theorem termSyn_sane : SynSane (termSyn (N := N)) := spine_sane factorSyn_sane _

omit [CharOps] in
theorem fancy_sane {src : Str} (f : Fancy) (c : Choices N) (h : c.Sane src) : SaneToks src (f.toks c) := by
  cases f <;> simp only [Fancy.toks] <;> first
    | exact saneToks_nil _
    | exact sane1 (sane_sub h 0) _
    | exact saneToks_cons (sane_tk (sane_sub h 0) _) (sane1 (sane_sub h 1) _)
    | exact saneToks_cons (sane_tk (sane_sub h 0) _) (saneToks_cons (sane_tk (sane_sub h 1) _)
        (sane1 (sane_sub h 2) _))

theorem links_sane {src : Str} (links : List (Fancy × Term N)) (c : Choices N) (h : c.Sane src) :
    SaneToks src (linksToks links c) := by
  induction links generalizing c with
  | nil => exact saneToks_nil _
  | cons ft r ih =>
    obtain ⟨f, t⟩ := ft
    simp only [linksToks]
    exact saneToks_cons (sane_tk (sane_sub h 0) _) (saneToks_append (fancy_sane f _ (sane_sub h 1))
      (saneToks_append (termSyn_sane src t _ (sane_sub h 2)) (ih _ (sane_sub h 3))))

theorem comparisonSyn_sane : SynSane (comparisonSyn (N := N)) := by
  intro src x c h
  obtain ⟨head, tail⟩ := x
  cases tail with
  | chain links =>
    exact saneToks_append (termSyn_sane src head _ (sane_sub h 0)) (links_sane links _ (sane_sub h 1))
  | spine os =>
    exact saneToks_append (termSyn_sane src head _ (sane_sub h 0)) (ops_sane termSyn_sane os _ (sane_sub h 1))

theorem logicalSyn_sane : SynSane (logicalSyn (N := N)) := spine_sane comparisonSyn_sane _

/-- after the last token of an expression `current_loc` is readable -/
theorem expr_last_sane {src : Str} (e : Expression N) (c : Choices N) (l : Snap) (h : c.Sane src)
    (hl : SnapOK src l) : SnapOK src (lastSnap (unparse e c) l) :=
  lastSnap_sane _ l hl (logicalSyn_sane src e c h)

end

theorem params_sane {src : Str} (ps : List VarSpec) (c : Choices N) (h : c.Sane src) :
    SaneToks src (paramsToks ps c) := by
  induction ps generalizing c with
  | nil => exact saneToks_nil _
  | cons v vs ih =>
    simp only [paramsToks]
    exact saneToks_append (sep_sane _ (sane_sub h 0)) (saneToks_append (var_sane v _ (sane_sub h 1))
      (ih _ (sane_sub h 2)))

theorem eolPunct_sane {src : Str} (e : Eol) (c : Choices N) (h : c.Sane src) :
    SaneToks src (eolPunct e c) := by
  cases e <;> simp only [eolPunct] <;> first
    | exact saneToks_nil _
    | exact sane1 (sane_sub h 0) _

end Grammar
end Rrss
