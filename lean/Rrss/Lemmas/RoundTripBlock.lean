/-
  Rrss.Lemmas.RoundTripBlock — C02, parser half: line ends, blocks, `if`/`else`, loops, functions.
-/
import Rrss.Lemmas.RoundTripPoetic
namespace Rrss
namespace Grammar
open Parser

variable {N : Type} [CharOps]

set_option linter.unusedSimpArgs false

/-! ### line ends -/

omit [CharOps] in
theorem expectEol_run (e : Eol) (c : Choices N) (rest : List (Tok N)) (src last eof b) :
    expectEol ⟨src, eolToks e c ++ rest, last, eof, b⟩
      = .ok ((), ⟨src, rest, lastSnap (eolToks e c) last, eof, b⟩) := by
  cases e <;>
    simp [expectEol, eolToks, bind_run, mac_cons, isAnyKind, expectTokenOrEnd, current_run, advance_cons,
      pure_run]

omit [CharOps] in
theorem expectEol_nl (c : Choices N) (rest : List (Tok N)) (src last eof b) :
    expectEol ⟨src, tk (.kw .newline) c :: rest, last, eof, b⟩
      = .ok ((), ⟨src, rest, (tk (.kw .newline) c : Tok N).after, eof, b⟩) := by
  simp [expectEol, bind_run, mac_cons, isAnyKind, expectTokenOrEnd, current_run, advance_cons, pure_run]

omit [CharOps] in
/-- the first token of a line end -/
theorem eol_head (e : Eol) (c : Choices N) : ∃ (k : TK) (c' : Choices N) (ts : List (Tok N)),
    eolToks e c = tk (.kw k) c' :: ts ∧
    ((k = TK.dot ∧ e = Eol.dot) ∨ k = TK.newline ∨ (k = TK.comma ∧ e = Eol.comma)) := by
  cases e with
  | none => exact ⟨TK.newline, c.sub 1, [], rfl, Or.inr (Or.inl rfl)⟩
  | dot => exact ⟨TK.dot, c.sub 0, _, rfl, Or.inl ⟨rfl, rfl⟩⟩
  | comma => exact ⟨TK.comma, c.sub 0, _, rfl, Or.inr (Or.inr ⟨rfl, rfl⟩)⟩

omit [CharOps] in
theorem sane_sub {c : Choices N} {src : Str} (h : c.Sane src) (i : Nat) : (c.sub i).Sane src :=
  fun q => h (i :: q)

/-- an expression may be followed by a line end -/
theorem expr_stop_eolkw (e : Expression N) (k : TK) (c' : Choices N) (ts : List (Tok N))
    (hk : k = .dot ∨ k = .newline ∨ (k = .comma ∧ e.commaOK = true)) :
    logicalSyn.Stop false e (tk (.kw k) c' :: ts) := by
  rcases hk with hk | hk | ⟨hk, hc⟩
  · subst hk; exact stop_kw e .dot (by rw [continuers_eq]; decide) _ _
  · subst hk; exact stop_kw e .newline (by rw [continuers_eq]; decide) _ _
  · subst hk
    simp only [Expression.commaOK, Bool.and_eq_true, Bool.not_eq_true'] at hc
    refine ⟨?_, by simp [hc.1], by simp [hc.2]⟩
    rw [← logicalLay_toSyn, logical_forb]
    simp [nextIn_cons]

omit [CharOps] in
theorem edgeStop_eolkw (ec : Bool) (k : TK) (c' : Choices N) (ts : List (Tok N))
    (hk : k = .dot ∨ k = .newline ∨ (k = .comma ∧ ec = false)) : EdgeStop ec (tk (.kw k) c' :: ts) := by
  rcases hk with hk | hk | ⟨hk, hc⟩
  · subst hk; exact edgeStop_kw _ .dot (by decide) _ _
  · subst hk; exact edgeStop_kw _ .newline (by decide) _ _
  · subst hk; subst hc
    exact ⟨by simp [nextIn_cons], by simp⟩

theorem listStop_eolkw (l : OpList (Expression N)) (k : TK) (c' : Choices N) (ts : List (Tok N))
    (hk : k = .dot ∨ k = .newline) : ListStop l (tk (.kw k) c' :: ts) := by
  refine ⟨?_, ?_, ?_⟩
  · rw [← logicalLay_toSyn, logical_forb]
    rcases hk with hk | hk <;> subst hk <;> simp [nextIn_cons]
  · intro _; rcases hk with hk | hk <;> subst hk <;> simp [nextIn_cons, argSeps]
  · rcases hk with hk | hk <;> subst hk <;> simp [nextIn_cons]

omit [CharOps] in
theorem nextIn_kw {ks : List TK} {k : TK} (hk : k ∉ ks) (c' : Choices N) (ts : List (Tok N)) :
    nextIn ks (tk (.kw k) c' :: ts) = false := by
  simpa [nextIn_cons] using hk

/-- a one-line statement may be followed by its line end -/
theorem simple_stop_eolkw (s : SimpleStmt N) (k : TK) (c' : Choices N) (ts : List (Tok N))
    (hk0 : (k = .dot ∧ s.dotOK = true) ∨ k = .newline ∨ (k = .comma ∧ s.commaOK = true))
    (hpeek : s.PeekStop (tk (.kw k) c' :: ts)) :
    s.Stop (tk (.kw k) c' :: ts) := by
  have hk : k = .dot ∨ k = .newline ∨ (k = .comma ∧ s.commaOK = true) := by
    rcases hk0 with h | h | h
    · exact Or.inl h.1
    · exact Or.inr (Or.inl h)
    · exact Or.inr (Or.inr h)
  have hdn : ∀ ks : List TK, TK.dot ∉ ks → TK.newline ∉ ks → (TK.comma ∉ ks ∨ s.commaOK = false) →
      nextIn ks (tk (.kw k) c' :: ts) = false := by
    intro ks h1 h2 h3
    rcases hk with hk | hk | ⟨hk, hc⟩
    · subst hk; exact nextIn_kw h1 _ _
    · subst hk; exact nextIn_kw h2 _ _
    · subst hk
      rcases h3 with h3 | h3
      · exact nextIn_kw h3 _ _
      · rw [h3] at hc; exact absurd hc (by decide)
  cases s with
  | say e => exact expr_stop_eolkw e k c' ts hk
  | put e t =>
    exact edgeStop_eolkw _ k c' ts (by
      rcases hk with hk | hk | ⟨hk, hc⟩
      · exact Or.inl hk
      · exact Or.inr (Or.inl hk)
      · exact Or.inr (Or.inr ⟨hk, by simpa [SimpleStmt.commaOK] using hc⟩))
  | letBe t op l =>
    exact listStop_eolkw l k c' ts (by
      rcases hk with hk | hk | ⟨hk, hc⟩
      · exact Or.inl hk
      · exact Or.inr hk
      · simp [SimpleStmt.commaOK] at hc)
  | build x m => exact hdn _ (by decide) (by decide) (Or.inr rfl)
  | knock x m => exact hdn _ (by decide) (by decide) (Or.inr rfl)
  | listen t =>
    cases t with
    | none => exact hdn _ (by decide) (by decide) (Or.inl (by decide))
    | some t =>
      exact edgeStop_eolkw _ k c' ts (by
        rcases hk with hk | hk | ⟨hk, hc⟩
        · exact Or.inl hk
        · exact Or.inr (Or.inl hk)
        · exact Or.inr (Or.inr ⟨hk, by simpa [SimpleStmt.commaOK] using hc⟩))
  | turn d e => exact ⟨expr_stop_eolkw e k c' ts hk, hdn _ (by decide) (by decide) (Or.inl (by decide))⟩
  | rock p vals =>
    cases vals with
    | none =>
      exact ⟨edgeStop_eolkw _ k c' ts (by
        rcases hk with hk | hk | ⟨hk, hc⟩
        · exact Or.inl hk
        · exact Or.inr (Or.inl hk)
        · exact Or.inr (Or.inr ⟨hk, by simpa [SimpleStmt.commaOK] using hc⟩)),
        hdn _ (by decide) (by decide) (Or.inl (by decide))⟩
    | some l =>
      exact listStop_eolkw l k c' ts (by
        rcases hk with hk | hk | ⟨hk, hc⟩
        · exact Or.inl hk
        · exact Or.inr hk
        · simp [SimpleStmt.commaOK] at hc)
  | roll p into =>
    cases into with
    | none =>
      exact ⟨edgeStop_eolkw _ k c' ts (by
        rcases hk with hk | hk | ⟨hk, hc⟩
        · exact Or.inl hk
        · exact Or.inr (Or.inl hk)
        · exact Or.inr (Or.inr ⟨hk, by simpa [SimpleStmt.commaOK] using hc⟩)),
        hdn _ (by decide) (by decide) (Or.inl (by decide))⟩
    | some t =>
      exact edgeStop_eolkw _ k c' ts (by
        rcases hk with hk | hk | ⟨hk, hc⟩
        · exact Or.inl hk
        · exact Or.inr (Or.inl hk)
        · exact Or.inr (Or.inr ⟨hk, by simpa [SimpleStmt.commaOK] using hc⟩))
  | ret kw e => exact ⟨expr_stop_eolkw e k c' ts hk, hdn _ (by decide) (by decide) (Or.inl (by decide))⟩
  | break_ it =>
    cases it with
    | none => exact hpeek
    | some it => trivial
  | continue_ itThe => trivial
  | mutation op p into param =>
    cases param with
    | some e => exact expr_stop_eolkw e k c' ts hk
    | none =>
      cases into with
      | some t =>
        exact ⟨edgeStop_eolkw _ k c' ts (by
          rcases hk with hk | hk | ⟨hk, hc⟩
          · exact Or.inl hk
          · exact Or.inr (Or.inl hk)
          · exact Or.inr (Or.inr ⟨hk, by simpa [SimpleStmt.commaOK] using hc⟩)),
          hdn _ (by decide) (by decide) (Or.inl (by decide))⟩
      | none =>
        exact ⟨edgeStop_eolkw _ k c' ts (by
          rcases hk with hk | hk | ⟨hk, hc⟩
          · exact Or.inl hk
          · exact Or.inr (Or.inl hk)
          · exact Or.inr (Or.inr ⟨hk, by simpa [SimpleStmt.commaOK] using hc⟩)),
          hdn _ (by decide) (by decide) (Or.inl (by decide))⟩
  | call f a as =>
    exact ⟨hdn _ (by decide) (by decide) (Or.inl (by decide)), hdn _ (by decide) (by decide) (Or.inr rfl)⟩
  | poeticLit t lit => exact hpeek
  | poeticExpr t e => exact expr_stop_eolkw e k c' ts hk
  | poeticStr t text junk =>
    rcases hk0 with h | h | h
    · simp [SimpleStmt.dotOK] at h
    · subst h; exact Or.inr rfl
    · simp [SimpleStmt.commaOK] at h
  | rockLike p lit => exact hpeek

/-! ### unfolding (the equation compiler gives no equation lemmas for these nested definitions) -/

def elseToks (e : Option (List (Statement N))) (c : Choices N) : List (Tok N) :=
  match e with
  | some b => tk (.kw .else_) (c.sub 4) :: tk (.kw .newline) (c.sub 5) :: blockToks b (c.sub 6)
  | none => []

/-- the tokens of a function body -/
def fnBlockToks (b : List (Statement N)) (c : Choices N) : List (Tok N) :=
  match b with
  | [] => [tk (.kw .newline) (c.sub 0)]
  | _ :: _ => fnLinesToks b c

theorem simple_toks (s : SimpleStmt N) (eol : Eol) (c : Choices N) :
    (Statement.simple s eol).toks c = s.toks c := rfl

theorem ifS_toks (cond : Expression N) (eol : Eol) (t : List (Statement N))
    (e : Option (List (Statement N))) (c : Choices N) :
    (Statement.ifS cond eol t e).toks c
      = tk (.kw .if_) (c.sub 0) :: (unparse cond (c.sub 1) ++ (eolToks eol (c.sub 2) ++
          (blockToks t (c.sub 3) ++ elseToks e c))) := by
  cases t <;> cases e <;> first | rfl | (rename_i b; cases b <;> rfl)

theorem whileS_toks (cond : Expression N) (eol : Eol) (b : List (Statement N)) (c : Choices N) :
    (Statement.whileS cond eol b).toks c
      = tk (.kw .while_) (c.sub 0) :: (unparse cond (c.sub 1) ++ (eolToks eol (c.sub 2) ++
          blockToks b (c.sub 3))) := by
  cases b <;> rfl

theorem untilS_toks (cond : Expression N) (eol : Eol) (b : List (Statement N)) (c : Choices N) :
    (Statement.untilS cond eol b).toks c
      = tk (.kw .until_) (c.sub 0) :: (unparse cond (c.sub 1) ++ (eolToks eol (c.sub 2) ++
          blockToks b (c.sub 3))) := by
  cases b <;> rfl

theorem func_toks (f p : VarSpec) (ps : List VarSpec) (eol : Eol) (b : List (Statement N)) (c : Choices N) :
    (Statement.func f p ps eol b).toks c
      = f.toks (c.sub 0) ++ tk (.kw .takes) (c.sub 1) :: (p.toks (c.sub 2) ++ (paramsToks ps (c.sub 3) ++
          (eolToks eol (c.sub 4) ++ fnBlockToks b (c.sub 5)))) := by
  cases b <;> rfl

theorem lines_cons (s : Statement N) (ss : List (Statement N)) (c : Choices N) :
    linesToks (s :: ss) c = s.toks (c.sub 0) ++ (s.eolToks (c.sub 1) ++ linesToks ss (c.sub 2)) := rfl

theorem lines_nil (c : Choices N) : linesToks ([] : List (Statement N)) c = [] := rfl

theorem fnLines_cons (s : Statement N) (ss : List (Statement N)) (c : Choices N) :
    fnLinesToks (s :: ss) c = s.toks (c.sub 0) ++ ((if ss.isEmpty && s.isIfElse then [] else
      s.eolToks (c.sub 1)) ++ fnLinesToks ss (c.sub 2)) := rfl

theorem fnLines_nil (c : Choices N) : fnLinesToks ([] : List (Statement N)) c = [] := rfl

theorem stmtsToStmt_cons (s : Statement N) (ss : List (Statement N)) :
    stmtsToStmt (s :: ss) = s.toStmt :: stmtsToStmt ss := rfl

theorem stmtsWf_cons (s : Statement N) (ss : List (Statement N)) :
    stmtsWf (s :: ss) = (s.wf && stmtsWf ss) := rfl

theorem simple_wf (s : SimpleStmt N) (eol : Eol) :
    (Statement.simple s eol).wf = (s.wf && ((eol != .comma || s.commaOK) && (eol != .dot || s.dotOK))) := rfl

/-! ### unfolding `Fits` -/

theorem simple_fits (src : Str) (s : SimpleStmt N) (eol : Eol) (c : Choices N) (rest : List (Tok N)) :
    (Statement.simple s eol).Fits src c rest = s.Fits src c rest := rfl

theorem ifS_fits (src : Str) (cond : Expression N) (eol : Eol) (t : List (Statement N))
    (e : Option (List (Statement N))) (c : Choices N) (rest : List (Tok N)) :
    (Statement.ifS cond eol t e).Fits src c rest = (linesFit src t (c.sub 3) ∧
      (match e with
       | some b => linesFit src b (c.sub 6)
       | none => True)) := by
  cases e <;> rfl

theorem whileS_fits (src : Str) (cond : Expression N) (eol : Eol) (b : List (Statement N)) (c : Choices N)
    (rest : List (Tok N)) : (Statement.whileS cond eol b).Fits src c rest = linesFit src b (c.sub 3) := rfl

theorem untilS_fits (src : Str) (cond : Expression N) (eol : Eol) (b : List (Statement N)) (c : Choices N)
    (rest : List (Tok N)) : (Statement.untilS cond eol b).Fits src c rest = linesFit src b (c.sub 3) := rfl

theorem func_fits (src : Str) (f p : VarSpec) (ps : List VarSpec) (eol : Eol) (b : List (Statement N))
    (c : Choices N) (rest : List (Tok N)) :
    (Statement.func f p ps eol b).Fits src c rest = fnLinesFit src b (c.sub 5) := rfl

theorem linesFit_cons (src : Str) (s : Statement N) (ss : List (Statement N)) (c : Choices N) :
    linesFit src (s :: ss) c = (s.Fits src (c.sub 0) (s.eolToks (c.sub 1)) ∧ s.EolOK (c.sub 1) ∧
      linesFit src ss (c.sub 2)) := rfl

theorem fnLinesFit_cons (src : Str) (s : Statement N) (ss : List (Statement N)) (c : Choices N) :
    fnLinesFit src (s :: ss) c = ((if ss.isEmpty && s.isIfElse then s.Fits src (c.sub 0) []
       else s.Fits src (c.sub 0) (s.eolToks (c.sub 1)) ∧ s.EolOK (c.sub 1)) ∧ fnLinesFit src ss (c.sub 2)) := rfl

omit [CharOps] in
theorem lineText_congr (src : Str) (start : Nat) {r r' : List (Tok N)} (h : r.head? = r'.head?) :
    lineText src start r = lineText src start r' := by
  cases r <;> cases r' <;> simp_all [lineText]

theorem simple_fits_congr (src : Str) (s : SimpleStmt N) (c : Choices N) {r r' : List (Tok N)}
    (h : r.head? = r'.head?) (hf : s.Fits src c r) : s.Fits src c r' := by
  cases s with
  | poeticStr t text junk =>
    simp only [SimpleStmt.Fits] at hf ⊢
    rw [← lineText_congr src _ h]; exact hf
  | _ => exact hf

theorem stmt_fits_congr (src : Str) (s : Statement N) (c : Choices N) {r r' : List (Tok N)}
    (h : r.head? = r'.head?) (hf : s.Fits src c r) : s.Fits src c r' := by
  cases s with
  | simple s eol => exact simple_fits_congr src s c h hf
  | ifS cond eol t e => rw [ifS_fits] at hf ⊢; exact hf
  | whileS cond eol b => exact hf
  | untilS cond eol b => exact hf
  | func f p ps eol b => exact hf

theorem stmt_fits_congr_compound (src : Str) (s : Statement N) (c : Choices N) (hie : s.isIfElse = true)
    {r r' : List (Tok N)} (hf : s.Fits src c r) : s.Fits src c r' := by
  cases s with
  | simple s eol => simp [Statement.isIfElse] at hie
  | ifS cond eol t e => rw [ifS_fits] at hf ⊢; exact hf
  | whileS cond eol b => exact hf
  | untilS cond eol b => exact hf
  | func f p ps eol b => exact hf

theorem ifS_wf (cond : Expression N) (eol : Eol) (t : List (Statement N)) (e : Option (List (Statement N))) :
    (Statement.ifS cond eol t e).wf = (cond.wf && (eol != .comma || cond.commaOK) && stmtsWf t &&
      (match e with
       | some b => stmtsWf b
       | none => true)) := by
  cases e <;> rfl

theorem whileS_wf (cond : Expression N) (eol : Eol) (b : List (Statement N)) :
    (Statement.whileS cond eol b).wf = (cond.wf && (eol != .comma || cond.commaOK) && stmtsWf b) := rfl

theorem untilS_wf (cond : Expression N) (eol : Eol) (b : List (Statement N)) :
    (Statement.untilS cond eol b).wf = (cond.wf && (eol != .comma || cond.commaOK) && stmtsWf b) := rfl

theorem func_wf (f p : VarSpec) (ps : List VarSpec) (eol : Eol) (b : List (Statement N)) :
    (Statement.func f p ps eol b).wf
      = (f.wf && p.wf && ps.all VarSpec.wf && eol != .comma && stmtsWf b && fnBodyOK b) := rfl

/-! ### heads of statements -/

/-- kinds a statement can start with -/
def stmtStarts : List TK :=
  [.say, .sayAlias, .put, .let_, .build, .knock, .listen, .turn, .rock, .roll, .return_, .break_,
   .continue_, .take, .cut, .join, .cast, .word, .commonPrefix, .pronoun, .if_, .while_, .until_]

omit [CharOps] in
theorem starts_not {k : TK} (h2 : stmtStarts.contains k = true) :
    [TK.newline].contains k = false ∧ [TK.else_].contains k = false := by
  revert h2
  cases k <;> simp [stmtStarts]

omit [CharOps] in
theorem target_head_stmt (t : Target N) (c : Choices N) (r : List (Tok N)) :
    ∃ t0 ts, t.toks c ++ r = t0 :: ts ∧ stmtStarts.contains t0.kind = true := by
  obtain ⟨t0, ts, h1, h2⟩ := id_head_kind t.id (c.sub 0)
  refine ⟨t0, ts ++ (subsToks t.subs (c.sub 1) ++ r), by simp [Target.toks, h1], ?_⟩
  rcases h2 with h | h | h <;> rw [h] <;> rfl

omit [CharOps] in
theorem var_head_stmt (v : VarSpec) (c : Choices N) :
    ∃ t ts, v.toks c = t :: ts ∧ stmtStarts.contains t.kind = true := by
  cases v with
  | simple s => exact ⟨_, _, rfl, rfl⟩
  | common pre w k => exact ⟨_, _, rfl, rfl⟩
  | proper w1 w2 ws => exact ⟨_, _, rfl, rfl⟩

theorem simple_head (s : SimpleStmt N) (c : Choices N) :
    ∃ t ts, s.toks c = t :: ts ∧ stmtStarts.contains t.kind = true := by
  cases s with
  | say e =>
    simp only [SimpleStmt.toks]
    split <;> exact ⟨_, _, rfl, rfl⟩
  | put e t => exact ⟨_, _, rfl, rfl⟩
  | letBe t op l => exact ⟨_, _, rfl, rfl⟩
  | build x m => exact ⟨_, _, rfl, rfl⟩
  | knock x m => exact ⟨_, _, rfl, rfl⟩
  | listen t => cases t <;> exact ⟨_, _, rfl, rfl⟩
  | turn d e =>
    simp only [SimpleStmt.toks]
    split <;> exact ⟨_, _, rfl, rfl⟩
  | rock p vals => cases vals <;> exact ⟨_, _, rfl, rfl⟩
  | roll p into => cases into <;> exact ⟨_, _, rfl, rfl⟩
  | ret kw e => exact ⟨_, _, rfl, rfl⟩
  | break_ it => cases it <;> exact ⟨_, _, rfl, rfl⟩
  | continue_ itThe =>
    cases itThe with
    | none => exact ⟨_, _, rfl, rfl⟩
    | some p => obtain ⟨a, b⟩ := p; exact ⟨_, _, rfl, rfl⟩
  | mutation op p into param => cases op <;> exact ⟨_, _, rfl, rfl⟩
  | call f a as =>
    obtain ⟨t, ts, h1, h2⟩ := var_head_stmt f (c.sub 0)
    exact ⟨t, _, by simp only [SimpleStmt.toks, h1, List.cons_append]; rfl, h2⟩
  | poeticLit t lit => exact target_head_stmt t (c.sub 0) _
  | poeticExpr t e => exact target_head_stmt t (c.sub 0) _
  | poeticStr t text junk => exact target_head_stmt t (c.sub 0) _
  | rockLike p lit => exact ⟨_, _, rfl, rfl⟩

theorem stmt_head (s : Statement N) (c : Choices N) :
    ∃ t ts, s.toks c = t :: ts ∧ stmtStarts.contains t.kind = true := by
  cases s with
  | simple s eol => simpa [simple_toks] using simple_head s c
  | ifS cond eol t e => exact ⟨_, _, ifS_toks .., rfl⟩
  | whileS cond eol b => exact ⟨_, _, whileS_toks .., rfl⟩
  | untilS cond eol b => exact ⟨_, _, untilS_toks .., rfl⟩
  | func f p ps eol b =>
    obtain ⟨t, ts, h1, h2⟩ := var_head_stmt f (c.sub 0)
    exact ⟨t, _, by rw [func_toks, h1, List.cons_append], h2⟩

theorem lines_not_nl (s : Statement N) (ss : List (Statement N)) (c : Choices N) (r : List (Tok N)) :
    nextIn [.newline] (linesToks (s :: ss) c ++ r) = false := by
  obtain ⟨t, ts, h1, h2⟩ := stmt_head s (c.sub 0)
  rw [lines_cons, h1]
  simp only [List.cons_append, nextIn_cons]
  exact (starts_not h2).1

/-! ### parameter lists -/

def paramsR : List VarSpec → Choices N → List (VarName × Range)
  | [], _ => []
  | v :: vs, c => (v.toName, v.range (c.sub 1)) :: paramsR vs (c.sub 2)

theorem expectVar_run (v : VarSpec) (c : Choices N) (n : Nat) (rest : List (Tok N)) (src last eof b)
    (hw : v.wf = true) (hn : (v.toks c).length ≤ n) (hr : nextIn [.word] rest = false) :
    expectVariableName (parser n) ⟨src, v.toks c ++ rest, last, eof, b⟩
      = .ok ((v.toName, v.range c), ⟨src, rest, lastSnap (v.toks c) last, eof, b⟩) := by
  simp [expectVariableName, bind_run, var_run v c n rest src last eof b hw hn hr, pure_run]

theorem hrec_params (n : Nat) : (parser (n + 1) : Rec N).paramsLoop
    = paramLoopBody (expectVariableName (parser n)) (parser n).paramsLoop false := rfl

theorem params_run : ∀ (ps : List VarSpec) (c : Choices N) (n : Nat) (rest : List (Tok N)) (src last eof b),
    ps.all VarSpec.wf = true → (paramsToks ps c).length ≤ n → nextIn (.word :: argSeps) rest = false →
    paramLoopBody (expectVariableName (parser n)) (parser n : Rec N).paramsLoop false
        ⟨src, paramsToks ps c ++ rest, last, eof, b⟩
      = .ok (paramsR ps c, ⟨src, rest, lastSnap (paramsToks ps c) last, eof, b⟩) := by
  intro ps
  induction ps with
  | nil =>
    intro c n rest src last eof b _ _ hr
    have h2 : nextIn (parameterSeps false) rest = false := nextIn_sub hr (by decide)
    simp [paramsToks, paramLoopBody, bind_run, mac_stop_any h2, pure_run, paramsR]
  | cons v vs ih =>
    intro c n rest src last eof b hw hn hr
    simp only [List.all_cons, Bool.and_eq_true] at hw
    simp only [paramsToks, List.length_append] at hn
    have hl := sep_len (c.sub 0)
    cases n with
    | zero => omega
    | succ n =>
      have hnext : nextIn [.word] (paramsToks vs (c.sub 2) ++ rest) = false := by
        cases vs with
        | nil => simpa [paramsToks] using nextIn_sub hr (ks' := [.word]) (by decide)
        | cons v' vs' =>
          simp only [paramsToks, List.append_assoc]
          exact nextIn_of_head (sep_head _) (by decide)
      have hv := fun last => expectVar_run v (c.sub 1) (n + 1) (paramsToks vs (c.sub 2) ++ rest) src last
        eof b hw.1 (by omega) hnext
      have hvs := fun last => ih (c.sub 2) n rest src last eof b hw.2 (by omega) hr
      have hand : nextIn [.and] (v.toks (c.sub 1) ++ (paramsToks vs (c.sub 2) ++ rest)) = false :=
        nextIn_of_head (var_head v _) (by decide)
      rw [paramLoopBody]
      simp only [paramsToks, List.append_assoc]
      unfold sepToks
      split <;>
        simp [bind_run, mac_cons, isAnyKind, isKind, parameterSeps, mac_stop_kind hand, hv, hrec_params,
          hvs, pure_run, paramsR]

/-! ### blocks from their lines -/

omit [CharOps] in
theorem eol_last (e : Eol) (c : Choices N) (l : Snap) : lastSnap (eolToks e c) l = (c.sub 1).here.after := by
  cases e <;> simp [eolToks]

/-- the statements of a block are parsed: the conclusion of `lines_run` -/
def LinesRun (ls : List (Statement N)) (c : Choices N) (n : Nat) (rest : List (Tok N)) (src : Str)
    (eof : Snap) : Prop :=
  ∀ last, ∃ ss', stmtLoopBody (parser n) ⟨src, linesToks ls c ++ rest, last, eof, false⟩
      = .ok (ss', ⟨src, rest, lastSnap (linesToks ls c) last, eof, false⟩) ∧
    eraseSL ss' = stmtsToStmt ls

theorem block_run (b : List (Statement N)) (c : Choices N) (n : Nat) (rest : List (Tok N)) (src last eof)
    (hlast : SnapOK src last) (hlines : LinesRun b c n rest src eof) :
    ∃ B, parseBlock (parser n) ⟨src, blockToks b c ++ rest, last, eof, false⟩
        = .ok (B, ⟨src, rest, lastSnap (blockToks b c) last, eof, false⟩) ∧
      eraseB B = .mk default (stmtsToStmt b) := by
  cases b with
  | nil =>
    refine ⟨.mk ⟨last.line, last.idx - last.lineStart⟩ [], ?_, rfl⟩
    simp [blockToks, parseBlock, bind_run, currentLoc_ok _ _ _ _ _ hlast, mac_cons, isKind, pure_run]
  | cons s ss =>
    obtain ⟨ss', h1, h2⟩ := hlines last
    refine ⟨.mk ⟨last.line, last.idx - last.lineStart⟩ ss', ?_, by simp [eraseB, h2]⟩
    simp only [blockToks]
    simp [parseBlock, bind_run, currentLoc_ok _ _ _ _ _ hlast, mac_stop_kind (lines_not_nl s ss c rest), h1,
      pure_run]

def FnLinesRun (ls : List (Statement N)) (c : Choices N) (n : Nat) (rest : List (Tok N)) (src : Str)
    (eof : Snap) : Prop :=
  ∀ last, ∃ ss' last', fnStmtLoopBody (parser n) ⟨src, fnLinesToks ls c ++ rest, last, eof, false⟩
      = .ok (ss', ⟨src, rest, last', eof, false⟩) ∧
    (rest ≠ [] → last' = lastSnap (fnLinesToks ls c) last) ∧ eraseSL ss' = stmtsToStmt ls

theorem fnLines_not_nl (s : Statement N) (ss : List (Statement N)) (c : Choices N) (r : List (Tok N)) :
    nextIn [.newline] (fnLinesToks (s :: ss) c ++ r) = false := by
  have := lines_not_nl s [] c r
  obtain ⟨t, ts, h1, _⟩ := stmt_head s (c.sub 0)
  rw [lines_cons, h1] at this
  rw [fnLines_cons, h1]
  simpa [nextIn_cons] using this

theorem fnblock_run (b : List (Statement N)) (c : Choices N) (n : Nat) (rest : List (Tok N)) (src last eof)
    (hlast : SnapOK src last) (hlines : FnLinesRun b c n rest src eof) :
    ∃ B last', parseFunctionBlock (parser n) ⟨src, fnBlockToks b c ++ rest, last, eof, false⟩
        = .ok (B, ⟨src, rest, last', eof, false⟩) ∧
      (rest ≠ [] → last' = lastSnap (fnBlockToks b c) last) ∧
      eraseB B = .mk default (stmtsToStmt b) := by
  cases b with
  | nil =>
    refine ⟨.mk ⟨last.line, last.idx - last.lineStart⟩ [], _, ?_, fun _ => rfl, rfl⟩
    simp [fnBlockToks, parseFunctionBlock, bind_run, currentLoc_ok _ _ _ _ _ hlast, mac_cons, isKind, pure_run]
  | cons s ss =>
    obtain ⟨ss', last', h1, hl, h2⟩ := hlines last
    refine ⟨.mk ⟨last.line, last.idx - last.lineStart⟩ ss', last', ?_, hl, by simp [eraseB, h2]⟩
    simp only [fnBlockToks]
    simp [parseFunctionBlock, bind_run, currentLoc_ok _ _ _ _ _ hlast,
      mac_stop_kind (fnLines_not_nl s ss c rest), h1, pure_run]

/-! ### the end of a function body -/

omit [CharOps] in
theorem isFunctionTerminator_erase (s : Stmt N) : isFunctionTerminator (eraseS s) = isFunctionTerminator s := by
  cases s with
  | ifS cnd t e => cases e <;> rfl
  | poeticNum d r => cases r <;> rfl
  | push a v =>
    cases v with
    | none => rfl
    | some r => cases r <;> rfl
  | _ => rfl

theorem isFunctionTerminator_toStmt (s : Statement N) : isFunctionTerminator s.toStmt = s.isIfElse := by
  cases s with
  | simple s eol => cases s <;> rfl
  | ifS cond eol t e => cases e <;> rfl
  | whileS cond eol b => rfl
  | untilS cond eol b => rfl
  | func f p ps eol b => rfl

/-! ### line ends of statements -/

omit [CharOps] in
theorem expectEol_stmt (s : Statement N) (c : Choices N) (rest : List (Tok N)) (src last eof b) :
    expectEol ⟨src, s.eolToks c ++ rest, last, eof, b⟩
      = .ok ((), ⟨src, rest, lastSnap (s.eolToks c) last, eof, b⟩) := by
  cases s with
  | simple s e => exact expectEol_run e c rest src last eof b
  | ifS cond eol t e => exact expectEol_nl (c.sub 1) rest src last eof b
  | whileS cond eol b' => exact expectEol_nl (c.sub 1) rest src last eof b
  | untilS cond eol b' => exact expectEol_nl (c.sub 1) rest src last eof b
  | func f p ps eol b' => exact expectEol_nl (c.sub 1) rest src last eof b

omit [CharOps] in
theorem stmt_eol_last (s : Statement N) (c : Choices N) (l : Snap) :
    lastSnap (s.eolToks c) l = (c.sub 1).here.after := by
  cases s with
  | simple s e => exact eol_last e c l
  | _ => rfl

omit [CharOps] in
theorem stmt_eol_head (s : Statement N) (c : Choices N) (r : List (Tok N)) :
    (s.eolToks c ++ r).head? = (s.eolToks c).head? := by
  cases s with
  | simple s e => cases e <;> rfl
  | _ => rfl

omit [CharOps] in
theorem stmt_eol_ne (s : Statement N) (c : Choices N) (r : List (Tok N)) : s.eolToks c ++ r ≠ [] := by
  cases s with
  | simple s e => cases e <;> simp [Statement.eolToks, eolToks]
  | _ => simp [Statement.eolToks]

theorem peekStop_congr (s : SimpleStmt N) {r r' : List (Tok N)} (h : r.head? = r'.head?)
    (hp : s.PeekStop r) : s.PeekStop r' := by
  cases s with
  | break_ it =>
    cases it with
    | none => intro t ht; exact hp t (h ▸ ht)
    | some it => trivial
  | poeticLit t lit => intro t ht; exact hp t (h ▸ ht)
  | rockLike p lit => intro t ht; exact hp t (h ▸ ht)
  | _ => trivial

/-- the side conditions of a line end, from the well-formedness of the line -/
theorem eol_kind_ok (s : SimpleStmt N) (e : Eol) (k : TK) (hw : (Statement.simple s e).wf = true)
    (h2 : (k = TK.dot ∧ e = Eol.dot) ∨ k = TK.newline ∨ (k = TK.comma ∧ e = Eol.comma)) :
    (k = .dot ∧ s.dotOK = true) ∨ k = .newline ∨ (k = .comma ∧ s.commaOK = true) := by
  rw [simple_wf] at hw
  simp only [Bool.and_eq_true, Bool.or_eq_true] at hw
  rcases h2 with ⟨h2, h2'⟩ | h2 | ⟨h2, h2'⟩
  · refine Or.inl ⟨h2, ?_⟩
    rcases hw.2.2 with h | h
    · subst h2'; simp at h
    · exact h
  · exact Or.inr (Or.inl h2)
  · refine Or.inr (Or.inr ⟨h2, ?_⟩)
    rcases hw.2.1 with h | h
    · subst h2'; simp at h
    · exact h

theorem stmt_stop_eol (s : Statement N) (c : Choices N) (r : List (Tok N)) (hw : s.wf = true)
    (hpk : s.EolOK c) : s.Stop (s.eolToks c ++ r) := by
  cases s with
  | simple s e =>
    obtain ⟨k, c', ts, h1, h2⟩ := eol_head e c
    have hpk' : s.PeekStop (eolToks e c) := hpk
    show s.Stop (eolToks e c ++ r)
    rw [h1] at hpk' ⊢
    exact simple_stop_eolkw s k c' (ts ++ r) (eol_kind_ok s e k hw h2)
      (peekStop_congr s (r := tk (.kw k) c' :: ts) (r' := tk (.kw k) c' :: (ts ++ r)) rfl hpk')
  | ifS cond eol t e => exact Or.inr rfl
  | whileS cond eol b => exact Or.inr rfl
  | untilS cond eol b => exact Or.inr rfl
  | func f p ps eol b => exact Or.inr rfl

/-! ### statements, blocks: the mutual induction -/

/-- the statement `s`, spelled with `c`, is parsed from its tokens (and nothing of `rest`) -/
def StRunsX (s : Statement N) (c : Choices N) (n : Nat) (rest : List (Tok N)) (src : Str)
    (last eof : Snap) : Prop :=
  ∃ s', parseStatement (parser n) ⟨src, s.toks c ++ rest, last, eof, false⟩
      = .ok (some s', ⟨src, rest, lastSnap (s.toks c) last, eof, false⟩) ∧ eraseS s' = s.toStmt

/-- … the lexer snapshot is known unless the statement ran into the end of the tokens -/
def StRuns (s : Statement N) (c : Choices N) (n : Nat) (rest : List (Tok N)) (src : Str)
    (last eof : Snap) : Prop :=
  ∃ s' last', parseStatement (parser n) ⟨src, s.toks c ++ rest, last, eof, false⟩
      = .ok (some s', ⟨src, rest, last', eof, false⟩) ∧
    (rest ≠ [] → last' = lastSnap (s.toks c) last) ∧ eraseS s' = s.toStmt

theorem StRunsX.weak {s : Statement N} {c : Choices N} {n : Nat} {rest : List (Tok N)} {src : Str}
    {last eof : Snap} (h : StRunsX s c n rest src last eof) : StRuns s c n rest src last eof := by
  obtain ⟨s', h1, h2⟩ := h
  exact ⟨s', _, h1, fun _ => rfl, h2⟩

theorem hrec_block (n : Nat) : (parser (n + 1) : Rec N).block = parseBlock (parser n) := rfl
theorem hrec_fnblock (n : Nat) : (parser (n + 1) : Rec N).functionBlock = parseFunctionBlock (parser n) := rfl
theorem hrec_stmtLoop (n : Nat) : (parser (n + 1) : Rec N).stmtLoop = stmtLoopBody (parser n) := rfl
theorem hrec_fnStmtLoop (n : Nat) : (parser (n + 1) : Rec N).fnStmtLoop = fnStmtLoopBody (parser n) := rfl

theorem cond_stop (cond : Expression N) (eol : Eol) (c2 : Choices N) (r : List (Tok N))
    (hok : (eol != .comma || cond.commaOK) = true) :
    logicalSyn.Stop false cond (eolToks eol c2 ++ r) := by
  obtain ⟨k, c', ts, h1, h2⟩ := eol_head eol c2
  rw [h1]
  refine expr_stop_eolkw cond k c' (ts ++ r) ?_
  rcases h2 with ⟨h2, _⟩ | h2 | ⟨h2, h2'⟩
  · exact Or.inl h2
  · exact Or.inr (Or.inl h2)
  · refine Or.inr (Or.inr ⟨h2, ?_⟩)
    subst h2'
    simpa using hok

theorem lines_len_le_block (t : List (Statement N)) (c : Choices N) :
    (linesToks t c).length ≤ (blockToks t c).length := by
  cases t with
  | nil => simp [lines_nil]
  | cons s ss => simp [blockToks]

theorem fnLines_len_le_block (t : List (Statement N)) (c : Choices N) :
    (fnLinesToks t c).length ≤ (fnBlockToks t c).length := by
  cases t with
  | nil => simp [fnLines_nil]
  | cons s ss => simp [fnBlockToks]

omit [CharOps] in
theorem lineEnd_no_else {rest : List (Tok N)} (h : LineEnd rest) : nextIn [.else_] rest = false := by
  rcases h with h | h
  · subst h; rfl
  · cases rest with
    | nil => rfl
    | cons t ts =>
      simp only [nextIn_cons, List.contains_cons, List.contains_nil, Bool.or_false, beq_iff_eq] at h ⊢
      rw [h]; rfl

omit [CharOps] in
theorem lineEnd_blockEnd {rest : List (Tok N)} (h : LineEnd rest) : BlockEnd rest := by
  rcases h with h | h
  · exact Or.inl h
  · cases rest with
    | nil => exact Or.inl rfl
    | cons t ts =>
      simp only [nextIn_cons, List.contains_cons, List.contains_nil, Bool.or_false, beq_iff_eq] at h
      exact Or.inr (by simp [nextIn_cons, h])

/-- at the end of a block `parse_statement` answers `None` without consuming -/
theorem stmt_none {rest : List (Tok N)} (h : BlockEnd rest) (rec : Rec N) (src last eof b) :
    parseStatement rec ⟨src, rest, last, eof, b⟩ = .ok (none, ⟨src, rest, last, eof, b⟩) := by
  rcases h with h | h
  · subst h; rfl
  · cases rest with
    | nil => rfl
    | cons t ts =>
      simp only [nextIn_cons, List.contains_cons, List.contains_nil, Bool.or_false, Bool.or_eq_true,
        beq_iff_eq] at h
      rcases h with h | h <;> simp [parseStatement, current_run, bind_run, h, pure_run]

omit [CharOps] in
theorem paramsR_erase (ps : List VarSpec) (c : Choices N) :
    (paramsR ps c).map (fun p => (p.1, (default : Range))) = ps.map fun v => (v.toName, default) := by
  induction ps generalizing c with
  | nil => rfl
  | cons v vs ih => simp [paramsR, ih]

omit [CharOps] in
theorem fnBodyOK_tail {s : Statement N} {ss : List (Statement N)} (h : fnBodyOK (s :: ss) = true) :
    fnBodyOK ss = true ∧ (ss ≠ [] → s.isIfElse = false) := by
  cases ss with
  | nil => exact ⟨rfl, fun h => absurd rfl h⟩
  | cons s' ss' =>
    simp only [fnBodyOK, Bool.and_eq_true, Bool.not_eq_true'] at h
    exact ⟨h.2, fun _ => h.1⟩

theorem isIfElse_stop {s : Statement N} (h : s.isIfElse = true) {rest : List (Tok N)} (hle : LineEnd rest) :
    s.Stop rest := by
  cases s with
  | simple s eol => simp [Statement.isIfElse] at h
  | ifS cond eol t e => exact hle
  | whileS cond eol b => exact hle
  | untilS cond eol b => exact hle
  | func f p ps eol b => exact hle

theorem loop_dispatch (isWhile : Bool) (c0 : Choices N) (ts : List (Tok N)) (rec : Rec N) (src last eof b) :
    parseStatement rec ⟨src, tk (.kw (if isWhile then TK.while_ else TK.until_)) c0 :: ts, last, eof, b⟩
      = (some <$> parseLoop rec (if isWhile then TK.while_ else TK.until_))
          ⟨src, tk (.kw (if isWhile then TK.while_ else TK.until_)) c0 :: ts, last, eof, b⟩ := by
  cases isWhile <;> simp [parseStatement, current_run, bind_run]

mutual
theorem stmt_run : (s : Statement N) → ∀ (c : Choices N) (n : Nat) (rest : List (Tok N)) (src last eof),
    s.wf = true → (s.toks c).length ≤ n → s.Stop rest → c.Sane src → s.Fits src c rest →
    StRuns s c n rest src last eof
  | .simple s eol, c, n, rest, src, last, eof, hw, hn, hs, hsane, hfit => by
    rw [simple_wf, Bool.and_eq_true] at hw
    exact simple_run s c n rest src last eof hw.1 hn hs hsane hfit
  | .ifS cond eol t e, c, n, rest, src, last, eof, hw, hn, hs, hsane, hfit => by
    rw [ifS_wf] at hw
    simp only [Bool.and_eq_true] at hw
    obtain ⟨⟨⟨hwc, hok⟩, hwt⟩, hwe⟩ := hw
    rw [ifS_fits] at hfit
    obtain ⟨hfT, hfE⟩ := hfit
    apply StRunsX.weak
    unfold StRunsX
    rw [ifS_toks] at hn ⊢
    simp only [List.length_cons, List.length_append] at hn
    have hlt := lines_len_le_block t (c.sub 3)
    cases n with
    | zero => omega
    | succ n =>
      have hcs := cond_stop cond eol (c.sub 2) (blockToks t (c.sub 3) ++ (elseToks e c ++ rest)) hok
      have he := fun last => expression_run cond (c.sub 1) (n + 1) _ src last eof false hwc (by omega) hcs
      have heol := fun last => expectEol_run eol (c.sub 2) (blockToks t (c.sub 3) ++ (elseToks e c ++ rest))
        src last eof false
      have hbe : BlockEnd (elseToks e c ++ rest) := by
        cases e with
        | none => simpa [elseToks] using lineEnd_blockEnd hs
        | some b => exact Or.inr rfl
      have hlinesT : LinesRun t (c.sub 3) n (elseToks e c ++ rest) src eof := fun last =>
        lines_run t (c.sub 3) n _ src last eof hwt (by omega) hbe (sane_sub hsane 3) hfT
      obtain ⟨TB, hTB, hTs⟩ := block_run t (c.sub 3) n (elseToks e c ++ rest) src
        ((c.sub 2).sub 1).here.after eof (sane_here hsane [2, 1]) hlinesT
      cases e with
      | none =>
        simp only [elseToks, List.nil_append, List.append_nil] at hTB he heol ⊢
        refine ⟨.ifS (logicalLay.ast cond (c.sub 1)) TB none, ?_, ?_⟩
        · simp [parseStatement, current_run, map_run, parseIfStatement, bind_run, consume_cons, isKind, he,
            heol, eol_last, hrec_block, hTB, mac_stop_kind (lineEnd_no_else hs), pure_run]
        · simp only [eraseS, hTs, expr_shape]
          rfl
      | some b =>
        have hlb := lines_len_le_block b (c.sub 6)
        simp only [elseToks, List.length_cons] at hn
        have hlinesE : LinesRun b (c.sub 6) n rest src eof := fun last =>
          lines_run b (c.sub 6) n rest src last eof hwe (by omega) (lineEnd_blockEnd hs) (sane_sub hsane 6)
            hfE
        obtain ⟨EB, hEB, hEs⟩ := block_run b (c.sub 6) n rest src (c.sub 5).here.after eof
          (sane_here hsane [5]) hlinesE
        simp only [elseToks, List.cons_append, List.append_assoc] at hTB he heol ⊢
        refine ⟨.ifS (logicalLay.ast cond (c.sub 1)) TB (some EB), ?_, ?_⟩
        · simp [parseStatement, current_run, map_run, parseIfStatement, bind_run, consume_cons, isKind, he,
            heol, eol_last, hrec_block, hTB, mac_cons, expectTokenOrEnd, advance_cons, hEB, pure_run]
        · simp only [eraseS, hTs, hEs, expr_shape]
          rfl
  | .whileS cond eol b, c, n, rest, src, last, eof, hw, hn, hs, hsane, hfit => by
    rw [whileS_wf] at hw
    simp only [Bool.and_eq_true] at hw
    obtain ⟨⟨hwc, hok⟩, hwb⟩ := hw
    rw [whileS_fits] at hfit
    apply StRunsX.weak
    unfold StRunsX
    rw [whileS_toks] at hn ⊢
    simp only [List.length_cons, List.length_append] at hn
    have hlt := lines_len_le_block b (c.sub 3)
    cases n with
    | zero => omega
    | succ n =>
      have hcs := cond_stop cond eol (c.sub 2) (blockToks b (c.sub 3) ++ rest) hok
      have he := fun last => expression_run cond (c.sub 1) (n + 1) _ src last eof false hwc (by omega) hcs
      have heol := fun last => expectEol_run eol (c.sub 2) (blockToks b (c.sub 3) ++ rest) src last eof false
      have hlines : LinesRun b (c.sub 3) n rest src eof := fun last =>
        lines_run b (c.sub 3) n _ src last eof hwb (by omega) (lineEnd_blockEnd hs) (sane_sub hsane 3)
          hfit
      obtain ⟨B, hB, hBs⟩ := block_run b (c.sub 3) n rest src ((c.sub 2).sub 1).here.after eof
        (sane_here hsane [2, 1]) hlines
      refine ⟨.whileS (logicalLay.ast cond (c.sub 1)) B, ?_, ?_⟩
      · have hd := loop_dispatch true (c.sub 0) (unparse cond (c.sub 1) ++ (eolToks eol (c.sub 2) ++
          (blockToks b (c.sub 3) ++ rest))) (parser (n + 1)) src last eof false
        simp only [if_true, if_false, Bool.false_eq_true] at hd
        simp only [List.cons_append, List.append_assoc]
        rw [hd]
        simp [map_run, parseLoop, bind_run, consume_cons, isAnyKind, he, heol, eol_last, hrec_block, hB,
          pure_run]
      · simp only [eraseS, hBs, expr_shape]
        rfl
  | .untilS cond eol b, c, n, rest, src, last, eof, hw, hn, hs, hsane, hfit => by
    rw [untilS_wf] at hw
    simp only [Bool.and_eq_true] at hw
    obtain ⟨⟨hwc, hok⟩, hwb⟩ := hw
    rw [untilS_fits] at hfit
    apply StRunsX.weak
    unfold StRunsX
    rw [untilS_toks] at hn ⊢
    simp only [List.length_cons, List.length_append] at hn
    have hlt := lines_len_le_block b (c.sub 3)
    cases n with
    | zero => omega
    | succ n =>
      have hcs := cond_stop cond eol (c.sub 2) (blockToks b (c.sub 3) ++ rest) hok
      have he := fun last => expression_run cond (c.sub 1) (n + 1) _ src last eof false hwc (by omega) hcs
      have heol := fun last => expectEol_run eol (c.sub 2) (blockToks b (c.sub 3) ++ rest) src last eof false
      have hlines : LinesRun b (c.sub 3) n rest src eof := fun last =>
        lines_run b (c.sub 3) n _ src last eof hwb (by omega) (lineEnd_blockEnd hs) (sane_sub hsane 3)
          hfit
      obtain ⟨B, hB, hBs⟩ := block_run b (c.sub 3) n rest src ((c.sub 2).sub 1).here.after eof
        (sane_here hsane [2, 1]) hlines
      refine ⟨.untilS (logicalLay.ast cond (c.sub 1)) B, ?_, ?_⟩
      · have hd := loop_dispatch false (c.sub 0) (unparse cond (c.sub 1) ++ (eolToks eol (c.sub 2) ++
          (blockToks b (c.sub 3) ++ rest))) (parser (n + 1)) src last eof false
        simp only [if_true, if_false, Bool.false_eq_true] at hd
        simp only [List.cons_append, List.append_assoc]
        rw [hd]
        simp [map_run, parseLoop, bind_run, consume_cons, isAnyKind, he, heol, eol_last, hrec_block, hB,
          pure_run]
      · simp only [eraseS, hBs, expr_shape]
        rfl
  | .func f p ps eol b, c, n, rest, src, last, eof, hw, hn, hs, hsane, hfit => by
    rw [func_wf] at hw
    simp only [Bool.and_eq_true] at hw
    obtain ⟨⟨⟨⟨⟨hwf, hwp⟩, hwps⟩, heolc⟩, hwb⟩, hbody⟩ := hw
    rw [func_fits] at hfit
    unfold StRuns
    rw [func_toks] at hn ⊢
    simp only [List.length_cons, List.length_append] at hn
    have hlt := fnLines_len_le_block b (c.sub 5)
    have hfp := var_toks_pos f (c.sub 0)
    cases n with
    | zero => omega
    | succ n =>
      have heh : nextIn (.word :: argSeps) (eolToks eol (c.sub 4) ++ (fnBlockToks b (c.sub 5) ++ rest)) = false := by
        cases eol with
        | none => simp [eolToks, nextIn_cons, argSeps]
        | dot => simp [eolToks, nextIn_cons, argSeps]
        | comma => simp at heolc
      have hpnext : nextIn [.word] (paramsToks ps (c.sub 3) ++ (eolToks eol (c.sub 4) ++
          (fnBlockToks b (c.sub 5) ++ rest))) = false := by
        cases ps with
        | nil => simpa [paramsToks] using nextIn_sub heh (ks' := [.word]) (by decide)
        | cons v' vs' =>
          simp only [paramsToks, List.append_assoc]
          exact nextIn_of_head (sep_head _) (by decide)
      have hx := ident_run (.var f) c (n + 1)
        (tk (.kw .takes) (c.sub 1) :: (p.toks (c.sub 2) ++ (paramsToks ps (c.sub 3) ++
          (eolToks eol (c.sub 4) ++ (fnBlockToks b (c.sub 5) ++ rest))))) src last eof
        false hwf (by simpa [IdSpec.toks] using (by omega : (f.toks (c.sub 0)).length ≤ n + 1))
        (by simp [nextIn_cons])
      have hp := fun last => expectVar_run p (c.sub 2) (n + 1) (paramsToks ps (c.sub 3) ++
        (eolToks eol (c.sub 4) ++ (fnBlockToks b (c.sub 5) ++ rest))) src last eof false hwp (by omega) hpnext
      have hps := fun last => params_run ps (c.sub 3) (n + 1) (eolToks eol (c.sub 4) ++
        (fnBlockToks b (c.sub 5) ++ rest)) src last eof false hwps (by omega) heh
      have heol := fun last => expectEol_run eol (c.sub 4) (fnBlockToks b (c.sub 5) ++ rest) src last eof false
      have hfl : FnLinesRun b (c.sub 5) n rest src eof := fun last =>
        fnlines_run b (c.sub 5) n rest src last eof hwb hbody (by omega) hs (sane_sub hsane 5) hfit
      obtain ⟨B, lastB, hB, hlB, hBs⟩ := fnblock_run b (c.sub 5) n rest src ((c.sub 4).sub 1).here.after eof
        (sane_here hsane [4, 1]) hfl
      refine ⟨.func f.toName (f.range (c.sub 0)) ((p.toName, p.range (c.sub 2)) :: paramsR ps (c.sub 3)) B,
        lastB, ?_, ?_, ?_⟩
      · obtain ⟨t0, ts0, h1, h2⟩ := var_head_kind f (c.sub 0)
        simp only [IdSpec.toks, IdSpec.toIdent, IdSpec.range] at hx
        change expectIdentifier (parser (n + 1)) ⟨src, f.toks (c.sub 0) ++ _, last, eof, false⟩ = _ at hx
        simp only [List.append_assoc, List.cons_append]
        have hdisp : parseStatement (parser (n + 1)) ⟨src, f.toks (c.sub 0) ++ (tk (.kw .takes) (c.sub 1) ::
            (p.toks (c.sub 2) ++ (paramsToks ps (c.sub 3) ++ (eolToks eol (c.sub 4) ++
              (fnBlockToks b (c.sub 5) ++ rest))))), last, eof, false⟩
            = (some <$> parseStatementStartingWithWord (parser (n + 1))) ⟨src, f.toks (c.sub 0) ++
              (tk (.kw .takes) (c.sub 1) :: (p.toks (c.sub 2) ++ (paramsToks ps (c.sub 3) ++
                (eolToks eol (c.sub 4) ++ (fnBlockToks b (c.sub 5) ++ rest))))), last, eof, false⟩ := by
          rw [h1]
          rcases h2 with h2 | h2 <;>
            simp [parseStatement, current_run, bind_run, h2]
        rw [hdisp]
        simp [map_run, parseStatementStartingWithWord, bind_run, hx, current_run, asVariableName,
          parseFunction, consume_cons, isKind, parseParameterList, hp, hps, heol, eol_last, hrec_fnblock, hB,
          pure_run]
      · intro hne
        rw [hlB hne]
        simp [lastSnap_append, eol_last]
      · simp only [eraseS, hBs, List.map_cons, paramsR_erase]
        rfl
theorem lines_run : (ls : List (Statement N)) → ∀ (c : Choices N) (n : Nat) (rest : List (Tok N))
      (src last eof),
    stmtsWf ls = true → (linesToks ls c).length ≤ n → BlockEnd rest → c.Sane src → linesFit src ls c →
    ∃ ss', stmtLoopBody (parser n) ⟨src, linesToks ls c ++ rest, last, eof, false⟩
        = .ok (ss', ⟨src, rest, lastSnap (linesToks ls c) last, eof, false⟩) ∧
      eraseSL ss' = stmtsToStmt ls
  | [], c, n, rest, src, last, eof, _, _, hbe, _, _ => by
    refine ⟨[], ?_, rfl⟩
    simp [lines_nil, stmtLoopBody, bind_run, stmt_none hbe, pure_run]
  | s :: ss, c, n, rest, src, last, eof, hw, hn, hbe, hsane, hfit => by
    rw [stmtsWf_cons, Bool.and_eq_true] at hw
    rw [linesFit_cons] at hfit
    obtain ⟨hf1, hf2, hf3⟩ := hfit
    rw [lines_cons] at hn ⊢
    simp only [List.length_append] at hn
    obtain ⟨t0, ts0, hh, _⟩ := stmt_head s (c.sub 0)
    have hpos : 1 ≤ (s.toks (c.sub 0)).length := by simp [hh]
    cases n with
    | zero => omega
    | succ n =>
      obtain ⟨s', last', hs1, hl1, hs2⟩ := stmt_run s (c.sub 0) (n + 1)
        (s.eolToks (c.sub 1) ++ (linesToks ss (c.sub 2) ++ rest))
        src last eof hw.1 (by omega) (stmt_stop_eol s (c.sub 1) _ hw.1 hf2) (sane_sub hsane 0)
        (stmt_fits_congr src s _ (stmt_eol_head s _ _).symm hf1)
      have hl1' := hl1 (stmt_eol_ne s _ _)
      subst hl1'
      obtain ⟨ss', hss1, hss2⟩ := lines_run ss (c.sub 2) n rest src
        (lastSnap (s.eolToks (c.sub 1)) (lastSnap (s.toks (c.sub 0)) last)) eof hw.2 (by omega) hbe
        (sane_sub hsane 2) hf3
      refine ⟨s' :: ss', ?_, by simp [eraseSL, hs2, hss2, stmtsToStmt_cons]⟩
      simp only [List.append_assoc]
      rw [stmtLoopBody]
      simp [bind_run, hs1, expectEol_stmt, hrec_stmtLoop, hss1, pure_run]
theorem fnlines_run : (ls : List (Statement N)) → ∀ (c : Choices N) (n : Nat) (rest : List (Tok N))
      (src last eof),
    stmtsWf ls = true → fnBodyOK ls = true → (fnLinesToks ls c).length ≤ n → LineEnd rest →
    c.Sane src → fnLinesFit src ls c →
    ∃ ss' last', fnStmtLoopBody (parser n) ⟨src, fnLinesToks ls c ++ rest, last, eof, false⟩
        = .ok (ss', ⟨src, rest, last', eof, false⟩) ∧
      (rest ≠ [] → last' = lastSnap (fnLinesToks ls c) last) ∧ eraseSL ss' = stmtsToStmt ls
  | [], c, n, rest, src, last, eof, _, _, _, hle, _, _ => by
    refine ⟨[], last, ?_, fun _ => rfl, rfl⟩
    simp [fnLines_nil, fnStmtLoopBody, bind_run, stmt_none (lineEnd_blockEnd hle), pure_run]
  | s :: ss, c, n, rest, src, last, eof, hw, hok, hn, hle, hsane, hfit => by
    rw [stmtsWf_cons, Bool.and_eq_true] at hw
    rw [fnLinesFit_cons] at hfit
    obtain ⟨hf1, hf3⟩ := hfit
    rw [fnLines_cons] at hn ⊢
    obtain ⟨t0, ts0, hh, _⟩ := stmt_head s (c.sub 0)
    have hpos : 1 ≤ (s.toks (c.sub 0)).length := by simp [hh]
    obtain ⟨hok1, hok2⟩ := fnBodyOK_tail hok
    cases n with
    | zero => simp only [List.length_append] at hn; omega
    | succ n =>
      by_cases hterm : (ss.isEmpty && s.isIfElse) = true
      · simp only [Bool.and_eq_true, List.isEmpty_iff] at hterm
        obtain ⟨hss, hie⟩ := hterm
        subst hss
        simp only [List.isEmpty_nil, hie, Bool.and_self, if_true, fnLines_nil, List.append_nil,
          List.nil_append] at hn hf1 ⊢
        obtain ⟨s', last', hs1, hl1, hs2⟩ := stmt_run s (c.sub 0) (n + 1) rest src last eof hw.1 hn
          (isIfElse_stop hie hle) (sane_sub hsane 0) (stmt_fits_congr_compound src s _ hie hf1)
        have hft : isFunctionTerminator s' = true := by
          rw [← isFunctionTerminator_erase, hs2, isFunctionTerminator_toStmt]; exact hie
        refine ⟨[s'], last', ?_, hl1, by simp [eraseSL, hs2, stmtsToStmt_cons]; rfl⟩
        rw [fnStmtLoopBody]
        simp [bind_run, hs1, hft, pure_run]
      · have hnt : s.isIfElse = false := by
          cases ss with
          | nil => simpa using hterm
          | cons s2 ss2 => exact hok2 (by simp)
        have hterm' : (ss.isEmpty && s.isIfElse) = false := by simp [hnt]
        simp only [hterm', Bool.false_eq_true, if_false, List.length_append] at hn hf1 ⊢
        obtain ⟨s', last', hs1, hl1, hs2⟩ := stmt_run s (c.sub 0) (n + 1)
          (s.eolToks (c.sub 1) ++ (fnLinesToks ss (c.sub 2) ++ rest))
          src last eof hw.1 (by omega) (stmt_stop_eol s (c.sub 1) _ hw.1 hf1.2) (sane_sub hsane 0)
          (stmt_fits_congr src s _ (stmt_eol_head s _ _).symm hf1.1)
        have hl1' := hl1 (stmt_eol_ne s _ _)
        subst hl1'
        have hft : isFunctionTerminator s' = false := by
          rw [← isFunctionTerminator_erase, hs2, isFunctionTerminator_toStmt]; exact hnt
        obtain ⟨ss', last2, hss1, hl2, hss2⟩ := fnlines_run ss (c.sub 2) n rest src
          (lastSnap (s.eolToks (c.sub 1)) (lastSnap (s.toks (c.sub 0)) last)) eof hw.2 hok1 (by omega) hle
          (sane_sub hsane 2) hf3
        refine ⟨s' :: ss', last2, ?_, fun hne => by rw [hl2 hne]; simp [lastSnap_append],
          by simp [eraseSL, hs2, hss2, stmtsToStmt_cons]⟩
        simp only [List.append_assoc]
        rw [fnStmtLoopBody]
        simp [bind_run, hs1, hft, expectEol_stmt, hrec_fnStmtLoop, hss1, pure_run]
end

/-! ### programs -/

theorem hrec_topLoop (n : Nat) : (parser (n + 1) : Rec N).topLoop = topLoopBody (parser n) := rfl

theorem lines_last_sane (ls : List (Statement N)) (hne : ls ≠ []) (c : Choices N) (src : Str) (l : Snap)
    (hs : c.Sane src) : SnapOK src (lastSnap (linesToks ls c) l) := by
  induction ls generalizing c l with
  | nil => exact absurd rfl hne
  | cons s ss ih =>
    rw [lines_cons]
    simp only [lastSnap_append]
    cases ss with
    | nil =>
      rw [lines_nil, lastSnap_nil, stmt_eol_last]
      exact sane_here hs [1, 1]
    | cons s2 ss2 => exact ih (by simp) (c.sub 2) _ (sane_sub hs 2)

/-- the result of the top-level loop -/
def TopRuns (n : Nat) (src : Str) (toks : List (Tok N)) (last eof : Snap) (expected : List (Block N)) : Prop :=
  ∃ bl st', topLoopBody (parser n) ⟨src, toks, last, eof, false⟩ = .ok (bl, st') ∧ st'.toks = [] ∧
    bl.map eraseB = expected

/-- blank lines are skipped -/
theorem blanks_run (X : List (Tok N)) (src : Str) (eof : Snap) (expected : List (Block N))
    (hX : ∀ m last', X.length ≤ m → SnapOK src last' → TopRuns m src X last' eof expected)
    (hXe : nextIn [.else_] X = false) :
    ∀ (k : Nat) (c : Choices N) (n : Nat) (last : Snap), k + X.length ≤ n → SnapOK src last → c.Sane src →
      TopRuns n src (blanksToks k c ++ X) last eof expected := by
  intro k
  induction k with
  | zero =>
    intro c n last hn hl _
    simpa [blanksToks] using hX n last (by omega) hl
  | succ k ih =>
    intro c n last hn hl hs
    cases n with
    | zero => omega
    | succ n =>
      obtain ⟨bl, st', h1, h2, h3⟩ := ih (c.sub 1) n (c.sub 0).here.after (by omega) (sane_here hs [0])
        (sane_sub hs 1)
      refine ⟨bl, st', ?_, h2, h3⟩
      have helse : nextIn [.else_] (blanksToks k (c.sub 1) ++ X) = false := by
        cases k with
        | zero => simpa [blanksToks] using hXe
        | succ k' => simp [blanksToks, nextIn_cons]
      rw [topLoopBody]
      simp [blanksToks, bind_run, current_run, parseBlock, currentLoc_ok _ _ _ _ _ hl, mac_cons, isKind,
        topLoopAfterBlock, currentMatches_stop helse, hrec_topLoop, h1, pure_run, Block.isEmpty]

omit [CharOps] in
theorem blanks_len (k : Nat) (c : Choices N) : (blanksToks k c).length = k := by
  induction k generalizing c with
  | zero => rfl
  | succ k ih => simp [blanksToks, ih]

theorem prog_not_else (bs : List (List (Statement N))) (c : Choices N) (hw : progWf bs = true) :
    nextIn [.else_] (progToks bs c) = false := by
  have hb : ∀ k (c' : Choices N) (X : List (Tok N)), nextIn [.else_] X = false →
      nextIn [.else_] (blanksToks k c' ++ X) = false := by
    intro k c' X hX
    cases k with
    | zero => simpa [blanksToks] using hX
    | succ k' => simp [blanksToks, nextIn_cons]
  cases bs with
  | nil => simpa [progToks] using hb _ (c.sub 0) [] rfl
  | cons b bs =>
    rw [progToks]
    apply hb
    simp only [progWf, List.all_cons, Bool.and_eq_true, Bool.not_eq_true', List.isEmpty_eq_false_iff] at hw
    cases b with
    | nil => exact absurd rfl hw.1.1
    | cons s ss =>
      obtain ⟨t, ts, h1, h2⟩ := stmt_head s ((c.sub 1).sub 0)
      rw [lines_cons, h1]
      simp only [List.cons_append, nextIn_cons]
      exact (starts_not h2).2

theorem lines_not_else (b : List (Statement N)) (hne : b ≠ []) (c : Choices N) (r : List (Tok N)) :
    nextIn [.else_] (linesToks b c ++ r) = false := by
  cases b with
  | nil => exact absurd rfl hne
  | cons s ss =>
    obtain ⟨t, ts, h1, h2⟩ := stmt_head s (c.sub 0)
    rw [lines_cons, h1]
    simp only [List.cons_append, nextIn_cons]
    exact (starts_not h2).2

/-- one more top-level block in front -/
theorem prog_step (b : List (Statement N)) (hne : b ≠ []) (hwb : stmtsWf b = true) (X : List (Tok N))
    (src : Str) (eof : Snap) (expected : List (Block N))
    (hX : ∀ m last', X.length ≤ m → SnapOK src last' → TopRuns m src X last' eof expected)
    (hXe : nextIn [.else_] X = false)
    (c0 c1 c2 : Choices N) (k n : Nat) (last : Snap)
    (hn : k + (linesToks b c1).length + 1 + X.length ≤ n) (hl : SnapOK src last)
    (hs0 : c0.Sane src) (hs1 : c1.Sane src) (hit1 : linesFit src b c1) (hs2 : SnapOK src c2.here.after) :
    TopRuns n src (blanksToks k c0 ++ (linesToks b c1 ++ tk (.kw .newline) c2 :: X)) last eof
      (.mk default (stmtsToStmt b) :: expected) := by
  refine blanks_run _ src eof _ ?_ (lines_not_else b hne c1 _) k c0 n last
    (by simp only [List.length_append, List.length_cons]; omega) hl hs0
  intro m last' hm hl'
  simp only [List.length_append, List.length_cons] at hm
  cases b with
  | nil => exact absurd rfl hne
  | cons s ss =>
    have hpos : 1 ≤ (linesToks (s :: ss) c1).length := by
      obtain ⟨t, ts, h1, _⟩ := stmt_head s (c1.sub 0)
      rw [lines_cons, h1]; simp
    cases m with
    | zero => omega
    | succ m =>
      cases m with
      | zero => omega
      | succ m =>
        obtain ⟨ss', hl1, hl2⟩ := lines_run (s :: ss) c1 (m + 2) (tk (.kw .newline) c2 :: X) src last' eof
          hwb (by omega) (Or.inr rfl) hs1 hit1
        have hsane2 := lines_last_sane (s :: ss) (by simp) c1 src last' hs1
        obtain ⟨bl, st', h1, h2, h3⟩ := hX m c2.here.after (by omega) hs2
        refine ⟨.mk ⟨last'.line, last'.idx - last'.lineStart⟩ ss' :: bl, st', ?_, h2, ?_⟩
        · have hcur : (linesToks (s :: ss) c1 ++ tk (.kw .newline) c2 :: X).head? ≠ none := by
            obtain ⟨t, ts, h1', _⟩ := stmt_head s (c1.sub 0)
            rw [lines_cons, h1']; simp
          rw [topLoopBody]
          rw [bind_run, current_run]
          cases hc : (linesToks (s :: ss) c1 ++ tk (.kw .newline) c2 :: X).head? with
          | none => exact absurd hc hcur
          | some t0 =>
            simp only [hc]
            have hss' : ss' ≠ [] := by
              intro h; subst h
              simp [eraseSL, stmtsToStmt_cons] at hl2
            simp [bind_run, parseBlock, currentLoc_ok _ _ _ _ _ hl',
              mac_stop_kind (lines_not_nl s ss c1 _), hl1, pure_run, topLoopAfterBlock,
              currentMatches_cons, isKind, hrec_topLoop]
            rw [topLoopBody]
            simp [bind_run, current_run, parseBlock, currentLoc_ok _ _ _ _ _ hsane2, mac_cons, isKind,
              pure_run, topLoopAfterBlock, currentMatches_stop hXe, hrec_topLoop, h1, Block.isEmpty,
              hss']
        · simp [eraseB, hl2, h3]

theorem prog_run : ∀ (bs : List (List (Statement N))) (c : Choices N) (n : Nat) (src : Str) (last eof : Snap),
    progWf bs = true → (progToks bs c).length ≤ n → SnapOK src last → c.Sane src → progFits src bs c →
    TopRuns n src (progToks bs c) last eof (progToAst bs) := by
  intro bs
  induction bs with
  | nil =>
    intro c n src last eof _ hn hl hs _
    have := blanks_run (N := N) [] src eof [] (fun m last' _ _ => ⟨[], _, rfl, rfl, rfl⟩) rfl
      (c.sub 0).choice (c.sub 0) n last (by simpa [progToks, blanks_len] using hn) hl (sane_sub hs 0)
    simpa [progToks, progToAst] using this
  | cons b bs ih =>
    intro c n src last eof hw hn hl hs hit
    have hw' := hw
    simp only [progWf, List.all_cons, Bool.and_eq_true, Bool.not_eq_true', List.isEmpty_eq_false_iff] at hw
    obtain ⟨⟨hne, hwb⟩, hwbs⟩ := hw
    have hwbs' : progWf bs = true := by simpa [progWf] using hwbs
    rw [progToks] at hn ⊢
    simp only [List.length_append, List.length_cons, blanks_len] at hn
    exact prog_step b hne hwb (progToks bs (c.sub 3)) src eof (progToAst bs)
      (fun m last' hm hl' => ih (c.sub 3) m src last' eof hwbs' hm hl' (sane_sub hs 3) hit.2)
      (prog_not_else bs (c.sub 3) hwbs') (c.sub 0) (c.sub 1) (c.sub 2) (c.sub 0).choice n last (by omega) hl
      (sane_sub hs 0) (sane_sub hs 1) hit.1 (sane_here hs [2])

/-! ### packaged for arbitrary states -/

theorem statement_roundtrip (s : Statement N) (c : Choices N) (rest : List (Tok N)) (st : PState N) (n : Nat)
    (hwf : s.wf = true) (hstop : s.Stop rest) (htoks : st.toks = s.toks c ++ rest)
    (hflag : st.parsingList = false) (hsane : c.Sane st.src) (hfit : s.Fits st.src c rest)
    (hn : (s.toks c).length ≤ n) :
    ∃ s' st', parseStatement (parser n) st = .ok (some s', st') ∧ eraseS s' = s.toStmt ∧
      st'.toks = rest ∧ st'.parsingList = false := by
  obtain ⟨src, toks, last, eof, pl⟩ := st
  simp only at htoks hflag hsane hfit
  subst htoks hflag
  obtain ⟨s', last', h1, _, h2⟩ := stmt_run s c n rest src last eof hwf hn hstop hsane hfit
  exact ⟨s', _, h1, h2, rfl, rfl⟩

theorem block_roundtrip (b : List (Statement N)) (c : Choices N) (rest : List (Tok N)) (st : PState N)
    (n : Nat) (hwf : stmtsWf b = true) (hstop : BlockEnd rest) (htoks : st.toks = blockToks b c ++ rest)
    (hflag : st.parsingList = false) (hlast : SnapOK st.src st.last) (hsane : c.Sane st.src)
    (hit : linesFit st.src b c) (hn : (blockToks b c).length ≤ n) :
    ∃ B st', parseBlock (parser n) st = .ok (B, st') ∧ eraseB B = .mk default (stmtsToStmt b) ∧
      st'.toks = rest ∧ st'.parsingList = false := by
  obtain ⟨src, toks, last, eof, pl⟩ := st
  simp only at htoks hflag hsane hlast hit
  subst htoks hflag
  have hl := lines_len_le_block b c
  obtain ⟨B, h1, h2⟩ := block_run b c n rest src last eof hlast
    (fun last => lines_run b c n rest src last eof hwf (by omega) hstop hsane hit)
  exact ⟨B, _, h1, h2, rfl, rfl⟩

theorem program_roundtrip (bs : List (List (Statement N))) (c : Choices N) (st : PState N) (n : Nat)
    (hwf : progWf bs = true) (htoks : st.toks = progToks bs c) (hflag : st.parsingList = false)
    (hlast : SnapOK st.src st.last) (hsane : c.Sane st.src) (hit : progFits st.src bs c)
    (hn : (progToks bs c).length ≤ n) :
    ∃ p st', parseProgramBody (parser n) st = .ok (p, st') ∧ p.code.map eraseB = progToAst bs ∧
      st'.toks = [] := by
  obtain ⟨src, toks, last, eof, pl⟩ := st
  simp only at htoks hflag hsane hlast hit
  subst htoks hflag
  obtain ⟨bl, st', h1, h2, h3⟩ := prog_run bs c n src last eof hwf hn hlast hsane hit
  exact ⟨⟨bl⟩, st', by simp [parseProgramBody, bind_run, h1, pure_run], h3, h2⟩

end Grammar
