/-
  Rrss.Lemmas.RoundTripPrimary — C02, parser half, the three lowest levels: variable names,
  non-subscript primaries (with calls and `roll`), subscript chains, prefix operators.
-/
import Rrss.Lemmas.RoundTripBase
namespace Rrss
namespace Grammar
open Parser

variable {N : Type} [CharOps]

omit [CharOps] in
theorem wordsToks_length (ws : List Str) (c : Choices N) : (wordsToks ws c).length = ws.length := by
  induction ws generalizing c with
  | nil => rfl
  | cons w ws ih => simp [wordsToks, ih]

omit [CharOps] in
theorem wordsNames_fst (ws : List Str) (c : Choices N) : (wordsNames ws c).map Prod.fst = ws := by
  induction ws generalizing c with
  | nil => rfl
  | cons w ws ih => simp [wordsNames, ih]

theorem var_run (v : VarSpec) (c : Choices N) (n : Nat) (rest : List (Tok N)) (src last eof b)
    (hw : v.wf = true) (hn : (v.toks c).length ≤ n) (hr : nextIn [.word] rest = false) :
    parseVariableName (parser n) ⟨src, v.toks c ++ rest, last, eof, b⟩
      = .ok (some (v.toName, v.range c), ⟨src, rest, lastSnap (v.toks c) last, eof, b⟩) := by
  cases v with
  | simple s =>
    cases s with
    | nil => simp [VarSpec.wf] at hw
    | cons ch w =>
      by_cases hc : CharOps.isUppercase ch = true
      · have h1 := capLoop_words [ch :: w] c n rest src last eof b (by simp [capitalised, hc])
          (by simpa [VarSpec.toks] using hn) hr
        simp only [wordsToks, List.cons_append, List.nil_append] at h1
        simp [parseVariableName, parseCommonIdentifier, parseCapitalizedIdentifier, bind_run, mac_cons,
          isKind, VarSpec.toks, h1, pure_run, wordsNames, ofOption_some, accRanges, VarSpec.toName,
          VarSpec.range]
      · simp [parseVariableName, parseCommonIdentifier, parseCapitalizedIdentifier, bind_run, mac_cons,
          isKind, VarSpec.toks, pure_run, VarSpec.toName, capitalizedLoopBody, macP_cons,
          isCapitalizedWord, hc, parseSimpleIdentifier, VarSpec.range]
  | common pre w k =>
    have hw' : Lexer.isWord w = true := by simpa [VarSpec.wf] using hw
    simp [parseVariableName, parseCommonIdentifier, bind_run, mac_cons, isKind, VarSpec.toks,
      pure_run, VarSpec.toName, hw', VarSpec.range]
  | proper w1 w2 ws =>
    have hw' : (w1 :: w2 :: ws).all capitalised = true := by
      simpa [VarSpec.wf, Bool.and_assoc] using hw
    have h1 := capLoop_words (w1 :: w2 :: ws) c n rest src last eof b hw'
      (by simpa [VarSpec.toks, wordsToks_length] using hn) hr
    have h3 : wordsNames (w1 :: w2 :: ws) c = (w1, (c.sub 0).here.range) ::
        (w2, ((c.sub 1).sub 0).here.range) :: wordsNames ws ((c.sub 1).sub 1) := rfl
    obtain ⟨x, hx⟩ := accRanges_cons_isSome (c.sub 0).here.range
      (((c.sub 1).sub 0).here.range :: (wordsNames ws ((c.sub 1).sub 1)).map Prod.snd)
    have h2 : wordsToks (w1 :: w2 :: ws) c = tk (.word w1) (c.sub 0) :: wordsToks (w2 :: ws) (c.sub 1) := rfl
    simp only [VarSpec.toks]
    simp only [h2, List.cons_append] at h1 ⊢
    simp [parseVariableName, parseCommonIdentifier, parseCapitalizedIdentifier, bind_run, mac_cons,
      isKind, h1, pure_run, h3, ofOption_some, VarSpec.toName, VarSpec.range, hx, wordsNames_fst]

/-! ### what may follow -/

/-- what may follow a non-subscript primary -/
def PrimStop (p : Prim N) (rest : List (Tok N)) : Prop :=
  nextIn [.word, .taking] rest = false ∧ (p.opensAt = true → nextIn [.at] rest = false) ∧
    (p.edgeCall = true → nextIn argSeps rest = false)

omit [CharOps] in
theorem subsEdgeCall_lastOf (ss : List (Prim N)) (s : Prim N) :
    subsEdgeCall ss s.edgeCall = (lastOf s ss).edgeCall := by
  induction ss generalizing s with
  | nil => rfl
  | cons x xs ih => simpa [subsEdgeCall, lastOf] using ih x

omit [CharOps] in
/-- in `x at s1 at s2 …`, `x` is followed by a token that ends it -/
theorem primStop_chain (x : Prim N) (ss : List (Prim N)) (c : Choices N) (rest : List (Tok N))
    (hc : chainOK Prim.opensAt x ss = true) (hl : PrimStop (lastOf x ss) rest) :
    PrimStop x (subsToks ss c ++ rest) := by
  cases ss with
  | nil => simpa [subsToks, lastOf] using hl
  | cons s ss =>
    have h1 : x.opensAt = false := by
      simp only [chainOK, Bool.and_eq_true, Bool.not_eq_true'] at hc
      exact hc.1
    refine ⟨?_, ?_, ?_⟩
    · simp [subsToks, nextIn_cons]
    · simp [h1]
    · intro _; simp [subsToks, nextIn_cons, argSeps]

/-- nothing that starts an identifier: `parse_identifier_or_function_call` answers `None` -/
theorem idcall_none (rec : Rec N) (t : Tok N) (ts : List (Tok N)) (src last eof b)
    (h : [TK.pronoun, .commonPrefix, .word].contains t.kind = false) :
    parseIdentifierOrFunctionCall rec ⟨src, t :: ts, last, eof, b⟩
      = .ok (none, ⟨src, t :: ts, last, eof, b⟩) := by
  simp only [List.contains_cons, List.contains_nil, Bool.or_false, Bool.or_eq_false_iff] at h
  obtain ⟨h1', h2', h3'⟩ := h
  simp [parseIdentifierOrFunctionCall, parsePronoun, parseVariableName, parseCommonIdentifier,
    parseCapitalizedIdentifier, capitalizedLoopBody, macP_cons, isCapitalizedWord,
    parseSimpleIdentifier, bind_run, mac_cons, isKind, pure_run, h1', h2', h3']

/-- the pair `subscriptChain` returns -/
def chainRes : List (Prim N) → Choices N → Rrss.Primary N → Rrss.Primary N → Rrss.Primary N × Rrss.Primary N
  | [], _, arr, idx => (arr, idx)
  | s :: ss, c, arr, idx => chainRes ss (c.sub 2) (.sub arr idx) (s.ast (c.sub 1))

omit [CharOps] in
theorem chainRes_sub (ss : List (Prim N)) (c : Choices N) (arr idx : Rrss.Primary N) :
    Rrss.Primary.sub (chainRes ss c arr idx).1 (chainRes ss c arr idx).2 = subsAst ss c (.sub arr idx) := by
  induction ss generalizing c arr idx with
  | nil => rfl
  | cons s ss ih => simp [chainRes, subsAst, ih]

theorem hrec_unary (n : Nat) : (parser (n + 1) : Rec N).unary = parseUnary (parser n) := rfl
theorem hrec_primary (n : Nat) : (parser (n + 1) : Rec N).primary = parsePrimary (parser n) := rfl
theorem hrec_chain (n : Nat) : (parser (n + 1) : Rec N).subscriptChain = subscriptChain (parser n) := rfl
theorem hrec_args (n : Nat) : (parser (n + 1) : Rec N).argsLoop
    = paramLoopBody (parser n).unary (parser n).argsLoop false := rfl

omit [CharOps] in
theorem pronoun_none_var (v : VarSpec) (c : Choices N) (rest : List (Tok N)) (src last eof b) :
    parsePronoun ⟨src, v.toks c ++ rest, last, eof, b⟩
      = .ok (none, ⟨src, v.toks c ++ rest, last, eof, b⟩) := by
  cases v <;> simp [VarSpec.toks, wordsToks, parsePronoun, bind_run, mac_cons, isKind, pure_run]

omit [CharOps] in
theorem var_toks_pos (v : VarSpec) (c : Choices N) : 1 ≤ (v.toks c).length := by
  cases v <;> simp [VarSpec.toks, wordsToks]

omit [CharOps] in
theorem literalOf_spec (l : LitSpec N) (k : Nat) (c : Choices N) :
    literalOf (tk (l.spec k) c) = some l.toLit ∧
    [TK.pronoun, .commonPrefix, .word].contains (tk (l.spec k) c).kind = false := by
  cases l with
  | mysterious => exact ⟨rfl, rfl⟩
  | null => exact ⟨rfl, rfl⟩
  | num n => exact ⟨rfl, rfl⟩
  | bool b => cases b <;> exact ⟨rfl, rfl⟩
  | str s =>
    simp only [LitSpec.spec]
    split
    · next h =>
      simp only [Bool.and_eq_true, List.isEmpty_iff] at h
      obtain ⟨h1, _⟩ := h
      subst h1; exact ⟨rfl, rfl⟩
    · exact ⟨rfl, rfl⟩

/-- all but the last element of a list fail `e` -/
def chainOKL {α : Type} (e : α → Bool) : List α → Bool
  | [] => true
  | x :: xs => chainOK e x xs

omit [CharOps] in
theorem chainOKL_of_chainOK {α : Type} {e : α → Bool} {x : α} {xs : List α}
    (h : chainOK e x xs = true) : chainOKL e xs = true := by
  cases xs with
  | nil => rfl
  | cons y ys =>
    simp only [chainOK, Bool.and_eq_true] at h
    exact h.2

/-- kinds a primary expression can start with -/
def primStarts : List TK :=
  [.pronoun, .word, .commonPrefix, .mysterious, .null, .true_, .false_, .number, .stringLit, .empty, .roll]

omit [CharOps] in
theorem var_head (v : VarSpec) (c : Choices N) :
    ∃ t ts, v.toks c = t :: ts ∧ primStarts.contains t.kind = true := by
  cases v with
  | simple s => exact ⟨_, _, rfl, rfl⟩
  | common pre w k => exact ⟨_, _, rfl, rfl⟩
  | proper w1 w2 ws => exact ⟨_, _, rfl, rfl⟩

omit [CharOps] in
theorem lit_head (l : LitSpec N) (k : Nat) (c : Choices N) :
    primStarts.contains (tk (l.spec k) c).kind = true := by
  cases l with
  | mysterious => rfl
  | null => rfl
  | num n => rfl
  | bool b => cases b <;> rfl
  | str s =>
    simp only [LitSpec.spec]
    split <;> rfl

omit [CharOps] in
theorem prim_head (p : Prim N) (c : Choices N) :
    ∃ t ts, p.toks c = t :: ts ∧ primStarts.contains t.kind = true := by
  cases p with
  | pronoun => exact ⟨_, _, rfl, rfl⟩
  | var v => simpa [Prim.toks] using var_head v (c.sub 0)
  | lit l => exact ⟨_, _, rfl, lit_head l _ _⟩
  | call f a as =>
    obtain ⟨t, ts, h1, h2⟩ := var_head f (c.sub 0)
    exact ⟨t, _, by simp only [Prim.toks, h1, List.cons_append]; rfl, h2⟩
  | pop q => exact ⟨_, _, rfl, rfl⟩

omit [CharOps] in
theorem primary_head (p : Primary N) (c : Choices N) :
    ∃ t ts, p.toks c = t :: ts ∧ primStarts.contains t.kind = true := by
  cases p with
  | mk h subs =>
    obtain ⟨t, ts, h1, h2⟩ := prim_head h (c.sub 0)
    exact ⟨t, _, by simp only [Primary.toks, h1, List.cons_append]; rfl, h2⟩

/-- kinds an expression can start with -/
def exprStarts : List TK := [.minus, .not] ++ primStarts

omit [CharOps] in
theorem unary_head (u : Unary N) (c : Choices N) :
    ∃ t ts, u.toks c = t :: ts ∧ exprStarts.contains t.kind = true := by
  cases u with
  | mk ops p =>
    cases ops with
    | nil =>
      obtain ⟨t, ts, h1, h2⟩ := primary_head p (c.sub 1)
      refine ⟨t, ts, by simp [Unary.toks, unopsToks, h1], ?_⟩
      simp only [exprStarts, List.contains_eq_mem, List.mem_append, decide_eq_true_eq] at h2 ⊢
      exact Or.inr h2
    | cons o os =>
      refine ⟨_, _, by simp only [Unary.toks, unopsToks, List.cons_append]; rfl, ?_⟩
      cases o <;> rfl

omit [CharOps] in
/-- an expression does not start with a token of a kind that no expression starts with -/
theorem nextIn_of_head {ks starts : List TK} {toks rest : List (Tok N)}
    (h : ∃ t ts, toks = t :: ts ∧ starts.contains t.kind = true)
    (hd : ∀ k ∈ ks, k ∉ starts) : nextIn ks (toks ++ rest) = false := by
  obtain ⟨t, ts, h1, h2⟩ := h
  subst h1
  simp only [List.cons_append, nextIn_cons, List.contains_eq_mem, decide_eq_false_iff_not,
    decide_eq_true_eq] at h2 ⊢
  exact fun hm => hd _ hm h2

omit [CharOps] in
theorem sep_head (c : Choices N) :
    ∃ t ts, sepToks c = t :: ts ∧ argSeps.contains t.kind = true := by
  unfold sepToks
  split <;> exact ⟨_, _, rfl, rfl⟩

omit [CharOps] in
theorem sep_len (c : Choices N) : 1 ≤ (sepToks c).length ∧ (sepToks c).length ≤ 2 := by
  unfold sepToks
  split <;> simp

omit [CharOps] in
/-- in `a sep u sep …`, `a` is followed by a token that ends it -/
theorem argStop_chain (a : Unary N) (as : List (Unary N)) (c : Choices N) (rest : List (Tok N))
    (hc : chainOK Unary.edgeCall a as = true) (h1 : nextIn [.word, .taking, .at] rest = false)
    (h2 : nextIn argSeps rest = false) : EdgeStop a.edgeCall (argsToks as c ++ rest) := by
  cases as with
  | nil => exact ⟨by simpa [argsToks] using h1, fun _ => by simpa [argsToks] using h2⟩
  | cons u us =>
    have h0 : a.edgeCall = false := by
      simp only [chainOK, Bool.and_eq_true, Bool.not_eq_true'] at hc
      exact hc.1
    refine ⟨?_, by simp [h0]⟩
    simp only [argsToks, List.append_assoc]
    exact nextIn_of_head (sep_head _) (by decide)

mutual
theorem prim_run : (p : Prim N) → ∀ (c : Choices N) (n : Nat) (rest : List (Tok N)) (src last eof b),
    p.wf = true → (p.toks c).length ≤ n → PrimStop p rest →
    parseNonSubscriptPrimary (parser n) ⟨src, p.toks c ++ rest, last, eof, b⟩
      = .ok (p.ast c, ⟨src, rest, lastSnap (p.toks c) last, eof, b⟩)
  | .pronoun, c, n, rest, src, last, eof, b, _, _, _ => by
    simp [parseNonSubscriptPrimary, parseIdentifierOrFunctionCall, parsePronoun, bind_run, mac_cons,
      isKind, pure_run, Prim.toks, Prim.ast]
  | .var v, c, n, rest, src, last, eof, b, hw, hn, hs => by
    have hv := var_run v (c.sub 0) n rest src last eof b (by simpa [Prim.wf] using hw)
      (by simpa [Prim.toks] using hn) (nextIn_sub hs.1 (by decide))
    have ht := currentMatches_stop (k := .taking) (nextIn_sub hs.1 (by decide)) src
      (lastSnap (v.toks (c.sub 0)) last) eof b
    simp [parseNonSubscriptPrimary, parseIdentifierOrFunctionCall, bind_run, pronoun_none_var, hv, ht,
      pure_run, Prim.toks, Prim.ast]
  | .lit l, c, n, rest, src, last, eof, b, _, _, _ => by
    obtain ⟨h1, h2⟩ := literalOf_spec l (c.sub 1).choice (c.sub 0)
    simp [parseNonSubscriptPrimary, idcall_none _ _ _ _ _ _ _ h2, parseLiteralExpression, current_run,
      bind_run, h1, advance_cons, pure_run, Prim.toks, Prim.ast]
  | .pop p, c, n, rest, src, last, eof, b, hw, hn, hs => by
    cases n with
    | zero => simp [Prim.toks] at hn
    | succ n =>
      have hp := primary_run p (c.sub 1) n rest src (tk (.kw .roll) (c.sub 0)).after eof b
        (by simpa [Prim.wf] using hw) (by simpa [Prim.toks] using hn)
        ⟨by
          have h1 := hs.1
          have h2 := hs.2.1 rfl
          cases rest with
          | nil => rfl
          | cons t ts =>
            simp only [nextIn_cons, List.contains_cons, List.contains_nil, Bool.or_false,
              Bool.or_eq_false_iff] at h1 h2 ⊢
            exact ⟨h1.1, h1.2, h2⟩,
         fun h => hs.2.2 (by simpa [Prim.edgeCall] using h)⟩
      have hl : literalOf (tk (TokSpec.kw TK.roll : TokSpec N) (c.sub 0)) = none := rfl
      simp [parseNonSubscriptPrimary, idcall_none (N := N) _ _ _ _ _ _ _ (rfl : [TK.pronoun, .commonPrefix, .word].contains
        (tk (TokSpec.kw TK.roll : TokSpec N) (c.sub 0)).kind = false), parseLiteralExpression, current_run,
        bind_run, hl, parseArrayPopExpr, mac_cons, isKind, hrec_primary, hp, pure_run, Prim.toks, Prim.ast]
  | .call f a as, c, n, rest, src, last, eof, b, hw, hn, hs => by
    cases n with
    | zero => simp [Prim.toks] at hn
    | succ n =>
      simp only [Prim.wf, Bool.and_eq_true] at hw
      obtain ⟨⟨⟨hwf, hwa⟩, hwas⟩, hch⟩ := hw
      simp only [Prim.toks, List.length_append, List.length_cons] at hn
      have hsep := hs.2.2 rfl
      have hat := hs.2.1 rfl
      have hwta : nextIn [.word, .taking, .at] rest = false := by
        have h1 := hs.1
        cases rest with
        | nil => rfl
        | cons t ts =>
          simp only [nextIn_cons, List.contains_cons, List.contains_nil, Bool.or_false,
            Bool.or_eq_false_iff] at h1 hat ⊢
          exact ⟨h1.1, h1.2, hat⟩
      have hv := var_run f (c.sub 0) (n + 1)
        (tk (.kw .taking) (c.sub 1) :: (a.toks (c.sub 2) ++ (argsToks as (c.sub 3) ++ rest)))
        src last eof b hwf (by omega) (by simp [nextIn_cons])
      have ha := unary_run a (c.sub 2) n (argsToks as (c.sub 3) ++ rest) src
        (tk (.kw .taking) (c.sub 1)).after eof b hwa (by omega)
        (argStop_chain a as (c.sub 3) rest hch hwta hsep)
      have has := args_run as (c.sub 3) (n + 1) rest src
        (lastSnap (a.toks (c.sub 2)) (tk (.kw .taking) (c.sub 1)).after) eof b hwas
        (chainOKL_of_chainOK hch)
        (by omega) hwta hsep
      simp only [hrec_unary] at has
      simp only [Prim.toks, List.append_assoc, List.cons_append]
      simp [parseNonSubscriptPrimary, parseIdentifierOrFunctionCall, bind_run, pronoun_none_var, hv,
        currentMatches_cons, isKind, parseFunctionCall, consume_cons, parseParameterList, hrec_unary,
        ha, has, pure_run, Prim.ast]
theorem primary_run : (p : Primary N) → ∀ (c : Choices N) (n : Nat) (rest : List (Tok N)) (src last eof b),
    p.wf = true → (p.toks c).length ≤ n → EdgeStop p.edgeCall rest →
    parsePrimary (parser n) ⟨src, p.toks c ++ rest, last, eof, b⟩
      = .ok (p.ast c, ⟨src, rest, lastSnap (p.toks c) last, eof, b⟩)
  | .mk h subs, c, n, rest, src, last, eof, b, hw, hn, hs => by
    simp only [Primary.wf, Bool.and_eq_true] at hw
    obtain ⟨⟨hwh, hws⟩, hch⟩ := hw
    simp only [Primary.toks, List.length_append] at hn
    have hat : nextIn [.at] rest = false := nextIn_sub hs.1 (by decide)
    have hlast : PrimStop (lastOf h subs) rest :=
      ⟨nextIn_sub hs.1 (by decide), fun _ => hat,
        fun he => hs.2 (by simpa [Primary.edgeCall, subsEdgeCall_lastOf] using he)⟩
    have hh := prim_run h (c.sub 0) n (subsToks subs (c.sub 1) ++ rest) src last eof b hwh (by omega)
      (primStop_chain h subs (c.sub 1) rest hch hlast)
    cases subs with
    | nil =>
      simp only [subsToks, List.nil_append] at hh
      simp [parsePrimary, Primary.toks, subsToks, bind_run, hh, parseArraySubscriptAfter,
        mac_stop_kind hat, pure_run, Primary.ast, subsAst]
    | cons s ss =>
      simp only [subsWf, Bool.and_eq_true] at hws
      simp only [chainOK, Bool.and_eq_true] at hch
      simp only [subsToks, List.length_append, List.length_cons] at hn
      have hs1 := prim_run s ((c.sub 1).sub 1) n (subsToks ss ((c.sub 1).sub 2) ++ rest) src
        (tk (.kw .at) ((c.sub 1).sub 0)).after eof b hws.1 (by omega)
        (primStop_chain s ss _ rest hch.2 (by simpa [lastOf] using hlast))
      have hss := subs_run ss ((c.sub 1).sub 2) n rest (h.ast (c.sub 0)) (s.ast ((c.sub 1).sub 1)) src
        (lastSnap (s.toks ((c.sub 1).sub 1)) (tk (.kw .at) ((c.sub 1).sub 0)).after) eof b hws.2
        (chainOKL_of_chainOK hch.2)
        (fun x xs hx => by subst hx; simpa [lastOf] using hlast) hat (by omega)
      simp only [subsToks, List.append_assoc, List.cons_append] at hh
      simp [parsePrimary, Primary.toks, subsToks, bind_run, hh, parseArraySubscriptAfter, mac_cons,
        isKind, hs1, hss, pure_run, Primary.ast, subsAst, chainRes_sub]
theorem unary_run : (u : Unary N) → ∀ (c : Choices N) (n : Nat) (rest : List (Tok N)) (src last eof b),
    u.wf = true → (u.toks c).length ≤ n → EdgeStop u.edgeCall rest →
    parseUnary (parser n) ⟨src, u.toks c ++ rest, last, eof, b⟩
      = .ok (u.ast c, ⟨src, rest, lastSnap (u.toks c) last, eof, b⟩)
  | .mk ops p, c, n, rest, src, last, eof, b, hw, hn, hs => by
    have hp := fun n last hn => primary_run p (c.sub 1) n rest src last eof b
      (by simpa [Unary.wf] using hw) hn (by simpa [Unary.edgeCall] using hs)
    simp only [Unary.toks, List.length_append] at hn
    simp only [Unary.toks, Unary.ast, List.append_assoc, lastSnap_append]
    clear hw hs
    generalize c.sub 0 = c0 at hn ⊢
    induction ops generalizing n c0 last with
    | nil =>
      have hnot : nextIn [.minus, .not] (p.toks (c.sub 1) ++ rest) = false :=
        nextIn_of_head (primary_head p (c.sub 1)) (by decide)
      simp [unopsToks, parseUnary, bind_run, mac_stop_any hnot, hp n last (by simpa [unopsToks] using hn),
        pure_run]
    | cons o os ih =>
      cases n with
      | zero => simp [unopsToks] at hn
      | succ n =>
        have hi := ih (n := n) (c0 := c0.sub 1) (last := (tk (.kw (unopKind o)) (c0.sub 0)).after)
          (by simp only [unopsToks, List.length_cons] at hn; omega)
        have hk : isAnyKind [TK.minus, TK.not] (tk (.kw (unopKind o)) (c0.sub 0) : Tok N) = true := by
          cases o <;> rfl
        have hop : getUnaryOperator (unopKind o) = some o := by cases o <;> rfl
        rw [parseUnary]
        simp [unopsToks, bind_run, mac_cons, hk, hop, ofOption_some, hrec_unary, hi, pure_run]
theorem args_run : (as : List (Unary N)) → ∀ (c : Choices N) (n : Nat) (rest : List (Tok N)) (src last eof b),
    argsWf as = true → chainOKL Unary.edgeCall as = true → (argsToks as c).length ≤ n →
    nextIn [.word, .taking, .at] rest = false → nextIn argSeps rest = false →
    paramLoopBody (parser n : Rec N).unary (parser n : Rec N).argsLoop false
        ⟨src, argsToks as c ++ rest, last, eof, b⟩
      = .ok (argsAst as c, ⟨src, rest, lastSnap (argsToks as c) last, eof, b⟩)
  | [], c, n, rest, src, last, eof, b, _, _, _, _, h2 => by
    have h2' : nextIn (parameterSeps false) rest = false := nextIn_sub h2 (by decide)
    simp [argsToks, paramLoopBody, bind_run, mac_stop_any h2', pure_run, argsAst]
  | u :: us, c, n, rest, src, last, eof, b, hw, hch, hn, h1, h2 => by
    simp only [argsWf, Bool.and_eq_true] at hw
    simp only [argsToks, List.length_append] at hn
    have hl := sep_len (c.sub 0)
    cases n with
    | zero => omega
    | succ n =>
      have hu := fun last => unary_run u (c.sub 1) n (argsToks us (c.sub 2) ++ rest) src last eof b
        hw.1 (by omega) (argStop_chain u us (c.sub 2) rest hch h1 h2)
      have hus := fun last => args_run us (c.sub 2) n rest src last eof b hw.2
        (chainOKL_of_chainOK hch) (by omega) h1 h2
      have hand : nextIn [.and] (u.toks (c.sub 1) ++ (argsToks us (c.sub 2) ++ rest)) = false :=
        nextIn_of_head (unary_head u _) (by decide)
      rw [paramLoopBody]
      simp only [argsToks, List.append_assoc]
      unfold sepToks
      split <;>
        simp [bind_run, mac_cons, isAnyKind, isKind, parameterSeps, mac_stop_kind hand, hrec_unary, hu,
          hrec_args, hus, pure_run, argsAst]
theorem subs_run : (ss : List (Prim N)) → ∀ (c : Choices N) (n : Nat) (rest : List (Tok N))
      (arr idx : Rrss.Primary N) (src last eof b),
    subsWf ss = true → chainOKL Prim.opensAt ss = true →
    (∀ s ss', ss = s :: ss' → PrimStop (lastOf s ss') rest) → nextIn [.at] rest = false →
    (subsToks ss c).length ≤ n →
    subscriptChain (parser n) arr idx ⟨src, subsToks ss c ++ rest, last, eof, b⟩
      = .ok (chainRes ss c arr idx, ⟨src, rest, lastSnap (subsToks ss c) last, eof, b⟩)
  | [], c, n, rest, arr, idx, src, last, eof, b, _, _, _, hat, _ => by
    simp [subsToks, subscriptChain, bind_run, mac_stop_kind hat, pure_run, chainRes]
  | s :: ss, c, n, rest, arr, idx, src, last, eof, b, hw, hch, hl, hat, hn => by
    cases n with
    | zero => simp [subsToks] at hn
    | succ n =>
      simp only [subsWf, Bool.and_eq_true] at hw
      simp only [subsToks, List.length_append, List.length_cons] at hn
      have hlast := hl s ss rfl
      have hs1 := prim_run s (c.sub 1) (n + 1) (subsToks ss (c.sub 2) ++ rest) src
        (tk (.kw .at) (c.sub 0)).after eof b hw.1 (by omega)
        (primStop_chain s ss _ rest hch hlast)
      have hss := subs_run ss (c.sub 2) n rest (.sub arr idx) (s.ast (c.sub 1)) src
        (lastSnap (s.toks (c.sub 1)) (tk (.kw .at) (c.sub 0)).after) eof b hw.2
        (chainOKL_of_chainOK hch)
        (fun x xs hx => by subst hx; simpa [lastOf] using hlast) hat (by omega)
      rw [subscriptChain]
      simp [subsToks, bind_run, mac_cons, isKind, hs1, hrec_chain, hss, chainRes]
end

end Grammar
