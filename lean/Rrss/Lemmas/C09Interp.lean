/-
  Rrss.Lemmas.C09Interp — crash freedom of the interpreter (C09): the invariant `RecOk` on a
  whole interpreter record, its preservation by every interpreter function, and the induction
  on fuel.
-/
import Rrss.Interp
import Rrss.Lemmas.C09Env
set_option linter.unusedSectionVars false
set_option linter.unusedVariables false
namespace Rrss
namespace C09
variable [CharOps] {N : Type} [NumOps N]
open Env Interp Outcome

/-! ### writers -/

/-- the closure handed to `WriteVal` never crashes -/
def WNoCrash (w : Writer N) : Prop := ∀ v, (w v).NoCrash
/-- the closure fills the `back` slot whenever it succeeds (true of `roll`'s closure) -/
def WFills (w : Writer N) : Prop := ∀ v v' b, w v = .ok (v', b) → b.isSome = true

/-- what a write traversal guarantees about its `WOut` and final environment -/
def WPost (k : Nat) (w : Writer N) (out : WOut N) (env : Env N) : Prop :=
  Ge k env ∧ (out.res = .ok () → Len k env ∧ (WFills w → out.back.isSome = true))

/-- a write traversal started with `k` scopes: never crashes; a captured error may leave extra
    scopes behind (from a failed subscript evaluation); success leaves exactly `k` scopes and,
    if the closure fills `back`, `back` is filled. -/
def WOk (k : Nat) (w : Writer N) (m : M N (WOut N)) : Prop := Tri (Len k) m (WPost k w) (Ge k)

/-! ### executor state -/

/-- every statement starts with flag `Normal` and no return value -/
def StPre (st : ExecSt N) : Prop := st.flag = .normal ∧ st.ret = none
/-- a return value is only ever set together with the flag `Returning` -/
def StPost (st : ExecSt N) : Prop := st.flag ≠ .returning → st.ret = none

theorem StPre.post {st : ExecSt N} (h : StPre st) : StPost st := fun _ => h.2

/-- the invariant on an interpreter record -/
structure RecOk (rec : Rec N) : Prop where
  evalExpr : ∀ e k, 1 ≤ k → MOk k (fun _ => True) (rec.evalExpr e)
  evalPrimary : ∀ p k, 1 ≤ k → MOk k (fun _ => True) (rec.evalPrimary p)
  writeExpr : ∀ w e k, 1 ≤ k → WNoCrash w → WOk k w (rec.writeExpr w e)
  writePrimary : ∀ w p k, 1 ≤ k → WNoCrash w → WOk k w (rec.writePrimary w p)
  execStmt : ∀ s st k, 1 ≤ k → StPre st → MOk k StPost (rec.execStmt s st)

/-! ### `resolve` / `writeCell` -/

theorem setVarIn_length (name : VarName) (v : Val N) (scopes : List (Scope N)) :
    (setVarIn name v scopes).length = scopes.length := by
  induction scopes with
  | nil => rfl
  | cons s rest ih => unfold setVarIn; split <;> simp [ih]

/-- `lookup_or_create!`: `symbols.last_mut().unwrap()` is safe with a non-empty scope stack;
    the stack keeps its length whatever the outcome -/
theorem tri_resolve {k : Nat} (hk : 1 ≤ k) (t : Target) :
    Tri (Len k) (resolve t : M N (VarName × Val N)) (fun _ => Len k) (Len k) := by
  intro env hl
  unfold resolve
  split
  · dsimp only
    split
    · simpa [Len] using hl
    · split
      · rename_i h; simp [Len, h] at hl; omega
      · rename_i h
        split <;> simp_all [Len]
  · split
    · simpa using hl
    · split <;> simpa using hl

theorem wok_writeCell {k : Nat} (hk : 1 ≤ k) (w : Writer N) (hw : WNoCrash w) (t : Target)
    (keys : List (Val N)) : WOk k w (writeCell w t keys) := by
  intro env hl
  have hr := tri_resolve hk t env hl
  unfold writeCell
  rcases hres : resolve t env with ⟨(⟨name, cur⟩ | e | s | _ | _), env1⟩ <;> rw [hres] at hr <;>
    simp at hr ⊢
  · have hnc := Val.updateAt_noCrash env1.cap w hw keys cur
    have hpost := fun hf => Val.updateAt_ok_post env1.cap w (fun b => b.isSome = true) hf keys cur
    rcases hu : Val.updateAt env1.cap w keys cur with ⟨newVal, status⟩
    rw [hu] at hnc hpost
    have hlen : Len k ({ env1 with scopes := setVarIn name newVal env1.scopes } : Env N) := by
      simpa [Len, setVarIn_length] using hr
    cases status <;> simp_all [WPost]
    · exact ⟨hlen.ge, fun hf => hpost hf⟩
    · exact hlen.ge
  · exact ⟨hr.ge, by simp⟩

/-! ### write traversals -/

theorem wok_pure_notOk {k : Nat} {w : Writer N} (out : WOut N) (h : out.res ≠ .ok ()) :
    Tri (Ge k) (pure out : M N (WOut N)) (WPost k w) (Ge k) :=
  Tri.pure (fun _ hg => ⟨hg, fun h' => absurd h' h⟩)

theorem wok_notWritable {k : Nat} {w : Writer N} : WOk k w (pure notWritable : M N (WOut N)) :=
  Tri.conseq (wok_pure_notOk Interp.notWritable (by simp [Interp.notWritable])) (fun _ h => h.ge)
    (fun _ _ h => h) (fun _ h => h)

/-- `subscript_val`: the error of a failed evaluation is captured; the environment is then
    the one the failed evaluation left (possibly with extra scopes) -/
theorem tri_subscriptVal {k : Nat} {rec : Rec N} {idx : Primary N}
    (h : MOk k (fun _ => True) (rec.evalPrimary idx)) :
    Tri (Len k) (subscriptVal rec idx) (fun r env => Ge k env ∧ ∀ v, r = .ok v → Len k env)
      (Ge k) := by
  intro env hl
  have h := h env hl
  unfold subscriptVal
  rcases hm : rec.evalPrimary idx env with ⟨(a | e | s | _ | _), env'⟩ <;> rw [hm] at h <;>
    simp_all
  exact h.ge

/-- the continuation after `subscript_val` shared by `writePrimary`, `writeSubscript`, `writeLhs` -/
theorem wok_afterSubscript {k : Nat} {rec : Rec N} {w : Writer N} {idx : Primary N}
    (h : MOk k (fun _ => True) (rec.evalPrimary idx)) (next : Val N → M N (WOut N))
    (hnext : ∀ v, WOk k w (next v)) :
    WOk k w (do match ← subscriptVal rec idx with
                | .error e => pure { res := .error e }
                | .ok kv => next kv) := by
  refine Tri.bind (tri_subscriptVal h) (fun r => ?_)
  cases r with
  | error e => exact Tri.pure (fun env hq => ⟨hq.1, by simp⟩)
  | ok v => exact Tri.conseq (hnext v) (fun env hq => hq.2 v rfl) (fun _ _ h => h) (fun _ h => h)

theorem wok_writeSubscript {rec : Rec N} (hrec : RecOk rec) (w : Writer N) (hw : WNoCrash w)
    {k : Nat} (hk : 1 ≤ k) (p : Primary N) (keys : List (Val N)) :
    WOk k w (writeSubscript rec w p keys) := by
  fun_induction writeSubscript rec w p keys with
  | case1 name r keys => exact wok_writeCell hk w hw _ _
  | case2 r keys => exact wok_writeCell hk w hw _ _
  | case3 arr idx keys ih =>
    exact wok_afterSubscript (hrec.evalPrimary idx k hk) _ (fun v => ih v)
  | case4 => exact wok_notWritable

theorem wok_writePrimary {rec : Rec N} (hrec : RecOk rec) (w : Writer N) (hw : WNoCrash w)
    {k : Nat} (hk : 1 ≤ k) (p : Primary N) : WOk k w (writePrimary rec w p) := by
  cases p with
  | lit l r => exact wok_notWritable
  | ident i r =>
    cases i <;> simp only [writePrimary] <;> exact wok_writeCell hk w hw _ _
  | sub arr idx =>
    exact wok_afterSubscript (hrec.evalPrimary idx k hk) _
      (fun v => wok_writeSubscript hrec w hw hk arr [v])
  | call name r args => exact wok_notWritable
  | pop arr => exact hrec.writePrimary w arr k hk hw

theorem wok_writeExpr {rec : Rec N} (hrec : RecOk rec) (w : Writer N) (hw : WNoCrash w)
    {k : Nat} (hk : 1 ≤ k) (e : Expr N) : WOk k w (writeExpr rec w e) := by
  cases e with
  | prim p => exact hrec.writePrimary w p k hk hw
  | bin op l f r => exact wok_notWritable
  | un op e => exact wok_notWritable

theorem wok_writeIdent (w : Writer N) (hw : WNoCrash w) {k : Nat} (hk : 1 ≤ k) (i : Ident) :
    WOk k w (writeIdent w i) := by
  cases i <;> simp only [writeIdent] <;> exact wok_writeCell hk w hw _ _

theorem wok_writeLhs {rec : Rec N} (hrec : RecOk rec) (w : Writer N) (hw : WNoCrash w)
    {k : Nat} (hk : 1 ≤ k) (l : Lhs N) : WOk k w (writeLhs rec w l) := by
  cases l with
  | ident i r => exact wok_writeIdent w hw hk i
  | sub arr idx =>
    exact wok_afterSubscript (hrec.evalPrimary idx k hk) _
      (fun v => wok_writeSubscript hrec w hw hk arr [v])

/-- `.unwrap().0?`: a captured error becomes fatal here -/
theorem mok_fatal {k : Nat} {w : Writer N} {o : M N (WOut N)} (h : WOk k w o) :
    MOk k (fun _ => True) (fatal o) := by
  unfold fatal
  refine Tri.bind h (fun out => ?_)
  split
  · rename_i heq
    exact Tri.pure (fun env hq => ⟨(hq.2 heq).1, trivial⟩)
  · exact fun env hq => hq.1

/-! ### the writers used by `ExecStmt` -/

theorem assignW_noCrash (v : Val N) : WNoCrash (assignW v) := fun _ => noCrash_ok _

theorem liftW_noCrash (f : Val N → VRes N (Val N)) (hf : ∀ v, (f v).NoCrash) :
    WNoCrash (liftW f) := fun v => (hf v).map _

theorem mutate_noCrash (op : MutOp) (v : Val N) (p : Option (Val N)) : (mutate op v p).NoCrash := by
  cases op
  · exact Val.split_noCrash v p
  · exact Val.join_noCrash v p
  · exact Val.cast_noCrash v p

theorem roundW_noCrash (d : RoundDir) (v : Val N) : (roundW d v).NoCrash := by
  cases d
  · exact Val.roundUp_noCrash v
  · exact Val.roundDown_noCrash v
  · exact Val.roundNearest_noCrash v

/-- `roll`'s closure -/
def popW : Writer N := fun v => (Val.pop v).bind fun (x, rest) => .ok (rest, some x)

theorem popW_noCrash : WNoCrash (popW : Writer N) :=
  fun v => (Val.pop_noCrash v).bind (fun _ => noCrash_ok _)

theorem popW_fills : WFills (popW : Writer N) := by
  intro v v' b h
  unfold popW at h
  cases hp : Val.pop v <;> rw [hp] at h <;> simp at h
  rw [← h.2]; rfl

/-- `visit_array_pop_expr`: `back.unchecked_unwrap()` is safe — a successful write through
    `roll`'s closure has filled `back` -/
theorem mok_evalPop {rec : Rec N} (hrec : RecOk rec) {k : Nat} (hk : 1 ≤ k) (arr : Primary N) :
    MOk k (fun _ => True) (evalPop rec arr) := by
  unfold evalPop
  refine Tri.bind (hrec.writePrimary popW arr k hk popW_noCrash) (fun out => ?_)
  split
  · exact fun env hq => hq.1
  · rename_i heq
    split
    · exact Tri.pure (fun env hq => ⟨(hq.2 heq).1, trivial⟩)
    · rename_i hb
      refine Tri.false_pre (fun env hq => ?_)
      have := (hq.2 heq).2 popW_fills
      rw [hb] at this
      cases this

/-! ### ProduceVal -/

theorem mok_evalIdent {k : Nat} (i : Ident) : MOk k (fun _ => True) (evalIdent i : M N (Val N)) := by
  cases i
  · exact mok_lookupVar _
  · exact mok_lastAccess

theorem mok_index {k : Nat} {a b : M N (Val N)} (ha : MOk k (fun _ => True) a)
    (hb : MOk k (fun _ => True) b) :
    MOk k (fun _ => True) (do let x ← a; let y ← b; M.liftV (Val.index x y)) :=
  ha.bind fun x _ => hb.bind fun y _ => mok_liftV _ (Val.index_noCrash x y)

theorem mok_applyOp {k : Nat} (op : BinOp) (a : Val N) {b : M N (Val N)}
    (hb : MOk k (fun _ => True) b) : MOk k (fun _ => True) (applyOp op a b) := by
  cases op <;> simp only [applyOp]
  case plus =>
    exact hb.bind fun bv _ => mok_get.bind fun env _ => mok_liftV _ (Val.plus_noCrash _ _ _)
  case minus => exact hb.bind fun bv _ => MOk.pure _ trivial
  case multiply =>
    exact hb.bind fun bv _ => mok_get.bind fun env _ => mok_liftV _ (Val.multiply_noCrash _ _ _)
  case divide => exact hb.bind fun bv _ => MOk.pure _ trivial
  case and =>
    split
    · exact hb.bind fun bv _ => MOk.pure _ trivial
    · exact MOk.pure _ trivial
  case or =>
    split
    · exact MOk.pure _ trivial
    · exact hb.bind fun bv _ => MOk.pure _ trivial
  case nor =>
    split
    · exact MOk.pure _ trivial
    · exact hb.bind fun bv _ => MOk.pure _ trivial
  case eq => exact hb.bind fun bv _ => MOk.pure _ trivial
  case notEq => exact hb.bind fun bv _ => MOk.pure _ trivial
  case greater =>
    exact hb.bind fun bv _ => (mok_liftV _ (Val.compare_noCrash _ _)).bind fun r _ => MOk.pure _ trivial
  case greaterEq =>
    exact hb.bind fun bv _ => (mok_liftV _ (Val.compare_noCrash _ _)).bind fun r _ => MOk.pure _ trivial
  case less =>
    exact hb.bind fun bv _ => (mok_liftV _ (Val.compare_noCrash _ _)).bind fun r _ => MOk.pure _ trivial
  case lessEq =>
    exact hb.bind fun bv _ => (mok_liftV _ (Val.compare_noCrash _ _)).bind fun r _ => MOk.pure _ trivial

theorem mok_foldOp {rec : Rec N} (hrec : RecOk rec) {k : Nat} (hk : 1 ≤ k) (op : BinOp)
    (a : Val N) (es : List (Expr N)) : MOk k (fun _ => True) (foldOp rec op a es) := by
  induction es generalizing a with
  | nil => exact MOk.pure _ trivial
  | cons e es ih =>
    simp only [foldOp]
    exact (mok_applyOp op a (hrec.evalExpr e k hk)).bind fun a' _ => ih a'

theorem mok_evalArgs {rec : Rec N} (hrec : RecOk rec) {k : Nat} (hk : 1 ≤ k)
    (es : List (Expr N)) : MOk k (fun _ => True) (evalArgs rec es) := by
  induction es with
  | nil => exact MOk.pure _ trivial
  | cons e es ih =>
    simp only [evalArgs]
    exact (hrec.evalExpr e k hk).bind fun v _ => ih.bind fun vs _ => MOk.pure _ trivial

theorem mok_evalOpt {rec : Rec N} (hrec : RecOk rec) {k : Nat} (hk : 1 ≤ k)
    (e : Option (Expr N)) : MOk k (fun _ => True) (evalOpt rec e) := by
  cases e with
  | none => exact MOk.pure _ trivial
  | some e => exact (hrec.evalExpr e k hk).bind fun v _ => MOk.pure _ trivial

/-- `visit_block`: started with flag `Normal` and no return value, every statement of the block
    starts that way -/
theorem mok_execStmts {rec : Rec N} (hrec : RecOk rec) {k : Nat} (hk : 1 ≤ k)
    (ss : List (Stmt N)) (st : ExecSt N) (hst : StPre st) : MOk k StPost (execStmts rec ss st) := by
  induction ss generalizing st with
  | nil => exact MOk.pure _ hst.post
  | cons s ss ih =>
    simp only [execStmts]
    refine (hrec.execStmt s st k hk hst).bind fun st' hpost => ?_
    split
    · exact MOk.pure _ hpost
    · rename_i hskip
      have hn : st'.flag = .normal := by
        cases hf : st'.flag <;> simp_all [Flag.skipRest]
      exact ih st' ⟨hn, hpost (by simp [hn])⟩

/-- `visit_function_call`: the scope pushed for the call is popped after a successful body, so
    `pop_scope`'s assertion holds; the callee runs in a fresh `ExecStmt` -/
theorem mok_callFunction {rec : Rec N} (hrec : RecOk rec) {k : Nat} (hk : 1 ≤ k)
    (name : VarName) (args : List (Expr N)) : MOk k (fun _ => True) (callFunction rec name args) := by
  unfold callFunction
  refine mok_get.bind fun env _ => (mok_liftE _).bind fun pb _ => ?_
  obtain ⟨params, body⟩ := pb
  dsimp only
  split
  · exact mok_fail _
  · refine (mok_evalArgs hrec hk args).bind fun vals _ => mok_tick.bind fun _ _ => ?_
    exact mok_scoped hk (tri_pushFunctionScope _)
      (mok_execStmts hrec (Nat.le_succ_of_le hk) body.stmts {} ⟨rfl, rfl⟩)
      (fun st _ => MOk.pure _ trivial)

theorem mok_evalPrimary {rec : Rec N} (hrec : RecOk rec) {k : Nat} (hk : 1 ≤ k) (p : Primary N) :
    MOk k (fun _ => True) (evalPrimary rec p) := by
  cases p with
  | lit l r => exact MOk.pure _ trivial
  | ident i r => exact mok_evalIdent i
  | sub arr idx => exact mok_index (hrec.evalPrimary arr k hk) (hrec.evalPrimary idx k hk)
  | call name r args => exact mok_callFunction hrec hk name args
  | pop arr => exact mok_evalPop hrec hk arr

theorem mok_evalExpr {rec : Rec N} (hrec : RecOk rec) {k : Nat} (hk : 1 ≤ k) (e : Expr N) :
    MOk k (fun _ => True) (evalExpr rec e) := by
  cases e with
  | prim p => exact hrec.evalPrimary p k hk
  | bin op l f r =>
    exact (hrec.evalExpr l k hk).bind fun lv _ => mok_foldOp hrec hk op lv (f :: r)
  | un op e =>
    refine (hrec.evalExpr e k hk).bind fun v _ => ?_
    cases op
    · exact mok_liftV _ (Val.negate_noCrash v)
    · exact MOk.pure _ trivial

theorem mok_evalLhs {rec : Rec N} (hrec : RecOk rec) {k : Nat} (hk : 1 ≤ k) (l : Lhs N) :
    MOk k (fun _ => True) (evalLhs rec l) := by
  cases l with
  | ident i r => exact mok_evalIdent i
  | sub arr idx => exact mok_index (hrec.evalPrimary arr k hk) (hrec.evalPrimary idx k hk)

/-! ### ExecStmt -/

/-- `visit_loop`: each round's scope is popped after a successful body; `Continuing`/`Breaking`
    are consumed here, and since a return value is only set together with `Returning`, the next
    round starts with flag `Normal` and no return value -/
theorem mok_loopGo {rec : Rec N} (hrec : RecOk rec) {k : Nat} (hk : 1 ≤ k) (invert : Bool)
    (cond : Expr N) (body : List (Stmt N)) (n : Nat) (st : ExecSt N) (hst : StPre st) :
    MOk k StPost (loopGo rec invert cond body n st) := by
  induction n generalizing st with
  | zero => exact mok_outOfResource
  | succ n ih =>
    simp only [loopGo]
    refine (hrec.evalExpr cond k hk).bind fun c _ => ?_
    split
    · refine mok_tick.bind fun _ _ => ?_
      refine mok_scoped hk tri_pushScope
        (mok_execStmts hrec (Nat.le_succ_of_le hk) body st hst) (fun st' hpost => ?_)
      split
      · rename_i h
        exact ih st' ⟨h, hpost (by simp [h])⟩
      · rename_i h
        exact ih { st' with flag := .normal } ⟨rfl, hpost (by simp [h])⟩
      · rename_i h
        exact MOk.pure _ (fun _ => hpost (by simp [h]))
      · exact MOk.pure _ hpost
    · exact MOk.pure _ hst.post

theorem mok_execLoop {rec : Rec N} (hrec : RecOk rec) {k : Nat} (hk : 1 ≤ k) (invert : Bool)
    (cond : Expr N) (body : Block N) (st : ExecSt N) (hst : StPre st) :
    MOk k StPost (execLoop rec invert cond body st) :=
  mok_get.bind fun env _ => mok_loopGo hrec hk invert cond body.stmts _ st hst

/-- `fatal (write …); pure st` -/
theorem mok_writeThen {k : Nat} {w : Writer N} {o : M N (WOut N)} (h : WOk k w o)
    {st : ExecSt N} (hst : StPre st) : MOk k StPost (do fatal o; pure st) :=
  (mok_fatal h).bind fun _ _ => MOk.pure _ hst.post

/-- value of a poetic literal: the `unreachable!()` arms are dead -/
theorem mok_poetic {k : Nat} {α : Type} (elems : List PoeticElem) (f : N → α) :
    MOk k (fun _ => True)
      (match (Poetic.computeValue elems : Outcome Unit N) with
       | .ok n => pure (f n)
       | .crash site => M.crash site
       | _ => M.crash .poeticLeadingSuffix : M N α) :=
  MOk.pure _ trivial

/-- `ExecStmt`: no statement crashes — the `debug_assert!`s on the control-flow state hold
    because every statement starts with flag `Normal` and no return value -/
theorem mok_execStmt {rec : Rec N} (hrec : RecOk rec) {k : Nat} (hk : 1 ≤ k) (s : Stmt N)
    (st : ExecSt N) (hst : StPre st) : MOk k StPost (execStmt rec s st) := by
  unfold execStmt
  refine mok_tick.bind fun _ _ => ?_
  cases s with
  | assign dest op value =>
    dsimp only
    refine MOk.bind (p := fun _ => True) ?_ (fun newVal _ =>
      mok_writeThen (wok_writeLhs hrec _ (assignW_noCrash newVal) hk dest) hst)
    cases op with
    | some o =>
      exact (mok_evalLhs hrec hk dest).bind fun l _ => mok_foldOp hrec hk o l _
    | none =>
      dsimp only
      split
      · exact mok_fail _
      · exact hrec.evalExpr _ k hk
  | poeticNum dest rhs =>
    dsimp only
    refine MOk.bind (p := fun _ => True) ?_ (fun v _ =>
      mok_writeThen (wok_writeLhs hrec _ (assignW_noCrash v) hk dest) hst)
    cases rhs with
    | expr e => exact hrec.evalExpr e k hk
    | lit elems => exact mok_poetic elems _
  | poeticStr dest str =>
    exact mok_writeThen (wok_writeLhs hrec _ (assignW_noCrash _) hk dest) hst
  | ifS cond thenB elseB =>
    dsimp only
    refine (hrec.evalExpr cond k hk).bind fun c _ => ?_
    refine mok_scoped hk tri_pushScope (p := StPost) ?_ (fun st' hpost => MOk.pure _ hpost)
    have hk' : 1 ≤ k + 1 := Nat.le_succ_of_le hk
    split
    · exact mok_execStmts hrec hk' _ st hst
    · split
      · exact mok_execStmts hrec hk' _ st hst
      · exact MOk.pure _ hst.post
  | whileS cond body => exact mok_execLoop hrec hk false cond body st hst
  | untilS cond body => exact mok_execLoop hrec hk true cond body st hst
  | inc dest r amount =>
    exact mok_writeThen
      (wok_writeIdent _ (liftW_noCrash _ (fun v => Val.inc_noCrash v _)) hk dest) hst
  | dec dest r amount =>
    exact mok_writeThen
      (wok_writeIdent _ (liftW_noCrash _ (fun v => Val.inc_noCrash v _)) hk dest) hst
  | input dest loc =>
    dsimp only
    refine mok_inputLine.bind fun line _ => ?_
    cases dest with
    | some d => exact mok_writeThen (wok_writeLhs hrec _ (assignW_noCrash _) hk d) hst
    | none => exact MOk.pure _ hst.post
  | output value =>
    dsimp only
    refine (hrec.evalExpr value k hk).bind fun v _ => ?_
    refine (mok_liftV _ (Val.toOutput_noCrash v)).bind fun text _ => ?_
    exact (mok_output text).bind fun _ _ => MOk.pure _ hst.post
  | mutation op operand dest param =>
    dsimp only
    refine (mok_evalOpt hrec hk param).bind fun p _ => ?_
    cases dest with
    | some d =>
      dsimp only
      refine (hrec.evalPrimary operand k hk).bind fun v _ => ?_
      refine (mok_liftV _ (mutate_noCrash op v p)).bind fun v' _ => ?_
      exact mok_writeThen (wok_writeLhs hrec _ (assignW_noCrash v') hk d) hst
    | none =>
      exact mok_writeThen
        (hrec.writePrimary _ operand k hk (liftW_noCrash _ (fun v => mutate_noCrash op v p))) hst
  | rounding dir operand =>
    exact mok_writeThen
      (hrec.writeExpr _ operand k hk (liftW_noCrash _ (roundW_noCrash dir))) hst
  | continue_ r =>
    dsimp only
    refine (mok_assert _ _ (by simp [hst.1])).bind fun _ _ => MOk.pure _ (fun _ => hst.2)
  | break_ r =>
    dsimp only
    refine (mok_assert _ _ (by simp [hst.1])).bind fun _ _ => MOk.pure _ (fun _ => hst.2)
  | push arr value =>
    dsimp only
    refine MOk.bind (p := fun _ => True) ?_ (fun vals _ =>
      mok_writeThen (hrec.writePrimary _ arr k hk
        (liftW_noCrash _ (fun v => Val.push_noCrash v vals))) hst)
    cases value with
    | none => exact MOk.pure _ trivial
    | some rhs =>
      cases rhs with
      | list l => exact mok_evalArgs hrec hk _
      | lit elems => exact mok_poetic elems (fun n => [Val.num n])
  | pop arr dest =>
    dsimp only
    refine (mok_evalPop hrec hk arr).bind fun back _ => ?_
    cases dest with
    | some d => exact mok_writeThen (wok_writeLhs hrec _ (assignW_noCrash back) hk d) hst
    | none => exact MOk.pure _ hst.post
  | ret value =>
    dsimp only
    refine (mok_assert _ _ (by simp [hst.2])).bind fun _ _ => ?_
    refine (hrec.evalExpr value k hk).bind fun v _ => ?_
    refine (mok_assert _ _ (by simp [hst.1])).bind fun _ _ => ?_
    exact MOk.pure _ (fun h => absurd rfl h)
  | func name r params body =>
    dsimp only
    exact (mok_createFunc hk _ _ _).bind fun _ _ => MOk.pure _ hst.post
  | call name r args =>
    dsimp only
    exact (mok_callFunction hrec hk name args).bind fun _ _ => MOk.pure _ hst.post

/-! ### induction on fuel -/

theorem recOk_bottom : RecOk (bottom : Rec N) where
  evalExpr _ _ _ := mok_outOfFuel
  evalPrimary _ _ _ := mok_outOfFuel
  writeExpr _ _ _ _ _ := fun _ _ => trivial
  writePrimary _ _ _ _ _ := fun _ _ => trivial
  execStmt _ _ _ _ _ := mok_outOfFuel

theorem recOk_mkRec {rec : Rec N} (h : RecOk rec) : RecOk (mkRec rec) where
  evalExpr e _ hk := mok_evalExpr h hk e
  evalPrimary p _ hk := mok_evalPrimary h hk p
  writeExpr w e _ hk hw := wok_writeExpr h w hw hk e
  writePrimary w p _ hk hw := wok_writePrimary h w hw hk p
  execStmt s st _ hk hst := mok_execStmt h hk s st hst

theorem recOk_interp (n : Nat) : RecOk (interp n : Rec N) := by
  induction n with
  | zero => exact recOk_bottom
  | succ n ih => exact recOk_mkRec ih

/-- `visit_program` (repaired): a pending flag after a top-level block ends the program, so every
    block starts with flag `Normal` and no return value -/
theorem mok_execBlocks {rec : Rec N} (hrec : RecOk rec) {k : Nat} (hk : 1 ≤ k)
    (bs : List (Block N)) (st : ExecSt N) (hst : StPre st) :
    MOk k StPost (execBlocks rec bs st) := by
  induction bs generalizing st with
  | nil => exact MOk.pure _ hst.post
  | cons b bs ih =>
    simp only [execBlocks]
    refine (mok_execStmts hrec hk b.stmts st hst).bind fun st' hpost => ?_
    split
    · exact MOk.pure _ hpost
    · rename_i hskip
      have hn : st'.flag = .normal := by
        cases hf : st'.flag <;> simp_all [Flag.skipRest]
      exact ih st' ⟨hn, hpost (by simp [hn])⟩

theorem mok_execProgram (fuel : Nat) (p : Program N) {k : Nat} (hk : 1 ≤ k) :
    MOk k (fun _ => True) (execProgram fuel p) :=
  (mok_execBlocks (recOk_interp fuel) hk p.code {} ⟨rfl, rfl⟩).bind fun _ _ => MOk.pure _ trivial

end C09
end Rrss
