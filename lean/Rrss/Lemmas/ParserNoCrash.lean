/-
  Rrss.Lemmas.ParserNoCrash — the parser never reaches one of its crash sites and every error
  it returns renders.

  `Spec p post` (Rrss.Lemmas.ParserInv): started on a state satisfying the invariant `StOk`
  (tokens `ToksOk`, snapshots in range), `p` does not crash, does not answer `resource`, an
  error is `ErrRenderable`, and an `ok` result is again a `StOk` state satisfying `post`.
  `Safe p = Spec p True`. The fields of `rec` are assumed `Safe` (`RecOk rec`); every
  non-recursive parser function `f rec` is shown `Safe` (functions that start with `consume`:
  under the hypothesis that the current token has the kind the caller just peeked). No fuel
  index is needed: this is a safety property, `fuelRec` satisfies it trivially.
  Same order as Rrss.Lemmas.ParserFuelBase.
-/
import Rrss.Lemmas.ParserInv
namespace Rrss
namespace Parser

variable {N : Type} {α β : Type}

/-- the hypothesis on `rec`: every field is safe -/
structure RecOk (rec : Rec N) : Prop where
  unary : Safe rec.unary
  primary : Safe rec.primary
  subscriptChain : ∀ a i, Safe (rec.subscriptChain a i)
  binLoop : ∀ l e, Safe (rec.binLoop l e)
  listLoop : ∀ l, Safe (rec.listLoop l)
  fancyLoop : ∀ e, Safe (rec.fancyLoop e)
  argsLoop : Safe rec.argsLoop
  paramsLoop : Safe rec.paramsLoop
  poeticLoop : Safe rec.poeticLoop
  buildKnockLoop : ∀ k, Safe (rec.buildKnockLoop k)
  capitalizedLoop : Safe rec.capitalizedLoop
  block : Safe rec.block
  functionBlock : Safe rec.functionBlock
  stmtLoop : Safe rec.stmtLoop
  fnStmtLoop : Safe rec.fnStmtLoop
  topLoop : Safe rec.topLoop
  expression : Safe rec.expression
  program : Safe rec.program

/-! ### proof search -/

theorem headIs_of_head? {m : Tok N → Bool} {st : PState N} {t : Tok N}
    (h : st.toks.head? = some t) (hm : m t = true) : headIs m st = true := by
  unfold headIs
  cases ht : st.toks with
  | nil => simp [ht] at h
  | cons u us => simp [ht] at h; subst h; exact hm

theorem toks_of_head? {st : PState N} {t : Tok N} (h : st.toks.head? = some t) :
    ∃ ts, st.toks = t :: ts := by
  cases ht : st.toks with
  | nil => simp [ht] at h
  | cons u us => simp [ht] at h; subst h; exact ⟨us, rfl⟩

theorem errRenderable_unexpected_of_headIs {m : Tok N → Bool} {st : PState N}
    (h : headIs m st = true) : ErrRenderable ⟨.unexpectedToken, errLocOf st⟩ := by
  obtain ⟨t, ts, ht, _⟩ := headIs_iff.mp h
  exact errRenderable_unexpected_at ht

theorem errRenderable_unexpected_of_head? {st : PState N} {t : Tok N}
    (h : st.toks.head? = some t) : ErrRenderable ⟨.unexpectedToken, errLocOf st⟩ := by
  obtain ⟨ts, ht⟩ := toks_of_head? h
  exact errRenderable_unexpected_at ht

/-- calls: `wp x ?post st` from the specification of `x` -/
syntax "wleaf" : tactic
macro_rules | `(tactic| wleaf) => `(tactic| with_reducible first
  | exact currentLoc_safe _ ‹_›
  | exact advance_safe _ ‹_›
  | exact matchAndConsume_spec _ _ ‹_›
  | exact consume_spec _ ‹_› ‹_›
  | exact matchAndConsumeP_isCapitalizedWord_safe _ ‹_›
  | exact RecOk.unary ‹_› _ ‹_›
  | exact RecOk.primary ‹_› _ ‹_›
  | exact RecOk.subscriptChain ‹_› _ _ _ ‹_›
  | exact RecOk.binLoop ‹_› _ _ _ ‹_›
  | exact RecOk.listLoop ‹_› _ _ ‹_›
  | exact RecOk.fancyLoop ‹_› _ _ ‹_›
  | exact RecOk.argsLoop ‹_› _ ‹_›
  | exact RecOk.paramsLoop ‹_› _ ‹_›
  | exact RecOk.poeticLoop ‹_› _ ‹_›
  | exact RecOk.buildKnockLoop ‹_› _ _ ‹_›
  | exact RecOk.capitalizedLoop ‹_› _ ‹_›
  | exact RecOk.block ‹_› _ ‹_›
  | exact RecOk.functionBlock ‹_› _ ‹_›
  | exact RecOk.stmtLoop ‹_› _ ‹_›
  | exact RecOk.fnStmtLoop ‹_› _ ‹_›
  | exact RecOk.topLoop ‹_› _ ‹_›)

/-- register `foo_safe : Spec foo post` -/
macro "register_spec " id:ident : command =>
  `(macro_rules | `(tactic| wleaf) => `(tactic| with_reducible exact $id _ ‹_›))

/-- register `foo_safe (hr : RecOk rec) : Spec (foo rec) post` -/
macro "register_safe " id:ident : command =>
  `(macro_rules | `(tactic| wleaf) => `(tactic| with_reducible exact $id ‹_› _ ‹_›))

/-- register `foo_safe (hr : RecOk rec) (hst : StOk st) (hh : headIs m st = true) : wp (foo rec) _ st` -/
macro "register_head " id:ident : command =>
  `(macro_rules | `(tactic| wleaf) => `(tactic| with_reducible first
      | exact $id ‹_› ‹_› ‹_›
      | exact $id ‹_› ‹_› (headIs_of_head? ‹_› (by simp [isKind, isAnyKind, *]))))


theorem setParsingList_safe {b : Bool} : Safe (setParsingList b : P N _) := by
  intro st hst; exact (wp_setParsingList _ _ _).mpr ⟨hst.setParsingList b, trivial⟩
register_spec setParsingList_safe

/-- hypotheses `Safe p` of generic lemmas -/
macro_rules | `(tactic| wleaf) => `(tactic| with_reducible exact (by assumption : Safe _) _ ‹_›)

/-- the end of a branch: a result, an error, a final call -/
macro "wend" : tactic => `(tactic| first
  | (with_reducible refine (wp_pure _ _ _).mpr ?_; exact ⟨‹_›, trivial⟩)
  | (with_reducible refine (wp_pure' _ _ _).mpr ?_; exact ⟨‹_›, trivial⟩)
  | (with_reducible refine (wp_failWith _ _ _).mpr ?_; first
      | exact errRenderable_of_codeSafe rfl
      | exact errRenderable_unexpected_of_headIs ‹_›
      | exact errRenderable_unexpected_of_head? ‹_›)
  | (with_reducible refine (wp_fail _ _ _).mpr ?_; exact errRenderable_unexpected)
  | (refine wp_mono (by wleaf) ?_; rintro a st' ⟨hst, hq⟩; exact ⟨hst, trivial⟩))

set_option hygiene false in
/-- one step of sequencing; the result, the new state and the facts about them are named
    `a`, `st'`, `hst`, `hq` -/
macro "wbind" : tactic => `(tactic| (
  with_reducible refine (wp_bind _ _ _ _).mpr ?_
  first
  | (with_reducible refine (wp_current _ _).mpr ?_; try dsimp only)
  | (with_reducible refine (wp_currentMatches _ _ _).mpr ?_; try dsimp only)
  | (with_reducible refine (wp_getParsingList _ _).mpr ?_; try dsimp only)
  | (with_reducible refine (wp_pure _ _ _).mpr ?_; try dsimp only)
  | (with_reducible refine (wp_pure' _ _ _).mpr ?_; try dsimp only)
  | (refine wp_mono (by wleaf) ?_; rintro a st' ⟨hst, hq⟩; try dsimp only)
  | (refine wp_mono (post := fun _ st' => StOk st' ∧ True) ?_ ?_)))

set_option hygiene false in
/-- proof search -/
macro "wauto" : tactic => `(tactic| repeat (first
  | wbind
  | wend
  | split
  | (rintro a st' ⟨hst, hq⟩; try dsimp only)))

/-! ### operator tables -/

theorem unop_some {t : Tok N} (h : isAnyKind [.minus, .not] t = true) :
    ∃ op, getUnaryOperator t.kind = some op := by
  unfold isAnyKind at h
  generalize t.kind = k at h
  cases k <;> first | exact ⟨_, rfl⟩ | simp at h

theorem binop_some {ks : List TK} {t : Tok N}
    (hks : ∀ k ∈ ks, (getBinaryOperator k).isSome = true) (h : isAnyKind ks t = true) :
    ∃ op, getBinaryOperator t.kind = some op := by
  unfold isAnyKind at h
  have := hks t.kind (by simpa using h)
  exact Option.isSome_iff_exists.mp this

theorem opsOf_binop (lvl : Level) : ∀ k ∈ opsOf lvl, (getBinaryOperator k).isSome = true := by
  cases lvl <;> decide

theorem mutop_some {t : Tok N} (h : isAnyKind [.cut, .join, .cast] t = true) :
    ∃ op, getMutationOperator t.kind = some op := by
  unfold isAnyKind at h
  generalize t.kind = k at h
  cases k <;> first | exact ⟨_, rfl⟩ | simp at h

/-! ### the functions of the parser, bottom-up -/

theorem expectToken_safe {k : TK} : Safe (expectToken k : P N _) := by
  intro st hst; unfold expectToken; pnorm; wauto
register_spec expectToken_safe

theorem expectTokenOrEnd_safe {k : TK} : Safe (expectTokenOrEnd k : P N _) := by
  intro st hst; unfold expectTokenOrEnd; pnorm; wauto
register_spec expectTokenOrEnd_safe

/-- `expect_any` with a non-empty list: the token returned has one of the kinds, is a good token
    and lies before all remaining tokens -/
theorem expectAny_spec {ks : List TK} (hks : ks ≠ []) :
    Spec (expectAny ks : P N _) (fun t st' =>
      isAnyKind ks t = true ∧ TokOk st'.src t ∧ ∀ u ∈ st'.toks, Before t u) := by
  intro st hst; unfold expectAny; pnorm
  wbind
  split
  · refine (wp_pure _ _ _).mpr ⟨hst, hq _ rfl⟩
  · refine (wp_failWith _ _ _).mpr (errRenderable_of_codeSafe ?_)
    cases ks with
    | nil => exact absurd rfl hks
    | cons k ks => rfl
macro_rules | `(tactic| wleaf) => `(tactic| with_reducible
  exact expectAny_spec (List.cons_ne_nil _ _) _ ‹_›)

theorem expectEol_safe : Safe (expectEol : P N _) := by
  intro st hst; unfold expectEol; pnorm; wauto
register_spec expectEol_safe

set_option linter.unusedSectionVars false
variable [CharOps]

theorem expectTokenIspelled_safe {t : Str} : Safe (expectTokenIspelled t : P N _) := by
  intro st hst; unfold expectTokenIspelled; pnorm; wauto
register_spec expectTokenIspelled_safe

theorem parsePronoun_safe : Safe (parsePronoun : P N _) := by
  intro st hst; unfold parsePronoun; pnorm; wauto
register_spec parsePronoun_safe

theorem parseLiteralExpression_safe : Safe (parseLiteralExpression : P N _) := by
  intro st hst; unfold parseLiteralExpression; pnorm; wauto
register_spec parseLiteralExpression_safe

theorem parseCommonIdentifier_safe : Safe (parseCommonIdentifier : P N _) := by
  intro st hst; unfold parseCommonIdentifier; pnorm; wauto
register_spec parseCommonIdentifier_safe

theorem parseSimpleIdentifier_safe : Safe (parseSimpleIdentifier : P N _) := by
  intro st hst; unfold parseSimpleIdentifier; pnorm; wauto
register_spec parseSimpleIdentifier_safe

variable {rec : Rec N}

theorem capitalizedLoopBody_safe (hr : RecOk rec) : Safe (capitalizedLoopBody rec) := by
  intro st hst; unfold capitalizedLoopBody; pnorm; wauto
register_safe capitalizedLoopBody_safe

/-- `AccumulatedRange` after at least one `acc` holds a range -/
theorem accRanges_cons (r : Range) (rs : List Range) :
    accRanges (r :: rs) = some (rs.foldl Range.concat r) := by
  unfold accRanges
  simp only [List.foldl_cons]
  induction rs generalizing r with
  | nil => rfl
  | cons x xs ih => simp only [List.foldl_cons]; exact ih _

theorem parseCapitalizedIdentifier_safe (hr : RecOk rec) :
    Safe (parseCapitalizedIdentifier rec) := by
  intro st hst; unfold parseCapitalizedIdentifier; pnorm
  wbind
  split
  · wauto
  · simp only [List.map_cons, List.map_nil, List.head?_cons, accRanges_cons, ofOption_some]
    wauto
  · simp only [List.map_cons, accRanges_cons, ofOption_some]
    wauto
register_safe parseCapitalizedIdentifier_safe

theorem parseVariableName_safe (hr : RecOk rec) : Safe (parseVariableName rec) := by
  intro st hst; unfold parseVariableName; pnorm; wauto
register_safe parseVariableName_safe

theorem parseIdentifier_safe (hr : RecOk rec) : Safe (parseIdentifier rec) := by
  intro st hst; unfold parseIdentifier; pnorm; wauto
register_safe parseIdentifier_safe

theorem expectIdentifier_safe (hr : RecOk rec) : Safe (expectIdentifier rec) := by
  intro st hst; unfold expectIdentifier; pnorm; wauto
register_safe expectIdentifier_safe

theorem expectVariableName_safe (hr : RecOk rec) : Safe (expectVariableName rec) := by
  intro st hst; unfold expectVariableName; pnorm; wauto
register_safe expectVariableName_safe

theorem paramLoopBody_safe {γ : Type} {p : P N γ} {again : P N (List γ)} {rc : Bool}
    (hp : Safe p) (ha : Safe again) : Safe (paramLoopBody p again rc) := by
  intro st hst; unfold paramLoopBody; pnorm; wauto

theorem parseParameterList_safe {γ : Type} {p : P N γ} {again : P N (List γ)} {rc : Bool}
    (hp : Safe p) (ha : Safe again) : Safe (parseParameterList p again rc) := by
  have := paramLoopBody_safe (rc := rc) hp ha
  intro st hst; unfold parseParameterList; pnorm; wauto

theorem argsLoopBody_safe (hr : RecOk rec) : Safe (argsLoopBody rec) :=
  paramLoopBody_safe hr.unary hr.argsLoop
register_safe argsLoopBody_safe

theorem parseFunctionCall_safe (hr : RecOk rec) {st : PState N} (hst : StOk st)
    (hh : headIs (isKind .taking) st = true) :
    wp (parseFunctionCall rec) (fun _ st' => StOk st' ∧ True) st := by
  have := parseParameterList_safe (rc := false) hr.unary hr.argsLoop
  unfold parseFunctionCall; pnorm; wauto
register_head parseFunctionCall_safe

theorem parseIdentifierOrFunctionCall_safe (hr : RecOk rec) :
    Safe (parseIdentifierOrFunctionCall rec) := by
  intro st hst; unfold parseIdentifierOrFunctionCall; pnorm; wauto
register_safe parseIdentifierOrFunctionCall_safe

theorem parseArrayPopExpr_safe (hr : RecOk rec) : Safe (parseArrayPopExpr rec) := by
  intro st hst; unfold parseArrayPopExpr; pnorm; wauto
register_safe parseArrayPopExpr_safe

theorem parseNonSubscriptPrimary_safe (hr : RecOk rec) :
    Safe (parseNonSubscriptPrimary rec) := by
  intro st hst; unfold parseNonSubscriptPrimary; pnorm; wauto
register_safe parseNonSubscriptPrimary_safe

theorem subscriptChain_safe (hr : RecOk rec) (a i : Primary N) :
    Safe (subscriptChain rec a i) := by
  intro st hst; unfold subscriptChain; pnorm; wauto
macro_rules | `(tactic| wleaf) => `(tactic| with_reducible exact subscriptChain_safe ‹_› _ _ _ ‹_›)

theorem parseArraySubscriptAfter_safe (hr : RecOk rec) (e : Primary N) :
    Safe (parseArraySubscriptAfter rec e) := by
  intro st hst; unfold parseArraySubscriptAfter; pnorm; wauto
macro_rules | `(tactic| wleaf) => `(tactic| with_reducible
  exact parseArraySubscriptAfter_safe ‹_› _ _ ‹_›)

theorem parseAssignmentLhsWith_safe (hr : RecOk rec) (i : Ident) (r : Range) :
    Safe (parseAssignmentLhsWith rec i r) := by
  intro st hst; unfold parseAssignmentLhsWith; pnorm; wauto
macro_rules | `(tactic| wleaf) => `(tactic| with_reducible
  exact parseAssignmentLhsWith_safe ‹_› _ _ _ ‹_›)

theorem parseAssignmentLhs_safe (hr : RecOk rec) : Safe (parseAssignmentLhs rec) := by
  intro st hst; unfold parseAssignmentLhs; pnorm; wauto
register_safe parseAssignmentLhs_safe

theorem parsePrimary_safe (hr : RecOk rec) : Safe (parsePrimary rec) := by
  intro st hst; unfold parsePrimary; pnorm; wauto
register_safe parsePrimary_safe

theorem parseUnary_safe (hr : RecOk rec) : Safe (parseUnary rec) := by
  intro st hst; unfold parseUnary; pnorm
  wbind
  split
  · obtain ⟨op, hop⟩ := unop_some (hq _ rfl).1
    rw [hop, ofOption_some]; wauto
  · wauto
register_safe parseUnary_safe

theorem listLoopBody_safe (hr : RecOk rec) (lvl : Level) {next : P N (Expr N)}
    (hn : Safe next) : Safe (listLoopBody rec lvl next) := by
  intro st hst; unfold listLoopBody; pnorm; wauto

theorem parseExpressionList_safe (hr : RecOk rec) (lvl : Level) {next : P N (Expr N)}
    (hn : Safe next) : Safe (parseExpressionList rec lvl next) := by
  have := listLoopBody_safe hr lvl hn
  intro st hst; unfold parseExpressionList; pnorm; wauto

theorem binLoopBody_safe (hr : RecOk rec) (lvl : Level) {next : P N (Expr N)}
    (hn : Safe next) (e : Expr N) : Safe (binLoopBody rec lvl next e) := by
  have := parseExpressionList_safe hr lvl hn
  intro st hst; unfold binLoopBody; pnorm
  wbind
  split
  · wauto
  · obtain ⟨op, hop⟩ := binop_some (opsOf_binop lvl) (hq _ rfl).1
    rw [hop, ofOption_some]; wauto

theorem parseBinaryExpression_safe (hr : RecOk rec) (lvl : Level) {next : P N (Expr N)}
    (hn : Safe next) : Safe (parseBinaryExpression rec lvl next) := by
  have := binLoopBody_safe hr lvl hn
  intro st hst; unfold parseBinaryExpression; pnorm
  wbind
  exact this _ _ hst

theorem parseFactor_safe (hr : RecOk rec) : Safe (parseFactor rec) :=
  parseBinaryExpression_safe hr _ (parseUnary_safe hr)
register_safe parseFactor_safe

theorem parseTerm_safe (hr : RecOk rec) : Safe (parseTerm rec) :=
  parseBinaryExpression_safe hr _ (parseFactor_safe hr)
register_safe parseTerm_safe


theorem parseFancyComparison_safe (hr : RecOk rec) (e : Expr N) :
    Safe (parseFancyComparison rec e) := by
  intro st hst; unfold parseFancyComparison; pnorm
  wbind
  split
  · wbind
    obtain ⟨op, hop⟩ := binop_some (ks := [.big, .small]) (by decide) hq.1
    rw [hop, ofOption_some]; wauto
  · wbind
    split
    · obtain ⟨op, hop⟩ := binop_some (ks := [.bigger, .smaller]) (by decide) (hq _ rfl).1
      rw [hop, ofOption_some]; wauto
    · wauto
macro_rules | `(tactic| wleaf) => `(tactic| with_reducible
  exact parseFancyComparison_safe ‹_› _ _ ‹_›)

theorem fancyLoopBody_safe (hr : RecOk rec) (e : Expr N) : Safe (fancyLoopBody rec e) := by
  intro st hst; unfold fancyLoopBody; pnorm; wauto
macro_rules | `(tactic| wleaf) => `(tactic| with_reducible exact fancyLoopBody_safe ‹_› _ _ ‹_›)

theorem parseComparison_safe (hr : RecOk rec) : Safe (parseComparison rec) := by
  have := fun e => binLoopBody_safe hr .comparison (parseTerm_safe hr) e
  intro st hst; unfold parseComparison; pnorm
  wbind
  wbind
  split
  · wauto
  · exact this _ _ hst
register_safe parseComparison_safe

theorem parseLogical_safe (hr : RecOk rec) : Safe (parseLogical rec) :=
  parseBinaryExpression_safe hr _ (parseComparison_safe hr)
register_safe parseLogical_safe

theorem parseExpression_safe (hr : RecOk rec) : Safe (parseExpression rec) :=
  parseLogical_safe hr
register_safe parseExpression_safe

theorem parseToplevelExpressionList_safe (hr : RecOk rec) :
    Safe (parseToplevelExpressionList rec) :=
  parseExpressionList_safe hr _ (parseExpression_safe hr)
register_safe parseToplevelExpressionList_safe

theorem operandOf_safe (hr : RecOk rec) (lvl : Level) : Safe (operandOf rec lvl) := by
  cases lvl
  · exact parseComparison_safe hr
  · exact parseTerm_safe hr
  · exact parseFactor_safe hr
  · exact parseUnary_safe hr
  · exact parseExpression_safe hr

/-! ### statements -/

theorem parsePutAssignment_safe (hr : RecOk rec) {st : PState N} (hst : StOk st)
    (hh : headIs (isKind .put) st = true) :
    wp (parsePutAssignment rec) (fun _ st' => StOk st' ∧ True) st := by
  unfold parsePutAssignment; pnorm; wauto
register_head parsePutAssignment_safe

theorem parseLetAssignment_safe (hr : RecOk rec) {st : PState N} (hst : StOk st)
    (hh : headIs (isKind .let_) st = true) :
    wp (parseLetAssignment rec) (fun _ st' => StOk st' ∧ True) st := by
  unfold parseLetAssignment; pnorm
  wbind
  wbind
  wbind
  wbind
  split
  · obtain ⟨op, hop⟩ := binop_some (ks := [.plus, .with_, .minus, .multiply, .divide])
      (by decide) (hq _ rfl).1
    rw [hop, ofOption_some]; wauto
  · wauto
register_head parseLetAssignment_safe

theorem poeticLoopBody_safe (hr : RecOk rec) : Safe (poeticLoopBody rec) := by
  intro st hst; unfold poeticLoopBody; pnorm; wauto
register_safe poeticLoopBody_safe

theorem parsePoeticNumberLiteral_safe (hr : RecOk rec) : Safe (parsePoeticNumberLiteral rec) := by
  intro st hst; unfold parsePoeticNumberLiteral; pnorm; wauto
register_safe parsePoeticNumberLiteral_safe

/-- `current_or_error`: on success there is a current token -/
theorem currentOrError_spec : Spec (currentOrError : P N _) (fun _ st' => st'.toks ≠ []) := by
  intro st hst
  unfold wp currentOrError
  cases ht : st.toks with
  | nil => exact errRenderable_of_codeSafe rfl
  | cons t ts => exact ⟨hst, by simp [ht]⟩
register_spec currentOrError_spec

theorem isCurrentNegativeNumber_wp {st : PState N} (hst : StOk st) (h : st.toks ≠ []) :
    wp isCurrentNegativeNumber (fun _ st' => StOk st' ∧ True) st := by
  unfold wp isCurrentNegativeNumber
  cases ht : st.toks with
  | nil => exact absurd ht h
  | cons t ts => exact ⟨hst, trivial⟩
macro_rules | `(tactic| wleaf) => `(tactic| with_reducible exact isCurrentNegativeNumber_wp ‹_› ‹_›)

theorem parsePoeticNumberAssignmentRhs_safe (hr : RecOk rec) :
    Safe (parsePoeticNumberAssignmentRhs rec) := by
  intro st hst; unfold parsePoeticNumberAssignmentRhs; pnorm; wauto
register_safe parsePoeticNumberAssignmentRhs_safe

theorem mem_of_head? {γ : Type} {l : List γ} {x : γ} (h : l.head? = some x) : x ∈ l := by
  cases l with
  | nil => simp at h
  | cons y ys => simp at h; simp [h]

/-- `parse_poetic_string_assignment_rhs(says)`: `says` is a good token lying before all
    remaining tokens, so the text from `says` to the next line break (or to the end) is a slice
    of the source that starts with the spelling of `says` -/
theorem parsePoeticStringAssignmentRhs_safe {says : Tok N} {st : PState N} (hst : StOk st)
    (hs : TokOk st.src says) (hb : ∀ u ∈ st.toks, Before says u) :
    wp (parsePoeticStringAssignmentRhs says) (fun _ st' => StOk st' ∧ True) st := by
  unfold parsePoeticStringAssignmentRhs; pnorm
  refine wp_seq (matchUntilNext_wp .newline hst) ?_
  rintro stop st1 ⟨hst1, hsrc, hstop, hsub⟩
  have hlit : ∃ m, literalTextOf st1.src says stop = some (says.spelling ++ m) := by
    rw [hsrc]
    unfold literalTextOf
    cases hstop' : stop with
    | none => exact literalText_after hs.slice
    | some u =>
      have hu : u ∈ st.toks := hsub u (mem_of_head? (by rw [← hstop, hstop']))
      exact literalText_between hs.slice (hst.toks.1 u hu).slice (hb u hu)
  obtain ⟨m, hm⟩ := hlit
  refine (wp_bind _ _ _ _).mpr ?_
  have hg : wp (getLiteralText says stop) (fun a st' => st' = st1 ∧ a = says.spelling ++ m) st1 := by
    simp [wp, getLiteralText, hm]
  refine wp_mono hg ?_
  rintro text st2 ⟨rfl, rfl⟩
  rw [stripPrefix?_append, ofOption_some]
  have hst := hst1
  wauto

theorem parsePoeticAssignment_safe (hr : RecOk rec) (i : Ident) (r : Range) :
    Safe (parsePoeticAssignment rec i r) := by
  intro st hst; unfold parsePoeticAssignment; pnorm
  wbind
  wbind
  split
  · refine wp_seq (parsePoeticStringAssignmentRhs_safe hst hq.2.1 hq.2.2) ?_
    wauto
  · wauto
macro_rules | `(tactic| wleaf) => `(tactic| with_reducible
  exact parsePoeticAssignment_safe ‹_› _ _ _ ‹_›)

theorem paramsLoopBody_safe (hr : RecOk rec) : Safe (paramsLoopBody rec) :=
  paramLoopBody_safe (expectVariableName_safe hr) hr.paramsLoop
register_safe paramsLoopBody_safe

theorem parseFunction_safe (hr : RecOk rec) (name : VarName) (r : Range) {st : PState N}
    (hst : StOk st) (hh : headIs (isKind .takes) st = true) :
    wp (parseFunction rec name r) (fun _ st' => StOk st' ∧ True) st := by
  have := parseParameterList_safe (rc := false) (expectVariableName_safe hr) hr.paramsLoop
  unfold parseFunction; pnorm; wauto

theorem asVariableName_wp {i : Ident} {r : Range} {post : VarName × Range → PState N → Prop}
    {st : PState N} (h : ∀ v, post (v, r) st) : wp (asVariableName i r) post st := by
  unfold asVariableName
  cases i with
  | var v => exact (wp_pure' _ _ _).mpr (h v)
  | pronoun => exact (wp_failWith _ _ _).mpr (errRenderable_of_codeSafe rfl)

theorem headIs_of_map {st : PState N} {k : TK}
    (h : Option.map (fun t : Tok N => t.kind) st.toks.head? = some k) :
    headIs (isKind k) st = true := by
  unfold headIs
  cases ht : st.toks with
  | nil => simp [ht] at h
  | cons t ts => simp [ht] at h; simp [isKind, h]

theorem parseStatementStartingWithWord_safe (hr : RecOk rec) :
    Safe (parseStatementStartingWithWord rec) := by
  intro st hst; unfold parseStatementStartingWithWord; pnorm
  wbind
  wbind
  split
  · next heq =>
    refine (wp_bind _ _ _ _).mpr (asVariableName_wp fun v => ?_)
    exact parseFunction_safe hr _ _ hst (headIs_of_map heq)
  · next heq =>
    refine (wp_bind _ _ _ _).mpr (asVariableName_wp fun v => ?_)
    have := headIs_of_map heq
    dsimp only
    wauto
  · wauto
register_safe parseStatementStartingWithWord_safe

theorem parseIfStatement_safe (hr : RecOk rec) {st : PState N} (hst : StOk st)
    (hh : headIs (isKind .if_) st = true) :
    wp (parseIfStatement rec) (fun _ st' => StOk st' ∧ True) st := by
  unfold parseIfStatement; pnorm; wauto
register_head parseIfStatement_safe

theorem parseLoop_safe (hr : RecOk rec) (k : TK) {st : PState N} (hst : StOk st)
    (hh : headIs (isAnyKind [.while_, .until_]) st = true) :
    wp (parseLoop rec k) (fun _ st' => StOk st' ∧ True) st := by
  unfold parseLoop; pnorm; wauto
macro_rules | `(tactic| wleaf) => `(tactic| with_reducible
  exact parseLoop_safe ‹_› _ ‹_› (headIs_of_head? ‹_› (by simp [isKind, isAnyKind, *])))

theorem buildKnockLoopBody_safe (hr : RecOk rec) (k : TK) : Safe (buildKnockLoopBody rec k) := by
  intro st hst; unfold buildKnockLoopBody; pnorm; wauto
macro_rules | `(tactic| wleaf) => `(tactic| with_reducible
  exact buildKnockLoopBody_safe ‹_› _ _ ‹_›)

theorem parseBuildKnockHelper_safe (hr : RecOk rec) (b s : TK) {st : PState N} (hst : StOk st)
    (hh : headIs (isKind b) st = true) :
    wp (parseBuildKnockHelper rec b s) (fun _ st' => StOk st' ∧ True) st := by
  unfold parseBuildKnockHelper; pnorm; wauto
macro_rules | `(tactic| wleaf) => `(tactic| with_reducible
  exact parseBuildKnockHelper_safe ‹_› _ _ ‹_› ‹_›)

theorem parseBuild_safe (hr : RecOk rec) {st : PState N} (hst : StOk st)
    (hh : headIs (isKind .build) st = true) :
    wp (parseBuild rec) (fun _ st' => StOk st' ∧ True) st := by
  unfold parseBuild; pnorm; wauto
register_head parseBuild_safe

theorem parseKnock_safe (hr : RecOk rec) {st : PState N} (hst : StOk st)
    (hh : headIs (isKind .knock) st = true) :
    wp (parseKnock rec) (fun _ st' => StOk st' ∧ True) st := by
  unfold parseKnock; pnorm; wauto
register_head parseKnock_safe

theorem parseSay_safe (hr : RecOk rec) {st : PState N} (hst : StOk st)
    (hh : headIs (isAnyKind [.say, .sayAlias]) st = true) :
    wp (parseSay rec) (fun _ st' => StOk st' ∧ True) st := by
  unfold parseSay; pnorm; wauto
register_head parseSay_safe

theorem parseListen_safe (hr : RecOk rec) {st : PState N} (hst : StOk st)
    (hh : headIs (isKind .listen) st = true) :
    wp (parseListen rec) (fun _ st' => StOk st' ∧ True) st := by
  unfold parseListen; pnorm; wauto
register_head parseListen_safe

/-- `check_mutation_args` keeps the state; its error carries a non-identifier operand -/
theorem checkMutationArgs_safe {o : Primary N} {d : Option (Lhs N)} :
    Safe (checkMutationArgs o d) := by
  intro st hst; unfold checkMutationArgs
  cases d with
  | some _ => exact (wp_pure' _ _ _).mpr ⟨hst, trivial⟩
  | none =>
    cases o with
    | ident i r => exact (wp_pure' _ _ _).mpr ⟨hst, trivial⟩
    | _ => exact (wp_failWith _ _ _).mpr (errRenderable_of_codeSafe rfl)
register_spec checkMutationArgs_safe

theorem parseMutation_safe (hr : RecOk rec) {st : PState N} (hst : StOk st)
    (hh : headIs (isAnyKind [.cut, .join, .cast]) st = true) :
    wp (parseMutation rec) (fun _ st' => StOk st' ∧ True) st := by
  unfold parseMutation; pnorm
  wbind
  obtain ⟨op, hop⟩ := mutop_some hq
  rw [hop, ofOption_some]; wauto
register_head parseMutation_safe

theorem parseRoundingDirection_safe : Safe (parseRoundingDirection : P N _) := by
  intro st hst; unfold parseRoundingDirection; pnorm; wauto
register_spec parseRoundingDirection_safe

theorem parseRounding_safe (hr : RecOk rec) {st : PState N} (hst : StOk st)
    (hh : headIs (isKind .turn) st = true) :
    wp (parseRounding rec) (fun _ st' => StOk st' ∧ True) st := by
  unfold parseRounding; pnorm; wauto
register_head parseRounding_safe

theorem parseBreak_safe {st : PState N} (hst : StOk st)
    (hh : headIs (isKind .break_) st = true) :
    wp (parseBreak : P N _) (fun _ st' => StOk st' ∧ True) st := by
  unfold parseBreak; pnorm; wauto

theorem parseSimpleContinue_safe {st : PState N} (hst : StOk st)
    (hh : headIs (isKind .continue_) st = true) :
    wp (parseSimpleContinue : P N _) (fun _ st' => StOk st' ∧ True) st := by
  unfold parseSimpleContinue; pnorm; wauto

theorem parseTakeItToTheTop_safe {st : PState N} (hst : StOk st)
    (hh : headIs (isKind .take) st = true) :
    wp (parseTakeItToTheTop : P N _) (fun _ st' => StOk st' ∧ True) st := by
  unfold parseTakeItToTheTop; pnorm; wauto

macro_rules | `(tactic| wleaf) => `(tactic| with_reducible first
  | exact parseBreak_safe ‹_› (headIs_of_head? ‹_› (by simp [isKind, isAnyKind, *]))
  | exact parseSimpleContinue_safe ‹_› (headIs_of_head? ‹_› (by simp [isKind, isAnyKind, *]))
  | exact parseTakeItToTheTop_safe ‹_› (headIs_of_head? ‹_› (by simp [isKind, isAnyKind, *])))

theorem parseArrayPushRhs_safe (hr : RecOk rec) : Safe (parseArrayPushRhs rec) := by
  intro st hst; unfold parseArrayPushRhs; pnorm
  wbind
  split
  · wauto
  · have hk := (hq _ rfl).1
    split
    · wauto
    · wauto
    · next h1 h2 =>
      exfalso
      simp [isAnyKind] at hk
      rcases hk with hk | hk
      · exact h1 hk
      · exact h2 hk
register_safe parseArrayPushRhs_safe

theorem parseArrayPush_safe (hr : RecOk rec) {st : PState N} (hst : StOk st)
    (hh : headIs (isKind .rock) st = true) :
    wp (parseArrayPush rec) (fun _ st' => StOk st' ∧ True) st := by
  unfold parseArrayPush; pnorm; wauto
register_head parseArrayPush_safe

theorem parseArrayPop_safe (hr : RecOk rec) {st : PState N} (hst : StOk st)
    (hh : headIs (isKind .roll) st = true) :
    wp (parseArrayPop rec) (fun _ st' => StOk st' ∧ True) st := by
  unfold parseArrayPop; pnorm; wauto
register_head parseArrayPop_safe

theorem parseReturn_safe (hr : RecOk rec) {st : PState N} (hst : StOk st)
    (hh : headIs (isKind .return_) st = true) :
    wp (parseReturn rec) (fun _ st' => StOk st' ∧ True) st := by
  unfold parseReturn; pnorm; wauto
register_head parseReturn_safe

theorem parseStatement_safe (hr : RecOk rec) : Safe (parseStatement rec) := by
  intro st hst; unfold parseStatement; pnorm; wauto
register_safe parseStatement_safe

theorem stmtLoopBody_safe (hr : RecOk rec) : Safe (stmtLoopBody rec) := by
  intro st hst; unfold stmtLoopBody; pnorm; wauto
register_safe stmtLoopBody_safe

theorem parseBlock_safe (hr : RecOk rec) : Safe (parseBlock rec) := by
  intro st hst; unfold parseBlock; pnorm; wauto
register_safe parseBlock_safe

theorem fnStmtLoopBody_safe (hr : RecOk rec) : Safe (fnStmtLoopBody rec) := by
  intro st hst; unfold fnStmtLoopBody; pnorm; wauto
register_safe fnStmtLoopBody_safe

theorem parseFunctionBlock_safe (hr : RecOk rec) : Safe (parseFunctionBlock rec) := by
  intro st hst; unfold parseFunctionBlock; pnorm; wauto
register_safe parseFunctionBlock_safe

theorem topLoopAfterBlock_safe (hr : RecOk rec) (b : Block N) :
    Safe (topLoopAfterBlock rec b) := by
  intro st hst; unfold topLoopAfterBlock; pnorm; wauto
macro_rules | `(tactic| wleaf) => `(tactic| with_reducible
  exact topLoopAfterBlock_safe ‹_› _ _ ‹_›)

theorem topLoopBody_safe (hr : RecOk rec) : Safe (topLoopBody rec) := by
  intro st hst; unfold topLoopBody; pnorm; wauto
register_safe topLoopBody_safe

theorem parseProgramBody_safe (hr : RecOk rec) : Safe (parseProgramBody rec) := by
  intro st hst; unfold parseProgramBody; pnorm; wauto
register_safe parseProgramBody_safe

/-! ### tying the knot -/

theorem mkRec_ok (hr : RecOk rec) : RecOk (mkRec rec) where
  unary := parseUnary_safe hr
  primary := parsePrimary_safe hr
  subscriptChain := subscriptChain_safe hr
  binLoop := fun l e => binLoopBody_safe hr l (operandOf_safe hr l) e
  listLoop := fun l => listLoopBody_safe hr l (operandOf_safe hr l)
  fancyLoop := fancyLoopBody_safe hr
  argsLoop := argsLoopBody_safe hr
  paramsLoop := paramsLoopBody_safe hr
  poeticLoop := poeticLoopBody_safe hr
  buildKnockLoop := buildKnockLoopBody_safe hr
  capitalizedLoop := capitalizedLoopBody_safe hr
  block := parseBlock_safe hr
  functionBlock := parseFunctionBlock_safe hr
  stmtLoop := stmtLoopBody_safe hr
  fnStmtLoop := fnStmtLoopBody_safe hr
  topLoop := topLoopBody_safe hr
  expression := parseExpression_safe hr
  program := parseProgramBody_safe hr

theorem fuelRec_ok : RecOk (fuelRec : Rec N) := by
  constructor <;> intros <;> exact fuel_safe

/-- every field of the parser at every depth is safe -/
theorem parser_ok : ∀ n : Nat, RecOk (parser n : Rec N)
  | 0 => fuelRec_ok
  | n + 1 => mkRec_ok (parser_ok n)

end Parser
end Rrss
