/-
  Rrss.Lemmas.ParserNestedExamples — data for the non-vacuity examples of Rrss/Thm/C13Nested.lean
  (numbers are `Int`, ASCII tables): the text

      f takes x⏎ while x⏎ if x⏎ say 1⏎ else⏎ say 2⏎ put into x⏎ say 3⏎

  its 25 tokens `nToks` exactly as the lexer produces them (`nSrc_lexes`: kernel evaluation of the
  fuel copy of the lexer loop), the program context `nCtx` (a function containing a `while`
  containing an `if`/`else`, hole in the else-branch after `say 2⏎`), and the choices `nC` whose
  template tokens are the lexed tokens, so that `nCtx.toks nC` are the first 18 tokens of the text.
-/
import Rrss.Lemmas.ParserNested
import Rrss.Lemmas.ParserExamples
import Rrss.Lemmas.RoundTripSentences
import Rrss.Lemmas.LexerEval
import Rrss.NumInt
namespace Rrss
namespace NEx
open Parser Grammar Lexer

/-! ### decidable equality of `Int` tokens (scoped: `open scoped Rrss.NEx`) -/

def tokEqb (a b : Tok Int) : Bool :=
  a.kind == b.kind && a.spelling == b.spelling && a.start == b.start && a.range == b.range &&
    a.num == b.num && a.text == b.text && a.lexErr == b.lexErr && a.after == b.after

theorem tokEqb_iff (a b : Tok Int) : tokEqb a b = true ↔ a = b := by
  cases a; cases b
  simp [tokEqb, and_assoc]

scoped instance tokDecEq : DecidableEq (Tok Int) := fun a b => decidable_of_iff _ (tokEqb_iff a b)

/-! ### the text and its tokens -/

def nSrc : Str := str% "f takes x\nwhile x\nif x\nsay 1\nelse\nsay 2\nput into x\nsay 3\n"

/-- a token on line `ln` (which starts at byte `ls`) at byte `start` -/
def T (k : TK) (sp : Str) (start ln ls : Nat) : Tok Int :=
  { kind := k, spelling := sp, start := start,
    range := ⟨⟨ln, start - ls⟩, ⟨ln, start - ls + ulen sp⟩⟩, after := ⟨ln, ls, start + ulen sp⟩ }

/-- a line break: afterwards the lexer is on the next line -/
def NL (start ln ls : Nat) : Tok Int :=
  { T .newline (str% "\n") start ln ls with after := ⟨ln + 1, start + 1, start + 1⟩ }

/-- a number -/
def NUM (v : Int) (sp : Str) (start ln ls : Nat) : Tok Int :=
  { T .number sp start ln ls with num := some v }

def two38 : Tok Int := NUM 2 (str% "2") 38 6 34
def put40 : Tok Int := T .put (str% "put") 40 7 40
def into44 : Tok Int := T .into (str% "into") 44 7 40
def say51 : Tok Int := T .say (str% "say") 51 8 51
def three55 : Tok Int := NUM 3 (str% "3") 55 8 51

def nToks : List (Tok Int) :=
  [ T .word (str% "f") 0 1 0, T .takes (str% "takes") 2 1 0, T .word (str% "x") 8 1 0, NL 9 1 0,
    T .while_ (str% "while") 10 2 10, T .word (str% "x") 16 2 10, NL 17 2 10,
    T .if_ (str% "if") 18 3 18, T .word (str% "x") 21 3 18, NL 22 3 18,
    T .say (str% "say") 23 4 23, NUM 1 (str% "1") 27 4 23, NL 28 4 23,
    T .else_ (str% "else") 29 5 29, NL 33 5 29,
    T .say (str% "say") 34 6 34, two38, NL 39 6 34,
    put40, into44, T .word (str% "x") 49 7 40, NL 50 7 40,
    say51, three55, NL 56 8 51 ]

/-- the text lexes to exactly these tokens (ASCII tables, integer numbers, the real keyword table) -/
theorem nSrc_lexes : @lexAll Int asciiOps numOpsInt defaultKeywords nSrc = .ok nToks := by
  have h : (match @lexLoopF Int asciiOps numOpsInt defaultKeywords 100 (LexState.init nSrc) with
      | .ok raw => decide (raw = nToks)
      | _ => false) = true := by decide +kernel
  split at h
  · next raw hl =>
    have := @lexLoopF_sound Int asciiOps numOpsInt defaultKeywords 100 _ raw hl
    rw [of_decide_eq_true h] at this
    exact this
  · cases h

/-- the parser state `parse(nSrc)` starts in -/
def nState : PState Int := initState nSrc nToks

theorem nSnapOK : SnapOK nSrc ⟨1, 0, 0⟩ := ⟨Nat.zero_le _, Nat.le_refl _⟩

/-! ### the context and its spelling -/

local instance : CharOps := asciiOps

/-- `f takes x⏎ while x⏎ if x⏎ say 1⏎ else⏎ say 2⏎ □` -/
def nBody : Ctx Int :=
  .whileS Grammar.Ex.xE .none
    (.ifElse Grammar.Ex.xE .none [Grammar.Ex.sayS 1 .none] (.next (Grammar.Ex.sayS 2 .none) .hole))

def nCtx : ProgCtx Int :=
  ⟨[], .func (Grammar.Ex.va (str% "f")) (Grammar.Ex.va (str% "x")) [] .none nBody⟩

/-- the choice paths of the 18 tokens of `nCtx`, in order -/
def nPaths : List (List Nat) :=
  [ [1,0,0,0], [1,0,1], [1,0,2,0], [1,0,4,1],
    [1,0,5,0,0], [1,0,5,0,1,0,0,0,0,1,0,0,0], [1,0,5,0,2,1],
    [1,0,5,0,3,0,0], [1,0,5,0,3,0,1,0,0,0,0,1,0,0,0], [1,0,5,0,3,0,2,1],
    [1,0,5,0,3,0,3,0,0], [1,0,5,0,3,0,3,0,1,0,0,0,0,1,0,0], [1,0,5,0,3,0,3,1,1],
    [1,0,5,0,3,0,4], [1,0,5,0,3,0,5],
    [1,0,5,0,3,0,6,0,0], [1,0,5,0,3,0,6,0,1,0,0,0,0,1,0,0], [1,0,5,0,3,0,6,1,1] ]

/-- the template of an unused path -/
def dflt : Tok Int := T .error [] 0 1 0

/-- first alternative everywhere (no blank line before the program, `say`, no punctuation); the
    template of the `i`-th token of the context is the `i`-th lexed token -/
def nC : Choices Int := ⟨fun _ => 0, fun p => nToks.getD (nPaths.idxOf p) dflt⟩

/-- choices spelling `say 3` with the lexed tokens `say51`, `three55` -/
def cSay3 : Choices Int :=
  ⟨fun _ => 0, fun p => if p = [0] then say51 else if p = [1,0,0,0,0,1,0,0] then three55 else dflt⟩

theorem getD_mem {α : Type} (l : List α) (i : Nat) (d : α) : l.getD i d ∈ d :: l := by
  rw [List.getD_eq_getElem?_getD]
  cases h : l[i]? with
  | none => simp
  | some a => simpa using Or.inr (List.mem_of_getElem? h)

theorem nC_sane : nC.Sane nSrc := by
  have h : ∀ t ∈ dflt :: nToks, SnapOK nSrc t.after := by
    have : (dflt :: nToks).all (fun t => decide (t.after.idx ≤ ulen nSrc) &&
        decide (t.after.lineStart ≤ t.after.idx)) = true := by decide +kernel
    intro t ht
    have := List.all_eq_true.mp this t ht
    simp only [Bool.and_eq_true, decide_eq_true_eq] at this
    exact this
  exact fun p => h _ (getD_mem _ _ _)

theorem nC_noIt : nC.NoIt := by
  have h : ∀ t ∈ dflt :: nToks, (CharOps.lower t.spelling == str% "it") = false := by
    have : (dflt :: nToks).all (fun t => !(CharOps.lower t.spelling == str% "it")) = true := by
      decide +kernel
    intro t ht
    simpa using List.all_eq_true.mp this t ht
  exact fun p => h _ (getD_mem _ _ _)

theorem nC_sane1 : (((nC.sub 1).sub 0).sub 5).Sane nSrc :=
  sane_sub (sane_sub (sane_sub nC_sane 1) 0) 5

/-- the context has none of the constructs whose parse depends on the templates: `Fits` holds -/
theorem nC_fits : nCtx.Fits nSrc nC :=
  progCtx_plain_fits nSrc nCtx nC (ab := false) (by decide +kernel) (fun h => by cases h)
theorem nC_fits1 : nBody.Fits nSrc (((nC.sub 1).sub 0).sub 5) :=
  ctx_plain_fits nSrc nBody _ (ab := false) (by decide +kernel) (fun h => by cases h)

theorem cSay3_sane : cSay3.Sane nSrc := by
  intro p
  show SnapOK nSrc (if p = [0] then say51 else if p = [1,0,0,0,0,1,0,0] then three55 else dflt).after
  split
  · exact ⟨by decide +kernel, by decide +kernel⟩
  · split
    · exact ⟨by decide +kernel, by decide +kernel⟩
    · exact ⟨by decide +kernel, by decide +kernel⟩

theorem cSay3_noIt : cSay3.NoIt := by
  intro p
  show (CharOps.lower (if p = [0] then say51 else if p = [1,0,0,0,0,1,0,0] then three55
    else dflt).spelling == str% "it") = false
  split
  · decide +kernel
  · split <;> decide +kernel

/-! ### a context with poetic statements (data of Rrss/Lemmas/RoundTripSentences.lean) -/

/-- `Tommy was a lovestruck ladykiller⏎ x says hello world⏎ □` -/
def pCtx : ProgCtx Int :=
  ⟨[], .next (.simple Grammar.Ex.tommyS .none) (.next (.simple Grammar.Ex.saysS .none) .hole)⟩

/-- `Fits` for it (the text of `x says …` is read from the source): part of `poeticProg_fits` -/
theorem pCtx_fits : pCtx.Fits Grammar.Ex.poeticSrc Grammar.Ex.cPoetic :=
  have h := Grammar.Ex.poeticProg_fits.1
  ⟨h.1, h.2.1, h.2.2.1, h.2.2.2.1, trivial⟩

end NEx
end Rrss
