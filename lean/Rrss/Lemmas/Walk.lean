/-
  Rrss.Lemmas.Walk — the traversal `Walk.*` (Rrss/Visit.lean) is, for every visitor whose
  `combine`/`dflt` form a monoid, the flat left-to-right run of the callbacks over the
  enumeration `Spec.Nodes.enum` (one mutual structural induction over the syntax tree, here);
  everything else about particular visitors (the recorder of C16, the repeated-identifier
  pass of C19, pure visitors) is then an induction over a flat list.
-/
import Rrss.Spec.Nodes
namespace Rrss
open Spec.Nodes

/-! ### `VM` is a lawful monad -/
namespace VM
variable {σ E α β γ : Type}

theorem bind_apply (x : VM σ E α) (f : α → VM σ E β) (s : σ) :
    (x >>= f) s = match x s with
      | (.ok a, s') => f a s'
      | (.error e, s') => (.error e, s') := rfl

theorem pure_apply (a : α) (s : σ) : (Pure.pure a : VM σ E α) s = (.ok a, s) := rfl

instance : LawfulMonad (VM σ E) := LawfulMonad.mk'
  (id_map := by
    intro α x; funext s
    show (match x s with | (.ok a, s') => _ | (.error e, s') => _) = _
    rcases h : x s with ⟨(_ | _), _⟩ <;> rfl)
  (pure_bind := by intros; rfl)
  (bind_assoc := by
    intro α β γ x f g; funext s
    simp only [bind_apply]
    rcases h : x s with ⟨(_ | _), _⟩ <;> rfl)

end VM

/-! ### the flat run of a visitor over a node list -/
namespace Flat
variable {N σ Out E : Type} (v : Visitor N σ Out E)

/-- the callback(s) of one node -/
def step : Node N → VM σ E Out
  | .disp d => do v.pre d; pure v.dflt
  | .name c n r => Walk.varName v c n r
  | .leaf l r => v.leaf l r

/-- callbacks left to right, outputs combined onto `acc`, stop at the first error -/
def run : List (Node N) → Out → VM σ E Out
  | [], acc => pure acc
  | n :: ns, acc => do
    let o ← step v n
    run ns (v.combine acc o)

/-- … starting from the default -/
def runD (ns : List (Node N)) : VM σ E Out := run v ns v.dflt

end Flat

/-- `combine` is associative and `dflt` is neutral -/
structure Visitor.Monoidal {N σ Out E : Type} (v : Visitor N σ Out E) : Prop where
  assoc : ∀ a b c, v.combine (v.combine a b) c = v.combine a (v.combine b c)
  dflt_left : ∀ a, v.combine v.dflt a = a
  dflt_right : ∀ a, v.combine a v.dflt = a

namespace Flat
variable {N σ Out E : Type} {v : Visitor N σ Out E}

theorem runD_cons' (n : Node N) (ns : List (Node N)) :
    runD v (n :: ns) = step v n >>= fun o => run v ns (v.combine v.dflt o) := rfl

theorem run_eq (h : v.Monoidal) (ns : List (Node N)) (acc : Out) :
    run v ns acc = runD v ns >>= fun o => pure (v.combine acc o) := by
  induction ns generalizing acc with
  | nil => simp [run, runD, h.dflt_right]
  | cons n ns ih =>
    rw [runD_cons', run]
    simp only [ih, bind_assoc, pure_bind, h.assoc, h.dflt_left]

@[simp] theorem runD_nil : runD v ([] : List (Node N)) = pure v.dflt := rfl

theorem runD_cons (h : v.Monoidal) (n : Node N) (ns : List (Node N)) :
    runD v (n :: ns) = step v n >>= fun a => runD v ns >>= fun b => pure (v.combine a b) := by
  rw [runD_cons']
  simp only [run_eq h, h.dflt_left]

theorem runD_append (h : v.Monoidal) (as bs : List (Node N)) :
    runD v (as ++ bs) = runD v as >>= fun a => runD v bs >>= fun b => pure (v.combine a b) := by
  induction as with
  | nil => simp only [List.nil_append, runD_nil, pure_bind, h.dflt_left, bind_pure]
  | cons n ns ih =>
    simp only [List.cons_append, runD_cons h, ih, bind_assoc, pure_bind, h.assoc]

/-- a visitor whose dispatch hooks do nothing and whose leaf callbacks are pure functions:
    the flat run is a left fold over the leaves -/
theorem run_pure (h : v.Monoidal) (f : Leaf N → Range → Out)
    (hpre : ∀ d, v.pre d = pure ()) (hleaf : ∀ l r, v.leaf l r = pure (f l r))
    (hvn : v.varName = none) (ns : List (Node N)) (acc : Out) :
    run v ns acc =
      pure (((ns.filterMap Node.leaf?).map fun lr => f lr.1 lr.2).foldl v.combine acc) := by
  induction ns generalizing acc with
  | nil => rfl
  | cons n ns ih =>
    cases n with
    | disp d =>
      simp only [run, step, hpre, pure_bind, h.dflt_right, ih, List.filterMap_cons, Node.leaf?]
    | leaf l r =>
      simp only [run, step, hleaf, pure_bind, ih, List.filterMap_cons, Node.leaf?, List.map_cons,
        List.foldl_cons]
    | name c n r =>
      have hs : step v (.name c n r) = pure (f (nameLeaf n) r) := by
        cases n <;> simp only [step, Walk.varName, hvn, hpre, hleaf, pure_bind, nameLeaf]
      simp only [run, hs, pure_bind, ih, List.filterMap_cons, Node.leaf?, List.map_cons,
        List.foldl_cons]

end Flat

/-! ### the traversal is the flat run over the enumeration -/
namespace Walk
open Flat
variable {N σ Out E : Type} {v : Visitor N σ Out E}

theorem varName_eq (c : Bool) (n : VarName) (r : Range) :
    Walk.varName v c n r = step v (.name c n r) := rfl
theorem step_disp (d : Disp) : step v (.disp d) = (v.pre d >>= fun _ => pure v.dflt) := rfl
theorem step_leaf (l : Leaf N) (r : Range) : step v (.leaf l r) = v.leaf l r := rfl

set_option linter.unusedSimpArgs false

/-- unfold both sides to a right-nested chain of callbacks and normalise the combined output -/
local macro "walk_simp " h:ident " [" ts:Lean.Parser.Tactic.simpLemma,* "]" : tactic =>
  `(tactic| simp only [$ts,*, varName_eq, runD_cons $h, runD_append $h, runD_nil, step_disp,
      step_leaf, bind_assoc, pure_bind, bind_pure, Visitor.Monoidal.assoc $h,
      Visitor.Monoidal.dflt_left $h, Visitor.Monoidal.dflt_right $h])

theorem ident_eq (h : v.Monoidal) (i : Ident) (r : Range) :
    Walk.ident v i r = runD v (ofIdent i r) := by
  cases i <;> walk_simp h [Walk.ident, ofIdent]

theorem poeticElems_eq (h : v.Monoidal) (es : List PoeticElem) (acc : Out) :
    Walk.poeticElems v es acc = runD v (ofPoetic es) >>= fun o => pure (v.combine acc o) := by
  induction es generalizing acc with
  | nil => walk_simp h [Walk.poeticElems, ofPoetic, List.map_nil]
  | cons e es ih =>
    simp only [ofPoetic, List.map_cons] at ih ⊢
    walk_simp h [Walk.poeticElems, ih]

mutual
theorem primary_eq (h : v.Monoidal) : (p : Primary N) → Walk.primary v p = runD v (ofPrimary p)
  | .lit l r => by walk_simp h [Walk.primary, ofPrimary]
  | .ident i r => by walk_simp h [Walk.primary, ofPrimary, ident_eq h]
  | .sub arr idx => by walk_simp h [Walk.primary, ofPrimary, primary_eq h arr, primary_eq h idx]
  | .call name r args => by walk_simp h [Walk.primary, ofPrimary, exprs_eq h args]
  | .pop arr => by walk_simp h [Walk.primary, ofPrimary, primary_eq h arr]
theorem expr_eq (h : v.Monoidal) : (e : Expr N) → Walk.expr v e = runD v (ofExpr e)
  | .prim p => by walk_simp h [Walk.expr, ofExpr, primary_eq h p]
  | .bin op lhs first rest => by
    walk_simp h [Walk.expr, ofExpr, expr_eq h lhs, expr_eq h first, exprs_eq h rest]
  | .un op e => by walk_simp h [Walk.expr, ofExpr, expr_eq h e]
theorem exprs_eq (h : v.Monoidal) : (es : List (Expr N)) → (acc : Out) →
    Walk.exprs v es acc = runD v (ofExprs es) >>= fun o => pure (v.combine acc o)
  | [], acc => by walk_simp h [Walk.exprs, ofExprs]
  | e :: es, acc => by walk_simp h [Walk.exprs, ofExprs, expr_eq h e, exprs_eq h es]
end

theorem exprList_eq (h : v.Monoidal) (l : ExprList N) :
    Walk.exprList v l = runD v (ofExprList l) := by
  walk_simp h [Walk.exprList, ofExprList, expr_eq h, exprs_eq h]

theorem call_eq (h : v.Monoidal) (name : VarName) (r : Range) (args : List (Expr N)) :
    Walk.call v name r args = runD v (.name true name r :: ofExprs args) := by
  walk_simp h [Walk.call, exprs_eq h]

theorem lhs_eq (h : v.Monoidal) (l : Lhs N) : Walk.lhs v l = runD v (ofLhs l) := by
  cases l <;> walk_simp h [Walk.lhs, ofLhs, ident_eq h, primary_eq h]

theorem optLhs_eq (h : v.Monoidal) (l : Option (Lhs N)) :
    Walk.optLhs v l = runD v (ofOptLhs l) := by
  cases l <;> walk_simp h [Walk.optLhs, ofOptLhs, lhs_eq h]

theorem poeticLit_eq (h : v.Monoidal) (es : List PoeticElem) :
    Walk.poeticLit v es = runD v (ofPoetic es) := by
  walk_simp h [Walk.poeticLit, poeticElems_eq h]

theorem params_eq (h : v.Monoidal) (ps : List (VarName × Range)) (acc : Out) :
    Walk.params v ps acc = runD v (ofParams ps) >>= fun o => pure (v.combine acc o) := by
  induction ps generalizing acc with
  | nil => walk_simp h [Walk.params, ofParams, List.map_nil]
  | cons p ps ih =>
    obtain ⟨n, r⟩ := p
    simp only [ofParams, List.map_cons] at ih ⊢
    walk_simp h [Walk.params, ih]

mutual
theorem stmt_eq (h : v.Monoidal) : (s : Stmt N) → Walk.stmt v s = runD v (ofStmt s)
  | .assign dest op value => by
    cases op <;> walk_simp h [Walk.stmt, ofStmt, ofOp, lhs_eq h, exprList_eq h, List.append_nil]
  | .poeticNum dest rhs => by
    cases rhs <;> walk_simp h [Walk.stmt, ofStmt, ofPoeticRhs, lhs_eq h, expr_eq h, poeticLit_eq h]
  | .poeticStr dest _ => by walk_simp h [Walk.stmt, ofStmt, lhs_eq h]
  | .ifS cond thenB none => by
    walk_simp h [Walk.stmt, ofStmt, expr_eq h, block_eq h thenB, List.append_nil]
  | .ifS cond thenB (some b) => by
    walk_simp h [Walk.stmt, ofStmt, expr_eq h, block_eq h thenB, block_eq h b]
  | .whileS cond body => by walk_simp h [Walk.stmt, ofStmt, expr_eq h, block_eq h body]
  | .untilS cond body => by walk_simp h [Walk.stmt, ofStmt, expr_eq h, block_eq h body]
  | .inc dest r _ => by walk_simp h [Walk.stmt, ofStmt, ident_eq h]
  | .dec dest r _ => by walk_simp h [Walk.stmt, ofStmt, ident_eq h]
  | .input dest _ => by walk_simp h [Walk.stmt, ofStmt, optLhs_eq h]
  | .output value => by walk_simp h [Walk.stmt, ofStmt, expr_eq h]
  | .mutation _ operand dest param => by
    cases param <;>
      walk_simp h [Walk.stmt, ofStmt, ofOptExpr, primary_eq h, optLhs_eq h, expr_eq h,
        List.append_nil]
  | .rounding _ operand => by walk_simp h [Walk.stmt, ofStmt, expr_eq h]
  | .continue_ _ => by walk_simp h [Walk.stmt, ofStmt]
  | .break_ _ => by walk_simp h [Walk.stmt, ofStmt]
  | .push arr value => by
    rcases value with _ | l | es <;>
      walk_simp h [Walk.stmt, ofStmt, ofPushRhs, primary_eq h, exprList_eq h, poeticLit_eq h,
        List.append_nil]
  | .pop arr dest => by walk_simp h [Walk.stmt, ofStmt, primary_eq h, optLhs_eq h]
  | .ret value => by walk_simp h [Walk.stmt, ofStmt, expr_eq h]
  | .func name r ps body => by walk_simp h [Walk.stmt, ofStmt, params_eq h, block_eq h body]
  | .call name r args => by walk_simp h [Walk.stmt, ofStmt, call_eq h]
theorem block_eq (h : v.Monoidal) : (b : Block N) → Walk.block v b = runD v (ofBlock b)
  | .mk _ ss => by walk_simp h [Walk.block, ofBlock, stmts_eq h ss]
theorem stmts_eq (h : v.Monoidal) : (ss : List (Stmt N)) → (acc : Out) →
    Walk.stmts v ss acc = runD v (ofStmts ss) >>= fun o => pure (v.combine acc o)
  | [], acc => by walk_simp h [Walk.stmts, ofStmts]
  | s :: ss, acc => by walk_simp h [Walk.stmts, ofStmts, stmt_eq h s, stmts_eq h ss]
end

theorem blocks_eq (h : v.Monoidal) (bs : List (Block N)) (acc : Out) :
    Walk.blocks v bs acc = runD v (ofBlocks bs) >>= fun o => pure (v.combine acc o) := by
  induction bs generalizing acc with
  | nil => walk_simp h [Walk.blocks, ofBlocks]
  | cons b bs ih => walk_simp h [Walk.blocks, ofBlocks, block_eq h, ih]

/-- The master lemma: for a visitor whose outputs form a monoid, walking a program is running
    its callbacks left to right over the enumeration of the tree. -/
theorem program_eq (h : v.Monoidal) (p : Program N) :
    Walk.program v p = runD v (enum p) := by
  walk_simp h [Walk.program, enum, blocks_eq h]

/-- pure visitors: the result is the left fold of the leaf outputs, the state is untouched -/
theorem program_pure (h : v.Monoidal) (f : Leaf N → Range → Out)
    (hpre : ∀ d, v.pre d = pure ()) (hleaf : ∀ l r, v.leaf l r = pure (f l r))
    (hvn : v.varName = none) (p : Program N) (s : σ) :
    Walk.program v p s =
      (.ok (((leaves p).map fun lr => f lr.1 lr.2).foldl v.combine v.dflt), s) := by
  rw [program_eq h, runD, run_pure h f hpre hleaf hvn]
  rfl

end Walk

/-- the leaves of a program are the leaf callbacks among `nodes` -/
theorem Spec.Nodes.leaves_eq_filter {N : Type} (p : Program N) :
    (leaves p).map (fun lr => Event.leaf lr.1) = (nodes p).filter Event.isLeaf := by
  simp only [leaves, nodes]
  induction enum p with
  | nil => rfl
  | cons n ns ih =>
    cases n <;>
      simp_all [List.filterMap_cons, List.flatMap_cons, List.filter_cons, Node.leaf?, Node.events,
        Event.isLeaf]

end Rrss
