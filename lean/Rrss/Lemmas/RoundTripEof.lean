/-
  Rrss.Lemmas.RoundTripEof — C02, parser half: programs whose last lines end with the tokens. The
  general form (`…D d`: the last `d` newlines of the input omitted, down to the `Newline` of a
  header line whose block is empty), and the special case `…E` (all of them, except after a
  header) as its instance at `eofDepth`.
-/
import Rrss.Lemmas.RoundTripSane
namespace Rrss
namespace Grammar
open Parser

variable {N : Type} [CharOps]

set_option linter.unusedSimpArgs false

/-! ### unfolding -/

theorem simple_toksD (d : Nat) (s : SimpleStmt N) (eol : Eol) (c : Choices N) :
    (Statement.simple s eol).toksD d c = s.toks c := by
  cases d <;> rfl

theorem ifS_none_toksD (d : Nat) (cond : Expression N) (eol : Eol) (t : List (Statement N)) (c : Choices N) :
    (Statement.ifS cond eol t none).toksD d c
      = tk (.kw .if_) (c.sub 0) :: (unparse cond (c.sub 1) ++
          headerTailD d eol t (c.sub 2) (c.sub 3) (linesToksD d t (c.sub 3))) := by
  cases d <;> rfl

theorem ifS_some_toksD (d : Nat) (cond : Expression N) (eol : Eol) (t b : List (Statement N)) (c : Choices N) :
    (Statement.ifS cond eol t (some b)).toksD d c
      = tk (.kw .if_) (c.sub 0) :: (unparse cond (c.sub 1) ++ (eolToks eol (c.sub 2) ++
          (blockToks t (c.sub 3) ++ (tk (.kw .else_) (c.sub 4) ::
            elseTailD d b (c.sub 5) (c.sub 6) (linesToksD d b (c.sub 6)))))) := by
  cases d <;> cases t <;> rfl

theorem whileS_toksD (d : Nat) (cond : Expression N) (eol : Eol) (b : List (Statement N)) (c : Choices N) :
    (Statement.whileS cond eol b).toksD d c
      = tk (.kw .while_) (c.sub 0) :: (unparse cond (c.sub 1) ++
          headerTailD d eol b (c.sub 2) (c.sub 3) (linesToksD d b (c.sub 3))) := by
  cases d <;> rfl

theorem untilS_toksD (d : Nat) (cond : Expression N) (eol : Eol) (b : List (Statement N)) (c : Choices N) :
    (Statement.untilS cond eol b).toksD d c
      = tk (.kw .until_) (c.sub 0) :: (unparse cond (c.sub 1) ++
          headerTailD d eol b (c.sub 2) (c.sub 3) (linesToksD d b (c.sub 3))) := by
  cases d <;> rfl

theorem func_toksD (d : Nat) (f p : VarSpec) (ps : List VarSpec) (eol : Eol) (b : List (Statement N))
    (c : Choices N) :
    (Statement.func f p ps eol b).toksD d c
      = f.toks (c.sub 0) ++ tk (.kw .takes) (c.sub 1) :: (p.toks (c.sub 2) ++ (paramsToks ps (c.sub 3) ++
          headerTailD d eol b (c.sub 4) (c.sub 5) (fnLinesToksD d b (c.sub 5)))) := by
  cases d <;> rfl

theorem linesD_nil (d : Nat) (c : Choices N) : linesToksD d ([] : List (Statement N)) c = [] := by
  cases d <;> rfl
theorem linesD_one_zero (s : Statement N) (c : Choices N) :
    linesToksD 0 [s] c = s.toks (c.sub 0) ++ s.eolToks (c.sub 1) := rfl
theorem linesD_one_succ (d : Nat) (s : Statement N) (c : Choices N) :
    linesToksD (d + 1) [s] c = s.toksD d (c.sub 0) ++ s.eolToksE (c.sub 1) := rfl
theorem linesD_cons (d : Nat) (s s' : Statement N) (ss : List (Statement N)) (c : Choices N) :
    linesToksD d (s :: s' :: ss) c
      = s.toks (c.sub 0) ++ (s.eolToks (c.sub 1) ++ linesToksD d (s' :: ss) (c.sub 2)) := by
  cases d <;> rfl

theorem fnLinesD_nil (d : Nat) (c : Choices N) : fnLinesToksD d ([] : List (Statement N)) c = [] := by
  cases d <;> rfl
theorem fnLinesD_one (d : Nat) (s : Statement N) (c : Choices N) :
    fnLinesToksD d [s] c = if s.isIfElse then s.toksD d (c.sub 0) else linesToksD d [s] c := by
  cases d <;> rfl
theorem fnLinesD_cons (d : Nat) (s s' : Statement N) (ss : List (Statement N)) (c : Choices N) :
    fnLinesToksD d (s :: s' :: ss) c
      = s.toks (c.sub 0) ++ (s.eolToks (c.sub 1) ++ fnLinesToksD d (s' :: ss) (c.sub 2)) := by
  cases d <;> rfl

theorem simple_fitsD (src : Str) (d : Nat) (s : SimpleStmt N) (eol : Eol) (c : Choices N) (r : List (Tok N)) :
    (Statement.simple s eol).FitsD src d c r = s.Fits src c r := by
  cases d <;> rfl
theorem ifS_none_fitsD (src : Str) (d : Nat) (cond : Expression N) (eol : Eol) (t : List (Statement N))
    (c : Choices N) (r : List (Tok N)) :
    (Statement.ifS cond eol t none).FitsD src d c r = linesFitD src d t (c.sub 3) := by
  cases d <;> rfl
theorem ifS_some_fitsD (src : Str) (d : Nat) (cond : Expression N) (eol : Eol) (t b : List (Statement N))
    (c : Choices N) (r : List (Tok N)) :
    (Statement.ifS cond eol t (some b)).FitsD src d c r
      = (linesFit src t (c.sub 3) ∧ linesFitD src d b (c.sub 6)) := by
  cases d <;> rfl
theorem whileS_fitsD (src : Str) (d : Nat) (cond : Expression N) (eol : Eol) (b : List (Statement N))
    (c : Choices N) (r : List (Tok N)) :
    (Statement.whileS cond eol b).FitsD src d c r = linesFitD src d b (c.sub 3) := by
  cases d <;> rfl
theorem untilS_fitsD (src : Str) (d : Nat) (cond : Expression N) (eol : Eol) (b : List (Statement N))
    (c : Choices N) (r : List (Tok N)) :
    (Statement.untilS cond eol b).FitsD src d c r = linesFitD src d b (c.sub 3) := by
  cases d <;> rfl
theorem func_fitsD (src : Str) (d : Nat) (f p : VarSpec) (ps : List VarSpec) (eol : Eol)
    (b : List (Statement N)) (c : Choices N) (r : List (Tok N)) :
    (Statement.func f p ps eol b).FitsD src d c r = fnLinesFitD src d b (c.sub 5) := by
  cases d <;> rfl

theorem linesFitD_one_zero (src : Str) (s : Statement N) (c : Choices N) :
    linesFitD src 0 [s] c = (s.Fits src (c.sub 0) (s.eolToks (c.sub 1)) ∧ s.EolOK (c.sub 1)) := rfl
theorem linesFitD_one_succ (src : Str) (d : Nat) (s : Statement N) (c : Choices N) :
    linesFitD src (d + 1) [s] c = (s.FitsD src d (c.sub 0) (s.eolToksE (c.sub 1)) ∧ s.EolOKE (c.sub 1)) := rfl
theorem linesFitD_cons (src : Str) (d : Nat) (s s' : Statement N) (ss : List (Statement N)) (c : Choices N) :
    linesFitD src d (s :: s' :: ss) c = (s.Fits src (c.sub 0) (s.eolToks (c.sub 1)) ∧ s.EolOK (c.sub 1) ∧
      linesFitD src d (s' :: ss) (c.sub 2)) := by
  cases d <;> rfl
theorem fnLinesFitD_one (src : Str) (d : Nat) (s : Statement N) (c : Choices N) :
    fnLinesFitD src d [s] c = if s.isIfElse then s.FitsD src d (c.sub 0) [] else linesFitD src d [s] c := by
  cases d <;> rfl
theorem fnLinesFitD_cons (src : Str) (d : Nat) (s s' : Statement N) (ss : List (Statement N)) (c : Choices N) :
    fnLinesFitD src d (s :: s' :: ss) c = (s.Fits src (c.sub 0) (s.eolToks (c.sub 1)) ∧ s.EolOK (c.sub 1) ∧
      fnLinesFitD src d (s' :: ss) (c.sub 2)) := by
  cases d <;> rfl

omit [CharOps] in
theorem eolToks_punct (e : Eol) (c : Choices N) : eolToks e c = eolPunct e c ++ [tk (.kw .newline) (c.sub 1)] := by
  cases e <;> rfl

omit [CharOps] in
theorem eolToksE_simple (s : SimpleStmt N) (e : Eol) (c : Choices N) :
    (Statement.simple s e).eolToksE c = eolPunct e c := by
  cases e <;> rfl

omit [CharOps] in
theorem emptyTailD_two (d : Nat) (a b : Tok N) : emptyTailD (d + 2) a b = [] := rfl

/-! ### the end of the tokens as a line end -/

omit [CharOps] in
theorem expectEol_punct (e : Eol) (c : Choices N) (src last eof b) :
    expectEol ⟨src, eolPunct e c, last, eof, b⟩
      = .ok ((), ⟨src, [], lastSnap (eolPunct e c) last, eof, b⟩) := by
  cases e <;>
    simp [eolPunct, expectEol, bind_run, mac_cons, mac_nil, isAnyKind, expectTokenOrEnd, current_run, pure_run]

omit [CharOps] in
theorem expectEol_eofE (s : Statement N) (c : Choices N) (src last eof b) :
    expectEol ⟨src, s.eolToksE c, last, eof, b⟩
      = .ok ((), ⟨src, [], lastSnap (s.eolToksE c) last, eof, b⟩) := by
  cases s with
  | simple s e => rw [eolToksE_simple]; exact expectEol_punct e c src last eof b
  | ifS cond eol t e => rfl
  | whileS cond eol b' => rfl
  | untilS cond eol b' => rfl
  | func f p ps eol b' => rfl

theorem simple_stop_nil (s : SimpleStmt N) : s.Stop [] := by
  cases s with
  | say e => exact stop_of_endsExpr false e rfl
  | put e t => exact ⟨rfl, fun _ => rfl⟩
  | letBe t op l => exact ⟨rfl, fun _ => rfl, rfl⟩
  | build x m => rfl
  | knock x m => rfl
  | listen t =>
    cases t with
    | none => rfl
    | some t => exact ⟨rfl, fun _ => rfl⟩
  | turn d e => exact ⟨stop_of_endsExpr false e rfl, rfl⟩
  | rock p vals =>
    cases vals with
    | none => exact ⟨⟨rfl, fun _ => rfl⟩, rfl⟩
    | some l => exact ⟨rfl, fun _ => rfl, rfl⟩
  | roll p into =>
    cases into with
    | none => exact ⟨⟨rfl, fun _ => rfl⟩, rfl⟩
    | some t => exact ⟨rfl, fun _ => rfl⟩
  | ret kw e => exact ⟨stop_of_endsExpr false e rfl, rfl⟩
  | break_ it =>
    cases it with
    | none => intro t ht; simp at ht
    | some it => trivial
  | continue_ itThe => trivial
  | mutation op p into param =>
    cases param with
    | some e => exact stop_of_endsExpr false e rfl
    | none =>
      cases into with
      | some t => exact ⟨⟨rfl, fun _ => rfl⟩, rfl⟩
      | none => exact ⟨⟨rfl, fun _ => rfl⟩, rfl⟩
  | call f a as => exact ⟨rfl, rfl⟩
  | poeticLit t lit => intro t ht; simp at ht
  | poeticExpr t e => exact stop_of_endsExpr false e rfl
  | poeticStr t text junk => exact Or.inl rfl
  | rockLike p lit => intro t ht; simp at ht

/-- the last line may be followed by its punctuation and the end of the tokens -/
theorem stmt_stop_eolE (s : Statement N) (c : Choices N) (hw : s.wf = true) (hpk : s.EolOKE c) :
    s.Stop (s.eolToksE c) := by
  cases s with
  | simple s e =>
    have hpk' : s.PeekStop (eolPunct e c) := hpk
    rw [eolToksE_simple]
    show s.Stop (eolPunct e c)
    cases e with
    | none => exact simple_stop_nil s
    | dot => exact simple_stop_eolkw s .dot (c.sub 0) [] (eol_kind_ok s .dot .dot hw (Or.inl ⟨rfl, rfl⟩)) hpk'
    | comma =>
      exact simple_stop_eolkw s .comma (c.sub 0) [] (eol_kind_ok s .comma .comma hw (Or.inr (Or.inr ⟨rfl, rfl⟩)))
        hpk'
  | ifS cond eol t e => exact Or.inl rfl
  | whileS cond eol b => exact Or.inl rfl
  | untilS cond eol b => exact Or.inl rfl
  | func f p ps eol b => exact Or.inl rfl

/-! ### blocks at the end of the tokens -/

/-- `parse_block` / `parse_function_block`, with the statement loop as a parameter -/
def blockWith (loop : P N (List (Stmt N))) : P N (Block N) := do
  let loc ← currentLoc
  let nl ← matchAndConsume (isKind .newline)
  match nl with
  | some _ => pure (.mk loc [])
  | none => do
    let statements ← loop
    pure (.mk loc statements)

theorem parseBlock_eq (rec : Rec N) : parseBlock rec = blockWith (stmtLoopBody rec) := rfl
theorem parseFunctionBlock_eq (rec : Rec N) : parseFunctionBlock rec = blockWith (fnStmtLoopBody rec) := rfl

theorem stmtLoop_nil (rec : Rec N) (src last eof b) :
    stmtLoopBody rec ⟨src, [], last, eof, b⟩ = .ok ([], ⟨src, [], last, eof, b⟩) := rfl
theorem fnStmtLoop_nil (rec : Rec N) (src last eof b) :
    fnStmtLoopBody rec ⟨src, [], last, eof, b⟩ = .ok ([], ⟨src, [], last, eof, b⟩) := rfl

omit [CharOps] in
theorem blockWith_nil (loop : P N (List (Stmt N))) (src : Str) (last eof : Snap)
    (hnil : loop ⟨src, [], last, eof, false⟩ = .ok ([], ⟨src, [], last, eof, false⟩)) (hl : SnapOK src last) :
    blockWith loop ⟨src, [], last, eof, false⟩
      = .ok (.mk ⟨last.line, last.idx - last.lineStart⟩ [], ⟨src, [], last, eof, false⟩) := by
  simp [blockWith, bind_run, currentLoc_ok _ _ _ _ _ hl, mac_nil, hnil, pure_run]

omit [CharOps] in
theorem blockWith_nl (loop : P N (List (Stmt N))) (c : Choices N) (ts : List (Tok N)) (src : Str)
    (last eof : Snap) (hl : SnapOK src last) :
    blockWith loop ⟨src, tk (.kw .newline) c :: ts, last, eof, false⟩
      = .ok (.mk ⟨last.line, last.idx - last.lineStart⟩ [], ⟨src, ts, c.here.after, eof, false⟩) := by
  simp [blockWith, bind_run, currentLoc_ok _ _ _ _ _ hl, mac_cons, isKind, pure_run]

omit [CharOps] in
theorem blockWith_lines (loop : P N (List (Stmt N))) (lines : List (Tok N)) (src : Str) (last eof : Snap)
    (hl : SnapOK src last) (hnl : nextIn [.newline] lines = false) (ss' : List (Stmt N)) (st' : PState N)
    (h : loop ⟨src, lines, last, eof, false⟩ = .ok (ss', st')) :
    blockWith loop ⟨src, lines, last, eof, false⟩
      = .ok (.mk ⟨last.line, last.idx - last.lineStart⟩ ss', st') := by
  simp [blockWith, bind_run, currentLoc_ok _ _ _ _ _ hl, mac_stop_kind hnl, h, pure_run]

/-- the result of the statement loop on the last lines -/
def LoopRuns (loop : P N (List (Stmt N))) (lines : List (Tok N)) (b : List (Statement N)) (src : Str)
    (eof : Snap) : Prop :=
  ∀ last, ∃ ss' last', loop ⟨src, lines, last, eof, false⟩ = .ok (ss', ⟨src, [], last', eof, false⟩) ∧
    eraseSL ss' = stmtsToStmt b

/-- the line end of a header line and the last block of the input -/
theorem headerTail_run (loop : P N (List (Stmt N))) (d : Nat) (eol : Eol) (b : List (Statement N))
    (c2 c3 : Choices N) (lines : List (Tok N)) (src : Str) (last eof : Snap)
    (hnil : ∀ last, loop ⟨src, [], last, eof, false⟩ = .ok ([], ⟨src, [], last, eof, false⟩))
    (hl : SnapOK src last) (hs2 : c2.Sane src)
    (hhead : b ≠ [] → nextIn [.newline] lines = false) (hlines : b ≠ [] → LoopRuns loop lines b src eof) :
    ∃ T1 last1 B last2,
      expectEol ⟨src, headerTailD d eol b c2 c3 lines, last, eof, false⟩
        = .ok ((), ⟨src, T1, last1, eof, false⟩) ∧
      blockWith loop ⟨src, T1, last1, eof, false⟩ = .ok (B, ⟨src, [], last2, eof, false⟩) ∧
      eraseB B = .mk default (stmtsToStmt b) := by
  cases b with
  | nil =>
    have hs21 : SnapOK src (c2.sub 1).here.after := sane_here hs2 [1]
    cases d with
    | zero =>
      refine ⟨[tk (.kw .newline) (c3.sub 0)], (c2.sub 1).here.after, _, _, ?_,
        blockWith_nl loop (c3.sub 0) [] src _ eof hs21, rfl⟩
      have := expectEol_run eol c2 [tk (.kw .newline) (c3.sub 0)] src last eof false
      rw [eol_last, eolToks_punct] at this
      simpa [headerTailD, emptyTailD] using this
    | succ d =>
      cases d with
      | zero =>
        refine ⟨[], (c2.sub 1).here.after, _, _, ?_, blockWith_nil loop src _ eof (hnil _) hs21, rfl⟩
        have := expectEol_run eol c2 [] src last eof false
        rw [eol_last, eolToks_punct] at this
        simpa [headerTailD, emptyTailD] using this
      | succ d =>
        have hl' : SnapOK src (lastSnap (eolPunct eol c2) last) :=
          lastSnap_sane _ _ hl (eolPunct_sane eol c2 hs2)
        refine ⟨[], lastSnap (eolPunct eol c2) last, _, _, ?_, blockWith_nil loop src _ eof (hnil _) hl', rfl⟩
        simpa [headerTailD, emptyTailD_two] using expectEol_punct eol c2 src last eof false
  | cons s ss =>
    obtain ⟨ss', last', h1, h2⟩ := hlines (by simp) (c2.sub 1).here.after
    refine ⟨lines, (c2.sub 1).here.after, _, last', ?_,
      blockWith_lines loop lines src _ eof (sane_here hs2 [1]) (hhead (by simp)) ss' _ h1, by simp [eraseB, h2]⟩
    have := expectEol_run eol c2 lines src last eof false
    rw [eol_last] at this
    simpa [headerTailD] using this

/-- the `Newline` after `else` and the last block of the input -/
theorem elseTail_run (loop : P N (List (Stmt N))) (d : Nat) (b : List (Statement N))
    (c5 c6 : Choices N) (lines : List (Tok N)) (src : Str) (last eof : Snap)
    (hnil : ∀ last, loop ⟨src, [], last, eof, false⟩ = .ok ([], ⟨src, [], last, eof, false⟩))
    (hl : SnapOK src last) (hs5 : SnapOK src c5.here.after)
    (hhead : b ≠ [] → nextIn [.newline] lines = false) (hlines : b ≠ [] → LoopRuns loop lines b src eof) :
    ∃ o T1 last1 B last2,
      expectTokenOrEnd .newline ⟨src, elseTailD d b c5 c6 lines, last, eof, false⟩
        = .ok (o, ⟨src, T1, last1, eof, false⟩) ∧
      blockWith loop ⟨src, T1, last1, eof, false⟩ = .ok (B, ⟨src, [], last2, eof, false⟩) ∧
      eraseB B = .mk default (stmtsToStmt b) := by
  cases b with
  | nil =>
    cases d with
    | zero =>
      refine ⟨some (tk (.kw .newline) c5), [tk (.kw .newline) (c6.sub 0)], c5.here.after, _, _, ?_,
        blockWith_nl loop (c6.sub 0) [] src _ eof hs5, rfl⟩
      simp [elseTailD, emptyTailD, expectTokenOrEnd, bind_run, current_run, advance_cons]
    | succ d =>
      cases d with
      | zero =>
        refine ⟨some (tk (.kw .newline) c5), [], c5.here.after, _, _, ?_,
          blockWith_nil loop src _ eof (hnil _) hs5, rfl⟩
        simp [elseTailD, emptyTailD, expectTokenOrEnd, bind_run, current_run, advance_cons]
      | succ d =>
        refine ⟨none, [], last, _, _, ?_, blockWith_nil loop src _ eof (hnil _) hl, rfl⟩
        simp [elseTailD, emptyTailD_two, expectTokenOrEnd, bind_run, current_run, pure_run]
  | cons s ss =>
    obtain ⟨ss', last', h1, h2⟩ := hlines (by simp) c5.here.after
    refine ⟨some (tk (.kw .newline) c5), lines, c5.here.after, _, last', ?_,
      blockWith_lines loop lines src _ eof hs5 (hhead (by simp)) ss' _ h1, by simp [eraseB, h2]⟩
    simp [elseTailD, expectTokenOrEnd, bind_run, current_run, advance_cons]

omit [CharOps] in
theorem headerTail_len (d : Nat) (eol : Eol) (b : List (Statement N)) (c2 c3 : Choices N)
    (lines : List (Tok N)) (hne : b ≠ []) : lines.length ≤ (headerTailD d eol b c2 c3 lines).length := by
  cases b with
  | nil => exact absurd rfl hne
  | cons s ss => simp [headerTailD]

omit [CharOps] in
theorem elseTail_len (d : Nat) (b : List (Statement N)) (c5 c6 : Choices N)
    (lines : List (Tok N)) (hne : b ≠ []) : lines.length ≤ (elseTailD d b c5 c6 lines).length := by
  cases b with
  | nil => exact absurd rfl hne
  | cons s ss => simp [elseTailD]

/-- the condition of a header may be followed by the (possibly shortened) rest of the input -/
theorem cond_stopD (cond : Expression N) (eol : Eol) (d : Nat) (b : List (Statement N)) (c2 c3 : Choices N)
    (lines : List (Tok N)) (hok : (eol != .comma || cond.commaOK) = true) :
    logicalSyn.Stop false cond (headerTailD d eol b c2 c3 lines) := by
  cases b with
  | cons s ss => exact cond_stop cond eol c2 lines hok
  | nil =>
    cases eol with
    | dot => exact expr_stop_eolkw cond .dot (c2.sub 0) _ (Or.inl rfl)
    | comma => exact expr_stop_eolkw cond .comma (c2.sub 0) _ (Or.inr (Or.inr ⟨rfl, by simpa using hok⟩))
    | none =>
      cases d with
      | zero => exact expr_stop_eolkw cond .newline (c2.sub 1) _ (Or.inr (Or.inl rfl))
      | succ d =>
        cases d with
        | zero => exact expr_stop_eolkw cond .newline (c2.sub 1) _ (Or.inr (Or.inl rfl))
        | succ d => exact stop_of_endsExpr false cond rfl

omit [CharOps] in
/-- the parameters of a function header may be followed by the (possibly shortened) rest -/
theorem params_stopD (eol : Eol) (d : Nat) (b : List (Statement N)) (c2 c3 : Choices N)
    (lines : List (Tok N)) (hne : (eol != Eol.comma) = true) :
    nextIn (.word :: argSeps) (headerTailD d eol b c2 c3 lines) = false := by
  cases eol with
  | comma => simp at hne
  | dot => cases b <;> simp [headerTailD, eolPunct, eolToks, nextIn_cons, argSeps]
  | none =>
    cases b with
    | cons s ss => simp [headerTailD, eolToks, nextIn_cons, argSeps]
    | nil =>
      cases d with
      | zero => simp [headerTailD, eolPunct, emptyTailD, nextIn_cons, argSeps]
      | succ d => cases d <;> simp [headerTailD, eolPunct, emptyTailD, nextIn_cons, argSeps]

/-! ### heads -/

theorem stmtD_head (d : Nat) (s : Statement N) (c : Choices N) :
    ∃ t ts, s.toksD d c = t :: ts ∧ stmtStarts.contains t.kind = true := by
  cases s with
  | simple s eol => simpa [simple_toksD] using simple_head s c
  | ifS cond eol t e =>
    cases e with
    | none => exact ⟨_, _, ifS_none_toksD .., rfl⟩
    | some b => exact ⟨_, _, ifS_some_toksD .., rfl⟩
  | whileS cond eol b => exact ⟨_, _, whileS_toksD .., rfl⟩
  | untilS cond eol b => exact ⟨_, _, untilS_toksD .., rfl⟩
  | func f p ps eol b =>
    obtain ⟨t, ts, h1, h2⟩ := var_head_stmt f (c.sub 0)
    exact ⟨t, _, by rw [func_toksD, h1, List.cons_append], h2⟩

theorem linesD_head (d : Nat) (s : Statement N) (ss : List (Statement N)) (c : Choices N) :
    ∃ t ts, linesToksD d (s :: ss) c = t :: ts ∧ stmtStarts.contains t.kind = true := by
  cases ss with
  | nil =>
    cases d with
    | zero =>
      obtain ⟨t, ts, h1, h2⟩ := stmt_head s (c.sub 0)
      exact ⟨t, _, by rw [linesD_one_zero, h1, List.cons_append], h2⟩
    | succ d =>
      obtain ⟨t, ts, h1, h2⟩ := stmtD_head d s (c.sub 0)
      exact ⟨t, _, by rw [linesD_one_succ, h1, List.cons_append], h2⟩
  | cons s' ss' =>
    obtain ⟨t, ts, h1, h2⟩ := stmt_head s (c.sub 0)
    exact ⟨t, _, by rw [linesD_cons, h1, List.cons_append], h2⟩

theorem fnLinesD_head (d : Nat) (s : Statement N) (ss : List (Statement N)) (c : Choices N) :
    ∃ t ts, fnLinesToksD d (s :: ss) c = t :: ts ∧ stmtStarts.contains t.kind = true := by
  cases ss with
  | nil =>
    rw [fnLinesD_one]
    split
    · exact stmtD_head d s (c.sub 0)
    · exact linesD_head d s [] c
  | cons s' ss' =>
    obtain ⟨t, ts, h1, h2⟩ := stmt_head s (c.sub 0)
    exact ⟨t, _, by rw [fnLinesD_cons, h1, List.cons_append], h2⟩

theorem linesD_not_nl (d : Nat) (b : List (Statement N)) (c : Choices N) (hne : b ≠ []) :
    nextIn [.newline] (linesToksD d b c) = false ∧ nextIn [.else_] (linesToksD d b c) = false := by
  cases b with
  | nil => exact absurd rfl hne
  | cons s ss =>
    obtain ⟨t, ts, h1, h2⟩ := linesD_head d s ss c
    rw [h1]
    exact ⟨by simpa [nextIn_cons] using (starts_not h2).1, by simpa [nextIn_cons] using (starts_not h2).2⟩

theorem fnLinesD_not_nl (d : Nat) (b : List (Statement N)) (c : Choices N) (hne : b ≠ []) :
    nextIn [.newline] (fnLinesToksD d b c) = false := by
  cases b with
  | nil => exact absurd rfl hne
  | cons s ss =>
    obtain ⟨t, ts, h1, h2⟩ := fnLinesD_head d s ss c
    rw [h1]
    simpa [nextIn_cons] using (starts_not h2).1

/-! ### the mutual induction at the end of the tokens -/

/-- the statement `s`, the last thing in the input, is parsed from its tokens -/
def StRunsD (d : Nat) (s : Statement N) (c : Choices N) (n : Nat) (src : Str) (last eof : Snap) : Prop :=
  ∃ s' last', parseStatement (parser n) ⟨src, s.toksD d c, last, eof, false⟩
      = .ok (some s', ⟨src, [], last', eof, false⟩) ∧ eraseS s' = s.toStmt

mutual
theorem stmtD_run : (s : Statement N) → ∀ (d : Nat) (c : Choices N) (n : Nat) (src last eof),
    s.wf = true → (s.toksD d c).length ≤ n → c.Sane src → s.FitsD src d c [] → StRunsD d s c n src last eof
  | .simple s eol, d, c, n, src, last, eof, hw, hn, hsane, hfit => by
    rw [simple_wf, Bool.and_eq_true] at hw
    rw [simple_fitsD] at hfit
    rw [simple_toksD] at hn
    obtain ⟨s', last', h1, _, h2⟩ := simple_run s c n [] src last eof hw.1 hn (simple_stop_nil s) hsane hfit
    exact ⟨s', last', by simpa [simple_toksD] using h1, h2⟩
  | .ifS cond eol t none, d, c, n, src, last, eof, hw, hn, hsane, hfit => by
    rw [ifS_wf] at hw
    simp only [Bool.and_eq_true] at hw
    obtain ⟨⟨⟨hwc, hok⟩, hwt⟩, _⟩ := hw
    rw [ifS_none_fitsD] at hfit
    unfold StRunsD
    rw [ifS_none_toksD] at hn ⊢
    simp only [List.length_cons, List.length_append] at hn
    cases n with
    | zero => omega
    | succ n =>
      have hcs := cond_stopD cond eol d t (c.sub 2) (c.sub 3) (linesToksD d t (c.sub 3)) hok
      have he := fun last => expression_run cond (c.sub 1) (n + 1) _ src last eof false hwc (by omega) hcs
      obtain ⟨T1, last1, B, last2, heol, hB, hBs⟩ := headerTail_run (stmtLoopBody (parser n)) d eol t
        (c.sub 2) (c.sub 3) (linesToksD d t (c.sub 3)) src
        (lastSnap (unparse cond (c.sub 1)) (c.sub 0).here.after) eof
        (fun _ => rfl) (expr_last_sane cond _ _ (sane_sub hsane 1) (sane_here hsane [0]))
        (sane_sub hsane 2) (fun hne => (linesD_not_nl d t (c.sub 3) hne).1)
        (fun hne last => linesD_run t d (c.sub 3) n src last eof hwt
          (by have := headerTail_len d eol t (c.sub 2) (c.sub 3) (linesToksD d t (c.sub 3)) hne; omega)
          (sane_sub hsane 3) hfit)
      refine ⟨.ifS (logicalLay.ast cond (c.sub 1)) B none, last2, ?_, ?_⟩
      · simp [parseStatement, current_run, map_run, parseIfStatement, bind_run, consume_cons, isKind, he,
          heol, hrec_block, parseBlock_eq, hB, mac_nil, pure_run]
      · simp only [eraseS, hBs, expr_shape]
        rfl
  | .ifS cond eol t (some b), d, c, n, src, last, eof, hw, hn, hsane, hfit => by
    rw [ifS_wf] at hw
    simp only [Bool.and_eq_true] at hw
    obtain ⟨⟨⟨hwc, hok⟩, hwt⟩, hwe⟩ := hw
    rw [ifS_some_fitsD] at hfit
    obtain ⟨hfT, hfE⟩ := hfit
    unfold StRunsD
    rw [ifS_some_toksD] at hn ⊢
    simp only [List.length_cons, List.length_append] at hn
    have hlt := lines_len_le_block t (c.sub 3)
    cases n with
    | zero => omega
    | succ n =>
      have hcs := cond_stop cond eol (c.sub 2) (blockToks t (c.sub 3) ++ (tk (.kw .else_) (c.sub 4) ::
        elseTailD d b (c.sub 5) (c.sub 6) (linesToksD d b (c.sub 6)))) hok
      have he := fun last => expression_run cond (c.sub 1) (n + 1) _ src last eof false hwc (by omega) hcs
      have heol := fun last => expectEol_run eol (c.sub 2) (blockToks t (c.sub 3) ++
        (tk (.kw .else_) (c.sub 4) :: elseTailD d b (c.sub 5) (c.sub 6) (linesToksD d b (c.sub 6)))) src last
        eof false
      have hlinesT : LinesRun t (c.sub 3) n (tk (.kw .else_) (c.sub 4) ::
          elseTailD d b (c.sub 5) (c.sub 6) (linesToksD d b (c.sub 6))) src eof := fun last =>
        lines_run t (c.sub 3) n _ src last eof hwt (by omega) (Or.inr rfl) (sane_sub hsane 3) hfT
      obtain ⟨TB, hTB, hTs⟩ := block_run t (c.sub 3) n _ src ((c.sub 2).sub 1).here.after eof
        (sane_here hsane [2, 1]) hlinesT
      obtain ⟨o, T1, last1, EB, last2, hnl, hEB, hEs⟩ := elseTail_run (stmtLoopBody (parser n)) d b
        (c.sub 5) (c.sub 6) (linesToksD d b (c.sub 6)) src (c.sub 4).here.after eof
        (fun _ => rfl) (sane_here hsane [4]) (sane_here hsane [5])
        (fun hne => (linesD_not_nl d b (c.sub 6) hne).1)
        (fun hne last => linesD_run b d (c.sub 6) n src last eof hwe
          (by have := elseTail_len d b (c.sub 5) (c.sub 6) (linesToksD d b (c.sub 6)) hne; omega)
          (sane_sub hsane 6) hfE)
      rw [parseBlock_eq] at hTB
      refine ⟨.ifS (logicalLay.ast cond (c.sub 1)) TB (some EB), last2, ?_, ?_⟩
      · simp [parseStatement, current_run, map_run, parseIfStatement, bind_run, consume_cons, isKind, he,
          heol, eol_last, hrec_block, hTB, mac_cons, hnl, parseBlock_eq, hEB, pure_run]
      · simp only [eraseS, hTs, hEs, expr_shape]
        rfl
  | .whileS cond eol b, d, c, n, src, last, eof, hw, hn, hsane, hfit => by
    rw [whileS_wf] at hw
    simp only [Bool.and_eq_true] at hw
    obtain ⟨⟨hwc, hok⟩, hwb⟩ := hw
    rw [whileS_fitsD] at hfit
    unfold StRunsD
    rw [whileS_toksD] at hn ⊢
    simp only [List.length_cons, List.length_append] at hn
    cases n with
    | zero => omega
    | succ n =>
      have hcs := cond_stopD cond eol d b (c.sub 2) (c.sub 3) (linesToksD d b (c.sub 3)) hok
      have he := fun last => expression_run cond (c.sub 1) (n + 1) _ src last eof false hwc (by omega) hcs
      obtain ⟨T1, last1, B, last2, heol, hB, hBs⟩ := headerTail_run (stmtLoopBody (parser n)) d eol b
        (c.sub 2) (c.sub 3) (linesToksD d b (c.sub 3)) src
        (lastSnap (unparse cond (c.sub 1)) (c.sub 0).here.after) eof
        (fun _ => rfl) (expr_last_sane cond _ _ (sane_sub hsane 1) (sane_here hsane [0]))
        (sane_sub hsane 2) (fun hne => (linesD_not_nl d b (c.sub 3) hne).1)
        (fun hne last => linesD_run b d (c.sub 3) n src last eof hwb
          (by have := headerTail_len d eol b (c.sub 2) (c.sub 3) (linesToksD d b (c.sub 3)) hne; omega)
          (sane_sub hsane 3) hfit)
      refine ⟨.whileS (logicalLay.ast cond (c.sub 1)) B, last2, ?_, ?_⟩
      · have hd := loop_dispatch true (c.sub 0) (unparse cond (c.sub 1) ++
          headerTailD d eol b (c.sub 2) (c.sub 3) (linesToksD d b (c.sub 3))) (parser (n + 1)) src last eof false
        simp only [if_true, if_false, Bool.false_eq_true] at hd
        rw [hd]
        simp [map_run, parseLoop, bind_run, consume_cons, isAnyKind, he, heol, hrec_block, parseBlock_eq, hB,
          pure_run]
      · simp only [eraseS, hBs, expr_shape]
        rfl
  | .untilS cond eol b, d, c, n, src, last, eof, hw, hn, hsane, hfit => by
    rw [untilS_wf] at hw
    simp only [Bool.and_eq_true] at hw
    obtain ⟨⟨hwc, hok⟩, hwb⟩ := hw
    rw [untilS_fitsD] at hfit
    unfold StRunsD
    rw [untilS_toksD] at hn ⊢
    simp only [List.length_cons, List.length_append] at hn
    cases n with
    | zero => omega
    | succ n =>
      have hcs := cond_stopD cond eol d b (c.sub 2) (c.sub 3) (linesToksD d b (c.sub 3)) hok
      have he := fun last => expression_run cond (c.sub 1) (n + 1) _ src last eof false hwc (by omega) hcs
      obtain ⟨T1, last1, B, last2, heol, hB, hBs⟩ := headerTail_run (stmtLoopBody (parser n)) d eol b
        (c.sub 2) (c.sub 3) (linesToksD d b (c.sub 3)) src
        (lastSnap (unparse cond (c.sub 1)) (c.sub 0).here.after) eof
        (fun _ => rfl) (expr_last_sane cond _ _ (sane_sub hsane 1) (sane_here hsane [0]))
        (sane_sub hsane 2) (fun hne => (linesD_not_nl d b (c.sub 3) hne).1)
        (fun hne last => linesD_run b d (c.sub 3) n src last eof hwb
          (by have := headerTail_len d eol b (c.sub 2) (c.sub 3) (linesToksD d b (c.sub 3)) hne; omega)
          (sane_sub hsane 3) hfit)
      refine ⟨.untilS (logicalLay.ast cond (c.sub 1)) B, last2, ?_, ?_⟩
      · have hd := loop_dispatch false (c.sub 0) (unparse cond (c.sub 1) ++
          headerTailD d eol b (c.sub 2) (c.sub 3) (linesToksD d b (c.sub 3))) (parser (n + 1)) src last eof false
        simp only [if_true, if_false, Bool.false_eq_true] at hd
        rw [hd]
        simp [map_run, parseLoop, bind_run, consume_cons, isAnyKind, he, heol, hrec_block, parseBlock_eq, hB,
          pure_run]
      · simp only [eraseS, hBs, expr_shape]
        rfl
  | .func f p ps eol b, d, c, n, src, last, eof, hw, hn, hsane, hfit => by
    rw [func_wf] at hw
    simp only [Bool.and_eq_true] at hw
    obtain ⟨⟨⟨⟨⟨hwf, hwp⟩, hwps⟩, heolc⟩, hwb⟩, hbody⟩ := hw
    rw [func_fitsD] at hfit
    unfold StRunsD
    rw [func_toksD] at hn ⊢
    simp only [List.length_cons, List.length_append] at hn
    have hfp := var_toks_pos f (c.sub 0)
    cases n with
    | zero => omega
    | succ n =>
      have heh := params_stopD eol d b (c.sub 4) (c.sub 5) (fnLinesToksD d b (c.sub 5)) heolc
      have hpnext : nextIn [.word] (paramsToks ps (c.sub 3) ++
          headerTailD d eol b (c.sub 4) (c.sub 5) (fnLinesToksD d b (c.sub 5))) = false := by
        cases ps with
        | nil => simpa [paramsToks] using nextIn_sub heh (ks' := [.word]) (by decide)
        | cons v' vs' =>
          simp only [paramsToks, List.append_assoc]
          exact nextIn_of_head (sep_head _) (by decide)
      have hx := ident_run (.var f) c (n + 1)
        (tk (.kw .takes) (c.sub 1) :: (p.toks (c.sub 2) ++ (paramsToks ps (c.sub 3) ++
          headerTailD d eol b (c.sub 4) (c.sub 5) (fnLinesToksD d b (c.sub 5))))) src last eof
        false hwf (by simpa [IdSpec.toks] using (by omega : (f.toks (c.sub 0)).length ≤ n + 1))
        (by simp [nextIn_cons])
      have hp := fun last => expectVar_run p (c.sub 2) (n + 1) (paramsToks ps (c.sub 3) ++
        headerTailD d eol b (c.sub 4) (c.sub 5) (fnLinesToksD d b (c.sub 5))) src last eof false hwp
        (by omega) hpnext
      have hps := fun last => params_run ps (c.sub 3) (n + 1)
        (headerTailD d eol b (c.sub 4) (c.sub 5) (fnLinesToksD d b (c.sub 5))) src last eof false hwps
        (by omega) heh
      obtain ⟨T1, last1, B, last2, heol, hB, hBs⟩ := headerTail_run (fnStmtLoopBody (parser n)) d eol b
        (c.sub 4) (c.sub 5) (fnLinesToksD d b (c.sub 5)) src
        (lastSnap (paramsToks ps (c.sub 3)) (lastSnap (p.toks (c.sub 2)) (c.sub 1).here.after)) eof
        (fun _ => rfl)
        (lastSnap_sane _ _ (lastSnap_sane _ _ (sane_here hsane [1]) (var_sane p _ (sane_sub hsane 2)))
          (params_sane ps _ (sane_sub hsane 3)))
        (sane_sub hsane 4) (fun hne => fnLinesD_not_nl d b (c.sub 5) hne)
        (fun hne last => fnlinesD_run b d (c.sub 5) n src last eof hwb hbody
          (by have := headerTail_len d eol b (c.sub 4) (c.sub 5) (fnLinesToksD d b (c.sub 5)) hne; omega)
          (sane_sub hsane 5) hfit)
      refine ⟨.func f.toName (f.range (c.sub 0)) ((p.toName, p.range (c.sub 2)) :: paramsR ps (c.sub 3)) B,
        last2, ?_, ?_⟩
      · obtain ⟨t0, ts0, h1, h2⟩ := var_head_kind f (c.sub 0)
        simp only [IdSpec.toks, IdSpec.toIdent, IdSpec.range] at hx
        change expectIdentifier (parser (n + 1)) ⟨src, f.toks (c.sub 0) ++ _, last, eof, false⟩ = _ at hx
        have hdisp : parseStatement (parser (n + 1)) ⟨src, f.toks (c.sub 0) ++ (tk (.kw .takes) (c.sub 1) ::
            (p.toks (c.sub 2) ++ (paramsToks ps (c.sub 3) ++
              headerTailD d eol b (c.sub 4) (c.sub 5) (fnLinesToksD d b (c.sub 5))))), last, eof, false⟩
            = (some <$> parseStatementStartingWithWord (parser (n + 1))) ⟨src, f.toks (c.sub 0) ++
              (tk (.kw .takes) (c.sub 1) :: (p.toks (c.sub 2) ++ (paramsToks ps (c.sub 3) ++
                headerTailD d eol b (c.sub 4) (c.sub 5) (fnLinesToksD d b (c.sub 5))))), last, eof, false⟩ := by
          rw [h1]
          rcases h2 with h2 | h2 <;>
            simp [parseStatement, current_run, bind_run, h2]
        rw [hdisp]
        simp [map_run, parseStatementStartingWithWord, bind_run, hx, current_run, asVariableName,
          parseFunction, consume_cons, isKind, parseParameterList, hp, hps, heol, hrec_fnblock,
          parseFunctionBlock_eq, hB, pure_run]
      · simp only [eraseS, hBs, List.map_cons, paramsR_erase]
        rfl
theorem lastlineD_run : (s : Statement N) → ∀ (d : Nat) (c0 c1 : Choices N) (n : Nat) (src last eof),
    s.wf = true → (s.toksD d c0).length ≤ n → c0.Sane src → s.FitsD src d c0 (s.eolToksE c1) → s.EolOKE c1 →
    ∃ s' last', parseStatement (parser n) ⟨src, s.toksD d c0 ++ s.eolToksE c1, last, eof, false⟩
        = .ok (some s', ⟨src, s.eolToksE c1, last', eof, false⟩) ∧
      eraseS s' = s.toStmt
  | .simple s eol, d, c0, c1, n, src, last, eof, hw, hn, hsane, hfit, hpk => by
    have hst := stmt_stop_eolE (.simple s eol) c1 hw hpk
    rw [simple_wf, Bool.and_eq_true] at hw
    rw [simple_fitsD] at hfit
    rw [simple_toksD] at hn ⊢
    obtain ⟨s', last', h1, _, h2⟩ := simple_run s c0 n _ src last eof hw.1 hn hst hsane hfit
    exact ⟨s', last', h1, h2⟩
  | .ifS cond eol t e, d, c0, c1, n, src, last, eof, hw, hn, hsane, hfit, _ => by
    have := stmtD_run (.ifS cond eol t e) d c0 n src last eof hw hn hsane
      (by cases e <;> simpa [ifS_none_fitsD, ifS_some_fitsD] using hfit)
    simpa [StRunsD, Statement.eolToksE] using this
  | .whileS cond eol b, d, c0, c1, n, src, last, eof, hw, hn, hsane, hfit, _ => by
    have := stmtD_run (.whileS cond eol b) d c0 n src last eof hw hn hsane
      (by simpa [whileS_fitsD] using hfit)
    simpa [StRunsD, Statement.eolToksE] using this
  | .untilS cond eol b, d, c0, c1, n, src, last, eof, hw, hn, hsane, hfit, _ => by
    have := stmtD_run (.untilS cond eol b) d c0 n src last eof hw hn hsane
      (by simpa [untilS_fitsD] using hfit)
    simpa [StRunsD, Statement.eolToksE] using this
  | .func f p ps eol b, d, c0, c1, n, src, last, eof, hw, hn, hsane, hfit, _ => by
    have := stmtD_run (.func f p ps eol b) d c0 n src last eof hw hn hsane
      (by simpa [func_fitsD] using hfit)
    simpa [StRunsD, Statement.eolToksE] using this
theorem linesD_run : (ls : List (Statement N)) → ∀ (d : Nat) (c : Choices N) (n : Nat) (src last eof),
    stmtsWf ls = true → (linesToksD d ls c).length ≤ n → c.Sane src → linesFitD src d ls c →
    ∃ ss' last', stmtLoopBody (parser n) ⟨src, linesToksD d ls c, last, eof, false⟩
        = .ok (ss', ⟨src, [], last', eof, false⟩) ∧
      eraseSL ss' = stmtsToStmt ls
  | [], d, c, n, src, last, eof, _, _, _, _ => ⟨[], last, by rw [linesD_nil]; rfl, rfl⟩
  | [s], 0, c, n, src, last, eof, hw, hn, hsane, hfit => by
    rw [stmtsWf_cons, Bool.and_eq_true] at hw
    rw [linesFitD_one_zero] at hfit
    rw [linesD_one_zero] at hn ⊢
    simp only [List.length_append] at hn
    obtain ⟨t0, ts0, hh, _⟩ := stmt_head s (c.sub 0)
    have hpos : 1 ≤ (s.toks (c.sub 0)).length := by simp [hh]
    cases n with
    | zero => omega
    | succ n =>
      obtain ⟨s', last', hs1, hl1, hs2⟩ := stmt_run s (c.sub 0) (n + 1) (s.eolToks (c.sub 1)) src last eof
        hw.1 (by omega) (by simpa using stmt_stop_eol s (c.sub 1) [] hw.1 hfit.2) (sane_sub hsane 0) hfit.1
      have hl1' := hl1 (by simpa using stmt_eol_ne s (c.sub 1) [])
      subst hl1'
      have heol := expectEol_stmt s (c.sub 1) [] src (lastSnap (s.toks (c.sub 0)) last) eof false
      rw [List.append_nil] at heol
      refine ⟨[s'], lastSnap (s.eolToks (c.sub 1)) (lastSnap (s.toks (c.sub 0)) last), ?_,
        by simp [eraseSL, hs2, stmtsToStmt_cons]; rfl⟩
      rw [stmtLoopBody]
      simp [bind_run, hs1, heol, hrec_stmtLoop, stmtLoop_nil, pure_run]
  | [s], d + 1, c, n, src, last, eof, hw, hn, hsane, hfit => by
    rw [stmtsWf_cons, Bool.and_eq_true] at hw
    rw [linesFitD_one_succ] at hfit
    rw [linesD_one_succ] at hn ⊢
    simp only [List.length_append] at hn
    obtain ⟨t0, ts0, hh, _⟩ := stmtD_head d s (c.sub 0)
    have hpos : 1 ≤ (s.toksD d (c.sub 0)).length := by simp [hh]
    cases n with
    | zero => omega
    | succ n =>
      obtain ⟨s', last', hs1, hs2⟩ := lastlineD_run s d (c.sub 0) (c.sub 1) (n + 1) src last eof hw.1 (by omega)
        (sane_sub hsane 0) hfit.1 hfit.2
      refine ⟨[s'], lastSnap (s.eolToksE (c.sub 1)) last', ?_, by simp [eraseSL, hs2, stmtsToStmt_cons]; rfl⟩
      rw [stmtLoopBody]
      simp [bind_run, hs1, expectEol_eofE, hrec_stmtLoop, stmtLoop_nil, pure_run]
  | s :: s2 :: ss, d, c, n, src, last, eof, hw, hn, hsane, hfit => by
    rw [stmtsWf_cons, Bool.and_eq_true] at hw
    rw [linesFitD_cons] at hfit
    obtain ⟨hf1, hf2, hf3⟩ := hfit
    rw [linesD_cons] at hn ⊢
    simp only [List.length_append] at hn
    obtain ⟨t0, ts0, hh, _⟩ := stmt_head s (c.sub 0)
    have hpos : 1 ≤ (s.toks (c.sub 0)).length := by simp [hh]
    cases n with
    | zero => omega
    | succ n =>
      obtain ⟨s', last', hs1, hl1, hs2⟩ := stmt_run s (c.sub 0) (n + 1)
        (s.eolToks (c.sub 1) ++ linesToksD d (s2 :: ss) (c.sub 2))
        src last eof hw.1 (by omega) (stmt_stop_eol s (c.sub 1) _ hw.1 hf2) (sane_sub hsane 0)
        (stmt_fits_congr src s _ (stmt_eol_head s _ _).symm hf1)
      have hl1' := hl1 (stmt_eol_ne s _ _)
      subst hl1'
      obtain ⟨ss', last2, hss1, hss2⟩ := linesD_run (s2 :: ss) d (c.sub 2) n src
        (lastSnap (s.eolToks (c.sub 1)) (lastSnap (s.toks (c.sub 0)) last)) eof hw.2 (by omega)
        (sane_sub hsane 2) hf3
      refine ⟨s' :: ss', last2, ?_, by simp [eraseSL, hs2, hss2, stmtsToStmt_cons]⟩
      rw [stmtLoopBody]
      simp [bind_run, hs1, expectEol_stmt, hrec_stmtLoop, hss1, pure_run]
theorem fnlinesD_run : (ls : List (Statement N)) → ∀ (d : Nat) (c : Choices N) (n : Nat) (src last eof),
    stmtsWf ls = true → fnBodyOK ls = true → (fnLinesToksD d ls c).length ≤ n → c.Sane src →
    fnLinesFitD src d ls c →
    ∃ ss' last', fnStmtLoopBody (parser n) ⟨src, fnLinesToksD d ls c, last, eof, false⟩
        = .ok (ss', ⟨src, [], last', eof, false⟩) ∧
      eraseSL ss' = stmtsToStmt ls
  | [], d, c, n, src, last, eof, _, _, _, _, _ => ⟨[], last, by rw [fnLinesD_nil]; rfl, rfl⟩
  | [s], d, c, n, src, last, eof, hw, _, hn, hsane, hfit => by
    rw [stmtsWf_cons, Bool.and_eq_true] at hw
    rw [fnLinesFitD_one] at hfit
    rw [fnLinesD_one] at hn ⊢
    by_cases hie : s.isIfElse = true
    · simp only [hie, if_true] at hn hfit ⊢
      obtain ⟨t0, ts0, hh, _⟩ := stmtD_head d s (c.sub 0)
      cases n with
      | zero => rw [hh] at hn; simp at hn
      | succ n =>
        obtain ⟨s', last', hs1, hs2⟩ := stmtD_run s d (c.sub 0) (n + 1) src last eof hw.1 hn (sane_sub hsane 0)
          hfit
        have hft : isFunctionTerminator s' = true := by
          rw [← isFunctionTerminator_erase, hs2, isFunctionTerminator_toStmt]; exact hie
        refine ⟨[s'], last', ?_, by simp [eraseSL, hs2, stmtsToStmt_cons]; rfl⟩
        rw [fnStmtLoopBody]
        simp [bind_run, hs1, hft, pure_run]
    · have hnt : s.isIfElse = false := by simpa using hie
      simp only [hnt, Bool.false_eq_true, if_false] at hn hfit ⊢
      cases d with
      | zero =>
        rw [linesFitD_one_zero] at hfit
        rw [linesD_one_zero] at hn ⊢
        simp only [List.length_append] at hn
        obtain ⟨t0, ts0, hh, _⟩ := stmt_head s (c.sub 0)
        have hpos : 1 ≤ (s.toks (c.sub 0)).length := by simp [hh]
        cases n with
        | zero => omega
        | succ n =>
          obtain ⟨s', last', hs1, hl1, hs2⟩ := stmt_run s (c.sub 0) (n + 1) (s.eolToks (c.sub 1)) src last eof
            hw.1 (by omega) (by simpa using stmt_stop_eol s (c.sub 1) [] hw.1 hfit.2) (sane_sub hsane 0) hfit.1
          have hl1' := hl1 (by simpa using stmt_eol_ne s (c.sub 1) [])
          subst hl1'
          have heol := expectEol_stmt s (c.sub 1) [] src (lastSnap (s.toks (c.sub 0)) last) eof false
          rw [List.append_nil] at heol
          have hft : isFunctionTerminator s' = false := by
            rw [← isFunctionTerminator_erase, hs2, isFunctionTerminator_toStmt]; exact hnt
          refine ⟨[s'], lastSnap (s.eolToks (c.sub 1)) (lastSnap (s.toks (c.sub 0)) last), ?_,
            by simp [eraseSL, hs2, stmtsToStmt_cons]; rfl⟩
          rw [fnStmtLoopBody]
          simp [bind_run, hs1, hft, heol, hrec_fnStmtLoop, fnStmtLoop_nil, pure_run]
      | succ d =>
        rw [linesFitD_one_succ] at hfit
        rw [linesD_one_succ] at hn ⊢
        simp only [List.length_append] at hn
        obtain ⟨t0, ts0, hh, _⟩ := stmtD_head d s (c.sub 0)
        have hpos : 1 ≤ (s.toksD d (c.sub 0)).length := by simp [hh]
        cases n with
        | zero => omega
        | succ n =>
          obtain ⟨s', last', hs1, hs2⟩ := lastlineD_run s d (c.sub 0) (c.sub 1) (n + 1) src last eof hw.1
            (by omega) (sane_sub hsane 0) hfit.1 hfit.2
          have hft : isFunctionTerminator s' = false := by
            rw [← isFunctionTerminator_erase, hs2, isFunctionTerminator_toStmt]; exact hnt
          refine ⟨[s'], lastSnap (s.eolToksE (c.sub 1)) last', ?_,
            by simp [eraseSL, hs2, stmtsToStmt_cons]; rfl⟩
          rw [fnStmtLoopBody]
          simp [bind_run, hs1, hft, expectEol_eofE, hrec_fnStmtLoop, fnStmtLoop_nil, pure_run]
  | s :: s2 :: ss, d, c, n, src, last, eof, hw, hok, hn, hsane, hfit => by
    rw [stmtsWf_cons, Bool.and_eq_true] at hw
    rw [fnLinesFitD_cons] at hfit
    obtain ⟨hf1, hf2, hf3⟩ := hfit
    rw [fnLinesD_cons] at hn ⊢
    simp only [List.length_append] at hn
    obtain ⟨t0, ts0, hh, _⟩ := stmt_head s (c.sub 0)
    have hpos : 1 ≤ (s.toks (c.sub 0)).length := by simp [hh]
    obtain ⟨hok1, hok2⟩ := fnBodyOK_tail hok
    have hnt : s.isIfElse = false := hok2 (by simp)
    cases n with
    | zero => omega
    | succ n =>
      obtain ⟨s', last', hs1, hl1, hs2⟩ := stmt_run s (c.sub 0) (n + 1)
        (s.eolToks (c.sub 1) ++ fnLinesToksD d (s2 :: ss) (c.sub 2))
        src last eof hw.1 (by omega) (stmt_stop_eol s (c.sub 1) _ hw.1 hf2) (sane_sub hsane 0)
        (stmt_fits_congr src s _ (stmt_eol_head s _ _).symm hf1)
      have hl1' := hl1 (stmt_eol_ne s _ _)
      subst hl1'
      have hft : isFunctionTerminator s' = false := by
        rw [← isFunctionTerminator_erase, hs2, isFunctionTerminator_toStmt]; exact hnt
      obtain ⟨ss', last2, hss1, hss2⟩ := fnlinesD_run (s2 :: ss) d (c.sub 2) n src
        (lastSnap (s.eolToks (c.sub 1)) (lastSnap (s.toks (c.sub 0)) last)) eof hw.2 hok1 (by omega)
        (sane_sub hsane 2) hf3
      refine ⟨s' :: ss', last2, ?_, by simp [eraseSL, hs2, hss2, stmtsToStmt_cons]⟩
      rw [fnStmtLoopBody]
      simp [bind_run, hs1, hft, expectEol_stmt, hrec_fnStmtLoop, hss1, pure_run]
end

/-! ### programs that end with the tokens -/

theorem topLoop_nil (rec : Rec N) (src last eof b) :
    topLoopBody rec ⟨src, [], last, eof, b⟩ = .ok ([], ⟨src, [], last, eof, b⟩) := rfl

omit [CharOps] in
theorem blanks_not_else (k : Nat) (c' : Choices N) (X : List (Tok N)) (hX : nextIn [.else_] X = false) :
    nextIn [.else_] (blanksToks k c' ++ X) = false := by
  cases k with
  | zero => simpa [blanksToks] using hX
  | succ k' => simp [blanksToks, nextIn_cons]

theorem progD_not_else (d : Nat) (bs : List (List (Statement N))) (c : Choices N) (hw : progWf bs = true) :
    nextIn [.else_] (progToksD d bs c) = false := by
  cases bs with
  | nil => rfl
  | cons b bs =>
    simp only [progWf, List.all_cons, Bool.and_eq_true, Bool.not_eq_true', List.isEmpty_eq_false_iff] at hw
    cases bs with
    | nil =>
      rw [progToksD]
      exact blanks_not_else _ _ _ (linesD_not_nl d b (c.sub 1) hw.1.1).2
    | cons b' bs' =>
      rw [progToksD]
      exact blanks_not_else _ _ _ (lines_not_else b hw.1.1 (c.sub 1) _)

theorem prog_runD (d : Nat) : ∀ (bs : List (List (Statement N))) (c : Choices N) (n : Nat) (src : Str)
    (last eof : Snap),
    progWf bs = true → (progToksD d bs c).length ≤ n → SnapOK src last → c.Sane src → progFitsD src d bs c →
    TopRuns n src (progToksD d bs c) last eof (progToAst bs) := by
  intro bs
  induction bs with
  | nil =>
    intro c n src last eof _ _ _ _ _
    exact ⟨[], _, rfl, rfl, rfl⟩
  | cons b bs ih =>
    intro c n src last eof hw hn hl hs hfit
    simp only [progWf, List.all_cons, Bool.and_eq_true, Bool.not_eq_true', List.isEmpty_eq_false_iff] at hw
    obtain ⟨⟨hne, hwb⟩, hwbs⟩ := hw
    have hwbs' : progWf bs = true := by simpa [progWf] using hwbs
    cases bs with
    | nil =>
      rw [progToksD] at hn ⊢
      simp only [List.length_append, blanks_len] at hn
      have hfit' : linesFitD src d b (c.sub 1) := hfit
      obtain ⟨hnl, hXe⟩ := linesD_not_nl d b (c.sub 1) hne
      refine blanks_run _ src eof _ ?_ hXe (c.sub 0).choice (c.sub 0) n last (by omega) hl (sane_sub hs 0)
      intro m last' hm hl'
      cases b with
      | nil => exact absurd rfl hne
      | cons s ss =>
        obtain ⟨t, ts, hh, hk⟩ := linesD_head d s ss (c.sub 1)
        cases m with
        | zero => rw [hh] at hm; simp at hm
        | succ m =>
          obtain ⟨ss', last2, hl1, hl2⟩ := linesD_run (s :: ss) d (c.sub 1) (m + 1) src last' eof hwb hm
            (sane_sub hs 1) hfit'
          have hss' : ss' ≠ [] := by
            intro h; subst h
            simp [eraseSL, stmtsToStmt_cons] at hl2
          refine ⟨[.mk ⟨last'.line, last'.idx - last'.lineStart⟩ ss'], ⟨src, [], last2, eof, false⟩, ?_, rfl, ?_⟩
          · rw [topLoopBody, bind_run, current_run]
            simp only [hh, List.head?_cons]
            rw [← hh]
            simp [bind_run, parseBlock, currentLoc_ok _ _ _ _ _ hl', mac_stop_kind hnl, hl1, pure_run,
              topLoopAfterBlock, currentMatches_nil, hrec_topLoop, topLoop_nil, Block.isEmpty, hss']
          · simp [eraseB, hl2, progToAst]
    | cons b' bs' =>
      rw [progToksD] at hn ⊢
      simp only [List.length_append, List.length_cons, blanks_len] at hn
      have hfit' : linesFit src b (c.sub 1) ∧ progFitsD src d (b' :: bs') (c.sub 3) := hfit
      exact prog_step b hne hwb (progToksD d (b' :: bs') (c.sub 3)) src eof (progToAst (b' :: bs'))
        (fun m last' hm hl' => ih (c.sub 3) m src last' eof hwbs' hm hl' (sane_sub hs 3) hfit'.2)
        (progD_not_else d (b' :: bs') (c.sub 3) hwbs') (c.sub 0) (c.sub 1) (c.sub 2) (c.sub 0).choice n last
        (by omega) hl (sane_sub hs 0) (sane_sub hs 1) hfit'.1 (sane_here hs [2])

theorem program_roundtripD (d : Nat) (bs : List (List (Statement N))) (c : Choices N) (st : PState N) (n : Nat)
    (hwf : progWf bs = true) (htoks : st.toks = progToksD d bs c) (hflag : st.parsingList = false)
    (hlast : SnapOK st.src st.last) (hsane : c.Sane st.src) (hfit : progFitsD st.src d bs c)
    (hn : (progToksD d bs c).length ≤ n) :
    ∃ p st', parseProgramBody (parser n) st = .ok (p, st') ∧ p.code.map eraseB = progToAst bs ∧
      st'.toks = [] := by
  obtain ⟨src, toks, last, eof, pl⟩ := st
  simp only at htoks hflag hsane hlast hfit
  subst htoks hflag
  obtain ⟨bl, st', h1, h2, h3⟩ := prog_runD d bs c n src last eof hwf hn hlast hsane hfit
  exact ⟨⟨bl⟩, st', by simp [parseProgramBody, bind_run, h1, pure_run], h3, h2⟩

theorem statement_roundtripD (d : Nat) (s : Statement N) (c : Choices N) (st : PState N) (n : Nat)
    (hwf : s.wf = true) (htoks : st.toks = s.toksD d c) (hflag : st.parsingList = false)
    (hsane : c.Sane st.src) (hfit : s.FitsD st.src d c []) (hn : (s.toksD d c).length ≤ n) :
    ∃ s' st', parseStatement (parser n) st = .ok (some s', st') ∧ eraseS s' = s.toStmt ∧ st'.toks = [] := by
  obtain ⟨src, toks, last, eof, pl⟩ := st
  simp only at htoks hflag hsane hfit
  subst htoks hflag
  obtain ⟨s', last', h1, h2⟩ := stmtD_run s d c n src last eof hwf hn hsane hfit
  exact ⟨s', _, h1, h2, rfl⟩

/-! ### all the last newlines omitted (`toksE`) is the instance at `eofDepth` -/

theorem simple_toksE (s : SimpleStmt N) (eol : Eol) (c : Choices N) :
    (Statement.simple s eol).toksE c = s.toks c := rfl

theorem ifS_none_toksE (cond : Expression N) (eol : Eol) (t : List (Statement N)) (c : Choices N) :
    (Statement.ifS cond eol t none).toksE c
      = tk (.kw .if_) (c.sub 0) :: (unparse cond (c.sub 1) ++ (eolToks eol (c.sub 2) ++
          linesToksE t (c.sub 3))) := rfl

theorem ifS_some_toksE (cond : Expression N) (eol : Eol) (t b : List (Statement N)) (c : Choices N) :
    (Statement.ifS cond eol t (some b)).toksE c
      = tk (.kw .if_) (c.sub 0) :: (unparse cond (c.sub 1) ++ (eolToks eol (c.sub 2) ++
          (blockToks t (c.sub 3) ++ (tk (.kw .else_) (c.sub 4) :: tk (.kw .newline) (c.sub 5) ::
            linesToksE b (c.sub 6))))) := by
  cases t <;> rfl

theorem whileS_toksE (cond : Expression N) (eol : Eol) (b : List (Statement N)) (c : Choices N) :
    (Statement.whileS cond eol b).toksE c
      = tk (.kw .while_) (c.sub 0) :: (unparse cond (c.sub 1) ++ (eolToks eol (c.sub 2) ++
          linesToksE b (c.sub 3))) := rfl

theorem untilS_toksE (cond : Expression N) (eol : Eol) (b : List (Statement N)) (c : Choices N) :
    (Statement.untilS cond eol b).toksE c
      = tk (.kw .until_) (c.sub 0) :: (unparse cond (c.sub 1) ++ (eolToks eol (c.sub 2) ++
          linesToksE b (c.sub 3))) := rfl

theorem func_toksE (f p : VarSpec) (ps : List VarSpec) (eol : Eol) (b : List (Statement N)) (c : Choices N) :
    (Statement.func f p ps eol b).toksE c
      = f.toks (c.sub 0) ++ tk (.kw .takes) (c.sub 1) :: (p.toks (c.sub 2) ++ (paramsToks ps (c.sub 3) ++
          (eolToks eol (c.sub 4) ++ fnLinesToksE b (c.sub 5)))) := rfl

theorem linesE_nil (c : Choices N) : linesToksE ([] : List (Statement N)) c = [] := rfl
theorem linesE_one (s : Statement N) (c : Choices N) :
    linesToksE [s] c = s.toksE (c.sub 0) ++ s.eolToksE (c.sub 1) := rfl
theorem linesE_cons (s s' : Statement N) (ss : List (Statement N)) (c : Choices N) :
    linesToksE (s :: s' :: ss) c = s.toks (c.sub 0) ++ (s.eolToks (c.sub 1) ++ linesToksE (s' :: ss) (c.sub 2)) :=
  rfl
theorem fnLinesE_nil (c : Choices N) : fnLinesToksE ([] : List (Statement N)) c = [] := rfl
theorem fnLinesE_one (s : Statement N) (c : Choices N) :
    fnLinesToksE [s] c = s.toksE (c.sub 0) ++ (if s.isIfElse then [] else s.eolToksE (c.sub 1)) := rfl
theorem fnLinesE_cons (s s' : Statement N) (ss : List (Statement N)) (c : Choices N) :
    fnLinesToksE (s :: s' :: ss) c
      = s.toks (c.sub 0) ++ (s.eolToks (c.sub 1) ++ fnLinesToksE (s' :: ss) (c.sub 2)) := rfl

omit [CharOps] in
theorem eofDepth_ifS_none (cond : Expression N) (eol : Eol) (t : List (Statement N)) :
    (Statement.ifS cond eol t none).eofDepth = linesEofDepth t := rfl
omit [CharOps] in
theorem eofDepth_ifS_some (cond : Expression N) (eol : Eol) (t b : List (Statement N)) :
    (Statement.ifS cond eol t (some b)).eofDepth = linesEofDepth b := rfl
omit [CharOps] in
theorem eofDepth_whileS (cond : Expression N) (eol : Eol) (b : List (Statement N)) :
    (Statement.whileS cond eol b).eofDepth = linesEofDepth b := rfl
omit [CharOps] in
theorem eofDepth_untilS (cond : Expression N) (eol : Eol) (b : List (Statement N)) :
    (Statement.untilS cond eol b).eofDepth = linesEofDepth b := rfl
omit [CharOps] in
theorem eofDepth_func (f p : VarSpec) (ps : List VarSpec) (eol : Eol) (b : List (Statement N)) :
    (Statement.func (N := N) f p ps eol b).eofDepth = fnLinesEofDepth b := rfl
omit [CharOps] in
theorem linesEofDepth_nil : linesEofDepth ([] : List (Statement N)) = 1 := rfl
omit [CharOps] in
theorem linesEofDepth_one (s : Statement N) : linesEofDepth [s] = s.eofDepth + 1 := rfl
omit [CharOps] in
theorem linesEofDepth_cons (s s' : Statement N) (ss : List (Statement N)) :
    linesEofDepth (s :: s' :: ss) = linesEofDepth (s' :: ss) := rfl
omit [CharOps] in
theorem fnLinesEofDepth_nil : fnLinesEofDepth ([] : List (Statement N)) = 1 := rfl
omit [CharOps] in
theorem fnLinesEofDepth_one (s : Statement N) :
    fnLinesEofDepth [s] = if s.isIfElse then s.eofDepth else s.eofDepth + 1 := rfl
omit [CharOps] in
theorem fnLinesEofDepth_cons (s s' : Statement N) (ss : List (Statement N)) :
    fnLinesEofDepth (s :: s' :: ss) = fnLinesEofDepth (s' :: ss) := rfl

omit [CharOps] in
/-- a header line end followed by the lines of its block, at the depth of the block -/
theorem headerTail_eofDepth (eol : Eol) (b : List (Statement N)) (c2 c3 : Choices N) (k : Nat)
    (linesE linesD : List (Tok N)) (hk : b = [] → k = 1) (hE : b = [] → linesE = [])
    (hl : b ≠ [] → linesE = linesD) :
    eolToks eol c2 ++ linesE = headerTailD k eol b c2 c3 linesD := by
  cases b with
  | nil => rw [hk rfl, hE rfl, eolToks_punct]; simp [headerTailD, emptyTailD]
  | cons s ss => rw [hl (by simp)]; rfl

mutual
theorem toksE_eq : (s : Statement N) → ∀ (c : Choices N), s.toksE c = s.toksD s.eofDepth c
  | .simple s eol, c => by rw [simple_toksE, simple_toksD]
  | .ifS cond eol t none, c => by
    rw [ifS_none_toksE, ifS_none_toksD, eofDepth_ifS_none]
    rw [headerTail_eofDepth eol t (c.sub 2) (c.sub 3) (linesEofDepth t) _ (linesToksD (linesEofDepth t) t (c.sub 3))
      (fun h => by subst h; rfl) (fun h => by subst h; rfl) (fun _ => linesE_eq t (c.sub 3))]
  | .ifS cond eol t (some b), c => by
    rw [ifS_some_toksE, ifS_some_toksD, eofDepth_ifS_some]
    cases b with
    | nil => rfl
    | cons s ss =>
      rw [linesE_eq (s :: ss) (c.sub 6)]
      rfl
  | .whileS cond eol b, c => by
    rw [whileS_toksE, whileS_toksD, eofDepth_whileS]
    rw [headerTail_eofDepth eol b (c.sub 2) (c.sub 3) (linesEofDepth b) _ (linesToksD (linesEofDepth b) b (c.sub 3))
      (fun h => by subst h; rfl) (fun h => by subst h; rfl) (fun _ => linesE_eq b (c.sub 3))]
  | .untilS cond eol b, c => by
    rw [untilS_toksE, untilS_toksD, eofDepth_untilS]
    rw [headerTail_eofDepth eol b (c.sub 2) (c.sub 3) (linesEofDepth b) _ (linesToksD (linesEofDepth b) b (c.sub 3))
      (fun h => by subst h; rfl) (fun h => by subst h; rfl) (fun _ => linesE_eq b (c.sub 3))]
  | .func f p ps eol b, c => by
    rw [func_toksE, func_toksD, eofDepth_func]
    rw [headerTail_eofDepth eol b (c.sub 4) (c.sub 5) (fnLinesEofDepth b) _
      (fnLinesToksD (fnLinesEofDepth b) b (c.sub 5))
      (fun h => by subst h; rfl) (fun h => by subst h; rfl) (fun _ => fnLinesE_eq b (c.sub 5))]
theorem linesE_eq : (ls : List (Statement N)) → ∀ (c : Choices N),
    linesToksE ls c = linesToksD (linesEofDepth ls) ls c
  | [], c => by rw [linesE_nil, linesD_nil]
  | [s], c => by rw [linesE_one, linesEofDepth_one, linesD_one_succ, toksE_eq s (c.sub 0)]
  | s :: s' :: ss, c => by
    rw [linesE_cons, linesEofDepth_cons, linesD_cons, linesE_eq (s' :: ss) (c.sub 2)]
theorem fnLinesE_eq : (ls : List (Statement N)) → ∀ (c : Choices N),
    fnLinesToksE ls c = fnLinesToksD (fnLinesEofDepth ls) ls c
  | [], c => by rw [fnLinesE_nil, fnLinesD_nil]
  | [s], c => by
    rw [fnLinesE_one, fnLinesEofDepth_one, fnLinesD_one]
    by_cases hie : s.isIfElse = true
    · simp only [hie, if_true, List.append_nil]
      exact toksE_eq s (c.sub 0)
    · have hnt : s.isIfElse = false := by simpa using hie
      simp only [hnt, Bool.false_eq_true, if_false]
      rw [linesD_one_succ, toksE_eq s (c.sub 0)]
  | s :: s' :: ss, c => by
    rw [fnLinesE_cons, fnLinesEofDepth_cons, fnLinesD_cons, fnLinesE_eq (s' :: ss) (c.sub 2)]
end

theorem progToksE_eq : ∀ (bs : List (List (Statement N))) (c : Choices N),
    progToksE bs c = progToksD (progEofDepth bs) bs c
  | [], c => rfl
  | [b], c => by
    rw [progToksE, progToksD, linesE_eq b (c.sub 1)]
    rfl
  | b :: b' :: bs, c => by
    rw [progToksE, progToksD, progToksE_eq (b' :: bs) (c.sub 3)]
    rfl

theorem program_roundtripE (bs : List (List (Statement N))) (c : Choices N) (st : PState N) (n : Nat)
    (hwf : progWf bs = true) (htoks : st.toks = progToksE bs c) (hflag : st.parsingList = false)
    (hlast : SnapOK st.src st.last) (hsane : c.Sane st.src) (hfit : progFitsE st.src bs c)
    (hn : (progToksE bs c).length ≤ n) :
    ∃ p st', parseProgramBody (parser n) st = .ok (p, st') ∧ p.code.map eraseB = progToAst bs ∧
      st'.toks = [] := by
  rw [progToksE_eq] at htoks hn
  exact program_roundtripD (progEofDepth bs) bs c st n hwf htoks hflag hlast hsane hfit hn

theorem statement_roundtripE (s : Statement N) (c : Choices N) (st : PState N) (n : Nat)
    (hwf : s.wf = true) (htoks : st.toks = s.toksE c) (hflag : st.parsingList = false)
    (hsane : c.Sane st.src) (hfit : s.FitsE st.src c) (hn : (s.toksE c).length ≤ n) :
    ∃ s' st', parseStatement (parser n) st = .ok (some s', st') ∧ eraseS s' = s.toStmt ∧ st'.toks = [] := by
  rw [toksE_eq] at htoks hn
  exact statement_roundtripD s.eofDepth s c st n hwf htoks hflag hsane hfit hn

end Grammar
end Rrss
