/-
  Rrss.Lemmas.RoundTripEof — C02, parser half: programs whose last line ends with the tokens
  (the final `Newline` and the blank lines that close the open blocks omitted).
-/
import Rrss.Lemmas.RoundTripBlock
namespace Rrss
namespace Grammar
open Parser

variable {N : Type} [CharOps]

set_option linter.unusedSimpArgs false

/-! ### unfolding -/

theorem simple_toksE (s : SimpleStmt N) (eol : Eol) (c : Choices N) :
    (Statement.simple s eol).toksE c = s.toks c := rfl

theorem ifS_none_toksE (cond : Expression N) (eol : Eol) (t : List (Statement N)) (c : Choices N) :
    (Statement.ifS cond eol t none).toksE c
      = tk (.kw .if_) (c.sub 0) :: (unparse cond (c.sub 1) ++ (eolToks eol (c.sub 2) ++
          linesToksE t (c.sub 3))) := rfl

theorem ifS_some_toksE (cond : Expression N) (eol : Eol) (t b : List (Statement N)) (c : Choices N) :
    (Statement.ifS cond eol t (some b)).toksE c
      = tk (.kw .if_) (c.sub 0) :: (unparse cond (c.sub 1) ++ (eolToks eol (c.sub 2) ++
          (blockToks t (c.sub 3) ++ (tk (.kw .else_) (c.sub 4) :: tk (.kw .newline) (c.sub 5) ::
            linesToksE b (c.sub 6))))) := by
  cases t <;> rfl

theorem whileS_toksE (cond : Expression N) (eol : Eol) (b : List (Statement N)) (c : Choices N) :
    (Statement.whileS cond eol b).toksE c
      = tk (.kw .while_) (c.sub 0) :: (unparse cond (c.sub 1) ++ (eolToks eol (c.sub 2) ++
          linesToksE b (c.sub 3))) := rfl

theorem untilS_toksE (cond : Expression N) (eol : Eol) (b : List (Statement N)) (c : Choices N) :
    (Statement.untilS cond eol b).toksE c
      = tk (.kw .until_) (c.sub 0) :: (unparse cond (c.sub 1) ++ (eolToks eol (c.sub 2) ++
          linesToksE b (c.sub 3))) := rfl

theorem func_toksE (f p : VarSpec) (ps : List VarSpec) (eol : Eol) (b : List (Statement N)) (c : Choices N) :
    (Statement.func f p ps eol b).toksE c
      = f.toks (c.sub 0) ++ tk (.kw .takes) (c.sub 1) :: (p.toks (c.sub 2) ++ (paramsToks ps (c.sub 3) ++
          (eolToks eol (c.sub 4) ++ fnLinesToksE b (c.sub 5)))) := rfl

theorem linesE_nil (c : Choices N) : linesToksE ([] : List (Statement N)) c = [] := rfl
theorem linesE_one (s : Statement N) (c : Choices N) :
    linesToksE [s] c = s.toksE (c.sub 0) ++ s.eolToksE (c.sub 1) := rfl
theorem linesE_cons (s s' : Statement N) (ss : List (Statement N)) (c : Choices N) :
    linesToksE (s :: s' :: ss) c = s.toks (c.sub 0) ++ (s.eolToks (c.sub 1) ++ linesToksE (s' :: ss) (c.sub 2)) :=
  rfl
theorem fnLinesE_nil (c : Choices N) : fnLinesToksE ([] : List (Statement N)) c = [] := rfl
theorem fnLinesE_one (s : Statement N) (c : Choices N) :
    fnLinesToksE [s] c = s.toksE (c.sub 0) ++ (if s.isIfElse then [] else s.eolToksE (c.sub 1)) := rfl
theorem fnLinesE_cons (s s' : Statement N) (ss : List (Statement N)) (c : Choices N) :
    fnLinesToksE (s :: s' :: ss) c
      = s.toks (c.sub 0) ++ (s.eolToks (c.sub 1) ++ fnLinesToksE (s' :: ss) (c.sub 2)) := rfl

/-! ### the end of the tokens as a line end -/

omit [CharOps] in
theorem expectEol_eofE (s : Statement N) (c : Choices N) (src last eof b) :
    expectEol ⟨src, s.eolToksE c, last, eof, b⟩
      = .ok ((), ⟨src, [], lastSnap (s.eolToksE c) last, eof, b⟩) := by
  cases s with
  | simple s e =>
    cases e <;>
      simp [Statement.eolToksE, expectEol, bind_run, mac_cons, mac_nil, isAnyKind, expectTokenOrEnd,
        current_run, pure_run]
  | ifS cond eol t e => rfl
  | whileS cond eol b' => rfl
  | untilS cond eol b' => rfl
  | func f p ps eol b' => rfl

theorem simple_stop_nil (s : SimpleStmt N) : s.Stop [] := by
  cases s with
  | say e => exact stop_of_endsExpr false e rfl
  | put e t => exact ⟨rfl, fun _ => rfl⟩
  | letBe t op l => exact ⟨rfl, fun _ => rfl, rfl⟩
  | build x m => rfl
  | knock x m => rfl
  | listen t =>
    cases t with
    | none => rfl
    | some t => exact ⟨rfl, fun _ => rfl⟩
  | turn d e => exact ⟨stop_of_endsExpr false e rfl, rfl⟩
  | rock p vals =>
    cases vals with
    | none => exact ⟨⟨rfl, fun _ => rfl⟩, rfl⟩
    | some l => exact ⟨rfl, fun _ => rfl, rfl⟩
  | roll p into =>
    cases into with
    | none => exact ⟨⟨rfl, fun _ => rfl⟩, rfl⟩
    | some t => exact ⟨rfl, fun _ => rfl⟩
  | ret kw e => exact ⟨stop_of_endsExpr false e rfl, rfl⟩
  | break_ it =>
    cases it with
    | none => intro t ht; simp at ht
    | some it => trivial
  | continue_ itThe => trivial
  | mutation op p into param =>
    cases param with
    | some e => exact stop_of_endsExpr false e rfl
    | none =>
      cases into with
      | some t => exact ⟨⟨rfl, fun _ => rfl⟩, rfl⟩
      | none => exact ⟨⟨rfl, fun _ => rfl⟩, rfl⟩
  | call f a as => exact ⟨rfl, rfl⟩

theorem stmt_stop_eolE (s : Statement N) (c : Choices N) (hw : s.wf = true) (hit : c.NoIt) :
    s.Stop (s.eolToksE c) := by
  cases s with
  | simple s e =>
    rw [simple_wf, Bool.and_eq_true, Bool.or_eq_true] at hw
    cases e with
    | none => exact simple_stop_nil s
    | dot => exact simple_stop_eolkw s .dot (c.sub 0) [] (Or.inl rfl) (hit [0])
    | comma =>
      refine simple_stop_eolkw s .comma (c.sub 0) [] (Or.inr (Or.inr ⟨rfl, ?_⟩)) (hit [0])
      rcases hw.2 with h | h
      · simp at h
      · exact h
  | ifS cond eol t e => exact Or.inl rfl
  | whileS cond eol b => exact Or.inl rfl
  | untilS cond eol b => exact Or.inl rfl
  | func f p ps eol b => exact Or.inl rfl

theorem stmtE_head (s : Statement N) (c : Choices N) :
    ∃ t ts, s.toksE c = t :: ts ∧ stmtStarts.contains t.kind = true := by
  cases s with
  | simple s eol => simpa [simple_toksE] using simple_head s c
  | ifS cond eol t e =>
    cases e with
    | none => exact ⟨_, _, ifS_none_toksE .., rfl⟩
    | some b => exact ⟨_, _, ifS_some_toksE .., rfl⟩
  | whileS cond eol b => exact ⟨_, _, whileS_toksE .., rfl⟩
  | untilS cond eol b => exact ⟨_, _, untilS_toksE .., rfl⟩
  | func f p ps eol b =>
    obtain ⟨t, ts, h1, h2⟩ := var_head_stmt f (c.sub 0)
    exact ⟨t, _, by rw [func_toksE, h1, List.cons_append], h2⟩

omit [CharOps] in
theorem starts_not {k : TK} (h2 : stmtStarts.contains k = true) :
    [TK.newline].contains k = false ∧ [TK.else_].contains k = false := by
  simp only [stmtStarts, List.contains_eq_mem, List.mem_cons, List.not_mem_nil, or_false,
    decide_eq_true_eq] at h2
  rcases h2 with h | h | h | h | h | h | h | h | h | h | h | h | h | h | h | h | h | h | h | h | h | h <;>
    subst h <;> exact ⟨rfl, rfl⟩

theorem linesE_head (s : Statement N) (ss : List (Statement N)) (c : Choices N) :
    ∃ t ts, linesToksE (s :: ss) c = t :: ts ∧ stmtStarts.contains t.kind = true := by
  cases ss with
  | nil =>
    obtain ⟨t, ts, h1, h2⟩ := stmtE_head s (c.sub 0)
    exact ⟨t, _, by rw [linesE_one, h1, List.cons_append], h2⟩
  | cons s' ss' =>
    obtain ⟨t, ts, h1, h2⟩ := stmt_head s (c.sub 0)
    exact ⟨t, _, by rw [linesE_cons, h1, List.cons_append], h2⟩

theorem fnLinesE_head (s : Statement N) (ss : List (Statement N)) (c : Choices N) :
    ∃ t ts, fnLinesToksE (s :: ss) c = t :: ts ∧ stmtStarts.contains t.kind = true := by
  cases ss with
  | nil =>
    obtain ⟨t, ts, h1, h2⟩ := stmtE_head s (c.sub 0)
    exact ⟨t, _, by rw [fnLinesE_one, h1, List.cons_append], h2⟩
  | cons s' ss' =>
    obtain ⟨t, ts, h1, h2⟩ := stmt_head s (c.sub 0)
    exact ⟨t, _, by rw [fnLinesE_cons, h1, List.cons_append], h2⟩

/-! ### blocks at the end of the tokens -/

def LinesRunE (ls : List (Statement N)) (c : Choices N) (n : Nat) (src : Str) (eof : Snap) : Prop :=
  ∀ last, ∃ ss', stmtLoopBody (parser n) ⟨src, linesToksE ls c, last, eof, false⟩
      = .ok (ss', ⟨src, [], lastSnap (linesToksE ls c) last, eof, false⟩) ∧
    eraseSL ss' = stmtsToStmt ls

theorem blockE_run (b : List (Statement N)) (c : Choices N) (n : Nat) (src last eof)
    (hlast : SnapOK src last) (hlines : LinesRunE b c n src eof) :
    ∃ B, parseBlock (parser n) ⟨src, linesToksE b c, last, eof, false⟩
        = .ok (B, ⟨src, [], lastSnap (linesToksE b c) last, eof, false⟩) ∧
      eraseB B = .mk default (stmtsToStmt b) := by
  obtain ⟨ss', h1, h2⟩ := hlines last
  refine ⟨.mk ⟨last.line, last.idx - last.lineStart⟩ ss', ?_, by simp [eraseB, h2]⟩
  cases b with
  | nil =>
    simp only [linesE_nil] at h1 ⊢
    simp [parseBlock, bind_run, currentLoc_ok _ _ _ _ _ hlast, mac_nil, h1, pure_run]
  | cons s ss =>
    obtain ⟨t, ts, hh, hk⟩ := linesE_head s ss c
    have hnl : nextIn [.newline] (linesToksE (s :: ss) c) = false := by
      rw [hh]; simpa [nextIn_cons] using (starts_not hk).1
    simp [parseBlock, bind_run, currentLoc_ok _ _ _ _ _ hlast, mac_stop_kind hnl, h1, pure_run]

def FnLinesRunE (ls : List (Statement N)) (c : Choices N) (n : Nat) (src : Str) (eof : Snap) : Prop :=
  ∀ last, ∃ ss', fnStmtLoopBody (parser n) ⟨src, fnLinesToksE ls c, last, eof, false⟩
      = .ok (ss', ⟨src, [], lastSnap (fnLinesToksE ls c) last, eof, false⟩) ∧
    eraseSL ss' = stmtsToStmt ls

theorem fnblockE_run (b : List (Statement N)) (c : Choices N) (n : Nat) (src last eof)
    (hlast : SnapOK src last) (hlines : FnLinesRunE b c n src eof) :
    ∃ B, parseFunctionBlock (parser n) ⟨src, fnLinesToksE b c, last, eof, false⟩
        = .ok (B, ⟨src, [], lastSnap (fnLinesToksE b c) last, eof, false⟩) ∧
      eraseB B = .mk default (stmtsToStmt b) := by
  obtain ⟨ss', h1, h2⟩ := hlines last
  refine ⟨.mk ⟨last.line, last.idx - last.lineStart⟩ ss', ?_, by simp [eraseB, h2]⟩
  cases b with
  | nil =>
    simp only [fnLinesE_nil] at h1 ⊢
    simp [parseFunctionBlock, bind_run, currentLoc_ok _ _ _ _ _ hlast, mac_nil, h1, pure_run]
  | cons s ss =>
    obtain ⟨t, ts, hh, hk⟩ := fnLinesE_head s ss c
    have hnl : nextIn [.newline] (fnLinesToksE (s :: ss) c) = false := by
      rw [hh]; simpa [nextIn_cons] using (starts_not hk).1
    simp [parseFunctionBlock, bind_run, currentLoc_ok _ _ _ _ _ hlast, mac_stop_kind hnl, h1, pure_run]

/-! ### the mutual induction at the end of the tokens -/

/-- the statement `s`, the last thing in the input, is parsed from its tokens -/
def StRunsE (s : Statement N) (c : Choices N) (n : Nat) (src : Str) (last eof : Snap) : Prop :=
  ∃ s', parseStatement (parser n) ⟨src, s.toksE c, last, eof, false⟩
      = .ok (some s', ⟨src, [], lastSnap (s.toksE c) last, eof, false⟩) ∧ eraseS s' = s.toStmt

theorem stmtLoop_nil (rec : Rec N) (src last eof b) :
    stmtLoopBody rec ⟨src, [], last, eof, b⟩ = .ok ([], ⟨src, [], last, eof, b⟩) := rfl
theorem fnStmtLoop_nil (rec : Rec N) (src last eof b) :
    fnStmtLoopBody rec ⟨src, [], last, eof, b⟩ = .ok ([], ⟨src, [], last, eof, b⟩) := rfl

mutual
theorem stmtE_run : (s : Statement N) → ∀ (c : Choices N) (n : Nat) (src last eof),
    s.wf = true → (s.toksE c).length ≤ n → c.Sane src → c.NoIt → StRunsE s c n src last eof
  | .simple s eol, c, n, src, last, eof, hw, hn, hsane, _ => by
    rw [simple_wf, Bool.and_eq_true] at hw
    obtain ⟨s', h1, h2⟩ := simple_run s c n [] src last eof hw.1 hn (simple_stop_nil s) hsane
    exact ⟨s', by simpa [simple_toksE] using h1, h2⟩
  | .ifS cond eol t none, c, n, src, last, eof, hw, hn, hsane, hit => by
    rw [ifS_wf] at hw
    simp only [Bool.and_eq_true] at hw
    obtain ⟨⟨⟨hwc, hok⟩, hwt⟩, _⟩ := hw
    unfold StRunsE
    rw [ifS_none_toksE] at hn ⊢
    simp only [List.length_cons, List.length_append] at hn
    cases n with
    | zero => omega
    | succ n =>
      have hcs := cond_stop cond eol (c.sub 2) (linesToksE t (c.sub 3)) hok (noIt_sub hit 2)
      have he := fun last => expression_run cond (c.sub 1) (n + 1) _ src last eof false hwc (by omega) hcs
      have heol := fun last => expectEol_run eol (c.sub 2) (linesToksE t (c.sub 3)) src last eof false
      have hlines : LinesRunE t (c.sub 3) n src eof := fun last =>
        linesE_run t (c.sub 3) n src last eof hwt (by omega) (sane_sub hsane 3) (noIt_sub hit 3)
      obtain ⟨TB, hTB, hTs⟩ := blockE_run t (c.sub 3) n src ((c.sub 2).sub 1).here.after eof
        (sane_here hsane [2, 1]) hlines
      refine ⟨.ifS (logicalLay.ast cond (c.sub 1)) TB none, ?_, ?_⟩
      · simp [parseStatement, current_run, map_run, parseIfStatement, bind_run, consume_cons, isKind, he,
          heol, eol_last, hrec_block, hTB, mac_nil, pure_run]
      · simp only [eraseS, hTs, expr_shape]
        rfl
  | .ifS cond eol t (some b), c, n, src, last, eof, hw, hn, hsane, hit => by
    rw [ifS_wf] at hw
    simp only [Bool.and_eq_true] at hw
    obtain ⟨⟨⟨hwc, hok⟩, hwt⟩, hwe⟩ := hw
    unfold StRunsE
    rw [ifS_some_toksE] at hn ⊢
    simp only [List.length_cons, List.length_append] at hn
    have hlt := lines_len_le_block t (c.sub 3)
    cases n with
    | zero => omega
    | succ n =>
      have hcs := cond_stop cond eol (c.sub 2) (blockToks t (c.sub 3) ++ (tk (.kw .else_) (c.sub 4) ::
        tk (.kw .newline) (c.sub 5) :: linesToksE b (c.sub 6))) hok (noIt_sub hit 2)
      have he := fun last => expression_run cond (c.sub 1) (n + 1) _ src last eof false hwc (by omega) hcs
      have heol := fun last => expectEol_run eol (c.sub 2) (blockToks t (c.sub 3) ++
        (tk (.kw .else_) (c.sub 4) :: tk (.kw .newline) (c.sub 5) :: linesToksE b (c.sub 6))) src last eof false
      have hlinesT : LinesRun t (c.sub 3) n (tk (.kw .else_) (c.sub 4) :: tk (.kw .newline) (c.sub 5) ::
          linesToksE b (c.sub 6)) src eof := fun last =>
        lines_run t (c.sub 3) n _ src last eof hwt (by omega) (Or.inr rfl) (sane_sub hsane 3) (noIt_sub hit 3)
      obtain ⟨TB, hTB, hTs⟩ := block_run t (c.sub 3) n _ src ((c.sub 2).sub 1).here.after eof
        (sane_here hsane [2, 1]) hlinesT
      have hlinesE : LinesRunE b (c.sub 6) n src eof := fun last =>
        linesE_run b (c.sub 6) n src last eof hwe (by omega) (sane_sub hsane 6) (noIt_sub hit 6)
      obtain ⟨EB, hEB, hEs⟩ := blockE_run b (c.sub 6) n src (c.sub 5).here.after eof
        (sane_here hsane [5]) hlinesE
      refine ⟨.ifS (logicalLay.ast cond (c.sub 1)) TB (some EB), ?_, ?_⟩
      · simp [parseStatement, current_run, map_run, parseIfStatement, bind_run, consume_cons, isKind, he,
          heol, eol_last, hrec_block, hTB, mac_cons, expectTokenOrEnd, advance_cons, hEB, pure_run]
      · simp only [eraseS, hTs, hEs, expr_shape]
        rfl
  | .whileS cond eol b, c, n, src, last, eof, hw, hn, hsane, hit => by
    rw [whileS_wf] at hw
    simp only [Bool.and_eq_true] at hw
    obtain ⟨⟨hwc, hok⟩, hwb⟩ := hw
    unfold StRunsE
    rw [whileS_toksE] at hn ⊢
    simp only [List.length_cons, List.length_append] at hn
    cases n with
    | zero => omega
    | succ n =>
      have hcs := cond_stop cond eol (c.sub 2) (linesToksE b (c.sub 3)) hok (noIt_sub hit 2)
      have he := fun last => expression_run cond (c.sub 1) (n + 1) _ src last eof false hwc (by omega) hcs
      have heol := fun last => expectEol_run eol (c.sub 2) (linesToksE b (c.sub 3)) src last eof false
      have hlines : LinesRunE b (c.sub 3) n src eof := fun last =>
        linesE_run b (c.sub 3) n src last eof hwb (by omega) (sane_sub hsane 3) (noIt_sub hit 3)
      obtain ⟨B, hB, hBs⟩ := blockE_run b (c.sub 3) n src ((c.sub 2).sub 1).here.after eof
        (sane_here hsane [2, 1]) hlines
      refine ⟨.whileS (logicalLay.ast cond (c.sub 1)) B, ?_, ?_⟩
      · have hd := loop_dispatch true (c.sub 0) (unparse cond (c.sub 1) ++ (eolToks eol (c.sub 2) ++
          linesToksE b (c.sub 3))) (parser (n + 1)) src last eof false
        simp only [if_true, if_false, Bool.false_eq_true] at hd
        rw [hd]
        simp [map_run, parseLoop, bind_run, consume_cons, isAnyKind, he, heol, eol_last, hrec_block, hB,
          pure_run]
      · simp only [eraseS, hBs, expr_shape]
        rfl
  | .untilS cond eol b, c, n, src, last, eof, hw, hn, hsane, hit => by
    rw [untilS_wf] at hw
    simp only [Bool.and_eq_true] at hw
    obtain ⟨⟨hwc, hok⟩, hwb⟩ := hw
    unfold StRunsE
    rw [untilS_toksE] at hn ⊢
    simp only [List.length_cons, List.length_append] at hn
    cases n with
    | zero => omega
    | succ n =>
      have hcs := cond_stop cond eol (c.sub 2) (linesToksE b (c.sub 3)) hok (noIt_sub hit 2)
      have he := fun last => expression_run cond (c.sub 1) (n + 1) _ src last eof false hwc (by omega) hcs
      have heol := fun last => expectEol_run eol (c.sub 2) (linesToksE b (c.sub 3)) src last eof false
      have hlines : LinesRunE b (c.sub 3) n src eof := fun last =>
        linesE_run b (c.sub 3) n src last eof hwb (by omega) (sane_sub hsane 3) (noIt_sub hit 3)
      obtain ⟨B, hB, hBs⟩ := blockE_run b (c.sub 3) n src ((c.sub 2).sub 1).here.after eof
        (sane_here hsane [2, 1]) hlines
      refine ⟨.untilS (logicalLay.ast cond (c.sub 1)) B, ?_, ?_⟩
      · have hd := loop_dispatch false (c.sub 0) (unparse cond (c.sub 1) ++ (eolToks eol (c.sub 2) ++
          linesToksE b (c.sub 3))) (parser (n + 1)) src last eof false
        simp only [if_true, if_false, Bool.false_eq_true] at hd
        rw [hd]
        simp [map_run, parseLoop, bind_run, consume_cons, isAnyKind, he, heol, eol_last, hrec_block, hB,
          pure_run]
      · simp only [eraseS, hBs, expr_shape]
        rfl
  | .func f p ps eol b, c, n, src, last, eof, hw, hn, hsane, hit => by
    rw [func_wf] at hw
    simp only [Bool.and_eq_true] at hw
    obtain ⟨⟨⟨⟨⟨hwf, hwp⟩, hwps⟩, heolc⟩, hwb⟩, hbody⟩ := hw
    unfold StRunsE
    rw [func_toksE] at hn ⊢
    simp only [List.length_cons, List.length_append] at hn
    have hfp := var_toks_pos f (c.sub 0)
    cases n with
    | zero => omega
    | succ n =>
      have heh : nextIn (.word :: argSeps) (eolToks eol (c.sub 4) ++ fnLinesToksE b (c.sub 5)) = false := by
        cases eol with
        | none => simp [eolToks, nextIn_cons, argSeps]
        | dot => simp [eolToks, nextIn_cons, argSeps]
        | comma => simp at heolc
      have hpnext : nextIn [.word] (paramsToks ps (c.sub 3) ++ (eolToks eol (c.sub 4) ++
          fnLinesToksE b (c.sub 5))) = false := by
        cases ps with
        | nil => simpa [paramsToks] using nextIn_sub heh (ks' := [.word]) (by decide)
        | cons v' vs' =>
          simp only [paramsToks, List.append_assoc]
          exact nextIn_of_head (sep_head _) (by decide)
      have hx := ident_run (.var f) c (n + 1)
        (tk (.kw .takes) (c.sub 1) :: (p.toks (c.sub 2) ++ (paramsToks ps (c.sub 3) ++
          (eolToks eol (c.sub 4) ++ fnLinesToksE b (c.sub 5))))) src last eof
        false hwf (by simpa [IdSpec.toks] using (by omega : (f.toks (c.sub 0)).length ≤ n + 1))
        (by simp [nextIn_cons])
      have hp := fun last => expectVar_run p (c.sub 2) (n + 1) (paramsToks ps (c.sub 3) ++
        (eolToks eol (c.sub 4) ++ fnLinesToksE b (c.sub 5))) src last eof false hwp (by omega) hpnext
      have hps := fun last => params_run ps (c.sub 3) (n + 1) (eolToks eol (c.sub 4) ++
        fnLinesToksE b (c.sub 5)) src last eof false hwps (by omega) heh
      have heol := fun last => expectEol_run eol (c.sub 4) (fnLinesToksE b (c.sub 5)) src last eof false
      have hfl : FnLinesRunE b (c.sub 5) n src eof := fun last =>
        fnlinesE_run b (c.sub 5) n src last eof hwb hbody (by omega) (sane_sub hsane 5) (noIt_sub hit 5)
      obtain ⟨B, hB, hBs⟩ := fnblockE_run b (c.sub 5) n src ((c.sub 4).sub 1).here.after eof
        (sane_here hsane [4, 1]) hfl
      refine ⟨.func f.toName (f.range (c.sub 0)) ((p.toName, p.range (c.sub 2)) :: paramsR ps (c.sub 3)) B,
        ?_, ?_⟩
      · obtain ⟨t0, ts0, h1, h2⟩ := var_head_kind f (c.sub 0)
        simp only [IdSpec.toks, IdSpec.toIdent, IdSpec.range] at hx
        change expectIdentifier (parser (n + 1)) ⟨src, f.toks (c.sub 0) ++ _, last, eof, false⟩ = _ at hx
        have hdisp : parseStatement (parser (n + 1)) ⟨src, f.toks (c.sub 0) ++ (tk (.kw .takes) (c.sub 1) ::
            (p.toks (c.sub 2) ++ (paramsToks ps (c.sub 3) ++ (eolToks eol (c.sub 4) ++
              fnLinesToksE b (c.sub 5))))), last, eof, false⟩
            = (some <$> parseStatementStartingWithWord (parser (n + 1))) ⟨src, f.toks (c.sub 0) ++
              (tk (.kw .takes) (c.sub 1) :: (p.toks (c.sub 2) ++ (paramsToks ps (c.sub 3) ++
                (eolToks eol (c.sub 4) ++ fnLinesToksE b (c.sub 5))))), last, eof, false⟩ := by
          rw [h1]
          rcases h2 with h2 | h2 <;>
            simp [parseStatement, current_run, bind_run, h2]
        rw [hdisp]
        simp [map_run, parseStatementStartingWithWord, bind_run, hx, current_run, asVariableName,
          parseFunction, consume_cons, isKind, parseParameterList, hp, hps, heol, eol_last, hrec_fnblock, hB,
          pure_run]
      · simp only [eraseS, hBs, List.map_cons, paramsR_erase]
        rfl
theorem lastline_run : (s : Statement N) → ∀ (c0 c1 : Choices N) (n : Nat) (src last eof),
    s.wf = true → (s.toksE c0).length ≤ n → c0.Sane src → c0.NoIt → c1.NoIt →
    ∃ s', parseStatement (parser n) ⟨src, s.toksE c0 ++ s.eolToksE c1, last, eof, false⟩
        = .ok (some s', ⟨src, s.eolToksE c1, lastSnap (s.toksE c0) last, eof, false⟩) ∧
      eraseS s' = s.toStmt
  | .simple s eol, c0, c1, n, src, last, eof, hw, hn, hsane, _, hit1 => by
    have hst := stmt_stop_eolE (.simple s eol) c1 hw hit1
    rw [simple_wf, Bool.and_eq_true] at hw
    exact simple_run s c0 n _ src last eof hw.1 hn hst hsane
  | .ifS cond eol t e, c0, c1, n, src, last, eof, hw, hn, hsane, hit0, _ => by
    have := stmtE_run (.ifS cond eol t e) c0 n src last eof hw hn hsane hit0
    simpa [StRunsE, Statement.eolToksE] using this
  | .whileS cond eol b, c0, c1, n, src, last, eof, hw, hn, hsane, hit0, _ => by
    have := stmtE_run (.whileS cond eol b) c0 n src last eof hw hn hsane hit0
    simpa [StRunsE, Statement.eolToksE] using this
  | .untilS cond eol b, c0, c1, n, src, last, eof, hw, hn, hsane, hit0, _ => by
    have := stmtE_run (.untilS cond eol b) c0 n src last eof hw hn hsane hit0
    simpa [StRunsE, Statement.eolToksE] using this
  | .func f p ps eol b, c0, c1, n, src, last, eof, hw, hn, hsane, hit0, _ => by
    have := stmtE_run (.func f p ps eol b) c0 n src last eof hw hn hsane hit0
    simpa [StRunsE, Statement.eolToksE] using this
theorem linesE_run : (ls : List (Statement N)) → ∀ (c : Choices N) (n : Nat) (src last eof),
    stmtsWf ls = true → (linesToksE ls c).length ≤ n → c.Sane src → c.NoIt →
    ∃ ss', stmtLoopBody (parser n) ⟨src, linesToksE ls c, last, eof, false⟩
        = .ok (ss', ⟨src, [], lastSnap (linesToksE ls c) last, eof, false⟩) ∧
      eraseSL ss' = stmtsToStmt ls
  | [], c, n, src, last, eof, _, _, _, _ => ⟨[], rfl, rfl⟩
  | [s], c, n, src, last, eof, hw, hn, hsane, hit => by
    rw [stmtsWf_cons, Bool.and_eq_true] at hw
    rw [linesE_one] at hn ⊢
    simp only [List.length_append] at hn
    obtain ⟨t0, ts0, hh, _⟩ := stmtE_head s (c.sub 0)
    have hpos : 1 ≤ (s.toksE (c.sub 0)).length := by simp [hh]
    cases n with
    | zero => omega
    | succ n =>
      obtain ⟨s', hs1, hs2⟩ := lastline_run s (c.sub 0) (c.sub 1) (n + 1) src last eof hw.1 (by omega)
        (sane_sub hsane 0) (noIt_sub hit 0) (noIt_sub hit 1)
      refine ⟨[s'], ?_, by simp [eraseSL, hs2, stmtsToStmt_cons]; rfl⟩
      rw [stmtLoopBody]
      simp [bind_run, hs1, expectEol_eofE, hrec_stmtLoop, stmtLoop_nil, pure_run]
  | s :: s2 :: ss, c, n, src, last, eof, hw, hn, hsane, hit => by
    rw [stmtsWf_cons, Bool.and_eq_true] at hw
    rw [linesE_cons] at hn ⊢
    simp only [List.length_append] at hn
    obtain ⟨t0, ts0, hh, _⟩ := stmt_head s (c.sub 0)
    have hpos : 1 ≤ (s.toks (c.sub 0)).length := by simp [hh]
    cases n with
    | zero => omega
    | succ n =>
      obtain ⟨s', hs1, hs2⟩ := stmt_run s (c.sub 0) (n + 1)
        (s.eolToks (c.sub 1) ++ linesToksE (s2 :: ss) (c.sub 2))
        src last eof hw.1 (by omega) (stmt_stop_eol s (c.sub 1) _ hw.1 (noIt_sub hit 1)) (sane_sub hsane 0)
        (noIt_sub hit 0)
      obtain ⟨ss', hss1, hss2⟩ := linesE_run (s2 :: ss) (c.sub 2) n src
        (lastSnap (s.eolToks (c.sub 1)) (lastSnap (s.toks (c.sub 0)) last)) eof hw.2 (by omega)
        (sane_sub hsane 2) (noIt_sub hit 2)
      refine ⟨s' :: ss', ?_, by simp [eraseSL, hs2, hss2, stmtsToStmt_cons]⟩
      rw [stmtLoopBody]
      simp [bind_run, hs1, expectEol_stmt, hrec_stmtLoop, hss1, pure_run]
theorem fnlinesE_run : (ls : List (Statement N)) → ∀ (c : Choices N) (n : Nat) (src last eof),
    stmtsWf ls = true → fnBodyOK ls = true → (fnLinesToksE ls c).length ≤ n → c.Sane src → c.NoIt →
    ∃ ss', fnStmtLoopBody (parser n) ⟨src, fnLinesToksE ls c, last, eof, false⟩
        = .ok (ss', ⟨src, [], lastSnap (fnLinesToksE ls c) last, eof, false⟩) ∧
      eraseSL ss' = stmtsToStmt ls
  | [], c, n, src, last, eof, _, _, _, _, _ => ⟨[], rfl, rfl⟩
  | [s], c, n, src, last, eof, hw, _, hn, hsane, hit => by
    rw [stmtsWf_cons, Bool.and_eq_true] at hw
    rw [fnLinesE_one] at hn ⊢
    obtain ⟨t0, ts0, hh, _⟩ := stmtE_head s (c.sub 0)
    have hpos : 1 ≤ (s.toksE (c.sub 0)).length := by simp [hh]
    cases n with
    | zero => simp only [List.length_append] at hn; omega
    | succ n =>
      by_cases hie : s.isIfElse = true
      · simp only [hie, if_true, List.append_nil] at hn ⊢
        obtain ⟨s', hs1, hs2⟩ := stmtE_run s (c.sub 0) (n + 1) src last eof hw.1 hn (sane_sub hsane 0)
          (noIt_sub hit 0)
        have hft : isFunctionTerminator s' = true := by
          rw [← isFunctionTerminator_erase, hs2, isFunctionTerminator_toStmt]; exact hie
        refine ⟨[s'], ?_, by simp [eraseSL, hs2, stmtsToStmt_cons]; rfl⟩
        rw [fnStmtLoopBody]
        simp [bind_run, hs1, hft, pure_run]
      · have hnt : s.isIfElse = false := by simpa using hie
        simp only [hnt, Bool.false_eq_true, if_false, List.length_append] at hn ⊢
        obtain ⟨s', hs1, hs2⟩ := lastline_run s (c.sub 0) (c.sub 1) (n + 1) src last eof hw.1 (by omega)
          (sane_sub hsane 0) (noIt_sub hit 0) (noIt_sub hit 1)
        have hft : isFunctionTerminator s' = false := by
          rw [← isFunctionTerminator_erase, hs2, isFunctionTerminator_toStmt]; exact hnt
        refine ⟨[s'], ?_, by simp [eraseSL, hs2, stmtsToStmt_cons]; rfl⟩
        rw [fnStmtLoopBody]
        simp [bind_run, hs1, hft, expectEol_eofE, hrec_fnStmtLoop, fnStmtLoop_nil, pure_run]
  | s :: s2 :: ss, c, n, src, last, eof, hw, hok, hn, hsane, hit => by
    rw [stmtsWf_cons, Bool.and_eq_true] at hw
    rw [fnLinesE_cons] at hn ⊢
    simp only [List.length_append] at hn
    obtain ⟨t0, ts0, hh, _⟩ := stmt_head s (c.sub 0)
    have hpos : 1 ≤ (s.toks (c.sub 0)).length := by simp [hh]
    obtain ⟨hok1, hok2⟩ := fnBodyOK_tail hok
    have hnt : s.isIfElse = false := hok2 (by simp)
    cases n with
    | zero => omega
    | succ n =>
      obtain ⟨s', hs1, hs2⟩ := stmt_run s (c.sub 0) (n + 1)
        (s.eolToks (c.sub 1) ++ fnLinesToksE (s2 :: ss) (c.sub 2))
        src last eof hw.1 (by omega) (stmt_stop_eol s (c.sub 1) _ hw.1 (noIt_sub hit 1)) (sane_sub hsane 0)
        (noIt_sub hit 0)
      have hft : isFunctionTerminator s' = false := by
        rw [← isFunctionTerminator_erase, hs2, isFunctionTerminator_toStmt]; exact hnt
      obtain ⟨ss', hss1, hss2⟩ := fnlinesE_run (s2 :: ss) (c.sub 2) n src
        (lastSnap (s.eolToks (c.sub 1)) (lastSnap (s.toks (c.sub 0)) last)) eof hw.2 hok1 (by omega)
        (sane_sub hsane 2) (noIt_sub hit 2)
      refine ⟨s' :: ss', ?_, by simp [eraseSL, hs2, hss2, stmtsToStmt_cons]⟩
      rw [fnStmtLoopBody]
      simp [bind_run, hs1, hft, expectEol_stmt, hrec_fnStmtLoop, hss1, pure_run]
end

/-! ### programs that end with the tokens -/

theorem topLoop_nil (rec : Rec N) (src last eof b) :
    topLoopBody rec ⟨src, [], last, eof, b⟩ = .ok ([], ⟨src, [], last, eof, b⟩) := rfl

theorem progE_not_else (bs : List (List (Statement N))) (c : Choices N) (hw : progWf bs = true) :
    nextIn [.else_] (progToksE bs c) = false := by
  have hb : ∀ k (c' : Choices N) (X : List (Tok N)), nextIn [.else_] X = false →
      nextIn [.else_] (blanksToks k c' ++ X) = false := by
    intro k c' X hX
    cases k with
    | zero => simpa [blanksToks] using hX
    | succ k' => simp [blanksToks, nextIn_cons]
  cases bs with
  | nil => rfl
  | cons b bs =>
    simp only [progWf, List.all_cons, Bool.and_eq_true, Bool.not_eq_true', List.isEmpty_eq_false_iff] at hw
    cases bs with
    | nil =>
      rw [progToksE]
      apply hb
      cases b with
      | nil => exact absurd rfl hw.1.1
      | cons s ss =>
        obtain ⟨t, ts, hh, hk⟩ := linesE_head s ss (c.sub 1)
        rw [hh]; simpa [nextIn_cons] using (starts_not hk).2
    | cons b' bs' =>
      rw [progToksE]
      apply hb
      exact lines_not_else b hw.1.1 (c.sub 1) _

theorem prog_runE : ∀ (bs : List (List (Statement N))) (c : Choices N) (n : Nat) (src : Str) (last eof : Snap),
    progWf bs = true → (progToksE bs c).length ≤ n → SnapOK src last → c.Sane src → c.NoIt →
    TopRuns n src (progToksE bs c) last eof (progToAst bs) := by
  intro bs
  induction bs with
  | nil =>
    intro c n src last eof _ _ _ _ _
    exact ⟨[], _, rfl, rfl, rfl⟩
  | cons b bs ih =>
    intro c n src last eof hw hn hl hs hit
    simp only [progWf, List.all_cons, Bool.and_eq_true, Bool.not_eq_true', List.isEmpty_eq_false_iff] at hw
    obtain ⟨⟨hne, hwb⟩, hwbs⟩ := hw
    have hwbs' : progWf bs = true := by simpa [progWf] using hwbs
    cases bs with
    | nil =>
      rw [progToksE] at hn ⊢
      simp only [List.length_append, blanks_len] at hn
      have hXe : nextIn [.else_] (linesToksE b (c.sub 1)) = false := by
        cases b with
        | nil => exact absurd rfl hne
        | cons s ss =>
          obtain ⟨t, ts, hh, hk⟩ := linesE_head s ss (c.sub 1)
          rw [hh]; simpa [nextIn_cons] using (starts_not hk).2
      refine blanks_run _ src eof _ ?_ hXe (c.sub 0).choice (c.sub 0) n last (by omega) hl (sane_sub hs 0)
      intro m last' hm hl'
      cases b with
      | nil => exact absurd rfl hne
      | cons s ss =>
        obtain ⟨t, ts, hh, hk⟩ := linesE_head s ss (c.sub 1)
        have hnl : nextIn [.newline] (linesToksE (s :: ss) (c.sub 1)) = false := by
          rw [hh]; simpa [nextIn_cons] using (starts_not hk).1
        cases m with
        | zero => rw [hh] at hm; simp at hm
        | succ m =>
          obtain ⟨ss', hl1, hl2⟩ := linesE_run (s :: ss) (c.sub 1) (m + 1) src last' eof hwb hm
            (sane_sub hs 1) (noIt_sub hit 1)
          have hss' : ss' ≠ [] := by
            intro h; subst h
            simp [eraseSL, stmtsToStmt_cons] at hl2
          refine ⟨[.mk ⟨last'.line, last'.idx - last'.lineStart⟩ ss'],
            ⟨src, [], lastSnap (linesToksE (s :: ss) (c.sub 1)) last', eof, false⟩, ?_, rfl, ?_⟩
          · rw [topLoopBody, bind_run, current_run]
            simp only [hh, List.head?_cons]
            rw [← hh]
            simp [bind_run, parseBlock, currentLoc_ok _ _ _ _ _ hl', mac_stop_kind hnl, hl1, pure_run,
              topLoopAfterBlock, currentMatches_nil, hrec_topLoop, topLoop_nil, Block.isEmpty, hss']
          · simp [eraseB, hl2, progToAst]
    | cons b' bs' =>
      rw [progToksE] at hn ⊢
      simp only [List.length_append, List.length_cons, blanks_len] at hn
      exact prog_step b hne hwb (progToksE (b' :: bs') (c.sub 3)) src eof (progToAst (b' :: bs'))
        (fun m last' hm hl' => ih (c.sub 3) m src last' eof hwbs' hm hl' (sane_sub hs 3) (noIt_sub hit 3))
        (progE_not_else (b' :: bs') (c.sub 3) hwbs') (c.sub 0) (c.sub 1) (c.sub 2) (c.sub 0).choice n last
        (by omega) hl (sane_sub hs 0) (sane_sub hs 1) (noIt_sub hit 1) (sane_here hs [2])

theorem program_roundtripE (bs : List (List (Statement N))) (c : Choices N) (st : PState N) (n : Nat)
    (hwf : progWf bs = true) (htoks : st.toks = progToksE bs c) (hflag : st.parsingList = false)
    (hlast : SnapOK st.src st.last) (hsane : c.Sane st.src) (hit : c.NoIt)
    (hn : (progToksE bs c).length ≤ n) :
    ∃ p st', parseProgramBody (parser n) st = .ok (p, st') ∧ p.code.map eraseB = progToAst bs ∧
      st'.toks = [] := by
  obtain ⟨src, toks, last, eof, pl⟩ := st
  simp only at htoks hflag hsane hlast
  subst htoks hflag
  obtain ⟨bl, st', h1, h2, h3⟩ := prog_runE bs c n src last eof hwf hn hlast hsane hit
  exact ⟨⟨bl⟩, st', by simp [parseProgramBody, bind_run, h1, pure_run], h3, h2⟩

theorem statement_roundtripE (s : Statement N) (c : Choices N) (st : PState N) (n : Nat)
    (hwf : s.wf = true) (htoks : st.toks = s.toksE c) (hflag : st.parsingList = false)
    (hsane : c.Sane st.src) (hit : c.NoIt) (hn : (s.toksE c).length ≤ n) :
    ∃ s' st', parseStatement (parser n) st = .ok (some s', st') ∧ eraseS s' = s.toStmt ∧ st'.toks = [] := by
  obtain ⟨src, toks, last, eof, pl⟩ := st
  simp only at htoks hflag hsane
  subst htoks hflag
  obtain ⟨s', h1, h2⟩ := stmtE_run s c n src last eof hwf hn hsane hit
  exact ⟨s', _, h1, h2, rfl⟩

end Grammar
end Rrss
