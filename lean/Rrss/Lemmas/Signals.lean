/-
  Rrss.Lemmas.Signals — the flag machine of the model refines the signal semantics
  (`Rrss.Spec.Signals`): monad laws of `M`, the leaf functions do not depend on the statement
  entry of the record, one simulation lemma per function, induction on fuel.
  (Imports the I/O lemma files only so that compiler-generated auxiliary declarations about the
  interpreter's matchers are created once; nothing from them is used.)
-/
import Rrss.Lemmas.IOFault
import Rrss.Spec.Signals
namespace Rrss
open Env Interp

set_option linter.unusedSectionVars false
variable {N : Type}

/-! ### monad laws of `M` -/

namespace M
variable {α β γ : Type}

private theorem pure_bind' (a : α) (f : α → M N β) : (Pure.pure a >>= f) = f a := rfl

private theorem bind_assoc' (x : M N α) (f : α → M N β) (g : β → M N γ) :
    ((x >>= f) >>= g) = (x >>= fun a => f a >>= g) := by
  funext e
  show M.bind (M.bind x f) g e = M.bind x (fun a => M.bind (f a) g) e
  unfold M.bind
  rcases x e with ⟨r, e'⟩
  cases r <;> rfl

private theorem bind_congr' {x : M N α} {f g : α → M N β} (h : ∀ a, f a = g a) : (x >>= f) = (x >>= g) := by
  have : f = g := funext h
  rw [this]

end M

/-! ### the leaf functions do not look at the statement entry of the record -/

/-- the record with its statement entry replaced by the stub of `SRec.leaf` -/
def Rec.strip (r : Rec N) : Rec N := { r with execStmt := fun _ _ => M.outOfFuel }

section leaves
variable [CharOps] [NumOps N]

namespace Interp
variable (r : Rec N)

theorem foldOp_strip (op : BinOp) (a : Val N) (es : List (Expr N)) :
    foldOp r op a es = foldOp r.strip op a es := by
  induction es generalizing a with
  | nil => rfl
  | cons e es ih =>
    unfold foldOp
    exact M.bind_congr' fun a' => ih a'

theorem evalArgs_strip (es : List (Expr N)) : evalArgs r es = evalArgs r.strip es := by
  induction es with
  | nil => rfl
  | cons e es ih =>
    unfold evalArgs
    rw [ih]; rfl

theorem evalPop_strip (arr : Primary N) : evalPop r arr = evalPop r.strip arr := rfl

theorem evalExpr_strip (e : Expr N) : evalExpr r e = evalExpr r.strip e := by
  cases e with
  | prim p => rfl
  | bin op lhs first rest =>
    unfold evalExpr
    exact M.bind_congr' fun l => foldOp_strip r op l _
  | un op e => rfl

theorem evalLhs_strip (l : Lhs N) : evalLhs r l = evalLhs r.strip l := rfl

theorem subscriptVal_strip (idx : Primary N) : subscriptVal r idx = subscriptVal r.strip idx := rfl

theorem writeSubscript_strip (w : Writer N) (p : Primary N) (keys : List (Val N)) :
    writeSubscript r w p keys = writeSubscript r.strip w p keys := by
  fun_induction writeSubscript r w p keys
  · rfl
  · rfl
  · rename_i ih
    conv => rhs; unfold writeSubscript
    refine M.bind_congr' fun x => ?_
    split
    · rfl
    · exact ih _
  · rename_i h1 h2 h3
    unfold writeSubscript
    split <;> first | rfl | (exfalso; simp_all)

theorem writePrimary_strip (w : Writer N) (p : Primary N) :
    writePrimary r w p = writePrimary r.strip w p := by
  cases p with
  | sub arr idx =>
    unfold writePrimary
    refine M.bind_congr' fun x => ?_
    split
    · rfl
    · exact writeSubscript_strip r w _ _
  | lit l rg => rfl
  | ident i rg => cases i <;> rfl
  | call n rg args => rfl
  | pop arr => rfl

theorem writeExpr_strip (w : Writer N) (e : Expr N) : writeExpr r w e = writeExpr r.strip w e := by
  cases e <;> rfl

theorem writeLhs_strip (w : Writer N) (l : Lhs N) : writeLhs r w l = writeLhs r.strip w l := by
  cases l with
  | ident i rg => rfl
  | sub arr idx =>
    unfold writeLhs
    refine M.bind_congr' fun x => ?_
    split
    · rfl
    · exact writeSubscript_strip r w _ _

theorem evalOpt_strip (o : Option (Expr N)) : evalOpt r o = evalOpt r.strip o := by
  cases o <;> rfl

theorem evalPrimary_strip (p : Primary N) (hp : ∀ n rg args, p ≠ .call n rg args) :
    evalPrimary r p = evalPrimary r.strip p := by
  cases p with
  | call n rg args => exact absurd rfl (hp n rg args)
  | lit l rg => rfl
  | ident i rg => rfl
  | sub arr idx => rfl
  | pop arr => rfl

/-- statements that are not control flow -/
def Stmt.isSimple : Stmt N → Bool
  | .ifS .. | .whileS .. | .untilS .. | .break_ .. | .continue_ .. | .ret .. | .call .. => false
  | _ => true

theorem execStmt_strip (s : Stmt N) (st : ExecSt N) (hs : Stmt.isSimple s = true) :
    execStmt r s st = execStmt r.strip s st := by
  cases s <;> simp only [Stmt.isSimple, Bool.false_eq_true] at hs <;> unfold execStmt <;>
    simp only [← foldOp_strip, ← evalArgs_strip, ← evalPop_strip, ← evalLhs_strip,
      ← writeLhs_strip, ← evalOpt_strip] <;> rfl

end Interp
end leaves

/-! ### the refinement -/

section refine
variable [CharOps] [NumOps N]

/-- run a signal computation and translate the signal into the flag-machine state -/
def asSt (m : M N (Signal N)) : M N (ExecSt N) := m >>= fun sig => pure sig.toSt

/-- the invariant relating the model one level down to the signal semantics one level down:
    same expression-level functions, and a statement started in the neutral state ends in the
    state that corresponds to the spec's signal (same outcome class, same environment) -/
structure RecRel (rec : Rec N) (sr : SRec N) : Prop where
  evalExpr : rec.evalExpr = sr.evalExpr
  evalPrimary : rec.evalPrimary = sr.evalPrimary
  writeExpr : rec.writeExpr = sr.writeExpr
  writePrimary : rec.writePrimary = sr.writePrimary
  execStmt : ∀ s, rec.execStmt s {} = asSt (sr.execStmt s)

theorem RecRel.strip_eq {rec : Rec N} {sr : SRec N} (h : RecRel rec sr) : rec.strip = sr.leaf := by
  unfold Rec.strip SRec.leaf
  rw [h.evalExpr, h.evalPrimary, h.writeExpr, h.writePrimary]

namespace Interp
variable {rec : Rec N} {sr : SRec N}

theorem execStmts_ref (h : RecRel rec sr) (ss : List (Stmt N)) :
    execStmts rec ss {} = asSt (Spec.execStmts sr ss) := by
  induction ss with
  | nil => rfl
  | cons s ss ih =>
    unfold execStmts Spec.execStmts asSt
    rw [h.execStmt s, asSt, M.bind_assoc', M.bind_assoc']
    refine M.bind_congr' fun sig => ?_
    rw [M.pure_bind']
    cases sig with
    | normal => exact ih
    | break_ => rfl
    | continue_ => rfl
    | return_ v => rfl

theorem loopGo_ref (h : RecRel rec sr) (invert : Bool) (cond : Expr N) (body : List (Stmt N))
    (n : Nat) : loopGo rec invert cond body n {} = asSt (Spec.loopGo sr invert cond body n) := by
  induction n with
  | zero => rfl
  | succ n ih =>
    unfold loopGo Spec.loopGo asSt
    rw [h.evalExpr, M.bind_assoc']
    refine M.bind_congr' fun c => ?_
    split
    · rw [M.bind_assoc']
      refine M.bind_congr' fun _ => ?_
      rw [M.bind_assoc']
      refine M.bind_congr' fun _ => ?_
      rw [execStmts_ref h body, asSt, M.bind_assoc', M.bind_assoc']
      refine M.bind_congr' fun sig => ?_
      rw [M.pure_bind', M.bind_assoc']
      refine M.bind_congr' fun _ => ?_
      cases sig with
      | normal => exact ih
      | break_ => rfl
      | continue_ => exact ih
      | return_ v => rfl
    · rfl

theorem callFunction_ref (h : RecRel rec sr) (name : VarName) (args : List (Expr N)) :
    callFunction rec name args = Spec.callFunction sr name args := by
  unfold callFunction Spec.callFunction
  refine M.bind_congr' fun env => ?_
  refine M.bind_congr' fun pb => ?_
  obtain ⟨params, body⟩ := pb
  simp only
  split
  · rfl
  · rw [evalArgs_strip, h.strip_eq]
    refine M.bind_congr' fun vals => ?_
    refine M.bind_congr' fun _ => ?_
    refine M.bind_congr' fun _ => ?_
    rw [execStmts_ref h, asSt, M.bind_assoc']
    refine M.bind_congr' fun sig => ?_
    rw [M.pure_bind']
    refine M.bind_congr' fun _ => ?_
    cases sig <;> rfl

theorem evalPrimary_ref (h : RecRel rec sr) (p : Primary N) :
    evalPrimary rec p = Spec.evalPrimary sr p := by
  cases p with
  | call n rg args => exact callFunction_ref h n args
  | lit l rg =>
    rw [evalPrimary_strip rec _ (by intro _ _ _ hh; cases hh), h.strip_eq]; rfl
  | ident i rg =>
    rw [evalPrimary_strip rec _ (by intro _ _ _ hh; cases hh), h.strip_eq]; rfl
  | sub arr idx =>
    rw [evalPrimary_strip rec _ (by intro _ _ _ hh; cases hh), h.strip_eq]; rfl
  | pop arr =>
    rw [evalPrimary_strip rec _ (by intro _ _ _ hh; cases hh), h.strip_eq]; rfl

theorem execStmt_simple_ref (h : RecRel rec sr) (s : Stmt N) (hs : Stmt.isSimple s = true) :
    execStmt rec s {} = asSt (Spec.execStmt sr s) := by
  have hspec : Spec.execStmt sr s = (do let _ ← Interp.execStmt sr.leaf s {}; pure .normal) := by
    cases s <;> simp only [Stmt.isSimple, Bool.false_eq_true] at hs <;> rfl
  rw [hspec, execStmt_strip rec s {} hs, h.strip_eq, asSt, M.bind_assoc']
  -- a simple statement hands back the state it was given
  have hst : ∀ (r : Rec N), execStmt r s {} = (execStmt r s {} >>= fun _ => pure {}) := by
    intro r
    cases s <;> simp only [Stmt.isSimple, Bool.false_eq_true] at hs <;> unfold execStmt <;>
      simp only [M.bind_assoc', M.pure_bind']
    all_goals first
      | rfl
      | (refine M.bind_congr' fun _ => ?_
         first
          | rfl
          | (refine M.bind_congr' fun _ => ?_
             first
              | rfl
              | (split <;> simp only [M.bind_assoc', M.pure_bind'])))
  conv => lhs; rw [hst]
  refine M.bind_congr' fun _ => ?_
  rfl

theorem execStmt_ref (h : RecRel rec sr) (s : Stmt N) :
    execStmt rec s {} = asSt (Spec.execStmt sr s) := by
  by_cases hs : Stmt.isSimple s = true
  · exact execStmt_simple_ref h s hs
  · cases s <;> simp only [Stmt.isSimple, not_true_eq_false] at hs
    case ifS cond thenB elseB =>
      unfold execStmt Spec.execStmt asSt
      rw [h.evalExpr]
      simp only [M.bind_assoc']
      refine M.bind_congr' fun _ => ?_
      refine M.bind_congr' fun c => ?_
      refine M.bind_congr' fun _ => ?_
      cases hc : c.isTruthy
      · simp only [Bool.false_eq_true, if_false]
        cases elseB with
        | none => simp only [M.pure_bind']; rfl
        | some b =>
          simp only
          rw [execStmts_ref h, asSt, M.bind_assoc']
          refine M.bind_congr' fun sig => ?_
          rw [M.pure_bind']; rfl
      · simp only [if_true]
        rw [execStmts_ref h, asSt, M.bind_assoc']
        refine M.bind_congr' fun sig => ?_
        rw [M.pure_bind']; rfl
    case whileS cond body =>
      unfold execStmt Spec.execStmt execLoop asSt
      simp only [M.bind_assoc']
      refine M.bind_congr' fun _ => ?_
      refine M.bind_congr' fun env => ?_
      exact loopGo_ref h _ _ _ _
    case untilS cond body =>
      unfold execStmt Spec.execStmt execLoop asSt
      simp only [M.bind_assoc']
      refine M.bind_congr' fun _ => ?_
      refine M.bind_congr' fun env => ?_
      exact loopGo_ref h _ _ _ _
    case continue_ rg =>
      unfold execStmt Spec.execStmt asSt
      simp only [M.bind_assoc']
      refine M.bind_congr' fun _ => ?_
      rfl
    case break_ rg =>
      unfold execStmt Spec.execStmt asSt
      simp only [M.bind_assoc']
      refine M.bind_congr' fun _ => ?_
      rfl
    case ret value =>
      unfold execStmt Spec.execStmt asSt
      rw [h.evalExpr]
      simp only [M.bind_assoc']
      refine M.bind_congr' fun _ => ?_
      show (sr.evalExpr value >>= fun v => _) = _
      refine M.bind_congr' fun v => ?_
      rfl
    case call name rg args =>
      unfold execStmt Spec.execStmt asSt
      simp only [M.bind_assoc']
      rw [callFunction_ref h]
      refine M.bind_congr' fun _ => ?_
      refine M.bind_congr' fun _ => ?_
      rfl

theorem bottom_rel : RecRel (bottom : Rec N) (Spec.bottom : SRec N) :=
  ⟨rfl, rfl, rfl, rfl, fun _ => rfl⟩

theorem mkRec_rel (h : RecRel rec sr) : RecRel (mkRec rec) (Spec.mkSRec sr) where
  evalExpr := by
    funext e; show evalExpr rec e = evalExpr sr.leaf e
    rw [evalExpr_strip, h.strip_eq]
  evalPrimary := by
    funext p; exact evalPrimary_ref h p
  writeExpr := by
    funext w e; show writeExpr rec w e = writeExpr sr.leaf w e
    rw [writeExpr_strip, h.strip_eq]
  writePrimary := by
    funext w p; show writePrimary rec w p = writePrimary sr.leaf w p
    rw [writePrimary_strip, h.strip_eq]
  execStmt := fun s => execStmt_ref h s

theorem interp_rel (n : Nat) : RecRel (interp n : Rec N) (Spec.sinterp n) := by
  induction n with
  | zero => exact bottom_rel
  | succ n ih => exact mkRec_rel ih

theorem execBlocks_ref (h : RecRel rec sr) (bs : List (Block N)) :
    execBlocks rec bs {} = asSt (Spec.execBlocks sr bs) := by
  induction bs with
  | nil => rfl
  | cons b bs ih =>
    unfold execBlocks Spec.execBlocks asSt
    rw [execStmts_ref h, asSt, M.bind_assoc', M.bind_assoc']
    refine M.bind_congr' fun sig => ?_
    rw [M.pure_bind']
    cases sig with
    | normal => exact ih
    | break_ => rfl
    | continue_ => rfl
    | return_ v => rfl

theorem execProgram_ref (n : Nat) (p : Program N) :
    execProgram n p = Spec.execProgram n p := by
  unfold execProgram Spec.execProgram
  rw [execBlocks_ref (interp_rel n), asSt, M.bind_assoc']
  refine M.bind_congr' fun sig => ?_
  rfl

end Interp
end refine

end Rrss
