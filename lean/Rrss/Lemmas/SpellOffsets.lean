/-
  Rrss.Lemmas.SpellOffsets — the lexer round trip (Lemmas/LexRoundTrip) WITH START OFFSETS: the
  `i`-th token of the run on a spelled text starts at the byte offset of the `i`-th piece
  (`Spelling.offsets`: the lengths of the separators and pieces before it).

  Method: `lexLoop_spell` once more, carrying the offsets; the start of the token of a round is
  read off `dispatch_spec` (`TokAt`), that of a staged suffix off the loop invariant.
-/
import Rrss.Lemmas.LexRoundTrip
set_option linter.unusedSectionVars false
set_option linter.unusedVariables false
set_option linter.unusedSimpArgs false
namespace Rrss

namespace Spelling

/-- the byte offsets at which the pieces of a text start, `pre` bytes preceding the text -/
def offsets (pre : Nat) : List (Sep × Piece) → List Nat
  | [] => []
  | (s, p) :: r => (pre + ulen s) :: offsets (pre + ulen s + ulen p.text) r

end Spelling

namespace Lexer
open Spec Recase Keys

section
variable {N : Type} [CharOps] [NumOps N]

/-- the token of a round starts right after the blanks -/
theorem step_tok_start (laws : SpellLaws) (kw : List (Str × TK)) {st st' : LexState N}
    {cov g tail : Str} {c : Char} {t : Tok N}
    (h : LInv kw st cov) (hs : st.staged = none) (hrest : st.rest = g ++ c :: tail)
    (hg : Blanks g) (hcw : isIgnorableWhitespace c = false)
    (hstep : step kw st = .ok (.tok t st')) : t.start = ulen (cov ++ g) := by
  have hsp : stagedSp st = [] := by simp [stagedSp, hs]
  have hsrc0 : st.src = cov ++ st.rest := by simpa [hsp] using h.src_eq
  have hpos0 : st.pos = ulen cov := by simpa [hsp] using h.pos_eq
  have hstart : st.pos + ulen g = ulen (cov ++ g) := by rw [hpos0]; simp
  have hctx : Ctx ({ st with rest := tail, pos := ulen (cov ++ g) + c.utf8Size } : LexState N)
      (cov ++ g) c :=
    ⟨by simp [hsrc0, hrest], rfl, h.line.append (blanks_noNl hg), h.small⟩
  unfold step at hstep
  rw [hrest, findWordStart_blanks laws g c tail st.pos hg hcw] at hstep
  simp only [] at hstep
  rw [hstart] at hstep
  rcases dispatch_spec kw hctx with ⟨hd, _⟩ | ⟨r, hd, hok⟩
  · rw [hd] at hstep; cases hstep
  · rw [hd] at hstep
    simp only [] at hstep
    obtain ⟨gap, ssp, post', _, _, htok, _⟩ := hok
    unfold finish at hstep
    by_cases hb : isCharBoundary st.src r.stop = true
    · rw [if_pos hb] at hstep
      injection hstep with hstep
      injection hstep with ht _
      rw [← ht]; exact htok.start_eq
    · rw [if_neg hb] at hstep
      cases hstep

/-- `matchLoop_junk`, with the text covered -/
theorem matchLoop_junk' (laws : SpellLaws) (kw : List (Str × TK)) (tail : Str) :
    ∀ (s g : Str) (st : LexState N) (cov : Str),
      LInv kw st cov → st.staged = none → st.rest = g ++ (s ++ tail) → Blanks g → Junk s →
      ∃ st' cov' g', matchLoop kw st = matchLoop kw st' ∧ LInv kw st' cov' ∧ st'.staged = none ∧
        st'.rest = g' ++ tail ∧ Blanks g' ∧ cov' ++ g' = cov ++ (g ++ s)
  | [], g, st, cov, h, hs, hr, hg, _ => ⟨st, cov, g, rfl, h, hs, by simpa using hr, hg, by simp⟩
  | c :: s', g, st, cov, h, hs, hr, hg, hj => by
    have hc := hj c (by simp)
    have hj' : Junk s' := fun x hx => hj x (by simp [hx])
    simp only [Spelling.isJunk, Bool.or_eq_true] at hc
    rcases hc with hc | hc
    · have hb : c = ' ' ∨ c = '\t' := by simpa [Spelling.isBlank] using hc
      obtain ⟨st', cov', g', k1, k2, k3, k4, k5, k6⟩ :=
        matchLoop_junk' laws kw tail s' (g ++ [c]) st cov h hs (by rw [hr]; simp) (by
          intro x hx
          rcases List.mem_append.mp hx with hx | hx
          · exact hg x hx
          · simp at hx; subst hx; exact hb) hj'
      exact ⟨st', cov', g', k1, k2, k3, k4, k5, by rw [k6]; simp⟩
    · obtain ⟨st1, h1, h2, h3, h4⟩ := step_skip_exact laws kw h hs (post := s' ++ tail)
        (by rw [hr]; simp) hg hc
      obtain ⟨st', cov', g', k1, k2, k3, k4, k5, k6⟩ := matchLoop_junk' laws kw tail s' [] st1 _ h4 h3
        (by simpa using h2) (by intro x hx; simp at hx) hj'
      exact ⟨st', cov', g', by rw [matchLoop_skip h1, k1], k2, k3, k4, k5, by rw [k6]; simp⟩

/-- **the token loop on a spelled text, with start offsets** -/
theorem lexLoop_spell_starts (laws : SpellLaws) (hdot : (NumOps.parse ['.'] : Option N) = none)
    (kw : List (Str × TK)) (hkw : ∀ w, kw.lookup w = promised.lookup w) :
    ∀ (n : Nat) (items : List (Spelling.Sep × Spelling.Piece)), items.length = n →
      ∀ (e : Spelling.Sep) (prev : Option Spelling.Piece) (st : LexState N) (cov : Str),
      LInv kw st cov → st.staged = none → st.rest = Spelling.spell items e →
      Spelling.spellOK prev items e = true → headNotSuffix items = true →
      (∀ x ∈ items, ∀ t, x.2 = .num t → (NumOps.parse t : Option N).isSome = true) →
      ∃ ts, lexLoop kw st = .ok ts ∧
        ts.map Spelling.tview = items.map (fun x => (x.2.expect : TK × Str × Option N × Str)) ∧
        ts.map (·.start) = Spelling.offsets (ulen cov) items := by
  intro n
  induction n using Nat.strongRecOn with
  | _ n ih =>
    intro items hn e prev st cov h hs hr hok hhead hnum
    cases items with
    | nil =>
      have hj : Junk e := sepOK_junk (by simpa [Spelling.spellOK] using hok)
      obtain ⟨st', cov', g', k1, k2, k3, k4, k5⟩ := matchLoop_junk laws kw [] e [] st cov h hs
        (by simpa [Spelling.spell] using hr) (by intro x hx; simp at hx) hj
      obtain ⟨st'', hst''⟩ := step_eof_exact laws kw (st := st') (by simpa using k4) k5
      have hnext : next kw st = .ok (none, st'') := by
        simp only [next, hs]
        rw [k1]; exact matchLoop_eof hst''
      exact ⟨[], lexLoop_nil hnext, rfl, rfl⟩
    | cons sp r =>
      obtain ⟨s, p⟩ := sp
      simp only [Spelling.spellOK, Bool.and_eq_true] at hok
      obtain ⟨⟨hsep, hwf⟩, hokr⟩ := hok
      have hp : p.isSuffix = false := by simpa [headNotSuffix] using hhead
      have hj : Junk s := sepOK_junk hsep
      obtain ⟨c, a, htext, hh⟩ := piece_head p hwf
      cases hgs : startsGluedSuffix r with
      | false =>
        obtain ⟨st', cov', g', k1, k2, k3, k4, k5, k6⟩ := matchLoop_junk' laws kw
          (p.text ++ Spelling.spell r e) s [] st cov h hs (by simpa [Spelling.spell] using hr)
          (by intro x hx; simp at hx) hj
        have hb := bound_of_spellOK laws p r e hokr hgs
        obtain ⟨t, st'', j1, j2, j3, j4, j5, j6, j7, j8⟩ := step_tok_exact laws kw
          (a := a) (post := Spelling.spell r e) (c := c) k2 k3
          (by rw [k4, htext]; simp) k5 (head_notWs laws hh)
          (fun st1 hctx hrest1 =>
            dispatch_piece laws hdot kw hkw p hwf hp (fun t ht => hnum (s, p) (by simp) t ht)
              hctx htext hrest1 hb)
        have hst : t.start = ulen (cov' ++ g') :=
          step_tok_start laws kw (tail := a ++ Spelling.spell r e) k2 k3
            (by rw [k4, htext]; simp) k5 (head_notWs laws hh) j1
        have hnext : next kw st = .ok (some t, st'') := by
          simp only [next, hs]
          rw [k1]; exact matchLoop_tok j1
        obtain ⟨ts, l1, l2, l3⟩ := ih r.length (by rw [← hn]; simp) r rfl e (some p) st'' _ j8 j7 j6
          hokr (headNotSuffix_of_spellOK hokr hgs) (fun x hx => hnum x (by simp [hx]))
        rw [lexLoop_cons hnext, l1]
        refine ⟨_, rfl, ?_, ?_⟩
        · simp only [List.map_cons, l2]
          congr 1
          simp only [Spelling.tview, Spelling.Piece.expect, j2, j3, j4, j5, htext]
        · have e1 : ulen (cov' ++ g') = ulen cov + ulen s := by rw [k6]; simp [ulen_append]
          have e2 : ulen (cov' ++ g' ++ c :: a) = ulen cov + ulen s + ulen p.text := by
            rw [ulen_append, e1, htext]
          simp only [List.map_cons, l3, Spelling.offsets, hst, e1, e2]
      | true =>
        obtain ⟨re, caps, r', hr'⟩ := startsGluedSuffix_spec hgs
        subst hr'
        simp only [Spelling.spellOK, Bool.and_eq_true] at hokr
        obtain ⟨⟨hsep2, _⟩, hokr'⟩ := hokr
        have hhost : p.isHost = true := by simpa [Spelling.sepOK, Spelling.glueOK] using hsep2
        have hsf := suffix_text_mem re caps
        -- nothing is glued to the suffix but a symbol, a string, a line feed or a comment
        have hng' : startsGluedSuffix r' = false := by
          cases hgs' : startsGluedSuffix r' with
          | false => rfl
          | true =>
            exfalso
            obtain ⟨re2, caps2, r'', hr''⟩ := startsGluedSuffix_spec hgs'
            subst hr''
            simp only [Spelling.spellOK, Bool.and_eq_true] at hokr'
            have := hokr'.1.1
            simp [Spelling.sepOK, Spelling.glueOK, Spelling.Piece.isHost] at this
        have hb := bound_of_spellOK laws (.suffix re caps) r' e hokr' hng'
        obtain ⟨st', cov', g', k1, k2, k3, k4, k5, k6⟩ := matchLoop_junk' laws kw
          (p.text ++ Spelling.spell (([], .suffix re caps) :: r') e) s [] st cov h hs
          (by simpa [Spelling.spell] using hr) (by intro x hx; simp at hx) hj
        obtain ⟨t, st'', sg, j1, j2, j3, j4, j5, j6, j7, m1, m2, m3, m4, j8⟩ := step_tok_exactS laws kw
          (a := a) (sf := (Spelling.Piece.suffix re caps).text) (post := Spelling.spell r' e)
          (c := c) k2 k3
          (by rw [k4, htext]; simp [Spelling.spell]) k5 (head_notWs laws hh)
          (fun st1 hctx hrest1 =>
            dispatch_compound laws kw hkw p hwf hhost (fun t ht => hnum (s, p) (by simp) t ht)
              re hsf hctx htext hrest1 hb)
        have hst : t.start = ulen (cov' ++ g') :=
          step_tok_start laws kw
            (tail := a ++ ((Spelling.Piece.suffix re caps).text ++ Spelling.spell r' e)) k2 k3
            (by rw [k4, htext]; simp [Spelling.spell]) k5 (head_notWs laws hh) j1
        have hsg : sg.start = ulen (cov' ++ g' ++ (c :: a)) := (j8.staged sg j7).start_eq
        have hnext : next kw st = .ok (some t, st'') := by
          simp only [next, hs]
          rw [k1]; exact matchLoop_tok j1
        obtain ⟨hnext2, hinv2⟩ := next_staged kw j8 j7
        obtain ⟨ts, l1, l2, l3⟩ := ih r'.length (by rw [← hn]; simp; omega) r' rfl e
          (some (.suffix re caps)) ({ st'' with staged := none } : LexState N) _ hinv2 rfl j6
          hokr' (headNotSuffix_of_spellOK hokr' hng') (fun x hx => hnum x (by simp [hx]))
        rw [lexLoop_cons hnext, lexLoop_cons hnext2, l1]
        refine ⟨_, rfl, ?_, ?_⟩
        · simp only [List.map_cons, l2]
          congr 1
          · simp only [Spelling.tview, Spelling.Piece.expect, j2, j3, j4, j5, htext]
          · congr 1
            simp only [Spelling.tview, Spelling.Piece.expect, m1, m2, m3, m4]
            cases re <;> rfl
        · have e1 : ulen (cov' ++ g') = ulen cov + ulen s := by rw [k6]; simp [ulen_append]
          have e2 : ulen (cov' ++ g' ++ c :: a) = ulen cov + ulen s + ulen p.text := by
            rw [ulen_append, e1, htext]
          have e3 : ulen (cov' ++ g' ++ c :: a ++ sg.spelling)
              = ulen cov + ulen s + ulen p.text + ulen (Spelling.Piece.suffix re caps).text := by
            rw [ulen_append, e2, m2]
          simp only [List.map_cons, l3, Spelling.offsets, hst, hsg, e1, e2, e3]
          simp [ulen]

/-- **the lexer on a spelled text, with start offsets** -/
theorem lexAll_spell_starts (laws : SpellLaws) (hdot : (NumOps.parse ['.'] : Option N) = none)
    (kw : List (Str × TK)) (hkw : ∀ w, kw.lookup w = promised.lookup w)
    (items : List (Spelling.Sep × Spelling.Piece)) (e : Spelling.Sep)
    (hlen : ulen (Spelling.spell items e) < 2 ^ 32)
    (hok : Spelling.spellOK none items e = true)
    (hnum : ∀ x ∈ items, x.2.kind = .number → (x.2.numOf : Option N).isSome = true) :
    ∃ ts : List (Tok N), lexAll kw (Spelling.spell items e) = .ok ts ∧
      ts.map Spelling.tview = items.map (fun x => (x.2.expect : TK × Str × Option N × Str)) ∧
      ts.map (·.start) = Spelling.offsets 0 items := by
  have hhead : headNotSuffix items = true := by
    cases items with
    | nil => rfl
    | cons sq r =>
      obtain ⟨s, q⟩ := sq
      simp only [Spelling.spellOK, Bool.and_eq_true] at hok
      cases s with
      | nil => simpa [headNotSuffix, Spelling.sepOK] using hok.1.1
      | cons x s' => simpa [headNotSuffix] using sepOK_cons_notSuffix hok.1.1
  exact lexLoop_spell_starts laws hdot kw hkw _ items rfl e none _ [] (LInv.init kw _ hlen) rfl rfl hok hhead
    (fun x hx t ht => by
      have := hnum x hx (by rw [ht]; rfl)
      rw [ht] at this
      exact this)

end

end Lexer
end Rrss
