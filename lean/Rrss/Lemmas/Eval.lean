/-
  Rrss.Lemmas.Eval — `applyOp` / `foldOp` of the interpreter against `Spec.ExprEval`.
-/
import Rrss.Spec.ExprEval
import Rrss.Lemmas.Coercion
set_option linter.unusedSectionVars false
namespace Rrss
namespace Interp
open NumOps
variable {N : Type} [NumOps N]

theorem cmp_map_eq_ordered (a b : Val N) (p : Ordering → Bool) :
    ((Val.compare a b).map fun r => (Val.bool (ordIs r p) : Val N)) = Spec.ordered a b p := by
  rw [Val.compare_eq_spec]
  unfold Spec.ordered
  cases Spec.compare a b with
  | invalid => rfl
  | is o => cases o <;> rfl

/-- the operator application of the model on evaluated operands is the table-level `binop` -/
theorem opVal_eq_spec (cap : Nat) (op : BinOp) (a b : Val N) :
    opVal cap op a b = Spec.binop cap op a b := by
  cases op <;>
    simp only [opVal, Spec.binop, Val.plus_eq_spec, Val.subtract_eq_spec, Val.multiply_eq_spec,
      Val.divide_eq_spec, Val.isTruthy_eq_spec, Val.equals_eq_spec, cmp_map_eq_ordered]

theorem applyOp_decided {op : BinOp} {a r : Val N} (h : Spec.decides op a = some r)
    (b : M N (Val N)) (env : Env N) : applyOp op a b env = (.ok r, env) := by
  cases op <;> simp only [Spec.decides, ← Val.isTruthy_eq_spec] at h <;> try (cases h; done)
  all_goals
    cases ht : a.isTruthy <;> simp only [ht, if_true] at h <;> try (cases h; done)
    all_goals
      cases h
      simp only [applyOp, ht]
      rfl

/-- every operator evaluates its right operand at most once, and then behaves as on an
    evaluated operand -/
theorem applyOp_lazy {op : BinOp} {a : Val N} (h : Spec.decides op a = none)
    (b : M N (Val N)) : applyOp op a b = b >>= fun bv => applyOp op a (pure bv) := by
  by_cases hs : BinOp.strict op = true
  · exact applyOp_strict op hs a b
  · cases op <;> first | exact absurd rfl hs | skip
    all_goals
      simp only [Spec.decides, ← Val.isTruthy_eq_spec] at h
      cases ht : a.isTruthy <;> simp only [ht, if_true] at h <;> try (cases h; done)
      all_goals
        simp only [applyOp, ht]
        rfl

theorem applyOp_undecided {op : BinOp} {a : Val N} (h : Spec.decides op a = none)
    (b : M N (Val N)) (env : Env N) :
    applyOp op a b env = match b env with
      | (.ok bv, env') => M.liftV (Spec.binop env'.cap op a bv) env'
      | (.err er, env') => (.err er, env')
      | (.crash s, env') => (.crash s, env')
      | (.fuel, env') => (.fuel, env')
      | (.resource, env') => (.resource, env') := by
  have key : ∀ (bv : Val N) (env' : Env N), applyOp op a (pure bv) env'
      = M.liftV (Spec.binop env'.cap op a bv) env' := by
    intro bv env'; rw [applyOp_pure, opVal_eq_spec]
  rw [applyOp_lazy h, M.bind_apply]
  rcases b env with ⟨o, e'⟩
  cases o <;> simp only [key]

/-- the fold of the model is the big-step fold of the specification -/
theorem foldOp_iff_fold (rec : Rec N) (op : BinOp) :
    ∀ (es : List (Expr N)) (v : Val N) (env : Env N) (out : Outcome (RtErr N) (Val N) × Env N),
      foldOp rec op v es env = out ↔ Spec.Fold rec.evalExpr op v es env out := by
  intro es
  induction es with
  | nil =>
    intro v env out
    constructor
    · intro h; subst h; exact .done v env
    · intro h; cases h; rfl
  | cons e es ih =>
    intro v env out
    have unfold_ : foldOp rec op v (e :: es) env
        = (applyOp op v (rec.evalExpr e) >>= fun a' => foldOp rec op a' es) env := rfl
    constructor
    · intro h
      rw [unfold_] at h
      cases hd : Spec.decides op v with
      | some r =>
        rw [M.bind_ok (applyOp_decided hd _ env)] at h
        exact .skip hd ((ih r env out).mp h)
      | none =>
        rw [M.bind_apply, applyOp_undecided hd] at h
        rcases hb : rec.evalExpr e env with ⟨o, env'⟩
        rw [hb] at h
        cases o with
        | ok bv =>
          simp only at h
          cases hr : Spec.binop env'.cap op v bv with
          | ok v' =>
            rw [hr] at h
            exact .step hd hb hr ((ih v' env' out).mp h)
          | err er => rw [hr] at h; subst h; exact .opStops hd hb hr rfl
          | crash s => rw [hr] at h; subst h; exact .opStops hd hb hr rfl
          | fuel => rw [hr] at h; subst h; exact .opStops hd hb hr rfl
          | resource => rw [hr] at h; subst h; exact .opStops hd hb hr rfl
        | err er => subst h; exact .operandStops hd hb rfl
        | crash s => subst h; exact .operandStops hd hb rfl
        | fuel => subst h; exact .operandStops hd hb rfl
        | resource => subst h; exact .operandStops hd hb rfl
    · intro h
      rw [unfold_]
      cases h with
      | skip hd hf =>
        rw [M.bind_ok (applyOp_decided hd _ env)]
        exact (ih _ _ _).mpr hf
      | step hd hb hr hf =>
        rw [M.bind_apply, applyOp_undecided hd, hb]
        simp only [hr]
        exact (ih _ _ _).mpr hf
      | @operandStops _ _ _ _ _ o hd hb ho =>
        rw [M.bind_apply, applyOp_undecided hd, hb]
        cases o <;> first | rfl | cases ho
      | @opStops _ _ _ _ _ _ r hd hb hr ho =>
        rw [M.bind_apply, applyOp_undecided hd, hb]
        simp only [hr]
        cases r <;> first | rfl | cases ho

end Interp
end Rrss
