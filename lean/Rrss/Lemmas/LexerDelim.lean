/-
  Rrss.Lemmas.LexerDelim — the scanner lemma for `scan_delimited` (string literals, comments).
-/
import Rrss.Lemmas.LexerScan
namespace Rrss
namespace Lexer
open Spec

set_option linter.unusedSectionVars false

variable {N : Type}

section
variable [CharOps]

/-- the part of `scan_delimited` after the closing character has been searched -/
theorem scanDelimited_tail [NumOps N] (kw : List (Str × TK)) {st : LexState N} {pre post t' : Str}
    {c : Char} (k : TK) (inner : Str) (err : Option LexErr) (stop nl' : Nat) (nls' : Option Nat)
    (hsrc : st.src = pre ++ (c :: t') ++ post) (hstop : stop = ulen pre + ulen (c :: t'))
    (hcn : c ≠ '\n') (hl : LineOK st.line st.lineStart pre)
    (hl' : LineOK (st.line + nl') (nls'.getD st.lineStart) (pre ++ (c :: t')))
    (hsmall : ulen st.src < 4294967296)
    (hp : ∀ rg, PayloadOK kw
      ({ kind := k, spelling := c :: t', start := ulen pre, range := rg, text := inner,
         lexErr := err } : Tok N)) :
    ∃ r, ((makeLocFrom (st.line + nl') (nls'.getD st.lineStart) stop).bind fun endLoc =>
        maybeFollowedByApostropheSuffix st
          { token := { kind := k, spelling := c :: t', start := ulen pre,
                       range := (⟨st.line, ulen pre - st.lineStart⟩ : Loc).to endLoc,
                       text := inner, lexErr := err }
            stop := stop, newlines := nl', newLineStart := nls' }) = .ok r ∧
      ResOK kw st pre r := by
  have hlen : ulen st.src = ulen pre + ulen (c :: t') + ulen post := by
    rw [hsrc]; simp [Nat.add_assoc]
  have hle := hl'.le
  simp only [ulen_append] at hle
  rw [makeLocFrom_ok (by omega) (by omega)]
  simp only [Outcome.bind_ok]
  refine maybeFollowed_spec kw (post := post) hsrc hstop ?_ hl' rfl hsmall
  refine ⟨rfl, by simp, fun hn => ?_, fun h => by simp [hcn] at h, hp _⟩
  have h1 := hl.loc hn
  have h2 := hl'.loc hn
  simp only [ulen_append] at h2
  have hnn : ¬ (c :: t' = ['\n']) := by simp [hcn]
  simp only [Loc.to, hstop, h1, h2, Range_new_locOf, if_neg hnn]

theorem scanDelimited_spec [NumOps N] (kw : List (Str × TK)) {st : LexState N} {pre : Str}
    {c : Char} (closeChar : Char) (kind : TK) (error : LexErr)
    (hc : Ctx st pre c) (hsz : c.utf8Size = 1) (hcsz : closeChar.utf8Size = 1) (hcn : c ≠ '\n')
    (hk : (kind = .stringLit ∧ c = '"' ∧ closeChar = '"') ∨
          (kind = .comment ∧ c = '(' ∧ closeChar = ')')) :
    ∃ r, scanDelimited st (ulen pre) closeChar kind error = .ok r ∧ ResOK kw st pre r := by
  have hlen : ulen st.src = ulen pre + c.utf8Size + ulen st.rest := by
    rw [hc.src_eq]; simp [Nat.add_assoc]
  have hsmall := hc.small
  have hle := hc.line.le
  have hpos : st.pos = ulen (pre ++ [c]) := by rw [hc.pos_eq]; simp
  have hl1 : LineOK (st.line + 0) ((none : Option Nat).getD st.lineStart) (pre ++ [c]) := by
    simpa using hc.line.append (NoNl_of_forall (q := [c]) (by simpa using hcn))
  unfold scanDelimited
  simp only [makeLoc]
  rw [makeLocFrom_ok (by omega) hle]
  simp only [Outcome.bind_ok, hpos]
  rcases scanClose_spec closeChar st.rest (pre ++ [c]) st.line st.lineStart 0 none hl1 with
    ⟨a, b, nl', nls', hsc, hrest, hl'⟩ | ⟨nl', nls', hsc, hl'⟩
  · -- terminated
    rw [hsc]
    have hsrcA : st.src = (pre ++ [c]) ++ a ++ (closeChar :: b) := by
      rw [hc.src_eq, hrest]; simp
    have hsrcB : st.src = pre ++ (c :: (a ++ [closeChar])) ++ b := by
      rw [hc.src_eq, hrest]; simp
    simp only []
    rw [sub_ok hsrcA (by simp [hsz]) rfl, Outcome.bind_ok,
      sub_ok hsrcB rfl (by simp [hcsz]; omega)]
    simp only [Outcome.bind_ok]
    refine scanDelimited_tail kw kind a none _ nl' nls' hsrcB (by simp [hcsz]; omega) hcn hc.line
      (by simpa using hl') hsmall ?_
    intro rg
    rcases hk with ⟨h1, h2, h3⟩ | ⟨h1, h2, h3⟩ <;> subst h1 h2 h3 <;>
      exact Or.inr ⟨by simp, by simp, by simp, by simp⟩
  · -- unterminated: an error token up to the end of the input
    rw [hsc]
    have hsrcB : st.src = pre ++ (c :: st.rest) ++ [] := by rw [hc.src_eq]; simp
    simp only []
    rw [sub_ok hsrcB rfl (by rw [hlen]; simp; omega)]
    simp only [Outcome.bind_ok]
    refine scanDelimited_tail kw .error [] (some error) _ nl' nls' hsrcB
      (by rw [hlen]; simp; omega) hcn hc.line (by simpa using hl') hsmall ?_
    intro rg
    exact PayloadOK.plain (by simp) (by simp) (by simp) (by simp)

end
end Lexer
end Rrss
