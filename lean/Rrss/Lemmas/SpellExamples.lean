/-
  Rrss.Lemmas.SpellExamples — data and side conditions for the non-vacuity examples of
  Rrss/Thm/C02Text.lean: the concrete tables meet `SpellLaws`, the keyword tables are the promised
  table, the plain stage is a special case, and a three-line program spelled in two ways.
-/
import Rrss.Lemmas.SpellCompose
import Rrss.Lemmas.TextRecase
import Rrss.Thm.C15
set_option linter.unusedSectionVars false
set_option linter.unusedVariables false
namespace Rrss
namespace Lexer
open Spec Recase Keys

/-! ### the hypotheses are met by the concrete tables -/

/-- `SpellLaws` from `AsciiLaws` and a check of the 128 ASCII code points -/
theorem spellLaws_of_table (ops : CharOps) (hl : @AsciiLaws ops)
    (h : ∀ n, n < 128 →
      (Spelling.isDigit (Char.ofNat n) = true →
        ops.isNumeric (Char.ofNat n) = true ∧ ops.isWhitespace (Char.ofNat n) = false) ∧
      (isAsciiPunct (Char.ofNat n) = true → ops.isWhitespace (Char.ofNat n) = false))
    (h2 : ops.isWhitespace ' ' = true ∧ ops.isWhitespace '\t' = true ∧
      ops.isWhitespace '\n' = true ∧ ops.toLower '\'' = ['\'']) : @SpellLaws ops := by
  have key : ∀ c : Char, c.toNat < 128 →
      (Spelling.isDigit c = true → ops.isNumeric c = true ∧ ops.isWhitespace c = false) ∧
      (isAsciiPunct c = true → ops.isWhitespace c = false) := by
    intro c hc
    have := h c.toNat hc
    rw [Char.ofNat_toNat] at this
    exact this
  have hp : ∀ c : Char, isAsciiPunct c = true → c.toNat < 128 := by
    intro c hc
    simp only [isAsciiPunct, Bool.or_eq_true, Bool.and_eq_true, decide_eq_true_eq] at hc
    omega
  exact ⟨hl, fun c hc => ((key c (digit_lt128 hc)).1 hc).1,
    fun c hc => ((key c (digit_lt128 hc)).1 hc).2, h2.1, h2.2.1, h2.2.2.1,
    fun c hc => (key c (hp c hc)).2 hc, h2.2.2.2⟩

/-- the ASCII tables of the lexer examples -/
theorem spellLaws_asciiOps : @SpellLaws asciiOps :=
  spellLaws_of_table _ asciiLaws_asciiOps (by decide +kernel) (by decide +kernel)

/-- the tables generated from the Rust std -/
theorem spellLaws_charOpsImpl : @SpellLaws charOpsImpl :=
  spellLaws_of_table _ asciiLaws_charOpsImpl (by decide +kernel) (by decide +kernel)

/-- the generated keyword table (what the driver runs on) is the promised table -/
theorem keywords_eq_promised (w : Str) :
    List.lookup w Generated.keywords = List.lookup w promised :=
  C15_keywords_eq_promised.1 w

/-- the transcribed table of the model is the promised table -/
theorem defaultKeywords_eq_promised (w : Str) :
    List.lookup w defaultKeywords = List.lookup w promised :=
  (C15_defaultKeywords_eq_generated w).trans (keywords_eq_promised w)

/-- `"."` is not an integer -/
theorem parseInt_dot : (numOpsInt.parse ['.'] : Option Int) = none := by decide

/-! ### the plain stage: single spaces -/

theorem sepOK_space (p : Option Spelling.Piece) (q : Spelling.Piece) (hq : q.isSuffix = false) :
    Spelling.sepOK p [' '] (some q) = true := by
  have h : Spelling.isJunk ' ' = true := by decide
  simp only [Spelling.sepOK, List.all_cons, List.all_nil, h, Bool.and_true, Bool.true_and, hq,
    Bool.not_false]
  cases p with
  | none => rfl
  | some p =>
    cases p with
    | sym s => cases s <;> decide
    | _ => rfl

theorem spellOK_spaces (prev : Option Spelling.Piece) : ∀ ps : List Spelling.Piece,
    (∀ p ∈ ps, p.wf = true ∧ p.isSuffix = false) →
    Spelling.spellOK prev (ps.map (fun q => ([' '], q))) [] = true
  | [], _ => by
    simp only [List.map_nil, Spelling.spellOK, Spelling.sepOK, List.all_nil, Bool.true_and]
  | p :: ps, h => by
    simp only [List.map_cons, Spelling.spellOK, sepOK_space _ p (h p (by simp)).2,
      (h p (by simp)).1, Bool.true_and]
    exact spellOK_spaces (some p) ps (fun q hq => h q (by simp [hq]))

/-- well-formed pieces other than suffixes, separated by single spaces, are an admissible text -/
theorem spellOK_plain (ps : List Spelling.Piece) (h : ∀ p ∈ ps, p.wf = true ∧ p.isSuffix = false) :
    Spelling.spellOK none (Spelling.plain ps) [] = true := by
  cases ps with
  | nil => rfl
  | cons p ps =>
    simp only [Spelling.plain, Spelling.spellOK, (h p (by simp)).1, Bool.and_true]
    refine (Bool.and_eq_true _ _).mpr ⟨?_, ?_⟩
    · simp [Spelling.sepOK, (h p (by simp)).2]
    · exact spellOK_spaces (some p) ps (fun q hq => h q (by simp [hq]))

theorem plain_map (ps : List Spelling.Piece) : (Spelling.plain ps).map (·.2) = ps := by
  cases ps with
  | nil => rfl
  | cons p ps => simp [Spelling.plain, List.map_map, Function.comp_def]

/-- the lexer on the plain stage -/
theorem lexAll_spell_plain {N : Type} [CharOps] [NumOps N] (laws : SpellLaws)
    (hdot : (NumOps.parse ['.'] : Option N) = none)
    (kw : List (Str × TK)) (hkw : ∀ w, kw.lookup w = promised.lookup w)
    (ps : List Spelling.Piece) (hwf : ∀ p ∈ ps, p.wf = true ∧ p.isSuffix = false)
    (hlen : ulen (Spelling.spell (Spelling.plain ps) []) < 2 ^ 32)
    (hnum : ∀ p ∈ ps, p.kind = .number → (p.numOf : Option N).isSome = true) :
    ∃ ts : List (Tok N), lexAll kw (Spelling.spell (Spelling.plain ps) []) = .ok ts ∧
      ts.map Spelling.tview = ps.map (fun p => (p.expect : TK × Str × Option N × Str)) := by
  obtain ⟨ts, h1, h2⟩ := lexAll_spell laws hdot kw hkw (Spelling.plain ps) [] hlen
    (spellOK_plain ps hwf)
    (fun x hx => hnum x.2 (by rw [← plain_map ps]; exact List.mem_map_of_mem hx))
  refine ⟨ts, h1, ?_⟩
  rw [h2]
  conv => rhs; rw [← plain_map ps]
  rw [List.map_map]; rfl

end Lexer

/-! ### a three-line program, spelled in three ways -/

namespace SpellEx
open Grammar Lexer Spelling

/-- the tree of
    ```
    put 1 into x
    if x is greater than 0
    say f taking x, 2
    ```
    (one top-level block: an assignment and an `if` whose block is a `say` of a call with two
    arguments) -/
def vx : VarSpec := .simple (str% "x")
def numP (n : Int) : Prim Int := .lit (.num n)

section
variable [CharOps]
def exprOfPrim (p : Prim Int) : Expression Int := Comparison.toLogical (Term.toComparison p.toTerm)
def cond : Expression Int := Comparison.toLogical ⟨vx.t, .chain [(.greater, (numP 0).toTerm)]⟩
def callE : Expression Int := exprOfPrim (.call (.simple (str% "f")) vx.u [(numP 2).toUnary])
def prog : List (List (Statement Int)) :=
  [[.simple (.put (exprOfPrim (numP 1)) ⟨.var vx, []⟩) .none,
    .ifS cond .none [.simple (.say callE) .none] none]]

/-- injective code of a path -/
def enc : List Nat → Nat
  | [] => 1
  | i :: p => enc p * 10 + i

/-- the choices with picks `pk` for which the `i`-th token of `T` (`progToks prog`,
    `progToksD d prog`) has the `i`-th of the given templates: the paths of the tokens are read off
    the tokens for templates that carry the code of their path -/
def choicesFor (T : Choices Int → List (Tok Int)) (pk : List Nat → Nat) (templates : List (Tok Int)) :
    Choices Int :=
  let ids := (T ⟨pk, fun p =>
    { kind := .error, spelling := [], start := enc p, range := default }⟩).map (·.start)
  ⟨pk, fun p => templates.getD (ids.idxOf (enc p))
    { kind := .error, spelling := [], start := 0, range := default }⟩

def choices (pk : List Nat → Nat) (templates : List (Tok Int)) : Choices Int :=
  choicesFor (progToks prog) pk templates

/-- … for the spelling that ends right after the last statement (the two blank lines that close
    the `if` and the block, and the `Newline` of the last line omitted) -/
def choicesD (pk : List Nat → Nat) (templates : List (Tok Int)) : Choices Int :=
  choicesFor (progToksD 2 prog) pk templates
end

/-- a template token with the four fields a piece fixes -/
def tokOf (v : TK × Str × Option Int × Str) : Tok Int :=
  { kind := v.1, spelling := v.2.1, start := 0, range := default, num := v.2.2.1, text := v.2.2.2 }

def kwd (a : Str) (k : TK) (caps : List Bool := []) : Piece := .kw a k caps

/-- first spelling: lower case, first aliases, `,` between the arguments -/
def pieces1 : List Piece :=
  [kwd (str% "put") .put, .num (str% "1"), kwd (str% "into") .into, .name (str% "x"), .nl,
   kwd (str% "if") .if_, .name (str% "x"), kwd (str% "is") .is, kwd (str% "greater") .bigger,
   kwd (str% "than") .than, .num (str% "0"), .nl,
   kwd (str% "say") .say, .name (str% "f"), kwd (str% "taking") .taking, .name (str% "x"),
   .sym .comma, .num (str% "2"), .nl, .nl, .nl]

/-- the plain stage: single spaces -/
def items1 : List (Sep × Piece) := plain pieces1

/-- all picks `0` -/
def pk1 : List Nat → Nat := fun _ => 0

/-- second spelling: a leading blank line, other aliases (`in`, `'S` for `is`, `stronger`, `shout`),
    mixed case, `'N'` between the arguments, runs of blanks and tabs, ignored punctuation, two
    comments -/
def items2 : List (Sep × Piece) :=
  [([], .nl),
   ([], .comment (str% "set\nup")), ([' '], kwd (str% "put") .put [true, false, true]),
   ([' ', ' ', '\t'], .num (str% "1")), ([' '], kwd (str% "in") .into), ([' '], .name (str% "x")),
   ([';'], .nl),
   ([], kwd (str% "if") .if_ [true, true]), ([' '], .name (str% "x")),
   ([], .suffix false [false, true]), ([' ', ' '], kwd (str% "stronger") .bigger [true]),
   (['\t'], kwd (str% "than") .than), ([' '], .num (str% "0")), ([' ', '?', '!'], .nl),
   ([' ', ' '], kwd (str% "shout") .sayAlias [true]), ([' '], .name (str% "f")),
   ([' '], kwd (str% "taking") .taking [true, true, true, true, true, true]), ([' '], .name (str% "x")),
   ([' '], .nApos true), ([], .num (str% "2")), ([' '], .comment (str% "two arguments")), ([], .nl),
   ([], .nl), ([' '], .nl)]

/-- picks of the second spelling: one blank line before the block, `'s` for `is`, `shout` for `say`,
    `'n'` as the argument separator -/
def pk2 : List Nat → Nat := fun p =>
  if p = [0] then 1
  else if p = [1, 2, 0, 1, 0, 1, 0] then 1
  else if p = [1, 2, 0, 3, 0, 0] then 1
  else if p = [1, 2, 0, 3, 0, 1, 0, 0, 0, 0, 1, 0, 3, 0] then 3
  else 0

/-- third spelling: the text ends right after the last statement -/
def items3 : List (Sep × Piece) :=
  [([], kwd (str% "put") .put), ([' '], .num (str% "1")), ([' '], kwd (str% "into") .into),
   ([' '], .name (str% "x")), ([], .nl),
   ([], kwd (str% "if") .if_), ([' '], .name (str% "x")), ([' '], kwd (str% "is") .is),
   ([' '], kwd (str% "greater") .bigger), ([' '], kwd (str% "than") .than), ([' '], .num (str% "0")),
   ([], .nl),
   ([], kwd (str% "say") .say), ([' '], .name (str% "f")), ([' '], kwd (str% "taking") .taking),
   ([' '], .name (str% "x")), ([], .sym .comma), ([' '], .num (str% "2"))]

end SpellEx
end Rrss
