/-
  Rrss.Lemmas.ParserExamples — hand-built token lists (numbers are `Int`, ASCII tables) and
  kernel-evaluable observations of parser results, for the non-vacuity examples of C13.
-/
import Rrss.Lemmas.ParserLine
import Rrss.Lemmas.ParserPrefix
namespace Rrss
namespace Parser
namespace Ex

open Lexer

/-- a payload-free token on line `ln`: kind, spelling, byte offset (= column); the lexer is then on
    line `lnAfter` -/
def tok (k : TK) (sp : Str) (start : Nat) (ln : Nat := 1) (lnAfter : Nat := ln) : Tok Int :=
  { plainTok k sp start ⟨⟨ln, start⟩, ⟨ln, start + ulen sp⟩⟩ with
    after := ⟨lnAfter, 0, start + ulen sp⟩ }

/-- a number token -/
def num (v : Int) (sp : Str) (start : Nat) (ln : Nat := 1) : Tok Int :=
  { tok .number sp start ln with num := some v }

/-- initial parser state over a token list (cf. `initState`) -/
def state (src : Str) (toks : List (Tok Int)) (eofLine : Nat := 1) : PState Int :=
  { src := src, toks := toks, last := ⟨1, 0, 0⟩, eof := ⟨eofLine, 0, ulen src⟩, parsingList := false }

/-- what is observed of a result: for an error the variant name of its code, the line
    `Display` prints, and the byte offset of the token it names (if any); for `ok` the byte
    offsets of the tokens left -/
inductive Obs
  | ok (left : List Nat)
  | err (code : Str) (line : Nat) (tokStart : Option Nat)
  | other
  deriving DecidableEq, Repr

def obs {α : Type} (o : Outcome (ParseErr Int) (α × PState Int)) : Obs :=
  match o with
  | .ok (_, st) => .ok (st.toks.map (·.start))
  | .err e => .err e.codeName e.line e.tokStart
  | _ => .other

/-! the token lists -/

/-- `say 1 say 2` -/
def srcSaySay : Str := str% "say 1 say 2"
def say0 : Tok Int := tok .say (str% "say") 0
def one4 : Tok Int := num 1 (str% "1") 4
def say6 : Tok Int := tok .say (str% "say") 6
def two10 : Tok Int := num 2 (str% "2") 10
def toksSaySay : List (Tok Int) := [say0, one4, say6, two10]

/-- `say 1⏎say 2` -/
def srcTwoLines : Str := str% "say 1\nsay 2"
def nl5 : Tok Int := tok .newline (str% "\n") 5 1 2
def toksTwoLines : List (Tok Int) :=
  [say0, one4, nl5, tok .say (str% "say") 6 2, num 2 (str% "2") 10 2]

/-- `put 1 x` (no `into`) -/
def srcPut : Str := str% "put 1 x"
def put0 : Tok Int := tok .put (str% "put") 0
def x6 : Tok Int := tok .word (str% "x") 6
def toksPut : List (Tok Int) := [put0, one4, x6]

/-- `say⏎` (no operand) and `say` at the end of input -/
def srcSayNl : Str := str% "say\n"
def nl3 : Tok Int := tok .newline (str% "\n") 3 1 2
def toksSayNl : List (Tok Int) := [say0, nl3]
def toksSayEnd : List (Tok Int) := [say0]

/-- `else` -/
def else0 : Tok Int := tok .else_ (str% "else") 0
/-- `foo1` (an error token: invalid identifier) -/
def err0 : Tok Int := { tok .error (str% "foo1") 0 with lexErr := some .identNonAlpha }

/-- `x is a-` then a two-line comment (the exhausted lexer is on line 3), and `x is a-⏎` -/
def srcHyphen : Str := str% "x is a-(\n\n)"
def x0 : Tok Int := tok .word (str% "x") 0
def is2 : Tok Int := tok .is (str% "is") 2
def a5 : Tok Int := tok .word (str% "a") 5
def hy6 : Tok Int := tok .minus (str% "-") 6
def nl7 : Tok Int := tok .newline (str% "\n") 7 1 2
def srcHyphenNl : Str := str% "x is a-\n"
def toksHyphenEnd : List (Tok Int) := [x0, is2, a5, hy6]
def toksHyphenNl : List (Tok Int) := [x0, is2, a5, hy6, nl7]

/-- `take it to the⏎` (no `top`), `take it⏎` (no `to`), `break it⏎` (no `down`) -/
def take0 : Tok Int := tok .take (str% "take") 0
def it5 : Tok Int := tok .pronoun (str% "it") 5
def to8 : Tok Int := tok .to (str% "to") 8
def the11 : Tok Int := tok .commonPrefix (str% "the") 11
def nl14 : Tok Int := tok .newline (str% "\n") 14 1 2
def srcTake : Str := str% "take it to the\n"
def toksTake : List (Tok Int) := [take0, it5, to8, the11, nl14]
def nl7' : Tok Int := tok .newline (str% "\n") 7 1 2
def srcTakeIt : Str := str% "take it\n"
def toksTakeIt : List (Tok Int) := [take0, it5, nl7']
def break0 : Tok Int := tok .break_ (str% "break") 0
def it6 : Tok Int := tok .pronoun (str% "it") 6
def nl8 : Tok Int := tok .newline (str% "\n") 8 1 2
def srcBreakIt : Str := str% "break it\n"
def toksBreakIt : List (Tok Int) := [break0, it6, nl8]

/-- the tokens after `x is` in `x is bigger 1` (no `than`) and `x is as big 1` (no `as`) -/
def bigger5 : Tok Int := tok .bigger (str% "bigger") 5
def one12 : Tok Int := num 1 (str% "1") 12
def as5 : Tok Int := tok .as (str% "as") 5
def big8 : Tok Int := tok .big (str% "big") 8
def srcBigger : Str := str% "x is bigger 1"
def srcAsBig : Str := str% "x is as big 1"
def toksBigger : List (Tok Int) := [bigger5, one12]
def toksAsBig : List (Tok Int) := [as5, big8, one12]

/-- `let x 1` (no `be`), `build x⏎` (no `up`), `knock x` (no `down`, end of input) -/
def let0 : Tok Int := tok .let_ (str% "let") 0
def x4 : Tok Int := tok .word (str% "x") 4
def one6 : Tok Int := num 1 (str% "1") 6
def srcLet : Str := str% "let x 1"
def toksLet : List (Tok Int) := [let0, x4, one6]
def build0 : Tok Int := tok .build (str% "build") 0
def knock0 : Tok Int := tok .knock (str% "knock") 0
def srcBuild : Str := str% "build x\n"
def toksBuild : List (Tok Int) := [build0, x6, nl7']
def srcKnock : Str := str% "knock x"
def toksKnock : List (Tok Int) := [knock0, x6]

/-- `say 1⏎⏎say 2⏎say 3 say 4`: a block, a blank line, then a block whose second line holds two
    statements -/
def srcPrefix : Str := str% "say 1\n\nsay 2\nsay 3 say 4"
def nl6 : Tok Int := tok .newline (str% "\n") 6 2 3
def say7 : Tok Int := tok .say (str% "say") 7 3
def two11 : Tok Int := num 2 (str% "2") 11 3
def nl12 : Tok Int := tok .newline (str% "\n") 12 3 4
def say13 : Tok Int := tok .say (str% "say") 13 4
def three17 : Tok Int := num 3 (str% "3") 17 4
def say19 : Tok Int := tok .say (str% "say") 19 4
def four23 : Tok Int := num 4 (str% "4") 23 4
def toksPrefix : List (Tok Int) :=
  [say0, one4, nl5, nl6, say7, two11, nl12, say13, three17, say19, four23]
/-- the states after the first block, after the blank line, after `say 2⏎` -/
def stPrefix1 : PState Int := { state srcPrefix (toksPrefix.drop 3) with last := nl5.after }
def stPrefix2 : PState Int := { state srcPrefix (toksPrefix.drop 4) with last := nl6.after }
def stPrefix3 : PState Int := { state srcPrefix (toksPrefix.drop 7) with last := nl12.after }

/-- `say 1⏎⏎else`, the state after the block `say 1⏎`, and after the blank line -/
def srcElse2 : Str := str% "say 1\n\nelse"
def else7 : Tok Int := tok .else_ (str% "else") 7 3
def toksElse2 : List (Tok Int) := [say0, one4, nl5, nl6, else7]
def stElse2 : PState Int := { state srcElse2 [nl6, else7] with last := nl5.after }
def stElse3 : PState Int := { state srcElse2 [else7] with last := nl6.after }

/-- the parser over `Int` numbers and the ASCII tables -/
abbrev prs (n : Nat) : Rec Int := @parser Int asciiOps n

/-- the constructors of `TopPrefix`/`StmtPrefix` at the ASCII tables -/
theorem topBlock {n m : Nat} {st st1 st' : PState Int} {b : Block Int} (hne : st.toks ≠ [])
    (hb : @parseBlock Int asciiOps (prs n) st = .ok (b, st1))
    (hnoelse : ∀ t, st1.toks.head? = some t → t.kind ∉ [TK.else_])
    (hrest : @TopPrefix Int asciiOps n st1 m st') : @TopPrefix Int asciiOps (n + 1) st m st' :=
  @TopPrefix.block Int asciiOps _ _ _ _ _ _ hne hb hnoelse hrest

theorem stmtStep {n m : Nat} {st st1 st2 st' : PState Int} {s : Stmt Int}
    (hs : @parseStatement Int asciiOps (prs n) st = .ok (some s, st1))
    (heol : expectEol st1 = .ok ((), st2))
    (hrest : @StmtPrefix Int asciiOps n st2 m st') : @StmtPrefix Int asciiOps (n + 1) st m st' :=
  @StmtPrefix.step Int asciiOps _ _ _ _ _ _ _ hs heol hrest

end Ex
end Parser
end Rrss
