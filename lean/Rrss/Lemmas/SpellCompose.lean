/-
  Rrss.Lemmas.SpellCompose — composition of the lexer round trip (Lemmas/LexRoundTrip) with the
  token-level round trip of the parser (C02, Lemmas/RoundTrip*): the tokens of a lexer run on a
  spelled text are the tokens `progToks bs c'` of the grammar for suitable templates `c'`
  (Lemmas/Relabel), these templates carry readable snapshots (C12 / C01: `c01_snapshots`), hence
  `parseProgram` returns the tree.
-/
import Rrss.Lemmas.LexRoundTrip
import Rrss.Lemmas.Relabel
import Rrss.Lemmas.RoundTripSentences
import Rrss.Lemmas.ParserTotal
set_option linter.unusedSectionVars false
set_option linter.unusedVariables false
namespace Rrss
namespace Grammar
open Lexer Parser Spelling

variable {N : Type} [CharOps] [NumOps N]

/-- dropping the comment tokens corresponds to dropping the comment pieces -/
theorem skipComments_views {ts : List (Tok N)} {items : List (Sep × Piece)}
    (h : ts.map tview = items.map (fun x => (x.2.expect : TK × Str × Option N × Str))) :
    (skipComments ts).map tview = (visible items).map (fun p => (p.expect : TK × Str × Option N × Str)) := by
  have hq : ∀ l : List (Tok N), (l.filter (fun t => t.kind != .comment)).map tview
      = (l.map tview).filter (fun v => v.1 != .comment) := by
    intro l
    induction l with
    | nil => rfl
    | cons t l ih =>
      simp only [List.filter_cons, List.map_cons]
      have : (tview t).1 = t.kind := rfl
      rw [this]
      split <;> simp [ih]
  have hp : ∀ l : List (Sep × Piece),
      (l.map (fun x => (x.2.expect : TK × Str × Option N × Str))).filter (fun v => v.1 != .comment)
      = ((l.filter (fun x => !x.2.isComment)).map (·.2)).map
          (fun p => (p.expect : TK × Str × Option N × Str)) := by
    intro l
    induction l with
    | nil => rfl
    | cons x l ih =>
      simp only [List.filter_cons, List.map_cons]
      have : ((x.2.expect : TK × Str × Option N × Str)).1 = x.2.kind := rfl
      rw [this]
      have e : (!x.2.isComment) = (x.2.kind != .comment) := by
        simp [Piece.isComment, bne]
      rw [e]
      split <;> simp [ih]
  unfold skipComments visible
  rw [hq, h, hp]

/-- a number piece whose expected token is a token of the grammar parses -/
theorem expect_num_isSome {p : Piece} {t : Str} {u : Tok N} (hp : p = .num t)
    (h : (p.expect : TK × Str × Option N × Str) = tview u) (hu : u.kind = .number → u.num.isSome = true) :
    (NumOps.parse t : Option N).isSome = true := by
  subst hp
  simp only [Piece.expect, Piece.kind, Piece.text, Piece.numOf, Piece.payload, tview,
    Prod.mk.injEq] at h
  rw [h.2.2.1]
  exact hu h.1.symm

/-- **Parsing a spelled text.** If the visible pieces of an admissible text stand for the tokens
    `progToks bs c` of a well-formed program without template-dependent constructs, and every number
    literal of the text parses, then `parseProgram` returns the blocks of `bs` up to source ranges. -/
theorem parse_spell (laws : SpellLaws) (hdot : (NumOps.parse ['.'] : Option N) = none)
    (kw : List (Str × TK)) (hkw : ∀ w, kw.lookup w = Spec.promised.lookup w)
    (bs : List (List (Statement N))) (c : Choices N)
    (items : List (Sep × Piece)) (e : Sep)
    (hwf : progWf bs = true) (hplain : progPlain false bs = true)
    (hlen : ulen (spell items e) < 2 ^ 32)
    (hok : spellOK none items e = true)
    (hnum : ∀ x ∈ items, x.2.kind = .number → (x.2.numOf : Option N).isSome = true)
    (hv : (visible items).map (fun p => (p.expect : TK × Str × Option N × Str))
      = (progToks bs c).map tview) :
    ∃ p : Program N, parseProgram kw (spell items e) = .ok p ∧
      p.code.map eraseB = progToAst bs := by
  obtain ⟨ts, hlex, hts⟩ := lexAll_spell laws hdot kw hkw items e hlen hok hnum
  have hviews : (progToks bs c).map tview = (skipComments ts).map tview := by
    rw [skipComments_views hts, hv]
  let d : Tok N := { kind := .newline, spelling := [], start := 0, range := default }
  obtain ⟨c', _, hc', hmem⟩ := progToks_relabel d bs c (skipComments ts) hviews
  have hsane : c'.Sane (spell items e) := by
    intro p
    rcases List.mem_cons.mp (hmem p) with h | h
    · rw [h]; exact ⟨Nat.zero_le _, Nat.le_refl _⟩
    · have hm : c'.tok p ∈ ts := (List.mem_filter.mp h).1
      obtain ⟨h1, h2, _, _⟩ := c01_snapshots hlen hlex _ hm
      exact ⟨h2, h1⟩
  obtain ⟨p, st', hp, hcode, _⟩ := program_roundtrip bs c' (initState (spell items e) ts)
    ((initState (spell items e) ts).toks.length + 1) hwf hc'.symm rfl
    ⟨Nat.zero_le _, Nat.le_refl _⟩ hsane
    (plain_progFits (ab := false) _ bs c' hplain (fun h => by cases h))
    (by rw [hc']; exact Nat.le_succ _)
  refine ⟨p, ?_, hcode⟩
  unfold parseProgram
  rw [runOn_of_lex _ hlex]
  unfold runToks
  have hentry : (parser (N := N) ((initState (spell items e) ts).toks.length + 2)).program
      = parseProgramBody (parser (N := N) ((initState (spell items e) ts).toks.length + 1)) := rfl
  simp only [hentry, hp]

/-- **Parsing a spelled text that ends with the input**: the same for the spellings `progToksD d`
    (the blank line closing the last top-level block and the last `d` further newlines omitted). -/
theorem parse_spell_at_eof (laws : SpellLaws) (hdot : (NumOps.parse ['.'] : Option N) = none)
    (kw : List (Str × TK)) (hkw : ∀ w, kw.lookup w = Spec.promised.lookup w)
    (d : Nat) (bs : List (List (Statement N))) (c : Choices N)
    (items : List (Sep × Piece)) (e : Sep)
    (hwf : progWf bs = true) (hplain : progPlain false bs = true)
    (hlen : ulen (spell items e) < 2 ^ 32)
    (hok : spellOK none items e = true)
    (hnum : ∀ x ∈ items, x.2.kind = .number → (x.2.numOf : Option N).isSome = true)
    (hv : (visible items).map (fun p => (p.expect : TK × Str × Option N × Str))
      = (progToksD d bs c).map tview) :
    ∃ p : Program N, parseProgram kw (spell items e) = .ok p ∧
      p.code.map eraseB = progToAst bs := by
  obtain ⟨ts, hlex, hts⟩ := lexAll_spell laws hdot kw hkw items e hlen hok hnum
  have hviews : (progToksD d bs c).map tview = (skipComments ts).map tview := by
    rw [skipComments_views hts, hv]
  let dt : Tok N := { kind := .newline, spelling := [], start := 0, range := default }
  obtain ⟨c', _, hc', hmem⟩ := progToksD_relabel dt d bs c (skipComments ts) hviews
  have hsane : c'.Sane (spell items e) := by
    intro p
    rcases List.mem_cons.mp (hmem p) with h | h
    · rw [h]; exact ⟨Nat.zero_le _, Nat.le_refl _⟩
    · have hm : c'.tok p ∈ ts := (List.mem_filter.mp h).1
      obtain ⟨h1, h2, _, _⟩ := c01_snapshots hlen hlex _ hm
      exact ⟨h2, h1⟩
  obtain ⟨p, st', hp, hcode, _⟩ := program_roundtripD d bs c' (initState (spell items e) ts)
    ((initState (spell items e) ts).toks.length + 1) hwf hc'.symm rfl
    ⟨Nat.zero_le _, Nat.le_refl _⟩ hsane
    (plain_progFitsD (ab := false) _ d bs c' hplain (fun h => by cases h))
    (by rw [hc']; exact Nat.le_succ _)
  refine ⟨p, ?_, hcode⟩
  unfold parseProgram
  rw [runOn_of_lex _ hlex]
  unfold runToks
  have hentry : (parser (N := N) ((initState (spell items e) ts).toks.length + 2)).program
      = parseProgramBody (parser (N := N) ((initState (spell items e) ts).toks.length + 1)) := rfl
  simp only [hentry, hp]

end Grammar
end Rrss
