/-
  Rrss.Lemmas.RoundTripPoetic — C02, parser half: poetic assignments (`X is <poetic number
  literal>`, `X is <expression starting with a literal word or a negative number>`,
  `X says <text>`), `rock X like <poetic number literal>`, and all one-line statements together.
-/
import Rrss.Lemmas.RoundTripStmt
import Rrss.Lemmas.PoeticParse
namespace Rrss
namespace Grammar
open Parser

variable {N : Type} [CharOps]

set_option linter.unusedSimpArgs false

/-! ### the tokens of a poetic number literal -/

theorem isWord_hyphen : Lexer.isWord ['-'] = false := by
  have : isAsciiPunct '-' = true := by decide
  simp [Lexer.isWord, Lexer.isWordEnd, Lexer.isIgnorablePunctuation, this]

omit [CharOps] in
theorem isHyphen_spelled (k : TK) (w : Str) (c : Choices N) :
    isHyphen (tk (.spelled k w) c : Tok N) = (k == .minus && w == ['-']) := rfl

theorem continuesPoetic_eq (t : Tok N) : isPoeticNumberLiteralToken t = continuesPoetic t := by
  unfold isPoeticNumberLiteralToken continuesPoetic poeticPunct isHyphen
  split <;> simp_all
  cases hk : (t.kind == TK.minus && t.spelling == ['-']) <;> simp_all

theorem hrec_poetic (n : Nat) : (parser (n + 1) : Rec N).poeticLoop = poeticLoopBody (parser n) := rfl

omit [CharOps] in
theorem map_ok' {ε α β : Type} (f : α → β) (a : α) : (Outcome.ok a : Outcome ε α).map f = .ok (f a) := rfl

omit [CharOps] in
theorem item_toks_pos (i : PoeticItem) (c : Choices N) : 1 ≤ (i.toks c).length := by
  cases i <;> simp [PoeticItem.toks]

theorem items_run : ∀ (is : List PoeticItem) (c : Choices N) (n : Nat) (rest : List (Tok N)) (src last eof b),
    is.all PoeticItem.wf = true → (itemsToks is c).length ≤ n → PoeticEnd rest →
    poeticLoopBody (parser n) ⟨src, itemsToks is c ++ rest, last, eof, b⟩
      = .ok (itemsElems is, ⟨src, rest, lastSnap (itemsToks is c) last, eof, b⟩) := by
  intro is
  induction is with
  | nil =>
    intro c n rest src last eof b _ _ hr
    cases rest with
    | nil => exact PoeticParse.body_nil _ _ rfl
    | cons t ts =>
      exact PoeticParse.body_stop _ _ t ts rfl (by rw [continuesPoetic_eq]; exact hr t rfl)
  | cons i is ih =>
    intro c n rest src last eof b hw hn hr
    simp only [List.all_cons, Bool.and_eq_true] at hw
    obtain ⟨hwi, hwis⟩ := hw
    simp only [itemsToks, List.length_append] at hn
    have hpos := item_toks_pos i (c.sub 0)
    cases n with
    | zero => omega
    | succ n =>
      cases i with
      | comma =>
        simp only [PoeticItem.toks, List.length_cons, List.length_nil] at hn
        have hi := ih (c.sub 1) n rest src (tk (.kw .comma) ((c.sub 0).sub 0) : Tok N).after eof b hwis
          (by omega) hr
        simp only [itemsToks, PoeticItem.toks, List.cons_append, List.nil_append, itemsElems,
          PoeticItem.elems, lastSnap_cons]
        rw [PoeticParse.body_comma _ _ _ _ rfl rfl, hrec_poetic]
        exact hi
      | dot =>
        simp only [PoeticItem.toks, List.length_cons, List.length_nil] at hn
        have hi := ih (c.sub 1) n rest src (tk (.kw .dot) ((c.sub 0).sub 0) : Tok N).after eof b hwis
          (by omega) hr
        simp only [itemsToks, PoeticItem.toks, List.cons_append, List.nil_append, itemsElems,
          PoeticItem.elems, lastSnap_cons]
        rw [PoeticParse.body_dot _ _ _ _ rfl rfl, hrec_poetic]
        simp only [PoeticParse.stepped]
        rw [hi]; rfl
      | apos re sp =>
        simp only [PoeticItem.toks, List.length_cons, List.length_nil] at hn
        have hi := fun l => ih (c.sub 1) n rest src l eof b hwis (by omega) hr
        simp only [itemsToks, PoeticItem.toks, List.cons_append, List.nil_append, itemsElems,
          PoeticItem.elems, lastSnap_cons]
        cases re with
        | false =>
          rw [PoeticParse.body_apostropheS _ _ _ _ rfl rfl, hrec_poetic]
          simp only [PoeticParse.stepped]
          rw [hi]; rfl
        | true =>
          rw [PoeticParse.body_apostropheRE _ _ _ _ rfl rfl, hrec_poetic]
          simp only [PoeticParse.stepped]
          rw [hi]; rfl
      | hyphen w k =>
        simp only [PoeticItem.toks, List.length_cons, List.length_nil] at hn
        have hww : Lexer.isWord w = true := hwi
        have hi := fun l => ih (c.sub 1) n rest src l eof b hwis (by omega) hr
        simp only [itemsToks, PoeticItem.toks, List.cons_append, List.nil_append, itemsElems,
          PoeticItem.elems, lastSnap_cons]
        rw [PoeticParse.body_hyphen_word _ _ _ _ _ rfl rfl (by simpa using hww), hrec_poetic]
        simp only [PoeticParse.stepped]
        rw [hi]; rfl
      | word w k =>
        simp only [PoeticItem.toks, List.length_cons, List.length_nil] at hn
        simp only [PoeticItem.wf, Bool.and_eq_true, Bool.not_eq_true', poeticPunct, List.contains_cons,
          List.contains_nil, Bool.or_false, Bool.or_eq_false_iff, beq_eq_false_iff_ne, ne_eq] at hwi
        obtain ⟨hww, h1, h2, h3, h4⟩ := hwi
        have hi := fun l => ih (c.sub 1) n rest src l eof b hwis (by omega) hr
        have hh : isHyphen (tk (.spelled k w) ((c.sub 0).sub 0) : Tok N) = false := by
          rw [isHyphen_spelled]
          by_cases hw' : w = ['-']
          · subst hw'; rw [isWord_hyphen] at hww; cases hww
          · simp [hw']
        simp only [itemsToks, PoeticItem.toks, List.cons_append, List.nil_append, itemsElems,
          PoeticItem.elems, lastSnap_cons]
        rw [PoeticParse.body_word _ _ _ _ rfl (by simpa using h1) (by simpa using h2) (by simpa using h3)
          (by simpa using h4) hh (by simpa using hww), hrec_poetic]
        simp only [PoeticParse.stepped]
        rw [hi]; rfl

/-- the first token of a literal -/
theorem items_head (is : List PoeticItem) (c : Choices N) (hw : litWf is = true) :
    ∃ t ts, itemsToks is c = t :: ts ∧ isHyphen t = false ∧
      (litAssignable is = true → isLiteralWord t.kind = false) := by
  simp only [litWf, Bool.and_eq_true, Bool.not_eq_true'] at hw
  obtain ⟨⟨hall, hne⟩, hhy⟩ := hw
  cases is with
  | nil => simp [itemsElems] at hne
  | cons i is =>
    simp only [List.all_cons, Bool.and_eq_true] at hall
    cases i with
    | comma => exact ⟨_, _, rfl, rfl, fun _ => rfl⟩
    | dot => exact ⟨_, _, rfl, rfl, fun _ => rfl⟩
    | apos re sp => cases re <;> exact ⟨_, _, rfl, rfl, fun _ => rfl⟩
    | hyphen w k => simp [PoeticItem.isHyphen] at hhy
    | word w k =>
      refine ⟨_, _, rfl, ?_, ?_⟩
      · rw [isHyphen_spelled]
        by_cases hw' : w = ['-']
        · subst hw'
          have := hall.1
          simp [PoeticItem.wf, isWord_hyphen] at this
        · simp [hw']
      · intro ha
        simp only [litAssignable, Bool.not_eq_true'] at ha
        show isLiteralWord k = false
        revert ha
        cases k <;> simp [literalKinds, isLiteralWord]

theorem literal_run (is : List PoeticItem) (c : Choices N) (n : Nat) (rest : List (Tok N)) (src last eof b)
    (hw : litWf is = true) (hn : (itemsToks is c).length ≤ n) (hr : PoeticEnd rest) :
    parsePoeticNumberLiteral (parser n) ⟨src, itemsToks is c ++ rest, last, eof, b⟩
      = .ok (itemsElems is, ⟨src, rest, lastSnap (itemsToks is c) last, eof, b⟩) := by
  obtain ⟨t, ts, h1, h2, _⟩ := items_head is c hw
  simp only [litWf, Bool.and_eq_true, Bool.not_eq_true'] at hw
  rw [PoeticParse.literal_eq]
  · rw [items_run is c n rest src last eof b hw.1.1 hn hr]
    have hne : (itemsElems is).isEmpty = false := hw.1.2
    simp only [Outcome.bind_ok, hne, Bool.false_eq_true, if_false]
  · intro tok ts' ht
    simp only [h1, List.cons_append, List.cons.injEq] at ht
    rw [← ht.1]; exact h2

/-! ### statements that start with an assignment target -/

omit [CharOps] in
theorem id_head_kind (x : IdSpec) (c : Choices N) :
    ∃ t ts, x.toks c = t :: ts ∧ (t.kind = .word ∨ t.kind = .commonPrefix ∨ t.kind = .pronoun) := by
  cases x with
  | pronoun => exact ⟨_, _, rfl, Or.inr (Or.inr rfl)⟩
  | var v =>
    obtain ⟨t, ts, h1, h2⟩ := var_head_kind v (c.sub 0)
    exact ⟨t, ts, h1, h2.elim Or.inl (fun h => Or.inr (Or.inl h))⟩

/-- the kinds that follow the target of a poetic assignment -/
def poeticOps : List TK := [.is, .apostropheS, .apostropheRE, .says, .say]

omit [CharOps] in
theorem edgeStop_poeticOp (ec : Bool) (k : TK) (hk : k ∈ poeticOps) (c : Choices N) (ts : List (Tok N)) :
    EdgeStop ec (tk (.kw k) c :: ts) := by
  refine edgeStop_kw ec k ?_ c ts
  simp only [poeticOps, List.mem_cons, List.not_mem_nil, or_false] at hk
  rcases hk with h | h | h | h | h <;> subst h <;> decide

/-- the subscripts of a target, after its identifier -/
theorem lhsWith_run (t : Target N) (c : Choices N) (n : Nat) (rest : List (Tok N)) (src last eof b)
    (hw : t.wf = true) (hn : (t.toks c).length ≤ n) (hs : EdgeStop t.edgeCall rest) :
    parseAssignmentLhsWith (parser n) t.id.toIdent (t.id.range (c.sub 0))
        ⟨src, subsToks t.subs (c.sub 1) ++ rest, lastSnap (t.id.toks (c.sub 0)) last, eof, b⟩
      = .ok (t.lhsR c, ⟨src, rest, lastSnap (t.toks c) last, eof, b⟩) := by
  have ht := target_run t c n rest src last eof b hw hn hs
  obtain ⟨x, subs⟩ := t
  simp only [Target.wf, Bool.and_eq_true] at hw
  simp only [Target.toks, List.length_append] at hn
  have hx := ident_run x (c.sub 0) n (subsToks subs (c.sub 1) ++ rest) src last eof b hw.1.1 (by omega)
    (by
      cases subs with
      | nil => simpa [subsToks] using nextIn_sub hs.1 (ks' := [.word]) (by decide)
      | cons s ss => simp [subsToks, nextIn_cons])
  simp only [parseAssignmentLhs, Target.toks, List.append_assoc, bind_run, hx] at ht
  exact ht

/-- `parse_statement` on a target followed by `is`/`says`/…: it is a poetic assignment -/
theorem poeticAssign_dispatch (t : Target N) (c c1 : Choices N) (k : TK) (Y : List (Tok N)) (n : Nat)
    (src last eof) (hw : t.wf = true) (hn : (t.toks c).length ≤ n) (hk : k ∈ poeticOps) :
    parseStatement (parser n) ⟨src, t.toks c ++ tk (.kw k) c1 :: Y, last, eof, false⟩
      = (some <$> parsePoeticAssignment (parser n) t.id.toIdent (t.id.range (c.sub 0)))
          ⟨src, subsToks t.subs (c.sub 1) ++ tk (.kw k) c1 :: Y, lastSnap (t.id.toks (c.sub 0)) last, eof,
            false⟩ := by
  obtain ⟨x, subs⟩ := t
  simp only [Target.wf, Bool.and_eq_true] at hw
  simp only [Target.toks, List.length_append] at hn
  have hkw : k ≠ .word ∧ k ≠ .takes ∧ k ≠ .taking := by
    simp only [poeticOps, List.mem_cons, List.not_mem_nil, or_false] at hk
    rcases hk with h | h | h | h | h <;> subst h <;> decide
  have hx := ident_run x (c.sub 0) n (subsToks subs (c.sub 1) ++ tk (.kw k) c1 :: Y) src last eof false
    hw.1.1 (by omega)
    (by
      cases subs with
      | nil => simpa [subsToks, nextIn_cons] using hkw.1
      | cons s ss => simp [subsToks, nextIn_cons])
  obtain ⟨t0, ts0, h1, h2⟩ := id_head_kind x (c.sub 0)
  have hdisp : parseStatement (parser n) ⟨src, x.toks (c.sub 0) ++ (subsToks subs (c.sub 1) ++
      tk (.kw k) c1 :: Y), last, eof, false⟩
      = (some <$> parseStatementStartingWithWord (parser n)) ⟨src, x.toks (c.sub 0) ++
        (subsToks subs (c.sub 1) ++ tk (.kw k) c1 :: Y), last, eof, false⟩ := by
    rw [h1]
    rcases h2 with h2 | h2 | h2 <;> simp [parseStatement, current_run, bind_run, h2]
  simp only [Target.toks, List.append_assoc]
  rw [hdisp, map_run, map_run]
  cases subs with
  | nil =>
    simp only [subsToks, List.nil_append] at hx ⊢
    simp only [parseStatementStartingWithWord, bind_run, hx, current_run, List.head?_cons, Option.map_some,
      tk_kw_kind]
    simp only [poeticOps, List.mem_cons, List.not_mem_nil, or_false] at hk
    rcases hk with h | h | h | h | h <;> subst h <;> rfl
  | cons s ss =>
    simp only [subsToks, List.cons_append] at hx ⊢
    simp only [parseStatementStartingWithWord, bind_run, hx, current_run, List.head?_cons, Option.map_some,
      tk_kw_kind]

/-- the statement `s`, spelled with `c`, is parsed from its tokens (and nothing of `rest`); the
    lexer snapshot is known unless the statement ran into the end of the tokens -/
def SRunsW (s : SimpleStmt N) (c : Choices N) (n : Nat) (rest : List (Tok N)) (src : Str)
    (last eof : Snap) : Prop :=
  ∃ s' last', parseStatement (parser n) ⟨src, s.toks c ++ rest, last, eof, false⟩
      = .ok (some s', ⟨src, rest, last', eof, false⟩) ∧
    (rest ≠ [] → last' = lastSnap (s.toks c) last) ∧ eraseS s' = s.toStmt

theorem SRuns.weak {s : SimpleStmt N} {c : Choices N} {n : Nat} {rest : List (Tok N)} {src : Str}
    {last eof : Snap} (h : SRuns s c n rest src last eof) : SRunsW s c n rest src last eof := by
  obtain ⟨s', h1, h2⟩ := h
  exact ⟨s', _, h1, fun _ => rfl, h2⟩

omit [CharOps] in
theorem isKind3_poeticOp (k : Nat) : isKind3 k ∈ poeticOps ∧
    (isKind3 k = .is ∨ isKind3 k = .apostropheS ∨ isKind3 k = .apostropheRE) := by
  unfold isKind3
  split <;> simp [poeticOps]

theorem poeticLit_run (t : Target N) (lit : List PoeticItem) (c : Choices N) (n : Nat)
    (rest : List (Tok N)) (src last eof) (hw : (SimpleStmt.poeticLit t lit : SimpleStmt N).wf = true)
    (hn : ((SimpleStmt.poeticLit t lit : SimpleStmt N).toks c).length ≤ n)
    (hs : (SimpleStmt.poeticLit t lit : SimpleStmt N).Stop rest) :
    SRuns (.poeticLit t lit) c n rest src last eof := by
  simp only [SimpleStmt.wf, Bool.and_eq_true] at hw
  obtain ⟨⟨hwt, hwl⟩, hwa⟩ := hw
  simp only [SimpleStmt.toks, List.length_append, List.length_cons] at hn
  obtain ⟨hk1, hk2⟩ := isKind3_poeticOp (c.sub 1).choice
  obtain ⟨t0, ts0, h1, h2, h3⟩ := items_head lit (c.sub 2) hwl
  have hl := lhsWith_run t (c.sub 0) n (tk (.kw (isKind3 (c.sub 1).choice)) (c.sub 1) ::
    (itemsToks lit (c.sub 2) ++ rest)) src last eof false hwt (by omega) (edgeStop_poeticOp _ _ hk1 _ _)
  have hlit := literal_run lit (c.sub 2) n rest src
    (tk (.kw (isKind3 (c.sub 1).choice)) (c.sub 1) : Tok N).after eof false hwl (by omega) hs
  refine ⟨.poeticNum (t.lhsR (c.sub 0)) (.lit (itemsElems lit)), ?_,
    by simp [eraseS, SimpleStmt.toStmt, target_shape]⟩
  simp only [SimpleStmt.toks, List.append_assoc, List.cons_append]
  rw [poeticAssign_dispatch t (c.sub 0) (c.sub 1) _ _ n src last eof hwt (by omega) hk1, map_run,
    PoeticParse.poeticAssignment_is _ _ _ _ _ _ _ _ hl rfl (by simpa using hk2)]
  simp only [PoeticParse.stepped]
  rw [PoeticParse.rhs_literal _ _ t0 (ts0 ++ rest) (by simp [h1])
    (by simp [h1, PoeticParse.startsExpression, h2, h3 hwa]), hlit]
  simp [map_ok', lastSnap_append]

/-- the tokens of an expression start with those of its first operand -/
theorem unparse_headUnary (e : Expression N) (c : Choices N) :
    ∃ tail, unparse e c = Unary.toks e.headUnary ((((c.sub 0).sub 0).sub 0).sub 0) ++ tail := by
  simp only [unparse, logicalSyn, comparisonSyn, termSyn, factorSyn, unarySyn, spineSyn,
    Expression.headUnary, List.append_assoc]
  exact ⟨_, rfl⟩

omit [CharOps] in
theorem lit_isLiteralWord (l : LitSpec N) (k : Nat) (c : Choices N) :
    isLiteralWord (tk (l.spec k) c).kind = true := by
  cases l with
  | mysterious => rfl
  | null => rfl
  | num n => rfl
  | bool b => cases b <;> rfl
  | str s =>
    simp only [LitSpec.spec]
    split <;> rfl

/-- a right-hand side that starts with a literal word or a negative number is sent to
    `parse_expression` -/
theorem poeticStart_starts (e : Expression N) (c : Choices N) (r : List (Tok N))
    (hp : e.headUnary.poeticStart.isSome = true)
    (hfit : e.headUnary.poeticStart = some true → ∀ t, (unparse e c).head? = some t → t.spelling = ['-']) :
    ∃ t ts, unparse e c ++ r = t :: ts ∧ PoeticParse.startsExpression (unparse e c ++ r) = true := by
  obtain ⟨tail, ht⟩ := unparse_headUnary e c
  rw [ht] at hfit ⊢
  generalize e.headUnary = u at hp hfit
  generalize (((c.sub 0).sub 0).sub 0).sub 0 = cu at hfit ⊢
  obtain ⟨ops, p⟩ := u
  obtain ⟨h, subs⟩ := p
  cases ops with
  | nil =>
    cases h with
    | lit l =>
      refine ⟨_, _, rfl, ?_⟩
      simp [Unary.toks, unopsToks, Primary.toks, Prim.toks, PoeticParse.startsExpression, lit_isLiteralWord]
    | _ => simp [Unary.poeticStart] at hp
  | cons o os =>
    cases o with
    | not => simp [Unary.poeticStart] at hp
    | minus =>
      cases os with
      | cons o' os' => simp [Unary.poeticStart] at hp
      | nil =>
        cases h with
        | lit l =>
          cases l with
          | num v =>
            have hsp := hfit rfl (tk (.kw .minus) ((cu.sub 0).sub 0)) (by
              simp [Unary.toks, unopsToks, unopKind])
            refine ⟨_, _, rfl, ?_⟩
            have hh : isHyphen (tk (.kw .minus) ((cu.sub 0).sub 0) : Tok N) = true := by
              simp only [isHyphen, tk_kw_kind, beq_self_eq_true, Bool.true_and, beq_iff_eq]
              exact hsp
            simp [Unary.toks, unopsToks, unopKind, Primary.toks, Prim.toks, LitSpec.spec,
              PoeticParse.startsExpression, PoeticParse.nextIsNumber, hh]
          | _ => simp [Unary.poeticStart] at hp
        | _ => simp [Unary.poeticStart] at hp

theorem poeticExpr_run (t : Target N) (e : Expression N) (c : Choices N) (n : Nat)
    (rest : List (Tok N)) (src last eof) (hw : (SimpleStmt.poeticExpr t e).wf = true)
    (hn : ((SimpleStmt.poeticExpr t e).toks c).length ≤ n)
    (hs : (SimpleStmt.poeticExpr t e).Stop rest) (hfit : (SimpleStmt.poeticExpr t e).Fits src c rest) :
    SRuns (.poeticExpr t e) c n rest src last eof := by
  simp only [SimpleStmt.wf, Bool.and_eq_true] at hw
  obtain ⟨⟨hwt, hwe⟩, hwp⟩ := hw
  simp only [SimpleStmt.toks, List.length_append, List.length_cons] at hn
  obtain ⟨hk1, hk2⟩ := isKind3_poeticOp (c.sub 1).choice
  obtain ⟨t0, ts0, h1, h2⟩ := poeticStart_starts e (c.sub 2) rest hwp hfit
  have hl := lhsWith_run t (c.sub 0) n (tk (.kw (isKind3 (c.sub 1).choice)) (c.sub 1) ::
    (unparse e (c.sub 2) ++ rest)) src last eof false hwt (by omega) (edgeStop_poeticOp _ _ hk1 _ _)
  have he := expression_run e (c.sub 2) n rest src
    (tk (.kw (isKind3 (c.sub 1).choice)) (c.sub 1) : Tok N).after eof false hwe (by omega) hs
  refine ⟨.poeticNum (t.lhsR (c.sub 0)) (.expr (logicalLay.ast e (c.sub 2))), ?_,
    by simp [eraseS, SimpleStmt.toStmt, target_shape, expr_shape]⟩
  simp only [SimpleStmt.toks, List.append_assoc, List.cons_append]
  rw [poeticAssign_dispatch t (c.sub 0) (c.sub 1) _ _ n src last eof hwt (by omega) hk1, map_run,
    PoeticParse.poeticAssignment_is _ _ _ _ _ _ _ _ hl rfl (by simpa using hk2)]
  simp only [PoeticParse.stepped]
  rw [PoeticParse.rhs_expression _ _ t0 ts0 h1 h2, he]
  simp [map_ok', lastSnap_append]

/-! ### poetic strings -/

omit [CharOps] in
theorem dropUntil_junk (ks : List TK) (hj : ks.all (· != .newline) = true) (rest : List (Tok N))
    (hr : rest = [] ∨ nextIn [.newline] rest = true) (eof : Snap) :
    ∀ (c : Choices N) (last : Snap), dropUntil .newline eof (junkToks ks c ++ rest) last
      = (rest, if rest = [] then eof else lastSnap (junkToks ks c) last) := by
  induction ks with
  | nil =>
    intro c last
    cases rest with
    | nil => rfl
    | cons t ts =>
      rcases hr with hr | hr
      · cases hr
      · have : (t.kind == TK.newline) = true := by simpa [nextIn_cons] using hr
        simp [junkToks, dropUntil, this]
  | cons k ks ih =>
    intro c last
    simp only [List.all_cons, Bool.and_eq_true, bne_iff_ne, ne_eq] at hj
    have hk : (k == TK.newline) = false := by simpa using hj.1
    simp only [junkToks, List.cons_append, dropUntil, tk_kw_kind, hk, Bool.false_eq_true, if_false,
      lastSnap_cons]
    exact ih (by simpa using hj.2) (c.sub 1) _

omit [CharOps] in
theorem literalTextOf_lineText (src : Str) (says : Tok N) (rest : List (Tok N)) :
    literalTextOf src says rest.head? = lineText src says.start rest := by
  cases rest <;> rfl

omit [CharOps] in
theorem junk_len (ks : List TK) (c : Choices N) : (junkToks ks c).length = ks.length := by
  induction ks generalizing c with
  | nil => rfl
  | cons k ks ih => simp [junkToks, ih]

omit [CharOps] in
theorem saysKind_poeticOp (k : Nat) : saysKind k ∈ poeticOps ∧ (saysKind k = .says ∨ saysKind k = .say) := by
  unfold saysKind
  split <;> simp [poeticOps]

omit [CharOps] in
@[simp] theorem tk_kw_spelling (k : TK) (c : Choices N) : (tk (.kw k) c).spelling = c.here.spelling := rfl

theorem poeticStr_run (t : Target N) (text : Str) (junk : List TK) (c : Choices N) (n : Nat)
    (rest : List (Tok N)) (src last eof) (hw : (SimpleStmt.poeticStr t text junk : SimpleStmt N).wf = true)
    (hn : ((SimpleStmt.poeticStr t text junk : SimpleStmt N).toks c).length ≤ n)
    (hs : (SimpleStmt.poeticStr t text junk : SimpleStmt N).Stop rest)
    (hfit : (SimpleStmt.poeticStr t text junk : SimpleStmt N).Fits src c rest) :
    SRunsW (.poeticStr t text junk) c n rest src last eof := by
  simp only [SimpleStmt.wf, Bool.and_eq_true] at hw
  obtain ⟨hwt, hwj⟩ := hw
  simp only [SimpleStmt.toks, List.length_append, List.length_cons] at hn
  obtain ⟨hk1, hk2⟩ := saysKind_poeticOp (c.sub 1).choice
  have hl := lhsWith_run t (c.sub 0) n (tk (.kw (saysKind (c.sub 1).choice)) (c.sub 1) ::
    (junkToks junk (c.sub 2) ++ rest)) src last eof false hwt (by omega) (edgeStop_poeticOp _ _ hk1 _ _)
  have hdrop := dropUntil_junk junk hwj rest hs eof (c.sub 2)
    (tk (.kw (saysKind (c.sub 1).choice)) (c.sub 1) : Tok N).after
  have hfit' : lineText src (c.sub 1).here.start rest = some ((c.sub 1).here.spelling ++ ' ' :: text) := hfit
  refine ⟨.poeticStr (t.lhsR (c.sub 0)) text,
    if rest = [] then eof else lastSnap (junkToks junk (c.sub 2))
      (tk (.kw (saysKind (c.sub 1).choice)) (c.sub 1) : Tok N).after, ?_, ?_,
    by simp [eraseS, SimpleStmt.toStmt, target_shape]⟩
  · simp only [SimpleStmt.toks, List.append_assoc, List.cons_append]
    rw [poeticAssign_dispatch t (c.sub 0) (c.sub 1) _ _ n src last eof hwt (by omega) hk1, map_run,
      PoeticParse.poeticAssignment_says _ _ _ _ _ _ _ _ hl rfl hk2]
    simp only [PoeticParse.stepped]
    rw [PoeticParse.stringRhs_eq']
    simp only [PoeticParse.afterLine, hdrop, literalTextOf_lineText]
    have hst : (tk (.kw (saysKind (c.sub 1).choice)) (c.sub 1) : Tok N).start = (c.sub 1).here.start := rfl
    rw [hst, hfit']
    simp [tk_kw_spelling, PoeticParse.stripPrefix?_append, stripPrefix?, map_ok']
  · intro hne
    simp [hne, SimpleStmt.toks, lastSnap_append]

/-! ### `rock … like` -/

theorem rockLike_run (p : Primary N) (lit : List PoeticItem) (c : Choices N) (n : Nat)
    (rest : List (Tok N)) (src last eof) (hw : (SimpleStmt.rockLike p lit : SimpleStmt N).wf = true)
    (hn : ((SimpleStmt.rockLike p lit : SimpleStmt N).toks c).length ≤ n)
    (hs : (SimpleStmt.rockLike p lit : SimpleStmt N).Stop rest) :
    SRuns (.rockLike p lit) c n rest src last eof := by
  simp only [SimpleStmt.wf, Bool.and_eq_true] at hw
  simp only [SimpleStmt.toks, List.length_cons, List.length_append] at hn
  have hp := fun last => primary_run p (c.sub 1) n
    (tk (.kw .like) (c.sub 2) :: (itemsToks lit (c.sub 3) ++ rest)) src last eof false hw.1
    (by omega) (edgeStop_kw _ .like (by decide) _ _)
  have hl := fun last => literal_run lit (c.sub 3) n rest src last eof false hw.2 (by omega) hs
  refine ⟨.push (p.ast (c.sub 1)) (some (.lit (itemsElems lit))), ?_,
    by simp [eraseS, SimpleStmt.toStmt, primary_shape]⟩
  simp [SimpleStmt.toks, parseStatement, current_run, map_run, parseArrayPush, bind_run, consume_cons,
    isKind, hp, parseArrayPushRhs, mac_cons, isAnyKind, hl, pure_run]

/-! ### all one-line statements -/

/-- **all one-line statements** -/
theorem simple_run (s : SimpleStmt N) (c : Choices N) (n : Nat) (rest : List (Tok N)) (src last eof)
    (hw : s.wf = true) (hn : (s.toks c).length ≤ n) (hs : s.Stop rest) (hsane : c.Sane src)
    (hfit : s.Fits src c rest) : SRunsW s c n rest src last eof := by
  cases s with
  | say e => exact (say_run e c n rest src last eof hw hn hs).weak
  | put e t => exact (put_run e t c n rest src last eof hw hn hs).weak
  | letBe t op l => exact (let_run t op l c n rest src last eof hw hn hs).weak
  | build x m => exact (build_run x m c n rest src last eof hw hn hs).weak
  | knock x m => exact (knock_run x m c n rest src last eof hw hn hs).weak
  | listen t => exact (listen_run t c n rest src last eof hw hn hs hsane).weak
  | turn d e => exact (turn_run d e c n rest src last eof hw hn hs).weak
  | rock p vals => exact (rock_run p vals c n rest src last eof hw hn hs).weak
  | roll p into => exact (roll_run p into c n rest src last eof hw hn hs).weak
  | ret kw e => exact (ret_run kw e c n rest src last eof hw hn hs).weak
  | break_ it => exact (break_run it c n rest src last eof hw hs).weak
  | continue_ itThe => exact (continue_run itThe c n rest src last eof hw).weak
  | mutation op p into param => exact (mutation_run op p into param c n rest src last eof hw hn hs).weak
  | call f a as => exact (call_run f a as c n rest src last eof hw hn hs).weak
  | poeticLit t lit => exact (poeticLit_run t lit c n rest src last eof hw hn hs).weak
  | poeticExpr t e => exact (poeticExpr_run t e c n rest src last eof hw hn hs hfit).weak
  | poeticStr t text junk => exact poeticStr_run t text junk c n rest src last eof hw hn hs hfit
  | rockLike p lit => exact (rockLike_run p lit c n rest src last eof hw hn hs).weak

end Grammar
end Rrss
